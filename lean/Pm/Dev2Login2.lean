import Pm.Dev2Login
import Pm.ReplyProof
import Pm.Daemon
import Pm.Dev2Clip
import Pm.ToBuf
import Pm.Dev2Walk
/-! Helper lemmas for C10 (second part): `LoginHead` through `_handle_ready_device`, the ping append, the whole of
    `dev_post_poll`, the client enqueue; reachability; FIFO completions; "only the head speaks"; the device output
    buffer.  The model definitions are not touched: `handleReady` and `postPoll` are cut into pieces here and the
    pieces are proved equal to the originals. -/
namespace Pm.Dev2.Login2

/-! ## 1. `_handle_ready_device` in pieces -/

/-- the connect did not complete: `close(dev->fd); dev->fd = NO_FD`, on with the next address (`Dev2.finishConnectFail`) -/
def readyConnectFail (c : CS) : CS := finishConnectFail c

/-- what `_handle_ready_device` does with the outcome of the connect -/
def readyConnectTail (c : CS) : CS × Bool × Bool :=
  if c.dev.conn == 0 then (c, true, true)
  else if c.dev.conn == 2 then ({ c with dev := enqueueLogin c.dev }, false, true)
  else (c, false, true)

/-- `revents & POLLOUT` while CONNECTING: finish the non-blocking connect (`assert(dev->finish_connect != NULL)`: a tcp device) -/
def readyConnect (c : CS) : CS × Bool × Bool :=
  if c.dev.isPipe then ({ c with sys := c.sys ++ [.abort "assert finish_connect != NULL"], aborted := true }, false, true) else
  readyConnectTail (if (finishConnectOne c).2 then (finishConnectOne c).1 else readyConnectFail (finishConnectOne c).1)

/-- `revents & POLLOUT` while CONNECTED: flush the output buffer -/
def readyWrite (c : CS) : CS × Bool × Bool :=
  if c.dev.toBuf.isEmpty then (c, true, false)
  else if c.env.writeOk then
    if c.env.wcap == 0 then ({ c with sys := c.sys ++ [.write [] true] }, true, false)
    else ({ c with sys := c.sys ++ [.write (c.dev.toBuf.take c.env.wcap) true], dev := { c.dev with toBuf := c.dev.toBuf.drop c.env.wcap } }, false, false)
  else ({ c with sys := c.sys ++ [.write c.dev.toBuf false] }, true, false)

/-- `revents & POLLIN`: what is done with the bytes read (after the capacity half `clipRead`), through the telnet filter
    on a tcp device -/
def readyRead (c : CS) : CS × Bool :=
  match c.env.read with
  | some (some bs) =>
    if bs.isEmpty then ({ c with sys := c.sys ++ [.read 0] }, true)
    else ({ c with sys := c.sys ++ [.read bs.length],
                   dev := if c.dev.isPipe then { c.dev with fromBuf := c.dev.fromBuf ++ bs } else telnetFilter c.dev bs }, false)
  | some none => ({ c with sys := c.sys ++ [.read (-1)] }, true)
  | none => ({ c with sys := c.sys ++ [.abort "no read answer"], aborted := true }, false)

/-- the tail of `_handle_ready_device` after the write half -/
def readyTail (f : Nat) (r : CS × Bool × Bool) : CS × Bool :=
  if r.2.1 then (r.1, true) else
  if r.2.2 then (r.1, false) else
  if f &&& 1 != 0 then readyRead (clipRead r.1) else (r.1, false)

def handleReady' (c : CS) : CS × Bool :=
  let f := c.env.revents
  if c.dev.conn == 0 then ({ c with sys := c.sys ++ [.abort "assert connect_state != NOT_CONNECTED"], aborted := true }, false) else
  if c.dev.fd.isNone then ({ c with sys := c.sys ++ [.abort "assert fd != NO_FD"], aborted := true }, false) else
  if f &&& 4 != 0 || f &&& 8 != 0 || f &&& 16 != 0 then (c, true) else
  readyTail f (if f &&& 2 != 0 then (if c.dev.conn == 1 then readyConnect c else readyWrite c) else (c, false, false))

theorem handleReady_eq (c : CS) : handleReady c = handleReady' c := by
  unfold handleReady handleReady' readyTail readyConnect readyConnectTail readyConnectFail readyWrite readyRead
  rfl

/-- nothing that `LoginHead` looks at has changed -/
structure SameQueue (d d' : Dev) : Prop where
  conn : d'.conn = d.conn
  loggedIn : d'.loggedIn = d.loggedIn
  acts : d'.acts = d.acts

theorem SameQueue.loginHead {d d' : Dev} (s : SameQueue d d') (h : LoginHead d) : LoginHead d' := by
  intro h2 h3
  rw [s.conn] at h2; rw [s.loggedIn] at h3; rw [s.acts]; exact h h2 h3

theorem telnetFilter_sameQueue (d : Dev) (bs : Bytes) : SameQueue d (telnetFilter d bs) := by
  unfold telnetFilter; exact ⟨rfl, rfl, rfl⟩

theorem readyWrite_sameQueue (c : CS) : SameQueue c.dev (readyWrite c).1.dev := by
  unfold readyWrite; split
  · exact ⟨rfl, rfl, rfl⟩
  · split
    · split <;> exact ⟨rfl, rfl, rfl⟩
    · exact ⟨rfl, rfl, rfl⟩

theorem readyRead_sameQueue0 (c : CS) : SameQueue c.dev (readyRead c).1.dev := by
  unfold readyRead; split
  · split
    · exact ⟨rfl, rfl, rfl⟩
    · dsimp only; split
      · exact ⟨rfl, rfl, rfl⟩
      · exact telnetFilter_sameQueue _ _
  · exact ⟨rfl, rfl, rfl⟩
  · exact ⟨rfl, rfl, rfl⟩

theorem clipRead_sameQueue (c : CS) : SameQueue c.dev (clipRead c).dev := ⟨by simp, by simp, by simp⟩

/-- the whole read half: capacity (`clipRead`), then the bytes -/
theorem readyRead_sameQueue (c : CS) : SameQueue c.dev (readyRead (clipRead c)).1.dev :=
  ⟨(readyRead_sameQueue0 _).conn.trans (clipRead_sameQueue c).conn,
   (readyRead_sameQueue0 _).loggedIn.trans (clipRead_sameQueue c).loggedIn,
   (readyRead_sameQueue0 _).acts.trans (clipRead_sameQueue c).acts⟩

/-- finishing a connect establishes the invariant whatever the state before: when the result is CONNECTED the login
    action has just been put at the head -/
theorem readyConnectTail_loginHead (c : CS) : LoginHead (readyConnectTail c).1.dev := by
  unfold readyConnectTail
  split
  · rename_i h; exact LoginHead.of_not_connected (by simp at h; simp [h])
  · split
    · intro _ _; exact enqueueLogin_head _
    · rename_i h; exact LoginHead.of_not_connected (by simpa using h)

theorem readyConnect_loginHead (c : CS) (h : LoginHead c.dev) : LoginHead (readyConnect c).1.dev := by
  unfold readyConnect; split
  · exact h
  · exact readyConnectTail_loginHead _

theorem readyTail_loginHead (f : Nat) (r : CS × Bool × Bool) (h : LoginHead r.1.dev) : LoginHead (readyTail f r).1.dev := by
  unfold readyTail
  split
  · exact h
  · split
    · exact h
    · split
      · exact (readyRead_sameQueue r.1).loginHead h
      · exact h

/-- `_handle_ready_device` keeps `LoginHead` (aborted or not) -/
theorem handleReady_loginHead (c : CS) (h : LoginHead c.dev) : LoginHead (handleReady c).1.dev := by
  rw [handleReady_eq]; unfold handleReady'
  dsimp only
  split
  · exact h
  · split
    · exact h
    · split
      · exact h
      · apply readyTail_loginHead
        split
        · split
          · exact readyConnect_loginHead c h
          · exact (readyWrite_sameQueue c).loginHead h
        · exact h

/-! ## `dev_post_poll` in pieces -/

/-- the action `_enqueue_ping` creates -/
def pingAction (d : Dev) : Action :=
  { loginAction d with com := 6, exec := [{ block := (d.scripts 6).getD [], pos := 0, plugs := none, plugItr := none, plugCopy := none, processing := false }] }

def appendPing (now : Time) (c : CS) : CS :=
  { c with dev := { c.dev with acts := c.dev.acts ++ [pingAction c.dev], lastPing := some now } }

/-- `_enqueue_ping` with its timer -/
def postPollPing (now : Time) (r : CS × Option Time) : CS × Option Time :=
  if r.1.dev.conn == 2 && (r.1.dev.scripts 6).isSome && r.1.dev.pingPeriod > 0 then
    match r.1.dev.lastPing with
    | some t =>
      if now ≥ t + r.1.dev.pingPeriod then (appendPing now r.1, r.2)
      else (r.1, upd r.2 (t + r.1.dev.pingPeriod - now))
    | none => (appendPing now r.1, r.2)
  else r

/-- the descriptor half of `dev_post_poll` -/
def postPollReady (d : Dev) (env : Env) : CS × Bool :=
  if (if d.fd.isSome then env.revents else 0) != 0 then
    handleReady { dev := d, env := { env with revents := (if d.fd.isSome then env.revents else 0) }, sys := [] }
  else ({ dev := d, env := env, sys := [] }, false)

def postPollReconnect (r : CS × Bool) : CS × Option Time :=
  if r.2 || r.1.dev.conn == 0 then reconnectDev r.1 none else (r.1, none)

/-- everything `dev_post_poll` does before `_process_action` -/
def postPollPre (d : Dev) (env : Env) : CS × Option Time :=
  postPollPing env.now (postPollReconnect (postPollReady d env))

def postPoll' (d : Dev) (env : Env) (o : Oracle) : CS × Oracle × List Out × Option Time :=
  if (postPollReady d env).1.aborted then ((postPollReady d env).1, o, [], none) else
  processAction (postPollPre d env).1 o [] (postPollPre d env).2

theorem postPoll_eq (d : Dev) (env : Env) (o : Oracle) : postPoll d env o = postPoll' d env o := by
  unfold postPoll postPoll' postPollPre postPollPing postPollReconnect postPollReady appendPing pingAction
  rfl

/-- appending behind the head keeps the invariant -/
theorem _root_.Pm.Dev2.LoginHead.append {d d' : Dev} (h : LoginHead d) (l : List Action) (hc : d'.conn = d.conn)
    (hl : d'.loggedIn = d.loggedIn) (ha : d'.acts = d.acts ++ l) : LoginHead d' := by
  intro h2 h3
  rw [hc] at h2; rw [hl] at h3
  obtain ⟨a, r, hx, h0⟩ := h h2 h3
  exact ⟨a, r ++ l, by rw [ha, hx]; rfl, h0⟩

theorem appendPing_loginHead (now : Time) (c : CS) (h : LoginHead c.dev) : LoginHead (appendPing now c).dev :=
  h.append [pingAction c.dev] rfl rfl rfl

/-- the ping append of `dev_post_poll` -/
theorem postPollPing_loginHead (now : Time) (r : CS × Option Time) (h : LoginHead r.1.dev) :
    LoginHead (postPollPing now r).1.dev := by
  unfold postPollPing
  split
  · split
    · split
      · exact appendPing_loginHead now r.1 h
      · exact h
    · exact appendPing_loginHead now r.1 h
  · exact h

theorem postPollPing_aborted (now : Time) (r : CS × Option Time) : (postPollPing now r).1.aborted = r.1.aborted := by
  unfold postPollPing appendPing
  split
  · split
    · split <;> rfl
    · rfl
  · rfl

theorem postPollReady_loginHead (d : Dev) (env : Env) (h : LoginHead d) : LoginHead (postPollReady d env).1.dev := by
  unfold postPollReady
  generalize (if d.fd.isSome then env.revents else 0) = fl
  split
  · exact handleReady_loginHead { dev := d, env := _, sys := [] } h
  · exact h

theorem postPollReconnect_loginHead (r : CS × Bool) (h : LoginHead r.1.dev)
    (hna : (postPollReconnect r).1.aborted = false) : LoginHead (postPollReconnect r).1.dev := by
  unfold postPollReconnect at hna ⊢
  split
  · rename_i hc; simp only [hc, ↓reduceIte] at hna; exact reconnectDev_loginHead _ _ hna
  · exact h

theorem postPollPre_loginHead (d : Dev) (env : Env) (h : LoginHead d) (hna : (postPollPre d env).1.aborted = false) :
    LoginHead (postPollPre d env).1.dev := by
  unfold postPollPre at hna ⊢
  rw [postPollPing_aborted] at hna
  exact postPollPing_loginHead _ _ (postPollReconnect_loginHead _ (postPollReady_loginHead d env h) hna)

/-- a pass that does not end aborted did not start aborted -/
theorem processActionF_aborted (fuel : Nat) (c : CS) (o : Oracle) (out : List Out) (tmo : Option Time)
    (hna : (processActionF fuel c o out tmo).1.aborted = false) : c.aborted = false := by
  cases fuel with
  | zero => simp [processActionF] at hna
  | succ n =>
    unfold processActionF processActionBody at hna
    cases hc : c.aborted
    · rfl
    · simp [hc] at hna

/-- `LoginHead` through the whole of `dev_post_poll` -/
theorem postPoll_loginHead (d : Dev) (env : Env) (o : Oracle) (h : LoginHead d)
    (hna : (postPoll d env o).1.aborted = false) : LoginHead (postPoll d env o).1.dev := by
  rw [postPoll_eq] at hna ⊢
  unfold postPoll' at hna ⊢
  split
  · exact postPollReady_loginHead d env h
  · rename_i hr
    simp only [hr] at hna
    unfold processAction at hna ⊢
    exact loginHead_preserved _ _ _ _ _ (postPollPre_loginHead d env h (processActionF_aborted _ _ _ _ _ hna)) hna

/-! ## the client side: `dev_enqueue_actions` -/

theorem enqueue_appends (d : Dev) (com : Nat) (targets : List Bytes) (cid : Nat) (tele : Bool) (al : Nat) :
    ∃ l, (Pm.Daemon.enqueue d com targets cid tele al).1.acts = d.acts ++ l ∧
      (Pm.Daemon.enqueue d com targets cid tele al).1.conn = d.conn ∧
      (Pm.Daemon.enqueue d com targets cid tele al).1.loggedIn = d.loggedIn := by
  unfold Pm.Daemon.enqueue
  dsimp only
  split
  · exact ⟨[], by simp, rfl, rfl⟩
  · exact ⟨_, rfl, rfl, rfl⟩

theorem enqueue_loginHead (d : Dev) (com : Nat) (targets : List Bytes) (cid : Nat) (tele : Bool) (al : Nat)
    (h : LoginHead d) : LoginHead (Pm.Daemon.enqueue d com targets cid tele al).1 := by
  obtain ⟨l, h1, h2, h3⟩ := enqueue_appends d com targets cid tele al
  exact h.append l h2 h3 h1

/-! ## reachability -/

/-- `Reach d0 d`: the device states `d` the daemon can produce from the device state `d0`: `dev_initial_connect`
    (`connectDev` on a NOT_CONNECTED device), passes of `dev_post_poll` with any kernel answers and any regex answers, client commands
    (`dev_enqueue_actions` with any command, target list, client), and the two field updates `Pm.Daemon` makes
    around them (`devPass` hands the argument store to the device, `install` clears the retry counter).
    Passes that end in a modelled abort (an assertion of the C program, a missing answer, fuel) end the run. -/
inductive Reach (d0 : Dev) : Dev → Prop
  | init : Reach d0 d0
  | connect (d : Dev) (env : Env) : Reach d0 d → d.conn = 0 →
      (connectDev { dev := d, env := env, sys := [] }).aborted = false →
      Reach d0 (connectDev { dev := d, env := env, sys := [] }).dev
  | pass (d : Dev) (env : Env) (o : Oracle) : Reach d0 d → (postPoll d env o).1.aborted = false →
      Reach d0 (postPoll d env o).1.dev
  | enqueue (d : Dev) (com : Nat) (targets : List Bytes) (cid : Nat) (tele : Bool) (al : Nat) : Reach d0 d →
      Reach d0 (Pm.Daemon.enqueue d com targets cid tele al).1
  | store (d : Dev) (s : List (Nat × List Arg)) : Reach d0 d → Reach d0 { d with args := s }
  | retry (d : Dev) : Reach d0 d → Reach d0 { d with retryCount := 0 }

/-- C10 "login first", the invariant in every reachable state -/
theorem Reach.loginHead {d0 d : Dev} (h : Reach d0 d) (h0 : d0.conn = 0) : LoginHead d := by
  induction h with
  | init => exact LoginHead.of_not_connected (by simp [h0])
  | connect d env _ hc hna _ => exact connectDev_loginHead _ hc hna
  | pass d env o _ hna ih => exact postPoll_loginHead d env o ih hna
  | enqueue d com targets cid tele al _ ih => exact enqueue_loginHead d com targets cid tele al ih
  | store d s _ ih => exact ih
  | retry d _ ih => exact ih

/-! ## 3. completions are reported in queue order -/

/-- the client ids of the completions in an output, in order -/
def finishesOf (l : List Out) : List Nat := l.filterMap fun x => match x with | .finish cid _ => some cid | _ => none
/-- the client ids of the client actions (`clientId ≠ 0`: not login, not ping) of a queue, in queue order -/
def clientIds (acts : List Action) : List Nat := (acts.filter (·.clientId != 0)).map (·.clientId)

@[simp] theorem finishesOf_append (l m : List Out) : finishesOf (l ++ m) = finishesOf l ++ finishesOf m := by
  simp [finishesOf]
@[simp] theorem finishesOf_nil : finishesOf [] = [] := rfl
@[simp] theorem clientIds_nil : clientIds [] = [] := rfl
theorem clientIds_cons (a : Action) (r : List Action) :
    clientIds (a :: r) = (if a.clientId != 0 then [a.clientId] else []) ++ clientIds r := by
  unfold clientIds; by_cases h : a.clientId = 0 <;> simp [h]
theorem clientIds_append (l m : List Action) : clientIds (l ++ m) = clientIds l ++ clientIds m := by
  simp [clientIds]
theorem clientIds_cons_congr (a b : Action) (r : List Action) (h : a.clientId = b.clientId) :
    clientIds (a :: r) = clientIds (b :: r) := by simp [clientIds_cons, h]

theorem finishesOf_noFinish (l : List Out) (h : ∀ x ∈ l, isFinish x = false) : finishesOf l = [] := by
  induction l with
  | nil => rfl
  | cons x r ih =>
    have hx := h x (by simp)
    have := ih (fun y hy => h y (by simp [hy]))
    cases x <;> simp_all [finishesOf, isFinish]

theorem finishesOf_headFin (a : Action) (e : ActErr) :
    finishesOf (if a.clientId != 0 then [Out.finish a.clientId e] else []) = (if a.clientId != 0 then [a.clientId] else []) := by
  by_cases h : a.clientId = 0 <;> simp [h, finishesOf]

theorem finishesOf_restFin (e : ActErr) (rest : List Action) :
    finishesOf ((rest.filter (·.clientId != 0)).map fun b => Out.finish b.clientId e) = clientIds rest := by
  unfold finishesOf clientIds
  induction rest.filter (·.clientId != 0) with
  | nil => rfl
  | cons b r ih => simp [ih]

theorem rewind_clientId (a : Action) : (rewind a).clientId = a.clientId := by
  unfold rewind; split <;> rfl

theorem enqueueLogin_clientIds (d : Dev) : clientIds (enqueueLogin d).acts = clientIds d.acts := by
  unfold enqueueLogin
  cases d.acts with
  | nil => simp [clientIds_cons, loginAction]
  | cons a r => simp [clientIds_cons, loginAction, rewind_clientId]

theorem connectDev_clientIds (c : CS) : clientIds (connectDev c).dev.acts = clientIds c.dev.acts := by
  unfold connectDev
  dsimp only
  have h1 := tcpConnect_acts { c with dev := { c.dev with lastRetry := c.env.now, retryCount := c.dev.retryCount + 1 } }
  have h2 := pipeConnect_acts { c with dev := { c.dev with lastRetry := c.env.now, retryCount := c.dev.retryCount + 1 } }
  split
  · generalize pipeConnect _ = r at *
    split
    · simp [enqueueLogin_clientIds, h2]
    · simp [h2]
  · generalize tcpConnect _ = r at *
    split
    · simp [enqueueLogin_clientIds, h1]
    · simp [h1]

theorem reconnectDev_clientIds_empty (c : CS) (tmo : Option Time) (h : c.dev.acts = []) :
    clientIds (reconnectDev c tmo).1.dev.acts = [] := by
  unfold reconnectDev
  dsimp only
  have hd := disconnectDev_empty c h
  split <;> split <;> simp_all [connectDev_clientIds]

theorem failAll_fifo (rest : List Action) (c : CS) (a : Action) (o : Oracle) (out : List Out) (tmo : Option Time) :
    finishesOf (failAll rest c a o out tmo).2.2.1 = finishesOf out ++ clientIds (a :: rest) ∧
    clientIds (failAll rest c a o out tmo).1.dev.acts = [] := by
  unfold failAll
  dsimp only
  have hr := reconnectDev_clientIds_empty { c with dev := { c.dev with acts := [], xmStr := none, xmResult := false, xmUsed := false } } tmo rfl
  split
  · generalize reconnectDev _ tmo = r at *
    simp only [finishesOf_append, finishesOf_headFin, finishesOf_restFin, clientIds_cons, hr]
    simp
  · simp only [finishesOf_append, finishesOf_headFin, finishesOf_restFin, clientIds_cons]
    simp

/-- the shape of the FIFO statement: the new completions `l` are exactly what left the front of the queue -/
def Fifo (before : List Action) (out : List Out) (res : PA) : Prop :=
  ∃ l, finishesOf res.2.2.1 = finishesOf out ++ l ∧ l ++ clientIds res.1.dev.acts = clientIds before

theorem Fifo.step {before mid : List Action} {out out' : List Out} {res : PA} (pre : List Nat)
    (h : Fifo mid out' res) (ho : finishesOf out' = finishesOf out ++ pre)
    (hb : pre ++ clientIds mid = clientIds before) : Fifo before out res := by
  obtain ⟨l, h1, h2⟩ := h
  exact ⟨pre ++ l, by rw [h1, ho, List.append_assoc], by rw [List.append_assoc, h2, hb]⟩

theorem onTimeout_fifo (rest : List Action) (c : CS) (a : Action) (o : Oracle) (out : List Out) (tmo : Option Time)
    (hq : clientIds c.dev.acts = clientIds (a :: rest)) :
    Fifo (a :: rest) out (onTimeout rest c a o out tmo) := by
  unfold onTimeout
  dsimp only
  have hT := teleMem_noFinish a.clientId "recv(dev): '" c.dev.fromBuf
  generalize htele : (if a.telemetry = true then
      (if (c.dev.conn != 2) = true then [Out.telemetry a.clientId (str "connect(dev): timeout")]
       else teleMem a.clientId "recv(dev): '" c.dev.fromBuf) else []) = tele
  have hnt : ∀ x ∈ tele, isFinish x = false := by
    subst htele; intro x hx
    split at hx
    · split at hx
      · simp at hx; subst hx; rfl
      · exact hT x hx
    · simp at hx
  have h0 := finishesOf_noFinish tele hnt
  split
  · exact ⟨[], by simp [h0], by simpa using hq⟩
  · have hf := failAll_fifo rest c { a with errnum := if (c.dev.conn != 2) = true then ActErr.connectTimeout else if (!c.dev.loggedIn) = true then ActErr.loginTimeout else ActErr.expfail } o (out ++ tele) tmo
    refine ⟨clientIds (a :: rest), ?_, ?_⟩
    · rw [hf.1]; simp [h0, clientIds_cons]
    · rw [hf.2]; simp

theorem onRun_fifo (k : CS → Oracle → List Out → Option Time → PA) (rest : List Action) (c : CS) (a : Action) (o : Oracle)
    (out : List Out) (tmo : Option Time) (left : Time)
    (hk : ∀ c' o' out' tmo', Fifo c'.dev.acts out' (k c' o' out' tmo')) :
    Fifo (a :: rest) out (onRun k rest c a o out tmo left) := by
  unfold onRun
  dsimp only
  have hIL := innerLoop_noFinish c.env.now (loopBound a) { c.dev with wake := none } a o [] (by simp)
  have hIC := innerLoop_clientId c.env.now (loopBound a) { c.dev with wake := none } a o []
  generalize innerLoop c.env.now (loopBound a) { c.dev with wake := none } a o [] = r at *
  have hadv := advance_clientId r.act
  generalize advance r.act = a' at *
  have h0 := finishesOf_noFinish r.out hIL
  have hra : clientIds (r.act :: rest) = clientIds (a :: rest) := clientIds_cons_congr _ _ _ hIC
  have ha' : clientIds (a' :: rest) = clientIds (a :: rest) := clientIds_cons_congr _ _ _ (by rw [hadv, hIC])
  split
  · exact ⟨[], by simp [h0], by simpa using hra⟩
  · split
    · exact ⟨[], by simp [h0], by simpa using hra⟩
    · split
      · split
        · refine (hk _ _ _ _).step (if a'.clientId != 0 then [a'.clientId] else []) ?_ ?_
          · rw [finishesOf_append, finishesOf_append, h0, finishesOf_headFin]; simp
          · rw [← ha', clientIds_cons]
        · refine (hk _ _ _ _).step [] ?_ ?_
          · simp [h0]
          · simpa using ha'
      · have hf := failAll_fifo rest { c with dev := r.dev } r.act r.oracle (out ++ r.out) tmo
        refine ⟨clientIds (a :: rest), ?_, ?_⟩
        · rw [hf.1]; simp [h0, hra]
        · rw [hf.2]; simp

/-- C10 FIFO, one run of `_process_action`: the completions it reports are, in order, the client actions that left
    the front of the queue; what is still queued afterwards is the rest, in the same order. ∀ fuel, queue, scripts,
    oracle, environment — aborted passes included. -/
theorem processActionF_fifo (fuel : Nat) (c : CS) (o : Oracle) (out : List Out) (tmo : Option Time) :
    Fifo c.dev.acts out (processActionF fuel c o out tmo) := by
  induction fuel generalizing c o out tmo with
  | zero => exact ⟨[], by simp [processActionF, finishesOf], by simp [processActionF]⟩
  | succ n ih =>
    unfold processActionF processActionBody
    split
    · exact ⟨[], by simp, by simp⟩
    · split
      · exact ⟨[], by simp, by simp⟩
      · rename_i a0 rest hacts
        dsimp only
        have hs := stamp_clientId c.env.now a0
        generalize stamp c.env.now a0 = a at *
        have hq : clientIds c.dev.acts = clientIds (a :: rest) := by
          rw [hacts]; exact clientIds_cons_congr _ _ _ hs.symm
        have conv : ∀ res, Fifo (a :: rest) out res → Fifo c.dev.acts out res := by
          intro res ⟨l, h1, h2⟩; exact ⟨l, h1, by rw [h2, hq]⟩
        apply conv
        split
        · exact onTimeout_fifo _ _ _ _ _ _ hq
        · split
          · exact ⟨[], by simp, by simp⟩
          · exact onRun_fifo _ _ _ _ _ _ _ _ (fun c' o' out' tmo' => ih c' o' out' tmo')

/-- the reported completions are a prefix of the queue's client actions, in queue order -/
theorem processActionF_fifo_prefix (fuel : Nat) (c : CS) (o : Oracle) (out : List Out) (tmo : Option Time) :
    ∃ n, finishesOf (processActionF fuel c o out tmo).2.2.1 = finishesOf out ++ (clientIds c.dev.acts).take n := by
  obtain ⟨l, h1, h2⟩ := processActionF_fifo fuel c o out tmo
  exact ⟨l.length, by rw [h1, ← h2]; simp⟩

/-! ## 2. only the head speaks -/

/-- one iteration of `onRun` with a flag (`true` = the loop goes on) in place of the continuation -/
def onRunStep (rest : List Action) (c : CS) (a : Action) (o : Oracle) (out : List Out) (tmo : Option Time) (left : Time) : PA × Bool :=
  let d := c.dev
  let r := innerLoop c.env.now (loopBound a) { d with wake := none } a o []
  let out := out ++ r.out
  if hasAbort r.out then
    (({ c with dev := { r.dev with acts := r.act :: rest }, aborted := true }, r.oracle, out, tmo), false) else
  if !r.finished then (({ c with dev := { r.dev with acts := r.act :: rest } }, r.oracle, out,
    upd (match r.dev.wake with | some w => upd tmo w | none => tmo) left), false)
  else if r.act.errnum == .success then
    let a' := advance r.act
    if a'.exec.isEmpty then
      let fin := if a'.clientId != 0 then [Out.finish a'.clientId .success] else []
      let dev := { r.dev with acts := rest, loggedIn := r.dev.loggedIn || a'.com == 0, statActions := r.dev.statActions + 1, xmStr := none, xmResult := false, xmUsed := false }
      (({ c with dev := dev }, r.oracle, out ++ fin, tmo), true)
    else (({ c with dev := { r.dev with acts := a' :: rest } }, r.oracle, out, tmo), true)
  else (failAll rest { c with dev := r.dev } r.act r.oracle out tmo, false)

/-- continue with `k` or stop -/
def andThen (s : PA × Bool) (k : CS → Oracle → List Out → Option Time → PA) : PA :=
  if s.2 then k s.1.1 s.1.2.1 s.1.2.2.1 s.1.2.2.2 else s.1

theorem onRun_eq_step (k : CS → Oracle → List Out → Option Time → PA) (rest : List Action) (c : CS) (a : Action) (o : Oracle)
    (out : List Out) (tmo : Option Time) (left : Time) :
    onRun k rest c a o out tmo left = andThen (onRunStep rest c a o out tmo left) k := by
  unfold onRun onRunStep andThen
  dsimp only
  split
  · rfl
  · split
    · rfl
    · split
      · split <;> rfl
      · rfl

/-- one iteration of `_process_action`'s while loop, with a flag in place of the continuation -/
def bodyStep (c : CS) (o : Oracle) (out : List Out) (tmo : Option Time) : PA × Bool :=
  if c.aborted then ((c, o, out, tmo), false) else
  match c.dev.acts with
  | [] => ((c, o, out, tmo), false)
  | a0 :: rest =>
    let now := c.env.now
    let a := stamp now a0
    let deadline := a.timeStamp.getD now + c.dev.timeout
    if now ≥ deadline then (onTimeout rest c a o out tmo, false)
    else if c.dev.conn != 2 then
      (({ c with dev := { c.dev with acts := a :: rest } }, o, out, upd tmo (deadline - now)), false)
    else onRunStep rest c a o out tmo (deadline - now)

theorem processActionBody_eq_step (k : CS → Oracle → List Out → Option Time → PA) (c : CS) (o : Oracle) (out : List Out)
    (tmo : Option Time) : processActionBody k c o out tmo = andThen (bodyStep c o out tmo) k := by
  unfold processActionBody bodyStep
  by_cases hab : c.aborted = true
  · simp only [hab, ↓reduceIte]; rfl
  · simp only [hab, Bool.false_eq_true, ↓reduceIte]
    cases hacts : c.dev.acts with
    | nil => rfl
    | cons a0 rest =>
      dsimp only
      split
      · rfl
      · split
        · rfl
        · exact onRun_eq_step ..

/-- `_process_action` as an iterated step: this is what justifies reading `bodyStep` as "one iteration" -/
theorem processActionF_succ (fuel : Nat) (c : CS) (o : Oracle) (out : List Out) (tmo : Option Time) :
    processActionF (fuel + 1) c o out tmo = andThen (bodyStep c o out tmo) (processActionF fuel) := by
  rw [processActionF, processActionBody_eq_step]

/-- the payloads of the `send` statements in an output, in order -/
def sentsOf (l : List Out) : List Bytes := l.filterMap fun x => match x with | .sent b => some b | _ => none

@[simp] theorem sentsOf_append (l m : List Out) : sentsOf (l ++ m) = sentsOf l ++ sentsOf m := by simp [sentsOf]
@[simp] theorem sentsOf_nil : sentsOf [] = [] := rfl

theorem teleMem_noSent (cid pre bs) : sentsOf (teleMem cid pre bs) = [] := by
  unfold teleMem; split <;> rfl

theorem sentsOf_headFin (a : Action) (e : ActErr) :
    sentsOf (if a.clientId != 0 then [Out.finish a.clientId e] else []) = [] := by
  split <;> rfl

@[simp] theorem sentsOf_ite_fin (p : Prop) [Decidable p] (x : Nat) (e : ActErr) :
    sentsOf (if p then [] else [Out.finish x e]) = [] := by split <;> rfl

theorem sentsOf_restFin (e : ActErr) (l : List Action) : sentsOf (l.map fun b => Out.finish b.clientId e) = [] := by
  induction l with
  | nil => rfl
  | cons b r ih => simp [sentsOf] at ih ⊢

theorem failAll_sents (rest : List Action) (c : CS) (a : Action) (o : Oracle) (out : List Out) (tmo : Option Time) :
    sentsOf (failAll rest c a o out tmo).2.2.1 = sentsOf out := by
  unfold failAll
  dsimp only
  split <;> simp [sentsOf_restFin]

theorem onTimeout_sents (rest : List Action) (c : CS) (a : Action) (o : Oracle) (out : List Out) (tmo : Option Time) :
    sentsOf (onTimeout rest c a o out tmo).2.2.1 = sentsOf out := by
  unfold onTimeout
  dsimp only
  have hT := teleMem_noSent a.clientId "recv(dev): '" c.dev.fromBuf
  generalize htele : (if a.telemetry = true then
      (if (c.dev.conn != 2) = true then [Out.telemetry a.clientId (str "connect(dev): timeout")]
       else teleMem a.clientId "recv(dev): '" c.dev.fromBuf) else []) = tele
  have h0 : sentsOf tele = [] := by
    subst htele
    split
    · split
      · rfl
      · exact hT
    · rfl
  split
  · simp [h0]
  · rw [failAll_sents]; simp [h0]

theorem onRunStep_sents (rest : List Action) (c : CS) (a : Action) (o : Oracle) (out : List Out) (tmo : Option Time) (left : Time) :
    sentsOf (onRunStep rest c a o out tmo left).1.2.2.1 =
      sentsOf out ++ sentsOf (innerLoop c.env.now (loopBound a) { c.dev with wake := none } a o []).out := by
  unfold onRunStep
  dsimp only
  generalize innerLoop c.env.now (loopBound a) { c.dev with wake := none } a o [] = r
  split
  · simp
  · split
    · simp
    · split
      · split
        · simp
        · simp
      · rw [failAll_sents]; simp

/-- the action whose statements this iteration executes, if it executes any: the loop is not aborted, the queue is
    not empty, the head's deadline has not passed, the device is connected — and then it is the head of the queue
    (with its time stamp set) -/
def speaker (c : CS) : Option Action :=
  if c.aborted then none else
  match c.dev.acts with
  | [] => none
  | a0 :: _ =>
    if c.env.now ≥ (stamp c.env.now a0).timeStamp.getD c.env.now + c.dev.timeout then none
    else if c.dev.conn != 2 then none
    else some (stamp c.env.now a0)

/-- what the statement interpreter emits in this iteration: `innerLoop` applied to the speaker -/
def spoken (c : CS) (o : Oracle) : List Out :=
  match speaker c with
  | some a => (innerLoop c.env.now (loopBound a) { c.dev with wake := none } a o []).out
  | none => []

/-- the speaker is the head of the queue (by definition; stated for the record) -/
theorem speaker_is_head (c : CS) (a : Action) (h : speaker c = some a) :
    ∃ a0 rest, c.dev.acts = a0 :: rest ∧ a = stamp c.env.now a0 ∧ c.dev.conn = 2 ∧ c.aborted = false := by
  unfold speaker at h
  split at h
  · cases h
  · split at h
    · cases h
    · rename_i a0 rest hacts
      split at h
      · cases h
      · split at h
        · cases h
        · rename_i hc
          exact ⟨a0, rest, hacts, by cases h; rfl, by simpa using hc, by simp_all⟩

/-- one iteration sends exactly what the interpreter run on the head of the queue sends — nothing else in the
    iteration (time-out telemetry, completions, the error branch, reconnect) sends anything -/
theorem bodyStep_sents (c : CS) (o : Oracle) (out : List Out) (tmo : Option Time) :
    sentsOf (bodyStep c o out tmo).1.2.2.1 = sentsOf out ++ sentsOf (spoken c o) := by
  unfold bodyStep spoken speaker
  by_cases hab : c.aborted = true
  · simp [hab]
  · simp only [hab, Bool.false_eq_true, ↓reduceIte]
    cases hacts : c.dev.acts with
    | nil => simp
    | cons a0 rest =>
      dsimp only
      split
      · simp [onTimeout_sents]
      · split
        · simp
        · rw [onRunStep_sents]; simp [hacts]

/-- the states in which the iterations of one run of `_process_action` begin -/
def iterStates : Nat → CS → Oracle → List Out → Option Time → List (CS × Oracle)
  | 0, _, _, _, _ => []
  | fuel + 1, c, o, out, tmo =>
    (c, o) :: (if (bodyStep c o out tmo).2 then
      iterStates fuel (bodyStep c o out tmo).1.1 (bodyStep c o out tmo).1.2.1 (bodyStep c o out tmo).1.2.2.1 (bodyStep c o out tmo).1.2.2.2
      else [])

/-- C10 "only the head speaks", one run of `_process_action`: what the run sends is the concatenation, over its
    iterations, of what the statement interpreter sent when applied to the head of the queue of that iteration -/
theorem processActionF_sents (fuel : Nat) (c : CS) (o : Oracle) (out : List Out) (tmo : Option Time) :
    sentsOf (processActionF fuel c o out tmo).2.2.1 =
      sentsOf out ++ (iterStates fuel c o out tmo).flatMap fun s => sentsOf (spoken s.1 s.2) := by
  induction fuel generalizing c o out tmo with
  | zero => simp [processActionF, iterStates, sentsOf]
  | succ n ih =>
    rw [processActionF_succ]
    unfold andThen iterStates
    have hb := bodyStep_sents c o out tmo
    generalize bodyStep c o out tmo = s at *
    cases hs : s.2
    · simp [hb]
    · simp [ih, hb]

theorem onRunStep_loginHead (rest : List Action) (c : CS) (a : Action) (o : Oracle)
    (out : List Out) (tmo : Option Time) (left : Time)
    (hpre : c.dev.conn = 2 → c.dev.loggedIn = false → a.com = 0)
    (hgo : (onRunStep rest c a o out tmo left).2 = true) :
    LoginHead (onRunStep rest c a o out tmo left).1.1.dev := by
  unfold onRunStep at hgo ⊢
  dsimp only at hgo ⊢
  have hL := innerLoop_link c.env.now (loopBound a) { c.dev with wake := none } a o []
  generalize innerLoop c.env.now (loopBound a) { c.dev with wake := none } a o [] = r at *
  have hadv := advance_com r.act
  generalize advance r.act = a' at *
  obtain ⟨⟨hconn, hlog⟩, hcom⟩ := hL
  simp only at hconn hlog
  split
  · rename_i h; simp [h] at hgo
  · rename_i h1
    simp only [h1] at hgo
    split
    · rename_i h2; simp [h2] at hgo
    · rename_i h2
      simp only [h2] at hgo
      split
      · split
        · intro hc2 hl
          exfalso
          simp at hc2 hl
          have := hpre (by rw [← hconn]; exact hc2) (by rw [← hlog]; exact hl.1)
          rw [hadv, hcom, this] at hl; simp at hl
        · intro hc2 hl
          exact ⟨a', rest, rfl, by rw [hadv, hcom]; exact hpre (by simpa [hconn] using hc2) (by simpa [hlog] using hl)⟩
      · rename_i h3; simp [h3] at hgo

theorem bodyStep_loginHead (c : CS) (o : Oracle) (out : List Out) (tmo : Option Time) (h : LoginHead c.dev)
    (hgo : (bodyStep c o out tmo).2 = true) : LoginHead (bodyStep c o out tmo).1.1.dev := by
  unfold bodyStep at hgo ⊢
  by_cases hab : c.aborted = true
  · simp [hab] at hgo
  · simp only [hab, Bool.false_eq_true, ↓reduceIte] at hgo ⊢
    cases hacts : c.dev.acts with
    | nil => simp [hacts] at hgo
    | cons a0 rest =>
      simp only [hacts] at hgo ⊢
      have hs := stamp_com c.env.now a0
      generalize stamp c.env.now a0 = a at *
      have hpre : c.dev.conn = 2 → c.dev.loggedIn = false → a.com = 0 := by
        intro h2 h3
        obtain ⟨x, r, hx, hx0⟩ := h h2 h3
        rw [hacts] at hx; cases hx; rw [hs]; exact hx0
      split
      · rename_i ht; simp [ht] at hgo
      · rename_i ht
        simp only [ht, ↓reduceIte] at hgo
        split
        · rename_i hc; simp [hc] at hgo
        · rename_i hc
          simp only [hc] at hgo
          exact onRunStep_loginHead _ _ _ _ _ _ _ hpre hgo

theorem iterStates_loginHead (fuel : Nat) (c : CS) (o : Oracle) (out : List Out) (tmo : Option Time)
    (h : LoginHead c.dev) : ∀ s ∈ iterStates fuel c o out tmo, LoginHead s.1.dev := by
  induction fuel generalizing c o out tmo with
  | zero => intro s hs; simp [iterStates] at hs
  | succ n ih =>
    intro s hs
    unfold iterStates at hs
    rw [List.mem_cons] at hs
    rcases hs with hs | hs
    · subst hs; exact h
    · split at hs
      · rename_i hgo
        exact ih _ _ _ _ (bodyStep_loginHead c o out tmo h hgo) s hs
      · simp at hs

/-- under `LoginHead`, whoever speaks on a connection that is not logged in is the login script -/
theorem speaker_login (c : CS) (a : Action) (h : LoginHead c.dev) (hs : speaker c = some a)
    (hl : c.dev.loggedIn = false) : a.com = 0 := by
  obtain ⟨a0, rest, hacts, ha, hc, _⟩ := speaker_is_head c a hs
  obtain ⟨x, r, hx, hx0⟩ := h hc hl
  rw [hacts] at hx; cases hx
  rw [ha, stamp_com]; exact hx0

/-- C10 "login first" for the bytes: in every iteration of a run of `_process_action` that begins on a connection
    that is not logged in, the action whose statements are executed — the only source of sent bytes in that
    iteration (`bodyStep_sents`) — is the login action -/
theorem login_speaks_first (fuel : Nat) (c : CS) (o : Oracle) (out : List Out) (tmo : Option Time)
    (h : LoginHead c.dev) :
    ∀ s ∈ iterStates fuel c o out tmo, ∀ a, speaker s.1 = some a → s.1.dev.loggedIn = false → a.com = 0 :=
  fun s hs a hsp hl => speaker_login s.1 a (iterStates_loginHead fuel c o out tmo h s hs) hsp hl

/-- a head that did not finish its statement (an `expect` without its reply, a `send` not yet flushed, a `delay`
    not yet over) ends the run: no later action is looked at in this pass, and the head keeps its place -/
theorem bodyStep_stalled (c : CS) (o : Oracle) (out : List Out) (tmo : Option Time) (a : Action)
    (hs : speaker c = some a)
    (hst : (innerLoop c.env.now (loopBound a) { c.dev with wake := none } a o []).finished = false) :
    (bodyStep c o out tmo).2 = false ∧
    (bodyStep c o out tmo).1.1.dev.acts = (innerLoop c.env.now (loopBound a) { c.dev with wake := none } a o []).act :: c.dev.acts.tail := by
  obtain ⟨a0, rest, hacts, ha, hc, hab⟩ := speaker_is_head c a hs
  have ht : ¬ c.env.now ≥ (stamp c.env.now a0).timeStamp.getD c.env.now + c.dev.timeout := by
    intro ht
    unfold speaker at hs
    simp [hab, hacts, ht] at hs
  subst ha
  have hb : bodyStep c o out tmo = onRunStep rest c (stamp c.env.now a0) o out tmo
      ((stamp c.env.now a0).timeStamp.getD c.env.now + c.dev.timeout - c.env.now) := by
    unfold bodyStep
    simp only [hab, Bool.false_eq_true, ↓reduceIte, hacts, ht, hc, bne_self_eq_false]
  rw [hb, hacts]
  unfold onRunStep
  dsimp only
  generalize innerLoop c.env.now (loopBound (stamp c.env.now a0)) { c.dev with wake := none } (stamp c.env.now a0) o [] = r at *
  split
  · exact ⟨rfl, rfl⟩
  · simp [hst]

/-! ## 4. the device output buffer -/

def isSent : Out → Bool | .sent _ => true | _ => false

theorem sentsOf_noSent (l : List Out) (h : ∀ x ∈ l, isSent x = false) : sentsOf l = [] := by
  induction l with
  | nil => rfl
  | cons x r ih =>
    have hx := h x (by simp)
    have := ih (fun y hy => h y (by simp [hy]))
    cases x <;> simp_all [sentsOf, isSent]

/-- the bytes of the `send` statements in an output, concatenated in order -/
def sentBytes (l : List Out) : Bytes := (sentsOf l).flatten

@[simp] theorem sentBytes_append (l m : List Out) : sentBytes (l ++ m) = sentBytes l ++ sentBytes m := by
  simp [sentBytes]
@[simp] theorem sentBytes_nil : sentBytes [] = [] := rfl

theorem teleMem_noSent' (cid pre bs) : ∀ x ∈ teleMem cid pre bs, isSent x = false := by
  unfold teleMem; grind [isSent]
theorem askRx_noSent (o pat s) : ∀ x ∈ (askRx o pat s).2.2, isSent x = false := by
  unfold askRx; grind [isSent]

theorem pickState_noSent (s : Bytes) (l : List (PState × Nat)) (o : Oracle) (errs : List Out)
    (h : ∀ x ∈ errs, isSent x = false) : ∀ x ∈ (pickState askRx s l o errs).2.2, isSent x = false := by
  induction l generalizing o errs with
  | nil => simpa [pickState] using h
  | cons p r ih =>
    obtain ⟨st, pat⟩ := p
    unfold pickState
    have h2 := askRx_noSent o pat s
    dsimp only
    split
    · intro x hx; simp at hx; rcases hx with hx | hx
      · exact h x hx
      · exact h2 x hx
    · apply ih; intro x hx; simp at hx; rcases hx with hx | hx
      · exact h x hx
      · exact h2 x hx

theorem pickResult_noSent (s : Bytes) (l : List (PResult × Nat)) (o : Oracle) (errs : List Out)
    (h : ∀ x ∈ errs, isSent x = false) : ∀ x ∈ (pickResult askRx s l o errs).2.2, isSent x = false := by
  induction l generalizing o errs with
  | nil => simpa [pickResult] using h
  | cons p r ih =>
    obtain ⟨st, pat⟩ := p
    unfold pickResult
    have h2 := askRx_noSent o pat s
    dsimp only
    split
    · intro x hx; simp at hx; rcases hx with hx | hx
      · exact h x hx
      · exact h2 x hx
    · apply ih; intro x hx; simp at hx; rcases hx with hx | hx
      · exact h x hx
      · exact h2 x hx

/-- what a statement does to the output buffer: it queues what it reports as sent behind what is queued, nothing else.
    `dev->to` holds 65536 bytes (`clipTo`: the oldest queued bytes give way beyond that); the buffer the statement finds is
    within the capacity (`C09_device_out_capacity`: every reachable one is) -/
structure BufFrame (d : Dev) (r : StepR) : Prop where
  toBuf : d.toBuf.length ≤ 65536 → r.dev.toBuf = clipTo (d.toBuf ++ sentBytes r.out)
  retry : r.dev.retryCount = d.retryCount

theorem BufFrame.of_noSent {d : Dev} {r : StepR} (h1 : r.dev.toBuf = d.toBuf) (h2 : r.dev.retryCount = d.retryCount)
    (h3 : ∀ x ∈ r.out, isSent x = false) : BufFrame d r :=
  ⟨fun hc => by rw [h1, sentBytes, sentsOf_noSent _ h3, List.flatten_nil, List.append_nil, clipTo_of_le _ hc], h2⟩

theorem stmtExpect_buf (d a o pat) : BufFrame d (stmtExpect d a o pat) := by
  have h1 := askRx_noSent
  have h2 := teleMem_noSent'
  apply BufFrame.of_noSent
  · unfold stmtExpect; grind
  · unfold stmtExpect; grind
  · unfold stmtExpect; grind [isSent]
theorem stmtDelay_buf (d a o e now us) : BufFrame d (stmtDelay d a o e now us) := by
  apply BufFrame.of_noSent
  · unfold stmtDelay; grind
  · unfold stmtDelay; grind
  · unfold stmtDelay; grind [isSent]
theorem stmtSetplugstate_buf (d a o e l p s i) : BufFrame d (stmtSetplugstate d a o e l p s i) := by
  have h1 := fun s l o => pickState_noSent s l o [] (by simp)
  apply BufFrame.of_noSent
  · unfold stmtSetplugstate; grind [setArgs]
  · unfold stmtSetplugstate; grind [setArgs]
  · unfold stmtSetplugstate; grind [isSent]
theorem stmtSetresult_buf (d a o p s i) : BufFrame d (stmtSetresult d a o p s i) := by
  have h1 := fun s l o => pickResult_noSent s l o [] (by simp)
  apply BufFrame.of_noSent
  · unfold stmtSetresult; grind [setArgs]
  · unfold stmtSetresult; grind [setArgs]
  · unfold stmtSetresult; grind [isSent]
theorem stmtForeach_buf (d a o e b n) : BufFrame d (stmtForeach d a o e b n) := by
  apply BufFrame.of_noSent
  · unfold stmtForeach; grind
  · unfold stmtForeach; grind
  · unfold stmtForeach; grind [isSent]
theorem stmtIf_buf (d a o e b n) : BufFrame d (stmtIf d a o e b n) := by
  apply BufFrame.of_noSent
  · unfold stmtIf; grind
  · unfold stmtIf; grind
  · unfold stmtIf; grind [isSent]

theorem sentBytes_sent_tele (s : Bytes) (a : Action) (ov : Bool) :
    sentBytes ([Out.sent s] ++ if ov = true then [] else if a.telemetry = true then teleMem a.clientId "send(dev): '" s else []) = s := by
  have h1 := teleMem_noSent a.clientId "send(dev): '" s
  have h2 : sentBytes (if ov = true then [] else if a.telemetry = true then teleMem a.clientId "send(dev): '" s else []) = [] := by
    split
    · rfl
    · split
      · simp [sentBytes, h1]
      · rfl
  rw [sentBytes_append, h2]; simp [sentBytes, sentsOf]

theorem stmtSend_buf (d a o e fmt) : BufFrame d (stmtSend d a o e fmt) := by
  unfold stmtSend
  split
  · dsimp only
    split
    · exact ⟨fun hc => by simp [sentBytes, sentsOf, clipTo_of_le _ hc], rfl⟩
    · split
      · exact ⟨fun _ => by rw [sentBytes_sent_tele], rfl⟩
      · exact ⟨fun _ => by rw [sentBytes_sent_tele], rfl⟩
  · split
    · exact ⟨fun hc => by simp [clipTo_of_le _ hc], rfl⟩
    · exact ⟨fun hc => by simp [clipTo_of_le _ hc], rfl⟩

theorem processStmt_buf (d : Dev) (a : Action) (o : Oracle) (now : Time) : BufFrame d (processStmt d a o now) := by
  unfold processStmt
  dsimp only
  split
  · exact ⟨fun hc => by simp [sentBytes, sentsOf, clipTo_of_le _ hc], rfl⟩
  all_goals first
    | exact stmtExpect_buf _ _ _ _
    | exact stmtSend_buf _ _ _ _ _
    | exact stmtDelay_buf _ _ _ _ _ _
    | exact stmtSetplugstate_buf _ _ _ _ _ _ _ _
    | exact stmtSetresult_buf _ _ _ _ _ _
    | exact stmtForeach_buf _ _ _ _ _ _
    | exact stmtIf_buf _ _ _ _ _ _

/-- the interpreter queues in the output buffer exactly the bytes it reports as sent, in order (beyond 65536 bytes the oldest
    queued bytes give way: `clipTo`) -/
theorem innerLoop_buf (now : Time) (fuel : Nat) (d : Dev) (a : Action) (o : Oracle) (acc : List Out)
    (hc : d.toBuf.length ≤ 65536) :
    ∃ new, (innerLoop now fuel d a o acc).out = acc ++ new ∧
      (innerLoop now fuel d a o acc).dev.toBuf = clipTo (d.toBuf ++ sentBytes new) ∧
      (innerLoop now fuel d a o acc).dev.retryCount = d.retryCount := by
  induction fuel generalizing d a o acc with
  | zero =>
    have hp := processStmt_buf d a o now
    exact ⟨(processStmt d a o now).out, by simp [innerLoop], by simpa [innerLoop] using hp.toBuf hc, by simpa [innerLoop] using hp.retry⟩
  | succ n ih =>
    unfold innerLoop; dsimp only
    have hp := processStmt_buf d a o now
    split
    · have hc' : (processStmt d a o now).dev.toBuf.length ≤ 65536 := by rw [hp.toBuf hc]; exact clipTo_length_le _
      obtain ⟨new, h1, h2, h3⟩ := ih (processStmt d a o now).dev (processStmt d a o now).act (processStmt d a o now).oracle (acc ++ (processStmt d a o now).out) hc'
      exact ⟨(processStmt d a o now).out ++ new, by rw [h1, List.append_assoc],
        by rw [h2, hp.toBuf hc, clipTo_clipTo_append, sentBytes_append, List.append_assoc], by rw [h3, hp.retry]⟩
    · exact ⟨(processStmt d a o now).out, rfl, hp.toBuf hc, hp.retry⟩

theorem finishConnectOne_buf (c : CS) : (finishConnectOne c).1.dev.toBuf = c.dev.toBuf ∧
    (finishConnectOne c).1.dev.retryCount = c.dev.retryCount := by
  unfold finishConnectOne; grind
theorem connectOne_buf (c : CS) : (connectOne c).1.dev.toBuf = c.dev.toBuf ∧
    (connectOne c).1.dev.retryCount = c.dev.retryCount := ⟨(connectOne_frame c).dev.toBuf, (connectOne_frame c).dev.retryCount⟩
theorem tcpConnect_buf (c : CS) : (tcpConnect c).1.dev.toBuf = c.dev.toBuf ∧
    (tcpConnect c).1.dev.retryCount = c.dev.retryCount := ⟨(tcpConnect_frame c).dev.toBuf, (tcpConnect_frame c).dev.retryCount⟩
theorem pipeConnect_buf (c : CS) : (pipeConnect c).1.dev.toBuf = c.dev.toBuf ∧
    (pipeConnect c).1.dev.retryCount = c.dev.retryCount := by
  unfold pipeConnect; grind

theorem enqueueLogin_buf (d : Dev) : (enqueueLogin d).toBuf = d.toBuf ∧ (enqueueLogin d).retryCount = d.retryCount := by
  unfold enqueueLogin; exact ⟨rfl, rfl⟩

/-- `_connect` leaves the output buffer alone and counts one more attempt -/
theorem connectDev_buf (c : CS) : (connectDev c).dev.toBuf = c.dev.toBuf ∧
    (connectDev c).dev.retryCount = c.dev.retryCount + 1 := by
  unfold connectDev
  dsimp only
  have h1 := tcpConnect_buf { c with dev := { c.dev with lastRetry := c.env.now, retryCount := c.dev.retryCount + 1 } }
  have h2 := pipeConnect_buf { c with dev := { c.dev with lastRetry := c.env.now, retryCount := c.dev.retryCount + 1 } }
  split
  · generalize pipeConnect _ = r at *
    split
    · exact ⟨by simpa [enqueueLogin_buf] using h2.1, by simpa [enqueueLogin_buf] using h2.2⟩
    · exact h2
  · generalize tcpConnect _ = r at *
    split
    · exact ⟨by simpa [enqueueLogin_buf] using h1.1, by simpa [enqueueLogin_buf] using h1.2⟩
    · exact h1

theorem disconnectDev_buf (c : CS) : (disconnectDev c).dev.toBuf = [] ∧ (disconnectDev c).dev.fromBuf = [] ∧
    (disconnectDev c).dev.retryCount = c.dev.retryCount := by
  unfold disconnectDev
  refine ⟨rfl, rfl, ?_⟩
  dsimp only
  split <;> split <;> rfl

/-- `_reconnect` of a device that is not NOT_CONNECTED goes through `_disconnect`: the output buffer is flushed, and
    either the device stays NOT_CONNECTED (too early to retry) or one more connect attempt is counted -/
theorem reconnectDev_flush (c : CS) (tmo : Option Time) (h : c.dev.conn ≠ 0) :
    (reconnectDev c tmo).1.dev.toBuf = [] ∧
    ((reconnectDev c tmo).1.dev.conn = 0 ∨ (reconnectDev c tmo).1.dev.retryCount = c.dev.retryCount + 1) := by
  unfold reconnectDev
  dsimp only
  have hd := disconnectDev_buf c
  have hc := disconnectDev_conn c
  have hcon := connectDev_buf (disconnectDev c)
  simp only [bne_iff_ne, ne_eq, h, not_false_eq_true, ↓reduceIte]
  split
  · exact ⟨by rw [hcon.1, hd.1], Or.inr (by rw [hcon.2, hd.2.2])⟩
  · exact ⟨hd.1, Or.inl hc⟩
  · exact ⟨hd.1, Or.inl hc⟩

/-- `_reconnect` of a NOT_CONNECTED device does not touch the output buffer -/
theorem reconnectDev_idle (c : CS) (tmo : Option Time) (h : c.dev.conn = 0) :
    (reconnectDev c tmo).1.dev.toBuf = c.dev.toBuf := by
  unfold reconnectDev
  dsimp only
  simp only [h, bne_self_eq_false, Bool.false_eq_true, ↓reduceIte]
  split
  · exact (connectDev_buf c).1
  · rfl
  · rfl

/-- how a piece of `_process_action` may change the output buffer of device `d`, reporting `bytes` as sent:
    either it queued exactly these bytes behind what was queued — `clipTo`: the last 65536 bytes of the two together, the
    capacity of `dev->to` — (and neither the connection state nor the retry counter moved), or the
    device was connected and went through `_disconnect` (the buffer is empty; visible as: no longer CONNECTED, or one
    more connect attempt counted) -/
def BufStep (d : Dev) (bytes : Bytes) (d' : Dev) : Prop :=
  (d'.toBuf = clipTo (d.toBuf ++ bytes) ∧ d'.conn = d.conn ∧ d'.retryCount = d.retryCount) ∨
  (d'.toBuf = [] ∧ d.conn = 2 ∧ (d'.conn ≠ 2 ∨ d'.retryCount = d.retryCount + 1))

theorem failAll_buf (rest : List Action) (c : CS) (a : Action) (o : Oracle) (out : List Out) (tmo : Option Time)
    (hcap : c.dev.toBuf.length ≤ 65536) :
    BufStep c.dev [] (failAll rest c a o out tmo).1.dev := by
  unfold failAll
  dsimp only
  split
  · rename_i h2
    have h2' : c.dev.conn = 2 := by simpa using h2
    have := reconnectDev_flush { c with dev := { c.dev with acts := [], xmStr := none, xmResult := false, xmUsed := false } } tmo (by simp [h2'])
    generalize reconnectDev _ tmo = r at *
    right
    refine ⟨this.1, h2', ?_⟩
    rcases this.2 with h | h
    · left; simp [h]
    · right; exact h
  · left; exact ⟨by simp [clipTo_of_le _ hcap], rfl, rfl⟩

theorem onTimeout_buf (rest : List Action) (c : CS) (a : Action) (o : Oracle) (out : List Out) (tmo : Option Time)
    (hcap : c.dev.toBuf.length ≤ 65536) :
    BufStep c.dev [] (onTimeout rest c a o out tmo).1.dev := by
  unfold onTimeout
  dsimp only
  generalize (if a.telemetry = true then
      (if (c.dev.conn != 2) = true then [Out.telemetry a.clientId (str "connect(dev): timeout")]
       else teleMem a.clientId "recv(dev): '" c.dev.fromBuf) else []) = tele
  split
  · left; exact ⟨by simp [clipTo_of_le _ hcap], rfl, rfl⟩
  · exact failAll_buf _ _ _ _ _ _ hcap

/-- `BufStep` for one iteration, with the extra fact that a flush ends the loop -/
def BufStop (d : Dev) (bytes : Bytes) (s : PA × Bool) : Prop :=
  (s.1.1.dev.toBuf = clipTo (d.toBuf ++ bytes) ∧ s.1.1.dev.conn = d.conn ∧ s.1.1.dev.retryCount = d.retryCount) ∨
  (s.2 = false ∧ s.1.1.dev.toBuf = [] ∧ d.conn = 2 ∧ (s.1.1.dev.conn ≠ 2 ∨ s.1.1.dev.retryCount = d.retryCount + 1))

theorem BufStop.of_bufStep {d : Dev} {b : Bytes} {p : PA} (h : BufStep d b p.1.dev) : BufStop d b (p, false) := by
  rcases h with h | h
  · exact Or.inl h
  · exact Or.inr ⟨rfl, h⟩

theorem onRunStep_buf (rest : List Action) (c : CS) (a : Action) (o : Oracle) (out : List Out) (tmo : Option Time) (left : Time)
    (hcap : c.dev.toBuf.length ≤ 65536) :
    BufStop c.dev (sentBytes (innerLoop c.env.now (loopBound a) { c.dev with wake := none } a o []).out)
      (onRunStep rest c a o out tmo left) := by
  unfold onRunStep
  dsimp only
  obtain ⟨new, hn1, hn2, hn3⟩ := innerLoop_buf c.env.now (loopBound a) { c.dev with wake := none } a o [] hcap
  have hL := (innerLoop_link c.env.now (loopBound a) { c.dev with wake := none } a o []).1.conn
  generalize innerLoop c.env.now (loopBound a) { c.dev with wake := none } a o [] = r at *
  simp only [List.nil_append] at hn1
  subst hn1
  simp only at hn2 hn3 hL
  split
  · exact Or.inl ⟨hn2, hL, hn3⟩
  · split
    · exact Or.inl ⟨hn2, hL, hn3⟩
    · split
      · split
        · exact Or.inl ⟨hn2, hL, hn3⟩
        · exact Or.inl ⟨hn2, hL, hn3⟩
      · have hcr : r.dev.toBuf.length ≤ 65536 := by rw [hn2]; exact clipTo_length_le _
        rcases failAll_buf rest { c with dev := r.dev } r.act r.oracle (out ++ r.out) tmo hcr with h | h
        · left
          exact ⟨by rw [h.1]; simpa [clipTo_of_le _ hcr] using hn2, by rw [h.2.1]; exact hL, by rw [h.2.2]; exact hn3⟩
        · right
          refine ⟨rfl, h.1, by rw [← hL]; exact h.2.1, ?_⟩
          rcases h.2.2 with h3 | h3
          · exact Or.inl h3
          · exact Or.inr (by rw [h3]; simpa using hn3)

theorem spoken_none (c : CS) (o : Oracle) (h : speaker c = none) : spoken c o = [] := by
  unfold spoken; rw [h]
theorem spoken_some (c : CS) (o : Oracle) (a : Action) (h : speaker c = some a) :
    spoken c o = (innerLoop c.env.now (loopBound a) { c.dev with wake := none } a o []).out := by
  unfold spoken; rw [h]

/-- the five ways one iteration can go -/
theorem bodyStep_cases (c : CS) (o : Oracle) (out : List Out) (tmo : Option Time) :
    (speaker c = none ∧ bodyStep c o out tmo = ((c, o, out, tmo), false)) ∨
    (∃ a0 rest, c.dev.acts = a0 :: rest ∧ speaker c = none ∧
        bodyStep c o out tmo = (onTimeout rest c (stamp c.env.now a0) o out tmo, false)) ∨
    (∃ a0 rest left, c.dev.acts = a0 :: rest ∧ speaker c = none ∧ c.dev.conn ≠ 2 ∧
        bodyStep c o out tmo = (({ c with dev := { c.dev with acts := stamp c.env.now a0 :: rest } }, o, out, upd tmo left), false)) ∨
    (∃ a0 rest left, c.dev.acts = a0 :: rest ∧ speaker c = some (stamp c.env.now a0) ∧ c.dev.conn = 2 ∧
        bodyStep c o out tmo = onRunStep rest c (stamp c.env.now a0) o out tmo left) := by
  by_cases hab : c.aborted = true
  · left; exact ⟨by unfold speaker; simp [hab], by unfold bodyStep; simp [hab]⟩
  · cases hacts : c.dev.acts with
    | nil => left; exact ⟨by unfold speaker; simp [hab, hacts], by unfold bodyStep; simp [hab, hacts]⟩
    | cons a0 rest =>
      right
      by_cases ht : c.env.now ≥ (stamp c.env.now a0).timeStamp.getD c.env.now + c.dev.timeout
      · left
        exact ⟨a0, rest, rfl, by unfold speaker; simp only [hab, hacts, ht]; rfl,
          by unfold bodyStep; simp only [hab, hacts, ht]; rfl⟩
      · right
        by_cases hc : c.dev.conn = 2
        · right
          exact ⟨a0, rest, _, rfl, by unfold speaker; simp only [hab, hacts, ht, hc]; rfl, hc,
            by unfold bodyStep; simp only [hab, hacts, ht, hc]; rfl⟩
        · left
          have hc' : (c.dev.conn != 2) = true := by simpa using hc
          exact ⟨a0, rest, _, rfl, by unfold speaker; simp only [hab, hacts, ht, hc']; rfl, hc,
            by unfold bodyStep; simp only [hab, hacts, ht, hc']; rfl⟩

/-- one iteration: the buffer grows by exactly what the head of the queue sent, or the device was disconnected
    (and then the loop has ended) -/
theorem bodyStep_buf (c : CS) (o : Oracle) (out : List Out) (tmo : Option Time) (hcap : c.dev.toBuf.length ≤ 65536) :
    BufStop c.dev (sentBytes (spoken c o)) (bodyStep c o out tmo) := by
  rcases bodyStep_cases c o out tmo with ⟨h1, h2⟩ | ⟨a0, rest, _, h1, h2⟩ | ⟨a0, rest, left, _, h1, _, h2⟩ | ⟨a0, rest, left, _, h1, _, h2⟩
  · rw [h2, spoken_none c o h1]; exact Or.inl ⟨by simp [clipTo_of_le _ hcap], rfl, rfl⟩
  · rw [h2, spoken_none c o h1]; exact BufStop.of_bufStep (onTimeout_buf _ _ _ _ _ _ hcap)
  · rw [h2, spoken_none c o h1]; exact Or.inl ⟨by simp [clipTo_of_le _ hcap], rfl, rfl⟩
  · rw [h2, spoken_some c o _ h1]; exact onRunStep_buf _ _ _ _ _ _ _ hcap

/-- the sends of a whole run, iteration by iteration -/
def passSents (fuel : Nat) (c : CS) (o : Oracle) (out : List Out) (tmo : Option Time) : List Bytes :=
  (iterStates fuel c o out tmo).flatMap fun s => sentsOf (spoken s.1 s.2)

/-- C10, output buffer, one run of `_process_action`: afterwards the buffer is the buffer before followed by the
    payloads of this run's `send`s in order (`clipTo`: the last 65536 bytes of that) — unless the run took the error branch
    on a connected device, whose `_disconnect` flushed the buffer (then it is empty, and nothing was sent after the flush) -/
theorem processActionF_buf (fuel : Nat) (c : CS) (o : Oracle) (out : List Out) (tmo : Option Time)
    (hcap : c.dev.toBuf.length ≤ 65536) :
    BufStep c.dev (passSents fuel c o out tmo).flatten (processActionF fuel c o out tmo).1.dev := by
  induction fuel generalizing c o out tmo with
  | zero => exact Or.inl ⟨by simp [passSents, iterStates, processActionF, clipTo_of_le _ hcap], rfl, rfl⟩
  | succ n ih =>
    rw [processActionF_succ]
    unfold passSents iterStates andThen
    have hb := bodyStep_buf c o out tmo hcap
    generalize bodyStep c o out tmo = s at *
    cases hs : s.2
    · simp only [Bool.false_eq_true, ↓reduceIte, List.flatMap_cons, List.flatMap_nil, List.append_nil]
      rcases hb with h | h
      · exact Or.inl h
      · exact Or.inr h.2
    · simp only [↓reduceIte, List.flatMap_cons, List.flatten_append]
      rcases hb with h | h
      · have hcs : s.1.1.dev.toBuf.length ≤ 65536 := by rw [h.1]; exact clipTo_length_le _
        rcases ih s.1.1 s.1.2.1 s.1.2.2.1 s.1.2.2.2 hcs with h2 | h2
        · left
          refine ⟨?_, h2.2.1.trans h.2.1, h2.2.2.trans h.2.2⟩
          rw [h2.1, h.1, clipTo_clipTo_append, List.append_assoc]; rfl
        · right
          exact ⟨h2.1, h.2.1 ▸ h2.2.1, by rw [← h.2.2]; exact h2.2.2⟩
      · rw [hs] at h; cases h.1

/-! ### the descriptor half: write, read, telnet replies -/

/-- the option replies `_telnet_preprocess` generates for the bytes `bs`, starting in state `st`/`cmd` -/
def telnetReplies (st : Nat) (cmd : UInt8) (bs : Bytes) : Bytes :=
  (bs.foldl (fun (acc : Nat × UInt8 × List UInt8 × List UInt8) b =>
      let (st, cmd, kept, reply) := acc
      let (st', cmd', k, r) := telnetStep st cmd b
      (st', cmd', kept ++ k, reply ++ r)) (st, cmd, [], [])).2.2.2

theorem telnetFilter_toBuf (d : Dev) (bs : Bytes) :
    (telnetFilter d bs).toBuf = clipTo (d.toBuf ++ telnetReplies d.tstate d.tcmd bs) := by
  unfold telnetFilter telnetReplies
  generalize List.foldl _ _ bs = r
  obtain ⟨a, b, c, e⟩ := r
  rfl

/-- what `_handle_ready_device` does to the output buffer of `c`, giving `c'`: the buffer is what the write left
    (all of it, or what stays behind the non-empty prefix `wr` a successful `write` took) followed by the telnet option
    replies to the bytes just read (tcp devices only; `readOf`: the prefix of what the kernel had that fits the request) —
    `clipTo`: the last 65536 bytes of that, the capacity of `dev->to` -/
def ReadyBuf (c c' : CS) : Prop :=
  ∃ kept reply, c'.dev.toBuf = clipTo (kept ++ reply) ∧
    (kept = c.dev.toBuf ∨ (∃ wr, wr ≠ [] ∧ wr ++ kept = c.dev.toBuf ∧ Sys.write wr true ∈ c'.sys)) ∧
    (reply = [] ∨ ∃ bs, c.env.read = some (some bs) ∧ c.dev.isPipe = false ∧
      reply = telnetReplies c.dev.tstate c.dev.tcmd (readOf c.dev bs))

theorem ReadyBuf.same {c c' : CS} (h : c'.dev.toBuf = c.dev.toBuf) (hcap : c.dev.toBuf.length ≤ 65536) : ReadyBuf c c' :=
  ⟨c.dev.toBuf, [], by simp [h, clipTo_of_le _ hcap], Or.inl rfl, Or.inl rfl⟩

theorem readyRead_buf (c : CS) (hcap : c.dev.toBuf.length ≤ 65536) :
    (∀ x ∈ c.sys, x ∈ (readyRead c).1.sys) ∧
    ∃ reply, (readyRead c).1.dev.toBuf = clipTo (c.dev.toBuf ++ reply) ∧
      (reply = [] ∨ ∃ bs, c.env.read = some (some bs) ∧ c.dev.isPipe = false ∧ reply = telnetReplies c.dev.tstate c.dev.tcmd bs) := by
  unfold readyRead
  split
  · rename_i bs hbs
    split
    · exact ⟨fun x hx => by simp [hx], [], by simp [clipTo_of_le _ hcap], Or.inl rfl⟩
    · by_cases hp : c.dev.isPipe = true
      · exact ⟨fun x hx => by simp [hx], [], by simp [hp, clipTo_of_le _ hcap], Or.inl rfl⟩
      · refine ⟨fun x hx => by simp [hx], telnetReplies c.dev.tstate c.dev.tcmd bs, ?_, Or.inr ⟨bs, hbs, by simpa using hp, rfl⟩⟩
        simp [hp, telnetFilter_toBuf]
  · exact ⟨fun x hx => by simp [hx], [], by simp [clipTo_of_le _ hcap], Or.inl rfl⟩
  · exact ⟨fun x hx => by simp [hx], [], by simp [clipTo_of_le _ hcap], Or.inl rfl⟩

theorem readyTail_buf (f : Nat) (r : CS × Bool × Bool) (c : CS)
    (hk : r.1.dev.toBuf = c.dev.toBuf ∨ (∃ wr, wr ≠ [] ∧ wr ++ r.1.dev.toBuf = c.dev.toBuf ∧ Sys.write wr true ∈ r.1.sys))
    (hf : r.2.2 = false → r.1.env.read = c.env.read ∧ r.1.dev.isPipe = c.dev.isPipe ∧
      r.1.dev.tstate = c.dev.tstate ∧ r.1.dev.tcmd = c.dev.tcmd ∧ r.1.dev.fromBuf = c.dev.fromBuf ∧
      r.1.dev.fromSize = c.dev.fromSize)
    (hcap : c.dev.toBuf.length ≤ 65536) :
    ReadyBuf c (readyTail f r).1 := by
  have hcr : r.1.dev.toBuf.length ≤ 65536 := by
    rcases hk with h | ⟨wr, _, h, _⟩
    · rw [h]; exact hcap
    · rw [← h, List.length_append] at hcap; exact Nat.le_trans (Nat.le_add_left _ _) hcap
  have base : ReadyBuf c r.1 := by
    rcases hk with h | ⟨wr, h⟩
    · exact ReadyBuf.same h hcap
    · exact ⟨r.1.dev.toBuf, [], by simp [clipTo_of_le _ hcr], Or.inr ⟨wr, h⟩, Or.inl rfl⟩
  unfold readyTail
  split
  · exact base
  · split
    · exact base
    · rename_i hskip
      split
      · obtain ⟨hsys, reply, h1, h2⟩ := readyRead_buf (clipRead r.1) (by rw [clipRead_toBuf]; exact hcr)
        obtain ⟨e1, e2, e3, e4, e5, e6⟩ := hf (by simpa using hskip)
        simp only [clipRead_sys, clipRead_toBuf, clipRead_isPipe, clipRead_tstate, clipRead_tcmd] at hsys h1 h2
        have h2' : reply = [] ∨ ∃ bs, c.env.read = some (some bs) ∧ c.dev.isPipe = false ∧
            reply = telnetReplies c.dev.tstate c.dev.tcmd (readOf c.dev bs) := by
          rcases h2 with h2 | ⟨bs', hr, hp, hrep⟩
          · exact Or.inl h2
          · obtain ⟨bs, hb1, hb2⟩ := clipRead_data_inv r.1 bs' hr
            refine Or.inr ⟨bs, by rw [← e1]; exact hb1, by rw [← e2]; exact hp, ?_⟩
            rw [hrep, hb2, e3, e4, readOf_congr e6 e5]
        rcases hk with h | ⟨wr, h⟩
        · exact ⟨c.dev.toBuf, reply, by rw [h1, h], Or.inl rfl, h2'⟩
        · exact ⟨r.1.dev.toBuf, reply, h1, Or.inr ⟨wr, h.1, h.2.1, hsys _ h.2.2⟩, h2'⟩
      · exact base

theorem readyConnectFail_toBuf (c : CS) : (readyConnectFail c).dev.toBuf = c.dev.toBuf := (finishConnectFail_frame c).dev.toBuf

theorem readyConnect_toBuf (c : CS) : (readyConnect c).1.dev.toBuf = c.dev.toBuf ∧ (readyConnect c).2.2 = true := by
  unfold readyConnect readyConnectTail
  split
  · exact ⟨rfl, rfl⟩
  have h1 := (finishConnectOne_buf c).1
  have h2 := readyConnectFail_toBuf (finishConnectOne c).1
  generalize finishConnectOne c = r at *
  have h3 : (if r.2 = true then r.1 else readyConnectFail r.1).dev.toBuf = c.dev.toBuf := by
    split
    · exact h1
    · rw [h2, h1]
  generalize (if r.2 = true then r.1 else readyConnectFail r.1) = c1 at *
  split
  · exact ⟨h3, rfl⟩
  · split
    · exact ⟨by simpa [enqueueLogin_buf] using h3, rfl⟩
    · exact ⟨h3, rfl⟩

theorem readyWrite_buf (c : CS) :
    ((readyWrite c).1.dev.toBuf = c.dev.toBuf ∨
      (∃ wr, wr ≠ [] ∧ wr ++ (readyWrite c).1.dev.toBuf = c.dev.toBuf ∧ Sys.write wr true ∈ (readyWrite c).1.sys)) ∧
    (readyWrite c).1.env = c.env ∧ (readyWrite c).1.dev.isPipe = c.dev.isPipe ∧
    (readyWrite c).1.dev.tstate = c.dev.tstate ∧ (readyWrite c).1.dev.tcmd = c.dev.tcmd ∧
    (readyWrite c).1.dev.fromBuf = c.dev.fromBuf ∧ (readyWrite c).1.dev.fromSize = c.dev.fromSize := by
  unfold readyWrite
  split
  · exact ⟨Or.inl rfl, rfl, rfl, rfl, rfl, rfl, rfl⟩
  · rename_i hne
    split
    · split
      · exact ⟨Or.inl rfl, rfl, rfl, rfl, rfl, rfl, rfl⟩
      · rename_i hcap
        refine ⟨Or.inr ⟨c.dev.toBuf.take c.env.wcap, ?_, List.take_append_drop _ _, by simp⟩, rfl, rfl, rfl, rfl, rfl, rfl⟩
        have h0 : c.env.wcap ≠ 0 := by simpa using hcap
        cases hb : c.dev.toBuf with
        | nil => simp [hb] at hne
        | cons x xs =>
          cases hw : c.env.wcap with
          | zero => exact absurd hw h0
          | succ n => simp
    · exact ⟨Or.inl rfl, rfl, rfl, rfl, rfl, rfl, rfl⟩

/-- C10, output buffer, `_handle_ready_device` -/
theorem handleReady_buf (c : CS) (hcap : c.dev.toBuf.length ≤ 65536) : ReadyBuf c (handleReady c).1 := by
  rw [handleReady_eq]; unfold handleReady'
  dsimp only
  split
  · exact ReadyBuf.same rfl hcap
  · split
    · exact ReadyBuf.same rfl hcap
    · split
      · exact ReadyBuf.same rfl hcap
      · apply readyTail_buf (hcap := hcap)
        · split
          · split
            · exact Or.inl (readyConnect_toBuf c).1
            · exact (readyWrite_buf c).1
          · exact Or.inl rfl
        · split
          · split
            · intro h; rw [(readyConnect_toBuf c).2] at h; cases h
            · intro _
              obtain ⟨_, e1, e2, e3, e4, e5, e6⟩ := readyWrite_buf c
              exact ⟨by rw [e1], e2, e3, e4, e5, e6⟩
          · intro _; exact ⟨rfl, rfl, rfl, rfl, rfl, rfl⟩

theorem postPollReady_buf (d : Dev) (env : Env) (hcap : d.toBuf.length ≤ 65536) :
    ReadyBuf { dev := d, env := env, sys := [] } (postPollReady d env).1 := by
  unfold postPollReady
  generalize (if d.fd.isSome then env.revents else 0) = fl
  split
  · exact handleReady_buf { dev := d, env := { env with revents := fl }, sys := [] } hcap
  · exact ReadyBuf.same rfl hcap

theorem postPollPing_buf (now : Time) (r : CS × Option Time) :
    (postPollPing now r).1.dev.toBuf = r.1.dev.toBuf := by
  unfold postPollPing appendPing
  split
  · split
    · split <;> rfl
    · rfl
  · rfl

/-- before `_process_action`: the buffer is what `_handle_ready_device` left, or — after an i/o error on a device
    that was not NOT_CONNECTED — empty (`_reconnect` went through `_disconnect`) -/
theorem postPollPre_buf (d : Dev) (env : Env) :
    (postPollPre d env).1.dev.toBuf = (postPollReady d env).1.dev.toBuf ∨
    ((postPollPre d env).1.dev.toBuf = [] ∧ (postPollReady d env).2 = true ∧ (postPollReady d env).1.dev.conn ≠ 0) := by
  unfold postPollPre
  rw [postPollPing_buf]
  unfold postPollReconnect
  generalize postPollReady d env = r
  split
  · rename_i hc
    by_cases h0 : r.1.dev.conn = 0
    · left; exact reconnectDev_idle _ _ h0
    · right
      refine ⟨(reconnectDev_flush _ _ h0).1, ?_, h0⟩
      simpa [h0] using hc
  · left; rfl

/-- C10, output buffer, a whole `dev_post_poll` pass.  `kept` is what the write half of `_handle_ready_device`
    left of the buffer (everything, or what stays behind the non-empty prefix `wr` the kernel took in a successful
    `write`), `reply` the telnet option replies to the bytes read in this pass (`readOf`: the prefix of what the kernel
    had that the buffer asked for).  Afterwards the buffer is
    `kept ++ reply ++` the payloads of this pass's `send` statements in order; or, if an i/o error made the pass
    disconnect before `_process_action`, just those payloads; or, if `_process_action` took its error branch on the
    connected device (which disconnects, and ends the pass's sending), empty.
    `clipTo`: `dev->to` holds 65536 bytes; of more than that the oldest give way (`cbuf_write` overwrites). -/
theorem postPoll_buf (d : Dev) (env : Env) (o : Oracle) (hcap : d.toBuf.length ≤ 65536) :
    ∃ kept reply,
      (kept = d.toBuf ∨ (∃ wr, wr ≠ [] ∧ wr ++ kept = d.toBuf ∧ Sys.write wr true ∈ (postPollReady d env).1.sys)) ∧
      (reply = [] ∨ ∃ bs, env.read = some (some bs) ∧ d.isPipe = false ∧
        reply = telnetReplies d.tstate d.tcmd (readOf d bs)) ∧
      ((postPoll d env o).1.dev.toBuf = clipTo (kept ++ reply ++ sentBytes (postPoll d env o).2.2.1) ∨
       ((postPoll d env o).1.dev.toBuf = clipTo (sentBytes (postPoll d env o).2.2.1) ∧
          (postPollReady d env).2 = true ∧ (postPollReady d env).1.dev.conn ≠ 0) ∨
       ((postPoll d env o).1.dev.toBuf = [] ∧ (postPollPre d env).1.dev.conn = 2 ∧
          ((postPoll d env o).1.dev.conn ≠ 2 ∨
           (postPoll d env o).1.dev.retryCount = (postPollPre d env).1.dev.retryCount + 1))) := by
  obtain ⟨kept, reply, h1, h2, h3⟩ := postPollReady_buf d env hcap
  refine ⟨kept, reply, h2, h3, ?_⟩
  rw [postPoll_eq]; unfold postPoll'
  split
  · left; simpa using h1
  · unfold processAction
    have hcp : (postPollPre d env).1.dev.toBuf.length ≤ 65536 := by
      rcases postPollPre_buf d env with hp | hp
      · rw [hp, h1]; exact clipTo_length_le _
      · rw [hp.1]; exact Nat.zero_le _
    have hb := processActionF_buf (passFuel (postPollPre d env).1.dev) (postPollPre d env).1 o [] (postPollPre d env).2 hcp
    have hs := processActionF_sents (passFuel (postPollPre d env).1.dev) (postPollPre d env).1 o [] (postPollPre d env).2
    have hs' : sentBytes (processActionF (passFuel (postPollPre d env).1.dev) (postPollPre d env).1 o [] (postPollPre d env).2).2.2.1
        = (passSents (passFuel (postPollPre d env).1.dev) (postPollPre d env).1 o [] (postPollPre d env).2).flatten := by
      unfold sentBytes passSents; rw [hs]; simp
    rw [hs']
    rcases hb with hb | hb
    · rcases postPollPre_buf d env with hp | hp
      · left; rw [hb.1, hp, h1, clipTo_clipTo_append]
      · right; left; exact ⟨by rw [hb.1, hp.1]; simp, hp.2⟩
    · right; right; exact hb

/-! ## a connection starts logged out -/

/-- `logged_in` is only ever true on a CONNECTED device — so every new connection starts logged out, and
    `LoginHead` then puts the login script first -/
def FreshLink (d : Dev) : Prop := d.conn ≠ 2 → d.loggedIn = false

theorem SameQueue.freshLink {d d' : Dev} (s : SameQueue d d') (h : FreshLink d) : FreshLink d' := by
  intro h2; rw [s.conn] at h2; rw [s.loggedIn]; exact h h2

theorem finishConnectOne_loggedIn (c : CS) : (finishConnectOne c).1.dev.loggedIn = c.dev.loggedIn := by
  unfold finishConnectOne; grind
theorem connectOne_loggedIn (c : CS) : (connectOne c).1.dev.loggedIn = c.dev.loggedIn := (connectOne_frame c).dev.loggedIn
theorem tcpConnect_loggedIn (c : CS) : (tcpConnect c).1.dev.loggedIn = c.dev.loggedIn := (tcpConnect_frame c).dev.loggedIn
theorem pipeConnect_loggedIn (c : CS) : (pipeConnect c).1.dev.loggedIn = c.dev.loggedIn := by
  unfold pipeConnect; grind

theorem connectDev_loggedIn (c : CS) : (connectDev c).dev.loggedIn = c.dev.loggedIn := by
  unfold connectDev
  dsimp only
  have h1 := tcpConnect_loggedIn { c with dev := { c.dev with lastRetry := c.env.now, retryCount := c.dev.retryCount + 1 } }
  have h2 := pipeConnect_loggedIn { c with dev := { c.dev with lastRetry := c.env.now, retryCount := c.dev.retryCount + 1 } }
  split
  · generalize pipeConnect _ = r at *
    split
    · simpa [enqueueLogin] using h2
    · exact h2
  · generalize tcpConnect _ = r at *
    split
    · simpa [enqueueLogin] using h1
    · exact h1

theorem disconnectDev_loggedIn (c : CS) : (disconnectDev c).dev.loggedIn = false := by
  unfold disconnectDev; rfl

/-- after `_reconnect` the device is logged out, whatever came of the connect attempt -/
theorem reconnectDev_loggedOut (c : CS) (tmo : Option Time) (h : FreshLink c.dev) :
    (reconnectDev c tmo).1.dev.loggedIn = false := by
  unfold reconnectDev
  dsimp only
  have h0 : (if (c.dev.conn != 0) = true then disconnectDev c else c).dev.loggedIn = false := by
    split
    · exact disconnectDev_loggedIn c
    · rename_i hc
      have : c.dev.conn = 0 := by simpa using hc
      exact h (by simp [this])
  generalize (if (c.dev.conn != 0) = true then disconnectDev c else c) = c1 at *
  split
  · rw [connectDev_loggedIn]; exact h0
  · exact h0
  · exact h0

theorem FreshLink.of_loggedOut {d : Dev} (h : d.loggedIn = false) : FreshLink d := fun _ => h

theorem readyConnect_loggedIn (c : CS) : (readyConnect c).1.dev.loggedIn = c.dev.loggedIn := by
  unfold readyConnect readyConnectTail
  split
  · rfl
  have h1 := finishConnectOne_loggedIn c
  have h2 : (readyConnectFail (finishConnectOne c).1).dev.loggedIn = (finishConnectOne c).1.dev.loggedIn :=
    (finishConnectFail_frame _).dev.loggedIn
  generalize finishConnectOne c = r at *
  have h3 : (if r.2 = true then r.1 else readyConnectFail r.1).dev.loggedIn = c.dev.loggedIn := by
    split
    · exact h1
    · rw [h2, h1]
  generalize (if r.2 = true then r.1 else readyConnectFail r.1) = c1 at *
  split
  · exact h3
  · split
    · simpa [enqueueLogin] using h3
    · exact h3

theorem readyTail_freshLink (f : Nat) (r : CS × Bool × Bool) (h : FreshLink r.1.dev) : FreshLink (readyTail f r).1.dev := by
  unfold readyTail
  split
  · exact h
  · split
    · exact h
    · split
      · exact (readyRead_sameQueue r.1).freshLink h
      · exact h

theorem handleReady_freshLink (c : CS) (h : FreshLink c.dev) : FreshLink (handleReady c).1.dev := by
  rw [handleReady_eq]; unfold handleReady'
  dsimp only
  split
  · exact h
  · split
    · exact h
    · split
      · exact h
      · apply readyTail_freshLink
        split
        · split
          · rename_i h1
            have h1' : c.dev.conn = 1 := by simpa using h1
            exact FreshLink.of_loggedOut (by rw [readyConnect_loggedIn]; exact h (by simp [h1']))
          · exact (readyWrite_sameQueue c).freshLink h
        · exact h

theorem postPollPre_freshLink (d : Dev) (env : Env) (h : FreshLink d) : FreshLink (postPollPre d env).1.dev := by
  have h1 : FreshLink (postPollReady d env).1.dev := by
    unfold postPollReady
    generalize (if d.fd.isSome then env.revents else 0) = fl
    split
    · exact handleReady_freshLink { dev := d, env := _, sys := [] } h
    · exact h
  have h2 : FreshLink (postPollReconnect (postPollReady d env)).1.dev := by
    unfold postPollReconnect
    split
    · exact FreshLink.of_loggedOut (reconnectDev_loggedOut _ _ h1)
    · exact h1
  unfold postPollPre
  generalize postPollReconnect (postPollReady d env) = r at *
  unfold postPollPing appendPing
  split
  · split
    · split
      · exact h2
      · exact h2
    · exact h2
  · exact h2

theorem failAll_freshLink (rest : List Action) (c : CS) (a : Action) (o : Oracle) (out : List Out) (tmo : Option Time)
    (h : FreshLink c.dev) : FreshLink (failAll rest c a o out tmo).1.dev := by
  unfold failAll
  dsimp only
  split
  · exact FreshLink.of_loggedOut (reconnectDev_loggedOut _ _ h)
  · exact h

theorem onTimeout_freshLink (rest : List Action) (c : CS) (a : Action) (o : Oracle) (out : List Out) (tmo : Option Time)
    (h : FreshLink c.dev) : FreshLink (onTimeout rest c a o out tmo).1.dev := by
  unfold onTimeout
  dsimp only
  generalize (if a.telemetry = true then
      (if (c.dev.conn != 2) = true then [Out.telemetry a.clientId (str "connect(dev): timeout")]
       else teleMem a.clientId "recv(dev): '" c.dev.fromBuf) else []) = tele
  split
  · exact h
  · exact failAll_freshLink _ _ _ _ _ _ h

theorem onRunStep_freshLink (rest : List Action) (c : CS) (a : Action) (o : Oracle) (out : List Out) (tmo : Option Time)
    (left : Time) (hc : c.dev.conn = 2) : FreshLink (onRunStep rest c a o out tmo left).1.1.dev := by
  unfold onRunStep
  dsimp only
  have hL := (innerLoop_link c.env.now (loopBound a) { c.dev with wake := none } a o []).1.conn
  generalize innerLoop c.env.now (loopBound a) { c.dev with wake := none } a o [] = r at *
  simp only at hL
  have h2 : r.dev.conn = 2 := by rw [hL, hc]
  split
  · intro hn; exact absurd h2 hn
  · split
    · intro hn; exact absurd h2 hn
    · split
      · split
        · intro hn; exact absurd h2 hn
        · intro hn; exact absurd h2 hn
      · exact failAll_freshLink _ _ _ _ _ _ (fun hn => absurd h2 hn)

theorem bodyStep_freshLink (c : CS) (o : Oracle) (out : List Out) (tmo : Option Time) (h : FreshLink c.dev) :
    FreshLink (bodyStep c o out tmo).1.1.dev := by
  rcases bodyStep_cases c o out tmo with ⟨_, h2⟩ | ⟨a0, rest, _, _, h2⟩ | ⟨a0, rest, left, _, _, _, h2⟩ | ⟨a0, rest, left, _, _, hc, h2⟩
  · rw [h2]; exact h
  · rw [h2]; exact onTimeout_freshLink _ _ _ _ _ _ h
  · rw [h2]; exact h
  · rw [h2]; exact onRunStep_freshLink _ _ _ _ _ _ _ hc

theorem processActionF_freshLink (fuel : Nat) (c : CS) (o : Oracle) (out : List Out) (tmo : Option Time)
    (h : FreshLink c.dev) : FreshLink (processActionF fuel c o out tmo).1.dev := by
  induction fuel generalizing c o out tmo with
  | zero => exact h
  | succ n ih =>
    rw [processActionF_succ]
    unfold andThen
    have hb := bodyStep_freshLink c o out tmo h
    generalize bodyStep c o out tmo = s at *
    split
    · exact ih _ _ _ _ hb
    · exact hb

theorem postPoll_freshLink (d : Dev) (env : Env) (o : Oracle) (h : FreshLink d) : FreshLink (postPoll d env o).1.dev := by
  rw [postPoll_eq]; unfold postPoll'
  split
  · unfold postPollReady
    generalize (if d.fd.isSome then env.revents else 0) = fl
    split
    · exact handleReady_freshLink { dev := d, env := _, sys := [] } h
    · exact h
  · exact processActionF_freshLink _ _ _ _ _ (postPollPre_freshLink d env h)

theorem enqueue_freshLink (d : Dev) (com : Nat) (targets : List Bytes) (cid : Nat) (tele : Bool) (al : Nat)
    (h : FreshLink d) : FreshLink (Pm.Daemon.enqueue d com targets cid tele al).1 := by
  obtain ⟨l, _, h2, h3⟩ := enqueue_appends d com targets cid tele al
  intro hn; rw [h2] at hn; rw [h3]; exact h hn

/-- in every reachable state `logged_in` implies CONNECTED -/
theorem Reach.freshLink {d0 d : Dev} (h : Reach d0 d) (h0 : d0.loggedIn = false) : FreshLink d := by
  induction h with
  | init => exact FreshLink.of_loggedOut h0
  | connect d env _ hc _ ih =>
    exact FreshLink.of_loggedOut (by rw [connectDev_loggedIn]; exact ih (by simp [hc]))
  | pass d env o _ _ ih => exact postPoll_freshLink d env o ih
  | enqueue d com targets cid tele al _ ih => exact enqueue_freshLink d com targets cid tele al ih
  | store d s _ ih => exact ih
  | retry d _ ih => exact ih

/-- the second sentence of C10 in one statement: in every reachable state a device that is CONNECTED either has
    completed a login on this connection (`logged_in`) or has the login action at the head of its queue; and a
    device that is not CONNECTED is logged out, so the next connection starts with the second alternative -/
theorem Reach.login_first {d0 d : Dev} (h : Reach d0 d) (hc : d0.conn = 0) (hl : d0.loggedIn = false) :
    (d.conn = 2 → d.loggedIn = true ∨ ∃ a r, d.acts = a :: r ∧ a.com = 0) ∧ (d.conn ≠ 2 → d.loggedIn = false) := by
  refine ⟨fun h2 => ?_, h.freshLink hl⟩
  cases hli : d.loggedIn
  · exact Or.inr (h.loginHead hc h2 hli)
  · exact Or.inl rfl

/-! ## FIFO over a whole history -/

/-- client actions never use script slot 0 (login): needed because `_disconnect` drops a head with `com = 0` silently -/
def NoClientLogin (d : Dev) : Prop := ∀ a ∈ d.acts, a.com = 0 → a.clientId = 0

theorem allOf_ne_zero (com c : Nat) (h : Pm.Daemon.allOf com = some c) : c ≠ 0 := by
  unfold Pm.Daemon.allOf at h; split at h <;> simp at h <;> omega
theorem rangedOf_ne_zero (com c : Nat) (h : Pm.Daemon.rangedOf com = some c) : c ≠ 0 := by
  unfold Pm.Daemon.rangedOf at h; split at h <;> simp at h <;> omega

/-- `_enqueue_targeted_actions` in pieces: the targeted plugs, one action per plug, the choice of variant -/
def enqTargets (d : Dev) (targets : List Bytes) : List Plug :=
  d.plugs.filter fun p => match p.node with | some n => targets.contains n | none => false
def enqSinglets (d : Dev) (com : Nat) (targets : List Bytes) (cid : Nat) (tele : Bool) (al : Nat) : List Action :=
  if (d.scripts com).isSome then (enqTargets d targets).map fun p => Pm.Daemon.mkAction d com (some [p]) cid tele al 0 else []
def enqActs (d : Dev) (com : Nat) (targets : List Bytes) (cid : Nat) (tele : Bool) (al : Nat) : List Action :=
  let has (c : Nat) := (d.scripts c).isSome
  let all := d.plugs.all fun p => match p.node with | some n => targets.contains n | none => false
  if has com && (enqSinglets d com targets cid tele al).length == 1 then enqSinglets d com targets cid tele al
  else if (all || (Pm.Daemon.isQuery com && !has com)) && ((Pm.Daemon.allOf com).map has).getD false then
    [Pm.Daemon.mkAction d ((Pm.Daemon.allOf com).getD 0) none cid tele al 0]
  else if ((Pm.Daemon.rangedOf com).map has).getD false then
    [Pm.Daemon.mkAction d ((Pm.Daemon.rangedOf com).getD 0) (some (enqTargets d targets)) cid tele al 0]
  else enqSinglets d com targets cid tele al

theorem enqueue_eq (d : Dev) (com : Nat) (targets : List Bytes) (cid : Nat) (tele : Bool) (al : Nat) :
    Pm.Daemon.enqueue d com targets cid tele al =
      if !((d.scripts com).isSome || ((Pm.Daemon.allOf com).map fun c => (d.scripts c).isSome).getD false ||
            ((Pm.Daemon.rangedOf com).map fun c => (d.scripts c).isSome).getD false) || (enqTargets d targets).isEmpty
      then (d, 0)
      else ({ d with acts := d.acts ++ enqActs d com targets cid tele al }, (enqActs d com targets cid tele al).length) := by
  unfold Pm.Daemon.enqueue enqActs enqSinglets enqTargets
  rfl

theorem enqActs_spec (d : Dev) (com : Nat) (targets : List Bytes) (cid : Nat) (tele : Bool) (al : Nat) :
    ∀ a ∈ enqActs d com targets cid tele al, a.clientId = cid ∧ (com ≠ 0 → a.com ≠ 0) := by
  have hsing : ∀ a ∈ enqSinglets d com targets cid tele al, a.clientId = cid ∧ (com ≠ 0 → a.com ≠ 0) := by
    intro a ha
    unfold enqSinglets at ha
    split at ha
    · rw [List.mem_map] at ha
      obtain ⟨p, _, rfl⟩ := ha
      exact ⟨rfl, fun h => h⟩
    · simp at ha
  unfold enqActs
  dsimp only
  generalize enqSinglets d com targets cid tele al = sing at *
  intro a ha
  split at ha
  · exact hsing a ha
  · split at ha
    · rename_i _ h2
      simp only [List.mem_singleton] at ha
      subst ha
      refine ⟨rfl, fun _ => ?_⟩
      cases hall : Pm.Daemon.allOf com with
      | none => simp [hall] at h2
      | some c => exact allOf_ne_zero com c hall
    · split at ha
      · rename_i _ _ h3
        simp only [List.mem_singleton] at ha
        subst ha
        refine ⟨rfl, fun _ => ?_⟩
        cases hr : Pm.Daemon.rangedOf com with
        | none => simp [hr] at h3
        | some c => exact rangedOf_ne_zero com c hr
      · exact hsing a ha

theorem enqueue_spec (d : Dev) (com : Nat) (targets : List Bytes) (cid : Nat) (tele : Bool) (al : Nat) :
    ∃ l, (Pm.Daemon.enqueue d com targets cid tele al).1.acts = d.acts ++ l ∧
      (Pm.Daemon.enqueue d com targets cid tele al).2 = l.length ∧
      ∀ a ∈ l, a.clientId = cid ∧ (com ≠ 0 → a.com ≠ 0) := by
  rw [enqueue_eq]
  split
  · exact ⟨[], by simp, rfl, by simp⟩
  · exact ⟨_, rfl, rfl, enqActs_spec d com targets cid tele al⟩

theorem rewind_com (a : Action) : (rewind a).com = a.com := by
  unfold rewind; split <;> rfl

theorem enqueueLogin_ncl (d : Dev) (h : NoClientLogin d) : NoClientLogin (enqueueLogin d) := by
  unfold enqueueLogin NoClientLogin at *
  intro a ha
  simp only [List.mem_cons] at ha
  rcases ha with rfl | ha
  · intro _; rfl
  · cases hacts : d.acts with
    | nil => rw [hacts] at ha; simp at ha
    | cons x r =>
      rw [hacts] at ha h
      simp only [List.mem_cons] at ha
      rcases ha with rfl | ha
      · rw [rewind_com, rewind_clientId]; exact h x (by simp)
      · exact h a (by simp [ha])

theorem connectDev_ncl (c : CS) (h : NoClientLogin c.dev) : NoClientLogin (connectDev c).dev := by
  unfold connectDev
  dsimp only
  have h1 := tcpConnect_acts { c with dev := { c.dev with lastRetry := c.env.now, retryCount := c.dev.retryCount + 1 } }
  have h2 := pipeConnect_acts { c with dev := { c.dev with lastRetry := c.env.now, retryCount := c.dev.retryCount + 1 } }
  split
  · generalize pipeConnect _ = r at *
    have hr : NoClientLogin r.1.dev := by unfold NoClientLogin; rw [h2]; exact h
    split
    · exact enqueueLogin_ncl _ hr
    · exact hr
  · generalize tcpConnect _ = r at *
    have hr : NoClientLogin r.1.dev := by unfold NoClientLogin; rw [h1]; exact h
    split
    · exact enqueueLogin_ncl _ hr
    · exact hr

theorem disconnectDev_acts (c : CS) :
    (disconnectDev c).dev.acts = (match c.dev.acts with | a :: r => if a.com == 0 then r else a :: r | [] => []) := by
  cases hfd : c.dev.fd <;> cases hp : c.dev.isPipe <;> cases hcp : c.dev.cpid <;>
    simp [disconnectDev, hfd, hp, hcp] <;> cases c.dev.acts <;> rfl

theorem disconnectDev_ncl (c : CS) (h : NoClientLogin c.dev) :
    NoClientLogin (disconnectDev c).dev ∧ clientIds (disconnectDev c).dev.acts = clientIds c.dev.acts := by
  unfold NoClientLogin at *
  rw [disconnectDev_acts]
  cases hacts : c.dev.acts with
  | nil => simp
  | cons a r =>
    rw [hacts] at h
    dsimp only
    split
    · rename_i h0
      have := h a (by simp) (by simpa using h0)
      exact ⟨fun b hb => h b (by simp [hb]), by simp [clientIds_cons, this]⟩
    · exact ⟨h, rfl⟩

theorem reconnectDev_ncl (c : CS) (tmo : Option Time) (h : NoClientLogin c.dev) :
    NoClientLogin (reconnectDev c tmo).1.dev ∧ clientIds (reconnectDev c tmo).1.dev.acts = clientIds c.dev.acts := by
  unfold reconnectDev
  dsimp only
  have h0 : NoClientLogin (if (c.dev.conn != 0) = true then disconnectDev c else c).dev ∧
      clientIds (if (c.dev.conn != 0) = true then disconnectDev c else c).dev.acts = clientIds c.dev.acts := by
    split
    · exact disconnectDev_ncl c h
    · exact ⟨h, rfl⟩
  generalize (if (c.dev.conn != 0) = true then disconnectDev c else c) = c1 at *
  split
  · exact ⟨connectDev_ncl c1 h0.1, by rw [connectDev_clientIds, h0.2]⟩
  · exact h0
  · exact h0

/-- the two facts carried through a pass: client actions keep away from slot 0, and the client actions of the
    queue are the same, in the same order -/
def SameClients (d d' : Dev) : Prop := NoClientLogin d' ∧ clientIds d'.acts = clientIds d.acts

theorem SameClients.of_acts {d d' : Dev} (h : NoClientLogin d) (ha : d'.acts = d.acts) : SameClients d d' := by
  unfold SameClients NoClientLogin; rw [ha]; exact ⟨h, rfl⟩

theorem SameClients.trans {a b c : Dev} (h1 : SameClients a b) (h2 : SameClients b c) : SameClients a c :=
  ⟨h2.1, h2.2.trans h1.2⟩

theorem readyConnect_clients (c : CS) (h : NoClientLogin c.dev) : SameClients c.dev (readyConnect c).1.dev := by
  unfold readyConnect readyConnectTail
  split
  · exact SameClients.of_acts h rfl
  have h1 := finishConnectOne_acts c
  have h2 : (readyConnectFail (finishConnectOne c).1).dev.acts = (finishConnectOne c).1.dev.acts :=
    (finishConnectFail_frame _).dev.acts
  generalize finishConnectOne c = r at *
  have h3 : (if r.2 = true then r.1 else readyConnectFail r.1).dev.acts = c.dev.acts := by
    split
    · exact h1
    · rw [h2, h1]
  generalize (if r.2 = true then r.1 else readyConnectFail r.1) = c1 at *
  have hc1 : SameClients c.dev c1.dev := SameClients.of_acts h h3
  split
  · exact hc1
  · split
    · exact ⟨enqueueLogin_ncl _ hc1.1, by rw [enqueueLogin_clientIds]; exact hc1.2⟩
    · exact hc1

theorem handleReady_clients (c : CS) (h : NoClientLogin c.dev) : SameClients c.dev (handleReady c).1.dev := by
  rw [handleReady_eq]; unfold handleReady'
  dsimp only
  have same : SameClients c.dev c.dev := SameClients.of_acts h rfl
  have tail : ∀ f (r : CS × Bool × Bool), SameClients c.dev r.1.dev → SameClients c.dev (readyTail f r).1.dev := by
    intro f r hr
    unfold readyTail
    split
    · exact hr
    · split
      · exact hr
      · split
        · exact hr.trans (SameClients.of_acts hr.1 (readyRead_sameQueue r.1).acts)
        · exact hr
  split
  · exact same
  · split
    · exact same
    · split
      · exact same
      · apply tail
        split
        · split
          · exact readyConnect_clients c h
          · exact SameClients.of_acts h (readyWrite_sameQueue c).acts
        · exact same

theorem postPollReady_clients (d : Dev) (env : Env) (h : NoClientLogin d) : SameClients d (postPollReady d env).1.dev := by
  unfold postPollReady
  generalize (if d.fd.isSome then env.revents else 0) = fl
  split
  · exact handleReady_clients { dev := d, env := _, sys := [] } h
  · exact SameClients.of_acts h rfl

theorem appendPing_clients (now : Time) (c : CS) (h : NoClientLogin c.dev) : SameClients c.dev (appendPing now c).dev := by
  unfold appendPing SameClients NoClientLogin
  constructor
  · intro a ha
    simp only [List.mem_append, List.mem_singleton] at ha
    rcases ha with ha | rfl
    · exact h a ha
    · intro h6; simp [pingAction] at h6
  · simp [clientIds_append, clientIds_cons, pingAction, loginAction]

theorem postPollPre_clients (d : Dev) (env : Env) (h : NoClientLogin d) : SameClients d (postPollPre d env).1.dev := by
  have h1 := postPollReady_clients d env h
  have h2 : SameClients d (postPollReconnect (postPollReady d env)).1.dev := by
    unfold postPollReconnect
    split
    · exact h1.trans (reconnectDev_ncl _ _ h1.1)
    · exact h1
  unfold postPollPre
  generalize postPollReconnect (postPollReady d env) = r at *
  unfold postPollPing
  split
  · split
    · split
      · exact h2.trans (appendPing_clients _ _ h2.1)
      · exact h2
    · exact h2.trans (appendPing_clients _ _ h2.1)
  · exact h2

theorem ncl_of_acts {d : Dev} (l : List Action) (hl : d.acts = l) (h : ∀ a ∈ l, a.com = 0 → a.clientId = 0) :
    NoClientLogin d := by unfold NoClientLogin; rw [hl]; exact h

theorem ncl_cons_congr {a b : Action} {rest : List Action} (h : ∀ x ∈ a :: rest, x.com = 0 → x.clientId = 0)
    (h1 : b.com = a.com) (h2 : b.clientId = a.clientId) : ∀ x ∈ b :: rest, x.com = 0 → x.clientId = 0 := by
  intro x hx
  simp only [List.mem_cons] at hx
  rcases hx with rfl | hx
  · rw [h1, h2]; exact h a (by simp)
  · exact h x (by simp [hx])

theorem failAll_ncl (rest : List Action) (c : CS) (a : Action) (o : Oracle) (out : List Out) (tmo : Option Time) :
    NoClientLogin (failAll rest c a o out tmo).1.dev := by
  unfold failAll
  dsimp only
  split
  · exact (reconnectDev_ncl _ _ (ncl_of_acts [] rfl (by simp))).1
  · exact ncl_of_acts [] rfl (by simp)

theorem onTimeout_ncl (rest : List Action) (c : CS) (a : Action) (o : Oracle) (out : List Out) (tmo : Option Time)
    (h : NoClientLogin c.dev) : NoClientLogin (onTimeout rest c a o out tmo).1.dev := by
  unfold onTimeout
  dsimp only
  generalize (if a.telemetry = true then
      (if (c.dev.conn != 2) = true then [Out.telemetry a.clientId (str "connect(dev): timeout")]
       else teleMem a.clientId "recv(dev): '" c.dev.fromBuf) else []) = tele
  split
  · exact h
  · exact failAll_ncl _ _ _ _ _ _

theorem onRunStep_ncl (rest : List Action) (c : CS) (a : Action) (o : Oracle) (out : List Out) (tmo : Option Time)
    (left : Time) (h : ∀ x ∈ a :: rest, x.com = 0 → x.clientId = 0) :
    NoClientLogin (onRunStep rest c a o out tmo left).1.1.dev := by
  unfold onRunStep
  dsimp only
  have hL := (innerLoop_link c.env.now (loopBound a) { c.dev with wake := none } a o []).2
  have hIC := innerLoop_clientId c.env.now (loopBound a) { c.dev with wake := none } a o []
  generalize innerLoop c.env.now (loopBound a) { c.dev with wake := none } a o [] = r at *
  have hr := ncl_cons_congr h hL hIC
  have ha' := ncl_cons_congr h ((advance_com r.act).trans hL) ((advance_clientId r.act).trans hIC)
  split
  · exact ncl_of_acts _ rfl hr
  · split
    · exact ncl_of_acts _ rfl hr
    · split
      · split
        · exact ncl_of_acts rest rfl (fun x hx => h x (by simp [hx]))
        · exact ncl_of_acts _ rfl ha'
      · exact failAll_ncl _ _ _ _ _ _

theorem bodyStep_ncl (c : CS) (o : Oracle) (out : List Out) (tmo : Option Time) (h : NoClientLogin c.dev) :
    NoClientLogin (bodyStep c o out tmo).1.1.dev := by
  rcases bodyStep_cases c o out tmo with ⟨_, h2⟩ | ⟨a0, rest, _, _, h2⟩ | ⟨a0, rest, left, ha, _, _, h2⟩ | ⟨a0, rest, left, ha, _, _, h2⟩
  · rw [h2]; exact h
  · rw [h2]; exact onTimeout_ncl _ _ _ _ _ _ h
  · rw [h2]
    unfold NoClientLogin at h; rw [ha] at h
    exact ncl_of_acts _ rfl (ncl_cons_congr h (stamp_com _ _) (stamp_clientId _ _))
  · rw [h2]
    unfold NoClientLogin at h; rw [ha] at h
    exact onRunStep_ncl _ _ _ _ _ _ _ (ncl_cons_congr h (stamp_com _ _) (stamp_clientId _ _))

theorem processActionF_ncl (fuel : Nat) (c : CS) (o : Oracle) (out : List Out) (tmo : Option Time)
    (h : NoClientLogin c.dev) : NoClientLogin (processActionF fuel c o out tmo).1.dev := by
  induction fuel generalizing c o out tmo with
  | zero => exact h
  | succ n ih =>
    rw [processActionF_succ]
    unfold andThen
    have hb := bodyStep_ncl c o out tmo h
    generalize bodyStep c o out tmo = s at *
    split
    · exact ih _ _ _ _ hb
    · exact hb

/-- FIFO for a whole `dev_post_poll` pass: what the pass reports as completed is, in order, the client actions that
    left the front of the queue; the client actions still queued are the rest, in the same order (the login and
    ping actions the pass itself puts into the queue have no client) -/
theorem postPoll_fifo (d : Dev) (env : Env) (o : Oracle) (h : NoClientLogin d) :
    NoClientLogin (postPoll d env o).1.dev ∧
    finishesOf (postPoll d env o).2.2.1 ++ clientIds (postPoll d env o).1.dev.acts = clientIds d.acts := by
  rw [postPoll_eq]; unfold postPoll'
  split
  · have := postPollReady_clients d env h
    exact ⟨this.1, by simpa using this.2⟩
  · have hp := postPollPre_clients d env h
    unfold processAction
    refine ⟨processActionF_ncl _ _ _ _ _ hp.1, ?_⟩
    obtain ⟨l, h1, h2⟩ := processActionF_fifo (passFuel (postPollPre d env).1.dev) (postPollPre d env).1 o [] (postPollPre d env).2
    rw [h1, finishesOf_nil, List.nil_append, h2, hp.2]

/-- one event in the life of a device: a pass of `dev_post_poll` (with the kernel's and the regex engine's answers)
    or a client command reaching `dev_enqueue_actions` -/
inductive Ev where
  | pass (env : Env) (o : Oracle)
  | enq (com : Nat) (targets : List Bytes) (cid : Nat) (tele : Bool) (al : Nat)
  | connect (env : Env)                      -- `dev_initial_connect`
  | store (s : List (Nat × List Arg))        -- `Pm.Daemon.devPass` hands the shared argument store to the device
  | retry                                    -- `Pm.Daemon.install` clears the retry counter

/-- a history: the device afterwards, the client ids of the completions reported (in order), the client ids of the
    actions enqueued (in order, one entry per action) -/
def runHist : Dev → List Ev → Dev × List Nat × List Nat
  | d, [] => (d, [], [])
  | d, .pass env o :: r =>
    let p := postPoll d env o
    let h := runHist p.1.dev r
    (h.1, finishesOf p.2.2.1 ++ h.2.1, h.2.2)
  | d, .enq com targets cid tele al :: r =>
    let e := Pm.Daemon.enqueue d com targets cid tele al
    let h := runHist e.1 r
    (h.1, h.2.1, List.replicate e.2 cid ++ h.2.2)
  | d, .connect env :: r => runHist (connectDev { dev := d, env := env, sys := [] }).dev r
  | d, .store s :: r => runHist { d with args := s } r
  | d, .retry :: r => runHist { d with retryCount := 0 } r

/-- the client commands of a history use a real client (`cid ≠ 0`) and a real command (`com ≠ 0`: slot 0 is login) -/
def Ev.ok : Ev → Prop
  | .enq com _ cid _ _ => com ≠ 0 ∧ cid ≠ 0
  | _ => True

theorem clientIds_replicate (l : List Action) (cid : Nat) (hc : cid ≠ 0) (h : ∀ a ∈ l, a.clientId = cid) :
    clientIds l = List.replicate l.length cid := by
  induction l with
  | nil => rfl
  | cons a r ih =>
    have ha := h a (by simp)
    rw [clientIds_cons, ih (fun b hb => h b (by simp [hb])), ha]
    simp [hc, List.replicate_succ]

/-- C10 FIFO over a whole history: at any time, (completions reported so far, in order) followed by (client actions
    still queued, in queue order) is (client actions queued at the start) followed by (client actions enqueued since,
    in request order).  So completions are reported in request order, none is skipped, none is reported twice. -/
theorem runHist_fifo (evs : List Ev) (d : Dev) (h : NoClientLogin d) (hev : ∀ e ∈ evs, e.ok) :
    (runHist d evs).2.1 ++ clientIds (runHist d evs).1.acts = clientIds d.acts ++ (runHist d evs).2.2 := by
  induction evs generalizing d with
  | nil => simp [runHist]
  | cons e r ih =>
    have hr : ∀ e ∈ r, e.ok := fun x hx => hev x (by simp [hx])
    cases e with
    | pass env o =>
      unfold runHist
      dsimp only
      have hp := postPoll_fifo d env o h
      rw [List.append_assoc, ih _ hp.1 hr, ← List.append_assoc, hp.2]
    | enq com targets cid tele al =>
      unfold runHist
      dsimp only
      obtain ⟨hcom, hcid⟩ : com ≠ 0 ∧ cid ≠ 0 := hev (Ev.enq com targets cid tele al) (by simp)
      obtain ⟨l, h1, h2, h3⟩ := enqueue_spec d com targets cid tele al
      have hn : NoClientLogin (Pm.Daemon.enqueue d com targets cid tele al).1 := by
        unfold NoClientLogin; rw [h1]
        intro a ha
        rw [List.mem_append] at ha
        rcases ha with ha | ha
        · exact h a ha
        · intro h0; exact absurd h0 ((h3 a ha).2 hcom)
      rw [ih _ hn hr, h1, clientIds_append, h2, clientIds_replicate l cid hcid (fun a ha => (h3 a ha).1), List.append_assoc]
    | connect env =>
      unfold runHist
      rw [ih _ (connectDev_ncl _ h) hr, connectDev_clientIds]
    | store s => unfold runHist; exact ih _ h hr
    | retry => unfold runHist; exact ih _ h hr

/-! ## what the head sends does not depend on the rest of the queue

The statement interpreter receives the device record, which contains the queue; these lemmas show it never looks
at it: replacing the queue changes nothing but the queue field of the result. -/
set_option linter.unusedSimpArgs false

/-- the same result with another queue -/
def withActs (q : List Action) (r : StepR) : StepR := { r with dev := { r.dev with acts := q } }

theorem subOf_acts (d : Dev) (q : List Action) (i : Int) : subOf { d with acts := q } i = subOf d i := rfl
theorem findPlug_acts (d : Dev) (q : List Action) (n : Bytes) : findPlug { d with acts := q } n = findPlug d n := rfl
theorem getArgs_acts (d : Dev) (q : List Action) (n : Nat) : getArgs { d with acts := q } n = getArgs d n := rfl
theorem setArgs_acts (d : Dev) (q : List Action) (n : Nat) (as) : setArgs { d with acts := q } n as = { setArgs d n as with acts := q } := rfl

theorem stmtSend_acts (d a o e fmt) (q : List Action) : stmtSend { d with acts := q } a o e fmt = withActs q (stmtSend d a o e fmt) := by
  unfold stmtSend withActs
  try simp only [subOf_acts, findPlug_acts, getArgs_acts, setArgs_acts]
  repeat (first | rfl | split | dsimp only)
theorem stmtExpect_acts (d a o pat) (q : List Action) : stmtExpect { d with acts := q } a o pat = withActs q (stmtExpect d a o pat) := by
  unfold stmtExpect withActs
  try simp only [subOf_acts, findPlug_acts, getArgs_acts, setArgs_acts]
  repeat (first | rfl | split | dsimp only)
theorem stmtDelay_acts (d a o e now us) (q : List Action) : stmtDelay { d with acts := q } a o e now us = withActs q (stmtDelay d a o e now us) := by
  unfold stmtDelay withActs
  try simp only [subOf_acts, findPlug_acts, getArgs_acts, setArgs_acts]
  repeat (first | rfl | split | dsimp only)
theorem stmtSetplugstate_acts (d a o e l p s i) (q : List Action) : stmtSetplugstate { d with acts := q } a o e l p s i = withActs q (stmtSetplugstate d a o e l p s i) := by
  unfold stmtSetplugstate withActs
  try simp only [subOf_acts, findPlug_acts, getArgs_acts, setArgs_acts]
  repeat (first | rfl | split | dsimp only)
theorem stmtSetresult_acts (d a o p s i) (q : List Action) : stmtSetresult { d with acts := q } a o p s i = withActs q (stmtSetresult d a o p s i) := by
  unfold stmtSetresult withActs
  try simp only [subOf_acts, findPlug_acts, getArgs_acts, setArgs_acts]
  repeat (first | rfl | split | dsimp only)
theorem stmtForeach_acts (d a o e b n) (q : List Action) : stmtForeach { d with acts := q } a o e b n = withActs q (stmtForeach d a o e b n) := by
  unfold stmtForeach withActs
  try simp only [subOf_acts, findPlug_acts, getArgs_acts, setArgs_acts]
  repeat (first | rfl | split | dsimp only)
def ifState (d : Dev) (a : Action) (e : ExecCtx) : PState :=
  match e.plugs with
    | some (p :: _) => match p.node with
      | some n => match (getArgs d a.arglist).find? (fun (g : Arg) => g.node == n) with
        | some g => g.state
        | none => PState.unknown
      | none => PState.unknown
    | _ => PState.unknown
def ifTail (d : Dev) (a : Action) (o : Oracle) (e : ExecCtx) (body : List Stmt) (wantOn : Bool) (st : PState) : StepR :=
  if (wantOn && st == .on) || (!wantOn && st == .off) then
    let newCtx : ExecCtx := { block := body, pos := 0, plugs := some (e.plugs.getD []), plugItr := none, plugCopy := none, processing := false }
    ⟨d, { a with exec := newCtx :: { e with processing := true } :: a.exec.drop 1 }, o, [], true⟩
  else if st == .unknown then ⟨d, { a with errnum := .expfail }, o, [], true⟩
  else ⟨d, a, o, [], true⟩
theorem stmtIf_eq (d a o e b n) : stmtIf d a o e b n =
    if e.processing then ⟨d, setTop a { e with processing := false }, o, [], true⟩ else ifTail d a o e b n (ifState d a e) := by
  unfold stmtIf ifTail ifState; rfl
theorem ifState_acts (d : Dev) (q : List Action) (a e) : ifState { d with acts := q } a e = ifState d a e := rfl
theorem ifTail_acts (d a o e b n st) (q : List Action) : ifTail { d with acts := q } a o e b n st = withActs q (ifTail d a o e b n st) := by
  unfold ifTail withActs
  split
  · rfl
  · split <;> rfl
theorem stmtIf_acts (d a o e b n) (q : List Action) : stmtIf { d with acts := q } a o e b n = withActs q (stmtIf d a o e b n) := by
  rw [stmtIf_eq, stmtIf_eq, ifState_acts, ifTail_acts]
  split <;> rfl

theorem processStmt_acts (d : Dev) (a : Action) (o : Oracle) (now : Time) (q : List Action) :
    processStmt { d with acts := q } a o now = withActs q (processStmt d a o now) := by
  unfold processStmt
  dsimp only
  split
  · rfl
  all_goals first
    | exact stmtExpect_acts ..
    | exact stmtSend_acts ..
    | exact stmtDelay_acts ..
    | exact stmtSetplugstate_acts ..
    | exact stmtSetresult_acts ..
    | exact stmtForeach_acts ..
    | exact stmtIf_acts ..

theorem innerLoop_acts (now : Time) (fuel : Nat) (d : Dev) (a : Action) (o : Oracle) (acc : List Out) (q : List Action) :
    innerLoop now fuel { d with acts := q } a o acc = withActs q (innerLoop now fuel d a o acc) := by
  induction fuel generalizing d a o acc with
  | zero => simp only [innerLoop, processStmt_acts]; rfl
  | succ n ih =>
    unfold innerLoop
    dsimp only
    rw [processStmt_acts]
    split
    · rename_i h
      have h' : ((processStmt d a o now).finished && (processStmt d a o now).act.exec.length > a.exec.length) = true := h
      rw [if_pos h']
      exact ih ..
    · rename_i h
      have h' : ¬ ((processStmt d a o now).finished && (processStmt d a o now).act.exec.length > a.exec.length) = true := h
      rw [if_neg h']
      rfl

/-- what an iteration says depends on the head of the queue only: the actions queued behind it can be replaced by
    anything without changing a byte -/
theorem spoken_rest_indep (c : CS) (o : Oracle) (a0 : Action) (rest rest' : List Action) (h : c.dev.acts = a0 :: rest) :
    spoken { c with dev := { c.dev with acts := a0 :: rest' } } o = spoken c o := by
  have hs : speaker { c with dev := { c.dev with acts := a0 :: rest' } } = speaker c := by
    unfold speaker; simp only [h]
  unfold spoken
  rw [hs]
  cases speaker c with
  | none => rfl
  | some a =>
    show (innerLoop c.env.now (loopBound a) { ({ c.dev with acts := a0 :: rest' } : Dev) with wake := none } a o []).out
      = (innerLoop c.env.now (loopBound a) { c.dev with wake := none } a o []).out
    have e : ({ ({ c.dev with acts := a0 :: rest' } : Dev) with wake := none } : Dev)
        = { ({ c.dev with wake := none } : Dev) with acts := a0 :: rest' } := rfl
    rw [e, innerLoop_acts]; rfl

/-! ### what a telnet reply looks like -/

theorem telnetStep_reply (st : Nat) (cmd b : UInt8) :
    (telnetStep st cmd b).2.2.2 = [] ∨ (telnetStep st cmd b).2.2.2 = [255, 251, b] ∨ (telnetStep st cmd b).2.2.2 = [255, 252, b] := by
  unfold telnetStep
  split
  · split <;> simp
  · split
    · split
      · simp
      · split <;> simp
    · dsimp only
      split
      · split
        · simp
        · split <;> simp
      · simp

/-- the fold of `telnetFilter` from any accumulator: the reply component only grows, by whole IAC WILL / IAC WONT triples -/
theorem telnetFold_reply (bs : Bytes) (st : Nat) (cmd : UInt8) (k0 r0 : List UInt8) :
    ∃ chunks : List Bytes,
      (bs.foldl (fun (acc : Nat × UInt8 × List UInt8 × List UInt8) b =>
        let (st, cmd, kept, reply) := acc
        let (st', cmd', k, r) := telnetStep st cmd b
        (st', cmd', kept ++ k, reply ++ r)) (st, cmd, k0, r0)).2.2.2 = r0 ++ chunks.flatten ∧
      ∀ ch ∈ chunks, ∃ b, ch = [255, 251, b] ∨ ch = [255, 252, b] := by
  induction bs generalizing st cmd k0 r0 with
  | nil => exact ⟨[], by simp, by simp⟩
  | cons b r ih =>
    simp only [List.foldl_cons]
    have hs := telnetStep_reply st cmd b
    generalize telnetStep st cmd b = t at *
    obtain ⟨st', cmd', k, rp⟩ := t
    simp only at hs ⊢
    obtain ⟨chunks, h1, h2⟩ := ih st' cmd' (k0 ++ k) (r0 ++ rp)
    rcases hs with hs | hs | hs
    · exact ⟨chunks, by rw [h1, hs]; simp, h2⟩
    · refine ⟨rp :: chunks, by rw [h1]; simp, ?_⟩
      intro ch hch
      simp only [List.mem_cons] at hch
      rcases hch with rfl | hch
      · exact ⟨b, Or.inl hs⟩
      · exact h2 ch hch
    · refine ⟨rp :: chunks, by rw [h1]; simp, ?_⟩
      intro ch hch
      simp only [List.mem_cons] at hch
      rcases hch with rfl | hch
      · exact ⟨b, Or.inr hs⟩
      · exact h2 ch hch

/-- the telnet replies are a sequence of `IAC WILL x` / `IAC WONT x` triples -/
theorem telnetReplies_shape (st : Nat) (cmd : UInt8) (bs : Bytes) :
    ∃ chunks : List Bytes, telnetReplies st cmd bs = chunks.flatten ∧
      ∀ ch ∈ chunks, ∃ b, ch = [255, 251, b] ∨ ch = [255, 252, b] := by
  obtain ⟨chunks, h1, h2⟩ := telnetFold_reply bs st cmd [] []
  exact ⟨chunks, by unfold telnetReplies; rw [h1]; simp, h2⟩

/-! ## `Reach` covers what `Pm.Daemon` does with a device -/

open Pm.Daemon in
/-- a device pass of the daemon (`devPass`, when the daemon is still alive afterwards) leaves the device in a state
    reachable from the state it had -/
theorem devPass_reach (p : Pm.Daemon.PassIn) (a : Pm.Daemon.DevAcc) (nd : Bytes × Dev) (d0 : Dev) (h : Reach d0 nd.2)
    (hd : (Pm.Daemon.devPass p a nd).dead = false) :
    ∃ d', (Pm.Daemon.devPass p a nd).devs = a.devs ++ [(nd.1, d')] ∧ Reach d0 d' := by
  unfold Pm.Daemon.devPass at hd ⊢
  split
  · exact ⟨nd.2, rfl, h⟩
  · rename_i hdead
    simp only [hdead, Bool.false_eq_true, ↓reduceIte] at hd
    dsimp only at hd ⊢
    generalize hpp : postPoll _ _ _ = r at hd ⊢
    obtain ⟨c, o', outs, tmo⟩ := r
    dsimp only at hd ⊢
    refine ⟨c.dev, rfl, ?_⟩
    have hc : c = (postPoll _ _ _).1 := (congrArg Prod.fst hpp).symm
    rw [hc]
    refine Reach.pass _ _ _ (Reach.store _ _ h) ?_
    rw [← hc]
    simp only [Bool.or_eq_false_iff] at hd
    exact hd.1

/-- the per-device step of `install` -/
def installStep (com : Nat) (bnames : List Bytes) (cid : Nat) (tele : Bool) (al : Nat)
    (acc : List (Bytes × Dev) × Nat) (nd : Bytes × Dev) : List (Bytes × Dev) × Nat :=
  let (d1, n) := Pm.Daemon.enqueue nd.2 com bnames cid tele al
  let d1 := if n > 0 && d1.conn != 2 then { d1 with retryCount := 0 } else d1
  (acc.1 ++ [(nd.1, d1)], acc.2 + n)

theorem installStep_reach (com bnames cid tele al acc nd) :
    ∃ d', (installStep com bnames cid tele al acc nd).1 = acc.1 ++ [(nd.1, d')] ∧ ∀ d0, Reach d0 nd.2 → Reach d0 d' := by
  unfold installStep
  generalize he : Pm.Daemon.enqueue nd.2 com bnames cid tele al = e
  obtain ⟨d1, n⟩ := e
  dsimp only
  refine ⟨_, rfl, ?_⟩
  intro d0 h
  have h1 : Reach d0 d1 := by
    have := Reach.enqueue nd.2 com bnames cid tele al h
    rw [he] at this; exact this
  split
  · exact Reach.retry _ h1
  · exact h1

theorem installFold_reach (com bnames cid tele al) (l : List (Bytes × Dev)) (acc : List (Bytes × Dev) × Nat)
    (P : Bytes × Dev → Prop) (hacc : ∀ x ∈ acc.1, P x)
    (hl : ∀ nd ∈ l, ∀ d', (∀ d0, Reach d0 nd.2 → Reach d0 d') → P (nd.1, d')) :
    ∀ x ∈ (l.foldl (installStep com bnames cid tele al) acc).1, P x := by
  induction l generalizing acc with
  | nil => exact hacc
  | cons nd r ih =>
    simp only [List.foldl_cons]
    apply ih
    · obtain ⟨d', h1, h2⟩ := installStep_reach com bnames cid tele al acc nd
      rw [h1]
      intro x hx
      rw [List.mem_append] at hx
      rcases hx with hx | hx
      · exact hacc x hx
      · simp only [List.mem_singleton] at hx; subst hx; exact hl nd (by simp) d' h2
    · intro nd' hnd'; exact hl nd' (by simp [hnd'])

open Pm.Daemon in
/-- `install` with its per-device step named -/
def install' (w : W) (c : Cli) (com : Pm.Client.Com) (names : List Pm.Name) : W × Cli :=
  let al := w.alNext
  let bnames := names.map ofChars
  let no213 := (w, put c (codeLine 213 ++ crlf ++ (if c.quit then [] else prompt)))
  if w.devs.any (fun (nd : Bytes × Dev) => needsDev nd.2 bnames && !handles nd.2 (comIdx com) bnames) then no213 else
  let distinct := bnames.foldl (fun acc x => if acc.contains x then acc else acc ++ [x]) []
  let args : List Arg := distinct.map fun n => { node := n, val := none, state := .unknown, result := .none }
  let r := w.devs.foldl (installStep (comIdx com) bnames c.id c.telemetry al) ([], 0)
  if r.2 == 0 then no213 else
  ({ w with devs := r.1, store := (al, args) :: w.store, alNext := al + 1 }, { c with cmd := some { com, names, pending := r.2, error := false, al } })

open Pm.Daemon in
theorem install_eq (w : W) (c : Cli) (com : Pm.Client.Com) (names : List Pm.Name) :
    install w c com names = install' w c com names := by
  unfold install install' installStep
  rfl

open Pm.Daemon in
/-- a client command leaves every device in a state reachable from the state it had -/
theorem install_reach (w : W) (c : Cli) (com : Pm.Client.Com) (names : List Pm.Name) :
    ∀ x ∈ (install w c com names).1.devs, ∃ nd ∈ w.devs, x.1 = nd.1 ∧ ∀ d0, Reach d0 nd.2 → Reach d0 x.2 := by
  have keep : ∀ x ∈ w.devs, ∃ nd ∈ w.devs, x.1 = nd.1 ∧ ∀ d0, Reach d0 nd.2 → Reach d0 x.2 :=
    fun x hx => ⟨x, hx, rfl, fun _ h => h⟩
  rw [install_eq]
  unfold install'
  dsimp only
  split
  · exact keep
  · split
    · exact keep
    · exact installFold_reach (comIdx com) (names.map ofChars) c.id c.telemetry w.alNext w.devs ([], 0)
        (fun x => ∃ nd ∈ w.devs, x.1 = nd.1 ∧ ∀ d0, Reach d0 nd.2 → Reach d0 x.2) (by simp)
        (fun nd hnd d' h => ⟨nd, hnd, rfl, h⟩)

/-! ## concrete values for the non-vacuity examples of `Props/C10` -/
namespace Ex

/-- one plug `1` = node `n1`; login = send "l", expect; on = delay 0 (finishes at once); off = send "o", expect -/
def dev0 : Dev :=
  { plugs := [⟨[49], some [110, 49]⟩],
    scripts := fun n => if n = 0 then some [.send [108], .expect 1] else if n = 7 then some [.delay 0]
                        else if n = 10 then some [.send [111], .expect 2] else none,
    timeout := 10000000, acts := [], toBuf := [], fromBuf := [], xmStr := none, xmOffs := [], xmResult := false,
    xmUsed := false, args := [], nextUid := 0, shortCircuitDelay := false }

/-- a kernel that connects at once and reports nothing ready -/
def env0 : Env := { now := 1000, revents := 0, sockets := [5], connects := [0], soerrs := [0], read := none, writeOk := true }
/-- a kernel whose `connect` answers EINPROGRESS -/
def envSlow : Env := { env0 with connects := [1], soerrs := [] }
/-- the descriptor is writable and the pending connect has succeeded -/
def envOut : Env := { env0 with revents := 2, sockets := [], connects := [] }
/-- the device has sent a telnet `IAC DO SUPPRESS-GO-AHEAD` -/
def envTelnet : Env := { env0 with revents := 1, read := some (some [255, 253, 3]) }
/-- twenty seconds later; a new connect would succeed at once -/
def envLate : Env := { env0 with now := 20000000, sockets := [6] }

/-- `dev_initial_connect` succeeded: CONNECTED, not logged in, login queued -/
def connected : Dev := (connectDev { dev := dev0, env := env0, sys := [] }).dev
/-- `dev_initial_connect` left the device CONNECTING -/
def connecting : Dev := (connectDev { dev := dev0, env := envSlow, sys := [] }).dev
/-- connected and logged in, nothing queued -/
def ready : Dev := { dev0 with conn := 2, loggedIn := true, fd := some 5 }
/-- just connected, a client `off` (client 3) queued behind the login -/
def fresh : Dev := (Pm.Daemon.enqueue connected 10 [[110, 49]] 3 false 0).1

/-- two `on` commands (clients 1, 2), an `off` (client 3), then a pass -/
def hist : List Ev := [.enq 7 [[110, 49]] 1 false 0, .enq 7 [[110, 49]] 2 false 0, .enq 10 [[110, 49]] 3 false 0, .pass env0 ⟨[]⟩]

end Ex


end Pm.Dev2.Login2
