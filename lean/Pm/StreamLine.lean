import Pm.StreamClean
import Pm.IsolationProof
/-! Helper lemmas for C15 over whole runs, part 2: **the grammar, the per-client invariant, and one request line**.

    * `trun`: the *strict* recogniser `001 prompt ((3xx|208)* terminal prompt)* (3xx|208)*` — the language of a client that has
      not quit: every terminal line (other than 208) is followed at once by the prompt.  `srun` (of `ClientStream`) is the
      *lax* one that also covers a client after `quit`/EOF, where replies come without prompt.
    * `SInv cl total c`: the per-client invariant tying the recogniser to the client's record.
    * `Ext cl c c' items`: what a step may append; `SInv` is closed under `Ext`, and `Ext` composes.
    * `Good w`: the static data of the world (version, node names, alias hosts, device names, plug nodes, specification
      names) is free of CR/LF.
    * `LineOut`: the outcome of `_parse_input` on one line, with explicit texts, so that under `Good` every line is clean. -/
namespace Pm.Daemon.StreamPf
open Pm Pm.Client Pm.Daemon Pm.Daemon.ClientPf
open Pm.Dev2 (Dev ActErr)

/-! ### the strict recogniser -/

inductive TState where
  | start   -- nothing sent yet
  | banner  -- banner sent: the prompt must come
  | open    -- after a prompt, a 3xx line or a 208 line: lines may come, a prompt may not
  | term    -- directly after a terminal line: only the prompt may come
deriving DecidableEq, Repr

def tstep : TState → Item → Option TState
  | .start, .line c _ => if c == 1 then some .banner else none
  | .start, .prompt => none
  | .banner, .prompt => some .open
  | .banner, .line _ _ => none
  | .open, .prompt => none
  | .open, .line c _ =>
    if infoCodes.contains c || c == 208 then some .open
    else if termCodes.contains c then some .term
    else none
  | .term, .prompt => some .open
  | .term, .line _ _ => none

def trun : TState → List Item → Option TState
  | s, [] => some s
  | s, i :: r => match tstep s i with
    | some s' => trun s' r
    | none => none

/-- strict stream: banner, prompt, then blocks `(3xx|208)* terminal prompt`, then `(3xx|208)*` -/
def strictStream (items : List Item) : Bool := trun .start items == some .open

theorem trun_append (s : TState) (a b : List Item) : trun s (a ++ b) = (trun s a).bind fun s' => trun s' b := by
  induction a generalizing s with
  | nil => rfl
  | cons i r ih =>
    simp only [List.cons_append, trun]
    cases tstep s i with
    | none => rfl
    | some s' => exact ih s'

def TState.lax : TState → SState
  | .start => .start
  | .banner => .banner
  | .open => .noPrompt
  | .term => .afterTerm

theorem tstep_lax (s : TState) (i : Item) (s' : TState) (h : tstep s i = some s') : sstep s.lax i = some s'.lax := by
  cases s with
  | start =>
    cases i with
    | prompt => simp [tstep] at h
    | line c t =>
      simp only [tstep] at h
      split at h
      · rename_i hc; cases h; simp [sstep, TState.lax, hc]
      · cases h
  | banner =>
    cases i with
    | prompt => simp only [tstep] at h; cases h; rfl
    | line c t => simp [tstep] at h
  | «open» =>
    cases i with
    | prompt => simp [tstep] at h
    | line c t =>
      simp only [tstep] at h
      split at h
      · rename_i hc; cases h; simp only [sstep, TState.lax, hc, if_true]
      · rename_i hc
        split at h
        · rename_i hc2; cases h; simp only [sstep, TState.lax, hc, hc2, if_true, if_false, Bool.false_eq_true]
        · cases h
  | term =>
    cases i with
    | prompt => simp only [tstep] at h; cases h; rfl
    | line c t => simp [tstep] at h

/-- the strict language is contained in the lax one -/
theorem trun_lax (s : TState) (items : List Item) (s' : TState) (h : trun s items = some s') : srun s.lax items = some s'.lax := by
  induction items generalizing s with
  | nil => simp only [trun] at h; cases h; rfl
  | cons i r ih =>
    simp only [trun] at h
    cases hs : tstep s i with
    | none => rw [hs] at h; cases h
    | some s1 =>
      rw [hs] at h
      simp only [srun, tstep_lax s i s1 hs]
      exact ih s1 h

theorem tstep_open_info (c : Nat) (t : Bytes) (hc : c ∈ infoCodes ∨ c = 208) : tstep .open (.line c t) = some .open := by
  have : (infoCodes.contains c || c == 208) = true := by
    rcases hc with h | h
    · rw [List.contains_iff_mem.mpr h]; rfl
    · simp [h]
  simp only [tstep, this, if_true]

theorem tstep_open_term (c : Nat) (t : Bytes) (hc : c ∈ termCodes) : tstep .open (.line c t) = some .term := by
  have h1 : (infoCodes.contains c || c == 208) = false := by
    have : ∀ c ∈ termCodes, (infoCodes.contains c || c == 208) = false := by decide
    exact this c hc
  have h2 : termCodes.contains c = true := List.contains_iff_mem.mpr hc
  simp only [tstep, h1, h2, if_true, if_false, Bool.false_eq_true]

theorem trun_infos (l : List Item) (cs : List Nat) (hcs : ∀ c ∈ cs, c ∈ infoCodes ∨ c = 208) (hl : ∀ i ∈ l, i.lineIn cs = true) :
    trun .open l = some .open := by
  induction l with
  | nil => rfl
  | cons i r ih =>
    cases i with
    | prompt => have := hl .prompt (by simp); simp [Item.lineIn] at this
    | line c t =>
      have hc : c ∈ cs := by have := hl (.line c t) (by simp); simpa [Item.lineIn] using this
      simp only [trun, tstep_open_info c t (hcs c hc)]
      exact ih (fun i hi => hl i (by simp [hi]))

/-- a block `3xx* terminal prompt` takes the strict recogniser from `open` back to `open` -/
theorem trun_block (infos : List Item) (cs : List Nat) (hcs : ∀ c ∈ cs, c ∈ infoCodes ∨ c = 208)
    (hi : ∀ i ∈ infos, i.lineIn cs = true) (code : Nat) (text : Bytes) (hc : code ∈ termCodes) :
    trun .open (infos ++ [Item.line code text, Item.prompt]) = some .open := by
  rw [trun_append, trun_infos infos cs hcs hi]
  show (trun .open [Item.line code text, Item.prompt]) = some .open
  rw [trun, tstep_open_term code text hc]
  rfl

theorem trun_final (items : List Item) (h : FinalReply items) : trun .open items = some .open := by
  obtain ⟨pre, infos, code, text, rfl, hp, hi, hc, _⟩ := h
  have ht : code ∈ termCodes := by
    have : ∀ c ∈ finalTermCodes, c ∈ termCodes := by decide
    exact this code hc
  rw [List.append_assoc, trun_append, trun_infos pre [308] (by decide) hp]
  exact trun_block infos finalInfoCodes (by decide) hi code text ht

theorem trun_progress (items : List Item) (h : Progress items) : trun .open items = some .open :=
  trun_infos items progressCodes (by decide) h

/-! ### what a step may append, and the per-client invariant -/

/-- The one fact about the standard library that the `305` line needs: `String.replace` (substitution of the device name
    for `(dev)` in a telemetry text, `teleText`) does not create a CR or LF out of a text and a name that contain none.
    Proved in `Pm/StreamReplace.lean` (`replaceClean`), through `Std.Iter.foldl_toList`; the induction over runs is kept
    independent of it (`LineOK`). -/
def ReplaceClean : Prop :=
  ∀ name t : Bytes, cleanText name = true → cleanText t = true → cleanText (teleText name t) = true

/-- what the induction over runs establishes about a line of the stream: it is clean (a single protocol line) unless it is
    a `305` telemetry line, and a `305` line is clean too if `String.replace` is (`ReplaceClean` — which holds:
    `replaceClean`) -/
def LineOK (i : Item) : Prop := (i.lineIn [305] = false → i.clean = true) ∧ (ReplaceClean → i.clean = true)

theorem LineOK.of_clean {i : Item} (h : i.clean = true) : LineOK i := ⟨fun _ => h, fun _ => h⟩

theorem LineOK.tele {t : Bytes} (h : ReplaceClean → cleanText t = true) : LineOK (Item.line 305 t) :=
  ⟨fun h' => by simp [Item.lineIn] at h', h⟩

/-- the target names of the command in progress contain no CR/LF -/
def CmdClean (c : Cli) : Prop := ∀ k, c.cmd = some k → ∀ n ∈ k.names, cleanName n = true

/-- codes of the lines of the telemetry and diagnostic callbacks -/
def strayCodes : List Nat := [305, 309]

/-- the link between the record and the end of the stream: a client that is idle and has not quit has been prompted, and
    nothing came after that prompt — the server is waiting for a request and has said so.  (In particular no telemetry or
    diagnostic line reaches an idle client: `Ledger`.) -/
def AtPrompt (c : Cli) (items : List Item) : Prop :=
  c.cmd = none → c.quit = false → items.getLast? = some Item.prompt

theorem AtPrompt.of_last {c : Cli} (items0 items : List Item) (h : items.getLast? = some Item.prompt) : AtPrompt c (items0 ++ items) := by
  intro _ _
  exact getLast?_append_prompt _ _ h

/-- a step takes record `c` to `c'` and appends `render items` to the client's cumulative output.  `cl` switches the
    cleanliness bookkeeping on (`True`) or off (`False`: pure structure, no hypothesis about data). -/
structure Ext (cl : Prop) (c c' : Cli) (items : List Item) : Prop where
  lax : ∀ s : SState, s.live = true → ∃ s', srun s items = some s' ∧ s'.live = true
  strict : c'.quit = false → trun .open items = some .open
  quit : c.quit = true → c'.quit = true
  prompted : ∀ items0, AtPrompt c items0 → AtPrompt c' (items0 ++ items)
  clean : cl → CmdClean c → (∀ i ∈ items, LineOK i) ∧ CmdClean c'

theorem Ext.refl (cl : Prop) (c : Cli) : Ext cl c c [] :=
  ⟨fun s hs => ⟨s, rfl, hs⟩, fun _ => rfl, fun h => h, fun items0 h => by simpa using h, fun _ h => ⟨by simp, h⟩⟩

theorem Ext.trans {cl : Prop} {a b c : Cli} {i1 i2 : List Item} (h1 : Ext cl a b i1) (h2 : Ext cl b c i2) : Ext cl a c (i1 ++ i2) where
  lax := by
    intro s hs
    obtain ⟨s1, e1, l1⟩ := h1.lax s hs
    obtain ⟨s2, e2, l2⟩ := h2.lax s1 l1
    exact ⟨s2, by rw [srun_append, e1]; exact e2, l2⟩
  strict := by
    intro hq
    have hb : b.quit = false := by
      cases hbq : b.quit with
      | false => rfl
      | true => rw [h2.quit hbq] at hq; cases hq
    rw [trun_append, h1.strict hb]; exact h2.strict hq
  quit := fun h => h2.quit (h1.quit h)
  prompted := by
    intro items0 h
    rw [← List.append_assoc]
    exact h2.prompted _ (h1.prompted _ h)
  clean := by
    intro hcl hc
    obtain ⟨c1, k1⟩ := h1.clean hcl hc
    obtain ⟨c2, k2⟩ := h2.clean hcl k1
    refine ⟨?_, k2⟩
    intro i hi
    rcases List.mem_append.mp hi with hi | hi
    · exact c1 i hi
    · exact c2 i hi

/-- a step that appends nothing and at most sets `quit` (EOF, read/write errors) or moves bytes -/
theorem Ext.record (cl : Prop) (c c' : Cli) (hq : c.quit = true → c'.quit = true) (hcmd : c'.cmd = c.cmd) : Ext cl c c' [] where
  lax := fun s hs => ⟨s, rfl, hs⟩
  strict := fun _ => rfl
  quit := hq
  prompted := by
    intro items0 h hc hq'
    rw [List.append_nil]
    refine h (hcmd ▸ hc) ?_
    cases hcq : c.quit with
    | false => rfl
    | true => rw [hq hcq] at hq'; cases hq'
  clean := fun _ h => ⟨by simp, fun k hk => h k (hcmd ▸ hk)⟩

/-- **the per-client invariant.**  `total` (everything ever queued for the client: what earlier passes wrote to the
    descriptor, what this pass wrote, what still waits in `to`) is the rendering of an item list that

    * the lax recogniser accepts, past banner and first prompt (`srun`);
    * the strict recogniser accepts in state `open` as long as the client has not quit: until then every terminal line was
      followed at once by the prompt;
    * ends with the prompt when the client is idle and has not quit (`AtPrompt`);
    * consists of lines that are `LineOK` (clean; for a `305` line: clean if `ReplaceClean`), and the command in progress has
      clean target names (when `cl`). -/
def SInv (cl : Prop) (total : Bytes) (c : Cli) : Prop :=
  ∃ items, total = render items ∧ (∃ s, srun .start items = some s ∧ s.live = true) ∧
    (c.quit = false → trun .start items = some .open) ∧ AtPrompt c items ∧
    (cl → (∀ i ∈ items, LineOK i) ∧ CmdClean c)

theorem SInv.ext {cl : Prop} {total : Bytes} {c c' : Cli} {items : List Item} (h : SInv cl total c) (he : Ext cl c c' items) :
    SInv cl (total ++ render items) c' := by
  obtain ⟨items0, e0, ⟨s, hs, hl⟩, hstrict, hp, hc⟩ := h
  obtain ⟨s', hs', hl'⟩ := he.lax s hl
  refine ⟨items0 ++ items, by rw [e0, render_append], ⟨s', by rw [srun_append, hs]; exact hs', hl'⟩, ?_, he.prompted _ hp, ?_⟩
  · intro hq
    have hcq : c.quit = false := by
      cases hcq : c.quit with
      | false => rfl
      | true => rw [he.quit hcq] at hq; cases hq
    rw [trun_append, hstrict hcq]; exact he.strict hq
  · intro hcl
    obtain ⟨c0, k0⟩ := hc hcl
    obtain ⟨c1, k1⟩ := he.clean hcl k0
    refine ⟨?_, k1⟩
    intro i hi
    rcases List.mem_append.mp hi with hi | hi
    · exact c0 i hi
    · exact c1 i hi

/-- the invariant implies the `StreamOK` of the earlier, per-step theorems -/
theorem SInv.streamOK {total : Bytes} {c : Cli} (h : SInv True total c) (hrep : ReplaceClean) : StreamOK total := by
  obtain ⟨items, e, ⟨s, hs, hl⟩, _, _, hc⟩ := h
  exact ⟨items, s, e, hs, hl, fun i hi => ((hc trivial).1 i hi).2 hrep⟩

/-- a new client: banner and prompt -/
theorem SInv.banner (cl : Prop) (w : W) (hv : cl → cleanText w.cfg.version = true) : SInv cl (newClient w).toBuf (newClient w) := by
  refine ⟨[Item.line 1 w.cfg.version, Item.prompt], newClient_banner w, ⟨.noPrompt, rfl, rfl⟩, fun _ => rfl,
    fun _ _ => rfl, ?_⟩
  intro hcl
  refine ⟨?_, fun k hk => by simp [newClient] at hk⟩
  intro i hi; simp at hi; rcases hi with rfl | rfl
  · exact LineOK.of_clean (hv hcl)
  · exact LineOK.of_clean rfl

/-! ### the static data of the world -/

/-- no device name and no node name wired to a plug contains CR/LF -/
def GoodDevs (devs : List (Bytes × Dev)) : Prop :=
  (∀ nd ∈ devs, cleanText nd.1 = true) ∧ ∀ nd ∈ devs, ∀ p ∈ nd.2.plugs, ∀ n, p.node = some n → cleanText n = true

/-- the configuration data that reaches clients is free of CR/LF: the version string, the node names (the node list is in
    the shape every constructor of the hostlist library produces), the hosts of the aliases, device names, plug nodes and
    specification names -/
structure Good (w : W) : Prop where
  version : cleanText w.cfg.version = true
  nodesWF : HWFS w.cfg.nodes
  nodes : HLClean w.cfg.nodes
  aliases : ∀ a ∈ w.cfg.aliases, ∀ n ∈ a.2, cleanName n = true
  devs : GoodDevs w.devs
  specs : ∀ p ∈ w.specs, cleanText p.2 = true

theorem lookup_mem {α β : Type} [BEq α] (l : List (α × β)) (k : α) (v : β) (h : l.lookup k = some v) : ∃ p ∈ l, p.2 = v := by
  induction l with
  | nil => simp at h
  | cons x r ih =>
    rw [List.lookup_cons] at h
    split at h
    · cases h; exact ⟨x, by simp, rfl⟩
    · obtain ⟨p, hp, e⟩ := ih h; exact ⟨p, by simp [hp], e⟩

theorem Good.spec {w : W} (h : Good w) (name : Bytes) : cleanText ((w.specs.lookup name).getD []) = true := by
  cases hl : w.specs.lookup name with
  | none => rfl
  | some v =>
    obtain ⟨p, hp, e⟩ := lookup_mem _ _ _ hl
    simp only [Option.getD_some]; rw [← e]; exact h.specs p hp

theorem Good.names {w : W} (h : Good w) : ∀ n ∈ expand w.cfg.nodes, cleanName n = true := expand_clean _ h.nodes

/-- what `Good` depends on -/
theorem Good.congr {w w' : W} (h : Good w) (h1 : w'.cfg = w.cfg) (h2 : w'.devs = w.devs) (h3 : w'.specs = w.specs) : Good w' := by
  obtain ⟨a, b, c, d, e, f⟩ := h
  exact ⟨h1 ▸ a, h1 ▸ b, h1 ▸ c, h1 ▸ d, h2 ▸ e, h3 ▸ f⟩


/-! ### the ledger between commands and device queues -/

/-- number of actions of client `g` queued on all devices -/
def queued (devs : List (Bytes × Dev)) (g : Nat) : Nat := (devs.map fun nd => Pm.Dev2.qcount g nd.2.acts).sum

/-- completions the client's command still waits for -/
def pend (c : Cli) : Nat := match c.cmd with | some k => k.pending | none => 0

theorem queued_installDev (com : Nat) (bn : List Bytes) (cid : Nat) (tele : Bool) (al : Nat) (devs : List (Bytes × Dev)) (g : Nat) :
    queued (devs.map (Enq.installDev com bn cid tele al)) g =
      queued devs g + (if g = cid then Enq.installTotal com bn cid tele al devs else 0) := by
  induction devs with
  | nil => simp [queued, Enq.installTotal]
  | cons nd r ih =>
    have ih' : (List.map (fun nd => Pm.Dev2.qcount g nd.2.acts) (List.map (Enq.installDev com bn cid tele al) r)).sum =
        (List.map (fun nd => Pm.Dev2.qcount g nd.2.acts) r).sum + (if g = cid then Enq.installTotal com bn cid tele al r else 0) := ih
    have hnew : Pm.Dev2.qcount g (Enq.newActs nd.2.plugs nd.2.scripts com bn cid tele al) =
        if g = cid then (Enq.newActs nd.2.plugs nd.2.scripts com bn cid tele al).length else 0 := by
      unfold Pm.Dev2.qcount
      split
      · rename_i hg
        rw [List.countP_eq_length]
        intro a ha
        have := (Enq.newActs_kind ha).2.1
        simp [this, hg]
      · rename_i hg
        rw [List.countP_eq_zero]
        intro a ha
        have := (Enq.newActs_kind ha).2.1
        simp only [this, beq_iff_eq]
        exact fun e => hg e.symm
    simp only [queued, List.map_cons, List.sum_cons, (Enq.installDev_spec com bn cid tele al nd).2.2.1, Enq.installTotal]
    rw [ih']
    have : Pm.Dev2.qcount g (nd.2.acts ++ Enq.newActs nd.2.plugs nd.2.scripts com bn cid tele al) =
        Pm.Dev2.qcount g nd.2.acts + Pm.Dev2.qcount g (Enq.newActs nd.2.plugs nd.2.scripts com bn cid tele al) := by
      simp [Pm.Dev2.qcount, List.countP_append]
    rw [this, hnew]
    simp only [Enq.installTotal]
    split <;> omega

/-! ### the outcome of one request line, with explicit texts -/

/-- what `_parse_input` does with one line.  Compared with `LineOutcome` of `ClientProof` the reply is given by its parts
    (so that the text of every line is known), the cases where the prompt is withheld are tied to the record (`101` only
    with `quit` set, `208` only with a command in progress), and the static data stays `Good`. -/
inductive LineOut (cl : Prop) (w : W) (c : Cli) (r : W × Cli) : Prop where
  | exit (h : r = ({ w with exited := true }, c))
  | reply (infos : List Item) (code : Nat) (text : Bytes)
      (out : outOf r.1 r.2 = outOf w c ++
        render (infos ++ [Item.line code text] ++ (if promptAfter r.2.quit code then [Item.prompt] else [])))
      (hi : ∀ i ∈ infos, i.lineIn infoCodesP = true) (hc : code ∈ termCodesP)
      (h101 : code = 101 → r.2.quit = true) (h208 : code = 208 → c.cmd.isSome = true)
      (cmd : r.2.cmd = c.cmd) (quit : c.quit = true → r.2.quit = true)
      (clean : cl → Good w → ∀ i ∈ infos ++ [Item.line code text], i.clean = true)
      (good : Good w → Good r.1) (devs : r.1.devs = w.devs)
  | installed (k : CmdC) (idle : c.cmd = none) (cmd : r.2.cmd = some k) (out : outOf r.1 r.2 = outOf w c)
      (quit : r.2.quit = c.quit) (names : Good w → ∀ n ∈ k.names, cleanName n = true) (good : Good w → Good r.1)
      (led : ∃ com bn tele al, r.1.devs = w.devs.map (Enq.installDev com bn c.id tele al) ∧
        k.pending = Enq.installTotal com bn c.id tele al w.devs)

theorem mkReply2 (cl : Prop) (w : W) (c0 : Cli) (r : W × Cli) (infos : List Item) (code : Nat) (text : Bytes)
    (hsys : r.1.sys = w.sys) (hfd : r.2.fd = c0.fd) (hcmd : r.2.cmd = c0.cmd) (hq : r.2.quit = c0.quit)
    (hbuf : r.2.toBuf = c0.toBuf ++ (render (infos ++ [Item.line code text]) ++ (if r.2.quit then [] else prompt)))
    (hi : ∀ i ∈ infos, i.lineIn infoCodesP = true)
    (hc : code ∈ termCodesP) (h208 : code ≠ 208) (h101 : code ≠ 101)
    (hcl : cl → Good w → ∀ i ∈ infos ++ [Item.line code text], i.clean = true) (hg : Good w → Good r.1)
    (hdevs : r.1.devs = w.devs) : LineOut cl w c0 r := by
  have hbuf' : r.2.toBuf = c0.toBuf ++ render (infos ++ [Item.line code text] ++ (if promptAfter r.2.quit code then [Item.prompt] else [])) := by
    rw [hbuf]; simp only [promptAfter]
    cases r.2.quit <;> simp [h208, h101, render, Item.render]
  refine .reply infos code text ?_ hi hc (fun h => absurd h h101) (fun h => absurd h h208) hcmd (fun h => by rw [hq]; exact h) hcl hg hdevs
  simp only [outOf, hbuf', hsys, hfd, List.append_assoc]

theorem plFin_out (cl : Prop) (w : W) (c0 c : Cli) (b : Bytes) (infos : List Item) (code : Nat) (text : Bytes)
    (h1 : c.toBuf = c0.toBuf) (h2 : c.cmd = c0.cmd) (h3 : c.fd = c0.fd) (h4 : c.quit = c0.quit)
    (hb : b = render (infos ++ [Item.line code text])) (hi : ∀ i ∈ infos, i.lineIn infoCodesP = true)
    (hc : code ∈ termCodesP) (h208 : code ≠ 208) (h101 : code ≠ 101)
    (hcl : cl → Good w → ∀ i ∈ infos ++ [Item.line code text], i.clean = true) : LineOut cl w c0 (plFin w c b) :=
  mkReply2 cl w c0 _ infos code text rfl h3 h2 h4 (by simp only [plFin, put, h1, hb]) hi hc h208 h101 hcl (fun h => h) rfl

theorem fixed1_out (cl : Prop) (w : W) (c : Cli) (b : Bytes) (code : Nat) (text : Bytes) (hb : b = render [Item.line code text])
    (hc : code ∈ termCodesP) (h208 : code ≠ 208) (h101 : code ≠ 101) (ht : cleanText text = true) : LineOut cl w c (plFin w c b) :=
  plFin_out cl w c c b [] code text rfl rfl rfl rfl (by rw [hb]; rfl) (by simp) hc h208 h101
    (by intro _ _ i hi; simp at hi; subst hi; exact ht)

theorem help_out (cl : Prop) (w : W) (c : Cli) : LineOut cl w c (plFin w c (helpText ++ bstr "103 Query complete" ++ crlf)) := by
  apply plFin_out cl w c c _ helpItems 103 (bstr "Query complete") rfl rfl rfl rfl
  · rw [List.append_assoc, bstr_103, helpText_eq, render_append]
  · exact helpItems_info
  · decide
  · decide
  · decide
  · intro _ _ i hi
    rcases List.mem_append.mp hi with hi | hi
    · exact helpItems_clean i hi
    · simp at hi; subst hi; decide +kernel

theorem nodesItems_clean (e : Bool) (hl : Hostlist) (h : HLClean hl) : ∀ i ∈ nodesItems e hl, i.clean = true := by
  intro i hi; unfold nodesItems at hi
  split at hi
  · simp only [List.mem_map] at hi
    obtain ⟨n, hn, rfl⟩ := hi
    simp only [Item.clean, cleanText_ofChars]
    exact expand_clean hl h n hn
  · simp at hi; subst hi
    simp only [Item.clean, cleanText_ofChars]
    exact rangedString_clean hl h

theorem plNodes_out (cl : Prop) (w : W) (c : Cli) : LineOut cl w c (plNodes w c) := by
  unfold plNodes
  split
  · exact .exit rfl
  · exact .exit rfl
  · rename_i hl h
    simp only [nodesBody_eq]
    refine mkReply2 cl w c _ (nodesItems c.exprange hl) 103 (bstr "Query complete") rfl rfl rfl rfl ?_ (nodesItems_info _ _)
      (by decide) (by decide) (by decide) ?_ ?_ rfl
    · simp only [put, render_append, ← bstr_103, List.append_assoc]
    · intro _ hg i hi
      rcases List.mem_append.mp hi with hi | hi
      · exact nodesItems_clean _ hl (sortHL_clean _ hl hg.nodesWF hg.nodes h) i hi
      · simp at hi; subst hi; decide +kernel
    · intro hg
      exact ⟨hg.version, sortHL_wfs _ hl hg.nodesWF h, sortHL_clean _ hl hg.nodesWF hg.nodes h, hg.aliases, hg.devs, hg.specs⟩

theorem plTelemetry_out (cl : Prop) (w : W) (c : Cli) : LineOut cl w c (plTelemetry w c) := by
  unfold plTelemetry
  exact plFin_out cl w c _ _ [] 104 _ rfl rfl rfl rfl (by rw [bstr_104]; rfl) (by simp) (by decide) (by decide) (by decide)
    (fun _ _ => onoff_clean _ _ (by decide +kernel) _)

theorem plExprange_out (cl : Prop) (w : W) (c : Cli) : LineOut cl w c (plExprange w c) := by
  unfold plExprange
  exact plFin_out cl w c _ _ [] 105 _ rfl rfl rfl rfl (by rw [bstr_105]; rfl) (by simp) (by decide) (by decide) (by decide)
    (fun _ _ => onoff_clean _ _ (by decide +kernel) _)

theorem handleWrite_good (w : W) (c : Cli) (h : Good w) : Good (handleWrite w c).1 := by
  apply h.congr
  all_goals
    unfold handleWrite
    dsimp only
    repeat' split
    all_goals rfl

theorem handleWrite_devs (w : W) (c : Cli) : (handleWrite w c).1.devs = w.devs := by
  unfold handleWrite
  dsimp only
  repeat' split
  all_goals rfl

theorem plQuit_out (cl : Prop) (w : W) (c : Cli) : LineOut cl w c (plQuit w c) := by
  obtain ⟨hq, hcmd, _, hfr⟩ := plQuit_spec w c
  refine .reply [] 101 (bstr "Goodbye") ?_ (by simp) (by decide) (fun _ => hq.1) (fun h => by cases h) hcmd (fun _ => hq.1)
    (by intro _ _ i hi; simp at hi; subst hi; decide +kernel) (fun h => handleWrite_good w _ h) (handleWrite_devs w _)
  have : (if promptAfter (plQuit w c).2.quit 101 = true then [Item.prompt] else []) = [] := by simp [promptAfter]
  rw [this]
  exact hq.out hfr.fd

theorem no213_out (cl : Prop) (w : W) (c : Cli) :
    LineOut cl w c (w, put c (codeLine 213 ++ crlf ++ (if c.quit then [] else prompt))) :=
  mkReply2 cl w c _ [] 213 (bstr "Command cannot be handled by power control device(s)") rfl rfl rfl rfl
    (by simp only [put, bstr_213, List.nil_append]) (by simp) (by decide) (by decide) (by decide)
    (by intro _ _ i hi; simp at hi; subst hi; decide +kernel) (fun h => h) rfl

theorem installDev_good (com : Nat) (bn : List Bytes) (cid : Nat) (tele : Bool) (al : Nat) (devs : List (Bytes × Dev))
    (h : GoodDevs devs) : GoodDevs (devs.map (Enq.installDev com bn cid tele al)) := by
  constructor
  · intro nd hnd
    simp only [List.mem_map] at hnd
    obtain ⟨x, hx, rfl⟩ := hnd
    rw [Enq.installDev_fst]; exact h.1 x hx
  · intro nd hnd p hp n hn
    simp only [List.mem_map] at hnd
    obtain ⟨x, hx, rfl⟩ := hnd
    rw [(Enq.installDev_spec com bn cid tele al x).1] at hp
    exact h.2 x hx p hp n hn

theorem install_cfg (w : W) (c : Cli) (com : Com) (names : List Name) :
    (install w c com names).1.cfg = w.cfg ∧ (install w c com names).1.specs = w.specs ∧ (install w c com names).1.sys = w.sys ∧
    (install w c com names).2.quit = c.quit ∧ (install w c com names).2.fd = c.fd := by
  unfold install
  dsimp only
  split
  · exact ⟨rfl, rfl, rfl, rfl, rfl⟩
  · generalize List.foldl _ _ w.devs = r
    obtain ⟨devs, total⟩ := r
    dsimp only
    split <;> exact ⟨rfl, rfl, rfl, rfl, rfl⟩

theorem install_good (w : W) (c : Cli) (com : Com) (names : List Name) (h : Good w) : Good (install w c com names).1 := by
  obtain ⟨h1, h2, _⟩ := install_cfg w c com names
  obtain ⟨a, b, c', d, e, f⟩ := h
  refine ⟨h1 ▸ a, h1 ▸ b, h1 ▸ c', h1 ▸ d, ?_, h2 ▸ f⟩
  rcases Enq.install_devs w c com names with e' | e'
  · rw [e']; exact e
  · rw [e']; exact installDev_good _ _ _ _ _ _ e

theorem install_out (cl : Prop) (w : W) (c : Cli) (com : Com) (names : List Name) (hidle : c.cmd = none)
    (hn : Good w → ∀ n ∈ names, cleanName n = true) : LineOut cl w c (install w c com names) := by
  have hgood := install_good w c com names
  obtain ⟨_, _, hsys, hquit, hfd⟩ := install_cfg w c com names
  rcases Enq.install_cases w c com names with h | ⟨_, hdevs, _, hrec⟩
  · rw [h]; exact no213_out cl w c
  · refine .installed _ hidle (by rw [hrec]) ?_ hquit hn hgood ⟨_, _, _, _, hdevs, rfl⟩
    simp only [outOf, hsys, hfd]
    rw [hrec]

/-! the `device` query: `304` lines built from the device name, counters, the specification name and the sorted plug list -/

theorem sorted_pushed_clean (names : List Name) (hn : ∀ n ∈ names, cleanName n = true) (hl : Hostlist)
    (h : sortHL (names.foldl pushHost []) = .ok hl) : HLClean hl :=
  sortHL_clean _ hl (foldl_pushHost_HWFS names [] HWFS_nil) (foldl_pushHost_clean names hn [] HLClean_nil) h

theorem devText_clean (w : W) (nd : Bytes × Dev) (hl : Hostlist) (hspec : cleanText ((w.specs.lookup nd.1).getD []) = true)
    (hname : cleanText nd.1 = true) (hplugs : ∀ p ∈ nd.2.plugs, ∀ n, p.node = some n → cleanText n = true)
    (hs : sortHL (devHosts nd.2) = .ok hl) : cleanText (devText w nd hl) = true := by
  have hhl : HLClean hl := by
    apply sorted_pushed_clean _ _ hl hs
    intro n hn
    simp only [List.mem_filterMap] at hn
    obtain ⟨p, hp, hpn⟩ := hn
    cases hnode : p.node with
    | none => rw [hnode] at hpn; cases hpn
    | some b =>
      rw [hnode] at hpn; simp at hpn; subst hpn
      rw [toChars_clean]; exact hplugs p hp b hnode
  have hstate : cleanText (bstr (if nd.2.conn == 2 then "connected" else if nd.2.conn == 1 then "connecting" else "disconnected")) = true := by
    split
    · decide +kernel
    · split <;> decide +kernel
  have h1 : cleanText (bstr ": state=") = true := by decide +kernel
  have h2 : cleanText (bstr " reconnects=") = true := by decide +kernel
  have h3 : cleanText (bstr " actions=") = true := by decide +kernel
  have h4 : cleanText (bstr " type=") = true := by decide +kernel
  have h5 : cleanText (bstr " hosts=") = true := by decide +kernel
  unfold devText
  simp only [cleanText_append, hname, h1, hstate, h2, d33_clean, h3, h4, hspec, h5, cleanText_ofChars, rangedString_clean hl hhl,
    Bool.and_self]

theorem devFold_some_clean (w : W) (t : Option Hostlist) (hspecs : ∀ name, cleanText ((w.specs.lookup name).getD []) = true) :
    ∀ (l : List (Bytes × Dev)) (acc b : Bytes), GoodDevs l →
    l.foldl (ClientPf.devStep w t) (some acc) = some b →
    ∃ items, b = acc ++ render items ∧ (∀ i ∈ items, i.lineIn [304] = true) ∧ ∀ i ∈ items, i.clean = true := by
  intro l; induction l with
  | nil => intro acc b _ h; simp at h; exact ⟨[], by simp [h], by simp, by simp⟩
  | cons nd r ih =>
    intro acc b hg h
    have hg' : GoodDevs r := ⟨fun x hx => hg.1 x (by simp [hx]), fun x hx => hg.2 x (by simp [hx])⟩
    rw [List.foldl_cons, devStep_some] at h
    split at h
    · exact ih _ _ hg' h
    · split at h
      · rw [devFold_none_acc] at h; simp at h
      · rw [devFold_none_acc] at h; simp at h
      · rename_i hl hs
        obtain ⟨items, hb, hi, hcl⟩ := ih _ _ hg' h
        refine ⟨Item.line 304 (devText w nd hl) :: items, ?_, ?_, ?_⟩
        · rw [hb, List.append_assoc, ← render_append]; rfl
        · intro i hi'; simp at hi'; rcases hi' with rfl | hi'
          · rfl
          · exact hi i hi'
        · intro i hi'; simp at hi'; rcases hi' with rfl | hi'
          · exact devText_clean w nd hl (hspecs nd.1) (hg.1 nd (by simp)) (hg.2 nd (by simp)) hs
          · exact hcl i hi'

theorem plDevice_out (cl : Prop) (w : W) (c : Cli) (str : Bytes) : LineOut cl w c (plDevice w c str) := by
  unfold plDevice
  split
  · exact fixed1_out cl w c _ 201 (bstr "Unknown command") (by rw [bstr_201]) (by decide) (by decide) (by decide) (by decide +kernel)
  · split
    · exact .exit rfl
    · rename_i a _ b h
      by_cases hg : Good w
      · rw [deviceReply_eq] at h
        obtain ⟨items, hb, hi, hcl⟩ := devFold_some_clean w _ (fun n => hg.spec n) _ _ _ hg.devs h
        refine plFin_out cl w c c _ items 103 (bstr "Query complete") rfl rfl rfl rfl ?_ ?_ (by decide) (by decide) (by decide) ?_
        · rw [List.append_assoc, bstr_103, hb, render_append]; simp
        · intro i h; exact lineIn_mono (by decide) i (hi i h)
        · intro _ _ i hi'
          rcases List.mem_append.mp hi' with hi' | hi'
          · exact hcl i hi'
          · simp at hi'; subst hi'; decide +kernel
      · obtain ⟨items, hb, hi⟩ := deviceReply_some w _ b h
        refine plFin_out cl w c c _ items 103 (bstr "Query complete") rfl rfl rfl rfl ?_ ?_ (by decide) (by decide) (by decide) ?_
        · rw [List.append_assoc, bstr_103, hb, render_append]
        · intro i h; exact lineIn_mono (by decide) i (hi i h)
        · intro _ hg'; exact absurd hg' hg

/-! commands with an argument -/

theorem aliasOf_mem (als : List (Name × List Name)) (a : Name) (hs : List Name) (h : aliasOf als a = some hs) : ∃ p ∈ als, p.2 = hs := by
  unfold aliasOf at h
  cases hf : als.find? (·.1 == a) with
  | none => rw [hf] at h; cases h
  | some p => rw [hf] at h; simp at h; exact ⟨p, List.mem_of_find?_eq_some hf, h⟩

theorem expAliases_clean (als : List (Name × List Name)) (names : List Name) (hals : ∀ a ∈ als, ∀ n ∈ a.2, cleanName n = true)
    (hn : ∀ n ∈ names, cleanName n = true) : ∀ n ∈ expAliases als names, cleanName n = true := by
  intro n hn'
  rcases AliasPf.mem_expAliases.mp hn' with ⟨h1, _⟩ | ⟨a, _, hs, h1, h2⟩
  · exact hn n h1
  · obtain ⟨p, hp, rfl⟩ := aliasOf_mem als a hs h1
    exact hals p hp n h2

theorem bstr_nosuch_clean : cleanText (bstr "No such nodes: ") = true := by decide +kernel

theorem plCmd_out (cl : Prop) (w : W) (c : Cli) (com : Com) (arg : Bytes) (hidle : c.cmd = none) (ha : cleanText arg = true) :
    LineOut cl w c (plCmd w c com arg) := by
  unfold plCmd
  split
  · exact .exit rfl
  · exact fixed1_out cl w c _ 205 (bstr "Hostlist error: invalid range") (by rw [bstr_205]) (by decide) (by decide) (by decide) (by decide +kernel)
  · rename_i hl hcr
    have hhl : HLClean hl := createR_clean _ (by rw [toChars_clean]; exact ha) hl hcr
    have hnames : Good w → ∀ n ∈ expAliases w.cfg.aliases (expand hl), cleanName n = true :=
      fun hg => expAliases_clean _ _ hg.aliases (expand_clean hl hhl)
    dsimp only
    split
    · refine plFin_out cl w c c _ [] 209 (bstr "No such nodes: " ++ ofChars (rangedString (List.foldl pushHost []
        (List.filter (fun n => (find w.cfg.nodes n).isNone) (expAliases w.cfg.aliases (expand hl)))))) rfl rfl rfl rfl ?_ (by simp)
        (by decide) (by decide) (by decide) ?_
      · simp [render, Item.render, bstr_209, List.append_assoc]
      · intro _ hg i hi
        simp at hi; subst hi
        simp only [Item.clean, cleanText_append, bstr_nosuch_clean, cleanText_ofChars, Bool.true_and]
        apply rangedString_clean
        apply foldl_pushHost_clean _ _ [] HLClean_nil
        intro n hn
        exact hnames hg n (List.mem_filter.mp hn).1
    · exact install_out cl w c com _ hidle hnames

theorem orElse_map_some {α β : Type} (x : Option α) (f : α → β) (g : Unit → Option β) (v : β)
    (h : (x.map f).orElse g = some v) : (∃ a, x = some a ∧ f a = v) ∨ g () = some v := by
  cases x with
  | none => right; simpa using h
  | some a => left; simp at h; exact ⟨a, rfl, h⟩

theorem plMatch_scan (str : Bytes) (com : Com) (arg : Bytes) (h : plMatch str = some (com, arg)) : ∃ kw, scan kw str = some arg := by
  unfold plMatch at h
  dsimp only at h
  rcases orElse_map_some _ _ _ _ h with ⟨a, h1, h2⟩ | h
  · cases h2; exact ⟨_, h1⟩
  rcases orElse_map_some _ _ _ _ h with ⟨a, h1, h2⟩ | h
  · cases h2; exact ⟨_, h1⟩
  rcases orElse_map_some _ _ _ _ h with ⟨a, h1, h2⟩ | h
  · cases h2; exact ⟨_, h1⟩
  rcases orElse_map_some _ _ _ _ h with ⟨a, h1, h2⟩ | h
  · cases h2; exact ⟨_, h1⟩
  rcases orElse_map_some _ _ _ _ h with ⟨a, h1, h2⟩ | h
  · cases h2; exact ⟨_, h1⟩
  rcases orElse_map_some _ _ _ _ h with ⟨a, h1, h2⟩ | h
  · cases h2; exact ⟨_, h1⟩
  rcases orElse_map_some _ _ _ _ h with ⟨a, h1, h2⟩ | h
  · cases h2; exact ⟨_, h1⟩
  rcases orElse_map_some _ _ _ _ h with ⟨a, h1, h2⟩ | h
  · cases h2; exact ⟨_, h1⟩
  · cases hs : scan kwBeacon str with
    | none => rw [hs] at h; cases h
    | some a => rw [hs] at h; simp at h; exact ⟨kwBeacon, by rw [hs, h.2]⟩

theorem plRest_out (cl : Prop) (w : W) (c : Cli) (str : Bytes) (hidle : c.cmd = none) : LineOut cl w c (plRest w c str) := by
  unfold plRest
  split
  · split
    · exact install_out cl w c _ _ hidle (fun hg => hg.names)
    · split
      · exact install_out cl w c _ _ hidle (fun hg => hg.names)
      · split
        · exact install_out cl w c _ _ hidle (fun hg => hg.names)
        · exact plDevice_out cl w c str
  · rename_i com arg hm
    obtain ⟨kw, hs⟩ := plMatch_scan str com arg hm
    exact plCmd_out cl w c _ _ hidle (scan_clean kw str arg hs)

theorem plIdle_out (cl : Prop) (w : W) (c : Cli) (str : Bytes) (hidle : c.cmd = none) : LineOut cl w c (plIdle w c str) := by
  unfold plIdle
  split
  · exact help_out cl w c
  · split
    · exact plNodes_out cl w c
    · split
      · exact plTelemetry_out cl w c
      · split
        · exact plExprange_out cl w c
        · split
          · exact plQuit_out cl w c
          · exact plRest_out cl w c str hidle

theorem busy_out (cl : Prop) (w : W) (c : Cli) (hb : c.cmd.isSome = true) : LineOut cl w c (w, put c (render [item208])) := by
  refine .reply [] 208 (bstr "Command in progress") ?_ (by simp) (by decide) (fun h => by cases h) (fun _ => hb) rfl (fun h => h)
    (by intro _ _ i hi; simp at hi; subst hi; decide +kernel) (fun h => h) rfl
  simp [outOf, put, promptAfter]

/-- **one request line**: the three outcomes, for every line, client and world -/
theorem parseLine_out (cl : Prop) (w : W) (c : Cli) (line : Bytes) : LineOut cl w c (parseLine w c line) := by
  by_cases hl : TooLong line
  · rw [parseLine_eq]; unfold parseLine'; rw [if_pos hl]
    exact fixed1_out cl w c _ 203 (bstr "Command too long") (by rw [bstr_203]) (by decide) (by decide) (by decide) (by decide +kernel)
  cases h : c.cmd.isSome with
  | true => rw [parseLine_busy w c line h hl]; exact busy_out cl w c h
  | false =>
    rw [parseLine_eq]; unfold parseLine'; rw [if_neg hl, if_neg (by simp [h])]
    exact plIdle_out cl w c _ (by simpa using h)

end Pm.Daemon.StreamPf

/-! axiom audit (expected: at most `propext`, `Classical.choice`, `Quot.sound`) -/
#print axioms Pm.Daemon.StreamPf.parseLine_out
#print axioms Pm.Daemon.StreamPf.SInv.ext
