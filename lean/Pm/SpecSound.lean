import Pm.SpecCheck
import Pm.InterpSends
/-! C17, soundness of the static specification rules (`Pm/SpecCheck.lean`) for the interpreter model (`Pm/Dev2.lean`).

* `erase nsub` turns the interpreter's statement trees (`Dev2.Stmt`: an `expect` carries a pattern id, a `setplugstate`
  its literal plug name) into the trees the static check sees (`SStmt`: an `expect` carries `re_nsub`, a `setplugstate`
  only whether it has a literal) — the two dumps `harness/udmn.c` and `harness/u_specdump.c` of the same parser structures.
* `Sound` is an invariant of the machine of execution contexts: every context of the stack passes the static check for
  what is left of its block, with a `last` that is a lower bound of what the match object really holds.
* It holds of a fresh action on a script whose erasure is `scriptOK`, every micro-step `mstep` keeps it, so do
  `_rewind_action` and whatever happens to the device between two statements (except to the match object); and it implies the
  run-time promises of C17 about the statement the action stands at (`StmtSafe`: `SendSafe`, `SetSafe`/`ResSafe`, and the
  plug context of `if`/`foreach`).
* `Reach` generates the configurations of all executions; `reach_safe` is `specOK_sound`.  The proof is a direct one over
  `processStmt`/`mstep` (the reference program `FOp` of `InterpSim` has already resolved formats into texts and contexts into
  nodes, so (a) and (c) cannot be stated over it); `pass_safe` ties it to `C08_pass_is_run`. -/
namespace Pm.Dev2.SpecSound
open Pm.SpecCheck Pm.Dev2 Pm.Dev2.Interp

/-! ## the information order on `last` -/

/-- `le a b`: `b` promises at least what `a` promises (`none`: no promise; `some n`: the last expect has ≥ `n` groups) -/
def le : Option Nat → Option Nat → Prop
  | none, _ => True
  | some _, none => False
  | some x, some y => x ≤ y

theorem le_refl (a : Option Nat) : le a a := by cases a <;> simp [le]
theorem le_trans {a b c : Option Nat} (h1 : le a b) (h2 : le b c) : le a c := by
  cases a <;> cases b <;> cases c <;> simp_all [le] <;> omega
theorem none_le (a : Option Nat) : le none a := by simp [le]
theorem meet_le_left (a b : Option Nat) : le (meet a b) a := by
  cases a <;> cases b <;> simp [le, meet] <;> omega
theorem meet_le_right (a b : Option Nat) : le (meet a b) b := by
  cases a <;> cases b <;> simp [le, meet] <;> omega
theorem le_meet {a b c : Option Nat} (h1 : le a b) (h2 : le a c) : le a (meet b c) := by
  cases a <;> cases b <;> cases c <;> simp_all [le, meet] <;> omega
theorem meet_mono {a a' b b' : Option Nat} (h1 : le a a') (h2 : le b b') : le (meet a b) (meet a' b') :=
  le_meet (le_trans (meet_le_left a b) h1) (le_trans (meet_le_right a b) h2)
theorem le_antisymm {a b : Option Nat} (h1 : le a b) (h2 : le b a) : a = b := by
  cases a <;> cases b <;> simp_all [le] <;> omega

theorem mpOK_mono {l l' : Option Nat} (h : le l l') (mp : Int) (hm : mpOK l mp = true) : mpOK l' mp = true := by
  unfold mpOK at *
  split
  · rfl
  · rename_i hneg
    simp only [hneg, ↓reduceIte] at hm
    cases l <;> cases l' <;> simp_all [le]
    omega

theorem isSome_mono {l l' : Option Nat} (h : le l l') (hm : l.isSome = true) : l'.isSome = true := by
  cases l <;> cases l' <;> simp_all [le]

/-! ## the static check: equations, monotonicity, shape of the transfer function -/

theorem stmtsOK_nil (pa sg : Bool) (l : Option Nat) : stmtsOK pa sg l [] = (true, l) := by simp [stmtsOK]
theorem stmtsOK_cons (pa sg : Bool) (l : Option Nat) (s : SStmt) (r : List SStmt) :
    stmtsOK pa sg l (s :: r) =
      ((stmtOK pa sg l s).1 && (stmtsOK pa sg (stmtOK pa sg l s).2 r).1, (stmtsOK pa sg (stmtOK pa sg l s).2 r).2) := by
  simp [stmtsOK]

/-- the loop part shared by `foreachplug` and `foreachnode` -/
def eachOK (sg : Bool) (l : Option Nat) (body : List SStmt) : Bool × Option Nat :=
  let r1 := stmtsOK true true l body
  let back := meet l r1.2
  let r2 := stmtsOK true true back body
  (!sg && r1.1 && r2.1, meet l r2.2)

def condOK (pa sg : Bool) (l : Option Nat) (body : List SStmt) : Bool × Option Nat :=
  let r := stmtsOK pa sg l body
  (sg && r.1, meet l r.2)

theorem stmtOK_foreachplug (pa sg l body) : stmtOK pa sg l (.foreachplug body) = eachOK sg l body := by
  simp [stmtOK, eachOK]
theorem stmtOK_foreachnode (pa sg l body) : stmtOK pa sg l (.foreachnode body) = eachOK sg l body := by
  simp [stmtOK, eachOK]
theorem stmtOK_ifon (pa sg l body) : stmtOK pa sg l (.ifon body) = condOK pa sg l body := by
  simp [stmtOK, condOK]
theorem stmtOK_ifoff (pa sg l body) : stmtOK pa sg l (.ifoff body) = condOK pa sg l body := by
  simp [stmtOK, condOK]

/-- monotonicity of the forward analysis: with a `last` that promises more, a block that was ok stays ok and the `last`
    behind it promises more -/
def Mono (f : Option Nat → Bool × Option Nat) : Prop :=
  ∀ l l', le l l' → ((f l).1 = true → (f l').1 = true) ∧ le (f l).2 (f l').2

theorem eachOK_mono_of (body : List SStmt) (sg : Bool) (hb : Mono (fun l => stmtsOK true true l body)) :
    Mono (fun l => eachOK sg l body) := by
  intro l l' h
  have h1 := hb l l' h
  have hback : le (meet l (stmtsOK true true l body).2) (meet l' (stmtsOK true true l' body).2) := meet_mono h h1.2
  have h2 := hb _ _ hback
  refine ⟨?_, meet_mono h h2.2⟩
  simp only [eachOK, Bool.and_eq_true]
  rintro ⟨⟨a, b⟩, c⟩
  exact ⟨⟨a, h1.1 b⟩, h2.1 c⟩

theorem condOK_mono_of (body : List SStmt) (pa sg : Bool) (hb : Mono (fun l => stmtsOK pa sg l body)) :
    Mono (fun l => condOK pa sg l body) := by
  intro l l' h
  have h1 := hb l l' h
  refine ⟨?_, meet_mono h h1.2⟩
  simp only [condOK, Bool.and_eq_true]
  rintro ⟨a, b⟩
  exact ⟨a, h1.1 b⟩

mutual
theorem stmtOK_mono :∀ (s : SStmt) (pa sg : Bool), Mono (fun l => stmtOK pa sg l s)
  | .send fmt, pa, sg => by intro l l' h; simp [stmtOK, h]
  | .expect n, pa, sg => by intro l l' h; simp [stmtOK, le_refl]
  | .delay us, pa, sg => by intro l l' h; simp [stmtOK, h]
  | .setplugstate lit pm sm, pa, sg => by
    intro l l' h
    refine ⟨?_, by simpa [stmtOK] using h⟩
    simp only [stmtOK, Bool.and_eq_true]
    rintro ⟨⟨⟨⟨h1, h2⟩, h3⟩, h4⟩, h5⟩
    exact ⟨⟨⟨⟨isSome_mono h h1, mpOK_mono h _ h2⟩, mpOK_mono h _ h3⟩, h4⟩, h5⟩
  | .setresult pm sm, pa, sg => by
    intro l l' h
    refine ⟨?_, by simpa [stmtOK] using h⟩
    simp only [stmtOK, Bool.and_eq_true]
    rintro ⟨⟨⟨⟨h1, h2⟩, h3⟩, h4⟩, h5⟩
    exact ⟨⟨⟨⟨isSome_mono h h1, mpOK_mono h _ h2⟩, mpOK_mono h _ h3⟩, h4⟩, h5⟩
  | .foreachplug body, pa, sg => by
    intro l l' h
    simp only [stmtOK_foreachplug]
    exact eachOK_mono_of body sg (stmtsOK_mono body true true) l l' h
  | .foreachnode body, pa, sg => by
    intro l l' h
    simp only [stmtOK_foreachnode]
    exact eachOK_mono_of body sg (stmtsOK_mono body true true) l l' h
  | .ifon body, pa, sg => by
    intro l l' h
    simp only [stmtOK_ifon]
    exact condOK_mono_of body pa sg (stmtsOK_mono body pa sg) l l' h
  | .ifoff body, pa, sg => by
    intro l l' h
    simp only [stmtOK_ifoff]
    exact condOK_mono_of body pa sg (stmtsOK_mono body pa sg) l l' h
theorem stmtsOK_mono : ∀ (b : List SStmt) (pa sg : Bool), Mono (fun l => stmtsOK pa sg l b)
  | [], pa, sg => by intro l l' h; simp [stmtsOK_nil, h]
  | s :: r, pa, sg => by
    intro l l' h
    simp only [stmtsOK_cons, Bool.and_eq_true]
    have hs := stmtOK_mono s pa sg l l' h
    have hr := stmtsOK_mono r pa sg _ _ hs.2
    exact ⟨fun ⟨h1, h2⟩ => ⟨hs.1 h1, hr.1 h2⟩, hr.2⟩
end


/-! ### the transfer function of a block on `last` is constant or `meet · c`: two rounds reach the loop's fixed point -/

/-- `meet` with an optional bound (`none`: no bound, the identity) -/
def mt (l : Option Nat) : Option (Option Nat) → Option Nat
  | none => l
  | some c => meet l c

def Shape (g : Option Nat → Option Nat) : Prop := (∃ c, ∀ l, g l = c) ∨ (∃ t, ∀ l, g l = mt l t)

theorem meet_idem (a : Option Nat) : meet a a = a := by cases a <;> simp [meet]
theorem meet_assoc (a b c : Option Nat) : meet (meet a b) c = meet a (meet b c) := by
  cases a <;> cases b <;> cases c <;> simp [meet] <;> omega
theorem meet_comm (a b : Option Nat) : meet a b = meet b a := by
  cases a <;> cases b <;> simp [meet] <;> omega
theorem meet_absorb (a b : Option Nat) : meet a (meet a b) = meet a b := by
  rw [← meet_assoc, meet_idem]

theorem shape_comp {f g : Option Nat → Option Nat} (hf : Shape f) (hg : Shape g) : Shape (fun l => g (f l)) := by
  rcases hg with ⟨c, hc⟩ | ⟨t, ht⟩
  · exact Or.inl ⟨c, fun l => hc _⟩
  · rcases hf with ⟨c', hc'⟩ | ⟨t', ht'⟩
    · exact Or.inl ⟨mt c' t, fun l => by dsimp only; rw [ht, hc']⟩
    · refine Or.inr ?_
      cases t with
      | none => exact ⟨t', fun l => by dsimp only; rw [ht, ht']; rfl⟩
      | some c =>
        cases t' with
        | none => exact ⟨some c, fun l => by dsimp only; rw [ht, ht']; rfl⟩
        | some c' => exact ⟨some (meet c' c), fun l => by dsimp only; rw [ht, ht']; simp [mt, meet_assoc]⟩

theorem shape_cond {g : Option Nat → Option Nat} (hg : Shape g) : Shape (fun l => meet l (g l)) := by
  rcases hg with ⟨c, hc⟩ | ⟨t, ht⟩
  · exact Or.inr ⟨some c, fun l => by dsimp only; rw [hc]; rfl⟩
  · cases t with
    | none => exact Or.inr ⟨none, fun l => by dsimp only; rw [ht]; simp [mt, meet_idem]⟩
    | some c => exact Or.inr ⟨some c, fun l => by dsimp only; rw [ht]; simp [mt, meet_absorb]⟩

theorem shape_each {g : Option Nat → Option Nat} (hg : Shape g) : Shape (fun l => meet l (g (meet l (g l)))) := by
  rcases hg with ⟨c, hc⟩ | ⟨t, ht⟩
  · exact Or.inr ⟨some c, fun l => by dsimp only; rw [hc]; rfl⟩
  · cases t with
    | none => exact Or.inr ⟨none, fun l => by dsimp only; rw [ht, ht]; simp [mt, meet_idem]⟩
    | some c =>
      refine Or.inr ⟨some c, fun l => ?_⟩
      dsimp only
      rw [ht, ht]
      simp only [mt]
      rw [meet_absorb, meet_assoc, meet_idem, meet_absorb]

/-- what makes two rounds of the loop analysis enough: `back = meet l (g l)` is below `g back` -/
theorem shape_back {g : Option Nat → Option Nat} (hg : Shape g) (l : Option Nat) :
    le (meet l (g l)) (g (meet l (g l))) := by
  rcases hg with ⟨c, hc⟩ | ⟨t, ht⟩
  · rw [hc, hc]; exact meet_le_right l c
  · cases t with
    | none => rw [ht]; simp only [mt]; rw [ht]; simp only [mt]; exact le_refl _
    | some c =>
      rw [ht]; simp only [mt]; rw [ht]; simp only [mt]
      rw [meet_absorb, meet_assoc, meet_idem]
      exact le_refl _

mutual
theorem stmtOK_shape : ∀ (s : SStmt) (pa sg : Bool), Shape (fun l => (stmtOK pa sg l s).2)
  | .send fmt, pa, sg => Or.inr ⟨none, fun l => by simp [stmtOK, mt]⟩
  | .expect n, pa, sg => Or.inl ⟨some n, fun l => by simp [stmtOK]⟩
  | .delay us, pa, sg => Or.inr ⟨none, fun l => by simp [stmtOK, mt]⟩
  | .setplugstate lit pm sm, pa, sg => Or.inr ⟨none, fun l => by simp [stmtOK, mt]⟩
  | .setresult pm sm, pa, sg => Or.inr ⟨none, fun l => by simp [stmtOK, mt]⟩
  | .foreachplug body, pa, sg => by
    simp only [stmtOK_foreachplug, eachOK]; exact shape_each (stmtsOK_shape body true true)
  | .foreachnode body, pa, sg => by
    simp only [stmtOK_foreachnode, eachOK]; exact shape_each (stmtsOK_shape body true true)
  | .ifon body, pa, sg => by
    simp only [stmtOK_ifon, condOK]; exact shape_cond (stmtsOK_shape body pa sg)
  | .ifoff body, pa, sg => by
    simp only [stmtOK_ifoff, condOK]; exact shape_cond (stmtsOK_shape body pa sg)
theorem stmtsOK_shape : ∀ (b : List SStmt) (pa sg : Bool), Shape (fun l => (stmtsOK pa sg l b).2)
  | [], pa, sg => Or.inr ⟨none, fun l => by simp [stmtsOK_nil, mt]⟩
  | s :: r, pa, sg => by
    simp only [stmtsOK_cons]
    exact shape_comp (stmtOK_shape s pa sg) (stmtsOK_shape r pa sg)
end

/-- **the loop invariant the static check of a `foreach` provides**: a `last` value `b` below the one at the statement,
    from which the body is ok and which the body re-establishes, and which is at least what the check continues with -/
theorem eachOK_inv (sg : Bool) (l : Option Nat) (body : List SStmt) (h : (eachOK sg l body).1 = true) :
    sg = false ∧ ∃ b, le b l ∧ (stmtsOK true true b body).1 = true ∧ le b (stmtsOK true true b body).2 ∧
      le (eachOK sg l body).2 b := by
  simp only [eachOK, Bool.and_eq_true, Bool.not_eq_true'] at h
  obtain ⟨⟨h1, h2⟩, h3⟩ := h
  refine ⟨h1, meet l (stmtsOK true true l body).2, meet_le_left _ _, h3, ?_, ?_⟩
  · exact shape_back (stmtsOK_shape body true true) l
  · simp only [eachOK]
    have hm := (stmtsOK_mono body true true _ _ (meet_le_left l (stmtsOK true true l body).2)).2
    exact meet_mono (le_refl l) hm


/-! ## the erasure: the interpreter's statement trees as the static check sees them -/

mutual
/-- `u_specdump.c` view of a statement of `udmn.c`'s dump: an `expect` keeps only `re_nsub` of its pattern, a
    `setplugstate` only whether it names its plug literally (then the `$N` of the plug is dumped as `-1`, by both), the
    interpretation lists are dropped -/
def erase (nsub : Nat → Nat) : Stmt → SStmt
  | .send fmt => .send fmt
  | .expect pat => .expect (nsub pat)
  | .delay us => .delay us
  | .setplugstate lit pm sm _ => .setplugstate lit.isSome (if lit.isSome then -1 else pm) sm
  | .setresult pm sm _ => .setresult pm sm
  | .foreachplug b => .foreachplug (eraseB nsub b)
  | .foreachnode b => .foreachnode (eraseB nsub b)
  | .ifon b => .ifon (eraseB nsub b)
  | .ifoff b => .ifoff (eraseB nsub b)
def eraseB (nsub : Nat → Nat) : List Stmt → List SStmt
  | [] => []
  | s :: r => erase nsub s :: eraseB nsub r
end

theorem eraseB_nil (nsub : Nat → Nat) : eraseB nsub [] = [] := by simp [eraseB]
theorem eraseB_cons (nsub : Nat → Nat) (s : Stmt) (r : List Stmt) : eraseB nsub (s :: r) = erase nsub s :: eraseB nsub r := by
  simp [eraseB]

theorem stmtOK_erase_each (nsub : Nat → Nat) (pa sg : Bool) (l : Option Nat) (s : Stmt) (n : Bool) (b : List Stmt)
    (hk : s.kind = .each n b) : stmtOK pa sg l (erase nsub s) = eachOK sg l (eraseB nsub b) := by
  cases s <;> simp [Stmt.kind] at hk
  all_goals (obtain ⟨rfl, rfl⟩ := hk; simp [erase, stmtOK_foreachplug, stmtOK_foreachnode])

theorem stmtOK_erase_cond (nsub : Nat → Nat) (pa sg : Bool) (l : Option Nat) (s : Stmt) (w : Bool) (b : List Stmt)
    (hk : s.kind = .cond w b) : stmtOK pa sg l (erase nsub s) = condOK pa sg l (eraseB nsub b) := by
  cases s <;> simp [Stmt.kind] at hk
  all_goals (obtain ⟨rfl, rfl⟩ := hk; simp [erase, stmtOK_ifon, stmtOK_ifoff])

/-! ## what a safe format means for `hsprintf` -/

/-- what goes wrong in `hsprintf(fmt, arg)` — a `vsnprintf` with one optional `char *` argument (`av`: it is there): a
    conversion other than `%s` / `%%`, or a `%s` when no argument is left (the first `%s` uses it up) -/
def fmtBad : Bytes → Bool → Bool
  | [], _ => false
  | a :: r, av =>
    if a == 37 then
      match r with
      | b :: r' =>
        if b == 37 then fmtBad r' av
        else if b == 115 then (!av || fmtBad r' false)
        else true
      | [] => true
    else fmtBad r av
termination_by l => l.length
decreasing_by all_goals simp_wf <;> omega

theorem fmtBad_of_scan : ∀ (n : Nat) (fmt : Bytes) (av : Bool), fmt.length ≤ n → (fmtScan fmt).1 = true →
    (fmtScan fmt).2 ≤ (if av then 1 else 0) → fmtBad fmt av = false := by
  intro n
  induction n with
  | zero =>
    intro fmt av hl _ _
    have : fmt = [] := by cases fmt <;> simp_all
    subst this; simp [fmtBad]
  | succ n ih =>
    intro fmt av hl h1 h2
    cases fmt with
    | nil => simp [fmtBad]
    | cons a r =>
      rw [fmtBad.eq_def]
      rw [fmtScan.eq_def] at h1 h2
      simp only at h1 h2 ⊢
      by_cases ha : (a == 37) = true
      · simp only [ha, ↓reduceIte] at h1 h2 ⊢
        cases r with
        | nil => simp at h1
        | cons b r' =>
          simp only at h1 h2 ⊢
          have hl' : r'.length ≤ n := by simp at hl; omega
          by_cases hb : (b == 37) = true
          · simp only [hb, ↓reduceIte] at h1 h2 ⊢
            exact ih r' av hl' h1 h2
          · simp only [hb, Bool.false_eq_true, ↓reduceIte] at h1 h2 ⊢
            by_cases hs : (b == 115) = true
            · simp only [hs, ↓reduceIte] at h1 h2 ⊢
              cases av with
              | false => simp at h2
              | true =>
                simp only [↓reduceIte] at h2
                simp only [Bool.not_true, Bool.false_or]
                exact ih r' false hl' h1 (by simp; omega)
            · simp [hs] at h1
      · simp only [ha, Bool.false_eq_true, ↓reduceIte] at h1 h2 ⊢
        exact ih r av (by simp at hl; omega) h1 h2

/-- … and conversely: the static rule for send strings rejects nothing that `hsprintf` would format without fault -/
theorem scan_of_fmtBad : ∀ (n : Nat) (fmt : Bytes) (av : Bool), fmt.length ≤ n → fmtBad fmt av = false →
    (fmtScan fmt).1 = true ∧ (fmtScan fmt).2 ≤ (if av then 1 else 0) := by
  intro n
  induction n with
  | zero =>
    intro fmt av hl _
    have : fmt = [] := by cases fmt <;> simp_all
    subst this; simp [fmtScan]
  | succ n ih =>
    intro fmt av hl h
    cases fmt with
    | nil => simp [fmtScan]
    | cons a r =>
      rw [fmtBad.eq_def] at h
      rw [fmtScan.eq_def]
      simp only at h ⊢
      by_cases ha : (a == 37) = true
      · simp only [ha, ↓reduceIte] at h ⊢
        cases r with
        | nil => simp at h
        | cons b r' =>
          simp only at h ⊢
          have hl' : r'.length ≤ n := by simp at hl; omega
          by_cases hb : (b == 37) = true
          · simp only [hb, ↓reduceIte] at h ⊢
            exact ih r' av hl' h
          · simp only [hb, Bool.false_eq_true, ↓reduceIte] at h ⊢
            by_cases hs : (b == 115) = true
            · simp only [hs, ↓reduceIte, Bool.or_eq_false_iff, Bool.not_eq_false'] at h ⊢
              obtain ⟨hav, h'⟩ := h
              subst hav
              have := ih r' false hl' h'
              simp only [Bool.false_eq_true, ↓reduceIte, Nat.le_zero_eq] at this
              simp only [↓reduceIte]
              exact ⟨this.1, by omega⟩
            · simp [hs] at h
      · simp only [ha, Bool.false_eq_true, ↓reduceIte] at h ⊢
        exact ih r av (by simp at hl; omega) h

/-- the promise about a send that is being formatted in a context with plugs `pl`: only `%s`/`%%`, at most one `%s`,
    and a `%s` only where the context supplies a plug name -/
def SendSafe (fmt : Bytes) (pl : Option (List Plug)) : Prop :=
  (fmtScan fmt).1 = true ∧ (fmtScan fmt).2 ≤ 1 ∧ ((fmtScan fmt).2 = 0 ∨ ∃ p l, pl = some (p :: l))

/-- the argument `_process_send` hands to `hsprintf` is there whenever the context holds a plug -/
def argThere : Option (List Plug) → Bool
  | some (_ :: _) => true
  | _ => false

/-- the text `_process_send` queues is `hsprintf(fmt, arg)` with an argument exactly when the context holds a plug -/
theorem sendText_arg (fmt : Bytes) (pl : Option (List Plug)) (t : Bytes) (h : sendText fmt pl = some t) :
    ∃ arg : Option Bytes, t = hsprintf fmt arg ∧ arg.isSome = argThere pl := by
  rcases pl with _ | _ | ⟨p, _ | ⟨q, r⟩⟩
  · exact ⟨none, by simpa [sendText] using h.symm, rfl⟩
  · exact ⟨none, by simpa [sendText] using h.symm, rfl⟩
  · exact ⟨some p.name, by simpa [sendText] using h.symm, rfl⟩
  · simp only [sendText, Option.map_eq_some_iff] at h
    obtain ⟨n, _, hn⟩ := h
    exact ⟨some n, hn.symm, rfl⟩

theorem sendSafe_fmtBad (fmt : Bytes) (pl : Option (List Plug)) (h : SendSafe fmt pl) : fmtBad fmt (argThere pl) = false := by
  obtain ⟨h1, h2, h3⟩ := h
  apply fmtBad_of_scan fmt.length fmt _ (Nat.le_refl _) h1
  rcases h3 with h3 | ⟨p, l, rfl⟩
  · rw [h3]; exact Nat.zero_le _
  · simpa [argThere] using h2


/-! ## the invariant of the context stack -/

/-- a block is ok from `cur`, and what comes after it (`K`) holds for the `last` it leaves -/
def Blk (pa sg : Bool) (cur : Option Nat) (blk : List SStmt) (K : Option Nat → Prop) : Prop :=
  (stmtsOK pa sg cur blk).1 = true ∧ K (stmtsOK pa sg cur blk).2

def KMono (K : Option Nat → Prop) : Prop := ∀ c c', le c c' → K c → K c'

theorem blk_mono {pa sg : Bool} {c c' : Option Nat} {blk : List SStmt} {K : Option Nat → Prop} (hK : KMono K)
    (h : le c c') (hb : Blk pa sg c blk K) : Blk pa sg c' blk K :=
  ⟨(stmtsOK_mono blk pa sg c c' h).1 hb.1, hK _ _ (stmtsOK_mono blk pa sg c c' h).2 hb.2⟩

theorem blk_nil {pa sg : Bool} {cur : Option Nat} {K : Option Nat → Prop} : Blk pa sg cur [] K ↔ K cur := by
  simp [Blk, stmtsOK_nil]

theorem blk_cons {pa sg : Bool} {cur : Option Nat} {s : SStmt} {r : List SStmt} {K : Option Nat → Prop} :
    Blk pa sg cur (s :: r) K ↔ (stmtOK pa sg cur s).1 = true ∧ Blk pa sg (stmtOK pa sg cur s).2 r K := by
  simp [Blk, stmtsOK_cons, and_assoc]

/-- what the flags of the static check mean for the plugs of a context: `sg` — exactly one plug; `pa` — at least one -/
def CtxPlugs (pa sg : Bool) (pl : Option (List Plug)) : Prop :=
  (sg = true → ∃ p, pl = some [p]) ∧ (pa = true → ∃ p l, pl = some (p :: l))

/-- one context: what is left of its block passes the static check from `cur`, and `K` holds behind it.  A context
    standing at a `foreach` (about to fetch the next plug) carries the loop invariant `b`; a context standing at an
    `if` whose body has run (`processing`) only has the rest of the block to go. -/
def ctxS (nsub : Nat → Nat) (pa sg : Bool) (cur : Option Nat) (e : ExecCtx) (K : Option Nat → Prop) : Prop :=
  match e.block.drop e.pos with
  | [] => K cur
  | s :: tail =>
    match s.kind with
    | .leaf => Blk pa sg cur (eraseB nsub (s :: tail)) K
    | .each _ body => sg = false ∧ ∃ b, le b cur ∧ (stmtsOK true true b (eraseB nsub body)).1 = true ∧
        le b (stmtsOK true true b (eraseB nsub body)).2 ∧ Blk pa sg b (eraseB nsub tail) K
    | .cond _ _ =>
      if e.processing then Blk pa sg cur (eraseB nsub tail) K else Blk pa sg cur (eraseB nsub (s :: tail)) K

/-- the flags of a context: the outermost one has those of the script kind, every pushed one (a `foreach` body, or an `if`
    body — which needs a single plug around it) holds exactly one plug -/
def flagsOf (kind : Nat) (rest : List ExecCtx) : Bool × Bool :=
  if rest.isEmpty then (plugArgKinds.contains kind, singletKinds.contains kind) else (true, true)

/-- the whole stack, from the top: each context is ok from the `last` the one above leaves -/
def ContOK (nsub : Nat → Nat) (kind : Nat) : List ExecCtx → Option Nat → Prop
  | [], _ => True
  | e :: rest, cur =>
    CtxPlugs (flagsOf kind rest).1 (flagsOf kind rest).2 e.plugs ∧
    ctxS nsub (flagsOf kind rest).1 (flagsOf kind rest).2 cur e (fun c => ContOK nsub kind rest c)

theorem ctxS_mono (nsub : Nat → Nat) (pa sg : Bool) (c c' : Option Nat) (e : ExecCtx) (K : Option Nat → Prop)
    (hK : KMono K) (h : le c c') (hc : ctxS nsub pa sg c e K) : ctxS nsub pa sg c' e K := by
  unfold ctxS at *
  split
  · rename_i hd; simp only [hd] at hc; exact hK _ _ h hc
  · rename_i s tail hd
    simp only [hd] at hc
    split
    · rename_i hk; simp only [hk] at hc; exact blk_mono hK h hc
    · rename_i n body hk
      simp only [hk] at hc
      obtain ⟨h0, b, hb1, hb2, hb3, hb4⟩ := hc
      exact ⟨h0, b, le_trans hb1 h, hb2, hb3, hb4⟩
    · rename_i w body hk
      simp only [hk] at hc
      split
      · rename_i hp; simp only [hp, ↓reduceIte] at hc; exact blk_mono hK h hc
      · rename_i hp; simp only [hp, Bool.false_eq_true, ↓reduceIte] at hc; exact blk_mono hK h hc

theorem contOK_mono (nsub : Nat → Nat) (kind : Nat) : ∀ (stack : List ExecCtx), KMono (ContOK nsub kind stack)
  | [] => by intro c c' _ _; trivial
  | e :: rest => by
    intro c c' h hc
    exact ⟨hc.1, ctxS_mono nsub _ _ c c' e _ (contOK_mono nsub kind rest) h hc.2⟩

/-- a context whose remaining block passes the check from `cur` is ok — whatever its flags say (a `foreach` gets its
    loop invariant from `eachOK_inv`, a stale `processing` flag on an `if` only skips a body that was ok) -/
theorem ctxS_of_blk (nsub : Nat → Nat) (pa sg : Bool) (cur : Option Nat) (e : ExecCtx) (K : Option Nat → Prop)
    (hK : KMono K) (h : Blk pa sg cur (eraseB nsub (e.block.drop e.pos)) K) : ctxS nsub pa sg cur e K := by
  unfold ctxS
  split
  · rename_i hd; rw [hd, eraseB_nil, blk_nil] at h; exact h
  · rename_i s tail hd
    rw [hd] at h
    split
    · exact h
    · rename_i n body hk
      rw [eraseB_cons, blk_cons, stmtOK_erase_each nsub pa sg cur s n body hk] at h
      obtain ⟨hsg, b, hb1, hb2, hb3, hb4⟩ := eachOK_inv sg cur _ h.1
      exact ⟨hsg, b, hb1, hb2, hb3, blk_mono hK hb4 h.2⟩
    · rename_i w body hk
      split
      · rw [eraseB_cons, blk_cons, stmtOK_erase_cond nsub pa sg cur s w body hk] at h
        exact blk_mono hK (meet_le_left _ _) h.2
      · exact h

/-- the match object holds a successful match: `xm_used`, `xm_result == 0`, and the subject copy `xm_str` is there (what
    `xregex_match_sub_strdup` asserts) -/
def Held (d : Dev) : Prop := d.xmUsed = true ∧ d.xmResult = true ∧ d.xmStr.isSome = true

/-- the match object has not been touched -/
def SameXm (d d' : Dev) : Prop :=
  d'.xmUsed = d.xmUsed ∧ d'.xmResult = d.xmResult ∧ d'.xmStr = d.xmStr ∧ d'.xmOffs = d.xmOffs

theorem held_same {d d' : Dev} (h : SameXm d d') (hh : Held d) : Held d' := by
  obtain ⟨h1, h2, h3, _⟩ := h
  unfold Held; rw [h1, h2, h3]; exact hh

/-- what the match object must hold when the static `last` is `cur`; `g` is the ghost: the pattern of the expect of this
    action that matched last (`none`: none yet, or the match object has been recycled since) -/
def GhostOK (nsub : Nat → Nat) (cur : Option Nat) (d : Dev) (g : Option Nat) : Prop :=
  ∀ n, cur = some n → Held d ∧ ∃ pat, g = some pat ∧ n ≤ nsub pat

/-- **the invariant**: some `last` describes the match object and makes the whole stack pass the static check -/
def Sound (nsub : Nat → Nat) (kind : Nat) (d : Dev) (a : Action) (g : Option Nat) : Prop :=
  ∃ cur, GhostOK nsub cur d g ∧ ContOK nsub kind a.exec cur

theorem ghostOK_none (nsub : Nat → Nat) (d : Dev) (g : Option Nat) : GhostOK nsub none d g := by
  intro n h; cases h

/-- the plugs an action of this kind is created with (`_enqueue_targeted_actions`): the one plug for a singlet script,
    the targeted plugs — at least one, `_command_needs_device` — for a ranged one; anything for the others -/
def KindPlugs (kind : Nat) (pl : Option (List Plug)) : Prop :=
  CtxPlugs (plugArgKinds.contains kind) (singletKinds.contains kind) pl

/-- a fresh action on a script that passes the static check for its kind satisfies the invariant, for any device state -/
theorem sound_fresh (nsub : Nat → Nat) (kind : Nat) (script : List Stmt) (pl : Option (List Plug)) (d : Dev) (a : Action)
    (hok : scriptOK kind (eraseB nsub script) = true) (hpl : KindPlugs kind pl) (hex : a.exec = [bodyCtx script pl]) :
    Sound nsub kind d a none := by
  refine ⟨none, ghostOK_none nsub d none, ?_⟩
  rw [hex]
  refine ⟨hpl, ?_⟩
  apply ctxS_of_blk nsub _ _ none _ _ (contOK_mono nsub kind [])
  exact ⟨hok, trivial⟩


/-! ## one micro-step keeps the invariant -/

/-- the ghost after a micro-step: an `expect` that matched sets it, an `expect` that did not clears it (the match object
    has been recycled), nothing else touches it -/
def ghostNext (now : Time) (d : Dev) (a : Action) (o : Oracle) (g : Option Nat) : Option Nat :=
  match (topCtx a).block[(topCtx a).pos]? with
  | some (.expect pat) => if (processStmt d a o now).finished then some pat else none
  | _ => g

/-- what `_process_action` makes of the statement's answer when the action goes on: the stack is the statement's, or
    — the statement finished and pushed nothing — that stack advanced by one statement -/
theorem mstep_cases (now : Time) (d : Dev) (a : Action) (o : Oracle)
    (hs : (mstep now d a o).status = .running ∨ (mstep now d a o).status = .stalled) :
    (mstep now d a o).dev = (processStmt d a o now).dev ∧
    (((mstep now d a o).act = (processStmt d a o now).act ∧
        ((processStmt d a o now).finished = false ∨ (processStmt d a o now).act.exec.length > a.exec.length)) ∨
     ((mstep now d a o).act = advance (processStmt d a o now).act ∧ (processStmt d a o now).finished = true ∧
        (processStmt d a o now).act.exec.length ≤ a.exec.length)) := by
  unfold mstep at *
  generalize processStmt d a o now = r at *
  dsimp only at *
  by_cases h1 : (r.finished && decide (r.act.exec.length > a.exec.length)) = true
  · simp only [h1, ↓reduceIte] at hs ⊢
    simp only [Bool.and_eq_true, decide_eq_true_eq] at h1
    exact ⟨by trivial, Or.inl ⟨by trivial, Or.inr h1.2⟩⟩
  · simp only [h1, Bool.false_eq_true, ↓reduceIte] at hs ⊢
    by_cases h2 : hasAbort r.out = true
    · simp [h2] at hs
    · simp only [h2, Bool.false_eq_true, ↓reduceIte] at hs ⊢
      by_cases h3 : r.finished = true
      · simp only [h3, Bool.not_true, Bool.false_eq_true, ↓reduceIte] at hs ⊢
        have hlen : r.act.exec.length ≤ a.exec.length := by
          simp only [h3, Bool.true_and, decide_eq_true_eq] at h1; omega
        by_cases h4 : (r.act.errnum == ActErr.success) = true
        · simp only [h4, ↓reduceIte]
          exact ⟨by trivial, Or.inr ⟨by trivial, by trivial, hlen⟩⟩
        · simp [h4] at hs
      · have h3' : r.finished = false := by simpa using h3
        simp only [h3', Bool.not_false, ↓reduceIte]
        exact ⟨by trivial, Or.inl ⟨by trivial, Or.inl (by trivial)⟩⟩

theorem contOK_advance (nsub : Nat → Nat) (kind : Nat) (a : Action) (e : ExecCtx) (rest : List ExecCtx) (cur' : Option Nat)
    (hex : a.exec = e :: rest)
    (hpl : CtxPlugs (flagsOf kind rest).1 (flagsOf kind rest).2 e.plugs)
    (hb : Blk (flagsOf kind rest).1 (flagsOf kind rest).2 cur' (eraseB nsub (e.block.drop (e.pos + 1))) (ContOK nsub kind rest)) :
    ContOK nsub kind (advance a).exec cur' := by
  rw [advance_exec a e rest hex]
  by_cases hlt : e.pos + 1 < e.block.length
  · simp only [hlt, ↓reduceIte]
    exact ⟨hpl, ctxS_of_blk nsub _ _ cur' { e with pos := e.pos + 1 } _ (contOK_mono nsub kind rest) hb⟩
  · simp only [hlt, ↓reduceIte]
    rw [List.drop_eq_nil_of_le (by omega), eraseB_nil, blk_nil] at hb
    exact hb

/-- `ctxS` of a context standing at statement `s` -/
theorem ctxS_at (nsub : Nat → Nat) (pa sg : Bool) (cur : Option Nat) (e : ExecCtx) (K : Option Nat → Prop) (s : Stmt)
    (hcur : e.block[e.pos]? = some s) :
    ctxS nsub pa sg cur e K =
      match s.kind with
      | .leaf => Blk pa sg cur (eraseB nsub (s :: e.block.drop (e.pos + 1))) K
      | .each _ body => sg = false ∧ ∃ b, le b cur ∧ (stmtsOK true true b (eraseB nsub body)).1 = true ∧
          le b (stmtsOK true true b (eraseB nsub body)).2 ∧ Blk pa sg b (eraseB nsub (e.block.drop (e.pos + 1))) K
      | .cond _ _ =>
        if e.processing then Blk pa sg cur (eraseB nsub (e.block.drop (e.pos + 1))) K
        else Blk pa sg cur (eraseB nsub (s :: e.block.drop (e.pos + 1))) K := by
  unfold ctxS
  rw [drop_pos hcur]

/-- the statement at which a context stands with `e.block[e.pos]? = none` is the C code's `cur == NULL`: the step stops
    the daemon model -/
theorem step_null (now : Time) (d : Dev) (a : Action) (o : Oracle) (e : ExecCtx) (rest : List ExecCtx)
    (hex : a.exec = e :: rest) (hcur : e.block[e.pos]? = none) : (mstep now d a o).status = .aborted := by
  have : processStmt d a o now = ⟨d, a, o, [.abortAssert "cur == NULL"], true⟩ := by
    unfold processStmt; simp only [topCtx_of_exec a e rest hex, hcur]
  unfold mstep
  simp [this, hasAbort]

/-! ### the leaf statements other than `expect`: the stack keeps its shape, the match object is not touched -/

def LeafFacts (d : Dev) (e : ExecCtx) (rest : List ExecCtx) (r : StepR) : Prop :=
  ∃ p', r.act.exec = { e with processing := p' } :: rest ∧ SameXm d r.dev

theorem facts_send (d : Dev) (a : Action) (o : Oracle) (e : ExecCtx) (rest : List ExecCtx) (fmt : Bytes)
    (hex : a.exec = e :: rest) : LeafFacts d e rest (stmtSend d a o e fmt) := by
  rw [stmtSend_eq]; unfold stmtSend' LeafFacts SameXm
  obtain ⟨uid, com, exec, cid, tel, err, ts, ds, al⟩ := a
  simp only at hex; subst hex
  repeat' split
  all_goals exact ⟨_, rfl, rfl, rfl, rfl, rfl⟩

theorem facts_delay (d : Dev) (a : Action) (o : Oracle) (e : ExecCtx) (rest : List ExecCtx) (now us : Time)
    (hex : a.exec = e :: rest) : LeafFacts d e rest (stmtDelay d a o e now us) := by
  rw [stmtDelay_eq]; unfold stmtDelay' stmtDelayTail LeafFacts SameXm
  obtain ⟨uid, com, exec, cid, tel, err, ts, ds, al⟩ := a
  simp only at hex; subst hex
  repeat' split
  all_goals exact ⟨_, rfl, rfl, rfl, rfl, rfl⟩

theorem facts_setplugstate (d : Dev) (a : Action) (o : Oracle) (e : ExecCtx) (rest : List ExecCtx) (lit : Option Bytes)
    (pm sm : Int) (is : List (PState × Nat)) (hex : a.exec = e :: rest) :
    LeafFacts d e rest (stmtSetplugstate d a o e lit pm sm is) := by
  rw [stmtSetplugstate_eq]; unfold setplugstateCore LeafFacts SameXm
  repeat' split
  all_goals exact ⟨e.processing, hex, rfl, rfl, rfl, rfl⟩

theorem facts_setresult (d : Dev) (a : Action) (o : Oracle) (e : ExecCtx) (rest : List ExecCtx)
    (pm sm : Int) (is : List (PResult × Nat)) (hex : a.exec = e :: rest) :
    LeafFacts d e rest (stmtSetresult d a o pm sm is) := by
  unfold stmtSetresult LeafFacts SameXm
  repeat' split
  all_goals exact ⟨e.processing, hex, rfl, rfl, rfl, rfl⟩


def StepGoal (nsub : Nat → Nat) (kind : Nat) (now : Time) (d : Dev) (a : Action) (o : Oracle) (g : Option Nat) : Prop :=
  Sound nsub kind (mstep now d a o).dev (mstep now d a o).act (ghostNext now d a o g)

theorem step_leaf (nsub : Nat → Nat) (kind : Nat) (now : Time) (d : Dev) (a : Action) (o : Oracle) (g : Option Nat)
    (e : ExecCtx) (rest : List ExecCtx) (s : Stmt) (hex : a.exec = e :: rest) (hcur : e.block[e.pos]? = some s)
    (hk : s.kind = .leaf) (hnx : ∀ pat, s ≠ .expect pat)
    (hout : ∀ pa sg l, (stmtOK pa sg l (erase nsub s)).2 = l)
    (hf : LeafFacts d e rest (processStmt d a o now))
    (hS : Sound nsub kind d a g)
    (hs : (mstep now d a o).status = .running ∨ (mstep now d a o).status = .stalled) :
    StepGoal nsub kind now d a o g := by
  obtain ⟨cur, hg, hc⟩ := hS
  rw [hex] at hc
  obtain ⟨hpl, hctx⟩ := hc
  rw [ctxS_at nsub _ _ cur e _ s hcur] at hctx
  simp only [hk] at hctx
  rw [eraseB_cons, blk_cons, hout] at hctx
  obtain ⟨p', hexec, hsame⟩ := hf
  have hgn : ghostNext now d a o g = g := by
    unfold ghostNext; rw [topCtx_of_exec a e rest hex, hcur]
    cases s <;> first | rfl | exact absurd rfl (hnx _)
  obtain ⟨hdev, hact⟩ := mstep_cases now d a o hs
  unfold StepGoal
  rw [hgn]
  refine ⟨cur, ?_, ?_⟩
  · intro n hn
    obtain ⟨h1, h3⟩ := hg n hn
    rw [hdev]; exact ⟨held_same hsame h1, h3⟩
  · have hcur' : ({ e with processing := p' } : ExecCtx).block[({ e with processing := p' } : ExecCtx).pos]? = some s := hcur
    rcases hact with ⟨ha, _⟩ | ⟨ha, _, _⟩
    · rw [ha, hexec]
      refine ⟨hpl, ?_⟩
      rw [ctxS_at nsub _ _ cur { e with processing := p' } _ s hcur']
      simp only [hk]
      rw [eraseB_cons, blk_cons, hout]; exact hctx
    · rw [ha]
      exact contOK_advance nsub kind _ { e with processing := p' } rest cur hexec hpl hctx.2

theorem step_expect (nsub : Nat → Nat) (kind : Nat) (now : Time) (d : Dev) (a : Action) (o : Oracle) (g : Option Nat)
    (e : ExecCtx) (rest : List ExecCtx) (pat : Nat) (hex : a.exec = e :: rest)
    (hcur : e.block[e.pos]? = some (.expect pat))
    (hS : Sound nsub kind d a g)
    (hs : (mstep now d a o).status = .running ∨ (mstep now d a o).status = .stalled) :
    StepGoal nsub kind now d a o g := by
  obtain ⟨cur, hg, hc⟩ := hS
  rw [hex] at hc
  obtain ⟨hpl, hctx⟩ := hc
  rw [ctxS_at nsub _ _ cur e _ _ hcur] at hctx
  simp only [Stmt.kind] at hctx
  rw [eraseB_cons, blk_cons] at hctx
  have hst : ∀ pa sg l, stmtOK pa sg l (erase nsub (.expect pat)) = (true, some (nsub pat)) := by
    intro pa sg l; simp [erase, stmtOK]
  rw [hst] at hctx
  have hps : processStmt d a o now = stmtExpect d a o pat := processStmt_at d a o now e rest hex _ hcur
  have hact0 := stmtExpect_act d a o pat
  obtain ⟨hdev, hact⟩ := mstep_cases now d a o hs
  have hgn : ghostNext now d a o g = if (stmtExpect d a o pat).finished then some pat else none := by
    unfold ghostNext; rw [topCtx_of_exec a e rest hex, hcur, hps]
  unfold StepGoal
  rw [hgn]
  by_cases hfin : (stmtExpect d a o pat).finished = true
  · simp only [hfin, ↓reduceIte]
    obtain ⟨hne, hsome⟩ := (stmtExpect_finished_iff d a o pat).mp hfin
    obtain ⟨offs, hoffs⟩ := Option.isSome_iff_exists.mp hsome
    have hm := stmtExpect_match d a o pat offs hne hoffs
    refine ⟨some (nsub pat), ?_, ?_⟩
    · intro n hn
      cases hn
      rw [hdev, hps]
      exact ⟨⟨hm.2.2.2.2.2.2.1, hm.2.2.2.2.2.1, by rw [hm.2.2.2.1]; rfl⟩, pat, rfl, Nat.le_refl _⟩
    · rcases hact with ⟨ha, hnf | hpush⟩ | ⟨ha, _, _⟩
      · rw [hps, hfin] at hnf; cases hnf
      · rw [hps, hact0] at hpush; omega
      · rw [ha, hps, hact0]
        exact contOK_advance nsub kind a e rest (some (nsub pat)) hex hpl hctx.2
  · simp only [hfin, Bool.false_eq_true, ↓reduceIte]
    refine ⟨none, ghostOK_none nsub _ _, ?_⟩
    rcases hact with ⟨ha, _⟩ | ⟨ha, hf, _⟩
    · rw [ha, hps, hact0, hex]
      refine ⟨hpl, ?_⟩
      rw [ctxS_at nsub _ _ none e _ _ hcur]
      simp only [Stmt.kind]
      rw [eraseB_cons, blk_cons, hst]
      exact hctx
    · rw [hps] at hf; exact absurd hf hfin

theorem ghostNext_other (now : Time) (d : Dev) (a : Action) (o : Oracle) (g : Option Nat) (e : ExecCtx)
    (rest : List ExecCtx) (s : Stmt) (hex : a.exec = e :: rest) (hcur : e.block[e.pos]? = some s)
    (hk : s.kind ≠ .leaf) : ghostNext now d a o g = g := by
  unfold ghostNext; rw [topCtx_of_exec a e rest hex, hcur]
  cases s <;> first | rfl | exact absurd rfl hk

theorem step_each (nsub : Nat → Nat) (kind : Nat) (now : Time) (d : Dev) (a : Action) (o : Oracle) (g : Option Nat)
    (e : ExecCtx) (rest : List ExecCtx) (s : Stmt) (n : Bool) (body : List Stmt) (hex : a.exec = e :: rest)
    (hcur : e.block[e.pos]? = some s) (hk : s.kind = .each n body)
    (hS : Sound nsub kind d a g)
    (hs : (mstep now d a o).status = .running ∨ (mstep now d a o).status = .stalled) :
    StepGoal nsub kind now d a o g := by
  obtain ⟨cur, hg, hc⟩ := hS
  rw [hex] at hc
  obtain ⟨hpl, hctx⟩ := hc
  rw [ctxS_at nsub _ _ cur e _ s hcur] at hctx
  simp only [hk] at hctx
  obtain ⟨hsg, b, hb1, hb2, hb3, hb4⟩ := hctx
  have hps := processStmt_each d a o now e rest hex s hcur n body hk
  have hfr := stmtForeach_frame d a o e body n
  have hff := foreachCtx_fields a e
  have hdrop : a.exec.drop 1 = rest := by simp [hex]
  have hgn := ghostNext_other now d a o g e rest s hex hcur (by simp [hk])
  obtain ⟨hdev, hact⟩ := mstep_cases now d a o hs
  unfold StepGoal
  rw [hgn]
  refine ⟨cur, ?_, ?_⟩
  · intro m hm; rw [hdev, hps, hfr.1]; exact hg m hm
  · cases hnp : nextPlug n (foreachList d a e) (e.plugItr.getD 0) ((foreachList d a e).length + 1) with
    | some pk =>
      obtain ⟨p, k⟩ := pk
      have hexec := stmtForeach_next d a o e body n p k hnp
      rw [hdrop] at hexec
      have ha : (mstep now d a o).act = (stmtForeach d a o e body n).act := by
        rcases hact with ⟨ha, _⟩ | ⟨_, _, hlen⟩
        · rw [ha, hps]
        · rw [hps, hexec, hex] at hlen; simp at hlen; omega
      rw [ha, hexec]
      have hcur1 : ({ foreachCtx a e with plugItr := some k } : ExecCtx).block[({ foreachCtx a e with plugItr := some k } : ExecCtx).pos]? = some s := by
        simp only [hff.1, hff.2.1]; exact hcur
      refine ⟨⟨fun _ => ⟨p, rfl⟩, fun _ => ⟨p, [], rfl⟩⟩, ?_⟩
      apply ctxS_of_blk nsub true true cur (bodyCtx body (some [p])) _ (contOK_mono nsub kind _)
      have hm := stmtsOK_mono (eraseB nsub body) true true b cur hb1
      refine ⟨hm.1 hb2, ?_⟩
      refine ⟨by simp only [hff.2.2.1]; exact hpl, ?_⟩
      rw [ctxS_at nsub _ _ _ _ _ s hcur1]
      simp only [hk]
      refine ⟨hsg, b, le_trans hb3 hm.2, hb2, hb3, ?_⟩
      simp only [hff.1, hff.2.1]; exact hb4
    | none =>
      have hexec := stmtForeach_done d a o e body n hnp
      have hexec' : (stmtForeach d a o e body n).act.exec = { foreachCtx a e with plugItr := none } :: rest := by
        rw [hexec]; simp [hdrop]
      rcases hact with ⟨_, hnf | hpush⟩ | ⟨ha, _, _⟩
      · rw [hps, hfr.2.2.2] at hnf; cases hnf
      · rw [hps, hexec', hex] at hpush; simp at hpush
      · rw [ha, hps]
        refine contOK_advance nsub kind _ { foreachCtx a e with plugItr := none } rest cur hexec' ?_ ?_
        · simp only [hff.2.2.1]; exact hpl
        · simp only [hff.1, hff.2.1]; exact blk_mono (contOK_mono nsub kind rest) hb1 hb4


theorem singlet_plugArg (k : Nat) (h : singletKinds.contains k = true) : plugArgKinds.contains k = true := by
  simp only [singletKinds, plugArgKinds, List.contains_cons, List.contains_nil, Bool.or_false, Bool.or_eq_true,
    beq_iff_eq] at h ⊢
  omega

theorem flags_single (kind : Nat) (rest : List ExecCtx) (h : (flagsOf kind rest).2 = true) : (flagsOf kind rest).1 = true := by
  unfold flagsOf at *
  split
  · rename_i hr; simp only [hr, ↓reduceIte] at h; exact singlet_plugArg kind h
  · rfl

theorem step_cond (nsub : Nat → Nat) (kind : Nat) (now : Time) (d : Dev) (a : Action) (o : Oracle) (g : Option Nat)
    (e : ExecCtx) (rest : List ExecCtx) (s : Stmt) (w : Bool) (body : List Stmt) (hex : a.exec = e :: rest)
    (hcur : e.block[e.pos]? = some s) (hk : s.kind = .cond w body)
    (hS : Sound nsub kind d a g)
    (hs : (mstep now d a o).status = .running ∨ (mstep now d a o).status = .stalled) :
    StepGoal nsub kind now d a o g := by
  obtain ⟨cur, hg, hc⟩ := hS
  rw [hex] at hc
  obtain ⟨hpl, hctx⟩ := hc
  rw [ctxS_at nsub _ _ cur e _ s hcur] at hctx
  simp only [hk] at hctx
  have hps := processStmt_cond d a o now e rest hex s hcur w body hk
  have hfr := stmtIf_frame d a o e body w
  have hdrop : a.exec.drop 1 = rest := by simp [hex]
  have hgn := ghostNext_other now d a o g e rest s hex hcur (by simp [hk])
  obtain ⟨hdev, hact⟩ := mstep_cases now d a o hs
  unfold StepGoal
  rw [hgn]
  refine ⟨cur, ?_, ?_⟩
  · intro m hm; rw [hdev, hps, hfr.1]; exact hg m hm
  · -- a statement that finished and left the stack `e' :: rest` (same block, position, plugs): the action advances
    have nottaken : ∀ e' : ExecCtx, (stmtIf d a o e body w).act.exec = e' :: rest → e'.block = e.block → e'.pos = e.pos →
        e'.plugs = e.plugs →
        Blk (flagsOf kind rest).1 (flagsOf kind rest).2 cur (eraseB nsub (e.block.drop (e.pos + 1))) (fun c => ContOK nsub kind rest c) →
        ContOK nsub kind (mstep now d a o).act.exec cur := by
      intro e' hexec h1 h2 h3 hb
      rcases hact with ⟨_, hnf | hpush⟩ | ⟨ha, _, _⟩
      · rw [hps, hfr.2.2.2] at hnf; cases hnf
      · rw [hps, hexec, hex] at hpush; simp at hpush
      · rw [ha, hps]
        refine contOK_advance nsub kind _ e' rest cur hexec ?_ ?_
        · rw [h3]; exact hpl
        · rw [h1, h2]; exact hb
    by_cases hp : e.processing = true
    · simp only [hp, ↓reduceIte] at hctx
      have hexec := stmtIf_return d a o e body w hp
      exact nottaken { e with processing := false } (by rw [hexec]; simp [hdrop]) rfl rfl rfl hctx
    · have hp' : e.processing = false := by simpa using hp
      simp only [hp', Bool.false_eq_true, ↓reduceIte] at hctx
      rw [eraseB_cons, blk_cons, stmtOK_erase_cond nsub _ _ cur s w body hk] at hctx
      obtain ⟨hcond, htail⟩ := hctx
      simp only [condOK, Bool.and_eq_true] at hcond htail
      obtain ⟨hsg, hbody⟩ := hcond
      have hpa := flags_single kind rest hsg
      have hK := contOK_mono nsub kind rest
      have htail0 : Blk (flagsOf kind rest).1 (flagsOf kind rest).2 cur (eraseB nsub (e.block.drop (e.pos + 1)))
          (fun c => ContOK nsub kind rest c) := blk_mono hK (meet_le_left _ _) htail
      by_cases htk : nodeState d a.arglist (ctxNode e.plugs) = (if w then .on else .off)
      · -- the body is pushed, with the plugs of the context
        have hexec := stmtIf_taken d a o e body w hp' htk
        rw [hdrop] at hexec
        have ha : (mstep now d a o).act = (stmtIf d a o e body w).act := by
          rcases hact with ⟨ha, _⟩ | ⟨_, _, hlen⟩
          · rw [ha, hps]
          · rw [hps, hexec, hex] at hlen; simp at hlen; omega
        rw [ha, hexec]
        obtain ⟨p, hp1⟩ := hpl.1 hsg
        have hcur1 : ({ e with processing := true } : ExecCtx).block[({ e with processing := true } : ExecCtx).pos]? = some s := hcur
        refine ⟨⟨fun _ => ⟨p, by simp [bodyCtx, hp1]⟩, fun _ => ⟨p, [], by simp [bodyCtx, hp1]⟩⟩, ?_⟩
        apply ctxS_of_blk nsub true true cur (bodyCtx body (some (e.plugs.getD []))) _ (contOK_mono nsub kind _)
        rw [hpa, hsg] at hbody
        refine ⟨hbody, hpl, ?_⟩
        rw [ctxS_at nsub _ _ _ _ _ s hcur1]
        simp only [hk, ↓reduceIte]
        have := blk_mono hK (meet_le_right cur _) htail
        rw [hpa, hsg] at this ⊢
        exact this
      · have hexec : (stmtIf d a o e body w).act.exec = e :: rest := by
          by_cases hsk : nodeState d a.arglist (ctxNode e.plugs) = (if w then .off else .on)
          · rw [stmtIf_skipped d a o e body w hp' hsk]; exact hex
          · have hun : nodeState d a.arglist (ctxNode e.plugs) = .unknown := by
              cases hst : nodeState d a.arglist (ctxNode e.plugs) <;> cases w <;> simp_all
            rw [stmtIf_unknown d a o e body w hp' hun]; exact hex
        exact nottaken e hexec rfl rfl rfl htail0

/-- **every micro-step keeps the invariant** — whatever the device state, the oracle's answers, the time — as long as the
    action goes on (`running`: next statement in the same pass; `stalled`: it waits for the next pass) -/
theorem sound_mstep (nsub : Nat → Nat) (kind : Nat) (now : Time) (d : Dev) (a : Action) (o : Oracle) (g : Option Nat)
    (hne : a.exec ≠ []) (hS : Sound nsub kind d a g)
    (hs : (mstep now d a o).status = .running ∨ (mstep now d a o).status = .stalled) :
    Sound nsub kind (mstep now d a o).dev (mstep now d a o).act (ghostNext now d a o g) := by
  cases hex : a.exec with
  | nil => exact absurd hex hne
  | cons e rest =>
    cases hcur : e.block[e.pos]? with
    | none =>
      have := step_null now d a o e rest hex hcur
      rw [this] at hs; rcases hs with h | h <;> cases h
    | some s =>
      have hps := processStmt_at d a o now e rest hex s hcur
      cases s with
      | send fmt =>
        exact step_leaf nsub kind now d a o g e rest _ hex hcur rfl (by intro pat h; cases h)
          (by intro pa sg l; simp [erase, stmtOK]) (by rw [hps]; exact facts_send d a o e rest fmt hex) hS hs
      | expect pat => exact step_expect nsub kind now d a o g e rest pat hex hcur hS hs
      | delay us =>
        exact step_leaf nsub kind now d a o g e rest _ hex hcur rfl (by intro pat h; cases h)
          (by intro pa sg l; simp [erase, stmtOK]) (by rw [hps]; exact facts_delay d a o e rest now us hex) hS hs
      | setplugstate lit pm sm is =>
        exact step_leaf nsub kind now d a o g e rest _ hex hcur rfl (by intro pat h; cases h)
          (by intro pa sg l; simp [erase, stmtOK]) (by rw [hps]; exact facts_setplugstate d a o e rest lit pm sm is hex) hS hs
      | setresult pm sm is =>
        exact step_leaf nsub kind now d a o g e rest _ hex hcur rfl (by intro pat h; cases h)
          (by intro pa sg l; simp [erase, stmtOK]) (by rw [hps]; exact facts_setresult d a o e rest pm sm is hex) hS hs
      | foreachplug b => exact step_each nsub kind now d a o g e rest _ false b hex hcur rfl hS hs
      | foreachnode b => exact step_each nsub kind now d a o g e rest _ true b hex hcur rfl hS hs
      | ifon b => exact step_cond nsub kind now d a o g e rest _ true b hex hcur rfl hS hs
      | ifoff b => exact step_cond nsub kind now d a o g e rest _ false b hex hcur rfl hS hs


/-! ## what the invariant promises at the statement the action stands at -/

/-- reading `$mp` (`mp ≥ 0`; `-1` stands for "no `$N` given") stays within the groups of the expect that matched last
    (pattern `pat`) and within the match object -/
def ReadOK (nsub : Nat → Nat) (pat : Nat) (mp : Int) : Prop := 0 ≤ mp → mp.toNat ≤ nsub pat ∧ mp.toNat ≤ MAX_MATCH_POS

/-- the promise about a `setplugstate` that is executed: the match object holds a successful match, made by an expect of
    this action (pattern `pat`, the ghost); the `$N` it reads are groups of that pattern and fit the match object; a status
    group is given; and the plug has a source: literal, group, or the context -/
def SetSafe (nsub : Nat → Nat) (d : Dev) (g : Option Nat) (pl : Option (List Plug)) (lit : Option Bytes) (pm sm : Int) : Prop :=
  Held d ∧ ∃ pat, g = some pat ∧ (lit = none → ReadOK nsub pat pm) ∧ ReadOK nsub pat sm ∧
    0 ≤ sm ∧ (lit.isSome = true ∨ 0 ≤ pm ∨ ∃ p l, pl = some (p :: l))

/-- … and about a `setresult` -/
def ResSafe (nsub : Nat → Nat) (d : Dev) (g : Option Nat) (pm sm : Int) : Prop :=
  Held d ∧ ∃ pat, g = some pat ∧ ReadOK nsub pat pm ∧ ReadOK nsub pat sm ∧ 0 ≤ pm ∧ 0 ≤ sm

theorem readOK_of_mpOK (nsub : Nat → Nat) (n pat : Nat) (mp : Int) (hn : n ≤ nsub pat) (h : mpOK (some n) mp = true) :
    ReadOK nsub pat mp := by
  intro h0
  unfold mpOK at h
  have : ¬ mp < 0 := by omega
  simp only [this, ↓reduceIte, Bool.and_eq_true, decide_eq_true_eq] at h
  exact ⟨by omega, h.2⟩

/-- the promise about a send is exactly "`hsprintf` formats it without fault with the argument the context gives" -/
theorem sendSafe_iff (fmt : Bytes) (pl : Option (List Plug)) : SendSafe fmt pl ↔ fmtBad fmt (argThere pl) = false := by
  constructor
  · exact sendSafe_fmtBad fmt pl
  · intro h
    obtain ⟨h1, h2⟩ := scan_of_fmtBad fmt.length fmt _ (Nat.le_refl _) h
    refine ⟨h1, by split at h2 <;> omega, ?_⟩
    rcases pl with _ | _ | ⟨p, l⟩
    · left; simpa [argThere] using h2
    · left; simpa [argThere] using h2
    · right; exact ⟨p, l, rfl⟩

/-- the top context of a sound configuration, standing at a leaf statement: that statement passes the static check with
    the flags of the context and a `last` that describes the match object -/
theorem sound_top_leaf (nsub : Nat → Nat) (kind : Nat) (d : Dev) (a : Action) (g : Option Nat) (e : ExecCtx)
    (rest : List ExecCtx) (s : Stmt) (hS : Sound nsub kind d a g) (hex : a.exec = e :: rest)
    (hcur : e.block[e.pos]? = some s) (hk : s.kind = .leaf) :
    ∃ cur, GhostOK nsub cur d g ∧ CtxPlugs (flagsOf kind rest).1 (flagsOf kind rest).2 e.plugs ∧
      (stmtOK (flagsOf kind rest).1 (flagsOf kind rest).2 cur (erase nsub s)).1 = true := by
  obtain ⟨cur, hg, hc⟩ := hS
  rw [hex] at hc
  obtain ⟨hpl, hctx⟩ := hc
  rw [ctxS_at nsub _ _ cur e _ s hcur] at hctx
  simp only [hk] at hctx
  rw [eraseB_cons, blk_cons] at hctx
  exact ⟨cur, hg, hpl, hctx.1⟩

/-- (a) the send the action stands at is safe to format in its context -/
theorem sound_send (nsub : Nat → Nat) (kind : Nat) (d : Dev) (a : Action) (g : Option Nat) (e : ExecCtx)
    (rest : List ExecCtx) (fmt : Bytes) (hS : Sound nsub kind d a g) (hex : a.exec = e :: rest)
    (hcur : e.block[e.pos]? = some (.send fmt)) : SendSafe fmt e.plugs := by
  obtain ⟨cur, _, hpl, hok⟩ := sound_top_leaf nsub kind d a g e rest _ hS hex hcur rfl
  simp only [erase, stmtOK, sendSafe, Bool.and_eq_true, Bool.or_eq_true, decide_eq_true_eq, beq_iff_eq] at hok
  obtain ⟨⟨h1, h2⟩, h3⟩ := hok
  refine ⟨h1, h2, ?_⟩
  rcases h3 with h3 | h3
  · exact Or.inl h3
  · exact Or.inr (hpl.2 h3)

/-- (b) the `setplugstate` the action stands at reads only what the last matching expect provides -/
theorem sound_setplugstate (nsub : Nat → Nat) (kind : Nat) (d : Dev) (a : Action) (g : Option Nat) (e : ExecCtx)
    (rest : List ExecCtx) (lit : Option Bytes) (pm sm : Int) (is : List (PState × Nat))
    (hS : Sound nsub kind d a g) (hex : a.exec = e :: rest)
    (hcur : e.block[e.pos]? = some (.setplugstate lit pm sm is)) : SetSafe nsub d g e.plugs lit pm sm := by
  obtain ⟨cur, hg, hpl, hok⟩ := sound_top_leaf nsub kind d a g e rest _ hS hex hcur rfl
  simp only [erase, stmtOK, Bool.and_eq_true, Bool.or_eq_true, decide_eq_true_eq] at hok
  obtain ⟨⟨⟨⟨h1, h2⟩, h3⟩, h4⟩, h5⟩ := hok
  obtain ⟨n, hn⟩ := Option.isSome_iff_exists.mp h1
  obtain ⟨hheld, pat, hgp, hnp⟩ := hg n hn
  subst hn
  refine ⟨hheld, pat, hgp, ?_, readOK_of_mpOK nsub n pat sm hnp h3, h5, ?_⟩
  · intro hl
    subst hl
    simp only [Option.isSome_none, Bool.false_eq_true, ↓reduceIte] at h2
    exact readOK_of_mpOK nsub n pat pm hnp h2
  · rcases h4 with (h4 | h4) | h4
    · exact Or.inl h4
    · cases lit with
      | none => simp only [Option.isSome_none, Bool.false_eq_true, ↓reduceIte] at h4; exact Or.inr (Or.inl h4)
      | some x => exact Or.inl rfl
    · exact Or.inr (Or.inr (hpl.2 h4))

theorem sound_setresult (nsub : Nat → Nat) (kind : Nat) (d : Dev) (a : Action) (g : Option Nat) (e : ExecCtx)
    (rest : List ExecCtx) (pm sm : Int) (is : List (PResult × Nat))
    (hS : Sound nsub kind d a g) (hex : a.exec = e :: rest)
    (hcur : e.block[e.pos]? = some (.setresult pm sm is)) : ResSafe nsub d g pm sm := by
  obtain ⟨cur, hg, hpl, hok⟩ := sound_top_leaf nsub kind d a g e rest _ hS hex hcur rfl
  simp only [erase, stmtOK, Bool.and_eq_true, decide_eq_true_eq] at hok
  obtain ⟨⟨⟨⟨h1, h2⟩, h3⟩, h4⟩, h5⟩ := hok
  obtain ⟨n, hn⟩ := Option.isSome_iff_exists.mp h1
  obtain ⟨hheld, pat, hgp, hnp⟩ := hg n hn
  subst hn
  exact ⟨hheld, pat, hgp, readOK_of_mpOK nsub n pat pm hnp h2, readOK_of_mpOK nsub n pat sm hnp h3, h4, h5⟩

/-- (c) an `ifon`/`ifoff` that is evaluated (not: returned to from its body) has exactly one plug in its context -/
theorem sound_if (nsub : Nat → Nat) (kind : Nat) (d : Dev) (a : Action) (g : Option Nat) (e : ExecCtx)
    (rest : List ExecCtx) (s : Stmt) (w : Bool) (body : List Stmt) (hS : Sound nsub kind d a g) (hex : a.exec = e :: rest)
    (hcur : e.block[e.pos]? = some s) (hk : s.kind = .cond w body) (hp : e.processing = false) :
    ∃ p, e.plugs = some [p] := by
  obtain ⟨cur, hg, hc⟩ := hS
  rw [hex] at hc
  obtain ⟨hpl, hctx⟩ := hc
  rw [ctxS_at nsub _ _ cur e _ s hcur] at hctx
  simp only [hk, hp, Bool.false_eq_true, ↓reduceIte] at hctx
  rw [eraseB_cons, blk_cons, stmtOK_erase_cond nsub _ _ cur s w body hk] at hctx
  have := hctx.1
  simp only [condOK, Bool.and_eq_true] at this
  exact hpl.1 this.1

/-- (c) a `foreachplug`/`foreachnode` is only ever executed in the outermost context of an action whose kind is not a
    singlet kind — never inside a `foreach` body, an `if` body or a singlet script, the contexts that hold one plug -/
theorem sound_foreach (nsub : Nat → Nat) (kind : Nat) (d : Dev) (a : Action) (g : Option Nat) (e : ExecCtx)
    (rest : List ExecCtx) (s : Stmt) (n : Bool) (body : List Stmt) (hS : Sound nsub kind d a g) (hex : a.exec = e :: rest)
    (hcur : e.block[e.pos]? = some s) (hk : s.kind = .each n body) :
    rest = [] ∧ singletKinds.contains kind = false := by
  obtain ⟨cur, hg, hc⟩ := hS
  rw [hex] at hc
  obtain ⟨hpl, hctx⟩ := hc
  rw [ctxS_at nsub _ _ cur e _ s hcur] at hctx
  simp only [hk] at hctx
  have hsg := hctx.1
  unfold flagsOf at hsg
  cases rest with
  | nil => simpa using hsg
  | cons x xs => simp at hsg

/-! ## executions -/

/-- The configurations — device state, action, ghost — an action that runs `script` with context plugs `pl` can be in.
    `start`: the action as `_create_action` makes it, or as `_rewind_action` leaves it (one context at the first statement
    of the script; any flags), whatever the device state.  `step`: one micro-step (`_process_stmt` and the bookkeeping of
    `_process_action`) with any oracle and at any time, as long as the action goes on.  `env`: anything that happens
    to the device or to the other fields of the action between two statements — input arriving, output draining, other
    actions being queued, reconnects, time stamps — except to the match object while a match is held. -/
inductive Reach (script : List Stmt) (pl : Option (List Plug)) : Dev → Action → Option Nat → Prop where
  | start (d : Dev) (a : Action) (e : ExecCtx) : a.exec = [e] → e.block = script → e.pos = 0 → e.plugs = pl →
      Reach script pl d a none
  | step (now : Time) (d : Dev) (a : Action) (o : Oracle) (g : Option Nat) : Reach script pl d a g → a.exec ≠ [] →
      ((mstep now d a o).status = .running ∨ (mstep now d a o).status = .stalled) →
      Reach script pl (mstep now d a o).dev (mstep now d a o).act (ghostNext now d a o g)
  | env (d d' : Dev) (a a' : Action) (g : Option Nat) : Reach script pl d a g → a'.exec = a.exec →
      (g = none ∨ SameXm d d') → Reach script pl d' a' g

/-- **`specOK_sound`, the invariant form**: every configuration an action can reach on a script whose erasure passes the
    static check for the action's kind — created with the plugs that kind is created with — satisfies the invariant -/
theorem reach_sound (nsub : Nat → Nat) (kind : Nat) (script : List Stmt) (pl : Option (List Plug))
    (hok : scriptOK kind (eraseB nsub script) = true) (hpl : KindPlugs kind pl)
    (d : Dev) (a : Action) (g : Option Nat) (h : Reach script pl d a g) : Sound nsub kind d a g := by
  induction h with
  | start d a e hex hb hp hpl' =>
    refine ⟨none, ghostOK_none nsub d none, ?_⟩
    rw [hex]
    refine ⟨by rw [hpl']; exact hpl, ?_⟩
    apply ctxS_of_blk nsub _ _ none _ _ (contOK_mono nsub kind [])
    rw [hb, hp]
    exact ⟨hok, trivial⟩
  | step now d a o g _ hne hs ih => exact sound_mstep nsub kind now d a o g hne ih hs
  | env d d' a a' g _ hex hm ih =>
    obtain ⟨cur, hg, hc⟩ := ih
    refine ⟨cur, ?_, by rw [hex]; exact hc⟩
    intro n hn
    obtain ⟨h1, pat, h3, h4⟩ := hg n hn
    rcases hm with hm | hm
    · rw [hm] at h3; cases h3
    · exact ⟨held_same hm h1, pat, h3, h4⟩


/-! ### `_rewind_action`: the outermost context is always the script's -/

/-- the outermost context of the stack (if any) runs `script` with the plugs `pl` -/
def Bottom (script : List Stmt) (pl : Option (List Plug)) : List ExecCtx → Prop
  | [] => True
  | [e] => e.block = script ∧ e.plugs = pl
  | _ :: x :: r => Bottom script pl (x :: r)

theorem bottom_same (script : List Stmt) (pl : Option (List Plug)) (e x : ExecCtx) (rest : List ExecCtx)
    (h1 : x.block = e.block) (h2 : x.plugs = e.plugs) (h : Bottom script pl (e :: rest)) : Bottom script pl (x :: rest) := by
  cases rest with
  | nil => simp only [Bottom] at h ⊢; rw [h1, h2]; exact h
  | cons y ys => simpa only [Bottom] using h

theorem bottom_tail (script : List Stmt) (pl : Option (List Plug)) (e : ExecCtx) (rest : List ExecCtx)
    (h : Bottom script pl (e :: rest)) : Bottom script pl rest := by
  cases rest with
  | nil => trivial
  | cons y ys => simpa only [Bottom] using h

theorem bottom_getLast (script : List Stmt) (pl : Option (List Plug)) : ∀ (stack : List ExecCtx) (outer : ExecCtx),
    Bottom script pl stack → stack.getLast? = some outer → outer.block = script ∧ outer.plugs = pl
  | [], _, _, h => by simp at h
  | [e], outer, hb, h => by simp at h; subst h; exact hb
  | _ :: x :: r, outer, hb, h => by
    have : (x :: r).getLast? = some outer := by simpa [List.getLast?_cons_cons] using h
    exact bottom_getLast script pl (x :: r) outer (by simpa only [Bottom] using hb) this

/-- a statement replaces the top context by one with the same block, plugs and position, and may push one context -/
theorem procStmt_shape (d : Dev) (a : Action) (o : Oracle) (now : Time) (e : ExecCtx) (rest : List ExecCtx)
    (hex : a.exec = e :: rest) :
    ∃ e' : ExecCtx, e'.block = e.block ∧ e'.plugs = e.plugs ∧ e'.pos = e.pos ∧
      ((processStmt d a o now).act.exec = e' :: rest ∨ ∃ new, (processStmt d a o now).act.exec = new :: e' :: rest) := by
  have hdrop : a.exec.drop 1 = rest := by simp [hex]
  cases hcur : e.block[e.pos]? with
  | none =>
    have : processStmt d a o now = ⟨d, a, o, [.abortAssert "cur == NULL"], true⟩ := by
      unfold processStmt; simp only [topCtx_of_exec a e rest hex, hcur]
    exact ⟨e, rfl, rfl, rfl, Or.inl (by rw [this]; exact hex)⟩
  | some s =>
    have hps := processStmt_at d a o now e rest hex s hcur
    have leaf : LeafFacts d e rest (processStmt d a o now) →
        ∃ e' : ExecCtx, e'.block = e.block ∧ e'.plugs = e.plugs ∧ e'.pos = e.pos ∧
          ((processStmt d a o now).act.exec = e' :: rest ∨ ∃ new, (processStmt d a o now).act.exec = new :: e' :: rest) := by
      rintro ⟨p', h, _, _⟩
      exact ⟨{ e with processing := p' }, rfl, rfl, rfl, Or.inl h⟩
    have hff := foreachCtx_fields a e
    have each : ∀ (b : List Stmt) (n : Bool), processStmt d a o now = stmtForeach d a o e b n →
        ∃ e' : ExecCtx, e'.block = e.block ∧ e'.plugs = e.plugs ∧ e'.pos = e.pos ∧
          ((processStmt d a o now).act.exec = e' :: rest ∨ ∃ new, (processStmt d a o now).act.exec = new :: e' :: rest) := by
      intro b n h
      rw [h]
      cases hnp : nextPlug n (foreachList d a e) (e.plugItr.getD 0) ((foreachList d a e).length + 1) with
      | some pk =>
        obtain ⟨p, k⟩ := pk
        refine ⟨{ foreachCtx a e with plugItr := some k }, hff.1, hff.2.2.1, hff.2.1, Or.inr ⟨bodyCtx b (some [p]), ?_⟩⟩
        rw [stmtForeach_next d a o e b n p k hnp, hdrop]
      | none =>
        refine ⟨{ foreachCtx a e with plugItr := none }, hff.1, hff.2.2.1, hff.2.1, Or.inl ?_⟩
        rw [stmtForeach_done d a o e b n hnp]; simp [hdrop]
    have cond : ∀ (b : List Stmt) (w : Bool), processStmt d a o now = stmtIf d a o e b w →
        ∃ e' : ExecCtx, e'.block = e.block ∧ e'.plugs = e.plugs ∧ e'.pos = e.pos ∧
          ((processStmt d a o now).act.exec = e' :: rest ∨ ∃ new, (processStmt d a o now).act.exec = new :: e' :: rest) := by
      intro b w h
      rw [h, stmtIf_eq]; unfold stmtIf'
      split
      · exact ⟨{ e with processing := false }, rfl, rfl, rfl, Or.inl (by simp [hdrop])⟩
      · split
        · exact ⟨{ e with processing := true }, rfl, rfl, rfl, Or.inr ⟨bodyCtx b (some (e.plugs.getD [])), by simp [hdrop]⟩⟩
        · split
          · exact ⟨e, rfl, rfl, rfl, Or.inl hex⟩
          · exact ⟨e, rfl, rfl, rfl, Or.inl hex⟩
    cases s with
    | send fmt => exact leaf (by rw [hps]; exact facts_send d a o e rest fmt hex)
    | expect pat => exact ⟨e, rfl, rfl, rfl, Or.inl (by rw [hps, stmtExpect_act]; exact hex)⟩
    | delay us => exact leaf (by rw [hps]; exact facts_delay d a o e rest now us hex)
    | setplugstate lit pm sm is => exact leaf (by rw [hps]; exact facts_setplugstate d a o e rest lit pm sm is hex)
    | setresult pm sm is => exact leaf (by rw [hps]; exact facts_setresult d a o e rest pm sm is hex)
    | foreachplug b => exact each b false hps
    | foreachnode b => exact each b true hps
    | ifon b => exact cond b true hps
    | ifoff b => exact cond b false hps

theorem bottom_mstep (script : List Stmt) (pl : Option (List Plug)) (now : Time) (d : Dev) (a : Action) (o : Oracle)
    (hb : Bottom script pl a.exec)
    (hs : (mstep now d a o).status = .running ∨ (mstep now d a o).status = .stalled) :
    Bottom script pl (mstep now d a o).act.exec := by
  cases hex : a.exec with
  | nil =>
    -- an empty stack: `topCtx` is the default context, whose block is empty
    have : processStmt d a o now = ⟨d, a, o, [.abortAssert "cur == NULL"], true⟩ := by
      unfold processStmt topCtx; simp [hex]; rfl
    have hst : (mstep now d a o).status = .aborted := by unfold mstep; simp [this, hasAbort]
    rw [hst] at hs; rcases hs with h | h <;> cases h
  | cons e rest =>
    rw [hex] at hb
    obtain ⟨e', h1, h2, h3, hsh⟩ := procStmt_shape d a o now e rest hex
    have hb' : Bottom script pl (e' :: rest) := bottom_same script pl e e' rest h1 h2 hb
    have hr : Bottom script pl (processStmt d a o now).act.exec := by
      rcases hsh with h | ⟨new, h⟩
      · rw [h]; exact hb'
      · rw [h]; simpa only [Bottom] using hb'
    obtain ⟨_, hact⟩ := mstep_cases now d a o hs
    rcases hact with ⟨ha, _⟩ | ⟨ha, _, hlen⟩
    · rw [ha]; exact hr
    · rw [ha]
      rcases hsh with h | ⟨new, h⟩
      · rw [advance_exec _ e' rest h]
        split
        · exact bottom_same script pl e' { e' with pos := e'.pos + 1 } rest rfl rfl hb'
        · exact bottom_tail script pl e' rest hb'
      · rw [h, hex] at hlen; simp at hlen; omega

theorem reach_bottom (script : List Stmt) (pl : Option (List Plug)) (d : Dev) (a : Action) (g : Option Nat)
    (h : Reach script pl d a g) : Bottom script pl a.exec := by
  induction h with
  | start d a e hex hb hp hpl' => rw [hex]; exact ⟨hb, hpl'⟩
  | step now d a o g _ _ hs ih => exact bottom_mstep script pl now d a o ih hs
  | env d d' a a' g _ hex _ ih => rw [hex]; exact ih

/-- **pre-emption by a login**: `_rewind_action` on an action in any reachable configuration yields a configuration
    from which the action can start over — in whatever state the device then is (the login script runs its own
    expects on the shared match object in between) -/
theorem reach_rewind (script : List Stmt) (pl : Option (List Plug)) (d d' : Dev) (a : Action) (g : Option Nat)
    (h : Reach script pl d a g) (hne : a.exec ≠ []) : Reach script pl d' (rewind a) none := by
  cases hl : a.exec.getLast? with
  | none => simp [List.getLast?_eq_none_iff] at hl; exact absurd hl hne
  | some outer =>
    obtain ⟨h1, h2⟩ := bottom_getLast script pl a.exec outer (reach_bottom script pl d a g h) hl
    have hex : (rewind a).exec = [{ outer with pos := 0, processing := false, plugItr := none }] := by
      unfold rewind; simp [hl]
    exact Reach.start d' (rewind a) _ hex h1 rfl h2

/-! ### whole passes -/

theorem mstep_ne_done (now : Time) (d : Dev) (a : Action) (o : Oracle) : (mstep now d a o).status ≠ .done := by
  unfold mstep; dsimp only
  repeat' split
  all_goals simp

/-- a run of micro-steps (`mrun`: one pass of `_process_action` over the head action, `C08_pass_is_run`) leads from
    reachable configurations to reachable configurations -/
theorem reach_mrun (script : List Stmt) (pl : Option (List Plug)) (now : Time) : ∀ (n : Nat) (d : Dev) (a : Action)
    (o : Oracle) (acc : List Out) (g : Option Nat), Reach script pl d a g →
    ((mrun now n d a o acc).status = .running ∨ (mrun now n d a o acc).status = .stalled ∨
      (mrun now n d a o acc).status = .done) →
    ∃ g', Reach script pl (mrun now n d a o acc).dev (mrun now n d a o acc).act g' := by
  intro n
  induction n with
  | zero => intro d a o acc g h _; exact ⟨g, by simpa [mrun] using h⟩
  | succ n ih =>
    intro d a o acc g h hs
    rw [mrun] at hs ⊢
    by_cases hemp : a.exec.isEmpty = true
    · simp only [hemp, ↓reduceIte]; exact ⟨g, h⟩
    · have hne : a.exec ≠ [] := by simpa using hemp
      simp only [hemp, Bool.false_eq_true, ↓reduceIte] at hs ⊢
      by_cases hrun : (mstep now d a o).status = .running
      · simp only [hrun, ↓reduceIte] at hs ⊢
        exact ih _ _ _ _ _ (Reach.step now d a o g h hne (Or.inl hrun)) hs
      · simp only [hrun, ↓reduceIte] at hs ⊢
        rcases hs with hs | hs | hs
        · first | exact absurd hs hrun | exact hs.elim
        · exact ⟨_, Reach.step now d a o g h hne (Or.inr hs)⟩
        · exact absurd hs (mstep_ne_done now d a o)


/-! ### everything at once -/

/-- what C17 promises about the statement the action stands at, by statement kind -/
def StmtSafe (nsub : Nat → Nat) (kind : Nat) (d : Dev) (a : Action) (g : Option Nat) : Prop :=
  ∀ (e : ExecCtx) (rest : List ExecCtx) (s : Stmt), a.exec = e :: rest → e.block[e.pos]? = some s →
    match s with
    | .send fmt => SendSafe fmt e.plugs
    | .setplugstate lit pm sm _ => SetSafe nsub d g e.plugs lit pm sm
    | .setresult pm sm _ => ResSafe nsub d g pm sm
    | .ifon _ => e.processing = false → ∃ p, e.plugs = some [p]
    | .ifoff _ => e.processing = false → ∃ p, e.plugs = some [p]
    | .foreachplug _ => rest = [] ∧ singletKinds.contains kind = false
    | .foreachnode _ => rest = [] ∧ singletKinds.contains kind = false
    | _ => True

theorem sound_safe (nsub : Nat → Nat) (kind : Nat) (d : Dev) (a : Action) (g : Option Nat) (hS : Sound nsub kind d a g) :
    StmtSafe nsub kind d a g := by
  intro e rest s hex hcur
  cases s with
  | send fmt => exact sound_send nsub kind d a g e rest fmt hS hex hcur
  | expect pat => trivial
  | delay us => trivial
  | setplugstate lit pm sm is => exact sound_setplugstate nsub kind d a g e rest lit pm sm is hS hex hcur
  | setresult pm sm is => exact sound_setresult nsub kind d a g e rest pm sm is hS hex hcur
  | foreachplug b => exact sound_foreach nsub kind d a g e rest _ false b hS hex hcur rfl
  | foreachnode b => exact sound_foreach nsub kind d a g e rest _ true b hS hex hcur rfl
  | ifon b => exact sound_if nsub kind d a g e rest _ true b hS hex hcur rfl
  | ifoff b => exact sound_if nsub kind d a g e rest _ false b hS hex hcur rfl

/-- **`specOK_sound`**: in every configuration an action can reach, the statement it stands at is safe -/
theorem reach_safe (nsub : Nat → Nat) (kind : Nat) (script : List Stmt) (pl : Option (List Plug))
    (hok : scriptOK kind (eraseB nsub script) = true) (hpl : KindPlugs kind pl)
    (d : Dev) (a : Action) (g : Option Nat) (h : Reach script pl d a g) : StmtSafe nsub kind d a g :=
  sound_safe nsub kind d a g (reach_sound nsub kind script pl hok hpl d a g h)

/-- **one pass of `_process_action`** over a queue whose head is such an action (in the running situation `HeadOK` of
    `C08_pass_is_run`): the pass is a run `mrun` of micro-steps, and every configuration that run goes through —
    `mrun … k` for every `k`, i.e. before each statement the pass executes, and where it leaves the action — is reachable,
    hence safe -/
theorem pass_safe (nsub : Nat → Nat) (kind : Nat) (script : List Stmt) (pl : Option (List Plug))
    (hok : scriptOK kind (eraseB nsub script) = true) (hpl : KindPlugs kind pl)
    (R : Bool) (dp : List Plug) (fuel : Nat) (c : CS) (a : Action) (rest : List Action) (o : Oracle)
    (out : List Out) (tmo : Option Time) (h : HeadOK R dp c a) (hacts : c.dev.acts = a :: rest)
    (g : Option Nat) (hr : Reach script pl c.dev a g) :
    (∃ N fuel', processActionF fuel c o out tmo =
      headResult rest c tmo (timeLeft c a) fuel' (mrun c.env.now N c.dev a o out)) ∧
    ∀ k, ((mrun c.env.now k c.dev a o out).status = .running ∨ (mrun c.env.now k c.dev a o out).status = .stalled ∨
          (mrun c.env.now k c.dev a o out).status = .done) →
      ∃ g', Reach script pl (mrun c.env.now k c.dev a o out).dev (mrun c.env.now k c.dev a o out).act g' ∧
        StmtSafe nsub kind (mrun c.env.now k c.dev a o out).dev (mrun c.env.now k c.dev a o out).act g' := by
  refine ⟨pass_is_run R dp fuel c a rest o out tmo h hacts, ?_⟩
  intro k hk
  obtain ⟨g', hg'⟩ := reach_mrun script pl c.env.now k c.dev a o out g hr hk
  exact ⟨g', hg', reach_safe nsub kind script pl hok hpl _ _ _ hg'⟩

/-! ## the hypothesis on the plugs is needed -/

/-- `KindPlugs` cannot be dropped: `send "%s"` passes the static check for the ranged kind 8, but an action of that kind
    created with an *empty* plug list formats it without an argument (`hsprintf` prints `(null)`).  `_enqueue_targeted_actions`
    never does that: it is only called for a device that `_command_needs_device`, so `ranged_plugs` holds a plug. -/
theorem send_needs_plugs_counterexample :
    scriptOK 8 (eraseB (fun _ => 0) [.send [37, 115]]) = true ∧ ¬ SendSafe [37, 115] (some []) ∧
    sendText [37, 115] (some []) = some [40, 110, 117, 108, 108, 41] := by
  refine ⟨by decide +kernel, ?_, by decide +kernel⟩
  rintro ⟨_, _, h | ⟨p, l, h⟩⟩
  · revert h; decide +kernel
  · cases h

#print axioms reach_safe
#print axioms pass_safe
#print axioms reach_rewind
#print axioms sendSafe_fmtBad
#print axioms send_needs_plugs_counterexample

end Pm.Dev2.SpecSound
