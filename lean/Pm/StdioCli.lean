import Pm.Daemon
import Pm.Signal
import Pm.IsolationProof
import Pm.TelnetProof
import Pm.ClientProof

/-!
# The `--stdio` client: one client, two descriptors

`powermand --stdio` (`cli_start(true)`: `_create_client_stdio`, `one_client`) serves exactly one client whose input is
descriptor `fd` (standard input) and whose output is a *different* descriptor `ofd` (standard output); there is no listener, and
the daemon leaves its loop when that client is destroyed (`server_done`).  Everything the client code does with "the client's
descriptor" splits in two here:

* `cli_pre_poll` registers `POLLIN` on `fd` and `POLLOUT` on `ofd`;
* `cli_post_poll` looks at the events of `fd` (error / invalid: dead; readable or hung up: `_handle_read`) and then at those
  of `ofd` (error / hang-up / invalid: dead; writable: `_handle_write`);
* `_handle_write` writes to `ofd`, and it is `ofd` whose `O_NONBLOCK` is cleared for the final flush of a client that quit;
* `_destroy_client` closes both.

The write path is the socket client's `handleWrite` run on the output descriptor (`handleWriteIO`), so every theorem about
`handleWrite` (conservation of the queue, the final flush) carries over by instantiation — see the end of this file.
-/

namespace Pm.Daemon.Stdio
open Pm Pm.Client Pm.Daemon

/-- `_handle_write` of a client whose output descriptor is `ofd` -/
def handleWriteIO (ofd : Nat) (w : W) (c : Cli) : W × Cli :=
  let r := handleWrite w { c with fd := ofd }
  (r.1, { r.2 with fd := c.fd })

/-- `_handle_input` of such a client: the `quit` branch of `_parse_input` calls `_handle_write` itself (the final flush), and that
    call too goes to `ofd`.  Nothing else in `_handle_input` looks at a descriptor. -/
def handleInputIO (ofd : Nat) (w : W) (c : Cli) : W × Cli :=
  let r := handleInput w { c with fd := ofd }
  (r.1, { r.2 with fd := c.fd })

/-- `_handle_read` of `cli_post_poll` (the socket client's, verbatim): first the capacity half (`clipC`, `clipE`), then what is done
    with the bytes read -/
def readStage (w : W) (c : Cli) (ein : Option FdEnv) : W × Cli :=
  match clipE c ein, clipC c ein with
  | some e, c =>
    if e.rk == 1 then ({ w with sys := w.sys ++ [.read c.fd (-1)] }, { c with quit := true })
    else if e.rk == 2 then ({ w with sys := w.sys ++ [.read c.fd 0] }, { c with quit := true })
    else if e.data.isEmpty then ({ w with sys := w.sys ++ [.read c.fd (-1)] }, { c with quit := true })
    else ({ w with sys := w.sys ++ [.read c.fd e.data.length] }, { c with fromBuf := c.fromBuf ++ e.data })
  | none, c => (w, c)

/-- `_destroy_client`: both descriptors are closed -/
def deadIO (ofd : Nat) (w : W) (c : Cli) : W × Option Cli := ({ w with sys := w.sys ++ [.close c.fd, .close ofd] }, none)

/-- the body of `cli_post_poll`'s loop for a client with `ofd != NO_FD`, given the events `revIn` of `fd` and `revOut` of `ofd` -/
def clientPassCore (ofd : Nat) (w : W) (c : Cli) (ein : Option FdEnv) (revIn revOut : Nat) : W × Option Cli :=
  if revIn &&& 8 != 0 || revIn &&& 16 != 0 then deadIO ofd w c else
  let r1 := if revIn &&& 1 != 0 || revIn &&& 4 != 0 then readStage w c ein else (w, c)
  if revOut &&& 4 != 0 || revOut &&& 8 != 0 || revOut &&& 16 != 0 then deadIO ofd r1.1 r1.2 else
  let r2 := if revOut &&& 2 != 0 then handleWriteIO ofd r1.1 r1.2 else r1
  let r3 := handleInputIO ofd r2.1 r2.2
  if r3.1.exited then (r3.1, some r3.2) else
  if r3.2.quit && r3.2.cmd.isNone then deadIO ofd r3.1 r3.2 else (r3.1, some r3.2)

/-- `ein` / `eout` are what poll reports for `fd` / `ofd`: only what was asked for (`POLLIN` on `fd` unless the client quit,
    `POLLOUT` on `ofd` while something is queued) and the error bits come back -/
def clientPassIO (ofd : Nat) (w : W) (c : Cli) (ein eout : Option FdEnv) : W × Option Cli :=
  clientPassCore ofd w c ein
    (match ein with | some e => if c.quit then 0 else (e.rev &&& 1) ||| (e.rev &&& 28) | none => 0)
    (match eout with | some e => if c.toBuf.isEmpty then 0 else (e.rev &&& 2) ||| (e.rev &&& 28) | none => 0)

/-- `cli_pre_poll` without a listener -/
def cliPrePollIO (ofd : Nat) (w : W) : List (Nat × Nat) :=
  w.clients.flatMap fun c =>
    (if c.quit then [] else [(c.fd, 1)]) ++ (if c.toBuf.isEmpty then [] else [(ofd, 2)])

/-- one client of `cli_post_poll`'s loop: its record is replaced, or removed when it was destroyed -/
def cliStepIO (ofd : Nat) (envs : List FdEnv) (w : W) (c0 : Cli) : W :=
  if w.exited then w else
  let r := clientPassIO ofd w c0 (envs.find? (·.fd == c0.fd)) (envs.find? (·.fd == ofd))
  match r.2 with
  | some c => { r.1 with clients := r.1.clients.map fun (x : Cli) => if x.id == c.id then c else x }
  | none => { r.1 with clients := r.1.clients.filter fun (x : Cli) => x.id != c0.id }

def cliPostPollIO (ofd : Nat) (w : W) (envs : List FdEnv) : W :=
  w.clients.foldl (cliStepIO ofd envs) { w with sys := [], caps := envs.map fun (e : FdEnv) => (e.fd, e.cap) }

/-- `_create_client_stdio`: the one client exists before the loop starts, greeted like any other -/
def createClient (fd : Nat) (w : W) : W :=
  let c : Cli := { id := w.nextId, fd, toBuf := bstr "001 " ++ w.cfg.version ++ crlf ++ prompt }
  { w with clients := w.clients ++ [c], nextId := w.nextId + 1 }

/-- the body of `_select_loop` in `--stdio` mode; when the client is gone (`cli_server_done`) the loop is left after
    `dev_post_poll` and `main` tears down -/
def daemonPassIO (ofd : Nat) (w : W) (p : PassIn) : W × List String :=
  let ints := cliPrePollIO ofd w ++ w.devs.filterMap fun (nd : Bytes × Dev2.Dev) => Pm.Dev2.prePoll nd.2
  let pre := (ints.map fun (fd, f) => s!"O interest {fd} {f}") ++
    [s!"O polltmo {match w.tmo with | some t => toString (t / 1000) | none => "-1"}"]
  let w0 := cliPostPollIO ofd w p.envs
  if w0.exited then (w0, pre ++ ["EXIT"] ++ dumpLines w0 none) else
  let a0 : DevAcc := { w := w0, ylines := showSys w0.sys [], msgs := [], tmo := none, oracle := { calls := w0.pendingX }, devs := [], dead := false }
  let a := w0.devs.foldl (devPass p) a0
  let w := { a.w with devs := a.devs, pendingX := [], tmo := a.tmo }
  let body := pre ++ a.ylines ++ a.msgs ++ (if !a.oracle.calls.isEmpty then [s!"O UNUSED-RX {a.oracle.calls.length}"] else [])
  if w.clients.isEmpty then (w, body ++ teardown w ++ ["O teardown", "."])
  else (w, body ++ dumpLines w (some a.tmo))

/-- `cli_fini` with the `--stdio` client still there (`list_destroy` → `_destroy_client`): both its descriptors are closed; the
    devices are torn down as always -/
def teardownIO (ofd : Nat) (w : W) : List String :=
  (w.clients.flatMap fun c => [s!"Y close {c.fd}", s!"Y close {ofd}"]) ++ teardown { w with clients := [] }

/-- a termination signal while the `--stdio` client is being served: what was registered for `poll`, then the teardown — nothing
    `poll` reports in that pass is looked at, and what is still queued for the client is not flushed -/
def signalPassIO (ofd : Nat) (w : W) : List String :=
  let ints := cliPrePollIO ofd w ++ w.devs.filterMap fun (nd : Bytes × Dev2.Dev) => Pm.Dev2.prePoll nd.2
  (ints.map fun (fd, f) => s!"O interest {fd} {f}") ++
    [s!"O polltmo {match w.tmo with | some t => toString (t / 1000) | none => "-1"}"] ++ teardownIO ofd w

/-! ## what carries over from the one-descriptor client -/

open Pm.Daemon.Tel (written)

/-- the system calls a step adds to the log: all output goes to `ofd` -/
def OutOnly (ofd : Nat) (w w' : W) : Prop :=
  ∃ ext, w'.sys = w.sys ++ ext ∧ ∀ s ∈ ext, Isolation.isWrite s = true → Isolation.sysFd s = some ofd

theorem OutOnly.refl (ofd : Nat) (w : W) : OutOnly ofd w w := ⟨[], by simp, by simp⟩
theorem OutOnly.trans {ofd : Nat} {a b c : W} (h1 : OutOnly ofd a b) (h2 : OutOnly ofd b c) : OutOnly ofd a c := by
  obtain ⟨e1, s1, p1⟩ := h1; obtain ⟨e2, s2, p2⟩ := h2
  refine ⟨e1 ++ e2, by rw [s2, s1, List.append_assoc], ?_⟩
  intro s hs; rcases List.mem_append.mp hs with h | h
  · exact p1 s h
  · exact p2 s h
theorem OutOnly.push (ofd : Nat) (w : W) (l : List Sys) (h : ∀ s ∈ l, Isolation.isWrite s = false) :
    OutOnly ofd w { w with sys := w.sys ++ l } :=
  ⟨l, rfl, fun s hs hw => by rw [h s hs] at hw; cases hw⟩

theorem handleWriteIO_outOnly (ofd : Nat) (w : W) (c : Cli) : OutOnly ofd w (handleWriteIO ofd w c).1 := by
  obtain ⟨ext, h⟩ := Isolation.handleWrite_iso w { c with fd := ofd }
  exact ⟨ext, h.sys, fun s hs _ => h.sysfd s hs⟩
theorem handleInputIO_outOnly (ofd : Nat) (w : W) (c : Cli) : OutOnly ofd w (handleInputIO ofd w c).1 := by
  obtain ⟨ext, h, _⟩ := Isolation.handleInput_iso w { c with fd := ofd }
  exact ⟨ext, h.sys, fun s hs _ => h.sysfd s hs⟩

theorem readStage_outOnly (ofd : Nat) (w : W) (c : Cli) (ein : Option FdEnv) : OutOnly ofd w (readStage w c ein).1 := by
  unfold readStage
  split
  · repeat' split
    all_goals exact OutOnly.push ofd w _ (by simp [Isolation.isWrite])
  · exact OutOnly.refl ofd w

theorem deadIO_outOnly (ofd : Nat) (w : W) (c : Cli) : OutOnly ofd w (deadIO ofd w c).1 :=
  OutOnly.push ofd w _ (by simp [Isolation.isWrite])

theorem clientPassCore_outOnly (ofd : Nat) (w : W) (c : Cli) (ein : Option FdEnv) (revIn revOut : Nat) :
    OutOnly ofd w (clientPassCore ofd w c ein revIn revOut).1 := by
  unfold clientPassCore
  dsimp only
  split
  · exact deadIO_outOnly ofd w c
  · generalize hr1 : (if (revIn &&& 1 != 0 || revIn &&& 4 != 0) = true then readStage w c ein else (w, c)) = r1
    have h1 : OutOnly ofd w r1.1 := by
      rw [← hr1]; split
      · exact readStage_outOnly ofd w c ein
      · exact OutOnly.refl ofd w
    split
    · exact h1.trans (deadIO_outOnly ofd r1.1 r1.2)
    · generalize hr2 : (if (revOut &&& 2 != 0) = true then handleWriteIO ofd r1.1 r1.2 else r1) = r2
      have h2 : OutOnly ofd w r2.1 := by
        rw [← hr2]; split
        · exact h1.trans (handleWriteIO_outOnly ofd r1.1 r1.2)
        · exact h1
      have h3 : OutOnly ofd w (handleInputIO ofd r2.1 r2.2).1 := h2.trans (handleInputIO_outOnly ofd r2.1 r2.2)
      split
      · exact h3
      · split
        · exact h3.trans (deadIO_outOnly ofd _ _)
        · exact h3

/-- **Whatever poll reports for either descriptor**, one pass of the `--stdio` client writes to no descriptor but `ofd`
    (reads and closes are the only other calls it makes) -/
theorem clientPassIO_outOnly (ofd : Nat) (w : W) (c : Cli) (ein eout : Option FdEnv) :
    OutOnly ofd w (clientPassIO ofd w c ein eout).1 := clientPassCore_outOnly ofd w c ein _ _

theorem OutOnly.of_sys_eq {ofd : Nat} {a b b' : W} (h : OutOnly ofd a b) (e : b'.sys = b.sys) : OutOnly ofd a b' := by
  obtain ⟨ext, hs, hp⟩ := h
  exact ⟨ext, by rw [e, hs], hp⟩

theorem foldl_outOnly (ofd : Nat) (f : W → Cli → W) (hf : ∀ a x, OutOnly ofd a (f a x)) :
    ∀ (l : List Cli) (a : W), OutOnly ofd a (l.foldl f a) := by
  intro l; induction l with
  | nil => intro a; exact OutOnly.refl ofd a
  | cons x xs ih => intro a; rw [List.foldl_cons]; exact (hf a x).trans (ih _)

theorem cliStepIO_outOnly (ofd : Nat) (envs : List FdEnv) (w : W) (c0 : Cli) : OutOnly ofd w (cliStepIO ofd envs w c0) := by
  unfold cliStepIO
  split
  · exact OutOnly.refl ofd w
  · have hp := clientPassIO_outOnly ofd w c0 (envs.find? (·.fd == c0.fd)) (envs.find? (·.fd == ofd))
    dsimp only
    split
    · exact hp.of_sys_eq rfl
    · exact hp.of_sys_eq rfl

/-- **`cli_post_poll` in `--stdio` mode, for every set of events**: among the system calls of the pass, every `write` is on the
    output descriptor — nothing the daemon has for the client ever goes to its input descriptor or anywhere else -/
theorem cliPostPollIO_writes (ofd : Nat) (w : W) (envs : List FdEnv) :
    ∀ s ∈ (cliPostPollIO ofd w envs).sys, Isolation.isWrite s = true → Isolation.sysFd s = some ofd := by
  unfold cliPostPollIO
  obtain ⟨ext, hs, hp⟩ := foldl_outOnly ofd (cliStepIO ofd envs) (cliStepIO_outOnly ofd envs) w.clients
    { w with sys := [], caps := envs.map fun (e : FdEnv) => (e.fd, e.cap) }
  intro s hsm hw
  rw [hs] at hsm
  exact hp s (by simpa using hsm) hw

/-- the bytes handed to the output descriptor followed by what stays queued is what was queued: nothing is lost, duplicated or
    reordered, whatever the capacity, blocking or not, error or not; and nothing is ever written to the input descriptor -/
theorem handleWriteIO_conserve (ofd : Nat) (w : W) (c : Cli) :
    written ofd (handleWriteIO ofd w c).1.sys ++ (handleWriteIO ofd w c).2.toBuf = written ofd w.sys ++ c.toBuf ∧
    (handleWriteIO ofd w c).2.fd = c.fd ∧
    (∀ fd, fd ≠ ofd → written fd (handleWriteIO ofd w c).1.sys = written fd w.sys) := by
  refine ⟨?_, rfl, ?_⟩
  · exact (Pm.Daemon.Tel.handleWrite_conserve w { c with fd := ofd }).1
  · intro fd h
    exact Pm.Daemon.Tel.handleWrite_other w { c with fd := ofd } fd h

/-- the final flush of a client that quit: the *output* descriptor is the one made blocking, and the whole queue goes to it in
    one `write` whatever its capacity `≥ 0` — nothing queued is lost when the client is destroyed right after -/
theorem handleWriteIO_quit (ofd : Nat) (w : W) (c : Cli) (hq : c.quit = true) (hne : c.toBuf ≠ []) (hcap : ¬ capOf w ofd < 0) :
    handleWriteIO ofd w c =
      (setCap { w with sys := w.sys ++ [Sys.write ofd c.toBuf false (decide (capOf w ofd < (c.toBuf.length : Int)))] } ofd
         (if capOf w ofd < (c.toBuf.length : Int) then 0 else capOf w ofd - (c.toBuf.length : Int)),
       { c with blocking := true, toBuf := [] }) := by
  unfold handleWriteIO
  rw [Pm.Daemon.Isolation.handleWrite_quit w { c with fd := ofd } hq hne hcap]

/-- the `quit` request of the `--stdio` client (`_parse_input`: `101 Goodbye` is queued, then `_handle_write`): unless the output
    descriptor fails, everything queued so far and the farewell leave in one `write` *to the output descriptor*, whatever its
    capacity, and the queue is empty when the client is destroyed -/
theorem quit_flush (ofd : Nat) (w : W) (c : Cli) (hcap : ¬ capOf w ofd < 0) :
    (ClientPf.plQuit w { c with fd := ofd }).2.toBuf = [] ∧ (ClientPf.plQuit w { c with fd := ofd }).2.quit = true ∧
    (ClientPf.plQuit w { c with fd := ofd }).1.sys =
      w.sys ++ [Sys.write ofd (c.toBuf ++ ClientPf.render [ClientPf.item101]) false (capOf w ofd < ((c.toBuf ++ ClientPf.render [ClientPf.item101]).length : Int))] := by
  obtain ⟨⟨hq, h⟩, _⟩ := ClientPf.plQuit_spec w { c with fd := ofd }
  rcases h with ⟨h1, _⟩ | ⟨_, h2, h3⟩
  · exact absurd h1 hcap
  · exact ⟨h2, hq, h3⟩

end Pm.Daemon.Stdio
