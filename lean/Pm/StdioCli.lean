import Pm.Daemon
import Pm.Signal
import Pm.IsolationProof
import Pm.TelnetProof
import Pm.ClientProof

/-!
# The `--stdio` client: one client, two descriptors

`powermand --stdio` (`cli_start(true)`: `_create_client_stdio`, `one_client`) serves exactly one client whose input is
descriptor `fd` (standard input) and whose output is a *different* descriptor `ofd` (standard output); there is no listener, and
the daemon leaves its loop when that client is destroyed (`server_done`).  Everything the client code does with "the client's
descriptor" splits in two here:

* `cli_pre_poll` registers `POLLIN` on `fd` and `POLLOUT` on `ofd`;
* `cli_post_poll` looks at the events of `fd` (error / invalid: dead; readable or hung up: `_handle_read`) and then at those
  of `ofd` (error / hang-up / invalid: dead; writable: `_handle_write`);
* `_handle_write` writes to `ofd`, and it is `ofd` whose `O_NONBLOCK` is cleared for the final flush of a client that quit;
* `_destroy_client` closes both.

The write path is the socket client's `handleWrite` run on the output descriptor (`handleWriteIO`), so every theorem about
`handleWrite` (conservation of the queue, the final flush) carries over by instantiation — see the end of this file.
-/

namespace Pm.Daemon.Stdio
open Pm Pm.Client Pm.Daemon

/-- `_handle_write` of a client whose output descriptor is `ofd` -/
def handleWriteIO (ofd : Nat) (w : W) (c : Cli) : W × Cli :=
  let r := handleWrite w { c with fd := ofd }
  (r.1, { r.2 with fd := c.fd })

/-- `_handle_input` of such a client: the `quit` branch of `_parse_input` calls `_handle_write` itself (the final flush), and that
    call too goes to `ofd`.  Nothing else in `_handle_input` looks at a descriptor. -/
def handleInputIO (ofd : Nat) (w : W) (c : Cli) : W × Cli :=
  let r := handleInput w { c with fd := ofd }
  (r.1, { r.2 with fd := c.fd })

/-- the body of `cli_post_poll`'s loop for a client with `ofd != NO_FD`: `ein` / `eout` are what poll reports for `fd` / `ofd` -/
def clientPassIO (ofd : Nat) (w : W) (c : Cli) (ein eout : Option FdEnv) : W × Option Cli :=
  let revIn := match ein with | some e => if c.quit then 0 else (e.rev &&& 1) ||| (e.rev &&& 28) | none => 0
  let revOut := match eout with | some e => if c.toBuf.isEmpty then 0 else (e.rev &&& 2) ||| (e.rev &&& 28) | none => 0
  let dead (w : W) (c : Cli) : W × Option Cli := ({ w with sys := w.sys ++ [.close c.fd, .close ofd] }, none)
  if revIn &&& 8 != 0 || revIn &&& 16 != 0 then dead w c else
  let (w, c) :=
    if revIn &&& 1 != 0 || revIn &&& 4 != 0 then
      match clipE c ein, clipC c ein with
      | some e, c =>
        if e.rk == 1 then ({ w with sys := w.sys ++ [.read c.fd (-1)] }, { c with quit := true })
        else if e.rk == 2 then ({ w with sys := w.sys ++ [.read c.fd 0] }, { c with quit := true })
        else if e.data.isEmpty then ({ w with sys := w.sys ++ [.read c.fd (-1)] }, { c with quit := true })
        else ({ w with sys := w.sys ++ [.read c.fd e.data.length] }, { c with fromBuf := c.fromBuf ++ e.data })
      | none, c => (w, c)
    else (w, c)
  if revOut &&& 4 != 0 || revOut &&& 8 != 0 || revOut &&& 16 != 0 then dead w c else
  let (w, c) := if revOut &&& 2 != 0 then handleWriteIO ofd w c else (w, c)
  let (w, c) := handleInputIO ofd w c
  if w.exited then (w, some c) else
  if c.quit && c.cmd.isNone then dead w c else (w, some c)

/-- `cli_pre_poll` without a listener -/
def cliPrePollIO (ofd : Nat) (w : W) : List (Nat × Nat) :=
  w.clients.flatMap fun c =>
    (if c.quit then [] else [(c.fd, 1)]) ++ (if c.toBuf.isEmpty then [] else [(ofd, 2)])

def cliPostPollIO (ofd : Nat) (w : W) (envs : List FdEnv) : W :=
  let w := { w with sys := [], caps := envs.map fun (e : FdEnv) => (e.fd, e.cap) }
  w.clients.foldl (fun (w : W) (c0 : Cli) =>
    if w.exited then w else
    let (w', r) := clientPassIO ofd w c0 (envs.find? (·.fd == c0.fd)) (envs.find? (·.fd == ofd))
    match r with
    | some c => { w' with clients := w'.clients.map fun (x : Cli) => if x.id == c.id then c else x }
    | none => { w' with clients := w'.clients.filter fun (x : Cli) => x.id != c0.id }) w

/-- `_create_client_stdio`: the one client exists before the loop starts, greeted like any other -/
def createClient (fd : Nat) (w : W) : W :=
  let c : Cli := { id := w.nextId, fd, toBuf := bstr "001 " ++ w.cfg.version ++ crlf ++ prompt }
  { w with clients := w.clients ++ [c], nextId := w.nextId + 1 }

/-- the body of `_select_loop` in `--stdio` mode; when the client is gone (`cli_server_done`) the loop is left after
    `dev_post_poll` and `main` tears down -/
def daemonPassIO (ofd : Nat) (w : W) (p : PassIn) : W × List String :=
  let ints := cliPrePollIO ofd w ++ w.devs.filterMap fun (nd : Bytes × Dev2.Dev) => Pm.Dev2.prePoll nd.2
  let pre := (ints.map fun (fd, f) => s!"O interest {fd} {f}") ++
    [s!"O polltmo {match w.tmo with | some t => toString (t / 1000) | none => "-1"}"]
  let w0 := cliPostPollIO ofd w p.envs
  if w0.exited then (w0, pre ++ ["EXIT"] ++ dumpLines w0 none) else
  let a0 : DevAcc := { w := w0, ylines := showSys w0.sys [], msgs := [], tmo := none, oracle := { calls := w0.pendingX }, devs := [], dead := false }
  let a := w0.devs.foldl (devPass p) a0
  let w := { a.w with devs := a.devs, pendingX := [], tmo := a.tmo }
  let body := pre ++ a.ylines ++ a.msgs ++ (if !a.oracle.calls.isEmpty then [s!"O UNUSED-RX {a.oracle.calls.length}"] else [])
  if w.clients.isEmpty then (w, body ++ teardown w ++ ["O teardown", "."])
  else (w, body ++ dumpLines w (some a.tmo))

/-- `cli_fini` with the `--stdio` client still there (`list_destroy` → `_destroy_client`): both its descriptors are closed; the
    devices are torn down as always -/
def teardownIO (ofd : Nat) (w : W) : List String :=
  (w.clients.flatMap fun c => [s!"Y close {c.fd}", s!"Y close {ofd}"]) ++ teardown { w with clients := [] }

/-- a termination signal while the `--stdio` client is being served: what was registered for `poll`, then the teardown — nothing
    `poll` reports in that pass is looked at, and what is still queued for the client is not flushed -/
def signalPassIO (ofd : Nat) (w : W) : List String :=
  let ints := cliPrePollIO ofd w ++ w.devs.filterMap fun (nd : Bytes × Dev2.Dev) => Pm.Dev2.prePoll nd.2
  (ints.map fun (fd, f) => s!"O interest {fd} {f}") ++
    [s!"O polltmo {match w.tmo with | some t => toString (t / 1000) | none => "-1"}"] ++ teardownIO ofd w

/-! ## what carries over from the one-descriptor client -/

open Pm.Daemon.Tel (written)

/-- the bytes handed to the output descriptor followed by what stays queued is what was queued: nothing is lost, duplicated or
    reordered, whatever the capacity, blocking or not, error or not; and nothing is ever written to the input descriptor -/
theorem handleWriteIO_conserve (ofd : Nat) (w : W) (c : Cli) :
    written ofd (handleWriteIO ofd w c).1.sys ++ (handleWriteIO ofd w c).2.toBuf = written ofd w.sys ++ c.toBuf ∧
    (handleWriteIO ofd w c).2.fd = c.fd ∧
    (∀ fd, fd ≠ ofd → written fd (handleWriteIO ofd w c).1.sys = written fd w.sys) := by
  refine ⟨?_, rfl, ?_⟩
  · exact (Pm.Daemon.Tel.handleWrite_conserve w { c with fd := ofd }).1
  · intro fd h
    exact Pm.Daemon.Tel.handleWrite_other w { c with fd := ofd } fd h

/-- the final flush of a client that quit: the *output* descriptor is the one made blocking, and the whole queue goes to it in
    one `write` whatever its capacity `≥ 0` — nothing queued is lost when the client is destroyed right after -/
theorem handleWriteIO_quit (ofd : Nat) (w : W) (c : Cli) (hq : c.quit = true) (hne : c.toBuf ≠ []) (hcap : ¬ capOf w ofd < 0) :
    handleWriteIO ofd w c =
      (setCap { w with sys := w.sys ++ [Sys.write ofd c.toBuf false (decide (capOf w ofd < (c.toBuf.length : Int)))] } ofd
         (if capOf w ofd < (c.toBuf.length : Int) then 0 else capOf w ofd - (c.toBuf.length : Int)),
       { c with blocking := true, toBuf := [] }) := by
  unfold handleWriteIO
  rw [Pm.Daemon.Isolation.handleWrite_quit w { c with fd := ofd } hq hne hcap]

/-- the `quit` request of the `--stdio` client (`_parse_input`: `101 Goodbye` is queued, then `_handle_write`): unless the output
    descriptor fails, everything queued so far and the farewell leave in one `write` *to the output descriptor*, whatever its
    capacity, and the queue is empty when the client is destroyed -/
theorem quit_flush (ofd : Nat) (w : W) (c : Cli) (hcap : ¬ capOf w ofd < 0) :
    (ClientPf.plQuit w { c with fd := ofd }).2.toBuf = [] ∧ (ClientPf.plQuit w { c with fd := ofd }).2.quit = true ∧
    (ClientPf.plQuit w { c with fd := ofd }).1.sys =
      w.sys ++ [Sys.write ofd (c.toBuf ++ ClientPf.render [ClientPf.item101]) false (capOf w ofd < ((c.toBuf ++ ClientPf.render [ClientPf.item101]).length : Int))] := by
  obtain ⟨⟨hq, h⟩, _⟩ := ClientPf.plQuit_spec w { c with fd := ofd }
  rcases h with ⟨h1, _⟩ | ⟨_, h2, h3⟩
  · exact absurd h1 hcap
  · exact ⟨h2, hq, h3⟩

end Pm.Daemon.Stdio
