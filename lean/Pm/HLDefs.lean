import Pm.Sort2
/-! Well-formedness predicates shared by the C14 helper modules (`HLMore`, `SortF`, `RoundTrip`).
    Definitions only; do not change once other modules import this file. -/
namespace Pm

/-- every range is a single name or has `lo ≤ hi` (same as `Pm.Props.C14.WF`) -/
def HWF (hl : Hostlist) : Prop := ∀ t ∈ hl, t.single = true ∨ t.lo ≤ t.hi

/-- the shape every constructor of the library produces: a single name is stored with `lo = hi = 0`
    (`hostrange_create_single`), a numeric range has `lo ≤ hi` -/
def HostRange.WFS (r : HostRange) : Prop :=
  (r.single = true ∧ r.lo = 0 ∧ r.hi = 0) ∨ (r.single = false ∧ r.lo ≤ r.hi)

instance (r : HostRange) : Decidable r.WFS := by unfold HostRange.WFS; exact inferInstance

/-- strong well-formedness of a list: every range satisfies `HostRange.WFS` -/
def HWFS (hl : Hostlist) : Prop := ∀ t ∈ hl, t.WFS

theorem HWFS.toHWF {hl : Hostlist} (h : HWFS hl) : HWF hl := by
  intro t ht
  rcases h t ht with ⟨h1, _, _⟩ | ⟨_, h2⟩
  · exact Or.inl h1
  · exact Or.inr h2

end Pm
