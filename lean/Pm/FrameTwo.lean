import Pm.FrameProof
/-! Helper lemmas for C05, two runs of the device phase of one pass that differ in one device `B` (position `j`): the
    relation between the two accumulators that every step preserves, and the resulting non-interference theorem. -/
namespace Pm.Daemon
open Pm Pm.Client
open Pm.Dev2 (Oracle CS Env Dev Action outCid cell SAgree QOn QOff ActsOK NoMis withArgs)

/-- a processed-device entry without its (stale) copy of the store -/
def strip (nd : Bytes × Dev) : Bytes × Dev := (nd.1, withArgs nd.2 [])

/-- what the device's step hands back besides its own state: the oracle remainder, the callbacks, the timeout -/
def stepOut (p : PassIn) (a : DevAcc) (nd : Bytes × Dev) : Oracle × List Pm.Dev2.Out × Option Nat := (devStep p a.w a.oracle nd).2

/-- the two pass inputs agree on what is not addressed to a particular descriptor -/
def SameClock (p p' : PassIn) : Prop := p.now = p'.now ∧ p.con = p'.con ∧ p.soe = p'.soe

/-- the part of the relation between the accumulators of the two runs that the differing device must keep: client `g`
    has the same record (and targets `Q`-nodes only), the stores agree on the entries of `Q`-nodes, and the devices
    processed so far are the same except at position `j` (and except for their stale store copies) -/
structure AccCore (Q : Bytes → Bool) (g j : Nat) (a a' : DevAcc) : Prop where
  cli : cliRec a.w g = cliRec a'.w g
  gok : GOk Q a.w g
  store : SAgree Q a.w.store a'.w.store
  len : a.devs.length = a'.devs.length
  devs : ∀ i, i ≠ j → (a.devs[i]?).map strip = (a'.devs[i]?).map strip

/-- the full relation: moreover the descriptor/pid counters and the oracle are the same -/
structure AccRel (Q : Bytes → Bool) (g j : Nat) (a a' : DevAcc) : Prop extends AccCore Q g j a a' where
  nsock : a.w.nsock = a'.w.nsock
  npair : a.w.npair = a'.w.npair
  nfork : a.w.nfork = a'.w.nfork
  oracle : a.oracle = a'.oracle

theorem devStep_rel (Q : Bytes → Bool) (p p' : PassIn) (a a' : DevAcc) (nd : Bytes × Dev) {g j : Nat}
    (hr : AccRel Q g j a a') (hp : SameClock p p') (hev : SameEvents p p' nd) (hQ : QOn Q nd.2) (hA : ActsOK Q nd.2.acts) :
    ∃ t', devStep p' a'.w a'.oracle nd = ((devStep p a.w a.oracle nd).1.withArgs t', (devStep p a.w a.oracle nd).2) ∧
      SAgree Q (devStep p a.w a.oracle nd).1.dev.args t' := by
  unfold devStep
  rw [← devEnv_reads p p' a.w a'.w nd hr.nsock hr.npair hr.nfork hp.1 hp.2.1 hp.2.2 hev, ← hr.oracle]
  exact Pm.Dev2.postPoll_rel Q { nd.2 with args := a.w.store } (devEnv p a.w nd) a.oracle a'.w.store hr.store hQ hA

theorem getElem?_append_single {α} (l : List α) (x : α) (i : Nat) :
    (l ++ [x])[i]? = if i < l.length then l[i]? else if i = l.length then some x else none := by
  by_cases h : i < l.length
  · simp [h, List.getElem?_append_left h]
  · by_cases h2 : i = l.length
    · subst h2; simp
    · have : l.length + 1 ≤ i := by omega
      simp [h, h2, List.getElem?_eq_none, this]

/-- a healthy device `A` (not at position `j`), stepped in both runs: the relation is kept, and what the step hands back
    (oracle remainder, callbacks, timeout) is the same -/
theorem devPass_rel (Q : Bytes → Bool) (p p' : PassIn) (a a' : DevAcc) (nd : Bytes × Dev) {g j : Nat}
    (hr : AccRel Q g j a a') (hd : a.dead = false) (hd' : a'.dead = false) (hj : a.devs.length ≠ j)
    (hp : SameClock p p') (hev : SameEvents p p' nd) (hQ : QOn Q nd.2) (hA : ActsOK Q nd.2.acts) :
    AccRel Q g j (devPass p a nd) (devPass p' a' nd) ∧ stepOut p a nd = stepOut p' a' nd := by
  obtain ⟨t', h1, h2⟩ := devStep_rel Q p p' a a' nd hr hp hev hQ hA
  have hso : stepOut p a nd = stepOut p' a' nd := by unfold stepOut; rw [h1]
  refine ⟨?_, hso⟩
  rw [devPass_eq, devPass_eq]
  unfold devPass'
  simp only [hd, hd', Bool.false_eq_true, ↓reduceIte]
  rw [h1]
  generalize devStep p a.w a.oracle nd = r at *
  dsimp only
  have hw1 : cliRec (afterStep a.w r.1) g = cliRec (afterStep a'.w (r.1.withArgs t')) g := hr.cli
  have hw2 : SAgree Q (afterStep a.w r.1).store (afterStep a'.w (r.1.withArgs t')).store := h2
  have hw3 : GOk Q (afterStep a.w r.1) g := hr.gok
  obtain ⟨hc, hg⟩ := applyOuts_rel Q _ _ nd.1 r.2.2.1 g hw1 hw2 hw3
  have hs1 := applyOuts_sans (afterStep a.w r.1) nd.1 r.2.2.1
  have hs2 := applyOuts_sans (afterStep a'.w (r.1.withArgs t')) nd.1 r.2.2.1
  generalize applyOuts (afterStep a.w r.1) nd.1 r.2.2.1 = x at *
  generalize applyOuts (afterStep a'.w (r.1.withArgs t')) nd.1 r.2.2.1 = x' at *
  have e1 : x.1.store = r.1.dev.args := by have := congrArg W.store hs1; simpa [sansClients, afterStep] using this
  have e2 : x'.1.store = t' := by have := congrArg W.store hs2; simpa [sansClients, afterStep, Pm.Dev2.CS.withArgs] using this
  have hsys : (r.1.withArgs t').sys = r.1.sys := rfl
  have n1 : x.1.nsock = a.w.nsock + countSock r.1.sys := by have := congrArg W.nsock hs1; simpa [sansClients, afterStep] using this
  have n2 : x'.1.nsock = a'.w.nsock + countSock r.1.sys := by have := congrArg W.nsock hs2; simpa [sansClients, afterStep, hsys] using this
  have m1 : x.1.npair = a.w.npair + countPair r.1.sys := by have := congrArg W.npair hs1; simpa [sansClients, afterStep] using this
  have m2 : x'.1.npair = a'.w.npair + countPair r.1.sys := by have := congrArg W.npair hs2; simpa [sansClients, afterStep, hsys] using this
  have k1 : x.1.nfork = a.w.nfork + countFork r.1.sys := by have := congrArg W.nfork hs1; simpa [sansClients, afterStep] using this
  have k2 : x'.1.nfork = a'.w.nfork + countFork r.1.sys := by have := congrArg W.nfork hs2; simpa [sansClients, afterStep, hsys] using this
  exact {
    cli := hc
    gok := hg
    store := by dsimp only; rw [e1, e2]; exact h2
    nsock := by dsimp only; rw [n1, n2, hr.nsock]
    npair := by dsimp only; rw [m1, m2, hr.npair]
    nfork := by dsimp only; rw [k1, k2, hr.nfork]
    oracle := rfl
    len := by simp [hr.len]
    devs := by
      intro i hi
      dsimp only
      rw [getElem?_append_single, getElem?_append_single, ← hr.len]
      by_cases h : i < a.devs.length
      · simp only [h, ↓reduceIte]; exact hr.devs i hi
      · by_cases h2 : i = a.devs.length
        · subst h2; simp only [Nat.lt_irrefl, ↓reduceIte]; rfl
        · simp only [h, h2, ↓reduceIte] }

/-- the differing device `B` (position `j`), stepped in each run from its own state: the relation is kept provided
    client `g` has nothing queued on it, `Q` contains none of its nodes, and it leaves the same counters and oracle -/
theorem devPass_relB (Q : Bytes → Bool) (p p' : PassIn) (a a' : DevAcc) (nd nd' : Bytes × Dev) {g j : Nat}
    (hr : AccCore Q g j a a') (hj : a.devs.length = j) (hg : g ≠ 0)
    (hq : ∀ x ∈ nd.2.acts, x.clientId ≠ g) (hq' : ∀ x ∈ nd'.2.acts, x.clientId ≠ g)
    (hQ : QOff Q nd.2) (hQ' : QOff Q nd'.2)
    (h1 : (devPass p a nd).w.nsock = (devPass p' a' nd').w.nsock) (h2 : (devPass p a nd).w.npair = (devPass p' a' nd').w.npair)
    (h3 : (devPass p a nd).w.nfork = (devPass p' a' nd').w.nfork) (ho : (devPass p a nd).oracle = (devPass p' a' nd').oracle) :
    AccRel Q g j (devPass p a nd) (devPass p' a' nd') where
  cli := by rw [devPass_client p a nd g hg hq, devPass_client p' a' nd' g hg hq']; exact hr.cli
  gok := by
    intro c hc k hk
    rw [devPass_client p a nd g hg hq] at hc
    exact hr.gok c hc k hk
  store := by
    intro al
    rw [devPass_store_nodes p a nd Q hQ al, devPass_store_nodes p' a' nd' Q hQ' al]
    exact hr.store al
  nsock := h1
  npair := h2
  nfork := h3
  oracle := ho
  len := by rw [devPass_devs_eq, devPass_devs_eq]; simp [hr.len]
  devs := by
    intro i hi
    rw [devPass_devs_eq, devPass_devs_eq, getElem?_append_single, getElem?_append_single, ← hr.len]
    by_cases h : i < a.devs.length
    · simp only [h, ↓reduceIte]; exact hr.devs i hi
    · have h2 : i ≠ a.devs.length := fun e => hi (e.trans hj)
      simp only [h, h2, ↓reduceIte]

/-! ### the abort flag is sticky -/

theorem devPass_dead_sticky (p : PassIn) (a : DevAcc) (nd : Bytes × Dev) (h : a.dead = true) : (devPass p a nd).dead = true := by
  rw [devPass_dead _ _ _ h]; exact h

theorem foldl_dead_sticky (p : PassIn) (l : List (Bytes × Dev)) (a : DevAcc) (h : a.dead = true) : (l.foldl (devPass p) a).dead = true := by
  induction l generalizing a with
  | nil => exact h
  | cons nd r ih => exact ih _ (devPass_dead_sticky p a nd h)

theorem alive_of_foldl (p : PassIn) (l : List (Bytes × Dev)) (a : DevAcc) (h : (l.foldl (devPass p) a).dead = false) : a.dead = false := by
  cases hd : a.dead with
  | false => rfl
  | true => rw [foldl_dead_sticky p l a hd] at h; exact absurd h (by simp)

/-- a stretch of devices that are the same in both runs (none of them at position `j`) -/
theorem foldl_rel (Q : Bytes → Bool) (p p' : PassIn) (l : List (Bytes × Dev)) (a a' : DevAcc) {g j : Nat}
    (hr : AccRel Q g j a a') (hp : SameClock p p')
    (hd : (l.foldl (devPass p) a).dead = false) (hd' : (l.foldl (devPass p') a').dead = false)
    (hj : j < a.devs.length ∨ a.devs.length + l.length ≤ j)
    (hl : ∀ nd ∈ l, SameEvents p p' nd ∧ QOn Q nd.2 ∧ ActsOK Q nd.2.acts) :
    AccRel Q g j (l.foldl (devPass p) a) (l.foldl (devPass p') a') ∧
    ∀ i nd, l[i]? = some nd → stepOut p (accAt p a l i) nd = stepOut p' (accAt p' a' l i) nd := by
  induction l generalizing a a' with
  | nil => exact ⟨hr, fun i nd h => by simp at h⟩
  | cons x r ih =>
    rw [List.foldl_cons] at hd hd' ⊢
    rw [List.foldl_cons]
    have hx := hl x (by simp)
    have hda := alive_of_foldl p r _ hd
    have hda' := alive_of_foldl p' r _ hd'
    have ha : a.dead = false := by
      cases h : a.dead with
      | false => rfl
      | true => rw [devPass_dead_sticky p a x h] at hda; exact absurd hda (by simp)
    have ha' : a'.dead = false := by
      cases h : a'.dead with
      | false => rfl
      | true => rw [devPass_dead_sticky p' a' x h] at hda'; exact absurd hda' (by simp)
    have hjx : a.devs.length ≠ j := by simp only [List.length_cons] at hj; omega
    obtain ⟨h1, h2⟩ := devPass_rel Q p p' a a' x hr ha ha' hjx hp hx.1 hx.2.1 hx.2.2
    have hlen : (devPass p a x).devs.length = a.devs.length + 1 := by rw [devPass_devs_eq]; simp
    obtain ⟨h3, h4⟩ := ih _ _ h1 hd hd' (by rw [hlen]; simp only [List.length_cons] at hj; omega) (fun nd hnd => hl nd (by simp [hnd]))
    refine ⟨h3, ?_⟩
    intro i nd hi
    cases i with
    | zero => simp at hi; subst hi; simpa using h2
    | succ i => simp at hi; rw [accAt_succ_cons, accAt_succ_cons]; exact h4 i nd hi

/-! ### further oracle answers behind the ones a stretch of devices consumes -/

def withOr (a : DevAcc) (o : Oracle) : DevAcc := { a with oracle := o }

@[simp] theorem withOr_withOr (a : DevAcc) (o o' : Oracle) : withOr (withOr a o) o' = withOr a o' := rfl
@[simp] theorem withOr_oracle (a : DevAcc) (o : Oracle) : (withOr a o).oracle = o := rfl
theorem withOr_self (a : DevAcc) : withOr a a.oracle = a := rfl

theorem devPass_ext (p : PassIn) (a : DevAcc) (nd : Bytes × Dev) (r : List Pm.Dev2.RxCall)
    (h : a.dead = false → NoMis (stepOut p a nd).2.1) :
    devPass p (withOr a (Pm.Dev2.ext a.oracle r)) nd = withOr (devPass p a nd) (Pm.Dev2.ext (devPass p a nd).oracle r) := by
  cases hd : a.dead with
  | true =>
    have hd2 : (withOr a (Pm.Dev2.ext a.oracle r)).dead = true := hd
    rw [devPass_dead p a nd hd, devPass_dead p (withOr a (Pm.Dev2.ext a.oracle r)) nd hd2]
    rfl
  | false =>
    have hx := Pm.Dev2.postPoll_ext { nd.2 with args := a.w.store } (devEnv p a.w nd) a.oracle r (h hd)
    rw [devPass_eq, devPass_eq]
    unfold devPass'
    have hd2 : (withOr a (Pm.Dev2.ext a.oracle r)).dead = false := hd
    simp only [hd, hd2, Bool.false_eq_true, ↓reduceIte]
    have e : devStep p (withOr a (Pm.Dev2.ext a.oracle r)).w (withOr a (Pm.Dev2.ext a.oracle r)).oracle nd
        = Pm.Dev2.PA.ext (devStep p a.w a.oracle nd) r := hx
    rw [e]
    rfl

theorem foldl_ext (p : PassIn) (l : List (Bytes × Dev)) (a : DevAcc) (r : List Pm.Dev2.RxCall)
    (h : ∀ i nd, l[i]? = some nd → (accAt p a l i).dead = false → NoMis (stepOut p (accAt p a l i) nd).2.1) :
    l.foldl (devPass p) (withOr a (Pm.Dev2.ext a.oracle r)) =
      withOr (l.foldl (devPass p) a) (Pm.Dev2.ext (l.foldl (devPass p) a).oracle r) := by
  induction l generalizing a with
  | nil => rfl
  | cons x t ih =>
    rw [List.foldl_cons, List.foldl_cons, devPass_ext p a x r (by simpa using h 0 x rfl)]
    exact ih _ (fun i nd hi => by have := h (i + 1) nd (by simpa using hi); rwa [accAt_succ_cons] at this)

/-! ### the non-interference theorem for the device phase -/

/-- the answers `xs` are exactly what the devices `l` ask the regex oracle when started from `a`: they are never out of
    step with it and use it up -/
def ExactOn (p : PassIn) (a : DevAcc) (l : List (Bytes × Dev)) (xs : List Pm.Dev2.RxCall) : Prop :=
  (∀ i nd, l[i]? = some nd → NoMis (stepOut p (accAt p (withOr a ⟨xs⟩) l i) nd).2.1) ∧
  (l.foldl (devPass p) (withOr a ⟨xs⟩)).oracle.calls = []

theorem AccCore.withOr {Q : Bytes → Bool} {g j : Nat} {a a' : DevAcc} (h : AccCore Q g j a a') (o o' : Oracle) :
    AccCore Q g j (withOr a o) (withOr a' o') := ⟨h.cli, h.gok, h.store, h.len, h.devs⟩

theorem withOr_split (a : DevAcc) (xs r : List Pm.Dev2.RxCall) (h : a.oracle.calls = xs ++ r) :
    a = withOr (withOr a ⟨xs⟩) (Pm.Dev2.ext (withOr a ⟨xs⟩).oracle r) := by
  obtain ⟨w, y, m, t, ⟨calls⟩, d, dd⟩ := a
  simp only at h
  subst h
  rfl

theorem ext_nil (o : Oracle) (r : List Pm.Dev2.RxCall) (h : o.calls = []) : Pm.Dev2.ext o r = ⟨r⟩ := by
  unfold Pm.Dev2.ext; rw [h]; rfl

/-- the stretch `l`, started from `a` whose oracle holds `xs ++ r` where `xs` is exactly what `l` consumes: the same as
    started with `xs` alone, with `r` left over -/
theorem foldl_exact (p : PassIn) (l : List (Bytes × Dev)) (a : DevAcc) (xs r : List Pm.Dev2.RxCall)
    (hx : a.oracle.calls = xs ++ r) (hE : ExactOn p a l xs) :
    l.foldl (devPass p) a = withOr (l.foldl (devPass p) (withOr a ⟨xs⟩)) ⟨r⟩ := by
  have h1 := foldl_ext p l (withOr a ⟨xs⟩) r (fun i nd hi _ => hE.1 i nd hi)
  rw [← withOr_split a xs r hx] at h1
  rw [h1, ext_nil _ _ hE.2]

/-- **Non-interference of the device phase.**  Two runs over device lists `pre ++ B :: post` and `pre ++ B' :: post`. -/
theorem fold_noninterference (Q : Bytes → Bool) (p p' : PassIn) (pre post : List (Bytes × Dev)) (B B' : Bytes × Dev)
    (a0 a0' : DevAcc) (g : Nat) (xp xB xB' xq : List Pm.Dev2.RxCall)
    (hp : SameClock p p')
    (hcore : AccCore Q g pre.length a0 a0') (hdv : a0.devs = [])
    (hn1 : a0.w.nsock = a0'.w.nsock) (hn2 : a0.w.npair = a0'.w.npair) (hn3 : a0.w.nfork = a0'.w.nfork)
    (hx : a0.oracle.calls = xp ++ (xB ++ xq)) (hx' : a0'.oracle.calls = xp ++ (xB' ++ xq))
    (hl : ∀ nd ∈ pre ++ post, SameEvents p p' nd ∧ QOn Q nd.2 ∧ ActsOK Q nd.2.acts)
    (hg : g ≠ 0) (hq : ∀ x ∈ B.2.acts, x.clientId ≠ g) (hq' : ∀ x ∈ B'.2.acts, x.clientId ≠ g)
    (hQ : QOff Q B.2) (hQ' : QOff Q B'.2)
    (hd : ((pre ++ B :: post).foldl (devPass p) a0).dead = false)
    (hd' : ((pre ++ B' :: post).foldl (devPass p') a0').dead = false)
    (E1 : ExactOn p a0 pre xp) (E1' : ExactOn p' a0' pre xp)
    (E2 : ExactOn p (pre.foldl (devPass p) a0) [B] xB) (E2' : ExactOn p' (pre.foldl (devPass p') a0') [B'] xB')
    (hc1 : (devPass p (pre.foldl (devPass p) a0) B).w.nsock = (devPass p' (pre.foldl (devPass p') a0') B').w.nsock)
    (hc2 : (devPass p (pre.foldl (devPass p) a0) B).w.npair = (devPass p' (pre.foldl (devPass p') a0') B').w.npair)
    (hc3 : (devPass p (pre.foldl (devPass p) a0) B).w.nfork = (devPass p' (pre.foldl (devPass p') a0') B').w.nfork) :
    AccRel Q g pre.length ((pre ++ B :: post).foldl (devPass p) a0) ((pre ++ B' :: post).foldl (devPass p') a0') := by
  rw [List.foldl_append, List.foldl_cons] at hd hd' ⊢
  rw [List.foldl_append, List.foldl_cons]
  -- the stretch before B
  have e1 := foldl_exact p pre a0 xp (xB ++ xq) hx E1
  have e1' := foldl_exact p' pre a0' xp (xB' ++ xq) hx' E1'
  have hdB := alive_of_foldl p post _ hd
  have hdB' := alive_of_foldl p' post _ hd'
  have hdX : (pre.foldl (devPass p) a0).dead = false := by
    cases h : (pre.foldl (devPass p) a0).dead with
    | false => rfl
    | true => rw [devPass_dead_sticky p _ B h] at hdB; exact absurd hdB (by simp)
  have hdX' : (pre.foldl (devPass p') a0').dead = false := by
    cases h : (pre.foldl (devPass p') a0').dead with
    | false => rfl
    | true => rw [devPass_dead_sticky p' _ B' h] at hdB'; exact absurd hdB' (by simp)
  have r0 : AccRel Q g pre.length (withOr a0 ⟨xp⟩) (withOr a0' ⟨xp⟩) :=
    { toAccCore := hcore.withOr _ _, nsock := hn1, npair := hn2, nfork := hn3, oracle := rfl }
  have hlen0 : (withOr a0 ⟨xp⟩).devs.length = 0 := by show a0.devs.length = 0; rw [hdv]; rfl
  have r1 := (foldl_rel Q p p' pre _ _ r0 hp (by rw [e1] at hdX; exact hdX) (by rw [e1'] at hdX'; exact hdX')
    (Or.inr (by rw [hlen0]; omega)) (fun nd hnd => hl nd (by simp [hnd]))).1
  generalize hX : pre.foldl (devPass p) (withOr a0 ⟨xp⟩) = X at *
  generalize hX' : pre.foldl (devPass p') (withOr a0' ⟨xp⟩) = X' at *
  -- B itself
  rw [e1] at E2 hc1 hc2 hc3 hd ⊢
  rw [e1'] at E2' hc1 hc2 hc3 hd' ⊢
  have hXlen : X.devs.length = pre.length := by
    rw [← hX, foldl_devs_length, hlen0]; omega
  have e2 : devPass p (withOr X ⟨xB ++ xq⟩) B = withOr (devPass p (withOr X ⟨xB⟩) B) ⟨xq⟩ := by
    have := foldl_exact p [B] (withOr X ⟨xB ++ xq⟩) xB xq rfl E2
    simpa using this
  have e2' : devPass p' (withOr X' ⟨xB' ++ xq⟩) B' = withOr (devPass p' (withOr X' ⟨xB'⟩) B') ⟨xq⟩ := by
    have := foldl_exact p' [B'] (withOr X' ⟨xB' ++ xq⟩) xB' xq rfl E2'
    simpa using this
  have r2 : AccRel Q g pre.length (devPass p (withOr X ⟨xB ++ xq⟩) B) (devPass p' (withOr X' ⟨xB' ++ xq⟩) B') :=
    { toAccCore := (devPass_relB Q p p' (withOr X ⟨xB ++ xq⟩) (withOr X' ⟨xB' ++ xq⟩) B B'
        (r1.toAccCore.withOr ⟨xB ++ xq⟩ ⟨xB' ++ xq⟩) hXlen hg hq hq' hQ hQ' hc1 hc2 hc3
        (by rw [e2, e2']; rfl)).toAccCore,
      nsock := hc1, npair := hc2, nfork := hc3, oracle := by rw [e2, e2']; rfl }
  -- the stretch after B
  have hYlen : (devPass p (withOr X ⟨xB ++ xq⟩) B).devs.length = pre.length + 1 := by
    rw [devPass_devs_eq]
    have : (withOr X ⟨xB ++ xq⟩).devs.length = pre.length := hXlen
    simp [this]
  exact (foldl_rel Q p p' post _ _ r2 hp hd hd' (Or.inl (by rw [hYlen]; omega)) (fun nd hnd => hl nd (by simp [hnd]))).1


/-- the same for `daemonPass`, the hypotheses being stated on the worlds `w0`, `w0'` the client phase of the pass
    (`cli_post_poll`) leaves -/
theorem pass_noninterference (Q : Bytes → Bool) (w w' : W) (p p' : PassIn) (w0 w0' : W)
    (pre post : List (Bytes × Dev)) (B B' : Bytes × Dev) (g : Nat) (xp xB xB' xq : List Pm.Dev2.RxCall)
    (hw0 : cliPostPoll w p.acc p.envs = w0) (hw0' : cliPostPoll w' p'.acc p'.envs = w0')
    (hex : w0.exited = false) (hex' : w0'.exited = false)
    (hdevs : w0.devs = pre ++ B :: post) (hdevs' : w0'.devs = pre ++ B' :: post)
    (hp : SameClock p p')
    (hcli : cliRec w0 g = cliRec w0' g) (hgok : GOk Q w0 g) (hst : SAgree Q w0.store w0'.store)
    (hn1 : w0.nsock = w0'.nsock) (hn2 : w0.npair = w0'.npair) (hn3 : w0.nfork = w0'.nfork)
    (hx : w0.pendingX = xp ++ (xB ++ xq)) (hx' : w0'.pendingX = xp ++ (xB' ++ xq))
    (hl : ∀ nd ∈ pre ++ post, SameEvents p p' nd ∧ QOn Q nd.2 ∧ ActsOK Q nd.2.acts)
    (hg : g ≠ 0) (hq : ∀ x ∈ B.2.acts, x.clientId ≠ g) (hq' : ∀ x ∈ B'.2.acts, x.clientId ≠ g)
    (hQ : QOff Q B.2) (hQ' : QOff Q B'.2)
    (hd : ((pre ++ B :: post).foldl (devPass p) (acc0 w0)).dead = false)
    (hd' : ((pre ++ B' :: post).foldl (devPass p') (acc0 w0')).dead = false)
    (E1 : ExactOn p (acc0 w0) pre xp) (E1' : ExactOn p' (acc0 w0') pre xp)
    (E2 : ExactOn p (pre.foldl (devPass p) (acc0 w0)) [B] xB) (E2' : ExactOn p' (pre.foldl (devPass p') (acc0 w0')) [B'] xB')
    (hc1 : (devPass p (pre.foldl (devPass p) (acc0 w0)) B).w.nsock = (devPass p' (pre.foldl (devPass p') (acc0 w0')) B').w.nsock)
    (hc2 : (devPass p (pre.foldl (devPass p) (acc0 w0)) B).w.npair = (devPass p' (pre.foldl (devPass p') (acc0 w0')) B').w.npair)
    (hc3 : (devPass p (pre.foldl (devPass p) (acc0 w0)) B).w.nfork = (devPass p' (pre.foldl (devPass p') (acc0 w0')) B').w.nfork) :
    cliRec (daemonPass w p).1 g = cliRec (daemonPass w' p').1 g ∧
    (∀ i, i ≠ pre.length → ((daemonPass w p).1.devs[i]?).map strip = ((daemonPass w' p').1.devs[i]?).map strip) ∧
    SAgree Q (daemonPass w p).1.store (daemonPass w' p').1.store := by
  have hr := fold_noninterference Q p p' pre post B B' (acc0 w0) (acc0 w0') g xp xB xB' xq hp
    ⟨hcli, hgok, hst, rfl, fun _ _ => rfl⟩ rfl hn1 hn2 hn3 hx hx' hl hg hq hq' hQ hQ' hd hd' E1 E1' E2 E2' hc1 hc2 hc3
  rw [daemonPass_fst, daemonPass_fst]
  dsimp only
  rw [hw0, hw0']
  simp only [hex, hex', Bool.false_eq_true, ↓reduceIte]
  rw [hdevs, hdevs']
  exact ⟨hr.cli, hr.devs, hr.store⟩

/-! ### the poll timeout is the minimum of the devices' wake-up times: no device can postpone another's wake-up -/

/-- the optional timeout `x` is set and at most `t` -/
def leOpt (x : Option Nat) (t : Nat) : Prop := ∃ t', x = some t' ∧ t' ≤ t

theorem leOpt_minOpt_right (x : Option Nat) (t : Nat) : leOpt (minOpt x (some t)) t := by
  cases x with
  | none => exact ⟨t, rfl, Nat.le_refl _⟩
  | some y => exact ⟨min y t, rfl, Nat.min_le_right _ _⟩

theorem leOpt_minOpt_left (x y : Option Nat) (t : Nat) (h : leOpt x t) : leOpt (minOpt x y) t := by
  obtain ⟨t', rfl, ht⟩ := h
  cases y with
  | none => exact ⟨t', rfl, ht⟩
  | some z => exact ⟨min t' z, rfl, Nat.le_trans (Nat.min_le_left _ _) ht⟩

theorem devPass_tmo (p : PassIn) (a : DevAcc) (nd : Bytes × Dev) :
    (devPass p a nd).tmo = if a.dead then a.tmo else minOpt a.tmo (stepOut p a nd).2.2 := by
  cases hd : a.dead with
  | true => rw [devPass_dead _ _ _ hd]; rfl
  | false => rw [devPass_eq]; unfold devPass'; simp only [hd, Bool.false_eq_true, ↓reduceIte]; rfl

theorem devPass_tmo_keeps (p : PassIn) (a : DevAcc) (nd : Bytes × Dev) (t : Nat) (h : leOpt a.tmo t) : leOpt (devPass p a nd).tmo t := by
  rw [devPass_tmo]
  split
  · exact h
  · exact leOpt_minOpt_left _ _ _ h

theorem foldl_tmo_keeps (p : PassIn) (l : List (Bytes × Dev)) (a : DevAcc) (t : Nat) (h : leOpt a.tmo t) :
    leOpt (l.foldl (devPass p) a).tmo t := by
  induction l generalizing a with
  | nil => exact h
  | cons x r ih => exact ih _ (devPass_tmo_keeps p a x t h)

/-- whatever wake-up time a device registers in its turn, the timeout the pass ends with is set and not later -/
theorem foldl_tmo_le (p : PassIn) (l : List (Bytes × Dev)) (a : DevAcc) (i : Nat) (nd : Bytes × Dev) (t : Nat)
    (hi : l[i]? = some nd) (hd : (accAt p a l i).dead = false) (ht : (stepOut p (accAt p a l i) nd).2.2 = some t) :
    leOpt (l.foldl (devPass p) a).tmo t := by
  induction l generalizing a i with
  | nil => simp at hi
  | cons x r ih =>
    rw [List.foldl_cons]
    cases i with
    | zero =>
      simp at hi; subst hi
      simp only [accAt_zero] at hd ht
      apply foldl_tmo_keeps
      rw [devPass_tmo, hd, ht]
      exact leOpt_minOpt_right _ _
    | succ i =>
      simp at hi
      rw [accAt_succ_cons] at hd ht
      exact ih _ i hi hd ht

/-! ### the healthy devices fire the same callbacks and register the same wake-up time in both runs -/

theorem accAt_ext (p : PassIn) (l : List (Bytes × Dev)) (a : DevAcc) (r : List Pm.Dev2.RxCall) (i : Nat)
    (h : ∀ k nd, l[k]? = some nd → (accAt p a l k).dead = false → NoMis (stepOut p (accAt p a l k) nd).2.1) :
    accAt p (withOr a (Pm.Dev2.ext a.oracle r)) l i = withOr (accAt p a l i) (Pm.Dev2.ext (accAt p a l i).oracle r) := by
  induction l generalizing a i with
  | nil => simp [accAt]
  | cons x t ih =>
    cases i with
    | zero => simp
    | succ i =>
      rw [accAt_succ_cons, accAt_succ_cons, devPass_ext p a x r (by simpa using h 0 x rfl)]
      exact ih _ i (fun k nd hk => by have := h (k + 1) nd (by simpa using hk); rwa [accAt_succ_cons] at this)

theorem stepOut_ext (p : PassIn) (a : DevAcc) (nd : Bytes × Dev) (r : List Pm.Dev2.RxCall) (h : NoMis (stepOut p a nd).2.1) :
    stepOut p (withOr a (Pm.Dev2.ext a.oracle r)) nd = (Pm.Dev2.ext (stepOut p a nd).1 r, (stepOut p a nd).2) := by
  have hx := Pm.Dev2.postPoll_ext { nd.2 with args := a.w.store } (devEnv p a.w nd) a.oracle r h
  unfold stepOut
  have e : devStep p (withOr a (Pm.Dev2.ext a.oracle r)).w (withOr a (Pm.Dev2.ext a.oracle r)).oracle nd
      = Pm.Dev2.PA.ext (devStep p a.w a.oracle nd) r := hx
  rw [e]
  rfl

/-- under the hypotheses of `fold_noninterference`: every device before `B` fires the same callbacks and registers the
    same timeout in both runs, and every device after `B` moreover leaves the same oracle remainder -/
theorem fold_noninterference_steps (Q : Bytes → Bool) (p p' : PassIn) (pre post : List (Bytes × Dev)) (B B' : Bytes × Dev)
    (a0 a0' : DevAcc) (g : Nat) (xp xB xB' xq : List Pm.Dev2.RxCall)
    (hp : SameClock p p')
    (hcore : AccCore Q g pre.length a0 a0') (hdv : a0.devs = [])
    (hn1 : a0.w.nsock = a0'.w.nsock) (hn2 : a0.w.npair = a0'.w.npair) (hn3 : a0.w.nfork = a0'.w.nfork)
    (hx : a0.oracle.calls = xp ++ (xB ++ xq)) (hx' : a0'.oracle.calls = xp ++ (xB' ++ xq))
    (hl : ∀ nd ∈ pre ++ post, SameEvents p p' nd ∧ QOn Q nd.2 ∧ ActsOK Q nd.2.acts)
    (hg : g ≠ 0) (hq : ∀ x ∈ B.2.acts, x.clientId ≠ g) (hq' : ∀ x ∈ B'.2.acts, x.clientId ≠ g)
    (hQ : QOff Q B.2) (hQ' : QOff Q B'.2)
    (hd : ((pre ++ B :: post).foldl (devPass p) a0).dead = false)
    (hd' : ((pre ++ B' :: post).foldl (devPass p') a0').dead = false)
    (E1 : ExactOn p a0 pre xp) (E1' : ExactOn p' a0' pre xp)
    (E2 : ExactOn p (pre.foldl (devPass p) a0) [B] xB) (E2' : ExactOn p' (pre.foldl (devPass p') a0') [B'] xB')
    (hc1 : (devPass p (pre.foldl (devPass p) a0) B).w.nsock = (devPass p' (pre.foldl (devPass p') a0') B').w.nsock)
    (hc2 : (devPass p (pre.foldl (devPass p) a0) B).w.npair = (devPass p' (pre.foldl (devPass p') a0') B').w.npair)
    (hc3 : (devPass p (pre.foldl (devPass p) a0) B).w.nfork = (devPass p' (pre.foldl (devPass p') a0') B').w.nfork) :
    (∀ i nd, pre[i]? = some nd → (stepOut p (accAt p a0 pre i) nd).2 = (stepOut p' (accAt p' a0' pre i) nd).2) ∧
    (∀ i nd, post[i]? = some nd →
      stepOut p (accAt p (devPass p (pre.foldl (devPass p) a0) B) post i) nd =
      stepOut p' (accAt p' (devPass p' (pre.foldl (devPass p') a0') B') post i) nd) := by
  rw [List.foldl_append, List.foldl_cons] at hd hd'
  have e1 := foldl_exact p pre a0 xp (xB ++ xq) hx E1
  have e1' := foldl_exact p' pre a0' xp (xB' ++ xq) hx' E1'
  have hdB := alive_of_foldl p post _ hd
  have hdB' := alive_of_foldl p' post _ hd'
  have hdX : (pre.foldl (devPass p) a0).dead = false := by
    cases h : (pre.foldl (devPass p) a0).dead with
    | false => rfl
    | true => rw [devPass_dead_sticky p _ B h] at hdB; exact absurd hdB (by simp)
  have hdX' : (pre.foldl (devPass p') a0').dead = false := by
    cases h : (pre.foldl (devPass p') a0').dead with
    | false => rfl
    | true => rw [devPass_dead_sticky p' _ B' h] at hdB'; exact absurd hdB' (by simp)
  have r0 : AccRel Q g pre.length (withOr a0 ⟨xp⟩) (withOr a0' ⟨xp⟩) :=
    { toAccCore := hcore.withOr _ _, nsock := hn1, npair := hn2, nfork := hn3, oracle := rfl }
  have hlen0 : (withOr a0 ⟨xp⟩).devs.length = 0 := by show a0.devs.length = 0; rw [hdv]; rfl
  have rel1 := foldl_rel Q p p' pre _ _ r0 hp (by rw [e1] at hdX; exact hdX) (by rw [e1'] at hdX'; exact hdX')
    (Or.inr (by rw [hlen0]; omega)) (fun nd hnd => hl nd (by simp [hnd]))
  constructor
  · intro i nd hi
    have s1 := withOr_split a0 xp (xB ++ xq) hx
    have s1' := withOr_split a0' xp (xB' ++ xq) hx'
    have a1 := accAt_ext p pre (withOr a0 ⟨xp⟩) (xB ++ xq) i (fun k x hk _ => E1.1 k x hk)
    have a1' := accAt_ext p' pre (withOr a0' ⟨xp⟩) (xB' ++ xq) i (fun k x hk _ => E1'.1 k x hk)
    rw [← s1] at a1
    rw [← s1'] at a1'
    rw [a1, a1', stepOut_ext p _ nd _ (E1.1 i nd hi), stepOut_ext p' _ nd _ (E1'.1 i nd hi)]
    show (stepOut p (accAt p (withOr a0 ⟨xp⟩) pre i) nd).2 = (stepOut p' (accAt p' (withOr a0' ⟨xp⟩) pre i) nd).2
    rw [rel1.2 i nd hi]
  · -- the accumulators after B are related as in `fold_noninterference`
    have r1 := rel1.1
    generalize hX : pre.foldl (devPass p) (withOr a0 ⟨xp⟩) = X at *
    generalize hX' : pre.foldl (devPass p') (withOr a0' ⟨xp⟩) = X' at *
    rw [e1] at E2 hc1 hc2 hc3 hd ⊢
    rw [e1'] at E2' hc1 hc2 hc3 hd' ⊢
    have hXlen : X.devs.length = pre.length := by
      rw [← hX, foldl_devs_length, hlen0]; omega
    have e2 : devPass p (withOr X ⟨xB ++ xq⟩) B = withOr (devPass p (withOr X ⟨xB⟩) B) ⟨xq⟩ := by
      have := foldl_exact p [B] (withOr X ⟨xB ++ xq⟩) xB xq rfl E2
      simpa using this
    have e2' : devPass p' (withOr X' ⟨xB' ++ xq⟩) B' = withOr (devPass p' (withOr X' ⟨xB'⟩) B') ⟨xq⟩ := by
      have := foldl_exact p' [B'] (withOr X' ⟨xB' ++ xq⟩) xB' xq rfl E2'
      simpa using this
    have r2 : AccRel Q g pre.length (devPass p (withOr X ⟨xB ++ xq⟩) B) (devPass p' (withOr X' ⟨xB' ++ xq⟩) B') :=
      { toAccCore := (devPass_relB Q p p' (withOr X ⟨xB ++ xq⟩) (withOr X' ⟨xB' ++ xq⟩) B B'
          (r1.toAccCore.withOr ⟨xB ++ xq⟩ ⟨xB' ++ xq⟩) hXlen hg hq hq' hQ hQ' hc1 hc2 hc3
          (by rw [e2, e2']; rfl)).toAccCore,
        nsock := hc1, npair := hc2, nfork := hc3, oracle := by rw [e2, e2']; rfl }
    have hYlen : (devPass p (withOr X ⟨xB ++ xq⟩) B).devs.length = pre.length + 1 := by
      rw [devPass_devs_eq]
      have : (withOr X ⟨xB ++ xq⟩).devs.length = pre.length := hXlen
      simp [this]
    exact (foldl_rel Q p p' post _ _ r2 hp hd hd' (Or.inl (by rw [hYlen]; omega)) (fun nd hnd => hl nd (by simp [hnd]))).2


end Pm.Daemon
