import Pm.TwoRun
/-! C11, back-pressure as a statement about two runs.

    Run 1: the client on descriptor `fs` (id `s`) behaves — its descriptor is reported writable now and then and takes
    bytes.  Run 2: the same pass inputs, except that `fs` is never reported writable (the peer has stopped reading); the
    client's output piles up in its buffer.  Everything else is the same in both runs, pass by pass: every other client's
    record, the bytes written to every other descriptor, every device (queue, buffers, connection state), the arglist
    store, what every device does in every pass (its system calls, callbacks, registered time-out) — in particular the
    completions carrying `s`'s own id.

    This file: the relation between the two worlds (`ARel`), one pass (`daemonPass_stuck`), any number of passes. -/
namespace Pm.Daemon.TwoRun
open Pm Pm.Client Pm.Daemon Pm.Daemon.Isolation
open Pm.Dev2 (Dev Oracle)

/-- "the descriptor is `fs`" -/
def isFd (fs : Nat) : Nat → Bool := fun fd => fd == fs

/-! ### the events of the stuck descriptor -/

/-- the events the two pass inputs report for the descriptor `fs`.  First run (`x`): nothing but readable/writable (no hang-up,
    error or invalid-descriptor bit), and a descriptor reported writable takes at least one byte (`cap > 0`: the peer reads).
    Second run (`x'`): the same, but never writable (`rev % 2` keeps the readable bit only); what is read is the same. -/
def StuckEv (e e' : Option FdEnv) : Prop :=
  match e, e' with
  | none, none => True
  | some x, some x' => x.rev < 4 ∧ x'.rev = x.rev % 2 ∧ x'.rk = x.rk ∧ x'.data = x.data ∧ (2 ≤ x.rev → 0 < x.cap)
  | _, _ => False

theorem stuck_revs (c c' : Cli) (x x' : FdEnv) (hq : c'.quit = c.quit) (h4 : x.rev < 4) (h2 : x'.rev = x.rev % 2) :
    (ClientPf.cpRev c' (some x') &&& 8 != 0 || ClientPf.cpRev c' (some x') &&& 16 != 0) = (ClientPf.cpRev c (some x) &&& 8 != 0 || ClientPf.cpRev c (some x) &&& 16 != 0) ∧
    (ClientPf.cpRev c' (some x') &&& 1 != 0 || ClientPf.cpRev c' (some x') &&& 4 != 0) = (ClientPf.cpRev c (some x) &&& 1 != 0 || ClientPf.cpRev c (some x) &&& 4 != 0) ∧
    (ClientPf.cpRev c' (some x') &&& 2 != 0) = false ∧
    ((ClientPf.cpRev c (some x) &&& 2 != 0) = true → 2 ≤ x.rev) := by
  unfold ClientPf.cpRev
  dsimp only
  rw [hq, h2]
  generalize c.toBuf.isEmpty = b1
  generalize c'.toBuf.isEmpty = b2
  generalize c.quit = q
  obtain ⟨fd, rev, rk, data, cap⟩ := x
  dsimp only at h4 ⊢
  have : rev = 0 ∨ rev = 1 ∨ rev = 2 ∨ rev = 3 := by omega
  rcases this with rfl | rfl | rfl | rfl <;> cases q <;> cases b1 <;> cases b2 <;> decide

section Stuck
variable {fs : Nat} {als : List (Name × List Name)}

/-- **the turn of the stuck client in both runs** -/
theorem stuck_turn (w w' : W) (c c' : Cli) (e e' : Option FdEnv)
    (h : CRel (isFd fs) DEq SEq als w w') (hc : RecRel (isFd fs) c c') (hfd : c.fd = fs) (hst : StuckEv e e')
    (hcap : capOf w fs = (e.map (·.cap)).getD 0) :
    PassOut (isFd fs) DEq SEq als (clientPass w c e) (clientPass w' c' e') := by
  have hF : isFd fs c.fd = true := by simp [isFd, hfd]
  cases e with
  | none =>
    cases e' with
    | some _ => simp [StuckEv] at hst
    | none =>
      refine clientPass_rel hSEq w w' c c' none none h hc rfl rfl rfl (fun hh => by rw [hF] at hh; cases hh) (fun _ => ⟨by simp [ClientPf.cpRev], ?_⟩)
        (fun l _ => lineOK_eq als l)
      intro hh; simp [ClientPf.cpRev] at hh
  | some x =>
    cases e' with
    | none => simp [StuckEv] at hst
    | some x' =>
      obtain ⟨h4, h2, h3, h5, h6⟩ := hst
      obtain ⟨r1, r2, r3, r4⟩ := stuck_revs c c' x x' hc.quit h4 h2
      refine clientPass_rel hSEq w w' c c' (some x) (some x') h hc r1 r2 ?_ (fun hh => by rw [hF] at hh; cases hh)
        (fun _ => ⟨r3, fun hw _ => ?_⟩) (fun l _ => lineOK_eq als l)
      · simp [SameIn, h3, h5]
      · rw [hfd, hcap]
        exact h6 (r4 hw)

/-- **the loop of `cli_post_poll` in both runs**, over tables related entry by entry: at most one client sits on the descriptor
    `fs`; all others are served identically -/
theorem cliLoop_stuck (s : Nat) (envs envs' : List FdEnv) (T T' : List Cli) (w w' : W)
    (h : CRel (isFd fs) DEq SEq als w w') (ht : L2 (RecRel (isFd fs)) w.clients w'.clients) (hT : L2 (RecRel (isFd fs)) T T')
    (hnd : (T.map (·.id)).Nodup) (hfd : ∀ c ∈ T, c.fd = fs → c.id = s)
    (hev : ∀ fd, fd ≠ fs → envs'.find? (·.fd == fd) = envs.find? (·.fd == fd))
    (hst : StuckEv (envs.find? (·.fd == fs)) (envs'.find? (·.fd == fs)))
    (hcap : capOf w fs = ((envs.find? (·.fd == fs)).map (·.cap)).getD 0) :
    CRel (isFd fs) DEq SEq als (T.foldl (ClientPf.cliStep envs) w) (T'.foldl (ClientPf.cliStep envs') w') ∧
    L2 (RecRel (isFd fs)) (T.foldl (ClientPf.cliStep envs) w).clients (T'.foldl (ClientPf.cliStep envs') w').clients := by
  have hothers : ∀ l : List Cli, (∀ c ∈ l, c.fd ≠ fs) → ∀ c ∈ l, isFd fs c.fd = false ∧ envs'.find? (·.fd == c.fd) = envs.find? (·.fd == c.fd) ∧
      ∀ x ∈ turnLines c (envs.find? (·.fd == c.fd)), LineOK DEq als x :=
    fun l hl c hc => ⟨by simpa [isFd] using hl c hc, hev c.fd (hl c hc), fun x _ => lineOK_eq als x⟩
  by_cases hex : ∃ c ∈ T, c.fd = fs
  · obtain ⟨c, hcT, hcfd⟩ := hex
    obtain ⟨pre, post, rfl⟩ := List.append_of_mem hcT
    obtain ⟨pre', c', post', rfl, hp1, hc, hp2⟩ := L2.split pre c post T' hT
    have hcid : c.id = s := hfd c hcT hcfd
    rw [List.map_append, List.map_cons, List.nodup_append] at hnd
    obtain ⟨_, hnd2, hnd3⟩ := hnd
    rw [List.nodup_cons] at hnd2
    have hpre : ∀ x ∈ pre, x.fd ≠ fs := by
      intro x hx e
      have := hfd x (by simp [hx]) e
      exact hnd3 x.id (List.mem_map.mpr ⟨x, hx, rfl⟩) c.id (by simp) (by rw [this, hcid])
    have hpost : ∀ x ∈ post, x.fd ≠ fs := by
      intro x hx e
      have := hfd x (by simp [hx]) e
      exact hnd2.1 (by rw [hcid, ← this]; exact List.mem_map.mpr ⟨x, hx, rfl⟩)
    have e1 : pre' = pre := L2.eq_of_off hp1 (fun x hx => by simpa [isFd] using hpre x hx)
    have e2 : post' = post := L2.eq_of_off hp2 (fun x hx => by simpa [isFd] using hpost x hx)
    rw [e1, e2, List.foldl_append, List.foldl_append, List.foldl_cons, List.foldl_cons]
    obtain ⟨g1, g2⟩ := foldl_cliStep_rel hSEq envs envs' pre (hothers pre hpre) w w' h ht
    have hcap1 : capOf (pre.foldl (ClientPf.cliStep envs) w) fs = capOf w fs := by
      have := (foldl_cliStep_frame envs c pre w
        (fun x hx e => hnd3 x.id (List.mem_map.mpr ⟨x, hx, rfl⟩) c.id (by simp) e)
        (fun x hx => by rw [hcfd]; exact hpre x hx)).2.2
      rw [hcfd] at this; exact this
    obtain ⟨g3, g4⟩ := cliStep_rel envs envs' _ _ c c' g1 g2 hc (fun _ => by
      rw [hc.fd, hcfd]
      exact stuck_turn _ _ c c' _ _ g1 hc hcfd hst (by rw [hcap1]; exact hcap))
    exact foldl_cliStep_rel hSEq envs envs' post (hothers post hpost) _ _ g3 g4
  · have hall : ∀ c ∈ T, c.fd ≠ fs := fun c hc e => hex ⟨c, hc, e⟩
    have e1 : T' = T := L2.eq_of_off hT (fun x hx => by simpa [isFd] using hall x hx)
    rw [e1]
    exact foldl_cliStep_rel hSEq envs envs' T (hothers T hall) w w' h ht

end Stuck

/-! ### the relation between the two worlds, and the client phase of one pass -/

/-- the world without the client table, the system-call log and the write capacities -/
def coreOf (w : W) : W := { w with clients := [], sys := [], caps := [] }

theorem coreOf_mk {u u' : W} (h1 : u'.cfg = u.cfg) (h2 : u'.devs = u.devs) (h3 : u'.specs = u.specs) (h4 : u'.store = u.store)
    (h5 : u'.alNext = u.alNext) (h6 : u'.exited = u.exited) (h7 : ctrs u' = ctrs u) : coreOf u' = coreOf u := by
  obtain ⟨a1, a2, a3, a4, a5, a6, a7, a8, a9, a10, a11, a12, a13, a14, a15, a16⟩ := u
  obtain ⟨b1, b2, b3, b4, b5, b6, b7, b8, b9, b10, b11, b12, b13, b14, b15, b16⟩ := u'
  simp only [ctrs, Prod.mk.injEq] at h1 h2 h3 h4 h5 h6 h7
  obtain ⟨c1, c2, c3, c4, c5, c6, c7⟩ := h7
  subst h1 h2 h3 h4 h5 h6 c1 c2 c3 c4 c5 c6 c7
  rfl

/-- the relation between the worlds of the two runs, between passes: everything is the same except the client table, which is
    the same entry by entry except for the output buffer (and blocking flag) of the client on `fs`, and the log of the last
    pass, which is the same on every other descriptor.  (`sfd`, `fresh`: only client `s` sits on `fs`, now and later.) -/
structure ARel (s fs : Nat) (w w' : W) : Prop where
  core : coreOf w' = coreOf w
  tab : L2 (RecRel (isFd fs)) w.clients w'.clients
  sfd : ∀ c ∈ w.clients, c.fd = fs → c.id = s
  fresh : fs < 1000 + w.nacc
  sys : w'.sys.filter (offF (isFd fs)) = w.sys.filter (offF (isFd fs))

/-- what is assumed of the two inputs of one pass: the same clock, `accept` verdict and `connect()` answers; the same events
    on every descriptor but `fs`; on `fs`, `StuckEv`; no device sits on the number `fs` (descriptors of clients and devices
    are different open descriptors; the model draws them from two counters and does not know) -/
structure StuckPass (fs : Nat) (w : W) (p p' : PassIn) : Prop where
  now : p'.now = p.now
  acc : p'.acc = p.acc
  con : p'.con = p.con
  soe : p'.soe = p.soe
  others : ∀ fd, fd ≠ fs → p'.envs.find? (·.fd == fd) = p.envs.find? (·.fd == fd)
  stuck : StuckEv (p.envs.find? (·.fd == fs)) (p'.envs.find? (·.fd == fs))
  devfd : ∀ nd ∈ w.devs, nd.2.fd ≠ some fs

/-- the pairs (descriptor `fs` ↦ id `s`) through the loop -/
theorem cliStep_sfd (s fs : Nat) (envs : List FdEnv) (w : W) (c0 : Cli) (h : ∀ c ∈ w.clients, c.fd = fs → c.id = s)
    (h0 : c0.fd = fs → c0.id = s) : ∀ c ∈ (ClientPf.cliStep envs w c0).clients, c.fd = fs → c.id = s := by
  rcases cliStep_cases envs w c0 with ⟨_, e⟩ | ⟨_, ext, hp, ⟨c1, hc1, e⟩ | ⟨_, e⟩⟩
  · rw [e]; exact h
  · rw [e]
    obtain ⟨hid, hfd, _⟩ := hp.alive c1 hc1
    intro c hc
    simp only [List.mem_map] at hc
    obtain ⟨x, hx, rfl⟩ := hc
    split
    · intro hh; rw [hid]; exact h0 (by rw [← hfd]; exact hh)
    · exact h x hx
  · rw [e]
    intro c hc
    exact h c (List.mem_filter.mp hc).1

theorem foldl_cliStep_sfd (s fs : Nat) (envs : List FdEnv) (l : List Cli) (w : W) (h : ∀ c ∈ w.clients, c.fd = fs → c.id = s)
    (hl : ∀ c ∈ l, c.fd = fs → c.id = s) : ∀ c ∈ (l.foldl (ClientPf.cliStep envs) w).clients, c.fd = fs → c.id = s := by
  induction l generalizing w with
  | nil => exact h
  | cons c0 r ih =>
    rw [List.foldl_cons]
    exact ih _ (cliStep_sfd s fs envs w c0 h (hl c0 (by simp))) (fun c hc => hl c (by simp [hc]))

theorem coreOf_fields {w w' : W} (h : coreOf w' = coreOf w) :
    w'.cfg = w.cfg ∧ w'.devs = w.devs ∧ w'.specs = w.specs ∧ w'.store = w.store ∧ w'.alNext = w.alNext ∧
    w'.exited = w.exited ∧ ctrs w' = ctrs w := by
  have := h
  have d1 : (coreOf w').cfg = (coreOf w).cfg := congrArg W.cfg this
  have d2 : (coreOf w').devs = (coreOf w).devs := congrArg W.devs this
  have d3 : (coreOf w').specs = (coreOf w).specs := congrArg W.specs this
  have d4 : (coreOf w').store = (coreOf w).store := congrArg W.store this
  have d5 : (coreOf w').alNext = (coreOf w).alNext := congrArg W.alNext this
  have d6 : (coreOf w').exited = (coreOf w).exited := congrArg W.exited this
  refine ⟨d1, d2, d3, d4, d5, d6, ?_⟩
  have e1 : (coreOf w').nextId = (coreOf w).nextId := congrArg W.nextId this
  have e2 : (coreOf w').nacc = (coreOf w).nacc := congrArg W.nacc this
  have e3 : (coreOf w').nsock = (coreOf w).nsock := congrArg W.nsock this
  have e4 : (coreOf w').npair = (coreOf w).npair := congrArg W.npair this
  have e5 : (coreOf w').nfork = (coreOf w).nfork := congrArg W.nfork this
  have e6 : (coreOf w').tmo = (coreOf w).tmo := congrArg W.tmo this
  have e7 : (coreOf w').pendingX = (coreOf w).pendingX := congrArg W.pendingX this
  simp only [coreOf] at e1 e2 e3 e4 e5 e6 e7
  simp only [ctrs, e1, e2, e3, e4, e5, e6, e7]

theorem ARel.fields {s fs : Nat} {w w' : W} (h : ARel s fs w w') :
    w'.cfg = w.cfg ∧ w'.devs = w.devs ∧ w'.specs = w.specs ∧ w'.store = w.store ∧ w'.alNext = w.alNext ∧
    w'.exited = w.exited ∧ ctrs w' = ctrs w := coreOf_fields h.core

/-- **`cli_post_poll` in both runs** -/
theorem cliPostPoll_stuck (s fs : Nat) (w w' : W) (p p' : PassIn) (hr : ARel s fs w w') (hi : IdsFresh w)
    (hp : StuckPass fs w p p') :
    CRel (isFd fs) DEq SEq w.cfg.aliases (cliPostPoll w p.acc p.envs) (cliPostPoll w' p'.acc p'.envs) ∧
    L2 (RecRel (isFd fs)) (cliPostPoll w p.acc p.envs).clients (cliPostPoll w' p'.acc p'.envs).clients ∧
    ctrs (cliPostPoll w' p'.acc p'.envs) = ctrs (cliPostPoll w p.acc p.envs) ∧
    (∀ c ∈ (cliPostPoll w p.acc p.envs).clients, c.fd = fs → c.id = s) ∧
    fs < 1000 + (cliPostPoll w p.acc p.envs).nacc := by
  obtain ⟨f1, f2, f3, f4, f5, f6, f7⟩ := hr.fields
  have f7' := f7
  simp only [ctrs, Prod.mk.injEq] at f7
  obtain ⟨k1, k2, k3, k4, k5, k6, k7⟩ := f7
  rw [ClientPf.cliPostPoll_eq, ClientPf.cliPostPoll_eq, hp.acc]
  -- the worlds after the reset of the log and the capacities
  have hv : CRel (isFd fs) DEq SEq w.cfg.aliases
      { w with sys := [], caps := p.envs.map fun (e : FdEnv) => (e.fd, e.cap) }
      { w' with sys := [], caps := p'.envs.map fun (e : FdEnv) => (e.fd, e.cap) } := by
    refine ⟨rfl, f1, f3, f5, f6, f2, f4, ?_, rfl⟩
    intro fd hfd
    have : fd ≠ fs := by simpa [isFd] using hfd
    rw [capOf_envs, capOf_envs, hp.others fd this]
  have hiv : IdsFresh { w with sys := [], caps := p.envs.map fun (e : FdEnv) => (e.fd, e.cap) } := hi.congr rfl rfl rfl
  generalize hv0 : ({ w with sys := [], caps := p.envs.map fun (e : FdEnv) => (e.fd, e.cap) } : W) = v at *
  generalize hv0' : ({ w' with sys := [], caps := p'.envs.map fun (e : FdEnv) => (e.fd, e.cap) } : W) = v' at *
  have hvc : v.clients = w.clients := by rw [← hv0]
  have hvc' : v'.clients = w'.clients := by rw [← hv0']
  have hvn : v.nextId = w.nextId ∧ v.nacc = w.nacc ∧ v'.nextId = w.nextId ∧ v'.nacc = w.nacc ∧ ctrs v' = ctrs v := by
    rw [← hv0, ← hv0']; exact ⟨rfl, rfl, k1, k2, f7'⟩
  obtain ⟨n1, n2, n3, n4, n5⟩ := hvn
  have hcapv : capOf v fs = ((p.envs.find? (·.fd == fs)).map (·.cap)).getD 0 := by rw [← hv0]; exact capOf_envs w p.envs [] fs
  -- `accept`
  have ha : CRel (isFd fs) DEq SEq w.cfg.aliases (ClientPf.cliAccept v p.acc) (ClientPf.cliAccept v' p.acc) ∧
      L2 (RecRel (isFd fs)) (ClientPf.cliAccept v p.acc).clients (ClientPf.cliAccept v' p.acc).clients ∧
      ctrs (ClientPf.cliAccept v' p.acc) = ctrs (ClientPf.cliAccept v p.acc) ∧
      (∀ c ∈ (ClientPf.cliAccept v p.acc).clients, c.fd = fs → c.id = s) ∧
      fs < 1000 + (ClientPf.cliAccept v p.acc).nacc ∧ capOf (ClientPf.cliAccept v p.acc) fs = capOf v fs := by
    have hnew : ClientPf.newClient v' = ClientPf.newClient v := by
      unfold ClientPf.newClient; rw [n1, n2, n3, n4, hv.cfg]
    simp only [ctrs, Prod.mk.injEq] at n5
    obtain ⟨m1, m2, m3, m4, m5, m6, m7⟩ := n5
    unfold ClientPf.cliAccept
    split
    · refine ⟨⟨hv.aliases, hv.cfg, hv.specs, hv.alNext, hv.exited, hv.devs, hv.store, hv.caps, ?_⟩, ?_, ?_, ?_, ?_, rfl⟩
      · show (v'.sys ++ [Sys.accept ((1000 + v'.nacc : Nat) : Int)]).filter _ = (v.sys ++ [Sys.accept ((1000 + v.nacc : Nat) : Int)]).filter _
        rw [List.filter_append, List.filter_append, hv.sys, m2]
      · show L2 _ (v.clients ++ [ClientPf.newClient v]) (v'.clients ++ [ClientPf.newClient v'])
        rw [hnew, hvc, hvc']
        exact L2.append hr.tab (.cons (RecRel.refl _ _) .nil)
      · simp only [ctrs, m1, m2, m3, m4, m5, m6, m7]
      · intro c hc
        have hc : c ∈ v.clients ++ [ClientPf.newClient v] := hc
        rw [List.mem_append] at hc
        rcases hc with hc | hc
        · exact hr.sfd c (hvc ▸ hc)
        · simp only [List.mem_singleton] at hc
          subst hc
          intro hh
          have : (ClientPf.newClient v).fd = 1000 + v.nacc := rfl
          have := hr.fresh
          omega
      · show fs < 1000 + (v.nacc + 1)
        have := hr.fresh
        omega
    · split
      · refine ⟨⟨hv.aliases, hv.cfg, hv.specs, hv.alNext, hv.exited, hv.devs, hv.store, hv.caps, ?_⟩, ?_, ?_, ?_, ?_, rfl⟩
        · show (v'.sys ++ [Sys.accept (-1)]).filter _ = (v.sys ++ [Sys.accept (-1)]).filter _
          rw [List.filter_append, List.filter_append, hv.sys]
        · show L2 _ v.clients v'.clients
          rw [hvc, hvc']; exact hr.tab
        · simp only [ctrs, m1, m2, m3, m4, m5, m6, m7]
        · intro c hc; exact hr.sfd c (hvc ▸ hc)
        · show fs < 1000 + v.nacc
          rw [n2]; exact hr.fresh
      · refine ⟨hv, ?_, ?_, ?_, ?_, rfl⟩
        · rw [hvc, hvc']; exact hr.tab
        · simp only [ctrs, m1, m2, m3, m4, m5, m6, m7]
        · intro c hc; exact hr.sfd c (hvc ▸ hc)
        · rw [n2]; exact hr.fresh
  obtain ⟨a1, a2, a3, a4, a5, a6⟩ := ha
  have hia : IdsFresh (ClientPf.cliAccept v p.acc) := cliAccept_ids v p.acc hiv
  generalize ClientPf.cliAccept v p.acc = u at *
  generalize ClientPf.cliAccept v' p.acc = u' at *
  -- the loop
  obtain ⟨g1, g2⟩ := cliLoop_stuck s p.envs p'.envs u.clients u'.clients u u' a1 a2 a2 hia.nodup a4 hp.others hp.stuck
    (by rw [a6]; exact hcapv)
  refine ⟨g1, g2, ?_, foldl_cliStep_sfd s fs p.envs u.clients u a4 a4, ?_⟩
  · rw [foldl_cliStep_ctrs, foldl_cliStep_ctrs, a3]
  · have := foldl_cliStep_ctrs p.envs u.clients u
    simp only [ctrs, Prod.mk.injEq] at this
    rw [this.2.1]; exact a5

/-! ### the device phase in both runs -/

section DevPhase
variable {F : Nat → Bool}

theorem RecRel.putCmd {c c' : Cli} (h : RecRel F c c') (k : Option CmdC) (x : Bytes) :
    RecRel F (Pm.Daemon.put { c with cmd := k } x) (Pm.Daemon.put { c' with cmd := k } x) := by
  obtain ⟨t, b, rfl, hf⟩ := h
  exact ⟨t ++ x, b, rfl, fun hF => by obtain ⟨rfl, rfl⟩ := hf hF; exact ⟨rfl, rfl⟩⟩

theorem updCli_tab (w w' : W) (id : Nat) (f : Cli → Cli) (hf : ∀ a b, RecRel F a b → RecRel F (f a) (f b))
    (ht : L2 (RecRel F) w.clients w'.clients) : L2 (RecRel F) (updCli w id f).clients (updCli w' id f).clients := by
  unfold updCli
  refine L2.map _ _ ht (fun a b hab => ?_)
  rw [hab.id]
  split
  · exact hf a b hab
  · exact hab

/-- `_act_finish` in both runs: the same verdict, tables related again -/
theorem actFinish_tab (w w' : W) (cid : Nat) (e : Pm.Dev2.ActErr) (name : Bytes) (ht : L2 (RecRel F) w.clients w'.clients)
    (hs : w'.store = w.store) :
    L2 (RecRel F) (actFinish w cid e name).1.clients (actFinish w' cid e name).1.clients ∧
    (actFinish w' cid e name).2 = (actFinish w cid e name).2 := by
  unfold actFinish
  rcases L2.find (fun x => x.id == cid) (fun x => x.id == cid) ht (fun a b hab => by rw [hab.id]) with ⟨e1, e2⟩ | ⟨c, c', e1, e2, hcc⟩
  · rw [e1, e2]; exact ⟨ht, rfl⟩
  · rw [e1, e2]
    dsimp only
    rw [hcc.cmd]
    cases c.cmd with
    | none => exact ⟨ht, rfl⟩
    | some k =>
      dsimp only
      have hst : storeArgs w' k.al = storeArgs w k.al := by unfold storeArgs; rw [hs]
      rw [hcc.exprange, hcc.id, hst]
      split
      · generalize finalReply c.exprange _ = o
        cases o with
        | none => exact ⟨ht, rfl⟩
        | some r => exact ⟨updCli_tab w w' c.id _ (fun a b hab => hab.putCmd _ _) ht, rfl⟩
      · exact ⟨updCli_tab w w' c.id _ (fun a b hab => hab.putCmd _ _) ht, rfl⟩

theorem applyOut_tab (name : Bytes) (acc acc' : W × List String) (o : DOut) (ht : L2 (RecRel F) acc.1.clients acc'.1.clients)
    (hs : acc'.1.store = acc.1.store) (hm : acc'.2 = acc.2) :
    L2 (RecRel F) (applyOut name acc o).1.clients (applyOut name acc' o).1.clients ∧ (applyOut name acc' o).2 = (applyOut name acc o).2 := by
  obtain ⟨w, m⟩ := acc
  obtain ⟨w', m'⟩ := acc'
  simp only at ht hs hm
  subst hm
  cases o with
  | finish cid e =>
    obtain ⟨h1, h2⟩ := actFinish_tab w w' cid e name ht hs
    simp only [applyOut]
    rw [h2]
    exact ⟨h1, rfl⟩
  | telemetry cid t => exact ⟨updCli_tab w w' cid _ (fun a b hab => hab.put _) ht, rfl⟩
  | diag cid t => exact ⟨updCli_tab w w' cid _ (fun a b hab => hab.put _) ht, rfl⟩
  | sent _ => exact ⟨ht, rfl⟩
  | rxMismatch _ _ => exact ⟨ht, rfl⟩
  | abortAssert _ => exact ⟨ht, rfl⟩

/-- **the callbacks of one device delivered in both runs**: tables related again, the same messages (in particular the same
    `assert` verdicts) -/
theorem applyOuts_tab (w w' : W) (name : Bytes) (outs : List DOut) (ht : L2 (RecRel F) w.clients w'.clients)
    (hs : w'.store = w.store) :
    L2 (RecRel F) (applyOuts w name outs).1.clients (applyOuts w' name outs).1.clients ∧
    (applyOuts w' name outs).2 = (applyOuts w name outs).2 := by
  rw [Pm.Daemon.applyOuts_eq, Pm.Daemon.applyOuts_eq]
  have : ∀ (acc acc' : W × List String), L2 (RecRel F) acc.1.clients acc'.1.clients → acc'.1.store = acc.1.store → acc'.2 = acc.2 →
      L2 (RecRel F) (outs.foldl (applyOut name) acc).1.clients (outs.foldl (applyOut name) acc').1.clients ∧
      (outs.foldl (applyOut name) acc').2 = (outs.foldl (applyOut name) acc).2 := by
    induction outs with
    | nil => intro acc acc' h1 _ h3; exact ⟨h1, h3⟩
    | cons o r ih =>
      intro acc acc' h1 h2 h3
      rw [List.foldl_cons, List.foldl_cons]
      obtain ⟨g1, g2⟩ := applyOut_tab name acc acc' o h1 h2 h3
      exact ih _ _ g1 (by rw [applyOut_store, applyOut_store, h2]) g2
  exact this _ _ ht hs rfl

end DevPhase

theorem coreOf_sans {y z : W} (h : sansClients y = sansClients z) : coreOf y = coreOf z := by
  have : ∀ u : W, coreOf u = { sansClients u with sys := [], caps := [] } := fun _ => rfl
  rw [this, this, h]

theorem sys_sans {y z : W} (h : sansClients y = sansClients z) : y.sys = z.sys := by
  have := congrArg W.sys h
  exact this

/-- the relation between the accumulators of the device phase in the two runs -/
structure DRelA (fs : Nat) (a a' : DevAcc) : Prop where
  core : coreOf a'.w = coreOf a.w
  tab : L2 (RecRel (isFd fs)) a.w.clients a'.w.clients
  sys : a'.w.sys.filter (offF (isFd fs)) = a.w.sys.filter (offF (isFd fs))
  oracle : a'.oracle = a.oracle
  dead : a'.dead = a.dead
  devs : a'.devs = a.devs
  tmo : a'.tmo = a.tmo

/-- **one device's share of `dev_post_poll` in both runs**: the device does exactly the same (`devStep`: new state, system
    calls, oracle, callbacks, time-out), the callbacks are delivered to related tables -/
theorem devPass_stuck (fs : Nat) (p p' : PassIn) (a a' : DevAcc) (nd : Bytes × Dev) (hr : DRelA fs a a')
    (hn : p'.now = p.now) (hc : p'.con = p.con) (he : p'.soe = p.soe) (hev : SameEvents p p' nd) :
    DRelA fs (devPass p a nd) (devPass p' a' nd) ∧ devStep p' a'.w a'.oracle nd = devStep p a.w a.oracle nd := by
  have hcore := hr.core
  have hstore : a'.w.store = a.w.store := by have : (coreOf a'.w).store = (coreOf a.w).store := congrArg W.store hcore; exact this
  have h1 : a'.w.nsock = a.w.nsock := by have : (coreOf a'.w).nsock = (coreOf a.w).nsock := congrArg W.nsock hcore; exact this
  have h2 : a'.w.npair = a.w.npair := by have : (coreOf a'.w).npair = (coreOf a.w).npair := congrArg W.npair hcore; exact this
  have h3 : a'.w.nfork = a.w.nfork := by have : (coreOf a'.w).nfork = (coreOf a.w).nfork := congrArg W.nfork hcore; exact this
  have hstep : devStep p' a'.w a'.oracle nd = devStep p a.w a.oracle nd := by
    rw [hr.oracle]
    exact (devStep_reads p p' a.w a'.w a.oracle nd hstore.symm h1.symm h2.symm h3.symm hn.symm hc.symm he.symm hev).symm
  refine ⟨?_, hstep⟩
  rw [devPass_eq, devPass_eq]
  unfold devPass'
  rw [hr.dead]
  cases hd : a.dead with
  | true =>
    simp only [↓reduceIte]
    exact ⟨hr.core, hr.tab, hr.sys, hr.oracle, rfl, by simp [hr.devs], hr.tmo⟩
  | false =>
    simp only [Bool.false_eq_true, ↓reduceIte]
    rw [hstep]
    generalize devStep p a.w a.oracle nd = r
    have hta : L2 (RecRel (isFd fs)) (afterStep a.w r.1).clients (afterStep a'.w r.1).clients := hr.tab
    have hsa : (afterStep a'.w r.1).store = (afterStep a.w r.1).store := rfl
    obtain ⟨g1, g2⟩ := applyOuts_tab (afterStep a.w r.1) (afterStep a'.w r.1) nd.1 r.2.2.1 hta hsa
    have s1 := applyOuts_sans (afterStep a.w r.1) nd.1 r.2.2.1
    have s2 := applyOuts_sans (afterStep a'.w r.1) nd.1 r.2.2.1
    have hco : coreOf (afterStep a'.w r.1) = coreOf (afterStep a.w r.1) := by
      have : ∀ u : W, coreOf (afterStep u r.1) = afterStep (coreOf u) r.1 := fun _ => rfl
      rw [this, this, hcore]
    refine ⟨?_, g1, ?_, rfl, ?_, ?_, ?_⟩
    · show coreOf (applyOuts (afterStep a'.w r.1) nd.1 r.2.2.1).1 = coreOf (applyOuts (afterStep a.w r.1) nd.1 r.2.2.1).1
      rw [coreOf_sans s1, coreOf_sans s2, hco]
    · show (applyOuts (afterStep a'.w r.1) nd.1 r.2.2.1).1.sys.filter _ = (applyOuts (afterStep a.w r.1) nd.1 r.2.2.1).1.sys.filter _
      rw [sys_sans s1, sys_sans s2]
      exact hr.sys
    · show (r.1.aborted || isAbortMsg (applyOuts (afterStep a'.w r.1) nd.1 r.2.2.1).2) = (r.1.aborted || isAbortMsg (applyOuts (afterStep a.w r.1) nd.1 r.2.2.1).2)
      rw [g2]
    · show a'.devs ++ [(nd.1, r.1.dev)] = a.devs ++ [(nd.1, r.1.dev)]
      rw [hr.devs]
    · show minOpt a'.tmo r.2.2.2 = minOpt a.tmo r.2.2.2
      rw [hr.tmo]

/-- what every device does in the device phase, device by device (`none`: not stepped, a modelled `assert` has fired) -/
def stepsList (p : PassIn) : DevAcc → Devs → List (Option (Pm.Dev2.CS × Oracle × List DOut × Option Nat))
  | _, [] => []
  | a, nd :: r => (if a.dead then none else some (devStep p a.w a.oracle nd)) :: stepsList p (devPass p a nd) r

theorem foldl_devPass_stuck (fs : Nat) (p p' : PassIn) (hn : p'.now = p.now) (hc : p'.con = p.con) (he : p'.soe = p.soe)
    (l : Devs) (hev : ∀ nd ∈ l, SameEvents p p' nd) : ∀ (a a' : DevAcc), DRelA fs a a' →
    DRelA fs (l.foldl (devPass p) a) (l.foldl (devPass p') a') ∧ stepsList p' a' l = stepsList p a l := by
  induction l with
  | nil => intro a a' h; exact ⟨h, rfl⟩
  | cons nd r ih =>
    intro a a' h
    obtain ⟨g1, g2⟩ := devPass_stuck fs p p' a a' nd h hn hc he (hev nd (by simp))
    obtain ⟨g3, g4⟩ := ih (fun x hx => hev x (by simp [hx])) _ _ g1
    rw [List.foldl_cons, List.foldl_cons]
    refine ⟨g3, ?_⟩
    simp only [stepsList]
    rw [g4, g2, h.dead]

/-! ### one whole pass, any number of passes -/

/-- the device phase keeps id and descriptor of every table entry, and the `accept` counter -/
theorem devPass_idfd (p : PassIn) (a : DevAcc) (nd : Bytes × Dev) :
    (devPass p a nd).w.clients.map (fun c => (c.id, c.fd)) = a.w.clients.map (fun c => (c.id, c.fd)) ∧
    (devPass p a nd).w.nacc = a.w.nacc := by
  cases hd : a.dead with
  | true => rw [devPass_dead _ _ _ hd]; exact ⟨rfl, rfl⟩
  | false =>
    rw [devPass_w p a nd hd]
    obtain ⟨e1, G, hG, hA⟩ := ClientPf.applyOuts_shape (afterStep a.w (devStep p a.w a.oracle nd).1) nd.1 (devStep p a.w a.oracle nd).2.2.1
    constructor
    · rw [hG, List.map_map]
      apply List.map_congr_left
      intro c _
      obtain ⟨items, hap, _⟩ := hA c
      simp [hap.id, hap.fd]
    · have := congrArg W.nacc e1
      exact this

theorem foldl_devPass_idfd (p : PassIn) (l : Devs) (a : DevAcc) :
    (l.foldl (devPass p) a).w.clients.map (fun c => (c.id, c.fd)) = a.w.clients.map (fun c => (c.id, c.fd)) ∧
    (l.foldl (devPass p) a).w.nacc = a.w.nacc := by
  induction l generalizing a with
  | nil => exact ⟨rfl, rfl⟩
  | cons nd r ih =>
    rw [List.foldl_cons]
    obtain ⟨h1, h2⟩ := ih (devPass p a nd)
    obtain ⟨h3, h4⟩ := devPass_idfd p a nd
    exact ⟨h1.trans h3, h2.trans h4⟩

/-- what every device does in this pass -/
def passSteps (w : W) (p : PassIn) : List (Option (Pm.Dev2.CS × Oracle × List DOut × Option Nat)) :=
  if (cliPostPoll w p.acc p.envs).exited then [] else
    stepsList p (acc0 (cliPostPoll w p.acc p.envs)) (cliPostPoll w p.acc p.envs).devs

/-- **one whole pass keeps the relation**, and every device does the same in both runs -/
theorem daemonPass_stuck (s fs : Nat) (w w' : W) (p p' : PassIn) (hr : ARel s fs w w') (hi : IdsFresh w)
    (hp : StuckPass fs w p p') :
    ARel s fs (daemonPass w p).1 (daemonPass w' p').1 ∧ passSteps w' p' = passSteps w p := by
  obtain ⟨g1, g2, g3, g4, g5⟩ := cliPostPoll_stuck s fs w w' p p' hr hi hp
  have hfds := cliPostPoll_devfds w p.acc p.envs
  unfold passSteps
  rw [daemonPass_fst, daemonPass_fst]
  dsimp only
  generalize cliPostPoll w p.acc p.envs = w0 at *
  generalize cliPostPoll w' p'.acc p'.envs = w0' at *
  have hdv : w0'.devs = w0.devs := g1.devs
  have hco : coreOf w0' = coreOf w0 := coreOf_mk g1.cfg hdv g1.specs g1.store g1.alNext g1.exited g3
  rw [g1.exited]
  cases hex : w0.exited with
  | true =>
    simp only [↓reduceIte]
    exact ⟨⟨hco, g2, g4, g5, g1.sys⟩, trivial⟩
  | false =>
    simp only [Bool.false_eq_true, ↓reduceIte]
    have hpx : w0'.pendingX = w0.pendingX := by
      simp only [ctrs, Prod.mk.injEq] at g3; exact g3.2.2.2.2.2.2
    have h0 : DRelA fs (acc0 w0) (acc0 w0') := ⟨hco, g2, g1.sys, by simp [acc0, hpx], rfl, rfl, rfl⟩
    have hev : ∀ nd ∈ w0.devs, SameEvents p p' nd := by
      intro nd hnd fd hfd
      have hm : nd.2.fd ∈ w0.devs.map (·.2.fd) := List.mem_map.mpr ⟨nd, hnd, rfl⟩
      rw [hfds] at hm
      obtain ⟨nd0, hnd0, e0⟩ := List.mem_map.mp hm
      have hne : fd ≠ fs := by
        intro e
        apply hp.devfd nd0 hnd0
        rw [e0, hfd, e]
      exact (hp.others fd hne).symm
    obtain ⟨k1, k2⟩ := foldl_devPass_stuck fs p p' hp.now hp.con hp.soe w0.devs hev _ _ h0
    rw [hdv]
    refine ⟨?_, k2⟩
    obtain ⟨i1, i2⟩ := foldl_devPass_idfd p w0.devs (acc0 w0)
    generalize w0.devs.foldl (devPass p) (acc0 w0) = a at *
    generalize w0.devs.foldl (devPass p') (acc0 w0') = a' at *
    refine ⟨?_, k1.tab, ?_, ?_, k1.sys⟩
    · have : ∀ (u : W) (d : Devs) (t : Option Nat), coreOf { u with devs := d, pendingX := [], tmo := t } = { coreOf u with devs := d, pendingX := [], tmo := t } :=
        fun _ _ _ => rfl
      rw [this, this, k1.core, k1.devs, k1.tmo]
    · intro c hc hcf
      have hm : (c.id, c.fd) ∈ a.w.clients.map (fun c => (c.id, c.fd)) := List.mem_map.mpr ⟨c, hc, rfl⟩
      rw [i1] at hm
      obtain ⟨c0, hc0, e0⟩ := List.mem_map.mp hm
      simp only [Prod.mk.injEq] at e0
      rw [← e0.1]
      exact g4 c0 hc0 (by rw [e0.2]; exact hcf)
    · show fs < 1000 + a.w.nacc
      rw [i2]; exact g5

/-- the per-pass hypotheses along the first run -/
def StuckRun (fs : Nat) : W → List (PassIn × PassIn) → Prop
  | _, [] => True
  | w, pp :: r => StuckPass fs w pp.1 pp.2 ∧ StuckRun fs (daemonPass w pp.1).1 r

theorem runPasses_cons (w : W) (p : PassIn) (ps : List PassIn) : runPasses w (p :: ps) = runPasses (daemonPass w p).1 ps := rfl

/-- **any number of passes** -/
theorem runs_stuck (s fs : Nat) (pp : List (PassIn × PassIn)) : ∀ (w w' : W), ARel s fs w w' → Iso w → StuckRun fs w pp →
    ARel s fs (runPasses w (pp.map (·.1))) (runPasses w' (pp.map (·.2))) := by
  induction pp with
  | nil => intro w w' h _ _; exact h
  | cons x r ih =>
    intro w w' h hi hs
    rw [List.map_cons, List.map_cons, runPasses_cons, runPasses_cons]
    exact ih _ _ (daemonPass_stuck s fs w w' x.1 x.2 h hi.1 hs.1).1 (daemonPass_iso w x.1 hi) hs.2

theorem StuckRun.take {fs : Nat} : ∀ (pp : List (PassIn × PassIn)) (n : Nat) (w : W), StuckRun fs w pp → StuckRun fs w (pp.take n) := by
  intro pp
  induction pp with
  | nil => intro n w h; simpa using h
  | cons x r ih =>
    intro n w h
    cases n with
    | zero => trivial
    | succ n => exact ⟨h.1, ih n _ h.2⟩

/-- the hypothesis about pass number `n`, stated on the world the first run has reached by then -/
theorem StuckRun.nth {fs : Nat} : ∀ (pp : List (PassIn × PassIn)) (n : Nat) (w : W) (x : PassIn × PassIn), StuckRun fs w pp →
    pp[n]? = some x → StuckPass fs (runPasses w ((pp.take n).map (·.1))) x.1 x.2 := by
  intro pp
  induction pp with
  | nil => intro n w x _ hx; simp at hx
  | cons y r ih =>
    intro n w x h hx
    cases n with
    | zero =>
      simp only [List.getElem?_cons_zero, Option.some.injEq] at hx
      subst hx
      exact h.1
    | succ n =>
      simp only [List.getElem?_cons_succ] at hx
      rw [List.take_succ_cons, List.map_cons, runPasses_cons]
      exact ih n _ x h.2 hx

/-! ### what the relation says -/

theorem written_filter (fs fd : Nat) (hne : fd ≠ fs) (ss : List Sys) :
    ClientPf.written (ss.filter (offF (isFd fs))) fd = ClientPf.written ss fd := by
  induction ss with
  | nil => rfl
  | cons x r ih =>
    rw [List.filter_cons]
    have hc : ClientPf.written (x :: r) fd = ClientPf.written [x] fd ++ ClientPf.written r fd := ClientPf.written_append [x] r fd
    split
    · have hc2 : ClientPf.written (x :: r.filter (offF (isFd fs))) fd = ClientPf.written [x] fd ++ ClientPf.written (r.filter (offF (isFd fs))) fd :=
        ClientPf.written_append [x] _ fd
      rw [hc, hc2, ih]
    · rename_i hx
      rw [hc, ih]
      have : ClientPf.written [x] fd = [] := by
        cases x with
        | write f b e bl =>
          have hf : f = fs := by simpa [offF, sysFd, isFd] using hx
          have : ¬ f = fd := by rw [hf]; exact fun e => hne e.symm
          simp [ClientPf.written, this]
        | accept _ => rfl
        | close _ => rfl
        | read _ _ => rfl
      rw [this, List.nil_append]

/-- **what the relation gives for everybody else** -/
theorem ARel.others {s fs : Nat} {w w' : W} (h : ARel s fs w w') :
    (∀ g, g ≠ s → cliRec w' g = cliRec w g) ∧ (∀ fd, fd ≠ fs → ClientPf.written w'.sys fd = ClientPf.written w.sys fd) ∧
    w'.devs = w.devs ∧ w'.store = w.store ∧ w'.alNext = w.alNext ∧ w'.exited = w.exited ∧ ids w' = ids w := by
  obtain ⟨f1, f2, f3, f4, f5, f6, f7⟩ := h.fields
  refine ⟨?_, ?_, f2, f4, f5, f6, ?_⟩
  · intro g hg
    unfold cliRec
    rcases L2.find (fun x => x.id == g) (fun x => x.id == g) h.tab (fun a b hab => by rw [hab.id]) with ⟨e1, e2⟩ | ⟨c, c', e1, e2, hcc⟩
    · rw [e1, e2]
    · rw [e1, e2]
      have hid : c.id = g := by simpa using List.find?_some e1
      have hfd : c.fd ≠ fs := fun e => hg (by rw [← hid]; exact h.sfd c (List.mem_of_find?_eq_some e1) e)
      rw [hcc.eq (by simpa [isFd] using hfd)]
  · intro fd hfd
    rw [← written_filter fs fd hfd w'.sys, ← written_filter fs fd hfd w.sys, h.sys]
  · unfold ids
    have : ∀ (l l' : List Cli), L2 (RecRel (isFd fs)) l l' → l'.map (·.id) = l.map (·.id) := by
      intro l l' hl
      induction hl with
      | nil => rfl
      | cons hab _ ih => simp [hab.id, ih]
    exact this _ _ h.tab

/-- the two runs start from the same world -/
theorem ARel.init (s fs : Nat) (w : W) (h1 : ∀ c ∈ w.clients, c.fd = fs → c.id = s) (h2 : fs < 1000 + w.nacc) : ARel s fs w w :=
  ⟨rfl, L2.refl (RecRel.refl _) _, h1, h2, rfl⟩

/-! ### the two-run statement -/

/-- the logged call is a write on `fd` that would block (finding F23: the daemon sleeps in `write`) -/
def blocksOn (fd : Nat) : Sys → Bool
  | .write f _ _ bl => f == fd && bl
  | _ => false

/-- where the model is faithful to the code for a run with a client (id `s`, descriptor `fs`) that does not read: no
    blocking `write` on `fs` is ever started with less capacity than bytes (F23: after `quit`/EOF `_handle_write` clears
    `O_NONBLOCK`; the real daemon would sleep there, the model only raises the `blocks` flag of the logged call), and the
    client's output buffer stays below `MAX_CLIENT_BUF` (the model's `to` buffer is unbounded; the real `cbuf` starts
    dropping the client's own oldest output at 1 MiB) -/
structure Faithful (s fs : Nat) (w : W) (ps : List PassIn) : Prop where
  noBlock : ∀ n, ∀ x ∈ (runPasses w (ps.take n)).sys, blocksOn fs x = false
  below : ∀ n c, cliRec (runPasses w (ps.take n)) s = some c → c.toBuf.length ≤ cliBufMax

/-- the callbacks of a pass that carry client `g`'s id, device by device -/
def callbacksFor (g : Nat) (steps : List (Option (Pm.Dev2.CS × Oracle × List DOut × Option Nat))) : List (Option (List DOut)) :=
  steps.map fun o => o.map fun r => r.2.2.1.filter (mine g)

/-- **two runs from the same world**, `n` passes into them -/
theorem backpressure (s fs : Nat) (w : W) (pp : List (PassIn × PassIn)) (hi : Iso w)
    (h1 : ∀ c ∈ w.clients, c.fd = fs → c.id = s) (h2 : fs < 1000 + w.nacc) (hs : StuckRun fs w pp) (n : Nat) :
    ARel s fs (runPasses w ((pp.take n).map (·.1))) (runPasses w ((pp.take n).map (·.2))) ∧
    ∀ x, pp[n]? = some x →
      passSteps (runPasses w ((pp.take n).map (·.2))) x.2 = passSteps (runPasses w ((pp.take n).map (·.1))) x.1 := by
  have hr := runs_stuck s fs (pp.take n) w w (ARel.init s fs w h1 h2) hi (hs.take pp n w)
  refine ⟨hr, fun x hx => ?_⟩
  exact (daemonPass_stuck s fs _ _ x.1 x.2 hr (runPasses_iso w _ hi).1 (hs.nth pp n w x hx)).2

/-- the index of the first pass in which client `g`'s command in progress is completed (its final reply is queued and
    `cmd` is cleared) -/
def replyPass (w : W) (ps : List PassIn) (g : Nat) : Option Nat :=
  (List.range ps.length).find? fun n =>
    ((cliRec (runPasses w (ps.take n)) g).bind (·.cmd)).isSome &&
    (match cliRec (runPasses w (ps.take (n + 1))) g with | some c => c.cmd.isNone | none => false)

theorem replyPass_congr (w w' : W) (ps ps' : List PassIn) (g : Nat) (hl : ps'.length = ps.length)
    (h : ∀ n, cliRec (runPasses w' (ps'.take n)) g = cliRec (runPasses w (ps.take n)) g) : replyPass w' ps' g = replyPass w ps g := by
  unfold replyPass
  rw [hl]
  congr 1
  funext n
  rw [h n, h (n + 1)]

/-! ### the second run made from the first: the writable bit of `fs` cleared -/

/-- the events for `fs` with the writable bit cleared (and no capacity) -/
def stuckEnv (e : FdEnv) : FdEnv := { e with rev := e.rev % 2, cap := 0 }

def stuckEnvs (fs : Nat) (envs : List FdEnv) : List FdEnv := envs.map fun e => if e.fd == fs then stuckEnv e else e

/-- the pass input in which `fs` is not reported writable -/
def stuckIn (fs : Nat) (p : PassIn) : PassIn := { p with envs := stuckEnvs fs p.envs }

theorem stuckEnvs_other (fs : Nat) (envs : List FdEnv) (fd : Nat) (h : fd ≠ fs) :
    (stuckEnvs fs envs).find? (·.fd == fd) = envs.find? (·.fd == fd) := by
  induction envs with
  | nil => rfl
  | cons e r ih =>
    unfold stuckEnvs at ih ⊢
    rw [List.map_cons, List.find?_cons, List.find?_cons, ih]
    by_cases he : e.fd = fs
    · have h1 : (e.fd == fs) = true := by simpa using he
      have h2 : (e.fd == fd) = false := by rw [he]; simpa using fun x => h x.symm
      simp only [h1, ↓reduceIte, stuckEnv, h2]
    · have h1 : (e.fd == fs) = false := by simpa using he
      simp only [h1, Bool.false_eq_true, ↓reduceIte]

theorem stuckEnvs_self (fs : Nat) (envs : List FdEnv) :
    (stuckEnvs fs envs).find? (·.fd == fs) = (envs.find? (·.fd == fs)).map stuckEnv := by
  induction envs with
  | nil => rfl
  | cons e r ih =>
    unfold stuckEnvs at ih ⊢
    rw [List.map_cons, List.find?_cons, List.find?_cons, ih]
    by_cases he : e.fd = fs
    · have h1 : (e.fd == fs) = true := by simpa using he
      simp only [h1, ↓reduceIte, stuckEnv, Option.map_some]
    · have h1 : (e.fd == fs) = false := by simpa using he
      simp only [h1, Bool.false_eq_true, ↓reduceIte]

/-- the client on `fs` behaves in the pass input `p`: only the readable/writable bits are ever reported for its descriptor,
    and when it is reported writable it takes at least one byte -/
def ReaderOK (fs : Nat) (p : PassIn) : Prop :=
  ∀ e, p.envs.find? (·.fd == fs) = some e → e.rev < 4 ∧ (2 ≤ e.rev → 0 < e.cap)

theorem stuckPass_of (fs : Nat) (w : W) (p : PassIn) (hg : ReaderOK fs p) (hd : ∀ nd ∈ w.devs, nd.2.fd ≠ some fs) :
    StuckPass fs w p (stuckIn fs p) := by
  refine ⟨rfl, rfl, rfl, rfl, fun fd hfd => stuckEnvs_other fs p.envs fd hfd, ?_, hd⟩
  show StuckEv _ ((stuckEnvs fs p.envs).find? (·.fd == fs))
  rw [stuckEnvs_self]
  cases he : p.envs.find? (·.fd == fs) with
  | none => trivial
  | some e =>
    obtain ⟨g1, g2⟩ := hg e he
    exact ⟨g1, rfl, rfl, rfl, g2⟩

/-- the hypotheses along the first run: the reader behaves, no device sits on the number `fs` -/
def ReaderRun (fs : Nat) : W → List PassIn → Prop
  | _, [] => True
  | w, p :: r => (ReaderOK fs p ∧ ∀ nd ∈ w.devs, nd.2.fd ≠ some fs) ∧ ReaderRun fs (daemonPass w p).1 r

theorem stuckRun_of (fs : Nat) : ∀ (ps : List PassIn) (w : W), ReaderRun fs w ps → StuckRun fs w (ps.map fun p => (p, stuckIn fs p)) := by
  intro ps
  induction ps with
  | nil => intro w _; trivial
  | cons p r ih => intro w h; exact ⟨stuckPass_of fs w p h.1.1 h.1.2, ih _ h.2⟩

end Pm.Daemon.TwoRun
