import Pm.InterpPass
/-! C08 part C: the bytes sent while an action runs to completion are the send texts of its unrolled script, in order -/
namespace Pm.Dev2.Interp

/-- the sequences of send texts a flat program can produce: every operation in order, a guard either replaced by its
    body or skipped; a send whose text does not exist (`hostlist_sort` assertion) cannot be passed -/
inductive Path : List FOp → List Bytes → Prop where
  | nil : Path [] []
  | send (t : Bytes) (r : List FOp) (ss : List Bytes) : Path r ss → Path (.send (some t) :: r) (t :: ss)
  | expect (p : Nat) (r : List FOp) (ss : List Bytes) : Path r ss → Path (.expect p :: r) ss
  | delay (us : Time) (r : List FOp) (ss : List Bytes) : Path r ss → Path (.delay us :: r) ss
  | setplugstate (l : Option Bytes) (pm sm : Int) (is : List (PState × Nat)) (t : Option Bytes) (r : List FOp) (ss : List Bytes) :
      Path r ss → Path (.setplugstate l pm sm is t :: r) ss
  | setresult (pm sm : Int) (is : List (PResult × Nat)) (r : List FOp) (ss : List Bytes) :
      Path r ss → Path (.setresult pm sm is :: r) ss
  | taken (w : Bool) (n : Option Bytes) (body r : List FOp) (ss : List Bytes) :
      Path (body ++ r) ss → Path (.guard w n body :: r) ss
  | skipped (w : Bool) (n : Option Bytes) (body r : List FOp) (ss : List Bytes) :
      Path r ss → Path (.guard w n body :: r) ss

/-- … from a reference state: a send or delay that has been started has already produced what it produces -/
def PathF (f : F) (ss : List Bytes) : Prop :=
  match f.rem with
  | .send _ :: r => if f.inflight then Path r ss else Path f.rem ss
  | .delay _ :: r => if f.inflight then Path r ss else Path f.rem ss
  | rem => Path rem ss

theorem sents_askRx (o pat s) : sents (askRx o pat s).2.2 = [] := by
  unfold askRx; split
  · split <;> rfl
  · rfl

theorem sents_pickState (s : Bytes) (l : List (PState × Nat)) (o : Oracle) (errs : List Out) (h : sents errs = []) :
    sents (pickState askRx s l o errs).2.2 = [] := by
  induction l generalizing o errs with
  | nil => simpa [pickState] using h
  | cons p r ih =>
    obtain ⟨st, pat⟩ := p
    unfold pickState
    have h2 := sents_askRx o pat s
    dsimp only
    split
    · simp [h, h2]
    · apply ih; simp [h, h2]

theorem sents_pickResult (s : Bytes) (l : List (PResult × Nat)) (o : Oracle) (errs : List Out) (h : sents errs = []) :
    sents (pickResult askRx s l o errs).2.2 = [] := by
  induction l generalizing o errs with
  | nil => simpa [pickResult] using h
  | cons p r ih =>
    obtain ⟨st, pat⟩ := p
    unfold pickResult
    have h2 := sents_askRx o pat s
    dsimp only
    split
    · simp [h, h2]
    · apply ih; simp [h, h2]

theorem sents_expectPure (d tel cid o pat) : sents (expectPure d tel cid o pat).2.2.1 = [] := by
  unfold expectPure
  dsimp only
  split
  · rfl
  · have := sents_askRx o pat (rxSubject d.fromBuf)
    split
    · exact this
    · simp only [sents_append, this, List.nil_append]
      split
      · exact sents_teleMem _ _ _
      · rfl

theorem sents_setplugstatePure (d al o t l pm sm is) : sents (setplugstatePure d al o t l pm sm is).2.2 = [] := by
  unfold setplugstatePure
  split
  · rfl
  · split
    · exact sents_pickState _ _ _ _ rfl
    · rfl

theorem sents_setresultPure (d al cid o pm sm is) : sents (setresultPure d al cid o pm sm is).2.2 = [] := by
  unfold setresultPure
  split
  · rfl
  · split
    · rename_i s plug _ _
      have h := sents_pickResult s is o [] rfl
      simp only [sents_append, h, List.nil_append]
      split <;> rfl
    · rfl

theorem sents_delayTeleI (i us) : sents (delayTeleI i us) = [] := by
  unfold delayTeleI; split <;> rfl


theorem sents_classify_abort (site : String) : hasAbort [Out.abortAssert site] = true := rfl

/-- one step of the reference extends the path by what it sent -/
theorem fstep_path (now : Time) (d : Dev) (i : FA) (o : Oracle) (f : F)
    (hs : (fstep now d i o f).status = .running ∨ (fstep now d i o f).status = .stalled) :
    ∀ ss, PathF (fstep now d i o f).f ss → PathF f (sents (fstep now d i o f).out ++ ss) := by
  intro ss
  cases hrem : f.rem with
  | nil => rw [fstep_nil now d i o f hrem]; simp
  | cons op r =>
    cases op with
    | send text =>
      by_cases hin : f.inflight = true
      · have hfs : fstep now d i o f = ⟨d, i, o, [], if d.toBuf.isEmpty then ⟨r, false⟩ else f, classify [] d.toBuf.isEmpty⟩ := by
          unfold fstep; simp only [hrem, hin, Bool.not_true, Bool.false_eq_true, ↓reduceIte]
        rw [hfs]
        simp only [sents_nil, List.nil_append]
        intro h
        have goal : PathF f ss = Path r ss := by unfold PathF; simp only [hrem, hin, ↓reduceIte]
        rw [goal]
        split at h
        · cases r <;> (try rename_i x xs; cases x) <;> simpa [PathF] using h
        · rw [goal] at h; exact h
      · have hin' : f.inflight = false := by simpa using hin
        cases text with
        | none =>
          exfalso
          have hfs : (fstep now d i o f).status = .aborted := by
            unfold fstep; simp only [hrem, hin', Bool.not_false, ↓reduceIte]
          rw [hfs] at hs; simp at hs
        | some t =>
          have hfs : fstep now d i o f =
              ⟨{ d with toBuf := clipTo (d.toBuf ++ t) }, i, o, [Out.sent t] ++ sendTele d i.telemetry i.clientId t,
               if (d.toBuf ++ t).isEmpty then ⟨r, false⟩ else ⟨f.rem, true⟩,
               classify ([Out.sent t] ++ sendTele d i.telemetry i.clientId t) (d.toBuf ++ t).isEmpty⟩ := by
            unfold fstep; simp only [hrem, hin', Bool.not_false, ↓reduceIte]
          rw [hfs]
          have hsents : sents ([Out.sent t] ++ sendTele d i.telemetry i.clientId t) = [t] := by
            unfold sendTele
            split
            · simp [sents]
            · split <;> simp [sents, sents_teleMem]
          simp only [hsents]
          intro h
          have goal : PathF f ([t] ++ ss) = Path (.send (some t) :: r) (t :: ss) := by
            unfold PathF; simp only [hrem, hin', Bool.false_eq_true, ↓reduceIte, List.singleton_append]
          rw [goal]
          apply Path.send
          split at h
          · cases r <;> (try rename_i x xs; cases x) <;> simpa [PathF] using h
          · simpa [PathF, hrem] using h
    | expect pat =>
      have hfs : fstep now d i o f =
          ⟨(expectPure d i.telemetry i.clientId o pat).1, i, (expectPure d i.telemetry i.clientId o pat).2.1,
           (expectPure d i.telemetry i.clientId o pat).2.2.1,
           if (expectPure d i.telemetry i.clientId o pat).2.2.2 then ⟨r, false⟩ else f,
           classify (expectPure d i.telemetry i.clientId o pat).2.2.1 (expectPure d i.telemetry i.clientId o pat).2.2.2⟩ := by
        unfold fstep; simp only [hrem]
      rw [hfs]
      simp only [sents_expectPure, List.nil_append]
      intro h
      split at h
      · have goal : PathF f ss = Path (.expect pat :: r) ss := by unfold PathF; simp only [hrem]
        rw [goal]; apply Path.expect
        cases r <;> (try rename_i x xs; cases x) <;> simpa [PathF] using h
      · exact h
    | delay us =>
      have hout : sents (fstep now d i o f).out = [] := by
        unfold fstep; simp only [hrem]
        split <;> (split <;> simp [sents_delayTeleI])
      have hf : (fstep now d i o f).f = ⟨r, false⟩ ∨ (fstep now d i o f).f = ⟨f.rem, true⟩ := by
        unfold fstep; simp only [hrem]
        repeat' split
        all_goals simp
      rw [hout]
      simp only [List.nil_append]
      intro h
      have hr : Path r ss := by
        rcases hf with hf | hf
        · rw [hf] at h
          cases r <;> (try rename_i x xs; cases x) <;> simpa [PathF] using h
        · rw [hf] at h; simpa [PathF, hrem] using h
      unfold PathF; simp only [hrem]
      split
      · exact hr
      · exact Path.delay us r ss hr
    | setplugstate lit pm sm is target =>
      have hfs : fstep now d i o f =
          ⟨(setplugstatePure d i.arglist o target lit pm sm is).1, i, (setplugstatePure d i.arglist o target lit pm sm is).2.1,
           (setplugstatePure d i.arglist o target lit pm sm is).2.2, ⟨r, false⟩,
           classify (setplugstatePure d i.arglist o target lit pm sm is).2.2 true⟩ := by
        unfold fstep; simp only [hrem]
      rw [hfs]
      simp only [sents_setplugstatePure, List.nil_append]
      intro h
      have goal : PathF f ss = Path (.setplugstate lit pm sm is target :: r) ss := by unfold PathF; simp only [hrem]
      rw [goal]; apply Path.setplugstate
      cases r <;> (try rename_i x xs; cases x) <;> simpa [PathF] using h
    | setresult pm sm is =>
      have hfs : fstep now d i o f =
          ⟨(setresultPure d i.arglist i.clientId o pm sm is).1, i, (setresultPure d i.arglist i.clientId o pm sm is).2.1,
           (setresultPure d i.arglist i.clientId o pm sm is).2.2, ⟨r, false⟩,
           classify (setresultPure d i.arglist i.clientId o pm sm is).2.2 true⟩ := by
        unfold fstep; simp only [hrem]
      rw [hfs]
      simp only [sents_setresultPure, List.nil_append]
      intro h
      have goal : PathF f ss = Path (.setresult pm sm is :: r) ss := by unfold PathF; simp only [hrem]
      rw [goal]; apply Path.setresult
      cases r <;> (try rename_i x xs; cases x) <;> simpa [PathF] using h
    | guard w node body =>
      have goal : PathF f ss = Path (.guard w node body :: r) ss := by unfold PathF; simp only [hrem]
      by_cases hc : condHolds w (nodeState d i.arglist node) = true
      · have hfs : fstep now d i o f = ⟨d, i, o, [], ⟨body ++ r, false⟩, .running⟩ := by
          unfold fstep; simp only [hrem, hc, ↓reduceIte]
        rw [hfs]
        simp only [sents_nil, List.nil_append]
        intro h
        rw [goal]; apply Path.taken
        generalize body ++ r = q at h
        cases q <;> (try rename_i x xs; cases x) <;> simpa [PathF] using h
      · by_cases hu : (nodeState d i.arglist node == .unknown) = true
        · exfalso
          have hfs : (fstep now d i o f).status = .failed := by
            unfold fstep; simp only [hrem, hc, Bool.false_eq_true, ↓reduceIte, hu]
          rw [hfs] at hs; simp at hs
        · have hfs : fstep now d i o f = ⟨d, i, o, [], ⟨r, false⟩, .running⟩ := by
            unfold fstep; simp only [hrem, hc, Bool.false_eq_true, ↓reduceIte, hu]
          rw [hfs]
          simp only [sents_nil, List.nil_append]
          intro h
          rw [goal]; apply Path.skipped
          cases r <;> (try rename_i x xs; cases x) <;> simpa [PathF] using h


theorem pathF_nil (f : F) (h : f.rem = []) : PathF f [] := by
  unfold PathF; simp only [h]; exact Path.nil

/-- a run of the reference extends the path by what it sent, and at the end of the program nothing is left to send -/
theorem frun_path (now : Time) : ∀ (k : Nat) (d : Dev) (i : FA) (o : Oracle) (f : F) (acc : List Out),
    ((frun now k d i o f acc).status = .stalled ∨ (frun now k d i o f acc).status = .done ∨
      (frun now k d i o f acc).status = .running) →
    ∃ em, sents (frun now k d i o f acc).out = sents acc ++ em ∧
      (∀ ss, PathF (frun now k d i o f acc).f ss → PathF f (em ++ ss)) ∧
      ((frun now k d i o f acc).status = .done → (frun now k d i o f acc).f.rem = []) := by
  intro k
  induction k with
  | zero =>
    intro d i o f acc _
    exact ⟨[], by simp [frun], fun ss h => by simpa [frun] using h, fun h => by simp [frun] at h⟩
  | succ k ih =>
    intro d i o f acc hs
    rw [frun] at hs ⊢
    by_cases hemp : f.rem.isEmpty = true
    · simp only [hemp, ↓reduceIte]
      exact ⟨[], by simp, fun ss h => by simpa using h, fun _ => by simpa using hemp⟩
    · simp only [hemp, Bool.false_eq_true, ↓reduceIte] at hs ⊢
      by_cases hrun : (fstep now d i o f).status = .running
      · simp only [hrun, ↓reduceIte] at hs ⊢
        obtain ⟨em, h1, h2, h3⟩ := ih _ _ _ _ _ hs
        have hp := fstep_path now d i o f (Or.inl hrun)
        refine ⟨sents (fstep now d i o f).out ++ em, ?_, ?_, h3⟩
        · rw [h1]; simp
        · intro ss h
          rw [List.append_assoc]
          exact hp _ (h2 ss h)
      · simp only [hrun, ↓reduceIte] at hs ⊢
        have hst : (fstep now d i o f).status = .stalled := by
          rcases hs with h | h | h
          · exact h
          · exact absurd h (fstep_ne_done now d i o f)
          · first | exact absurd h hrun | exact h.elim
        have hp := fstep_path now d i o f (Or.inr hst)
        refine ⟨sents (fstep now d i o f).out, by simp, fun ss h => hp ss h, ?_⟩
        intro h; rw [hst] at h; cases h

/-- an uninterrupted execution of an action over any number of passes, down to its completion: each pass is a run of
    micro-steps on whatever device state, oracle and time the pass finds (only the plug list is the device's own), the
    next pass goes on with the action as the previous one left it; the list is what the passes sent, in order -/
inductive Completes (R : Bool) (dp : List Plug) : Action → List Bytes → Prop where
  | last (now : Time) (n : Nat) (d : Dev) (a : Action) (o : Oracle) :
      Inv R dp d a → (mrun now n d a o []).status = .done →
      Completes R dp a (sents (mrun now n d a o []).out)
  | pass (now : Time) (n : Nat) (d : Dev) (a : Action) (o : Oracle) (ss : List Bytes) :
      Inv R dp d a → (mrun now n d a o []).status = .stalled →
      Completes R dp (mrun now n d a o []).act ss →
      Completes R dp a (sents (mrun now n d a o []).out ++ ss)

/-- what an action sends until it completes is a path through the program its stack denotes -/
theorem completes_path (R : Bool) (dp : List Plug) (a : Action) (ss : List Bytes) (h : Completes R dp a ss) :
    PathF (abs R dp a.exec) ss := by
  induction h with
  | last now n d a o hinv hdone =>
    obtain ⟨k, _, hk⟩ := refines_run R dp now n d a o [] hinv
    obtain ⟨em, h1, h2, h3⟩ := frun_path now k d (info a) o (abs R dp a.exec) [] (by rw [hk.status, hdone]; simp)
    rw [hk.out] at h1
    simp only [sents_nil, List.nil_append] at h1
    rw [h1]
    have := h2 [] (pathF_nil _ (h3 (by rw [hk.status, hdone])))
    simpa using this
  | pass now n d a o ss hinv hst _ ih =>
    obtain ⟨k, _, hk⟩ := refines_run R dp now n d a o [] hinv
    obtain ⟨em, h1, h2, _⟩ := frun_path now k d (info a) o (abs R dp a.exec) [] (by rw [hk.status, hst]; simp)
    rw [hk.out] at h1
    simp only [sents_nil, List.nil_append] at h1
    rw [h1]
    apply h2
    rw [(hk.cont (Or.inl hst)).1]
    exact ih

/-- the send texts of a flat program, in order -/
def sendTexts : List FOp → List Bytes
  | [] => []
  | .send (some t) :: r => t :: sendTexts r
  | _ :: r => sendTexts r

def guardFree : List FOp → Bool
  | [] => true
  | .guard _ _ _ :: _ => false
  | _ :: r => guardFree r

/-- without guards there is one path -/
theorem path_guardFree (p : List FOp) (ss : List Bytes) (h : Path p ss) (hg : guardFree p = true) : ss = sendTexts p := by
  induction h with
  | nil => rfl
  | send t r ss _ ih => simp only [sendTexts]; rw [ih (by simpa [guardFree] using hg)]
  | expect p r ss _ ih => simp only [sendTexts]; exact ih (by simpa [guardFree] using hg)
  | delay us r ss _ ih => simp only [sendTexts]; exact ih (by simpa [guardFree] using hg)
  | setplugstate l pm sm is t r ss _ ih => simp only [sendTexts]; exact ih (by simpa [guardFree] using hg)
  | setresult pm sm is r ss _ ih => simp only [sendTexts]; exact ih (by simpa [guardFree] using hg)
  | taken w n body r ss _ _ => simp [guardFree] at hg
  | skipped w n body r ss _ _ => simp [guardFree] at hg

/-- **C08, sends.**  A fresh action on `script` with context plugs `plugs`, run without interruption to its successful
    completion, over any number of passes, against any device behaviour: the texts handed to the device, in order, are
    a path through the unrolled script — every send text in program order, `foreach` bodies once per plug in plug
    order, `if` bodies either in full or not at all. -/
theorem sends_are_script (R : Bool) (dp : List Plug) (a : Action) (script : List Stmt) (plugs : Option (List Plug))
    (ss : List Bytes) (hfresh : a.exec = [bodyCtx script plugs]) (h : Completes R dp a ss) :
    Path (unroll R dp script plugs) ss := by
  have := completes_path R dp a ss h
  rw [hfresh, abs_fresh R dp _ _ rfl rfl] at this
  simp only [bodyCtx, List.drop_zero, cont, List.flatMap_nil, List.append_nil] at this
  unfold PathF at this
  split at this <;> simpa using this

/-- … and for a script without `ifon`/`ifoff` exactly the send texts of the unrolled script, so that the bytes sent are
    their concatenation -/
theorem sends_are_script_noif (R : Bool) (dp : List Plug) (a : Action) (script : List Stmt) (plugs : Option (List Plug))
    (ss : List Bytes) (hfresh : a.exec = [bodyCtx script plugs]) (h : Completes R dp a ss)
    (hg : guardFree (unroll R dp script plugs) = true) :
    ss = sendTexts (unroll R dp script plugs) ∧ ss.flatten = (sendTexts (unroll R dp script plugs)).flatten := by
  have := path_guardFree _ _ (sends_are_script R dp a script plugs ss hfresh h) hg
  exact ⟨this, by rw [this]⟩



mutual
/-- the script contains no `ifon` / `ifoff`, at any depth -/
def noIfS : Stmt → Bool
  | .ifon _ => false
  | .ifoff _ => false
  | .foreachplug b => noIfB b
  | .foreachnode b => noIfB b
  | _ => true
def noIfB : List Stmt → Bool
  | [] => true
  | s :: r => noIfS s && noIfB r
end

theorem guardFree_append (p q : List FOp) : guardFree (p ++ q) = (guardFree p && guardFree q) := by
  induction p with
  | nil => simp [guardFree]
  | cons x xs ih => cases x <;> simp [guardFree, ih]

theorem guardFree_flatMap {α} (l : List α) (g : α → List FOp) (h : ∀ x ∈ l, guardFree (g x) = true) :
    guardFree (l.flatMap g) = true := by
  induction l with
  | nil => simp [guardFree]
  | cons x xs ih =>
    simp only [List.flatMap_cons, guardFree_append, Bool.and_eq_true]
    exact ⟨h x (by simp), ih (fun y hy => h y (by simp [hy]))⟩

mutual
theorem guardFree_unrollStmt (R : Bool) (dp : List Plug) : ∀ (s : Stmt) (pl : Option (List Plug)), noIfS s = true →
    guardFree (unrollStmt R dp s pl) = true
  | .send _, _, _ => by simp [unrollStmt, guardFree]
  | .expect _, _, _ => by simp [unrollStmt, guardFree]
  | .delay _, _, _ => by simp [unrollStmt, guardFree]
  | .setplugstate _ _ _ _, _, _ => by simp [unrollStmt, guardFree]
  | .setresult _ _ _, _, _ => by simp [unrollStmt, guardFree]
  | .foreachplug b, pl, h => by
    simp only [unrollStmt]
    exact guardFree_flatMap _ _ (fun p _ => guardFree_unroll R dp b (some [p]) (by simpa [noIfS] using h))
  | .foreachnode b, pl, h => by
    simp only [unrollStmt]
    exact guardFree_flatMap _ _ (fun p _ => guardFree_unroll R dp b (some [p]) (by simpa [noIfS] using h))
  | .ifon _, _, h => by simp [noIfS] at h
  | .ifoff _, _, h => by simp [noIfS] at h
theorem guardFree_unroll (R : Bool) (dp : List Plug) : ∀ (l : List Stmt) (pl : Option (List Plug)), noIfB l = true →
    guardFree (unroll R dp l pl) = true
  | [], _, _ => by simp [unroll, guardFree]
  | s :: r, pl, h => by
    simp only [noIfB, Bool.and_eq_true] at h
    simp only [unroll, guardFree_append, Bool.and_eq_true]
    exact ⟨guardFree_unrollStmt R dp s pl h.1, guardFree_unroll R dp r pl h.2⟩
end

theorem mrun_acc (now : Time) : ∀ (n : Nat) (d : Dev) (a : Action) (o : Oracle) (acc : List Out),
    mrun now n d a o acc = { mrun now n d a o [] with out := acc ++ (mrun now n d a o []).out } := by
  intro n
  induction n with
  | zero => intro d a o acc; simp [mrun]
  | succ n ih =>
    intro d a o acc
    rw [mrun, mrun]
    split
    · simp
    · split
      · rw [ih _ _ _ (acc ++ _), ih _ _ _ ([] ++ _)]; simp
      · simp



theorem stackOK_mem_pos (R : Bool) (stack : List ExecCtx) (h : StackOK R stack) (c : ExecCtx) (hc : c ∈ stack) :
    c.pos < c.block.length := by
  cases stack with
  | nil => simp at hc
  | cons e rest =>
    obtain ⟨⟨_, _, hpos⟩, _, hpar⟩ := (stackOK_cons R e rest).mp h
    rcases List.mem_cons.mp hc with rfl | hc
    · exact hpos
    · exact parentOK_pos c (hpar c hc)

/-- `_rewind_action` (after the repair of F5) re-establishes the invariant: the action is again a fresh action on its
    outer block, and denotes the unrolling of the whole script -/
theorem rewind_ok (R : Bool) (dp : List Plug) (a : Action) (h : StackOK R a.exec) (hne : a.exec ≠ []) :
    ∃ outer, a.exec.getLast? = some outer ∧ StackOK R (rewind a).exec ∧
      abs R dp (rewind a).exec = ⟨unroll R dp outer.block outer.plugs, false⟩ ∧
      (rewind a).errnum = a.errnum ∧ (rewind a).com = a.com := by
  cases hl : a.exec.getLast? with
  | none => simp [List.getLast?_eq_none_iff] at hl; exact absurd hl hne
  | some outer =>
    have hmem : outer ∈ a.exec := List.mem_of_getLast? hl
    have hc := h.1 outer hmem
    have hpos := stackOK_mem_pos R a.exec h outer hmem
    have hex : (rewind a).exec = [{ outer with pos := 0, processing := false, plugItr := none }] := by
      unfold rewind; simp [hl]
    refine ⟨outer, rfl, ?_, ?_, ?_, ?_⟩
    · rw [hex, stackOK_cons]
      refine ⟨⟨ctxOK_clean R _ hc.1.1 rfl rfl, hc.2, ?_⟩, by simp, by simp⟩
      simp only; omega
    · rw [hex, abs_fresh R dp _ _ rfl rfl]; simp [cont]
    · unfold rewind; simp [hl]
    · unfold rewind; simp [hl]



/-! ### concrete values for the non-vacuity examples and the counterexample -/

/-- `send "x"; send "y"` inside `n` nested `foreachplug` -/
def exNest : Nat → List Stmt
  | 0 => [.send [120], .send [121]]
  | n + 1 => [.foreachplug (exNest n)]

/-- a script using every statement kind: `send "on %s\n"; expect; foreachnode { ifoff { send "%s" } ; delay }` -/
def exScript : List Stmt :=
  [.send [111, 110, 32, 37, 115, 10], .expect 3, .setplugstate none 1 2 [(.on, 4), (.off, 5)],
   .foreachnode [.ifoff [.send [37, 115]], .delay 10], .setresult 1 2 [(.success, 6)]]

def exAction (script : List Stmt) (plugs : Option (List Plug)) : Action :=
  { uid := 1, com := 1, exec := [bodyCtx script plugs], clientId := 7, telemetry := false, errnum := .success,
    timeStamp := none, delayStart := 0, arglist := 0 }

/-- a connected device with plugs `p ↦ n` and `q` (unmapped) whose queue holds one fresh action on `script` -/
def exDev (script : List Stmt) (toBuf : Bytes) : Dev :=
  { plugs := [⟨[112], some [110]⟩, ⟨[113], none⟩], scripts := fun _ => none, timeout := 1000000,
    acts := [exAction script none],
    toBuf := toBuf, fromBuf := [], xmStr := none, xmOffs := [], xmResult := false, xmUsed := false,
    args := [(0, [⟨[110], none, .off, .none⟩])], nextUid := 2, shortCircuitDelay := false, conn := 2 }

def exCS (script : List Stmt) : CS :=
  { dev := exDev script [],
    env := { now := 5, revents := 0, sockets := [], connects := [], soerrs := [], read := none, writeOk := true }, sys := [] }

theorem exScript_good : exScript ≠ [] ∧ neBlock exScript = true := by decide

theorem exInv (script : List Stmt) (h : script ≠ [] ∧ neBlock script = true) (toBuf : Bytes) :
    Inv false (exDev script toBuf).plugs (exDev script toBuf) (exAction script none) :=
  ⟨rfl, rfl, (initial_ok false [] script none h.1 h.2).1, rfl⟩

/-- the one-statement script `send "x"` completes in two passes (the second after the output buffer has drained) and has
    then sent exactly `x` -/
theorem exCompletes : Completes false (exDev [.send [120]] []).plugs (exAction [.send [120]] none) [[120]] := by
  have h1 := exInv [.send [120]] (by decide) []
  have hst : (mrun 5 5 (exDev [.send [120]] []) (exAction [.send [120]] none) ⟨[]⟩ []).status = .stalled := by decide +kernel
  obtain ⟨k, _, hk⟩ := refines_run false _ 5 5 (exDev [.send [120]] []) (exAction [.send [120]] none) ⟨[]⟩ [] h1
  have h2 := (hk.cont (Or.inl hst)).2
  have h2' : Inv false (exDev [.send [120]] []).plugs (exDev [.send [120]] [])
      (mrun 5 5 (exDev [.send [120]] []) (exAction [.send [120]] none) ⟨[]⟩ []).act :=
    ⟨h2.ranged, rfl, h2.ok, h2.err⟩
  have hdone : (mrun 9 5 (exDev [.send [120]] []) (mrun 5 5 (exDev [.send [120]] []) (exAction [.send [120]] none) ⟨[]⟩ []).act ⟨[]⟩ []).status = .done := by
    decide +kernel
  have := Completes.pass 5 5 _ _ ⟨[]⟩ _ h1 hst (Completes.last 9 5 _ _ ⟨[]⟩ h2' hdone)
  have hs : sents (mrun 5 5 (exDev [.send [120]] []) (exAction [.send [120]] none) ⟨[]⟩ []).out ++
      sents (mrun 9 5 (exDev [.send [120]] []) (mrun 5 5 (exDev [.send [120]] []) (exAction [.send [120]] none) ⟨[]⟩ []).act ⟨[]⟩ []).out
      = [[120]] := by decide +kernel
  rw [hs] at this
  exact this

/-- regression (the mirror's inner loop used to stop after 64 pushes and the following `advance` then stepped over the
    first statement of the innermost body): with 65 — or 200 — `foreachplug` around `send "x"; send "y"` one pass of
    the mirror sends `x`, as the reference does -/
theorem depth65_mirror : sents (processActionF 200 (exCS (exNest 65)) ⟨[]⟩ [] none).2.2.1 = [[120]] := by decide +kernel

theorem depth200_mirror : sents (processActionF 400 (exCS (exNest 200)) ⟨[]⟩ [] none).2.2.1 = [[120]] := by decide +kernel

theorem depth65_reference :
    sents (frun 5 200 (exDev (exNest 65) []) (info (exAction (exNest 65) none)) ⟨[]⟩
      (abs false (exDev (exNest 65) []).plugs [bodyCtx (exNest 65) none]) []).out = [[120]] := by decide +kernel

theorem depth64_mirror : sents (processActionF 200 (exCS (exNest 64)) ⟨[]⟩ [] none).2.2.1 = [[120]] := by decide +kernel



/-- a statement that reports "not finished" leaves the stack as it was — same contexts, same blocks, same positions,
    same iterators — except possibly for the `processing` flag of the top context (a send or delay that has started) -/
theorem unfinished_shape (d : Dev) (a : Action) (o : Oracle) (now : Time) (e : ExecCtx) (rest : List ExecCtx)
    (hex : a.exec = e :: rest) (h : (processStmt d a o now).finished = false) :
    ∃ p', (processStmt d a o now).act.exec = { e with processing := p' } :: rest := by
  have hdrop : a.exec.drop 1 = rest := by simp [hex]
  have hself : a.exec = { e with processing := e.processing } :: rest := by rw [hex]
  cases hcur : e.block[e.pos]? with
  | none =>
    exfalso
    have : processStmt d a o now = ⟨d, a, o, [.abortAssert "cur == NULL"], true⟩ := by
      unfold processStmt; simp only [topCtx_of_exec a e rest hex, hcur]
    rw [this] at h; cases h
  | some s =>
    cases s with
    | expect pat =>
      have hps : processStmt d a o now = stmtExpect d a o pat := processStmt_at d a o now e rest hex _ hcur
      exact ⟨e.processing, by rw [hps, stmtExpect_act]; exact hself⟩
    | send fmt =>
      have hps : processStmt d a o now = stmtSend d a o e fmt := processStmt_at d a o now e rest hex _ hcur
      rw [hps] at h ⊢
      rw [stmtSend_eq] at h ⊢
      unfold stmtSend' at h ⊢
      by_cases hp : e.processing = true
      · simp only [hp, Bool.not_true, Bool.false_eq_true, ↓reduceIte] at h ⊢
        split at h
        · cases h
        · rename_i hb; rw [if_neg hb]; exact ⟨true, by show a.exec = _; rw [hex]; cases e; simp_all⟩
      · have hp' : e.processing = false := by simpa using hp
        simp only [hp', Bool.not_false, ↓reduceIte] at h ⊢
        cases hst : sendText fmt e.plugs with
        | none => simp [hst] at h
        | some t =>
          simp only [hst] at h ⊢
          split at h
          · cases h
          · rename_i hb; rw [if_neg hb]; exact ⟨true, by simp [hdrop]⟩
    | delay us =>
      have hps : processStmt d a o now = stmtDelay d a o e now us := processStmt_at d a o now e rest hex _ hcur
      rw [hps] at h ⊢
      rw [stmtDelay_eq] at h ⊢
      unfold stmtDelay' stmtDelayTail at h ⊢
      by_cases hp : e.processing = true
      · simp only [hp, Bool.not_true, Bool.false_eq_true, ↓reduceIte] at h ⊢
        split at h
        · cases h
        · rename_i hb; rw [if_neg hb]; exact ⟨true, by show a.exec = _; rw [hex]; cases e; simp_all⟩
      · have hp' : e.processing = false := by simpa using hp
        simp only [hp', Bool.not_false, ↓reduceIte] at h ⊢
        split at h
        · cases h
        · rename_i hb; rw [if_neg hb]; exact ⟨true, by simp [hdrop]⟩
    | setplugstate l pm sm is =>
      have hps : processStmt d a o now = stmtSetplugstate d a o e l pm sm is := processStmt_at d a o now e rest hex _ hcur
      exfalso; rw [hps, stmtSetplugstate_eq, (setplugstateCore_frame d a o _ l pm sm is).2] at h; cases h
    | setresult pm sm is =>
      have hps : processStmt d a o now = stmtSetresult d a o pm sm is := processStmt_at d a o now e rest hex _ hcur
      exfalso; rw [hps, (stmtSetresult_frame d a o pm sm is).2] at h; cases h
    | foreachplug b =>
      have hps : processStmt d a o now = stmtForeach d a o e b false := processStmt_at d a o now e rest hex _ hcur
      exfalso; rw [hps, (stmtForeach_frame d a o e b false).2.2.2] at h; cases h
    | foreachnode b =>
      have hps : processStmt d a o now = stmtForeach d a o e b true := processStmt_at d a o now e rest hex _ hcur
      exfalso; rw [hps, (stmtForeach_frame d a o e b true).2.2.2] at h; cases h
    | ifon b =>
      have hps : processStmt d a o now = stmtIf d a o e b true := processStmt_at d a o now e rest hex _ hcur
      exfalso; rw [hps, (stmtIf_frame d a o e b true).2.2.2] at h; cases h
    | ifoff b =>
      have hps : processStmt d a o now = stmtIf d a o e b false := processStmt_at d a o now e rest hex _ hcur
      exfalso; rw [hps, (stmtIf_frame d a o e b false).2.2.2] at h; cases h



end Pm.Dev2.Interp
