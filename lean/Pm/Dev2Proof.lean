import Pm.Dev2
namespace Pm.Dev2

def isFinish : Out → Bool | .finish _ _ => true | _ => false

@[simp] theorem setTop_clientId (a : Action) (e : ExecCtx) : (setTop a e).clientId = a.clientId := rfl

theorem stmtExpect_clientId (d a o pat) : (stmtExpect d a o pat).act.clientId = a.clientId := by
  unfold stmtExpect; grind
theorem stmtSend_clientId (d a o e fmt) : (stmtSend d a o e fmt).act.clientId = a.clientId := by
  unfold stmtSend; grind [setTop]
theorem stmtDelay_clientId (d a o e now us) : (stmtDelay d a o e now us).act.clientId = a.clientId := by
  unfold stmtDelay; grind [setTop]
theorem stmtSetplugstate_clientId (d a o e l p s i) : (stmtSetplugstate d a o e l p s i).act.clientId = a.clientId := by
  unfold stmtSetplugstate; grind
theorem stmtSetresult_clientId (d a o p s i) : (stmtSetresult d a o p s i).act.clientId = a.clientId := by
  unfold stmtSetresult; grind
theorem stmtForeach_clientId (d a o e b n) : (stmtForeach d a o e b n).act.clientId = a.clientId := by
  unfold stmtForeach; grind [setTop]
theorem stmtIf_clientId (d a o e b n) : (stmtIf d a o e b n).act.clientId = a.clientId := by
  unfold stmtIf; grind [setTop]

theorem processStmt_clientId (d : Dev) (a : Action) (o : Oracle) (now : Time) :
    (processStmt d a o now).act.clientId = a.clientId := by
  unfold processStmt
  dsimp only
  split <;> simp [stmtExpect_clientId, stmtSend_clientId, stmtDelay_clientId, stmtSetplugstate_clientId,
    stmtSetresult_clientId, stmtForeach_clientId, stmtIf_clientId]

/-- no statement ever reports a completion: completions come from `_process_action` only -/
theorem teleMem_noFinish (cid pre bs) : ∀ x ∈ teleMem cid pre bs, isFinish x = false := by
  unfold teleMem; grind [isFinish]
theorem askRx_noFinish (o pat s) : ∀ x ∈ (askRx o pat s).2.2, isFinish x = false := by
  unfold askRx; grind [isFinish]

theorem pickState_noFinish (s : Bytes) (l : List (PState × Nat)) (o : Oracle) (errs : List Out)
    (h : ∀ x ∈ errs, isFinish x = false) : ∀ x ∈ (pickState askRx s l o errs).2.2, isFinish x = false := by
  induction l generalizing o errs with
  | nil => simpa [pickState] using h
  | cons p r ih =>
    obtain ⟨st, pat⟩ := p
    unfold pickState
    have h2 := askRx_noFinish o pat s
    dsimp only
    split
    · intro x hx; simp at hx; rcases hx with hx | hx
      · exact h x hx
      · exact h2 x hx
    · apply ih; intro x hx; simp at hx; rcases hx with hx | hx
      · exact h x hx
      · exact h2 x hx

theorem pickResult_noFinish (s : Bytes) (l : List (PResult × Nat)) (o : Oracle) (errs : List Out)
    (h : ∀ x ∈ errs, isFinish x = false) : ∀ x ∈ (pickResult askRx s l o errs).2.2, isFinish x = false := by
  induction l generalizing o errs with
  | nil => simpa [pickResult] using h
  | cons p r ih =>
    obtain ⟨st, pat⟩ := p
    unfold pickResult
    have h2 := askRx_noFinish o pat s
    dsimp only
    split
    · intro x hx; simp at hx; rcases hx with hx | hx
      · exact h x hx
      · exact h2 x hx
    · apply ih; intro x hx; simp at hx; rcases hx with hx | hx
      · exact h x hx
      · exact h2 x hx

theorem stmtExpect_noFinish (d a o pat) : ∀ x ∈ (stmtExpect d a o pat).out, isFinish x = false := by
  have h1 := askRx_noFinish
  have h2 := teleMem_noFinish
  unfold stmtExpect; grind [isFinish]
theorem stmtSend_noFinish (d a o e fmt) : ∀ x ∈ (stmtSend d a o e fmt).out, isFinish x = false := by
  have h2 := teleMem_noFinish
  unfold stmtSend; grind [isFinish]
theorem stmtDelay_noFinish (d a o e now us) : ∀ x ∈ (stmtDelay d a o e now us).out, isFinish x = false := by
  unfold stmtDelay; grind [isFinish]
theorem stmtSetplugstate_noFinish (d a o e l p s i) : ∀ x ∈ (stmtSetplugstate d a o e l p s i).out, isFinish x = false := by
  have h1 := fun s l o => pickState_noFinish s l o [] (by simp)
  unfold stmtSetplugstate; grind [isFinish]
theorem stmtSetresult_noFinish (d a o p s i) : ∀ x ∈ (stmtSetresult d a o p s i).out, isFinish x = false := by
  have h1 := fun s l o => pickResult_noFinish s l o [] (by simp)
  unfold stmtSetresult; grind [isFinish]
theorem stmtForeach_noFinish (d a o e b n) : ∀ x ∈ (stmtForeach d a o e b n).out, isFinish x = false := by
  unfold stmtForeach; grind [isFinish]
theorem stmtIf_noFinish (d a o e b n) : ∀ x ∈ (stmtIf d a o e b n).out, isFinish x = false := by
  unfold stmtIf; grind [isFinish]

theorem processStmt_noFinish (d : Dev) (a : Action) (o : Oracle) (now : Time) :
    ∀ x ∈ (processStmt d a o now).out, isFinish x = false := by
  unfold processStmt
  dsimp only
  split
  · simp [isFinish]
  all_goals first
    | exact stmtExpect_noFinish _ _ _ _
    | exact stmtSend_noFinish _ _ _ _ _
    | exact stmtDelay_noFinish _ _ _ _ _ _
    | exact stmtSetplugstate_noFinish _ _ _ _ _ _ _ _
    | exact stmtSetresult_noFinish _ _ _ _ _ _
    | exact stmtForeach_noFinish _ _ _ _ _ _
    | exact stmtIf_noFinish _ _ _ _ _ _

theorem innerLoop_clientId (now : Time) (fuel : Nat) (d : Dev) (a : Action) (o : Oracle) (acc : List Out) :
    (innerLoop now fuel d a o acc).act.clientId = a.clientId := by
  induction fuel generalizing d a o acc with
  | zero => simp [innerLoop, processStmt_clientId]
  | succ n ih =>
    unfold innerLoop; dsimp only; split
    · rw [ih]; exact processStmt_clientId ..
    · simp [processStmt_clientId]

theorem innerLoop_noFinish (now : Time) (fuel : Nat) (d : Dev) (a : Action) (o : Oracle) (acc : List Out)
    (h : ∀ x ∈ acc, isFinish x = false) : ∀ x ∈ (innerLoop now fuel d a o acc).out, isFinish x = false := by
  induction fuel generalizing d a o acc with
  | zero =>
    intro x hx; simp [innerLoop] at hx; rcases hx with hx | hx
    · exact h x hx
    · exact processStmt_noFinish _ _ _ _ x hx
  | succ n ih =>
    unfold innerLoop; dsimp only; split
    · apply ih; intro x hx; simp at hx; rcases hx with hx | hx
      · exact h x hx
      · exact processStmt_noFinish _ _ _ _ x hx
    · intro x hx; simp at hx; rcases hx with hx | hx
      · exact h x hx
      · exact processStmt_noFinish _ _ _ _ x hx

theorem failAll_owned (rest : List Action) (c : CS) (a : Action) (o : Oracle) (out : List Out) (tmo : Option Time) :
    ∀ cid e, Out.finish cid e ∈ (failAll rest c a o out tmo).2.2.1 →
      Out.finish cid e ∈ out ∨ a.clientId = cid ∨ ∃ b ∈ rest, b.clientId = cid := by
  intro cid e h
  unfold failAll at h
  dsimp only at h
  split at h <;> (simp at h; grind)

theorem onTimeout_owned (rest : List Action) (c : CS) (a : Action) (o : Oracle) (out : List Out) (tmo : Option Time) :
    ∀ cid e, Out.finish cid e ∈ (onTimeout rest c a o out tmo).2.2.1 →
      Out.finish cid e ∈ out ∨ a.clientId = cid ∨ ∃ b ∈ rest, b.clientId = cid := by
  intro cid e h
  unfold onTimeout at h
  dsimp only at h
  have hT := teleMem_noFinish a.clientId "recv(dev): '" c.dev.fromBuf
  generalize htele : (if a.telemetry = true then
      (if (c.dev.conn != 2) = true then [Out.telemetry a.clientId (str "connect(dev): timeout")]
       else teleMem a.clientId "recv(dev): '" c.dev.fromBuf) else []) = tele at h
  have hnt : ∀ x ∈ tele, isFinish x = false := by
    subst htele; intro x hx
    split at hx
    · split at hx
      · simp at hx; subst hx; rfl
      · exact hT x hx
    · simp at hx
  have noF : Out.finish cid e ∈ out ++ tele → Out.finish cid e ∈ out := by
    intro hx; simp at hx; rcases hx with hx | hx
    · exact hx
    · have := hnt _ hx; simp [isFinish] at this
  split at h
  · exact Or.inl (noF h)
  · rcases failAll_owned _ _ _ _ _ _ cid e h with h1 | h1 | h1
    · exact Or.inl (noF h1)
    · exact Or.inr (Or.inl h1)
    · exact Or.inr (Or.inr h1)

theorem advance_clientId (a : Action) : (advance a).clientId = a.clientId := by
  unfold advance; dsimp only; split <;> rfl

theorem onRun_owned (k : CS → Oracle → List Out → Option Time → PA) (rest : List Action) (c : CS) (a : Action) (o : Oracle)
    (out : List Out) (tmo : Option Time) (left : Time)
    (hk : ∀ c' o' out' tmo' cid e, Out.finish cid e ∈ (k c' o' out' tmo').2.2.1 →
        Out.finish cid e ∈ out' ∨ ∃ b ∈ c'.dev.acts, b.clientId = cid) :
    ∀ cid e, Out.finish cid e ∈ (onRun k rest c a o out tmo left).2.2.1 →
      Out.finish cid e ∈ out ∨ a.clientId = cid ∨ ∃ b ∈ rest, b.clientId = cid := by
  intro cid e h
  unfold onRun at h
  dsimp only at h
  have hIL := innerLoop_noFinish c.env.now (loopBound a) { c.dev with wake := none } a o [] (by simp)
  have hIC := innerLoop_clientId c.env.now (loopBound a) { c.dev with wake := none } a o []
  generalize innerLoop c.env.now (loopBound a) { c.dev with wake := none } a o [] = r at *
  have hadv := advance_clientId r.act
  generalize advance r.act = a' at *
  have noF : Out.finish cid e ∈ out ++ r.out → Out.finish cid e ∈ out := by
    intro hx; simp at hx; rcases hx with hx | hx
    · exact hx
    · have := hIL _ hx; simp [isFinish] at this
  split at h
  · exact Or.inl (noF h)
  · split at h
    · exact Or.inl (noF h)
    · split at h
      · split at h
        · rcases hk _ _ _ _ cid e h with h1 | ⟨b, hb, hbc⟩
          · rw [List.mem_append] at h1; rcases h1 with h1 | h1
            · exact Or.inl (noF h1)
            · split at h1
              · simp at h1; right; left; rw [← hIC, ← hadv]; exact h1.1.symm
              · simp at h1
          · exact Or.inr (Or.inr ⟨b, hb, hbc⟩)
        · rcases hk _ _ _ _ cid e h with h1 | ⟨b, hb, hbc⟩
          · exact Or.inl (noF h1)
          · simp at hb; rcases hb with hb | hb
            · right; left; rw [← hbc, hb, hadv, hIC]
            · exact Or.inr (Or.inr ⟨b, hb, hbc⟩)
      · rcases failAll_owned _ _ _ _ _ _ cid e h with h1 | h1 | h1
        · exact Or.inl (noF h1)
        · exact Or.inr (Or.inl (by rw [← h1, hIC]))
        · exact Or.inr (Or.inr h1)

theorem stamp_clientId (now : Time) (a : Action) : (stamp now a).clientId = a.clientId := by
  unfold stamp; split <;> rfl

/-- C11 routing, device half, on the mirror that was compared with `device.c`: every completion one pass of
    `_process_action` reports carries the client id of an action that was in this device's queue when the pass
    began — for every queue, script, oracle, environment and fuel. -/
theorem finishes_owned (fuel : Nat) (c : CS) (o : Oracle) (out : List Out) (tmo : Option Time) :
    ∀ cid e, Out.finish cid e ∈ (processActionF fuel c o out tmo).2.2.1 →
      Out.finish cid e ∈ out ∨ ∃ a ∈ c.dev.acts, a.clientId = cid := by
  induction fuel generalizing c o out tmo with
  | zero => intro cid e h; simp [processActionF] at h; exact Or.inl h
  | succ n ih =>
    intro cid e h
    unfold processActionF processActionBody at h
    split at h
    · exact Or.inl h
    · split at h
      · exact Or.inl h
      · rename_i a0 rest hacts
        rw [hacts]
        dsimp only at h
        have hs := stamp_clientId c.env.now a0
        generalize stamp c.env.now a0 = a at *
        split at h
        · rcases onTimeout_owned _ _ _ _ _ _ cid e h with h1 | h1 | ⟨b, hb, hbc⟩
          · exact Or.inl h1
          · exact Or.inr ⟨a0, by simp, by rw [← h1, hs]⟩
          · exact Or.inr ⟨b, by simp [hb], hbc⟩
        · split at h
          · exact Or.inl h
          · rcases onRun_owned _ _ _ _ _ _ _ _ (fun c' o' out' tmo' => ih c' o' out' tmo') cid e h with h1 | h1 | ⟨b, hb, hbc⟩
            · exact Or.inl h1
            · exact Or.inr ⟨a0, by simp, by rw [← h1, hs]⟩
            · exact Or.inr ⟨b, by simp [hb], hbc⟩

/-- the same for the entry point the pass really uses (fuel computed from the queue) -/
theorem processAction_finishes_owned (c : CS) (o : Oracle) (tmo : Option Time) :
    ∀ cid e, Out.finish cid e ∈ (processAction c o [] tmo).2.2.1 → ∃ a ∈ c.dev.acts, a.clientId = cid := by
  intro cid e h
  rcases finishes_owned _ c o [] tmo cid e h with h1 | h1
  · simp at h1
  · exact h1

