import Pm.Dev2Login2
import Pm.QueryEv
/-! C03, the match object after fix e0ac8ce (finding F38): `_process_action` recycles `dev->xmatch` whenever an action leaves
    the queue.  Helper lemmas for `C03_match_is_own`:

* `StackOK`: every context of an action's stack below the top one is a block statement in progress (`foreach` with its plug
  iterator, `if` with `processing`);
* `AtStart`: the action stands where `_create_action` / `_rewind_action` put it — one context, first statement, nothing in
  progress — and that first statement is not an `expect` (an `expect` recycles the match object itself);
* `RegInv`: on a device that is connected and logged in, the match object is in use (`xm_used`) only while the head of the
  queue is past its start; it is kept by everything the daemon does to a device (`Reach.regInv`). -/
namespace Pm.Dev2.MatchOwn
open Pm.Dev2 Pm.Dev2.Login2

/-- a context that waits for an inner block to end: a `foreach` holds its plug iterator, an `if` has `processing` set -/
def InProgress (e : ExecCtx) : Prop := e.plugItr.isSome = true ∨ e.processing = true

/-- every context below the top of the stack is a block statement in progress -/
def StackOKE (ex : List ExecCtx) : Prop := ∀ e ∈ ex.drop 1, InProgress e
def StackOK (a : Action) : Prop := StackOKE a.exec

/-- the stack `_create_action` and `_rewind_action` leave (one context, at its first statement, no `send`/`delay`/`if` in
    progress, no plug iterator) on a script whose first statement is not an `expect` -/
def AtStartE (ex : List ExecCtx) : Prop :=
  ∃ e, ex = [e] ∧ e.pos = 0 ∧ e.processing = false ∧ e.plugItr = none ∧ ∀ pat, e.block[0]? ≠ some (Stmt.expect pat)
def AtStart (a : Action) : Prop := AtStartE a.exec

theorem stackOKE_single (e : ExecCtx) : StackOKE [e] := by intro x hx; simp at hx
theorem stackOKE_nil : StackOKE [] := by intro x hx; simp at hx

theorem stackOK_setTop (a : Action) (e : ExecCtx) (h : StackOK a) : StackOK (setTop a e) := by
  unfold StackOK StackOKE setTop at *; simpa using h

theorem not_atStart_of_processing (a : Action) (h : (topCtx a).processing = true) : ¬ AtStart a := by
  rintro ⟨e, hex, _, hp, _⟩
  simp [topCtx, hex, hp] at h

theorem not_atStart_setTop_processing (a : Action) (e : ExecCtx) (h : e.processing = true) : ¬ AtStart (setTop a e) := by
  rintro ⟨e', hex, _, hp, _⟩
  simp only [setTop] at hex
  have : e = e' := by
    cases hd : a.exec.drop 1 <;> simp_all
  subst this; simp [hp] at h

theorem not_atStart_of_expect (a : Action) (pat : Nat) (h : (topCtx a).block[(topCtx a).pos]? = some (Stmt.expect pat)) :
    ¬ AtStart a := by
  rintro ⟨e, hex, hpos, _, _, hne⟩
  have : topCtx a = e := by simp [topCtx, hex]
  rw [this, hpos] at h
  exact hne pat h

/-! ### one statement -/

theorem stmtExpect_act (d : Dev) (a : Action) (o : Oracle) (pat : Nat) : (stmtExpect d a o pat).act = a := by
  unfold stmtExpect; dsimp only; split
  · rfl
  · split <;> rfl

theorem stmtSend_stackOK (d a o e fmt) (h : StackOK a) : StackOK (stmtSend d a o e fmt).act := by
  unfold stmtSend
  split
  · dsimp only; split
    · exact h
    · split
      · exact stackOK_setTop _ _ (stackOK_setTop _ _ h)
      · exact stackOK_setTop _ _ h
  · split
    · exact stackOK_setTop _ _ h
    · exact h

theorem stmtSend_stalled (d a o fmt) (hf : (stmtSend d a o (topCtx a) fmt).finished = false) :
    ¬ AtStart (stmtSend d a o (topCtx a) fmt).act := by
  unfold stmtSend at hf ⊢
  split
  · rename_i hp
    rw [if_pos hp] at hf
    dsimp only at hf ⊢
    split
    · rename_i hs; rw [hs] at hf; simp at hf
    · rename_i s hs
      rw [hs] at hf; dsimp only at hf
      split
      · rename_i he; rw [if_pos he] at hf; simp at hf
      · exact not_atStart_setTop_processing _ _ rfl
  · rename_i hp
    rw [if_neg hp] at hf
    split
    · rename_i he; rw [if_pos he] at hf; simp at hf
    · exact not_atStart_of_processing a (by simpa using hp)

theorem stmtDelay_stackOK (d a o e now us) (h : StackOK a) : StackOK (stmtDelay d a o e now us).act := by
  unfold stmtDelay
  dsimp only
  by_cases hp : e.processing = true
  · simp only [hp, Bool.not_true, Bool.false_eq_true, ↓reduceIte]
    split
    · exact stackOK_setTop _ _ h
    · exact h
  · simp only [hp, Bool.not_false, ↓reduceIte]
    split
    · exact stackOK_setTop _ _ (stackOK_setTop _ _ h)
    · exact stackOK_setTop _ _ h

theorem stmtDelay_stalled (d a o now us) (hf : (stmtDelay d a o (topCtx a) now us).finished = false) :
    ¬ AtStart (stmtDelay d a o (topCtx a) now us).act := by
  unfold stmtDelay at hf ⊢
  dsimp only at hf ⊢
  by_cases hp : (topCtx a).processing = true
  · simp only [hp, Bool.not_true, Bool.false_eq_true, ↓reduceIte] at hf ⊢
    split
    · rename_i hc; rw [if_pos hc] at hf; simp at hf
    · exact not_atStart_of_processing a hp
  · simp only [hp, Bool.not_false, ↓reduceIte] at hf ⊢
    split
    · rename_i hc; rw [if_pos hc] at hf; simp at hf
    · exact not_atStart_setTop_processing _ _ rfl

theorem stmtSetplugstate_act (d a o e l p s i) : (stmtSetplugstate d a o e l p s i).act = a := by
  unfold stmtSetplugstate; dsimp only; split
  · rfl
  · split <;> rfl
theorem stmtSetplugstate_fin (d a o e l p s i) : (stmtSetplugstate d a o e l p s i).finished = true := by
  unfold stmtSetplugstate; dsimp only; split
  · rfl
  · split <;> rfl
theorem stmtSetresult_act (d a o p s i) : (stmtSetresult d a o p s i).act = a := by
  unfold stmtSetresult; split
  · rfl
  · split <;> rfl
theorem stmtSetresult_fin (d a o p s i) : (stmtSetresult d a o p s i).finished = true := by
  unfold stmtSetresult; split
  · rfl
  · split <;> rfl

theorem stmtForeach_stackOK (d a o e b n) (h : StackOK a) : StackOK (stmtForeach d a o e b n).act := by
  unfold stmtForeach
  dsimp only
  split
  · intro x hx
    simp only [List.drop_succ_cons, List.drop_zero, List.mem_cons] at hx
    rcases hx with hx | hx
    · subst hx; left; rfl
    · exact h x hx
  · exact stackOK_setTop _ _ h
theorem stmtForeach_fin (d a o e b n) : (stmtForeach d a o e b n).finished = true := by
  unfold stmtForeach; dsimp only; split <;> rfl

theorem stmtIf_stackOK (d a o e b n) (h : StackOK a) : StackOK (stmtIf d a o e b n).act := by
  unfold stmtIf
  unfold StackOK StackOKE InProgress setTop at *
  grind
theorem stmtIf_fin (d a o e b n) : (stmtIf d a o e b n).finished = true := by
  unfold stmtIf; grind

theorem processStmt_stackOK (d : Dev) (a : Action) (o : Oracle) (now : Time) (h : StackOK a) :
    StackOK (processStmt d a o now).act := by
  unfold processStmt
  dsimp only
  split
  · exact h
  · rw [stmtExpect_act]; exact h
  · exact stmtSend_stackOK _ _ _ _ _ h
  · exact stmtDelay_stackOK _ _ _ _ _ _ h
  · rw [stmtSetplugstate_act]; exact h
  · rw [stmtSetresult_act]; exact h
  · exact stmtForeach_stackOK _ _ _ _ _ _ h
  · exact stmtForeach_stackOK _ _ _ _ _ _ h
  · exact stmtIf_stackOK _ _ _ _ _ _ h
  · exact stmtIf_stackOK _ _ _ _ _ _ h

/-- a statement that stalls (`expect` without a match, `send` not yet flushed, `delay` not yet over) leaves the action past
    its start -/
theorem processStmt_stalled (d : Dev) (a : Action) (o : Oracle) (now : Time)
    (hf : (processStmt d a o now).finished = false) : ¬ AtStart (processStmt d a o now).act := by
  unfold processStmt at hf ⊢
  dsimp only at hf ⊢
  split
  · rename_i h; rw [h] at hf; simp at hf
  · rename_i pat h; rw [stmtExpect_act]; exact not_atStart_of_expect a pat h
  · rename_i fmt h; rw [h] at hf; exact stmtSend_stalled d a o fmt hf
  · rename_i us h; rw [h] at hf; exact stmtDelay_stalled d a o now us hf
  · rename_i h; rw [h] at hf; simp [stmtSetplugstate_fin] at hf
  · rename_i h; rw [h] at hf; simp [stmtSetresult_fin] at hf
  · rename_i h; rw [h] at hf; simp [stmtForeach_fin] at hf
  · rename_i h; rw [h] at hf; simp [stmtForeach_fin] at hf
  · rename_i h; rw [h] at hf; simp [stmtIf_fin] at hf
  · rename_i h; rw [h] at hf; simp [stmtIf_fin] at hf

theorem innerLoop_stackOK (now : Time) (fuel : Nat) (d : Dev) (a : Action) (o : Oracle) (acc : List Out) (h : StackOK a) :
    StackOK (innerLoop now fuel d a o acc).act := by
  induction fuel generalizing d a o acc with
  | zero => simpa [innerLoop] using processStmt_stackOK d a o now h
  | succ n ih =>
    unfold innerLoop; dsimp only
    split
    · exact ih _ _ _ _ (processStmt_stackOK d a o now h)
    · simpa using processStmt_stackOK d a o now h

theorem innerLoop_stalled (now : Time) (fuel : Nat) (d : Dev) (a : Action) (o : Oracle) (acc : List Out)
    (hf : (innerLoop now fuel d a o acc).finished = false) : ¬ AtStart (innerLoop now fuel d a o acc).act := by
  induction fuel generalizing d a o acc with
  | zero => simp only [innerLoop] at hf ⊢; exact processStmt_stalled d a o now hf
  | succ n ih =>
    unfold innerLoop at hf ⊢; dsimp only at hf ⊢
    split
    · rename_i hc; rw [if_pos hc] at hf; exact ih _ _ _ _ hf
    · rename_i hc; rw [if_neg hc] at hf; exact processStmt_stalled d a o now hf

/-! ### `e->cur = list_next(e->stmtitr)` and the pop -/

theorem advance_stackOK (a : Action) (h : StackOK a) : StackOK (advance a) := by
  unfold advance; dsimp only
  split
  · intro x hx
    exact h x (List.mem_of_mem_drop hx)
  · exact stackOK_setTop _ _ h

/-- after the step to the next statement the action is past its start, or it is over -/
theorem advance_started (a : Action) (h : StackOK a) : ¬ AtStart (advance a) ∨ (advance a).exec = [] := by
  unfold advance; dsimp only
  split
  · cases hd : a.exec.drop 1 with
    | nil => right; rfl
    | cons x r =>
      left
      rintro ⟨e, hex, _, hp, hi, _⟩
      simp only [hd] at hex
      have hx : x = e := by simpa using (List.cons.inj hex).1
      have := h x (by simp [hd])
      subst hx
      rcases this with h1 | h1
      · simp [hi] at h1
      · simp [hp] at h1
  · left
    rintro ⟨e, hex, hpos, _⟩
    simp only [setTop] at hex
    have : ({ topCtx a with pos := (topCtx a).pos + 1 } : ExecCtx) = e := by
      cases hd : a.exec.drop 1 <;> simp_all
    rw [← this] at hpos
    simp at hpos

/-! ### the invariant -/

structure RegInv (d : Dev) : Prop where
  /-- every queued action has a well-formed stack -/
  stacks : ∀ a ∈ d.acts, StackOK a
  /-- `logged_in` is cleared by `_disconnect` -/
  nolog : d.conn ≠ 2 → d.loggedIn = false
  /-- connected and logged in: the match object is in use only while the head of the queue is past its start -/
  clean : d.conn = 2 → d.loggedIn = true → (∀ a rest, d.acts = a :: rest → AtStart a) → d.xmUsed = false

/-- not logged in: only the stacks matter -/
theorem RegInv.of_notLogged {d : Dev} (hs : ∀ a ∈ d.acts, StackOK a) (hl : d.loggedIn = false) : RegInv d :=
  ⟨hs, fun _ => hl, fun _ h => by simp [hl] at h⟩

/-- nothing the invariant looks at has changed -/
structure SameReg (d d' : Dev) : Prop where
  conn : d'.conn = d.conn
  loggedIn : d'.loggedIn = d.loggedIn
  acts : d'.acts = d.acts
  used : d'.xmUsed = d.xmUsed

theorem SameReg.regInv {d d' : Dev} (s : SameReg d d') (h : RegInv d) : RegInv d' :=
  ⟨by rw [s.acts]; exact h.stacks, by rw [s.conn, s.loggedIn]; exact h.nolog,
   by rw [s.conn, s.loggedIn, s.acts, s.used]; exact h.clean⟩

theorem SameReg.rfl' (d : Dev) : SameReg d d := ⟨rfl, rfl, rfl, rfl⟩
theorem SameReg.trans {a b c : Dev} (h1 : SameReg a b) (h2 : SameReg b c) : SameReg a c :=
  ⟨h2.conn.trans h1.conn, h2.loggedIn.trans h1.loggedIn, h2.acts.trans h1.acts, h2.used.trans h1.used⟩

/-- appending fresh actions behind the queue -/
theorem RegInv.append {d d' : Dev} (h : RegInv d) (l : List Action) (hl : ∀ a ∈ l, StackOK a) (hc : d'.conn = d.conn)
    (hg : d'.loggedIn = d.loggedIn) (hu : d'.xmUsed = d.xmUsed) (ha : d'.acts = d.acts ++ l) : RegInv d' := by
  refine ⟨?_, by rw [hc, hg]; exact h.nolog, ?_⟩
  · intro a hm; rw [ha] at hm
    rcases List.mem_append.1 hm with hm | hm
    · exact h.stacks a hm
    · exact hl a hm
  · intro h2 h3 hat
    rw [hu]; rw [hc] at h2; rw [hg] at h3
    apply h.clean h2 h3
    intro a rest hx
    exact hat a (rest ++ l) (by rw [ha, hx]; rfl)

theorem rewind_stackOK (a : Action) (h : StackOK a) : StackOK (rewind a) := by
  unfold rewind; split
  · exact stackOKE_single _
  · exact h

theorem loginAction_stackOK (d : Dev) : StackOK (loginAction d) := stackOKE_single _

theorem enqueueLogin_stacks (d : Dev) (h : ∀ a ∈ d.acts, StackOK a) : ∀ a ∈ (enqueueLogin d).acts, StackOK a := by
  unfold enqueueLogin
  intro a hm
  simp only [List.mem_cons] at hm
  rcases hm with hm | hm
  · subst hm; exact loginAction_stackOK d
  · cases hd : d.acts with
    | nil => simp [hd] at hm
    | cons x r =>
      simp only [hd, List.mem_cons] at hm
      rcases hm with hm | hm
      · subst hm; exact rewind_stackOK x (h x (by simp [hd]))
      · exact h a (by simp [hd, hm])

/-! ### connect, disconnect, reconnect: the device is not logged in afterwards -/

theorem finishConnectOne_keeps (c : CS) : (finishConnectOne c).1.dev.acts = c.dev.acts ∧
    (finishConnectOne c).1.dev.loggedIn = c.dev.loggedIn := by
  unfold finishConnectOne; split
  · dsimp only; split <;> exact ⟨rfl, rfl⟩
  · exact ⟨rfl, rfl⟩

theorem connectOne_keeps (c : CS) : (connectOne c).1.dev.acts = c.dev.acts ∧
    (connectOne c).1.dev.loggedIn = c.dev.loggedIn := ⟨(connectOne_frame c).dev.acts, (connectOne_frame c).dev.loggedIn⟩

theorem tcpConnect_keeps (c : CS) : (tcpConnect c).1.dev.acts = c.dev.acts ∧
    (tcpConnect c).1.dev.loggedIn = c.dev.loggedIn := ⟨(tcpConnect_frame c).dev.acts, (tcpConnect_frame c).dev.loggedIn⟩

theorem pipeConnect_keeps (c : CS) : (pipeConnect c).1.dev.acts = c.dev.acts ∧
    (pipeConnect c).1.dev.loggedIn = c.dev.loggedIn := by
  unfold pipeConnect
  split
  · exact ⟨rfl, rfl⟩
  · split
    · exact ⟨rfl, rfl⟩
    · split <;> exact ⟨rfl, rfl⟩

theorem enqueueLogin_loggedIn (d : Dev) : (enqueueLogin d).loggedIn = d.loggedIn := by unfold enqueueLogin; rfl

theorem connectDev_regInv (c : CS) (hs : ∀ a ∈ c.dev.acts, StackOK a) (hl : c.dev.loggedIn = false) :
    RegInv (connectDev c).dev := by
  unfold connectDev
  dsimp only
  have key : ∀ r : CS × Bool, r.1.dev.acts = c.dev.acts → r.1.dev.loggedIn = false →
      RegInv (if (r.2 && !r.1.aborted) = true then { r.1 with dev := enqueueLogin r.1.dev } else r.1).dev := by
    intro r h1 h2
    split
    · exact RegInv.of_notLogged (enqueueLogin_stacks _ (by rw [h1]; exact hs)) (by rw [enqueueLogin_loggedIn]; exact h2)
    · exact RegInv.of_notLogged (by rw [h1]; exact hs) h2
  split
  · have := pipeConnect_keeps { c with dev := { c.dev with lastRetry := c.env.now, retryCount := c.dev.retryCount + 1 } }
    exact key _ this.1 (this.2.trans hl)
  · have := tcpConnect_keeps { c with dev := { c.dev with lastRetry := c.env.now, retryCount := c.dev.retryCount + 1 } }
    exact key _ this.1 (this.2.trans hl)

theorem disconnectDev_stacks (c : CS) (hs : ∀ a ∈ c.dev.acts, StackOK a) :
    (∀ a ∈ (disconnectDev c).dev.acts, StackOK a) ∧ (disconnectDev c).dev.loggedIn = false := by
  have hsub : ∀ a ∈ (disconnectDev c).dev.acts, a ∈ c.dev.acts := by
    unfold disconnectDev; grind
  exact ⟨fun a hm => hs a (hsub a hm), by unfold disconnectDev; rfl⟩

theorem reconnectDev_regInv (c : CS) (tmo : Option Time) (h : RegInv c.dev) : RegInv (reconnectDev c tmo).1.dev := by
  unfold reconnectDev
  dsimp only
  have h1 : (∀ a ∈ (if (c.dev.conn != 0) = true then disconnectDev c else c).dev.acts, StackOK a) ∧
      (if (c.dev.conn != 0) = true then disconnectDev c else c).dev.loggedIn = false := by
    split
    · exact disconnectDev_stacks c h.stacks
    · rename_i hc
      exact ⟨h.stacks, h.nolog (by simp at hc; simp [hc])⟩
  generalize (if (c.dev.conn != 0) = true then disconnectDev c else c) = c1 at *
  split
  · exact connectDev_regInv c1 h1.1 h1.2
  · exact RegInv.of_notLogged h1.1 h1.2
  · exact RegInv.of_notLogged h1.1 h1.2

/-! ### the error branch, the timeout branch, the statement runner, the loop -/

theorem failAll_regInv (rest : List Action) (c : CS) (a : Action) (o : Oracle) (out : List Out) (tmo : Option Time)
    (h : c.dev.conn ≠ 2 → c.dev.loggedIn = false) : RegInv (failAll rest c a o out tmo).1.dev := by
  unfold failAll
  dsimp only
  have h0 : RegInv { c.dev with acts := [], xmStr := none, xmResult := false, xmUsed := false } :=
    ⟨by intro a hm; simp at hm, h, fun _ _ _ => rfl⟩
  split
  · exact reconnectDev_regInv { c with dev := { c.dev with acts := [], xmStr := none, xmResult := false, xmUsed := false } } tmo h0
  · exact h0

theorem onTimeout_regInv (rest : List Action) (c : CS) (a : Action) (o : Oracle) (out : List Out) (tmo : Option Time)
    (h : c.dev.conn ≠ 2 → c.dev.loggedIn = false)
    (hna : (onTimeout rest c a o out tmo).1.aborted = false) : RegInv (onTimeout rest c a o out tmo).1.dev := by
  unfold onTimeout at hna ⊢
  dsimp only at hna ⊢
  generalize (if a.telemetry = true then
      (if (c.dev.conn != 2) = true then [Out.telemetry a.clientId (str "connect(dev): timeout")]
       else teleMem a.clientId "recv(dev): '" c.dev.fromBuf) else []) = tele at *
  cases hh : hasAbort tele
  · simp only [Bool.false_eq_true, ↓reduceIte]
    exact failAll_regInv _ _ _ _ _ _ h
  · simp [hh] at hna

theorem onRun_regInv (k : CS → Oracle → List Out → Option Time → PA) (rest : List Action) (c : CS) (a : Action) (o : Oracle)
    (out : List Out) (tmo : Option Time) (left : Time)
    (hc2 : c.dev.conn = 2) (ha : StackOK a) (hrest : ∀ b ∈ rest, StackOK b)
    (hk : ∀ c' o' out' tmo', RegInv c'.dev → (k c' o' out' tmo').1.aborted = false → RegInv (k c' o' out' tmo').1.dev)
    (hna : (onRun k rest c a o out tmo left).1.aborted = false) :
    RegInv (onRun k rest c a o out tmo left).1.dev := by
  unfold onRun at hna ⊢
  dsimp only at hna ⊢
  have hL := innerLoop_link c.env.now (loopBound a) { c.dev with wake := none } a o []
  have hS := innerLoop_stackOK c.env.now (loopBound a) { c.dev with wake := none } a o [] ha
  have hT := innerLoop_stalled c.env.now (loopBound a) { c.dev with wake := none } a o []
  generalize innerLoop c.env.now (loopBound a) { c.dev with wake := none } a o [] = r at *
  have hadv := advance_started r.act hS
  have hadvS := advance_stackOK r.act hS
  generalize advance r.act = a' at *
  obtain ⟨⟨hconn, hlog⟩, _⟩ := hL
  simp only at hconn hlog
  have hr2 : r.dev.conn = 2 := by rw [hconn]; exact hc2
  split
  · rename_i h; simp [h] at hna
  · rename_i h1
    simp only [h1] at hna
    split
    · rename_i hnf
      refine ⟨?_, fun hne => absurd hr2 hne, ?_⟩
      · intro b hm
        simp only [List.mem_cons] at hm
        rcases hm with hm | hm
        · subst hm; exact hS
        · exact hrest b hm
      · intro _ _ hat
        exact absurd (hat r.act rest rfl) (hT (by simpa using hnf))
    · rename_i h2
      simp only [h2] at hna
      split
      · rename_i h3
        simp only [h3] at hna
        split
        · rename_i h4
          simp only [h4] at hna
          apply hk _ _ _ _ _ (by simpa using hna)
          exact ⟨hrest, fun hne => absurd hr2 hne, fun _ _ _ => rfl⟩
        · rename_i h4
          simp only [h4] at hna
          apply hk _ _ _ _ _ (by simpa using hna)
          refine ⟨?_, fun hne => absurd hr2 hne, ?_⟩
          · intro b hm
            simp only [List.mem_cons] at hm
            rcases hm with hm | hm
            · subst hm; exact hadvS
            · exact hrest b hm
          · intro _ _ hat
            rcases hadv with hadv | hadv
            · exact absurd (hat a' rest rfl) hadv
            · simp [hadv] at h4
      · exact failAll_regInv _ _ _ _ _ _ (fun hne => absurd hr2 hne)

theorem stamp_exec (now : Time) (a : Action) : (stamp now a).exec = a.exec := by
  unfold stamp; split <;> rfl

/-- a pass of `_process_action` that does not end in a modelled abort keeps the invariant -/
theorem processActionF_regInv (fuel : Nat) (c : CS) (o : Oracle) (out : List Out) (tmo : Option Time)
    (h : RegInv c.dev) (hna : (processActionF fuel c o out tmo).1.aborted = false) :
    RegInv (processActionF fuel c o out tmo).1.dev := by
  induction fuel generalizing c o out tmo with
  | zero => simp [processActionF] at hna
  | succ n ih =>
    unfold processActionF processActionBody at hna ⊢
    by_cases hab : c.aborted = true
    · simp only [hab, ↓reduceIte] at hna ⊢; exact h
    · simp only [hab, Bool.false_eq_true, ↓reduceIte] at hna ⊢
      cases hacts : c.dev.acts with
      | nil => simp only [hacts] at hna ⊢; exact h
      | cons a0 rest =>
        simp only [hacts] at hna ⊢
        have hs := stamp_exec c.env.now a0
        have ha0 : StackOK a0 := h.stacks a0 (by simp [hacts])
        have hrest : ∀ b ∈ rest, StackOK b := fun b hb => h.stacks b (by simp [hacts, hb])
        generalize stamp c.env.now a0 = a at *
        have ha : StackOK a := by unfold StackOK; rw [hs]; exact ha0
        split
        · rename_i ht; simp only [ht, ↓reduceIte] at hna; exact onTimeout_regInv _ _ _ _ _ _ h.nolog hna
        · rename_i ht
          simp only [ht, ↓reduceIte] at hna
          split
          · rename_i hc
            refine ⟨?_, h.nolog, fun h2 => ?_⟩
            · intro b hm
              simp only [List.mem_cons] at hm
              rcases hm with hm | hm
              · subst hm; exact ha
              · exact hrest b hm
            · simp at hc; exact absurd h2 hc
          · rename_i hc
            simp only [hc, ↓reduceIte] at hna
            exact onRun_regInv _ _ _ _ _ _ _ _ (by simpa using hc) ha hrest
              (fun c' o' out' tmo' hl hn => ih c' o' out' tmo' hl hn) hna

/-! ### `_handle_ready_device`, the ping, `dev_post_poll` -/

theorem telnetFilter_sameReg (d : Dev) (bs : Bytes) : SameReg d (telnetFilter d bs) := by
  unfold telnetFilter; exact ⟨rfl, rfl, rfl, rfl⟩

theorem readyWrite_sameReg (c : CS) : SameReg c.dev (readyWrite c).1.dev := by
  unfold readyWrite; split
  · exact SameReg.rfl' _
  · split
    · split <;> exact ⟨rfl, rfl, rfl, rfl⟩
    · exact SameReg.rfl' _

theorem readyRead_sameReg0 (c : CS) : SameReg c.dev (readyRead c).1.dev := by
  unfold readyRead; split
  · split
    · exact SameReg.rfl' _
    · dsimp only; split
      · exact ⟨rfl, rfl, rfl, rfl⟩
      · exact telnetFilter_sameReg _ _
  · exact SameReg.rfl' _
  · exact SameReg.rfl' _

theorem clipRead_sameReg (c : CS) : SameReg c.dev (clipRead c).dev := by
  unfold clipRead; split
  · exact ⟨rfl, rfl, rfl, rfl⟩
  · exact SameReg.rfl' _

theorem readyConnectFail_keeps (c : CS) : (readyConnectFail c).dev.acts = c.dev.acts ∧
    (readyConnectFail c).dev.loggedIn = c.dev.loggedIn :=
  ⟨(finishConnectFail_frame c).dev.acts, (finishConnectFail_frame c).dev.loggedIn⟩

theorem readyConnect_regInv (c : CS) (hs : ∀ a ∈ c.dev.acts, StackOK a) (hl : c.dev.loggedIn = false) :
    RegInv (readyConnect c).1.dev := by
  unfold readyConnect
  split
  · exact RegInv.of_notLogged hs hl
  have h1 := finishConnectOne_keeps c
  have h2 := readyConnectFail_keeps (finishConnectOne c).1
  have key : ∀ c1 : CS, c1.dev.acts = c.dev.acts → c1.dev.loggedIn = false → RegInv (readyConnectTail c1).1.dev := by
    intro c1 e1 e2
    unfold readyConnectTail
    split
    · exact RegInv.of_notLogged (by rw [e1]; exact hs) e2
    · split
      · exact RegInv.of_notLogged (enqueueLogin_stacks _ (by rw [e1]; exact hs)) (by rw [enqueueLogin_loggedIn]; exact e2)
      · exact RegInv.of_notLogged (by rw [e1]; exact hs) e2
  split
  · exact key _ h1.1 (h1.2.trans hl)
  · exact key _ (h2.1.trans h1.1) (h2.2.trans (h1.2.trans hl))

theorem readyTail_regInv (f : Nat) (r : CS × Bool × Bool) (h : RegInv r.1.dev) : RegInv (readyTail f r).1.dev := by
  unfold readyTail
  split
  · exact h
  · split
    · exact h
    · split
      · exact ((clipRead_sameReg r.1).trans (readyRead_sameReg0 _)).regInv h
      · exact h

theorem handleReady_regInv (c : CS) (h : RegInv c.dev) : RegInv (handleReady c).1.dev := by
  rw [Login2.handleReady_eq]; unfold Login2.handleReady'
  dsimp only
  split
  · exact h
  · split
    · exact h
    · split
      · exact h
      · apply readyTail_regInv
        split
        · split
          · rename_i hc1
            exact readyConnect_regInv c h.stacks (h.nolog (by simp at hc1; simp [hc1]))
          · exact (readyWrite_sameReg c).regInv h
        · exact h

theorem pingAction_stackOK (d : Dev) : StackOK (pingAction d) := stackOKE_single _

theorem postPollPing_regInv (now : Time) (r : CS × Option Time) (h : RegInv r.1.dev) :
    RegInv (postPollPing now r).1.dev := by
  have ha : RegInv (appendPing now r.1).dev :=
    h.append [pingAction r.1.dev] (by intro a hm; simp at hm; subst hm; exact pingAction_stackOK _) rfl rfl rfl rfl
  unfold postPollPing
  split
  · split
    · split
      · exact ha
      · exact h
    · exact ha
  · exact h

theorem postPollReady_regInv (d : Dev) (env : Env) (h : RegInv d) : RegInv (postPollReady d env).1.dev := by
  unfold postPollReady
  generalize (if d.fd.isSome then env.revents else 0) = fl
  split
  · exact handleReady_regInv { dev := d, env := _, sys := [] } h
  · exact h

theorem postPollReconnect_regInv (r : CS × Bool) (h : RegInv r.1.dev) : RegInv (postPollReconnect r).1.dev := by
  unfold postPollReconnect
  split
  · exact reconnectDev_regInv _ _ h
  · exact h

/-- **the invariant through the whole of `dev_post_poll`** -/
theorem postPoll_regInv (d : Dev) (env : Env) (o : Oracle) (h : RegInv d)
    (hna : (postPoll d env o).1.aborted = false) : RegInv (postPoll d env o).1.dev := by
  rw [Login2.postPoll_eq] at hna ⊢
  unfold Login2.postPoll' at hna ⊢
  split
  · exact postPollReady_regInv d env h
  · rename_i hr
    simp only [hr] at hna
    unfold processAction at hna ⊢
    unfold postPollPre at hna ⊢
    exact processActionF_regInv _ _ _ _ _
      (postPollPing_regInv _ _ (postPollReconnect_regInv _ (postPollReady_regInv d env h))) hna

/-! ### the client side and reachability -/

theorem mkAction_stackOK (d : Dev) (com : Nat) (plugs : Option (List Plug)) (cid : Nat) (tele : Bool) (al uid : Nat) :
    StackOK (Pm.Daemon.mkAction d com plugs cid tele al uid) := stackOKE_single _

theorem enqueue_regInv (d : Dev) (com : Nat) (targets : List Bytes) (cid : Nat) (tele : Bool) (al : Nat) (h : RegInv d) :
    RegInv (Pm.Daemon.enqueue d com targets cid tele al).1 := by
  unfold Pm.Daemon.enqueue
  dsimp only
  split
  · exact h
  · refine h.append _ ?_ rfl rfl rfl rfl
    intro a hm
    have hmk : ∃ com plugs cid tele al uid, a = Pm.Daemon.mkAction d com plugs cid tele al uid := by
      grind
    obtain ⟨com', plugs, cid', tele', al', uid, rfl⟩ := hmk
    exact mkAction_stackOK _ _ _ _ _ _ _

/-- a device as `dev_create` leaves it: nothing queued, not connected, not logged in -/
theorem regInv_init (d : Dev) (ha : d.acts = []) (hl : d.loggedIn = false) : RegInv d :=
  RegInv.of_notLogged (by intro a hm; simp [ha] at hm) hl

/-- **the invariant in every state the daemon can bring a device to** (`Login2.Reach`: initial connect, passes of
    `dev_post_poll` with any kernel and regex answers, client commands, the bookkeeping updates of `Pm.Daemon`) -/
theorem Reach.regInv {d0 d : Dev} (h : Reach d0 d) (h0 : RegInv d0) : RegInv d := by
  induction h with
  | init => exact h0
  | connect d env _ hc _ ih => exact connectDev_regInv _ ih.stacks (ih.nolog (by simp [hc]))
  | pass d env o _ hna ih => exact postPoll_regInv d env o ih hna
  | enqueue d com targets cid tele al _ ih => exact enqueue_regInv d com targets cid tele al ih
  | store d s _ ih => exact ⟨ih.stacks, ih.nolog, ih.clean⟩
  | retry d _ ih => exact ⟨ih.stacks, ih.nolog, ih.clean⟩

/-! ### what the invariant says about reads of the match object -/

/-- no match data: every `$N` reads as absent -/
theorem subOf_unused (d : Dev) (i : Int) (h : d.xmUsed = false) : subOf d i = none := by
  unfold subOf; simp [h]

/-- with no match data a `setplugstate` writes nothing (it may still pick the plug of its context, but finds no status text) -/
theorem stmtSetplugstate_unused (d : Dev) (a : Action) (o : Oracle) (e : ExecCtx) (lit : Option Bytes) (pm sm : Int)
    (is : List (PState × Nat)) (h : d.xmUsed = false) :
    (stmtSetplugstate d a o e lit pm sm is).dev = d ∧ (stmtSetplugstate d a o e lit pm sm is).oracle = o ∧
    (stmtSetplugstate d a o e lit pm sm is).out = [] := by
  unfold stmtSetplugstate
  dsimp only
  split
  · exact ⟨rfl, rfl, rfl⟩
  · rw [subOf_unused d sm h]
    exact ⟨rfl, rfl, rfl⟩

theorem stmtSetresult_unused (d : Dev) (a : Action) (o : Oracle) (pm sm : Int) (is : List (PResult × Nat))
    (h : d.xmUsed = false) :
    (stmtSetresult d a o pm sm is).dev = d ∧ (stmtSetresult d a o pm sm is).oracle = o ∧
    (stmtSetresult d a o pm sm is).out = [] := by
  unfold stmtSetresult
  rw [subOf_unused d pm h]
  exact ⟨rfl, rfl, rfl⟩

/-- a write event needs match data: the status text of a `setplugstate` / `setresult` is a capture group -/
theorem stmtEv_needs_match (d : Dev) (a : Action) (o : Oracle) (h : Pm.Dev2.QEv.stmtEv d a o ≠ []) : d.xmUsed = true := by
  cases hu : d.xmUsed
  · exfalso; apply h
    have hs : ∀ i, subOf d i = none := fun i => subOf_unused d i hu
    have h1 : ∀ e lit pm sm, spsTarget d e lit pm sm = none := by
      intro e lit pm sm; unfold spsTarget; dsimp only; split
      · rfl
      · rw [hs]
    have h2 : ∀ pm sm, srTarget d pm sm = none := by
      intro pm sm; unfold srTarget; rw [hs]
    unfold Pm.Dev2.QEv.stmtEv
    split
    · rw [h1]
    · rw [h2]
    · rfl
  · rfl

/-- the head of a connected, logged-in device that makes a write is past its start: some statement of *this* action has run
    since it was created or rewound -/
theorem write_not_atStart (d : Dev) (a : Action) (rest : List Action) (o : Oracle) (h : RegInv d) (hc : d.conn = 2)
    (hl : d.loggedIn = true) (ha : d.acts = a :: rest) (hw : Pm.Dev2.QEv.stmtEv d a o ≠ []) : ¬ AtStart a := by
  intro hs
  have := h.clean hc hl (by intro a' rest' hx; rw [ha] at hx; cases hx; exact hs)
  rw [stmtEv_needs_match d a o hw] at this
  cases this

/-! ### what the fix does not cover: the login action after an i/o error

`_disconnect` (reached from `_reconnect` after a read/write error or a hang-up) destroys a queued login action itself and does
not recycle the match object; `_connect` then puts a new login action at the head.  That action starts with whatever the
interrupted action — the old login, or a client action that will be rewound — had matched.  Harmless for the clients: a login
action has no arglist (`arglist_find(NULL, …)` finds nothing) and no client; and the action *behind* it starts clean, because
the login action either completes or fails, and both recycle. -/
namespace Ex
/-- a login script that opens with a `setplugstate` reading `$1`/`$2` (accepted by the parser, rejected by `specOK`) -/
def loginScript : List Stmt := [.setplugstate none 1 2 [(.on, 5)], .expect 0, .send [120]]
def d0 : Dev :=
  { plugs := [{ name := [111], node := some [110] }], scripts := fun k => if k == 0 then some loginScript else none,
    timeout := 5000000, acts := [], toBuf := [], fromBuf := [], xmStr := none, xmOffs := [], xmResult := false, xmUsed := false,
    args := [], nextUid := 1, shortCircuitDelay := false, conn := 0, fd := none }
def envC (now : Time) (s : Nat) : Env :=
  { now := now, revents := 0, sockets := [s], connects := [0], soerrs := [0], read := none, writeOk := true }
/-- `dev_initial_connect`: connected at once, the login action is queued -/
def d1 : Dev := (connectDev { dev := d0, env := envC 0 2000, sys := [] }).dev
/-- the device says `ok`: the login's `setplugstate` finds no match data and does nothing, its `expect` matches (`$1` = `o`,
    `$2` = `k`), its `send` waits for the descriptor to become writable -/
def d2 : Dev := (postPoll d1 { envC 1000 2001 with revents := 1, read := some (some [111, 107]) }
  { calls := [{ pat := 0, subject := [111, 107], answer := some [(0, 2), (0, 1), (1, 2)] }] }).1.dev
/-- two seconds later the device closes the connection -/
def env3 : Env := { envC 3000000 2001 with revents := 1, read := some (some []) }
/-- … `_reconnect`: connected at once, a new login action at the head; the state in which `_process_action` starts -/
def d3pre : Dev := (postPollPre d2 env3).1.dev
def o3 : Oracle := { calls := [{ pat := 5, subject := [107], answer := some [(0, 1)] }] }
theorem reach2 : Reach d0 d2 := .pass _ _ _ (.connect _ _ .init rfl (by decide +kernel)) (by decide +kernel)
theorem d2_is : d2.xmUsed = true ∧ d2.conn = 2 ∧ d2.loggedIn = false ∧ d2.args = [] ∧
    d2.acts.map (fun a => (a.com, (topCtx a).pos)) = [(0, 2)] := by
  decide +kernel
/-- the new login action stands at its first statement and the match object still holds the old connection's `ok`; its
    `setplugstate` makes a "write" (to no arglist: id 0) from that text, and `regexec` is called on the stale `k` -/
theorem d3pre_is : d3pre.xmUsed = true ∧ d3pre.xmStr = some [111, 107] ∧ d3pre.conn = 2 ∧ d3pre.loggedIn = false ∧
    d3pre.acts.map (fun a => (a.com, a.exec.length, (topCtx a).pos, (topCtx a).processing)) = [(0, 1, 0, false)] ∧
    (d3pre.acts.flatMap fun a => (Pm.Dev2.QEv.stmtEv d3pre a o3).map fun ev => (ev.cid, ev.al, ev.text, ev.subject)) =
      [(0, 0, [107], some [111, 107])] ∧
    (postPoll d2 env3 o3).2.1.calls = [] ∧ (postPoll d2 env3 o3).2.2.1 = [] ∧ (postPoll d2 env3 o3).1.aborted = false := by
  decide +kernel
end Ex

end Pm.Dev2.MatchOwn

#print axioms Pm.Dev2.MatchOwn.Reach.regInv
#print axioms Pm.Dev2.MatchOwn.postPoll_regInv
#print axioms Pm.Dev2.MatchOwn.write_not_atStart
#print axioms Pm.Dev2.MatchOwn.stmtSetplugstate_unused
#print axioms Pm.Dev2.MatchOwn.stmtSetresult_unused
#print axioms Pm.Dev2.MatchOwn.Ex.d3pre_is
#print axioms Pm.Dev2.MatchOwn.Ex.reach2
