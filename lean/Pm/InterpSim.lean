import Pm.InterpRef
/-! C08 part B: the stack of execution contexts of `device.c` refines a loop-free reference program.
    Same construction as the pilot `Pm/Interp2.lean`, over the real `Stmt` / `ExecCtx` / `Action` of `Pm/Dev2.lean`. -/
namespace Pm.Dev2.Interp

/-! ## the reference: a flat program run by one program counter -/

/-- operations of the flat program; everything that depends on the enclosing `foreach` has been resolved: a send
    carries its final text (`none`: the `hostlist_sort` assertion), a setplugstate its script argument, a guard the
    node whose state it tests -/
inductive FOp where
  | send (text : Option Bytes)
  | expect (pat : Nat)
  | delay (us : Time)
  | setplugstate (lit : Option Bytes) (plugMp statMp : Int) (interps : List (PState × Nat)) (target : Option Bytes)
  | setresult (plugMp statMp : Int) (interps : List (PResult × Nat))
  | guard (wantOn : Bool) (node : Option Bytes) (body : List FOp)

/-- the plugs a `foreach` runs over: the device's, or in a ranged script the plugs of the enclosing context -/
def eachList (R : Bool) (dp : List Plug) (plugs : Option (List Plug)) : List Plug := if R then plugs.getD [] else dp

mutual
/-- the script with every `foreach` unrolled over its plug list; `R`: ranged script, `dp`: the device's plugs,
    last argument: the plugs of the enclosing context -/
def unroll (R : Bool) (dp : List Plug) : List Stmt → Option (List Plug) → List FOp
  | [], _ => []
  | s :: r, pl => unrollStmt R dp s pl ++ unroll R dp r pl
def unrollStmt (R : Bool) (dp : List Plug) : Stmt → Option (List Plug) → List FOp
  | .send fmt, pl => [.send (sendText fmt pl)]
  | .expect p, _ => [.expect p]
  | .delay us, _ => [.delay us]
  | .setplugstate lit pm sm is, pl => [.setplugstate lit pm sm is (ctxName pl)]
  | .setresult pm sm is, _ => [.setresult pm sm is]
  | .foreachplug body, pl =>
    ((eachList R dp pl).filter fun p => !skipped false p).flatMap fun p => unroll R dp body (some [p])
  | .foreachnode body, pl =>
    ((eachList R dp pl).filter fun p => !skipped true p).flatMap fun p => unroll R dp body (some [p])
  | .ifon body, pl => [.guard true (ctxNode pl) (unroll R dp body (some (pl.getD [])))]
  | .ifoff body, pl => [.guard false (ctxNode pl) (unroll R dp body (some (pl.getD [])))]
end

/-- the part of a `foreach` that is still to come when the plugs `ps` have not been looked at yet -/
def unrollEach (R : Bool) (dp : List Plug) (isNode : Bool) (ps : List Plug) (body : List Stmt) : List FOp :=
  (ps.filter fun p => !skipped isNode p).flatMap fun p => unroll R dp body (some [p])

/-- the fields of an action the reference needs (everything but the context stack) -/
structure FA where
  clientId : Nat
  telemetry : Bool
  arglist : Nat
  errnum : ActErr
  delayStart : Time

def info (a : Action) : FA := ⟨a.clientId, a.telemetry, a.arglist, a.errnum, a.delayStart⟩

/-- state of the reference: the rest of the flat program, and whether its first operation (a send or a delay) has
    already been started -/
structure F where
  rem : List FOp
  inflight : Bool

inductive Status where
  | running | stalled | failed | aborted | done
deriving DecidableEq, Repr

/-- what `_process_action` does with the outcome of a statement -/
def classify (out : List Out) (finished : Bool) : Status :=
  if hasAbort out then .aborted else if !finished then .stalled else .running

structure FR where
  dev : Dev
  info : FA
  oracle : Oracle
  out : List Out
  f : F
  status : Status


/-! ### the leaf operations without the action around them -/

/-- `_process_expect`: new device state, oracle, output, finished -/
def expectPure (d : Dev) (tel : Bool) (cid : Nat) (o : Oracle) (pat : Nat) : Dev × Oracle × List Out × Bool :=
  let d := { d with xmStr := none, xmResult := false, xmUsed := false }
  if d.fromBuf.isEmpty then (d, o, [], false) else
  let subject := rxSubject d.fromBuf
  let q := askRx o pat subject
  match q.2.1 with
  | none => ({ d with xmUsed := true, xmResult := false }, q.1, q.2.2, false)
  | some offs =>
    let eo := (offs.headD (0, 0)).2.toNat
    ({ d with xmUsed := true, xmResult := true, xmStr := some subject, xmOffs := offs, fromBuf := d.fromBuf.drop eo },
      q.1, q.2.2 ++ (if tel then teleMem cid "recv(dev): '" (subject.take eo) else []), true)

theorem stmtExpect_pure (d : Dev) (a : Action) (o : Oracle) (pat : Nat) :
    stmtExpect d a o pat =
      ⟨(expectPure d a.telemetry a.clientId o pat).1, a, (expectPure d a.telemetry a.clientId o pat).2.1,
       (expectPure d a.telemetry a.clientId o pat).2.2.1, (expectPure d a.telemetry a.clientId o pat).2.2.2⟩ := by
  unfold stmtExpect expectPure rxSubject
  dsimp only
  split
  · rfl
  · generalize askRx o pat _ = q
    obtain ⟨o', ans, errs⟩ := q
    cases ans <;> rfl

/-- `_process_setplugstate`: new device state, oracle, output (without match data — `!xm_used` — every `subOf` is `none`:
    nothing happens) -/
def setplugstatePure (d : Dev) (al : Nat) (o : Oracle) (target : Option Bytes) (lit : Option Bytes) (plugMp statMp : Int)
    (interps : List (PState × Nat)) : Dev × Oracle × List Out :=
  match chosenName d lit plugMp target with
  | none => (d, o, [])
  | some pn =>
    match subOf d statMp, findPlug d pn with
    | some s, some plug =>
      (setArgs d al (writeState (getArgs d al) (plug.node.getD []) (pickState askRx s interps o []).2.1 s),
        (pickState askRx s interps o []).1, (pickState askRx s interps o []).2.2)
    | _, _ => (d, o, [])

theorem setplugstateCore_pure (d : Dev) (a : Action) (o : Oracle) (t lit : Option Bytes) (pm sm : Int)
    (is : List (PState × Nat)) :
    setplugstateCore d a o t lit pm sm is =
      ⟨(setplugstatePure d a.arglist o t lit pm sm is).1, a, (setplugstatePure d a.arglist o t lit pm sm is).2.1,
       (setplugstatePure d a.arglist o t lit pm sm is).2.2, true⟩ := by
  unfold setplugstateCore setplugstatePure
  cases chosenName d lit pm t with
  | none => rfl
  | some pn => dsimp only; cases subOf d sm <;> cases findPlug d pn <;> rfl

/-- `_process_setresult` -/
def setresultPure (d : Dev) (al : Nat) (cid : Nat) (o : Oracle) (plugMp statMp : Int)
    (interps : List (PResult × Nat)) : Dev × Oracle × List Out :=
  match subOf d plugMp with
  | none => (d, o, [])
  | some pn =>
    match subOf d statMp, findPlug d pn with
    | some s, some plug =>
      let res := (pickResult askRx s interps o []).2.1
      let node := plug.node.getD []
      (setArgs d al (writeResult (getArgs d al) node res s), (pickResult askRx s interps o []).1,
        (pickResult askRx s interps o []).2.2 ++
          (if (getArgs d al).any (·.node == node) && res != .success then
            [Out.diag cid (node ++ str ": " ++ (s.takeWhile fun b => b != 13 && b != 10).take 1023)] else []))
    | _, _ => (d, o, [])

theorem stmtSetresult_pure (d : Dev) (a : Action) (o : Oracle) (pm sm : Int)
    (is : List (PResult × Nat)) :
    stmtSetresult d a o pm sm is =
      ⟨(setresultPure d a.arglist a.clientId o pm sm is).1, a, (setresultPure d a.arglist a.clientId o pm sm is).2.1,
       (setresultPure d a.arglist a.clientId o pm sm is).2.2, true⟩ := by
  unfold stmtSetresult setresultPure writeResult
  cases subOf d pm with
  | none => rfl
  | some pn => dsimp only; cases subOf d sm <;> cases findPlug d pn <;> rfl


/-! ### one step of the reference -/

def delayTeleI (i : FA) (us : Time) : List Out :=
  if i.telemetry then [Out.telemetry i.clientId (str s!"delay(dev): {us / 1000000}.{String.ofList (List.replicate (6 - (toString (us % 1000000)).length) '0')}{us % 1000000}")] else []

/-- one step of the reference on a non-empty program.  A send is started once (its text goes to the output buffer) and
    is left when the buffer has drained — the buffer holds 65536 bytes, beyond that the oldest queued bytes give way (`clipTo`)
    and the telemetry line of the send is not produced (`sendTele`) —; an expect is left when it matches; a delay is started once and left when its
    time has passed; a guard whose condition holds is replaced by its body, a guard on a known other state is skipped,
    a guard on an unknown state fails the action. -/
def fstep (now : Time) (d : Dev) (i : FA) (o : Oracle) (f : F) : FR :=
  match f.rem with
  | [] => ⟨d, i, o, [], f, .running⟩
  | .send text :: r =>
    if !f.inflight then
      match text with
      | none => ⟨d, i, o, [.abortAssert "hostlist_sort assert in _process_send"], f, .aborted⟩
      | some s =>
        let out := [Out.sent s] ++ sendTele d i.telemetry i.clientId s
        ⟨{ d with toBuf := clipTo (d.toBuf ++ s) }, i, o, out,
          if (d.toBuf ++ s).isEmpty then ⟨r, false⟩ else ⟨f.rem, true⟩, classify out (d.toBuf ++ s).isEmpty⟩
    else ⟨d, i, o, [], if d.toBuf.isEmpty then ⟨r, false⟩ else f, classify [] d.toBuf.isEmpty⟩
  | .expect pat :: r =>
    let p := expectPure d i.telemetry i.clientId o pat
    ⟨p.1, i, p.2.1, p.2.2.1, if p.2.2.2 then ⟨r, false⟩ else f, classify p.2.2.1 p.2.2.2⟩
  | .delay us :: r =>
    let start := if f.inflight then i.delayStart else now
    let tele := if f.inflight then [] else delayTeleI i us
    if d.shortCircuitDelay || now ≥ start + us then
      ⟨d, { i with delayStart := start }, o, tele, ⟨r, false⟩, classify tele true⟩
    else ⟨{ d with wake := some (start + us - now) }, { i with delayStart := start }, o, tele, ⟨f.rem, true⟩, classify tele false⟩
  | .setplugstate lit pm sm is target :: r =>
    let p := setplugstatePure d i.arglist o target lit pm sm is
    ⟨p.1, i, p.2.1, p.2.2, ⟨r, false⟩, classify p.2.2 true⟩
  | .setresult pm sm is :: r =>
    let p := setresultPure d i.arglist i.clientId o pm sm is
    ⟨p.1, i, p.2.1, p.2.2, ⟨r, false⟩, classify p.2.2 true⟩
  | .guard wantOn node body :: r =>
    if condHolds wantOn (nodeState d i.arglist node) then ⟨d, i, o, [], ⟨body ++ r, false⟩, .running⟩
    else if nodeState d i.arglist node == .unknown then ⟨d, { i with errnum := .expfail }, o, [], ⟨r, false⟩, .failed⟩
    else ⟨d, i, o, [], ⟨r, false⟩, .running⟩

/-! ### one micro-step of the machine: `_process_stmt`, then the bookkeeping of `_process_action` -/

structure MR where
  dev : Dev
  act : Action
  oracle : Oracle
  out : List Out
  status : Status

def mstep (now : Time) (d : Dev) (a : Action) (o : Oracle) : MR :=
  let r := processStmt d a o now
  if r.finished && r.act.exec.length > a.exec.length then ⟨r.dev, r.act, r.oracle, r.out, .running⟩
  else if hasAbort r.out then ⟨r.dev, r.act, r.oracle, r.out, .aborted⟩
  else if !r.finished then ⟨r.dev, r.act, r.oracle, r.out, .stalled⟩
  else if r.act.errnum == .success then ⟨r.dev, advance r.act, r.oracle, r.out, .running⟩
  else ⟨r.dev, r.act, r.oracle, r.out, .failed⟩

/-! ### the abstraction: the continuation a stack stands for -/

/-- what a statement is, as far as the control structure is concerned -/
inductive Kind where
  | leaf
  | each (isNode : Bool) (body : List Stmt)
  | cond (wantOn : Bool) (body : List Stmt)

def _root_.Pm.Dev2.Stmt.kind : Stmt → Kind
  | .foreachplug b => .each false b
  | .foreachnode b => .each true b
  | .ifon b => .cond true b
  | .ifoff b => .cond false b
  | _ => .leaf

/-- does the statement use the `processing` flag to remember that it has been started? -/
def _root_.Pm.Dev2.Stmt.twoPhase : Stmt → Bool
  | .send _ => true
  | .delay _ => true
  | _ => false

def contCtx (R : Bool) (dp : List Plug) (c : ExecCtx) : List FOp :=
  match c.block[c.pos]? with
  | none => []
  | some s =>
    match s.kind with
    | .leaf => unroll R dp (c.block.drop c.pos) c.plugs
    | .each isNode body =>
      unrollEach R dp isNode ((eachList R dp c.plugs).drop (c.plugItr.getD 0)) body
        ++ unroll R dp (c.block.drop (c.pos + 1)) c.plugs
    | .cond wantOn body =>
      (if c.processing then [] else [.guard wantOn (ctxNode c.plugs) (unroll R dp body (some (c.plugs.getD [])))])
        ++ unroll R dp (c.block.drop (c.pos + 1)) c.plugs

def cont (R : Bool) (dp : List Plug) (stack : List ExecCtx) : List FOp := stack.flatMap (contCtx R dp)

def ctxInflight (c : ExecCtx) : Bool :=
  match c.block[c.pos]? with
  | some s => s.twoPhase && c.processing
  | none => false

def topInflight : List ExecCtx → Bool
  | c :: _ => ctxInflight c
  | [] => false

def abs (R : Bool) (dp : List Plug) (stack : List ExecCtx) : F := { rem := cont R dp stack, inflight := topInflight stack }

/-! ### the invariant -/

/-- flags that must be clear for the abstraction to mean anything (`_rewind_action` used to violate exactly this, F5),
    and the plug copy of a ranged action is a copy of the context's plugs -/
def CtxOK (R : Bool) (c : ExecCtx) : Prop :=
  (c.plugCopy = none ∨ c.plugCopy = some (c.plugs.getD [])) ∧
  (R = true → c.plugItr.isSome = true → c.plugCopy.isSome = true) ∧
  match c.block[c.pos]? with
  | none => True
  | some s =>
    match s.kind with
    | .leaf => c.plugItr = none ∧ (s.twoPhase = false → c.processing = false)
    | .each _ _ => c.processing = false
    | .cond _ _ => c.plugItr = none

/-- a context below the top is parked on the block statement that pushed its child -/
def ParentOK (c : ExecCtx) : Prop :=
  match c.block[c.pos]? with
  | none => False
  | some s =>
    match s.kind with
    | .leaf => False
    | .each _ _ => True
    | .cond _ _ => c.processing = true

mutual
/-- every block of the script has at least one statement (the grammar of `powerman.dev` files guarantees it) -/
def neStmt : Stmt → Bool
  | .foreachplug b => !b.isEmpty && neBlock b
  | .foreachnode b => !b.isEmpty && neBlock b
  | .ifon b => !b.isEmpty && neBlock b
  | .ifoff b => !b.isEmpty && neBlock b
  | _ => true
def neBlock : List Stmt → Bool
  | [] => true
  | s :: r => neStmt s && neBlock r
end


def StackOK (R : Bool) (stack : List ExecCtx) : Prop :=
  (∀ c ∈ stack, CtxOK R c ∧ neBlock c.block = true) ∧ (∀ c ∈ stack.tail, ParentOK c) ∧
  (∀ c, stack.head? = some c → c.pos < c.block.length)


/-! ### list and unrolling lemmas -/

theorem drop_pos {α} {block : List α} {pos : Nat} {s : α} (h : block[pos]? = some s) :
    block.drop pos = s :: block.drop (pos + 1) := by
  have hlt : pos < block.length := by
    rcases Nat.lt_or_ge pos block.length with h' | h'
    · exact h'
    · rw [List.getElem?_eq_none h'] at h; cases h
  rw [List.drop_eq_getElem_cons hlt]
  congr 1
  have := List.getElem?_eq_getElem hlt
  rw [this] at h; exact Option.some.inj h

theorem lt_of_getElem?_some {α} {l : List α} {i : Nat} {s : α} (h : l[i]? = some s) : i < l.length := by
  rcases Nat.lt_or_ge i l.length with h' | h'
  · exact h'
  · rw [List.getElem?_eq_none h'] at h; cases h

theorem getElem?_some_of_lt {α} {l : List α} {i : Nat} (h : i < l.length) : ∃ s, l[i]? = some s :=
  ⟨l[i], List.getElem?_eq_getElem h⟩

theorem unroll_nil (R : Bool) (dp : List Plug) (pl : Option (List Plug)) : unroll R dp [] pl = [] := by
  simp [unroll]

theorem unroll_cons (R : Bool) (dp : List Plug) (s : Stmt) (r : List Stmt) (pl : Option (List Plug)) :
    unroll R dp (s :: r) pl = unrollStmt R dp s pl ++ unroll R dp r pl := by
  simp [unroll]

theorem unrollStmt_each (R : Bool) (dp : List Plug) (s : Stmt) (pl : Option (List Plug)) (n : Bool) (b : List Stmt)
    (h : s.kind = .each n b) : unrollStmt R dp s pl = unrollEach R dp n (eachList R dp pl) b := by
  cases s <;> simp [Stmt.kind] at h
  all_goals (obtain ⟨rfl, rfl⟩ := h; simp [unrollStmt, unrollEach])

theorem unrollStmt_cond (R : Bool) (dp : List Plug) (s : Stmt) (pl : Option (List Plug)) (w : Bool) (b : List Stmt)
    (h : s.kind = .cond w b) :
    unrollStmt R dp s pl = [.guard w (ctxNode pl) (unroll R dp b (some (pl.getD [])))] := by
  cases s <;> simp [Stmt.kind] at h
  all_goals (obtain ⟨rfl, rfl⟩ := h; simp [unrollStmt])

theorem twoPhase_of_not_leaf (s : Stmt) (h : s.kind ≠ .leaf) : s.twoPhase = false := by
  cases s <;> simp_all [Stmt.kind, Stmt.twoPhase]

theorem unrollEach_cons_keep (R : Bool) (dp : List Plug) (n : Bool) (p : Plug) (ps : List Plug) (body : List Stmt)
    (h : skipped n p = false) :
    unrollEach R dp n (p :: ps) body = unroll R dp body (some [p]) ++ unrollEach R dp n ps body := by
  simp [unrollEach, h]

theorem unrollEach_of_filter (R : Bool) (dp : List Plug) (n : Bool) (ps qs : List Plug) (body : List Stmt)
    (h : ps.filter (fun p => !skipped n p) = qs.filter (fun p => !skipped n p)) :
    unrollEach R dp n ps body = unrollEach R dp n qs body := by
  simp [unrollEach, h]

/-! ### the abstraction, case by case -/

theorem cont_cons (R : Bool) (dp : List Plug) (c : ExecCtx) (rest : List ExecCtx) :
    cont R dp (c :: rest) = contCtx R dp c ++ cont R dp rest := by
  simp [cont]

theorem contCtx_leaf (R : Bool) (dp : List Plug) (c : ExecCtx) (s : Stmt) (hcur : c.block[c.pos]? = some s)
    (hk : s.kind = .leaf) :
    contCtx R dp c = unrollStmt R dp s c.plugs ++ unroll R dp (c.block.drop (c.pos + 1)) c.plugs := by
  unfold contCtx; simp only [hcur, hk]; rw [drop_pos hcur, unroll_cons]

theorem contCtx_each (R : Bool) (dp : List Plug) (c : ExecCtx) (s : Stmt) (n : Bool) (b : List Stmt)
    (hcur : c.block[c.pos]? = some s) (hk : s.kind = .each n b) :
    contCtx R dp c = unrollEach R dp n ((eachList R dp c.plugs).drop (c.plugItr.getD 0)) b
        ++ unroll R dp (c.block.drop (c.pos + 1)) c.plugs := by
  unfold contCtx; simp only [hcur, hk]

theorem contCtx_cond (R : Bool) (dp : List Plug) (c : ExecCtx) (s : Stmt) (w : Bool) (b : List Stmt)
    (hcur : c.block[c.pos]? = some s) (hk : s.kind = .cond w b) :
    contCtx R dp c = (if c.processing then [] else [.guard w (ctxNode c.plugs) (unroll R dp b (some (c.plugs.getD [])))])
        ++ unroll R dp (c.block.drop (c.pos + 1)) c.plugs := by
  unfold contCtx; simp only [hcur, hk]

theorem drop_none {α} {block : List α} {pos : Nat} (h : block[pos]? = none) : block.drop pos = [] := by
  have : block.length ≤ pos := by
    rcases Nat.lt_or_ge pos block.length with h' | h'
    · rw [List.getElem?_eq_getElem h'] at h; cases h
    · exact h'
  exact List.drop_eq_nil_of_le this

/-- a context with clear flags denotes exactly the unrolling of what is left of its block -/
theorem contCtx_fresh (R : Bool) (dp : List Plug) (c : ExecCtx) (hi : c.plugItr = none) (hp : c.processing = false) :
    contCtx R dp c = unroll R dp (c.block.drop c.pos) c.plugs := by
  cases hcur : c.block[c.pos]? with
  | none => simp [contCtx, hcur, drop_none hcur, unroll_nil]
  | some s =>
    cases hk : s.kind with
    | leaf => rw [contCtx_leaf R dp c s hcur hk, drop_pos hcur, unroll_cons]
    | each n b =>
      rw [contCtx_each R dp c s n b hcur hk, drop_pos hcur, unroll_cons, unrollStmt_each R dp s _ n b hk]
      simp [hi]
    | cond w b =>
      rw [contCtx_cond R dp c s w b hcur hk, drop_pos hcur, unroll_cons, unrollStmt_cond R dp s _ w b hk]
      simp [hp]

theorem ctxInflight_noproc (c : ExecCtx) (hp : c.processing = false) : ctxInflight c = false := by
  unfold ctxInflight; split <;> simp_all

theorem ctxInflight_parent (c : ExecCtx) (h : ParentOK c) : ctxInflight c = false := by
  unfold ParentOK at h
  unfold ctxInflight
  cases hcur : c.block[c.pos]? with
  | none => rfl
  | some s =>
    simp only [hcur] at h
    have : s.kind ≠ .leaf := by intro hk; simp [hk] at h
    simp [twoPhase_of_not_leaf s this]

theorem topInflight_parent (rest : List ExecCtx) (h : ∀ c ∈ rest, ParentOK c) : topInflight rest = false := by
  cases rest with
  | nil => rfl
  | cons p ps => exact ctxInflight_parent p (h p (by simp))

theorem abs_fresh (R : Bool) (dp : List Plug) (c : ExecCtx) (rest : List ExecCtx) (hi : c.plugItr = none)
    (hp : c.processing = false) :
    abs R dp (c :: rest) = ⟨unroll R dp (c.block.drop c.pos) c.plugs ++ cont R dp rest, false⟩ := by
  simp only [abs, cont_cons, contCtx_fresh R dp c hi hp, topInflight, ctxInflight_noproc c hp]

theorem abs_leaf (R : Bool) (dp : List Plug) (c : ExecCtx) (rest : List ExecCtx) (s : Stmt)
    (hcur : c.block[c.pos]? = some s) (hk : s.kind = .leaf) :
    abs R dp (c :: rest) =
      ⟨unrollStmt R dp s c.plugs ++ (unroll R dp (c.block.drop (c.pos + 1)) c.plugs ++ cont R dp rest),
       s.twoPhase && c.processing⟩ := by
  simp [abs, cont_cons, contCtx_leaf R dp c s hcur hk, topInflight, ctxInflight, hcur]

theorem abs_each (R : Bool) (dp : List Plug) (c : ExecCtx) (rest : List ExecCtx) (s : Stmt) (n : Bool) (b : List Stmt)
    (hcur : c.block[c.pos]? = some s) (hk : s.kind = .each n b) :
    abs R dp (c :: rest) =
      ⟨unrollEach R dp n ((eachList R dp c.plugs).drop (c.plugItr.getD 0)) b
        ++ (unroll R dp (c.block.drop (c.pos + 1)) c.plugs ++ cont R dp rest), false⟩ := by
  have : s.twoPhase = false := twoPhase_of_not_leaf s (by simp [hk])
  simp [abs, cont_cons, contCtx_each R dp c s n b hcur hk, topInflight, ctxInflight, hcur, this]

theorem abs_cond (R : Bool) (dp : List Plug) (c : ExecCtx) (rest : List ExecCtx) (s : Stmt) (w : Bool) (b : List Stmt)
    (hcur : c.block[c.pos]? = some s) (hk : s.kind = .cond w b) :
    abs R dp (c :: rest) =
      ⟨(if c.processing then [] else [.guard w (ctxNode c.plugs) (unroll R dp b (some (c.plugs.getD [])))])
        ++ (unroll R dp (c.block.drop (c.pos + 1)) c.plugs ++ cont R dp rest), false⟩ := by
  have : s.twoPhase = false := twoPhase_of_not_leaf s (by simp [hk])
  simp [abs, cont_cons, contCtx_cond R dp c s w b hcur hk, topInflight, ctxInflight, hcur, this]

/-- `advance` on a stack whose top is `e` -/
theorem advance_exec (a : Action) (e : ExecCtx) (rest : List ExecCtx) (h : a.exec = e :: rest) :
    (advance a).exec = if e.pos + 1 < e.block.length then { e with pos := e.pos + 1 } :: rest else rest := by
  unfold advance topCtx setTop
  simp only [h, List.headD_cons, List.drop_succ_cons, List.drop_zero]
  by_cases hlt : e.pos + 1 < e.block.length
  · simp [hlt]
  · simp [hlt]

theorem advance_info (a : Action) : info (advance a) = info a ∧ (advance a).com = a.com ∧
    (advance a).timeStamp = a.timeStamp ∧ (advance a).errnum = a.errnum ∧ (advance a).uid = a.uid := by
  unfold advance; dsimp only; split <;> simp [info, setTop]

/-- leaving a statement whose flags are clear: the stack then stands for the rest of the block and of the enclosing
    blocks — whether or not the context was popped -/
theorem abs_advance (R : Bool) (dp : List Plug) (a : Action) (e : ExecCtx) (rest : List ExecCtx) (h : a.exec = e :: rest)
    (hi : e.plugItr = none) (hp : e.processing = false) (hpar : ∀ c ∈ rest, ParentOK c) :
    abs R dp (advance a).exec = ⟨unroll R dp (e.block.drop (e.pos + 1)) e.plugs ++ cont R dp rest, false⟩ := by
  rw [advance_exec a e rest h]
  by_cases hlt : e.pos + 1 < e.block.length
  · simp only [hlt, ↓reduceIte]
    rw [abs_fresh R dp { e with pos := e.pos + 1 } rest hi hp]
  · simp only [hlt, ↓reduceIte]
    rw [List.drop_eq_nil_of_le (by omega), unroll_nil]
    simp [abs, topInflight_parent rest hpar]


/-! ### `_process_stmt` and the micro-step, by statement -/

theorem topCtx_of_exec (a : Action) (e : ExecCtx) (rest : List ExecCtx) (h : a.exec = e :: rest) : topCtx a = e := by
  simp [topCtx, h]

theorem processStmt_at (d : Dev) (a : Action) (o : Oracle) (now : Time) (e : ExecCtx) (rest : List ExecCtx)
    (h : a.exec = e :: rest) (s : Stmt) (hcur : e.block[e.pos]? = some s) :
    processStmt d a o now = match s with
      | .expect pat => stmtExpect d a o pat
      | .send fmt => stmtSend d a o e fmt
      | .delay us => stmtDelay d a o e now us
      | .setplugstate lit plugMp statMp interps => stmtSetplugstate d a o e lit plugMp statMp interps
      | .setresult plugMp statMp interps => stmtSetresult d a o plugMp statMp interps
      | .foreachplug body => stmtForeach d a o e body false
      | .foreachnode body => stmtForeach d a o e body true
      | .ifon body => stmtIf d a o e body true
      | .ifoff body => stmtIf d a o e body false := by
  have ht := topCtx_of_exec a e rest h
  unfold processStmt
  simp only [ht, hcur]
  cases s <;> rfl

theorem processStmt_each (d : Dev) (a : Action) (o : Oracle) (now : Time) (e : ExecCtx) (rest : List ExecCtx)
    (h : a.exec = e :: rest) (s : Stmt) (hcur : e.block[e.pos]? = some s) (n : Bool) (b : List Stmt)
    (hk : s.kind = .each n b) : processStmt d a o now = stmtForeach d a o e b n := by
  rw [processStmt_at d a o now e rest h s hcur]
  cases s <;> simp [Stmt.kind] at hk
  all_goals (obtain ⟨rfl, rfl⟩ := hk; rfl)

theorem processStmt_cond (d : Dev) (a : Action) (o : Oracle) (now : Time) (e : ExecCtx) (rest : List ExecCtx)
    (h : a.exec = e :: rest) (s : Stmt) (hcur : e.block[e.pos]? = some s) (w : Bool) (b : List Stmt)
    (hk : s.kind = .cond w b) : processStmt d a o now = stmtIf d a o e b w := by
  rw [processStmt_at d a o now e rest h s hcur]
  cases s <;> simp [Stmt.kind] at hk
  all_goals (obtain ⟨rfl, rfl⟩ := hk; rfl)

/-- the micro-step when the statement pushed nothing and the action carries no error -/
theorem mstep_nopush (now : Time) (d : Dev) (a : Action) (o : Oracle)
    (h1 : (processStmt d a o now).act.exec.length ≤ a.exec.length)
    (h2 : (processStmt d a o now).act.errnum = .success) :
    mstep now d a o =
      ⟨(processStmt d a o now).dev,
       if classify (processStmt d a o now).out (processStmt d a o now).finished = .running
         then advance (processStmt d a o now).act else (processStmt d a o now).act,
       (processStmt d a o now).oracle, (processStmt d a o now).out,
       classify (processStmt d a o now).out (processStmt d a o now).finished⟩ := by
  unfold mstep classify
  generalize processStmt d a o now = r at *
  have hnp : ¬ (r.act.exec.length > a.exec.length) := by omega
  simp only [hnp, decide_false, Bool.and_false, Bool.false_eq_true, ↓reduceIte, h2, beq_self_eq_true]
  by_cases ha : hasAbort r.out = true
  · simp [ha]
  · by_cases hf : r.finished = true
    · simp [ha, hf]
    · simp [ha, hf]

/-- … and when it pushed a context -/
theorem mstep_push (now : Time) (d : Dev) (a : Action) (o : Oracle)
    (h0 : (processStmt d a o now).finished = true)
    (h1 : (processStmt d a o now).act.exec.length > a.exec.length) :
    mstep now d a o = ⟨(processStmt d a o now).dev, (processStmt d a o now).act, (processStmt d a o now).oracle,
      (processStmt d a o now).out, .running⟩ := by
  unfold mstep
  simp [h0, h1]

theorem classify_running (out : List Out) (fin : Bool) :
    classify out fin = .running ↔ hasAbort out = false ∧ fin = true := by
  unfold classify
  by_cases ha : hasAbort out = true
  · simp [ha]
  · cases fin <;> simp [ha]

theorem classify_stalled (out : List Out) (fin : Bool) :
    classify out fin = .stalled ↔ hasAbort out = false ∧ fin = false := by
  unfold classify
  by_cases ha : hasAbort out = true
  · simp [ha]
  · cases fin <;> simp [ha]

theorem classify_cases (out : List Out) (fin : Bool) :
    classify out fin = .running ∨ classify out fin = .stalled ∨ classify out fin = .aborted := by
  unfold classify
  by_cases ha : hasAbort out = true
  · simp [ha]
  · cases fin <;> simp [ha]


/-! ### keeping the invariant -/

theorem ctxOK_clean (R : Bool) (c : ExecCtx) (hcopy : c.plugCopy = none ∨ c.plugCopy = some (c.plugs.getD []))
    (hi : c.plugItr = none) (hp : c.processing = false) : CtxOK R c := by
  refine ⟨hcopy, by simp [hi], ?_⟩
  split
  · trivial
  · split <;> simp [hi, hp]

theorem neBlock_getElem (l : List Stmt) (i : Nat) (s : Stmt) (h : neBlock l = true) (hs : l[i]? = some s) :
    neStmt s = true := by
  induction l generalizing i with
  | nil => simp at hs
  | cons x xs ih =>
    simp only [neBlock, Bool.and_eq_true] at h
    cases i with
    | zero => simp at hs; subst hs; exact h.1
    | succ j => exact ih j h.2 (by simpa using hs)

theorem neStmt_each (s : Stmt) (n : Bool) (b : List Stmt) (hk : s.kind = .each n b) (h : neStmt s = true) :
    b ≠ [] ∧ neBlock b = true := by
  cases s <;> simp [Stmt.kind] at hk
  all_goals (obtain ⟨rfl, rfl⟩ := hk; simpa [neStmt] using h)

theorem neStmt_cond (s : Stmt) (w : Bool) (b : List Stmt) (hk : s.kind = .cond w b) (h : neStmt s = true) :
    b ≠ [] ∧ neBlock b = true := by
  cases s <;> simp [Stmt.kind] at hk
  all_goals (obtain ⟨rfl, rfl⟩ := hk; simpa [neStmt] using h)

theorem depthB_getElem (l : List Stmt) (i : Nat) (s : Stmt) (hs : l[i]? = some s) : depthS s ≤ depthB l := by
  induction l generalizing i with
  | nil => simp at hs
  | cons x xs ih =>
    cases i with
    | zero => simp at hs; subst hs; simp only [depthB]; omega
    | succ j => have := ih j (by simpa using hs); simp only [depthB]; omega

theorem depthS_each (s : Stmt) (n : Bool) (b : List Stmt) (hk : s.kind = .each n b) : depthS s = depthB b + 1 := by
  cases s <;> simp [Stmt.kind] at hk
  all_goals (obtain ⟨rfl, rfl⟩ := hk; simp [depthS])

theorem depthS_cond (s : Stmt) (w : Bool) (b : List Stmt) (hk : s.kind = .cond w b) : depthS s = depthB b + 1 := by
  cases s <;> simp [Stmt.kind] at hk
  all_goals (obtain ⟨rfl, rfl⟩ := hk; simp [depthS])

theorem depthS_leaf (s : Stmt) (hk : s.kind = .leaf) : depthS s = 0 := by
  cases s <;> simp [Stmt.kind] at hk <;> simp [depthS]

theorem neBlock_each (l : List Stmt) (i : Nat) (s : Stmt) (n : Bool) (b : List Stmt) (h : neBlock l = true)
    (hs : l[i]? = some s) (hk : s.kind = .each n b) : b ≠ [] ∧ neBlock b = true :=
  neStmt_each s n b hk (neBlock_getElem _ _ _ h hs)

theorem neBlock_cond (l : List Stmt) (i : Nat) (s : Stmt) (w : Bool) (b : List Stmt) (h : neBlock l = true)
    (hs : l[i]? = some s) (hk : s.kind = .cond w b) : b ≠ [] ∧ neBlock b = true :=
  neStmt_cond s w b hk (neBlock_getElem _ _ _ h hs)

theorem parentOK_pos (c : ExecCtx) (h : ParentOK c) : c.pos < c.block.length := by
  unfold ParentOK at h
  cases hcur : c.block[c.pos]? with
  | none => simp [hcur] at h
  | some s => exact lt_of_getElem?_some hcur

/-- the pieces of `StackOK` for a stack `e :: rest` -/
theorem stackOK_cons (R : Bool) (e : ExecCtx) (rest : List ExecCtx) :
    StackOK R (e :: rest) ↔
      (CtxOK R e ∧ neBlock e.block = true ∧ e.pos < e.block.length) ∧
      (∀ c ∈ rest, CtxOK R c ∧ neBlock c.block = true) ∧ (∀ c ∈ rest, ParentOK c) := by
  unfold StackOK
  constructor
  · rintro ⟨h1, h2, h3⟩
    exact ⟨⟨(h1 e (by simp)).1, (h1 e (by simp)).2, h3 e rfl⟩, fun c hc => h1 c (by simp [hc]), by simpa using h2⟩
  · rintro ⟨⟨h1, h2, h3⟩, h4, h5⟩
    refine ⟨?_, by simpa using h5, ?_⟩
    · intro c hc
      rcases List.mem_cons.mp hc with rfl | hc
      · exact ⟨h1, h2⟩
      · exact h4 c hc
    · intro c hc; simp at hc; subst hc; exact h3

/-- the stack after `advance` left a statement with clear flags -/
theorem stackOK_advance (R : Bool) (a : Action) (e : ExecCtx) (rest : List ExecCtx) (h : a.exec = e :: rest)
    (hcopy : e.plugCopy = none ∨ e.plugCopy = some (e.plugs.getD [])) (hne : neBlock e.block = true)
    (hi : e.plugItr = none) (hp : e.processing = false)
    (hrest : ∀ c ∈ rest, CtxOK R c ∧ neBlock c.block = true) (hpar : ∀ c ∈ rest, ParentOK c) :
    StackOK R (advance a).exec := by
  rw [advance_exec a e rest h]
  by_cases hlt : e.pos + 1 < e.block.length
  · simp only [hlt, ↓reduceIte]
    rw [stackOK_cons]
    exact ⟨⟨ctxOK_clean R _ hcopy hi hp, hne, hlt⟩, hrest, hpar⟩
  · simp only [hlt, ↓reduceIte]
    cases rest with
    | nil => exact ⟨by simp, by simp, by simp⟩
    | cons p ps =>
      rw [stackOK_cons]
      exact ⟨⟨(hrest p (by simp)).1, (hrest p (by simp)).2, parentOK_pos p (hpar p (by simp))⟩,
        fun c hc => hrest c (by simp [hc]), fun c hc => hpar c (by simp [hc])⟩

theorem bodyCtx_ok (R : Bool) (body : List Stmt) (pl : Option (List Plug)) (hb : body ≠ []) (hne : neBlock body = true) :
    CtxOK R (bodyCtx body pl) ∧ neBlock (bodyCtx body pl).block = true ∧ (bodyCtx body pl).pos < (bodyCtx body pl).block.length := by
  refine ⟨ctxOK_clean R _ (Or.inl rfl) rfl rfl, hne, ?_⟩
  simp only [bodyCtx]
  exact List.length_pos_iff.mpr hb


/-! ### the simulation, one micro-step -/

/-- outcome of one machine micro-step seen through the abstraction: invisible, or exactly one step of the reference -/
inductive Sim (R : Bool) (dp : List Plug) (now : Time) (d : Dev) (a : Action) (o : Oracle) (m : MR) : Prop where
  | stutter : m.status = .running → m.dev = d → m.oracle = o → m.out = [] → info m.act = info a →
      abs R dp m.act.exec = abs R dp a.exec → Sim R dp now d a o m
  | step : m.status = (fstep now d (info a) o (abs R dp a.exec)).status →
      m.dev = (fstep now d (info a) o (abs R dp a.exec)).dev →
      m.oracle = (fstep now d (info a) o (abs R dp a.exec)).oracle →
      m.out = (fstep now d (info a) o (abs R dp a.exec)).out →
      info m.act = (fstep now d (info a) o (abs R dp a.exec)).info →
      (m.status = .running ∨ m.status = .stalled → abs R dp m.act.exec = (fstep now d (info a) o (abs R dp a.exec)).f) →
      Sim R dp now d a o m

theorem foreachCtx_fields (a : Action) (e : ExecCtx) :
    (foreachCtx a e).block = e.block ∧ (foreachCtx a e).pos = e.pos ∧ (foreachCtx a e).plugs = e.plugs ∧
    (foreachCtx a e).processing = e.processing := by
  unfold foreachCtx; split
  · simp
  · split <;> simp

theorem foreachCtx_copy (R : Bool) (a : Action) (e : ExecCtx) (hR : R = isRanged a.com)
    (hcopy : e.plugCopy = none ∨ e.plugCopy = some (e.plugs.getD []))
    (hsome : R = true → e.plugItr.isSome = true → e.plugCopy.isSome = true) :
    ((foreachCtx a e).plugCopy = none ∨ (foreachCtx a e).plugCopy = some ((foreachCtx a e).plugs.getD [])) ∧
    (R = true → (foreachCtx a e).plugCopy.isSome = true) := by
  subst hR
  unfold foreachCtx
  by_cases hr : isRanged a.com = true
  · cases hi : e.plugItr with
    | none =>
      simp only [Option.isNone_none, hr, Bool.and_self, ↓reduceIte]
      rcases hcopy with h | h <;> simp [h]
    | some k =>
      have := hsome hr (by simp [hi])
      simp only [Option.isNone_some, Bool.false_and, Bool.false_eq_true, ↓reduceIte]
      exact ⟨hcopy, fun _ => this⟩
  · have hr' : isRanged a.com = false := by simpa using hr
    simp only [hr', Bool.and_false, Bool.false_eq_true, ↓reduceIte]
    split
    · exact ⟨hcopy, by simp⟩
    · exact ⟨hcopy, by simp⟩

theorem foreachList_eq (R : Bool) (dp : List Plug) (d : Dev) (a : Action) (e : ExecCtx) (hR : R = isRanged a.com)
    (hdp : dp = d.plugs) (hcopy : e.plugCopy = none ∨ e.plugCopy = some (e.plugs.getD []))
    (hsome : R = true → e.plugItr.isSome = true → e.plugCopy.isSome = true) :
    foreachList d a e = eachList R dp e.plugs := by
  subst hR hdp
  unfold foreachList eachList
  by_cases hr : isRanged a.com = true
  · simp only [hr, ↓reduceIte]
    cases hi : e.plugItr with
    | none => rcases hcopy with h | h <;> simp [h]
    | some k =>
      have := hsome hr (by simp [hi])
      rcases hcopy with h | h
      · simp [h] at this
      · simp [h]
  · simp [hr]

theorem sim_each (R : Bool) (dp : List Plug) (now : Time) (d : Dev) (a : Action) (o : Oracle) (e : ExecCtx)
    (rest : List ExecCtx) (s : Stmt) (n : Bool) (b : List Stmt)
    (hex : a.exec = e :: rest) (hcur : e.block[e.pos]? = some s) (hk : s.kind = .each n b)
    (hR : R = isRanged a.com) (hdp : dp = d.plugs) (hok : StackOK R (e :: rest)) (herr : a.errnum = .success) :
    Sim R dp now d a o (mstep now d a o) ∧ StackOK R (mstep now d a o).act.exec ∧
    (mstep now d a o).act.errnum = .success ∧ (mstep now d a o).act.com = a.com := by
  obtain ⟨⟨hc, hne, hpos⟩, hrest, hpar⟩ := (stackOK_cons R e rest).mp hok
  obtain ⟨hcopy, hsome, hflags⟩ := hc
  simp only [hcur, hk] at hflags
  have hps := processStmt_each d a o now e rest hex s hcur n b hk
  have hfr := stmtForeach_frame d a o e b n
  have hlist := foreachList_eq R dp d a e hR hdp hcopy hsome
  have hff := foreachCtx_fields a e
  have hfc := foreachCtx_copy R a e hR hcopy hsome
  have hdrop : a.exec.drop 1 = rest := by simp [hex]
  have hspec := nextPlug_spec n (foreachList d a e) (e.plugItr.getD 0) ((foreachList d a e).length + 1) (by omega)
  have hbody := neBlock_each _ _ s n b hne hcur hk
  cases hnp : nextPlug n (foreachList d a e) (e.plugItr.getD 0) ((foreachList d a e).length + 1) with
  | some pk =>
    obtain ⟨p, k⟩ := pk
    simp only [hnp] at hspec
    obtain ⟨_, _, _, hskip, _, hfilter⟩ := hspec
    have hact := stmtForeach_next d a o e b n p k hnp
    rw [hdrop] at hact
    have hm : mstep now d a o = ⟨d, (stmtForeach d a o e b n).act, o, [], .running⟩ := by
      rw [mstep_push now d a o (by rw [hps]; exact hfr.2.2.2) (by rw [hps, hact, hex]; simp)]
      rw [hps, hfr.1, hfr.2.1, hfr.2.2.1]
    rw [hm, hact]
    -- the parent context with the iterator advanced
    have hcur1 : ({ foreachCtx a e with plugItr := some k } : ExecCtx).block[({ foreachCtx a e with plugItr := some k } : ExecCtx).pos]? = some s := by
      simp only [hff.1, hff.2.1]; exact hcur
    refine ⟨?_, ?_, herr, rfl⟩
    · refine Sim.stutter rfl rfl rfl rfl rfl ?_
      simp only
      rw [hex, abs_each R dp e rest s n b hcur hk, abs_fresh R dp (bodyCtx b (some [p])) _ rfl rfl, cont_cons,
        contCtx_each R dp _ s n b hcur1 hk]
      simp only [hff.2.2.1, hff.2.1, Option.getD_some]
      rw [← hlist]
      have : unrollEach R dp n ((foreachList d a e).drop (e.plugItr.getD 0)) b =
          unroll R dp b (some [p]) ++ unrollEach R dp n ((foreachList d a e).drop k) b := by
        simp only [unrollEach, hfilter, List.flatMap_cons]
      rw [this]
      simp [bodyCtx, hff.1]
    · rw [stackOK_cons]
      refine ⟨bodyCtx_ok R b _ hbody.1 hbody.2, ?_, ?_⟩
      · intro c hc
        rcases List.mem_cons.mp hc with rfl | hc
        · refine ⟨⟨?_, ?_, ?_⟩, ?_⟩
          · exact hfc.1
          · intro hr _; exact hfc.2 hr
          · simp only [hcur1, hk]; simp only [hff.2.2.2]; exact hflags
          · simp only [hff.1]; exact hne
        · exact hrest c hc
      · intro c hc
        rcases List.mem_cons.mp hc with rfl | hc
        · unfold ParentOK; simp only [hcur1, hk]
        · exact hpar c hc
  | none =>
    simp only [hnp] at hspec
    have hact := stmtForeach_done d a o e b n hnp
    have hexec : (stmtForeach d a o e b n).act.exec = { foreachCtx a e with plugItr := none } :: rest := by
      rw [hact]; simp [hdrop]
    have hm : mstep now d a o = ⟨d, advance (stmtForeach d a o e b n).act, o, [], .running⟩ := by
      rw [mstep_nopush now d a o (by rw [hps, hexec, hex]; simp) (by rw [hps, hact]; simpa using herr)]
      rw [hps, hfr.1, hfr.2.1, hfr.2.2.1, hfr.2.2.2]
      simp [classify, hasAbort]
    rw [hm]
    have hadv := advance_info (stmtForeach d a o e b n).act
    refine ⟨?_, ?_, ?_, ?_⟩
    · refine Sim.stutter rfl rfl rfl rfl ?_ ?_
      · simp only; rw [hadv.1, hact]; rfl
      · simp only
        rw [abs_advance R dp _ _ rest hexec rfl (by simp only [hff.2.2.2]; exact hflags) hpar,
          hex, abs_each R dp e rest s n b hcur hk, ← hlist]
        simp only [hff.1, hff.2.1, hff.2.2.1]
        simp [unrollEach, hspec]
    · simp only
      refine stackOK_advance R _ _ rest hexec ?_ ?_ rfl ?_ hrest hpar
      · exact hfc.1
      · simp only [hff.1]; exact hne
      · simp only [hff.2.2.2]; exact hflags
    · simp only; rw [hadv.2.2.2.1, hact]; simpa using herr
    · simp only; rw [hadv.2.1, hact]; rfl


theorem mstep_fail (now : Time) (d : Dev) (a : Action) (o : Oracle)
    (h0 : (processStmt d a o now).finished = true)
    (h1 : (processStmt d a o now).act.exec.length ≤ a.exec.length)
    (h2 : hasAbort (processStmt d a o now).out = false)
    (h3 : (processStmt d a o now).act.errnum ≠ .success) :
    mstep now d a o = ⟨(processStmt d a o now).dev, (processStmt d a o now).act, (processStmt d a o now).oracle,
      (processStmt d a o now).out, .failed⟩ := by
  unfold mstep
  generalize processStmt d a o now = r at *
  have hnp : ¬ (r.act.exec.length > a.exec.length) := by omega
  simp [hnp, h0, h2, h3]

theorem sim_cond (R : Bool) (dp : List Plug) (now : Time) (d : Dev) (a : Action) (o : Oracle) (e : ExecCtx)
    (rest : List ExecCtx) (s : Stmt) (w : Bool) (b : List Stmt)
    (hex : a.exec = e :: rest) (hcur : e.block[e.pos]? = some s) (hk : s.kind = .cond w b)
    (hok : StackOK R (e :: rest)) (herr : a.errnum = .success) :
    Sim R dp now d a o (mstep now d a o) ∧
    ((mstep now d a o).status = .running → StackOK R (mstep now d a o).act.exec ∧ (mstep now d a o).act.errnum = .success) ∧
    (mstep now d a o).status ≠ .stalled ∧ (mstep now d a o).act.com = a.com := by
  obtain ⟨⟨hc, hne, hpos⟩, hrest, hpar⟩ := (stackOK_cons R e rest).mp hok
  obtain ⟨hcopy, hsome, hflags⟩ := hc
  simp only [hcur, hk] at hflags
  have hps := processStmt_cond d a o now e rest hex s hcur w b hk
  have hfr := stmtIf_frame d a o e b w
  have hdrop : a.exec.drop 1 = rest := by simp [hex]
  have hbody := neBlock_cond _ _ s w b hne hcur hk
  by_cases hp : e.processing = true
  · -- back from the body
    have hact := stmtIf_return d a o e b w hp
    have hexec : (stmtIf d a o e b w).act.exec = { e with processing := false } :: rest := by
      rw [hact]; simp [hdrop]
    have hm : mstep now d a o = ⟨d, advance (stmtIf d a o e b w).act, o, [], .running⟩ := by
      rw [mstep_nopush now d a o (by rw [hps, hexec, hex]; simp) (by rw [hps, hact]; simpa using herr)]
      rw [hps, hfr.1, hfr.2.1, hfr.2.2.1, hfr.2.2.2]
      simp [classify, hasAbort]
    rw [hm]
    have hadv := advance_info (stmtIf d a o e b w).act
    refine ⟨?_, ?_, by simp, ?_⟩
    · refine Sim.stutter rfl rfl rfl rfl ?_ ?_
      · simp only; rw [hadv.1, hact]; rfl
      · simp only
        rw [abs_advance R dp _ _ rest hexec hflags rfl hpar, hex, abs_cond R dp e rest s w b hcur hk]
        simp [hp]
    · intro _
      refine ⟨stackOK_advance R _ _ rest hexec hcopy hne hflags rfl hrest hpar, ?_⟩
      simp only; rw [hadv.2.2.2.1, hact]; simpa using herr
    · simp only; rw [hadv.2.1, hact]; rfl
  · have hp' : e.processing = false := by simpa using hp
    have habs := abs_cond R dp e rest s w b hcur hk
    simp only [hp', Bool.false_eq_true, ↓reduceIte, List.singleton_append] at habs
    cases hst : nodeState d a.arglist (ctxNode e.plugs) with
    | unknown =>
      have hact := stmtIf_unknown d a o e b w hp' hst
      have hm : mstep now d a o = ⟨d, { a with errnum := .expfail }, o, [], .failed⟩ := by
        rw [mstep_fail now d a o (by rw [hps]; exact hfr.2.2.2) (by rw [hps, hact]; simp)
          (by rw [hps, hfr.2.2.1]; rfl) (by rw [hps, hact]; simp)]
        rw [hps, hfr.1, hfr.2.1, hfr.2.2.1, hact]
      rw [hm]
      refine ⟨?_, by simp, by simp, rfl⟩
      have hfs : fstep now d (info a) o (abs R dp a.exec) =
          ⟨d, { info a with errnum := .expfail }, o, [], ⟨unroll R dp (e.block.drop (e.pos + 1)) e.plugs ++ cont R dp rest, false⟩, .failed⟩ := by
        rw [hex, habs]
        have h1 : (info a).arglist = a.arglist := rfl
        cases w <;> simp [fstep, h1, hst, condHolds]
      refine Sim.step ?_ ?_ ?_ ?_ ?_ ?_ <;> rw [hfs] <;> simp [info]
    | on =>
      cases w with
      | true =>
        have hact := stmtIf_taken d a o e b true hp' (by simpa using hst)
        rw [hdrop] at hact
        have hm : mstep now d a o = ⟨d, (stmtIf d a o e b true).act, o, [], .running⟩ := by
          rw [mstep_push now d a o (by rw [hps]; exact hfr.2.2.2) (by rw [hps, hact, hex]; simp)]
          rw [hps, hfr.1, hfr.2.1, hfr.2.2.1]
        rw [hm, hact]
        have hcur1 : ({ e with processing := true } : ExecCtx).block[({ e with processing := true } : ExecCtx).pos]? = some s := hcur
        have hfs : fstep now d (info a) o (abs R dp a.exec) =
            ⟨d, info a, o, [], ⟨unroll R dp b (some (e.plugs.getD [])) ++ (unroll R dp (e.block.drop (e.pos + 1)) e.plugs ++ cont R dp rest), false⟩, .running⟩ := by
          rw [hex, habs]
          have h1 : (info a).arglist = a.arglist := rfl
          simp [fstep, h1, hst, condHolds]
        refine ⟨?_, ?_, by simp, rfl⟩
        · refine Sim.step ?_ ?_ ?_ ?_ ?_ ?_ <;> rw [hfs] <;> try rfl
          intro _
          simp only
          rw [abs_fresh R dp (bodyCtx b (some (e.plugs.getD []))) _ rfl rfl, cont_cons,
            contCtx_cond R dp _ s true b hcur1 hk]
          simp [bodyCtx]
        · intro _
          refine ⟨?_, herr⟩
          rw [stackOK_cons]
          refine ⟨bodyCtx_ok R b _ hbody.1 hbody.2, ?_, ?_⟩
          · intro c hc
            rcases List.mem_cons.mp hc with rfl | hc
            · exact ⟨⟨hcopy, hsome, by simp only [hcur1, hk]; exact hflags⟩, hne⟩
            · exact hrest c hc
          · intro c hc
            rcases List.mem_cons.mp hc with rfl | hc
            · unfold ParentOK; simp only [hcur1, hk]
            · exact hpar c hc
      | false =>
        have hact := stmtIf_skipped d a o e b false hp' (by simpa using hst)
        have hm : mstep now d a o = ⟨d, advance a, o, [], .running⟩ := by
          rw [mstep_nopush now d a o (by rw [hps, hact]; simp) (by rw [hps, hact]; exact herr)]
          rw [hps, hfr.1, hfr.2.1, hfr.2.2.1, hfr.2.2.2, hact]
          simp [classify, hasAbort]
        rw [hm]
        have hadv := advance_info a
        have hfs : fstep now d (info a) o (abs R dp a.exec) =
            ⟨d, info a, o, [], ⟨unroll R dp (e.block.drop (e.pos + 1)) e.plugs ++ cont R dp rest, false⟩, .running⟩ := by
          rw [hex, habs]
          have h1 : (info a).arglist = a.arglist := rfl
          simp [fstep, h1, hst, condHolds]
        refine ⟨?_, ?_, by simp, hadv.2.1⟩
        · refine Sim.step ?_ ?_ ?_ ?_ ?_ ?_ <;> rw [hfs] <;> try rfl
          · exact hadv.1
          · intro _; exact abs_advance R dp a e rest hex hflags hp' hpar
        · intro _
          exact ⟨stackOK_advance R a e rest hex hcopy hne hflags hp' hrest hpar, by simp only; rw [hadv.2.2.2.1]; exact herr⟩
    | off =>
      cases w with
      | false =>
        have hact := stmtIf_taken d a o e b false hp' (by simpa using hst)
        rw [hdrop] at hact
        have hm : mstep now d a o = ⟨d, (stmtIf d a o e b false).act, o, [], .running⟩ := by
          rw [mstep_push now d a o (by rw [hps]; exact hfr.2.2.2) (by rw [hps, hact, hex]; simp)]
          rw [hps, hfr.1, hfr.2.1, hfr.2.2.1]
        rw [hm, hact]
        have hcur1 : ({ e with processing := true } : ExecCtx).block[({ e with processing := true } : ExecCtx).pos]? = some s := hcur
        have hfs : fstep now d (info a) o (abs R dp a.exec) =
            ⟨d, info a, o, [], ⟨unroll R dp b (some (e.plugs.getD [])) ++ (unroll R dp (e.block.drop (e.pos + 1)) e.plugs ++ cont R dp rest), false⟩, .running⟩ := by
          rw [hex, habs]
          have h1 : (info a).arglist = a.arglist := rfl
          simp [fstep, h1, hst, condHolds]
        refine ⟨?_, ?_, by simp, rfl⟩
        · refine Sim.step ?_ ?_ ?_ ?_ ?_ ?_ <;> rw [hfs] <;> try rfl
          intro _
          simp only
          rw [abs_fresh R dp (bodyCtx b (some (e.plugs.getD []))) _ rfl rfl, cont_cons,
            contCtx_cond R dp _ s false b hcur1 hk]
          simp [bodyCtx]
        · intro _
          refine ⟨?_, herr⟩
          rw [stackOK_cons]
          refine ⟨bodyCtx_ok R b _ hbody.1 hbody.2, ?_, ?_⟩
          · intro c hc
            rcases List.mem_cons.mp hc with rfl | hc
            · exact ⟨⟨hcopy, hsome, by simp only [hcur1, hk]; exact hflags⟩, hne⟩
            · exact hrest c hc
          · intro c hc
            rcases List.mem_cons.mp hc with rfl | hc
            · unfold ParentOK; simp only [hcur1, hk]
            · exact hpar c hc
      | true =>
        have hact := stmtIf_skipped d a o e b true hp' (by simpa using hst)
        have hm : mstep now d a o = ⟨d, advance a, o, [], .running⟩ := by
          rw [mstep_nopush now d a o (by rw [hps, hact]; simp) (by rw [hps, hact]; exact herr)]
          rw [hps, hfr.1, hfr.2.1, hfr.2.2.1, hfr.2.2.2, hact]
          simp [classify, hasAbort]
        rw [hm]
        have hadv := advance_info a
        have hfs : fstep now d (info a) o (abs R dp a.exec) =
            ⟨d, info a, o, [], ⟨unroll R dp (e.block.drop (e.pos + 1)) e.plugs ++ cont R dp rest, false⟩, .running⟩ := by
          rw [hex, habs]
          have h1 : (info a).arglist = a.arglist := rfl
          simp [fstep, h1, hst, condHolds]
        refine ⟨?_, ?_, by simp, hadv.2.1⟩
        · refine Sim.step ?_ ?_ ?_ ?_ ?_ ?_ <;> rw [hfs] <;> try rfl
          · exact hadv.1
          · intro _; exact abs_advance R dp a e rest hex hflags hp' hpar
        · intro _
          exact ⟨stackOK_advance R a e rest hex hcopy hne hflags hp' hrest hpar, by simp only; rw [hadv.2.2.2.1]; exact herr⟩


/-- the common part of the five leaf statements: the statement changes at most the `processing` flag of the top
    context, and the reference step on the denoted program agrees with it field by field -/
theorem sim_leaf (R : Bool) (dp : List Plug) (now : Time) (d : Dev) (a : Action) (o : Oracle) (e : ExecCtx)
    (rest : List ExecCtx) (s : Stmt)
    (hex : a.exec = e :: rest) (hcur : e.block[e.pos]? = some s) (hk : s.kind = .leaf)
    (hok : StackOK R (e :: rest))
    (p' : Bool)
    (hexec : (processStmt d a o now).act.exec = { e with processing := p' } :: rest)
    (herr' : (processStmt d a o now).act.errnum = .success)
    (hfin : (processStmt d a o now).finished = true → p' = false)
    (htp : s.twoPhase = false → p' = false)
    (h1 : (fstep now d (info a) o (abs R dp a.exec)).status =
            classify (processStmt d a o now).out (processStmt d a o now).finished)
    (h2 : (fstep now d (info a) o (abs R dp a.exec)).dev = (processStmt d a o now).dev)
    (h3 : (fstep now d (info a) o (abs R dp a.exec)).oracle = (processStmt d a o now).oracle)
    (h4 : (fstep now d (info a) o (abs R dp a.exec)).out = (processStmt d a o now).out)
    (h5 : (fstep now d (info a) o (abs R dp a.exec)).info = info (processStmt d a o now).act)
    (h6 : classify (processStmt d a o now).out (processStmt d a o now).finished = .running →
      (fstep now d (info a) o (abs R dp a.exec)).f =
        ⟨unroll R dp (e.block.drop (e.pos + 1)) e.plugs ++ cont R dp rest, false⟩)
    (h7 : classify (processStmt d a o now).out (processStmt d a o now).finished = .stalled →
      (fstep now d (info a) o (abs R dp a.exec)).f =
        ⟨unrollStmt R dp s e.plugs ++ (unroll R dp (e.block.drop (e.pos + 1)) e.plugs ++ cont R dp rest),
          s.twoPhase && p'⟩) :
    Sim R dp now d a o (mstep now d a o) ∧
    ((mstep now d a o).status = .running ∨ (mstep now d a o).status = .stalled →
      StackOK R (mstep now d a o).act.exec ∧ (mstep now d a o).act.errnum = .success) := by
  obtain ⟨⟨hc, hne, hpos⟩, hrest, hpar⟩ := (stackOK_cons R e rest).mp hok
  obtain ⟨hcopy, hsome, hflags⟩ := hc
  simp only [hcur, hk] at hflags
  have hm := mstep_nopush now d a o (by rw [hexec, hex]; simp) herr'
  generalize processStmt d a o now = r at *
  have hadv := advance_info r.act
  have hcur1 : ({ e with processing := p' } : ExecCtx).block[({ e with processing := p' } : ExecCtx).pos]? = some s := hcur
  rw [hm]
  by_cases hrun : classify r.out r.finished = .running
  · have hf : r.finished = true := ((classify_running _ _).mp hrun).2
    have hp' := hfin hf
    subst hp'
    simp only [hrun, ↓reduceIte]
    refine ⟨?_, ?_⟩
    · refine Sim.step ?_ ?_ ?_ ?_ ?_ ?_
      · simp only; rw [h1, hrun]
      · exact h2.symm
      · exact h3.symm
      · exact h4.symm
      · simp only; rw [hadv.1, h5]
      · intro _
        simp only
        rw [h6 hrun]
        exact abs_advance R dp r.act { e with processing := false } rest hexec hflags.1 rfl hpar
    · intro _
      exact ⟨stackOK_advance R r.act { e with processing := false } rest hexec hcopy hne hflags.1 rfl hrest hpar, by rw [hadv.2.2.2.1]; exact herr'⟩
  · simp only [hrun, ↓reduceIte]
    refine ⟨?_, ?_⟩
    · refine Sim.step ?_ ?_ ?_ ?_ ?_ ?_
      · simp only; rw [h1]
      · exact h2.symm
      · exact h3.symm
      · exact h4.symm
      · simp only; rw [h5]
      · intro hs
        simp only at hs ⊢
        rcases hs with hs | hs
        · exact absurd hs hrun
        · rw [h7 hs, hexec]
          exact abs_leaf R dp _ rest s hcur1 hk
    · intro hs
      refine ⟨?_, herr'⟩
      rw [hexec, stackOK_cons]
      refine ⟨⟨⟨hcopy, hsome, ?_⟩, hne, hpos⟩, hrest, hpar⟩
      simp only [hcur1, hk]
      exact ⟨hflags.1, htp⟩


theorem sim_expect (R : Bool) (dp : List Plug) (now : Time) (d : Dev) (a : Action) (o : Oracle) (e : ExecCtx)
    (rest : List ExecCtx) (pat : Nat)
    (hex : a.exec = e :: rest) (hcur : e.block[e.pos]? = some (.expect pat))
    (hok : StackOK R (e :: rest)) (herr : a.errnum = .success) :
    Sim R dp now d a o (mstep now d a o) ∧
    ((mstep now d a o).status = .running ∨ (mstep now d a o).status = .stalled →
      StackOK R (mstep now d a o).act.exec ∧ (mstep now d a o).act.errnum = .success) := by
  obtain ⟨⟨hc, hne, hpos⟩, hrest, hpar⟩ := (stackOK_cons R e rest).mp hok
  obtain ⟨hcopy, hsome, hflags⟩ := hc
  simp only [hcur, Stmt.kind, Stmt.twoPhase] at hflags
  have hproc : e.processing = false := hflags.2 trivial
  have hps : processStmt d a o now = stmtExpect d a o pat := processStmt_at d a o now e rest hex _ hcur
  have hpure := stmtExpect_pure d a o pat
  have habs : abs R dp a.exec =
      ⟨.expect pat :: (unroll R dp (e.block.drop (e.pos + 1)) e.plugs ++ cont R dp rest), false⟩ := by
    rw [hex, abs_leaf R dp e rest _ hcur rfl]; simp [unrollStmt, Stmt.twoPhase]
  have hfs : fstep now d (info a) o (abs R dp a.exec) =
      ⟨(expectPure d a.telemetry a.clientId o pat).1, info a, (expectPure d a.telemetry a.clientId o pat).2.1,
       (expectPure d a.telemetry a.clientId o pat).2.2.1,
       if (expectPure d a.telemetry a.clientId o pat).2.2.2 then
         ⟨unroll R dp (e.block.drop (e.pos + 1)) e.plugs ++ cont R dp rest, false⟩
       else ⟨.expect pat :: (unroll R dp (e.block.drop (e.pos + 1)) e.plugs ++ cont R dp rest), false⟩,
       classify (expectPure d a.telemetry a.clientId o pat).2.2.1 (expectPure d a.telemetry a.clientId o pat).2.2.2⟩ := by
    rw [habs]; rfl
  refine sim_leaf R dp now d a o e rest _ hex hcur rfl hok false ?_ ?_ ?_ ?_ ?_ ?_ ?_ ?_ ?_ ?_ ?_
  · rw [hps, hpure]; show a.exec = _; rw [hex]; cases e; simp_all
  · rw [hps, hpure]; exact herr
  · intro _; rfl
  · intro _; rfl
  · rw [hfs, hps, hpure]
  · rw [hfs, hps, hpure]
  · rw [hfs, hps, hpure]
  · rw [hfs, hps, hpure]
  · rw [hfs, hps, hpure]
  · intro hrun
    rw [hps, hpure] at hrun; dsimp only at hrun
    rw [hfs]; simp only [((classify_running _ _).mp hrun).2, ↓reduceIte]
  · intro hst
    rw [hps, hpure] at hst; dsimp only at hst
    rw [hfs]; simp [((classify_stalled _ _).mp hst).2, unrollStmt, Stmt.twoPhase]


theorem classify_abort1 (site : String) (fin : Bool) : classify [Out.abortAssert site] fin = .aborted := by
  simp [classify, hasAbort]

theorem sim_setplugstate (R : Bool) (dp : List Plug) (now : Time) (d : Dev) (a : Action) (o : Oracle) (e : ExecCtx)
    (rest : List ExecCtx) (lit : Option Bytes) (pm sm : Int) (is : List (PState × Nat))
    (hex : a.exec = e :: rest) (hcur : e.block[e.pos]? = some (.setplugstate lit pm sm is))
    (hok : StackOK R (e :: rest)) (herr : a.errnum = .success) :
    Sim R dp now d a o (mstep now d a o) ∧
    ((mstep now d a o).status = .running ∨ (mstep now d a o).status = .stalled →
      StackOK R (mstep now d a o).act.exec ∧ (mstep now d a o).act.errnum = .success) := by
  obtain ⟨⟨hc, hne, hpos⟩, hrest, hpar⟩ := (stackOK_cons R e rest).mp hok
  obtain ⟨hcopy, hsome, hflags⟩ := hc
  simp only [hcur, Stmt.kind, Stmt.twoPhase] at hflags
  have hproc : e.processing = false := hflags.2 trivial
  have hps : processStmt d a o now = setplugstateCore d a o (ctxName e.plugs) lit pm sm is := by
    rw [processStmt_at d a o now e rest hex _ hcur]; exact stmtSetplugstate_eq d a o e lit pm sm is
  have habs : abs R dp a.exec =
      ⟨.setplugstate lit pm sm is (ctxName e.plugs) :: (unroll R dp (e.block.drop (e.pos + 1)) e.plugs ++ cont R dp rest), false⟩ := by
    rw [hex, abs_leaf R dp e rest _ hcur rfl]; simp [unrollStmt, Stmt.twoPhase]
  have hexec0 : a.exec = { e with processing := false } :: rest := by rw [hex]; cases e; simp_all
  have hpure := setplugstateCore_pure d a o (ctxName e.plugs) lit pm sm is
  have hfs : fstep now d (info a) o (abs R dp a.exec) =
      ⟨(setplugstatePure d a.arglist o (ctxName e.plugs) lit pm sm is).1, info a,
       (setplugstatePure d a.arglist o (ctxName e.plugs) lit pm sm is).2.1,
       (setplugstatePure d a.arglist o (ctxName e.plugs) lit pm sm is).2.2,
       ⟨unroll R dp (e.block.drop (e.pos + 1)) e.plugs ++ cont R dp rest, false⟩,
       classify (setplugstatePure d a.arglist o (ctxName e.plugs) lit pm sm is).2.2 true⟩ := by
    rw [habs]; simp only [fstep]; rfl
  refine sim_leaf R dp now d a o e rest _ hex hcur rfl hok false ?_ ?_ ?_ ?_ ?_ ?_ ?_ ?_ ?_ ?_ ?_
  · rw [hps, hpure]; exact hexec0
  · rw [hps, hpure]; exact herr
  · intro _; rfl
  · intro _; rfl
  · rw [hfs, hps, hpure]
  · rw [hfs, hps, hpure]
  · rw [hfs, hps, hpure]
  · rw [hfs, hps, hpure]
  · rw [hfs, hps, hpure]
  · intro _; rw [hfs]
  · intro hst
    rw [hps, hpure] at hst; dsimp only at hst
    have := ((classify_stalled _ _).mp hst).2; cases this

theorem sim_setresult (R : Bool) (dp : List Plug) (now : Time) (d : Dev) (a : Action) (o : Oracle) (e : ExecCtx)
    (rest : List ExecCtx) (pm sm : Int) (is : List (PResult × Nat))
    (hex : a.exec = e :: rest) (hcur : e.block[e.pos]? = some (.setresult pm sm is))
    (hok : StackOK R (e :: rest)) (herr : a.errnum = .success) :
    Sim R dp now d a o (mstep now d a o) ∧
    ((mstep now d a o).status = .running ∨ (mstep now d a o).status = .stalled →
      StackOK R (mstep now d a o).act.exec ∧ (mstep now d a o).act.errnum = .success) := by
  obtain ⟨⟨hc, hne, hpos⟩, hrest, hpar⟩ := (stackOK_cons R e rest).mp hok
  obtain ⟨hcopy, hsome, hflags⟩ := hc
  simp only [hcur, Stmt.kind, Stmt.twoPhase] at hflags
  have hproc : e.processing = false := hflags.2 trivial
  have hps : processStmt d a o now = stmtSetresult d a o pm sm is := processStmt_at d a o now e rest hex _ hcur
  have habs : abs R dp a.exec =
      ⟨.setresult pm sm is :: (unroll R dp (e.block.drop (e.pos + 1)) e.plugs ++ cont R dp rest), false⟩ := by
    rw [hex, abs_leaf R dp e rest _ hcur rfl]; simp [unrollStmt, Stmt.twoPhase]
  have hexec0 : a.exec = { e with processing := false } :: rest := by rw [hex]; cases e; simp_all
  have hpure := stmtSetresult_pure d a o pm sm is
  have hfs : fstep now d (info a) o (abs R dp a.exec) =
      ⟨(setresultPure d a.arglist a.clientId o pm sm is).1, info a,
       (setresultPure d a.arglist a.clientId o pm sm is).2.1,
       (setresultPure d a.arglist a.clientId o pm sm is).2.2,
       ⟨unroll R dp (e.block.drop (e.pos + 1)) e.plugs ++ cont R dp rest, false⟩,
       classify (setresultPure d a.arglist a.clientId o pm sm is).2.2 true⟩ := by
    rw [habs]; simp only [fstep]; rfl
  refine sim_leaf R dp now d a o e rest _ hex hcur rfl hok false ?_ ?_ ?_ ?_ ?_ ?_ ?_ ?_ ?_ ?_ ?_
  · rw [hps, hpure]; exact hexec0
  · rw [hps, hpure]; exact herr
  · intro _; rfl
  · intro _; rfl
  · rw [hfs, hps, hpure]
  · rw [hfs, hps, hpure]
  · rw [hfs, hps, hpure]
  · rw [hfs, hps, hpure]
  · rw [hfs, hps, hpure]
  · intro _; rw [hfs]
  · intro hst
    rw [hps, hpure] at hst; dsimp only at hst
    have := ((classify_stalled _ _).mp hst).2; cases this


theorem sim_send (R : Bool) (dp : List Plug) (now : Time) (d : Dev) (a : Action) (o : Oracle) (e : ExecCtx)
    (rest : List ExecCtx) (fmt : Bytes)
    (hex : a.exec = e :: rest) (hcur : e.block[e.pos]? = some (.send fmt))
    (hok : StackOK R (e :: rest)) (herr : a.errnum = .success) :
    Sim R dp now d a o (mstep now d a o) ∧
    ((mstep now d a o).status = .running ∨ (mstep now d a o).status = .stalled →
      StackOK R (mstep now d a o).act.exec ∧ (mstep now d a o).act.errnum = .success) := by
  have hps : processStmt d a o now = stmtSend d a o e fmt := processStmt_at d a o now e rest hex _ hcur
  have hdrop : a.exec.drop 1 = rest := by simp [hex]
  have habs : abs R dp a.exec =
      ⟨.send (sendText fmt e.plugs) :: (unroll R dp (e.block.drop (e.pos + 1)) e.plugs ++ cont R dp rest), e.processing⟩ := by
    rw [hex, abs_leaf R dp e rest _ hcur rfl]; simp [unrollStmt, Stmt.twoPhase]
  by_cases hp : e.processing = true
  · -- re-entry
    obtain ⟨r1, r2, r3, r4, r5⟩ := stmtSend_reentry d a o e fmt hp
    have hfs : fstep now d (info a) o (abs R dp a.exec) =
        ⟨d, info a, o, [], if d.toBuf.isEmpty then ⟨unroll R dp (e.block.drop (e.pos + 1)) e.plugs ++ cont R dp rest, false⟩
          else abs R dp a.exec, classify [] d.toBuf.isEmpty⟩ := by
      rw [habs]; simp only [fstep, hp]; rfl
    refine sim_leaf R dp now d a o e rest _ hex hcur rfl hok (!d.toBuf.isEmpty) ?_ ?_ ?_ ?_ ?_ ?_ ?_ ?_ ?_ ?_ ?_
    · rw [hps, r5]
      by_cases hb : d.toBuf.isEmpty = true
      · simp [hb, hdrop]
      · simp only [hb, Bool.false_eq_true, ↓reduceIte, hex, Bool.not_false]
        congr 1; cases e; simp_all
    · rw [hps, r5]; split <;> simpa using herr
    · intro h; rw [hps, r4] at h; simp [h]
    · intro h; simp [Stmt.twoPhase] at h
    · rw [hfs, hps, r3, r4]
    · rw [hfs, hps, r1]
    · rw [hfs, hps, r2]
    · rw [hfs, hps, r3]
    · rw [hfs, hps, r5]; split <;> rfl
    · intro h; rw [hps, r3, r4] at h
      rw [hfs]; simp only [((classify_running _ _).mp h).2, ↓reduceIte]
    · intro h; rw [hps, r3, r4] at h
      rw [hfs, habs]; simp [((classify_stalled _ _).mp h).2, unrollStmt, Stmt.twoPhase, hp]
  · have hp' : e.processing = false := by simpa using hp
    cases hst : sendText fmt e.plugs with
    | none =>
      have hr := stmtSend_fresh_abort d a o e fmt hp' hst
      have hfs : fstep now d (info a) o (abs R dp a.exec) =
          ⟨d, info a, o, [.abortAssert "hostlist_sort assert in _process_send"], abs R dp a.exec, .aborted⟩ := by
        rw [habs]; simp only [fstep, hp', hst]; rfl
      have hexec0 : a.exec = { e with processing := false } :: rest := by rw [hex]; cases e; simp_all
      refine sim_leaf R dp now d a o e rest _ hex hcur rfl hok false ?_ ?_ ?_ ?_ ?_ ?_ ?_ ?_ ?_ ?_ ?_
      · rw [hps, hr]; exact hexec0
      · rw [hps, hr]; exact herr
      · intro _; rfl
      · intro _; rfl
      · rw [hfs, hps, hr]; simp only [classify_abort1]
      · rw [hfs, hps, hr]
      · rw [hfs, hps, hr]
      · rw [hfs, hps, hr]
      · rw [hfs, hps, hr]
      · intro h; rw [hps, hr] at h; simp only [classify_abort1] at h; cases h
      · intro h; rw [hps, hr] at h; simp only [classify_abort1] at h; cases h
    | some t =>
      obtain ⟨r1, r2, r3, r4, r5⟩ := stmtSend_fresh d a o e fmt t hp' hst
      have hfs : fstep now d (info a) o (abs R dp a.exec) =
          ⟨{ d with toBuf := clipTo (d.toBuf ++ t) }, info a, o,
           [Out.sent t] ++ sendTele d a.telemetry a.clientId t,
           if (d.toBuf ++ t).isEmpty then ⟨unroll R dp (e.block.drop (e.pos + 1)) e.plugs ++ cont R dp rest, false⟩
             else ⟨.send (some t) :: (unroll R dp (e.block.drop (e.pos + 1)) e.plugs ++ cont R dp rest), true⟩,
           classify ([Out.sent t] ++ sendTele d a.telemetry a.clientId t) (d.toBuf ++ t).isEmpty⟩ := by
        rw [habs, hst]; simp only [fstep, hp']; rfl
      refine sim_leaf R dp now d a o e rest _ hex hcur rfl hok (!(d.toBuf ++ t).isEmpty) ?_ ?_ ?_ ?_ ?_ ?_ ?_ ?_ ?_ ?_ ?_
      · rw [hps, r5]; simp [hdrop]
      · rw [hps, r5]; simpa using herr
      · intro h; rw [hps, r4] at h; simp [h]
      · intro h; simp [Stmt.twoPhase] at h
      · rw [hfs, hps, r3, r4]
      · rw [hfs, hps, r1]
      · rw [hfs, hps, r2]
      · rw [hfs, hps, r3]
      · rw [hfs, hps, r5]; rfl
      · intro h; rw [hps, r3, r4] at h
        rw [hfs]; simp only [((classify_running _ _).mp h).2, ↓reduceIte]
      · intro h; rw [hps, r3, r4] at h
        rw [hfs]; simp [((classify_stalled _ _).mp h).2, unrollStmt, Stmt.twoPhase, hst]


theorem delayTele_info (a : Action) (us : Time) : delayTeleI (info a) us = delayTele a us := rfl

theorem sim_delay (R : Bool) (dp : List Plug) (now : Time) (d : Dev) (a : Action) (o : Oracle) (e : ExecCtx)
    (rest : List ExecCtx) (us : Time)
    (hex : a.exec = e :: rest) (hcur : e.block[e.pos]? = some (.delay us))
    (hok : StackOK R (e :: rest)) (herr : a.errnum = .success) :
    Sim R dp now d a o (mstep now d a o) ∧
    ((mstep now d a o).status = .running ∨ (mstep now d a o).status = .stalled →
      StackOK R (mstep now d a o).act.exec ∧ (mstep now d a o).act.errnum = .success) := by
  have hps : processStmt d a o now = stmtDelay' d a o e now us := by
    rw [processStmt_at d a o now e rest hex _ hcur]; exact stmtDelay_eq d a o e now us
  have hdrop : a.exec.drop 1 = rest := by simp [hex]
  have htop : topCtx a = e := topCtx_of_exec a e rest hex
  have habs : abs R dp a.exec =
      ⟨.delay us :: (unroll R dp (e.block.drop (e.pos + 1)) e.plugs ++ cont R dp rest), e.processing⟩ := by
    rw [hex, abs_leaf R dp e rest _ hcur rfl]; simp [unrollStmt, Stmt.twoPhase]
  by_cases hp : e.processing = true
  · -- re-entry
    by_cases hc : (d.shortCircuitDelay || decide (now ≥ a.delayStart + us)) = true
    · have hr : stmtDelay' d a o e now us = ⟨d, setTop a { e with processing := false }, o, [], true⟩ := by
        unfold stmtDelay' stmtDelayTail; simp only [hp, Bool.not_true, Bool.false_eq_true, ↓reduceIte, hc, htop]
      have hfs : fstep now d (info a) o (abs R dp a.exec) =
          ⟨d, info a, o, [], ⟨unroll R dp (e.block.drop (e.pos + 1)) e.plugs ++ cont R dp rest, false⟩, classify [] true⟩ := by
        rw [habs]
        have : (info a).delayStart = a.delayStart := rfl
        simp only [fstep, hp, ↓reduceIte, this, hc]; rfl
      refine sim_leaf R dp now d a o e rest _ hex hcur rfl hok false ?_ ?_ ?_ ?_ ?_ ?_ ?_ ?_ ?_ ?_ ?_
      · rw [hps, hr]; simp [hdrop]
      · rw [hps, hr]; simpa using herr
      · intro _; rfl
      · intro _; rfl
      · rw [hfs, hps, hr]
      · rw [hfs, hps, hr]
      · rw [hfs, hps, hr]
      · rw [hfs, hps, hr]
      · rw [hfs, hps, hr]; rfl
      · intro _; rw [hfs]
      · intro h; rw [hps, hr] at h; simp [classify, hasAbort] at h
    · have hr : stmtDelay' d a o e now us = ⟨{ d with wake := some (a.delayStart + us - now) }, a, o, [], false⟩ := by
        unfold stmtDelay' stmtDelayTail; simp only [hp, Bool.not_true, Bool.false_eq_true, ↓reduceIte, hc]
      have hfs : fstep now d (info a) o (abs R dp a.exec) =
          ⟨{ d with wake := some (a.delayStart + us - now) }, info a, o, [],
            ⟨.delay us :: (unroll R dp (e.block.drop (e.pos + 1)) e.plugs ++ cont R dp rest), true⟩, classify [] false⟩ := by
        rw [habs]
        have : (info a).delayStart = a.delayStart := rfl
        simp only [fstep, hp, ↓reduceIte, this, hc]; rfl
      have hexec0 : a.exec = { e with processing := true } :: rest := by rw [hex]; cases e; simp_all
      refine sim_leaf R dp now d a o e rest _ hex hcur rfl hok true ?_ ?_ ?_ ?_ ?_ ?_ ?_ ?_ ?_ ?_ ?_
      · rw [hps, hr]; exact hexec0
      · rw [hps, hr]; exact herr
      · intro h; rw [hps, hr] at h; cases h
      · intro h; simp [Stmt.twoPhase] at h
      · rw [hfs, hps, hr]
      · rw [hfs, hps, hr]
      · rw [hfs, hps, hr]
      · rw [hfs, hps, hr]
      · rw [hfs, hps, hr]
      · intro h; rw [hps, hr] at h; simp [classify, hasAbort] at h
      · intro _; rw [hfs]; simp [unrollStmt, Stmt.twoPhase]
  · have hp' : e.processing = false := by simpa using hp
    by_cases hc : (d.shortCircuitDelay || decide (now ≥ now + us)) = true
    · have hr : stmtDelay' d a o e now us =
          ⟨d, setTop { a with delayStart := now } { e with processing := false }, o, delayTele a us, true⟩ := by
        unfold stmtDelay' stmtDelayTail
        simp only [hp', Bool.not_false, ↓reduceIte]
        split
        · rfl
        · rename_i h; exact absurd hc h
      have hfs : fstep now d (info a) o (abs R dp a.exec) =
          ⟨d, { info a with delayStart := now }, o, delayTele a us,
            ⟨unroll R dp (e.block.drop (e.pos + 1)) e.plugs ++ cont R dp rest, false⟩, classify (delayTele a us) true⟩ := by
        rw [habs]
        simp only [fstep, hp', Bool.false_eq_true, ↓reduceIte, delayTele_info]
        split
        · rfl
        · rename_i h; exact absurd hc h
      refine sim_leaf R dp now d a o e rest _ hex hcur rfl hok false ?_ ?_ ?_ ?_ ?_ ?_ ?_ ?_ ?_ ?_ ?_
      · rw [hps, hr]; simp [hdrop]
      · rw [hps, hr]; simpa using herr
      · intro _; rfl
      · intro _; rfl
      · rw [hfs, hps, hr]
      · rw [hfs, hps, hr]
      · rw [hfs, hps, hr]
      · rw [hfs, hps, hr]
      · rw [hfs, hps, hr]; rfl
      · intro _; rw [hfs]
      · intro h; rw [hps, hr] at h
        have := ((classify_stalled _ _).mp h).2; cases this
    · have hr : stmtDelay' d a o e now us =
          ⟨{ d with wake := some (now + us - now) }, setTop { a with delayStart := now } { e with processing := true }, o,
            delayTele a us, false⟩ := by
        unfold stmtDelay' stmtDelayTail
        simp only [hp', Bool.not_false, ↓reduceIte]
        split
        · rename_i h; exact absurd h hc
        · rfl
      have hfs : fstep now d (info a) o (abs R dp a.exec) =
          ⟨{ d with wake := some (now + us - now) }, { info a with delayStart := now }, o, delayTele a us,
            ⟨.delay us :: (unroll R dp (e.block.drop (e.pos + 1)) e.plugs ++ cont R dp rest), true⟩,
            classify (delayTele a us) false⟩ := by
        rw [habs]
        simp only [fstep, hp', Bool.false_eq_true, ↓reduceIte, delayTele_info]
        split
        · rename_i h; exact absurd h hc
        · rfl
      refine sim_leaf R dp now d a o e rest _ hex hcur rfl hok true ?_ ?_ ?_ ?_ ?_ ?_ ?_ ?_ ?_ ?_ ?_
      · rw [hps, hr]; simp [hdrop]
      · rw [hps, hr]; simpa using herr
      · intro h; rw [hps, hr] at h; cases h
      · intro h; simp [Stmt.twoPhase] at h
      · rw [hfs, hps, hr]
      · rw [hfs, hps, hr]
      · rw [hfs, hps, hr]
      · rw [hfs, hps, hr]
      · rw [hfs, hps, hr]; rfl
      · intro h; rw [hps, hr] at h
        have := ((classify_running _ _).mp h).2; cases this
      · intro _; rw [hfs]; simp [unrollStmt, Stmt.twoPhase]


/-! ### what no statement touches -/

/-- the frame of a statement: the device's plug list, connection state and time-out, the action's command and time
    stamp stay; `wake` is only written by a statement that does not finish -/
def Frame (d : Dev) (a : Action) (r : StepR) : Prop :=
  r.dev.plugs = d.plugs ∧ r.dev.conn = d.conn ∧ r.dev.timeout = d.timeout ∧ r.act.com = a.com ∧
  r.act.timeStamp = a.timeStamp ∧ r.act.clientId = a.clientId ∧ (r.finished = true → r.dev.wake = d.wake)

theorem frame_expect (d a o pat) : Frame d a (stmtExpect d a o pat) := by
  unfold Frame stmtExpect; grind
theorem frame_send (d a o e fmt) : Frame d a (stmtSend d a o e fmt) := by
  rw [stmtSend_eq]; unfold Frame stmtSend'; grind [setTop]
theorem frame_delay (d a o e now us) : Frame d a (stmtDelay d a o e now us) := by
  rw [stmtDelay_eq]; unfold Frame stmtDelay' stmtDelayTail; grind [setTop]
theorem frame_setplugstate (d a o e l p s i) : Frame d a (stmtSetplugstate d a o e l p s i) := by
  rw [stmtSetplugstate_eq]; unfold Frame setplugstateCore setArgs; grind
theorem frame_setresult (d a o p s i) : Frame d a (stmtSetresult d a o p s i) := by
  unfold Frame stmtSetresult setArgs; grind
theorem frame_foreach (d a o e b n) : Frame d a (stmtForeach d a o e b n) := by
  rw [stmtForeach_eq]; unfold Frame stmtForeach'; grind [setTop]
theorem frame_if (d a o e b n) : Frame d a (stmtIf d a o e b n) := by
  rw [stmtIf_eq]; unfold Frame stmtIf'; grind [setTop]

theorem frame_processStmt (d : Dev) (a : Action) (o : Oracle) (now : Time) : Frame d a (processStmt d a o now) := by
  unfold processStmt
  dsimp only
  split
  · simp [Frame]
  all_goals first
    | exact frame_expect _ _ _ _
    | exact frame_send _ _ _ _ _
    | exact frame_delay _ _ _ _ _ _
    | exact frame_setplugstate _ _ _ _ _ _ _ _
    | exact frame_setresult _ _ _ _ _ _
    | exact frame_foreach _ _ _ _ _ _
    | exact frame_if _ _ _ _ _ _


theorem mstep_frame (now : Time) (d : Dev) (a : Action) (o : Oracle) :
    (mstep now d a o).dev.plugs = d.plugs ∧ (mstep now d a o).dev.conn = d.conn ∧
    (mstep now d a o).dev.timeout = d.timeout ∧ (mstep now d a o).act.com = a.com ∧
    (mstep now d a o).act.timeStamp = a.timeStamp ∧ (mstep now d a o).act.clientId = a.clientId ∧
    ((mstep now d a o).status = .running → (mstep now d a o).dev.wake = d.wake) := by
  obtain ⟨h1, h2, h3, h4, h5, h6, h7⟩ := frame_processStmt d a o now
  unfold mstep
  generalize processStmt d a o now = r at *
  have hadv := advance_info r.act
  have hcid : (advance r.act).clientId = r.act.clientId := congrArg FA.clientId hadv.1
  dsimp only
  split
  · rename_i h; simp only [Bool.and_eq_true] at h
    exact ⟨h1, h2, h3, h4, h5, h6, fun _ => h7 h.1⟩
  · split
    · exact ⟨h1, h2, h3, h4, h5, h6, by simp⟩
    · split
      · exact ⟨h1, h2, h3, h4, h5, h6, by simp⟩
      · rename_i hf
        have hf' : r.finished = true := by simpa using hf
        split
        · exact ⟨h1, h2, h3, by rw [hadv.2.1, h4], by rw [hadv.2.2.1, h5], by rw [hcid, h6], fun _ => h7 hf'⟩
        · exact ⟨h1, h2, h3, h4, h5, h6, by simp⟩

/-- C08 core: every micro-step of the stack machine is either invisible (push of a `foreach` body, pop, iterator
    bookkeeping leave the denoted continuation unchanged) or exactly one step of the reference, with the same device
    state, oracle, output and outcome; and the invariant is kept while the action goes on. -/
theorem mstep_sim (R : Bool) (dp : List Plug) (now : Time) (d : Dev) (a : Action) (o : Oracle)
    (hne : a.exec ≠ []) (hR : R = isRanged a.com) (hdp : dp = d.plugs) (hok : StackOK R a.exec)
    (herr : a.errnum = .success) :
    Sim R dp now d a o (mstep now d a o) ∧
    ((mstep now d a o).status = .running ∨ (mstep now d a o).status = .stalled →
      StackOK R (mstep now d a o).act.exec ∧ (mstep now d a o).act.errnum = .success) := by
  cases hex : a.exec with
  | nil => exact absurd hex hne
  | cons e rest =>
    rw [hex] at hok
    have hpos := hok.2.2 e rfl
    obtain ⟨s, hcur⟩ := getElem?_some_of_lt hpos
    cases s with
    | send fmt => exact sim_send R dp now d a o e rest fmt hex hcur hok herr
    | expect pat => exact sim_expect R dp now d a o e rest pat hex hcur hok herr
    | delay us => exact sim_delay R dp now d a o e rest us hex hcur hok herr
    | setplugstate lit pm sm is => exact sim_setplugstate R dp now d a o e rest lit pm sm is hex hcur hok herr
    | setresult pm sm is => exact sim_setresult R dp now d a o e rest pm sm is hex hcur hok herr
    | foreachplug b =>
      obtain ⟨h1, h2, h3, _⟩ := sim_each R dp now d a o e rest _ false b hex hcur rfl hR hdp hok herr
      exact ⟨h1, fun _ => ⟨h2, h3⟩⟩
    | foreachnode b =>
      obtain ⟨h1, h2, h3, _⟩ := sim_each R dp now d a o e rest _ true b hex hcur rfl hR hdp hok herr
      exact ⟨h1, fun _ => ⟨h2, h3⟩⟩
    | ifon b =>
      obtain ⟨h1, h2, h3, _⟩ := sim_cond R dp now d a o e rest _ true b hex hcur rfl hok herr
      exact ⟨h1, fun h => by rcases h with h | h; exact h2 h; exact absurd h h3⟩
    | ifoff b =>
      obtain ⟨h1, h2, h3, _⟩ := sim_cond R dp now d a o e rest _ false b hex hcur rfl hok herr
      exact ⟨h1, fun h => by rcases h with h | h; exact h2 h; exact absurd h h3⟩


/-! ## whole runs -/

/-- micro-steps of the machine until the action stalls, fails, aborts or is done; `running` = out of fuel -/
def mrun (now : Time) : Nat → Dev → Action → Oracle → List Out → MR
  | 0, d, a, o, acc => ⟨d, a, o, acc, .running⟩
  | n + 1, d, a, o, acc =>
    if a.exec.isEmpty then ⟨d, a, o, acc, .done⟩ else
    if (mstep now d a o).status = .running then
      mrun now n (mstep now d a o).dev (mstep now d a o).act (mstep now d a o).oracle (acc ++ (mstep now d a o).out)
    else ⟨(mstep now d a o).dev, (mstep now d a o).act, (mstep now d a o).oracle, acc ++ (mstep now d a o).out,
           (mstep now d a o).status⟩

/-- steps of the reference until the program stalls, fails, aborts or is used up -/
def frun (now : Time) : Nat → Dev → FA → Oracle → F → List Out → FR
  | 0, d, i, o, f, acc => ⟨d, i, o, acc, f, .running⟩
  | n + 1, d, i, o, f, acc =>
    if f.rem.isEmpty then ⟨d, i, o, acc, f, .done⟩ else
    if (fstep now d i o f).status = .running then
      frun now n (fstep now d i o f).dev (fstep now d i o f).info (fstep now d i o f).oracle (fstep now d i o f).f
        (acc ++ (fstep now d i o f).out)
    else ⟨(fstep now d i o f).dev, (fstep now d i o f).info, (fstep now d i o f).oracle, acc ++ (fstep now d i o f).out,
           (fstep now d i o f).f, (fstep now d i o f).status⟩

/-- the configuration invariant: `R` and `dp` are the action's and the device's, the stack is well-formed, no error yet -/
structure Inv (R : Bool) (dp : List Plug) (d : Dev) (a : Action) : Prop where
  ranged : R = isRanged a.com
  plugs : dp = d.plugs
  ok : StackOK R a.exec
  err : a.errnum = .success

theorem abs_nil (R : Bool) (dp : List Plug) : abs R dp [] = ⟨[], false⟩ := rfl

theorem fstep_nil (now : Time) (d : Dev) (i : FA) (o : Oracle) (f : F) (h : f.rem = []) :
    fstep now d i o f = ⟨d, i, o, [], f, .running⟩ := by
  unfold fstep; simp [h]

theorem classify_ne_done (out : List Out) (fin : Bool) : classify out fin ≠ .done := by
  rcases classify_cases out fin with h | h | h <;> rw [h] <;> simp

theorem fstep_ne_done (now : Time) (d : Dev) (i : FA) (o : Oracle) (f : F) : (fstep now d i o f).status ≠ .done := by
  cases hrem : f.rem with
  | nil => simp [fstep, hrem]
  | cons op r =>
    cases op <;> unfold fstep <;> simp only [hrem] <;> repeat' split
    all_goals first
      | exact classify_ne_done _ _
      | (simp; done)
      | (simp; exact classify_ne_done _ _)

/-- what a run of the machine and a run of the reference have in common: outcome, device state, oracle, output and
    the action's fields; and unless the action failed or the daemon stopped, the stack denotes what the reference has
    left and is again well-formed -/
structure RunSim (R : Bool) (dp : List Plug) (m : MR) (fr : FR) : Prop where
  status : fr.status = m.status
  dev : fr.dev = m.dev
  oracle : fr.oracle = m.oracle
  out : fr.out = m.out
  info : fr.info = info m.act
  cont : m.status = .stalled ∨ m.status = .done ∨ m.status = .running → fr.f = abs R dp m.act.exec ∧ Inv R dp m.dev m.act

/-- C08, runs: a run of the stack machine from any well-formed configuration — any script, plug list, argument
    list, device input, oracle, time, any number of micro-steps — is a run of the loop-free reference on the program
    the stack denotes: same device state, same oracle consumption, same output in the same order, same outcome, and
    where it stops without failing the stack again denotes what the reference has left. -/
theorem refines_run (R : Bool) (dp : List Plug) (now : Time) : ∀ (n : Nat) (d : Dev) (a : Action) (o : Oracle) (acc : List Out),
    Inv R dp d a →
    ∃ k, k ≤ n ∧ RunSim R dp (mrun now n d a o acc) (frun now k d (info a) o (abs R dp a.exec) acc) := by
  intro n
  induction n with
  | zero =>
    intro d a o acc hinv
    exact ⟨0, Nat.le_refl _, rfl, rfl, rfl, rfl, rfl, fun _ => ⟨rfl, hinv⟩⟩
  | succ n ih =>
    intro d a o acc hinv
    unfold mrun
    by_cases hemp : a.exec.isEmpty = true
    · simp only [hemp, ↓reduceIte]
      have hnil : a.exec = [] := by simpa using hemp
      refine ⟨1, by omega, ?_⟩
      simp only [frun, hnil, abs_nil, List.isEmpty_nil, ↓reduceIte]
      exact ⟨rfl, rfl, rfl, rfl, rfl, fun _ => ⟨by rw [hnil]; rfl, hinv⟩⟩
    · simp only [hemp, Bool.false_eq_true, ↓reduceIte]
      have hne : a.exec ≠ [] := by simpa using hemp
      obtain ⟨hsim, hkeep⟩ := mstep_sim R dp now d a o hne hinv.ranged hinv.plugs hinv.ok hinv.err
      have hfrm := mstep_frame now d a o
      generalize mstep now d a o = m at *
      have hinv' : m.status = .running ∨ m.status = .stalled → Inv R dp m.dev m.act := fun h =>
        ⟨by rw [hfrm.2.2.2.1]; exact hinv.ranged, by rw [hfrm.1]; exact hinv.plugs, (hkeep h).1, (hkeep h).2⟩
      -- a step that the reference does not see
      have stut : m.status = .running → m.dev = d → m.oracle = o → m.out = [] → info m.act = info a →
          abs R dp m.act.exec = abs R dp a.exec →
          ∃ k, k ≤ n + 1 ∧ RunSim R dp (if m.status = .running then mrun now n m.dev m.act m.oracle (acc ++ m.out)
              else ⟨m.dev, m.act, m.oracle, acc ++ m.out, m.status⟩) (frun now k d (info a) o (abs R dp a.exec) acc) := by
        intro h1 h2 h3 h4 h5 h6
        simp only [h1, ↓reduceIte]
        obtain ⟨k, hkn, hk⟩ := ih m.dev m.act m.oracle (acc ++ m.out) (hinv' (Or.inl h1))
        rw [h2, h3, h4, h5, h6, List.append_nil] at hk
        rw [h2, h3, h4, List.append_nil]
        exact ⟨k, by omega, hk⟩
      cases hsim with
      | stutter h1 h2 h3 h4 h5 h6 => exact stut h1 h2 h3 h4 h5 h6
      | step h1 h2 h3 h4 h5 h6 =>
        by_cases hrem : (abs R dp a.exec).rem = []
        · rw [fstep_nil now d (info a) o _ hrem] at h1 h2 h3 h4 h5 h6
          exact stut h1 h2 h3 h4 h5 (h6 (Or.inl h1))
        · have hrem' : (abs R dp a.exec).rem.isEmpty = false := by simpa using hrem
          by_cases hrun : m.status = .running
          · simp only [hrun, ↓reduceIte]
            obtain ⟨k, hkn, hk⟩ := ih m.dev m.act m.oracle (acc ++ m.out) (hinv' (Or.inl hrun))
            refine ⟨k + 1, by omega, ?_⟩
            simp only [frun, hrem', Bool.false_eq_true, ↓reduceIte, ← h1, hrun, ← h2, ← h3, ← h4, ← h5, ← h6 (Or.inl hrun)]
            exact hk
          · simp only [hrun, ↓reduceIte]
            refine ⟨1, by omega, ?_⟩
            simp only [frun, hrem', Bool.false_eq_true, ↓reduceIte, ← h1, hrun, ← h2, ← h3, ← h4, ← h5]
            refine ⟨rfl, rfl, rfl, rfl, rfl, ?_⟩
            intro h
            simp only at h
            rcases h with h | h | h
            · exact ⟨(h6 (Or.inr h)).symm, hinv' (Or.inr h)⟩
            · -- a micro-step never reports `done`
              exfalso
              exact fstep_ne_done now d (info a) o (abs R dp a.exec) (by rw [← h1]; exact h)
            · exact absurd h hrun

/-- a fresh action (one context at the first statement of a non-empty script whose blocks are non-empty, no flags) is
    well-formed and denotes the unrolling of its whole script -/
theorem initial_ok (R : Bool) (dp : List Plug) (script : List Stmt) (plugs : Option (List Plug))
    (hne : script ≠ []) (hnb : neBlock script = true) :
    StackOK R [bodyCtx script plugs] ∧ abs R dp [bodyCtx script plugs] = ⟨unroll R dp script plugs, false⟩ := by
  constructor
  · rw [stackOK_cons]
    exact ⟨bodyCtx_ok R script plugs hne hnb, by simp, by simp⟩
  · rw [abs_fresh R dp _ _ rfl rfl]; simp [bodyCtx, cont]


end Pm.Dev2.Interp
