import Pm.Serial
/-! # Proofs about `Pm/Serial.lean`: after `_serial_setup` the line is raw, the character format is the one asked for

Property theorems are in `Pm/Props/C09.lean` (section 8). -/
namespace Pm.Serial
open Pm.Generated.Termios

/-! ## bit sets -/

theorem clr_and_self (w m : Nat) : clr w m &&& m = 0 := by
  simp [clr, Nat.and_xor_distrib_right, Nat.and_assoc]

theorem clr_and_disj (w m k : Nat) (h : m &&& k = 0) : clr w m &&& k = w &&& k := by
  unfold clr; rw [Nat.and_xor_distrib_right, Nat.and_assoc, h]; simp

theorem or_and_disj (w m k : Nat) (h : m &&& k = 0) : (w ||| m) &&& k = w &&& k := by
  rw [Nat.and_or_distrib_right, h]; simp

theorem and_or_zero_left {k a b : Nat} (h : (a ||| b) &&& k = 0) : a &&& k = 0 := by
  rw [Nat.and_or_distrib_right] at h; exact (Nat.or_eq_zero_iff.mp h).1

theorem and_or_zero_right {k a b : Nat} (h : (a ||| b) &&& k = 0) : b &&& k = 0 := by
  rw [Nat.and_or_distrib_right] at h; exact (Nat.or_eq_zero_iff.mp h).2

@[simp] theorem flag_zero (m : Nat) : flag 0 m = false := by simp [flag]
theorem flag_clr_self (w m : Nat) : flag (clr w m) m = false := by simp [flag, clr_and_self]

/-! ## `_serial_setup` step by step -/

theorem serialSetup_some {t t' : Termios} {p : Params} (h : serialSetup t p = some t') :
    ∃ t1 t2 t3 t4, setBaud t p.baud = .ok t1 ∧ setDatabits t1 p.databits = .ok t2 ∧ setStopbits t2 p.stopbits = .ok t3 ∧
      setParity t3 p.parity = .ok t4 ∧ t' = setRaw t4 := by
  unfold serialSetup serialSetupE at h
  cases h1 : setBaud t p.baud with
  | error e => simp [h1, bind, Except.bind, Except.toOption] at h
  | ok t1 =>
    cases h2 : setDatabits t1 p.databits with
    | error e => simp [h1, h2, bind, Except.bind, Except.toOption] at h
    | ok t2 =>
      cases h3 : setStopbits t2 p.stopbits with
      | error e => simp [h1, h2, h3, bind, Except.bind, Except.toOption] at h
      | ok t3 =>
        cases h4 : setParity t3 p.parity with
        | error e => simp [h1, h2, h3, h4, bind, Except.bind, Except.toOption] at h
        | ok t4 =>
          simp [h1, h2, h3, h4, bind, Except.bind, Except.toOption, pure, Except.pure] at h
          exact ⟨t1, t2, t3, t4, rfl, h2, h3, h4, h.symm⟩

theorem serialSetup_of_steps {t t1 t2 t3 t4 : Termios} {p : Params} (h1 : setBaud t p.baud = .ok t1)
    (h2 : setDatabits t1 p.databits = .ok t2) (h3 : setStopbits t2 p.stopbits = .ok t3) (h4 : setParity t3 p.parity = .ok t4) :
    serialSetup t p = some (setRaw t4) := by
  simp [serialSetup, serialSetupE, h1, h2, h3, h4, bind, Except.bind, Except.toOption, pure, Except.pure]

/-- after `_serial_setup`: input and local flag words are 0, `OPOST` is clear -/
theorem serialSetup_raw {t t' : Termios} {p : Params} (h : serialSetup t p = some t') :
    t'.iflag = 0 ∧ t'.lflag = 0 ∧ flag t'.oflag OPOST = false := by
  obtain ⟨t1, t2, t3, t4, -, -, -, -, rfl⟩ := serialSetup_some h
  exact ⟨rfl, rfl, flag_clr_self _ _⟩

/-! ## a tty with `OPOST` clear passes what is written -/

theorem ttyOut_raw {t : Termios} (h : flag t.oflag OPOST = false) (bs : Bytes) : ttyOut t bs = bs := by
  simp [ttyOut, h]

/-! ## a tty with `c_iflag = c_lflag = 0` hands over what arrives and echoes nothing -/

theorem inStep_raw {t : Termios} (hi : t.iflag = 0) (hl : t.lflag = 0) (st : InSt) (hn : st.lnext = false) (c : UInt8) :
    inStep t st c = { st with done := st.done ++ [c] } := by
  simp [inStep, hn, preops, inCharMap, recvChar, anyRestart, putQueue, canonMode, hi, hl]

theorem foldl_raw {t : Termios} (hi : t.iflag = 0) (hl : t.lflag = 0) (bs : Bytes) (st : InSt) (hn : st.lnext = false) :
    bs.foldl (inStep t) st = { st with done := st.done ++ bs } := by
  induction bs generalizing st with
  | nil => simp
  | cons c r ih =>
    rw [List.foldl_cons, inStep_raw hi hl st hn, ih { st with done := st.done ++ [c] } hn]
    simp

theorem ttyInSt_raw {t : Termios} (hi : t.iflag = 0) (hl : t.lflag = 0) (bs : Bytes) :
    ttyInSt t bs = { done := bs } := by
  simp [ttyInSt, foldl_raw hi hl bs {} rfl, hl]

theorem ttyIn_raw {t : Termios} (hi : t.iflag = 0) (hl : t.lflag = 0) (bs : Bytes) : ttyIn t bs = (bs, []) := by
  simp [ttyIn, ttyInSt_raw hi hl]

theorem pollReadable_raw {t : Termios} (hi : t.iflag = 0) (hl : t.lflag = 0) (bs : Bytes) :
    pollReadable t bs = decide (bs.length ≥ (if t.vtime == 0 && t.vmin != 0 then t.vmin else 1)) := by
  simp [pollReadable, ttyInSt_raw hi hl, canonMode, hl]

/-! ## the character format -/

theorem lookupBaud_mem {baud : Int} {b : Nat} (h : lookupBaud baud = some b) :
    ∃ n : Nat, (n : Int) = baud ∧ (n, b) ∈ baudmap := by
  unfold lookupBaud at h
  cases hf : baudmap.find? (fun p => (p.1 : Int) == baud) with
  | none => simp [hf] at h
  | some x =>
    simp [hf] at h
    refine ⟨x.1, ?_, ?_⟩
    · have := List.find?_some hf; simpa using this
    · have := List.mem_of_find?_eq_some hf; rw [← h]; exact this

/-- every row of `baudmap[]` (re-checked against the generated table on every build): the constant is a speed that
    `cfset[io]speed` accept, it lies inside `CBAUD`, and it is the `B…` constant <termios.h> gives to that number of
    bits per second -/
theorem baudmap_good : ∀ x ∈ baudmap, x.2 ≠ 0 ∧ badSpeed x.2 = false ∧ x.2 &&& CBAUD = x.2 ∧ x ∈ stdBaud := by decide

theorem lookupBaud_of_mem : ∀ x ∈ baudmap, lookupBaud (x.1 : Int) = some x.2 := by decide

theorem setBaud_ok {t t1 : Termios} {baud : Int} (h : setBaud t baud = .ok t1) :
    ∃ n b : Nat, (n : Int) = baud ∧ (n, b) ∈ baudmap ∧ lookupBaud baud = some b ∧
      t1 = { t with ispeed := b, ospeed := b, iflag := clr t.iflag IBAUD0, cflag := clr (clr t.cflag CBAUD ||| b) CBAUD ||| b } := by
  unfold setBaud at h
  cases hl : lookupBaud baud with
  | none => simp [hl] at h
  | some b =>
    obtain ⟨n, hn, hm⟩ := lookupBaud_mem hl
    obtain ⟨h0, hb, -, -⟩ := baudmap_good _ hm
    simp [hl, cfsetispeed, cfsetospeed, hb, h0] at h
    exact ⟨n, b, hn, hm, rfl, h.symm⟩

theorem setBaud_none {t : Termios} {baud : Int} (hl : lookupBaud baud = none) : setBaud t baud = .error .baud := by
  simp [setBaud, hl]

theorem setBaud_some {t : Termios} {baud : Int} {b : Nat} (hl : lookupBaud baud = some b) : ∃ t1, setBaud t baud = .ok t1 := by
  obtain ⟨n, hn, hm⟩ := lookupBaud_mem hl
  obtain ⟨h0, hb, -, -⟩ := baudmap_good _ hm
  simp [setBaud, hl, cfsetispeed, cfsetospeed, hb, h0]

theorem setDatabits_ok {t t' : Termios} {d : Int} (h : setDatabits t d = .ok t') :
    (d = 7 ∧ t' = { t with cflag := clr t.cflag CSIZE ||| CS7 }) ∨ (d = 8 ∧ t' = { t with cflag := clr t.cflag CSIZE ||| CS8 }) := by
  unfold setDatabits at h
  by_cases h7 : d = 7
  · subst h7; simp at h; exact .inl ⟨rfl, h.symm⟩
  · by_cases h8 : d = 8
    · subst h8; simp at h; exact .inr ⟨rfl, h.symm⟩
    · simp [h7, h8] at h

theorem setStopbits_ok {t t' : Termios} {d : Int} (h : setStopbits t d = .ok t') :
    (d = 1 ∧ t' = { t with cflag := clr t.cflag CSTOPB }) ∨ (d = 2 ∧ t' = { t with cflag := t.cflag ||| CSTOPB }) := by
  unfold setStopbits at h
  by_cases h1 : d = 1
  · subst h1; simp at h; exact .inl ⟨rfl, h.symm⟩
  · by_cases h2 : d = 2
    · subst h2; simp at h; exact .inr ⟨rfl, h.symm⟩
    · simp [h1, h2] at h

/-- the three ways parity can be asked for -/
def parityNone (c : UInt8) : Bool := c == 110 || c == 78
def parityEven (c : UInt8) : Bool := c == 101 || c == 69
def parityOdd (c : UInt8) : Bool := c == 111 || c == 79

theorem setParity_ok {t t' : Termios} {c : UInt8} (h : setParity t c = .ok t') :
    (parityNone c = true ∧ t' = { t with cflag := clr t.cflag PARENB }) ∨
    (parityNone c = false ∧ parityEven c = true ∧ t' = { t with cflag := clr (t.cflag ||| PARENB) PARODD }) ∨
    (parityNone c = false ∧ parityEven c = false ∧ parityOdd c = true ∧ t' = { t with cflag := t.cflag ||| PARENB ||| PARODD }) := by
  unfold setParity at h
  by_cases hn : parityNone c = true
  · simp only [parityNone] at hn; simp [hn] at h; exact .inl ⟨by simpa [parityNone] using hn, h.symm⟩
  · have hn' : parityNone c = false := by simpa using hn
    simp only [parityNone] at hn
    by_cases he : parityEven c = true
    · simp only [parityEven] at he; simp [hn, he] at h
      exact .inr (.inl ⟨hn', by simpa [parityEven] using he, h.symm⟩)
    · have he' : parityEven c = false := by simpa using he
      simp only [parityEven] at he
      by_cases ho : parityOdd c = true
      · simp only [parityOdd] at ho; simp [hn, he, ho] at h
        exact .inr (.inr ⟨hn', he', by simpa [parityOdd] using ho, h.symm⟩)
      · simp only [parityOdd] at ho; simp [hn, he, ho] at h

/-! ### what each step does to `c_cflag`: its own bits, and nothing else -/

theorem and_sub_zero {b k m : Nat} (h : b &&& m = 0) (hk : k &&& m = k) : b &&& k = 0 := by
  rw [← hk, Nat.and_comm k m, ← Nat.and_assoc, h]; simp

theorem sub_disj {b m k : Nat} (hb : b &&& m = b) (hk : m &&& k = 0) : b &&& k = 0 := by
  rw [← hb, Nat.and_assoc, hk]; simp

theorem and_or_self (w m : Nat) : w &&& m ||| m = m := by
  apply Nat.eq_of_testBit_eq; intro i
  simp only [Nat.testBit_or, Nat.testBit_and]
  cases w.testBit i <;> cases m.testBit i <;> rfl

theorem setBaud_frame {t t1 : Termios} {baud : Int} (h : setBaud t baud = .ok t1) {k : Nat} (hk : CBAUD &&& k = 0) :
    t1.cflag &&& k = t.cflag &&& k := by
  obtain ⟨n, b, -, hm, -, rfl⟩ := setBaud_ok h
  have hb := sub_disj (baudmap_good _ hm).2.2.1 hk
  simp only [or_and_disj _ _ _ hb, clr_and_disj _ _ _ hk]

theorem setBaud_own {t t1 : Termios} {baud : Int} {b : Nat} (h : setBaud t baud = .ok t1) (hl : lookupBaud baud = some b) :
    t1.cflag &&& CBAUD = b ∧ t1.ispeed = b ∧ t1.ospeed = b := by
  obtain ⟨n, b', -, hm, hl', rfl⟩ := setBaud_ok h
  obtain rfl : b' = b := by rw [hl] at hl'; exact (Option.some.inj hl').symm
  refine ⟨?_, rfl, rfl⟩
  show (clr (clr t.cflag CBAUD ||| b') CBAUD ||| b') &&& CBAUD = b'
  rw [Nat.and_or_distrib_right, clr_and_self, (baudmap_good _ hm).2.2.1]; simp

theorem setDatabits_frame {t t' : Termios} {d : Int} (h : setDatabits t d = .ok t') {k : Nat} (hk : CSIZE &&& k = 0) :
    t'.cflag &&& k = t.cflag &&& k := by
  rcases setDatabits_ok h with ⟨-, rfl⟩ | ⟨-, rfl⟩
  · show (clr t.cflag CSIZE ||| CS7) &&& k = t.cflag &&& k
    rw [or_and_disj _ _ _ (sub_disj (b := CS7) (m := CSIZE) (by decide) hk), clr_and_disj _ _ _ hk]
  · show (clr t.cflag CSIZE ||| CS8) &&& k = t.cflag &&& k
    rw [or_and_disj _ _ _ (sub_disj (b := CS8) (m := CSIZE) (by decide) hk), clr_and_disj _ _ _ hk]

theorem setDatabits_own {t t' : Termios} {d : Int} (h : setDatabits t d = .ok t') :
    (d = 7 ∧ t'.cflag &&& CSIZE = CS7) ∨ (d = 8 ∧ t'.cflag &&& CSIZE = CS8) := by
  rcases setDatabits_ok h with ⟨hd, rfl⟩ | ⟨hd, rfl⟩
  · exact .inl ⟨hd, by show (clr t.cflag CSIZE ||| CS7) &&& CSIZE = CS7; rw [Nat.and_or_distrib_right, clr_and_self]; decide⟩
  · exact .inr ⟨hd, by show (clr t.cflag CSIZE ||| CS8) &&& CSIZE = CS8; rw [Nat.and_or_distrib_right, clr_and_self]; decide⟩

theorem setStopbits_frame {t t' : Termios} {d : Int} (h : setStopbits t d = .ok t') {k : Nat} (hk : CSTOPB &&& k = 0) :
    t'.cflag &&& k = t.cflag &&& k := by
  rcases setStopbits_ok h with ⟨-, rfl⟩ | ⟨-, rfl⟩
  · simp only [clr_and_disj _ _ _ hk]
  · simp only [or_and_disj _ _ _ hk]

theorem setStopbits_own {t t' : Termios} {d : Int} (h : setStopbits t d = .ok t') :
    (d = 1 ∧ t'.cflag &&& CSTOPB = 0) ∨ (d = 2 ∧ t'.cflag &&& CSTOPB = CSTOPB) := by
  rcases setStopbits_ok h with ⟨hd, rfl⟩ | ⟨hd, rfl⟩
  · exact .inl ⟨hd, clr_and_self _ _⟩
  · exact .inr ⟨hd, by show (t.cflag ||| CSTOPB) &&& CSTOPB = CSTOPB; rw [Nat.and_or_distrib_right, Nat.and_self]; exact and_or_self _ _⟩

theorem or_self_and (w m : Nat) : (w ||| m) &&& m = m := by
  rw [Nat.and_or_distrib_right, Nat.and_self]; exact and_or_self _ _

theorem setParity_frame {t t' : Termios} {c : UInt8} (h : setParity t c = .ok t') {k : Nat} (hk : PARENB &&& k = 0) (hk' : PARODD &&& k = 0) :
    t'.cflag &&& k = t.cflag &&& k := by
  rcases setParity_ok h with ⟨-, rfl⟩ | ⟨-, -, rfl⟩ | ⟨-, -, -, rfl⟩
  · exact clr_and_disj _ _ _ hk
  · show clr (t.cflag ||| PARENB) PARODD &&& k = t.cflag &&& k
    rw [clr_and_disj _ _ _ hk', or_and_disj _ _ _ hk]
  · show (t.cflag ||| PARENB ||| PARODD) &&& k = t.cflag &&& k
    rw [or_and_disj _ _ _ hk', or_and_disj _ _ _ hk]

theorem setParity_own {t t' : Termios} {c : UInt8} (h : setParity t c = .ok t') :
    (parityNone c = true ∧ t'.cflag &&& PARENB = 0) ∨
    (parityNone c = false ∧ parityEven c = true ∧ t'.cflag &&& PARENB = PARENB ∧ t'.cflag &&& PARODD = 0) ∨
    (parityNone c = false ∧ parityEven c = false ∧ parityOdd c = true ∧ t'.cflag &&& PARENB = PARENB ∧ t'.cflag &&& PARODD = PARODD) := by
  rcases setParity_ok h with ⟨h1, rfl⟩ | ⟨h1, h2, rfl⟩ | ⟨h1, h2, h3, rfl⟩
  · exact .inl ⟨h1, clr_and_self _ _⟩
  · refine .inr (.inl ⟨h1, h2, ?_, clr_and_self _ _⟩)
    show clr (t.cflag ||| PARENB) PARODD &&& PARENB = PARENB
    rw [clr_and_disj _ _ _ (by decide), or_self_and]
  · refine .inr (.inr ⟨h1, h2, h3, ?_, or_self_and _ _⟩)
    show (t.cflag ||| PARENB ||| PARODD) &&& PARENB = PARENB
    rw [or_and_disj _ _ _ (by decide), or_self_and]

/-- the bits of `c_cflag` that name the character format -/
def fmtMask : Nat := CBAUD ||| CSIZE ||| CSTOPB ||| PARENB ||| PARODD

/-- **everything `_serial_setup` does to `c_cflag`** -/
theorem serialSetup_cflag {t t' : Termios} {p : Params} (h : serialSetup t p = some t') :
    (∃ n b : Nat, (n : Int) = p.baud ∧ (n, b) ∈ baudmap ∧ (n, b) ∈ stdBaud ∧ t'.cflag &&& CBAUD = b ∧ t'.ispeed = b ∧ t'.ospeed = b) ∧
    ((p.databits = 7 ∧ t'.cflag &&& CSIZE = CS7) ∨ (p.databits = 8 ∧ t'.cflag &&& CSIZE = CS8)) ∧
    ((p.stopbits = 1 ∧ t'.cflag &&& CSTOPB = 0) ∨ (p.stopbits = 2 ∧ t'.cflag &&& CSTOPB = CSTOPB)) ∧
    ((parityNone p.parity = true ∧ t'.cflag &&& PARENB = 0) ∨
     (parityNone p.parity = false ∧ parityEven p.parity = true ∧ t'.cflag &&& PARENB = PARENB ∧ t'.cflag &&& PARODD = 0) ∨
     (parityNone p.parity = false ∧ parityEven p.parity = false ∧ parityOdd p.parity = true ∧ t'.cflag &&& PARENB = PARENB ∧ t'.cflag &&& PARODD = PARODD)) ∧
    (∀ k, fmtMask &&& k = 0 → t'.cflag &&& k = t.cflag &&& k) := by
  obtain ⟨t1, t2, t3, t4, h1, h2, h3, h4, rfl⟩ := serialSetup_some h
  show (∃ n b : Nat, (n : Int) = p.baud ∧ (n, b) ∈ baudmap ∧ (n, b) ∈ stdBaud ∧ t4.cflag &&& CBAUD = b ∧ t4.ispeed = b ∧ t4.ospeed = b) ∧
    ((p.databits = 7 ∧ t4.cflag &&& CSIZE = CS7) ∨ (p.databits = 8 ∧ t4.cflag &&& CSIZE = CS8)) ∧
    ((p.stopbits = 1 ∧ t4.cflag &&& CSTOPB = 0) ∨ (p.stopbits = 2 ∧ t4.cflag &&& CSTOPB = CSTOPB)) ∧
    ((parityNone p.parity = true ∧ t4.cflag &&& PARENB = 0) ∨
     (parityNone p.parity = false ∧ parityEven p.parity = true ∧ t4.cflag &&& PARENB = PARENB ∧ t4.cflag &&& PARODD = 0) ∨
     (parityNone p.parity = false ∧ parityEven p.parity = false ∧ parityOdd p.parity = true ∧ t4.cflag &&& PARENB = PARENB ∧ t4.cflag &&& PARODD = PARODD)) ∧
    (∀ k, fmtMask &&& k = 0 → t4.cflag &&& k = t.cflag &&& k)
  refine ⟨?_, ?_, ?_, setParity_own h4, ?_⟩
  · obtain ⟨n, b, hn, hm, hl, ht1⟩ := setBaud_ok h1
    obtain ⟨hc, hi, ho⟩ := setBaud_own h1 hl
    refine ⟨n, b, hn, hm, (baudmap_good _ hm).2.2.2, ?_, ?_, ?_⟩
    · rw [setParity_frame h4 (by decide) (by decide), setStopbits_frame h3 (by decide), setDatabits_frame h2 (by decide), hc]
    · have e2 : t2.ispeed = t1.ispeed := by rcases setDatabits_ok h2 with ⟨-, rfl⟩ | ⟨-, rfl⟩ <;> rfl
      have e3 : t3.ispeed = t2.ispeed := by rcases setStopbits_ok h3 with ⟨-, rfl⟩ | ⟨-, rfl⟩ <;> rfl
      have e4 : t4.ispeed = t3.ispeed := by rcases setParity_ok h4 with ⟨-, rfl⟩ | ⟨-, -, rfl⟩ | ⟨-, -, -, rfl⟩ <;> rfl
      rw [e4, e3, e2, hi]
    · have e2 : t2.ospeed = t1.ospeed := by rcases setDatabits_ok h2 with ⟨-, rfl⟩ | ⟨-, rfl⟩ <;> rfl
      have e3 : t3.ospeed = t2.ospeed := by rcases setStopbits_ok h3 with ⟨-, rfl⟩ | ⟨-, rfl⟩ <;> rfl
      have e4 : t4.ospeed = t3.ospeed := by rcases setParity_ok h4 with ⟨-, rfl⟩ | ⟨-, -, rfl⟩ | ⟨-, -, -, rfl⟩ <;> rfl
      rw [e4, e3, e2, ho]
  · rw [setParity_frame h4 (k := CSIZE) (by decide) (by decide), setStopbits_frame h3 (k := CSIZE) (by decide)]
    exact setDatabits_own h2
  · rw [setParity_frame h4 (k := CSTOPB) (by decide) (by decide)]
    exact setStopbits_own h3
  · intro k hk
    have hP : PARODD &&& k = 0 := and_or_zero_right hk
    have hk := and_or_zero_left hk
    have hE : PARENB &&& k = 0 := and_or_zero_right hk
    have hk := and_or_zero_left hk
    have hS : CSTOPB &&& k = 0 := and_or_zero_right hk
    have hk := and_or_zero_left hk
    have hZ : CSIZE &&& k = 0 := and_or_zero_right hk
    have hB : CBAUD &&& k = 0 := and_or_zero_left hk
    rw [setParity_frame h4 hE hP, setStopbits_frame h3 hS, setDatabits_frame h2 hZ, setBaud_frame h1 hB]

/-- everything else `_serial_setup` touches: `OPOST` goes, the rest of `c_oflag` stays; `VMIN` becomes 1 and `VTIME` 0; the
    control characters stay -/
theorem serialSetup_rest {t t' : Termios} {p : Params} (h : serialSetup t p = some t') :
    t'.oflag = clr t.oflag OPOST ∧ t'.vmin = 1 ∧ t'.vtime = 0 ∧
    t'.vintr = t.vintr ∧ t'.vquit = t.vquit ∧ t'.verase = t.verase ∧ t'.vkill = t.vkill ∧ t'.veof = t.veof ∧
    t'.vstart = t.vstart ∧ t'.vstop = t.vstop ∧ t'.vsusp = t.vsusp ∧ t'.veol = t.veol := by
  obtain ⟨t1, t2, t3, t4, h1, h2, h3, h4, rfl⟩ := serialSetup_some h
  obtain ⟨n, b, -, -, -, rfl⟩ := setBaud_ok h1
  rcases setDatabits_ok h2 with ⟨-, rfl⟩ | ⟨-, rfl⟩ <;> rcases setStopbits_ok h3 with ⟨-, rfl⟩ | ⟨-, rfl⟩ <;>
    rcases setParity_ok h4 with ⟨-, rfl⟩ | ⟨-, -, rfl⟩ | ⟨-, -, -, rfl⟩ <;> exact ⟨rfl, rfl, rfl, rfl, rfl, rfl, rfl, rfl, rfl, rfl, rfl, rfl⟩

/-! ## what is refused -/

/-- the bauds of the table -/
def supportedBauds : List Nat := baudmap.map (·.1)

theorem lookupBaud_isSome_iff (baud : Int) : (lookupBaud baud).isSome = true ↔ ∃ n ∈ supportedBauds, (n : Int) = baud := by
  constructor
  · intro h
    obtain ⟨b, hb⟩ := Option.isSome_iff_exists.mp h
    obtain ⟨n, hn, hm⟩ := lookupBaud_mem hb
    exact ⟨n, List.mem_map.mpr ⟨(n, b), hm, rfl⟩, hn⟩
  · rintro ⟨n, hn, rfl⟩
    obtain ⟨x, hx, rfl⟩ := List.mem_map.mp hn
    rw [lookupBaud_of_mem x hx]; rfl

theorem setDatabits_err {t : Termios} {d : Int} (h7 : d ≠ 7) (h8 : d ≠ 8) : setDatabits t d = .error .databits := by
  simp [setDatabits, h7, h8]
theorem setStopbits_err {t : Termios} {d : Int} (h1 : d ≠ 1) (h2 : d ≠ 2) : setStopbits t d = .error .stopbits := by
  simp [setStopbits, h1, h2]
theorem setParity_err {t : Termios} {c : UInt8} (hn : parityNone c = false) (he : parityEven c = false) (ho : parityOdd c = false) :
    setParity t c = .error .parity := by
  simp only [parityNone, parityEven, parityOdd] at hn he ho
  simp [setParity, hn, he, ho]
theorem setDatabits_7 (t : Termios) : setDatabits t 7 = .ok { t with cflag := clr t.cflag CSIZE ||| CS7 } := by simp [setDatabits]
theorem setDatabits_8 (t : Termios) : setDatabits t 8 = .ok { t with cflag := clr t.cflag CSIZE ||| CS8 } := by simp [setDatabits]
theorem setStopbits_1 (t : Termios) : setStopbits t 1 = .ok { t with cflag := clr t.cflag CSTOPB } := by simp [setStopbits]
theorem setStopbits_2 (t : Termios) : setStopbits t 2 = .ok { t with cflag := t.cflag ||| CSTOPB } := by simp [setStopbits]
theorem setParity_some {t : Termios} {c : UInt8} (h : parityNone c = true ∨ parityEven c = true ∨ parityOdd c = true) :
    ∃ t', setParity t c = .ok t' := by
  unfold setParity
  simp only [parityNone, parityEven, parityOdd] at h
  split
  · exact ⟨_, rfl⟩
  · split
    · exact ⟨_, rfl⟩
    · split
      · exact ⟨_, rfl⟩
      · simp_all

/-- the parameters name a character format `_serial_setup` knows -/
def GoodParams (p : Params) : Prop :=
  (∃ n ∈ supportedBauds, (n : Int) = p.baud) ∧ (p.databits = 7 ∨ p.databits = 8) ∧ (p.stopbits = 1 ∨ p.stopbits = 2) ∧
  (parityNone p.parity = true ∨ parityEven p.parity = true ∨ parityOdd p.parity = true)

/-- which `err(...)` branch is taken: the first of baud, data bits, stop bits, parity that is not supported -/
theorem serialSetupE_error (t : Termios) (p : Params) :
    (serialSetupE t p = .error .baud ↔ ¬ ∃ n ∈ supportedBauds, (n : Int) = p.baud) ∧
    (serialSetupE t p = .error .databits ↔ (∃ n ∈ supportedBauds, (n : Int) = p.baud) ∧ ¬(p.databits = 7 ∨ p.databits = 8)) ∧
    (serialSetupE t p = .error .stopbits ↔ (∃ n ∈ supportedBauds, (n : Int) = p.baud) ∧ (p.databits = 7 ∨ p.databits = 8) ∧ ¬(p.stopbits = 1 ∨ p.stopbits = 2)) ∧
    (serialSetupE t p = .error .parity ↔ (∃ n ∈ supportedBauds, (n : Int) = p.baud) ∧ (p.databits = 7 ∨ p.databits = 8) ∧ (p.stopbits = 1 ∨ p.stopbits = 2) ∧
        ¬(parityNone p.parity = true ∨ parityEven p.parity = true ∨ parityOdd p.parity = true)) ∧
    ((∃ t', serialSetupE t p = .ok t') ↔ GoodParams p) := by
  unfold GoodParams
  rw [← lookupBaud_isSome_iff]
  cases hl : lookupBaud p.baud with
  | none => simp [serialSetupE, setBaud_none hl, bind, Except.bind]
  | some b =>
    obtain ⟨t1, h1⟩ := setBaud_some (t := t) hl
    by_cases hd : p.databits = 7 ∨ p.databits = 8
    · obtain ⟨t2, h2⟩ : ∃ t2, setDatabits t1 p.databits = .ok t2 := by
        rcases hd with hd | hd <;> rw [hd]
        · exact ⟨_, setDatabits_7 _⟩
        · exact ⟨_, setDatabits_8 _⟩
      by_cases hs : p.stopbits = 1 ∨ p.stopbits = 2
      · obtain ⟨t3, h3⟩ : ∃ t3, setStopbits t2 p.stopbits = .ok t3 := by
          rcases hs with hs | hs <;> rw [hs]
          · exact ⟨_, setStopbits_1 _⟩
          · exact ⟨_, setStopbits_2 _⟩
        by_cases hp : parityNone p.parity = true ∨ parityEven p.parity = true ∨ parityOdd p.parity = true
        · obtain ⟨t4, h4⟩ := setParity_some (t := t3) hp
          simp [serialSetupE, h1, h2, h3, h4, bind, Except.bind, pure, Except.pure, hd, hs, hp]
        · have h4 : setParity t3 p.parity = .error .parity := by
            simp only [not_or, Bool.not_eq_true] at hp
            exact setParity_err hp.1 hp.2.1 hp.2.2
          simp [serialSetupE, h1, h2, h3, h4, bind, Except.bind, hd, hs, hp]
      · have h3 : setStopbits t2 p.stopbits = .error .stopbits := by
          simp only [not_or] at hs; exact setStopbits_err hs.1 hs.2
        simp [serialSetupE, h1, h2, h3, bind, Except.bind, hd, hs]
    · have h2 : setDatabits t1 p.databits = .error .databits := by
        simp only [not_or] at hd; exact setDatabits_err hd.1 hd.2
      simp [serialSetupE, h1, h2, bind, Except.bind, hd]

theorem serialSetup_isSome_iff (t : Termios) (p : Params) : (∃ t', serialSetup t p = some t') ↔ GoodParams p := by
  rw [← (serialSetupE_error t p).2.2.2.2]
  unfold serialSetup
  cases serialSetupE t p <;> simp [Except.toOption]

/-! ### the flags string -/

theorem dropWhile_nil_iff {α} (p : α → Bool) (l : List α) : l.dropWhile p = [] ↔ l.all p = true := by
  induction l with
  | nil => simp
  | cons a r ih =>
    by_cases h : p a = true
    · simp [h, ih]
    · simp [h]

theorem scanD_eof_iff (s : Bytes) : scanD s = .eof ↔ s.all isSpace = true := by
  rw [← dropWhile_nil_iff]
  unfold scanD
  by_cases he : (s.dropWhile isSpace).isEmpty = true
  · simp [List.isEmpty_iff.mp he]
  · have hne : s.dropWhile isSpace ≠ [] := by simpa [List.isEmpty_iff] using he
    simp only [he, hne, Bool.false_eq_true, ↓reduceIte, iff_false]
    split <;> (split <;> simp)

/-- `sscanf` answers `EOF` exactly for a string of white space (the empty string included) -/
theorem sscanfFlags_neg_iff (s : Bytes) : (sscanfFlags s).1 < 0 ↔ s.all isSpace = true := by
  rw [← scanD_eof_iff]
  unfold sscanfFlags
  cases h : scanD s with
  | eof => simp
  | fail => simp
  | ok v r =>
    simp only
    split
    · split
      · split
        · split <;> simp
        · simp
      · simp
    · simp

/-- the return value of the `sscanf` is always one of `EOF`, 0, …, 4 -/
theorem sscanfFlags_range (s : Bytes) : -1 ≤ (sscanfFlags s).1 ∧ (sscanfFlags s).1 ≤ 4 := by
  unfold sscanfFlags
  cases scanD s with
  | eof => simp
  | fail => simp
  | ok v r =>
    simp only
    split
    · split
      · split
        · split <;> simp
        · simp
      · simp
    · simp

/-- a blank string: `EOF`, and the four variables keep their initial values -/
theorem sscanfFlags_blank {s : Bytes} (h : s.all isSpace = true) : sscanfFlags s = (-1, defaults) := by
  have he := (scanD_eof_iff s).mpr h
  simp [sscanfFlags, he]

/-- `assert(n >= EOF && n <= 4)` never fails: every flags string gets past the parser, with the values the `sscanf` left -/
theorem parseFlags_some (s : Bytes) : parseFlags s = some (sscanfFlags (cstr s)).2 := by
  have h := sscanfFlags_range (cstr s)
  unfold parseFlags
  generalize sscanfFlags (cstr s) = r at *
  obtain ⟨n, p⟩ := r
  have h1 : ¬ n < -1 := by simp at h; omega
  have h2 : ¬ n > 4 := by simp at h; omega
  simp [h1, h2]

theorem parseFlags_blank {s : Bytes} (h : (cstr s).all isSpace = true) : parseFlags s = some defaults := by
  rw [parseFlags_some, sscanfFlags_blank h]

/-! ### a flags string in its documented shape is read as written -/

theorem isDigit_iff (a : UInt8) : isDigit a = true ↔ 48 ≤ a.toNat ∧ a.toNat ≤ 57 := by
  simp [isDigit]

theorem isSpace_iff (a : UInt8) : isSpace a = true ↔ a.toNat = 32 ∨ (9 ≤ a.toNat ∧ a.toNat ≤ 13) := by
  unfold isSpace
  simp only [Bool.or_eq_true, beq_iff_eq, Bool.and_eq_true, decide_eq_true_eq]
  constructor
  · rintro (h | h)
    · subst h; left; rfl
    · right; exact h
  · rintro (h | h)
    · left; exact UInt8.toNat_inj.mp h
    · right; exact h

theorem toInt32_small (n : Nat) (h : n < 2147483648) : toInt32 (n : Int) = n := by
  unfold toInt32
  simp only
  have : ((n : Int) % 4294967296) = n := by omega
  rw [this]
  split
  · omega
  · rfl

/-- a run of decimal digits followed by something that is not a digit -/
structure Digits (ds rest : Bytes) : Prop where
  all : ∀ d ∈ ds, isDigit d = true
  ne : ds ≠ []
  stop : ∀ x r, rest = x :: r → isDigit x = false
  small : digitsVal ds < 2147483648

theorem takeWhile_digits {ds rest : Bytes} (h : Digits ds rest) : List.takeWhile isDigit (ds ++ rest) = ds := by
  rw [List.takeWhile_append_of_pos (by simpa using h.all)]
  cases rest with
  | nil => simp
  | cons x r => simp [h.stop x r rfl]

theorem dropWhile_digits {ds rest : Bytes} (h : Digits ds rest) : List.dropWhile isDigit (ds ++ rest) = rest := by
  rw [List.dropWhile_append_of_pos (by simpa using h.all)]
  cases rest with
  | nil => simp
  | cons x r => simp [h.stop x r rfl]

/-- `%d` on a string that starts with digits -/
theorem scanD_digits {ds rest : Bytes} (h : Digits ds rest) : scanD (ds ++ rest) = .ok (digitsVal ds : Int) rest := by
  have htw := takeWhile_digits h
  have hdw := dropWhile_digits h
  obtain ⟨a, ds', rfl⟩ := List.exists_cons_of_ne_nil h.ne
  have ha := (isDigit_iff a).mp (h.all a (by simp))
  have hsp : isSpace a = false := by
    rw [← Bool.not_eq_true, isSpace_iff]; omega
  have h45 : a ≠ 45 := by intro e; subst e; simp at ha
  have h43 : a ≠ 43 := by intro e; subst e; simp at ha
  have hv := h.small
  unfold scanD
  simp only [List.cons_append, List.dropWhile_cons, hsp, Bool.false_eq_true, ↓reduceIte, List.isEmpty_cons]
  split
  · rename_i r e; simp at e; exact absurd e.1 h45
  · rename_i r e; simp at e; exact absurd e.1 h43
  · rw [← List.cons_append]
    simp only [htw, hdw]
    simp only [List.isEmpty_cons, Bool.false_eq_true, ↓reduceIte]
    have : ¬ ((digitsVal (a :: ds') : Int) > 9223372036854775807) := by omega
    simp only [this, ↓reduceIte]
    rw [toInt32_small _ hv]

/-- **`<baud>,<databits><parity><stopbits>`**: three runs of digits, a comma after the first, one byte that is not a digit
    between the second and the third: all four values are taken from the string -/
theorem sscanfFlags_full {b d s : Bytes} {c : UInt8} (hb : Digits b (44 :: (d ++ c :: s))) (hd : Digits d (c :: s)) (hs : Digits s []) :
    sscanfFlags (b ++ 44 :: (d ++ c :: s)) = (4, ⟨digitsVal b, digitsVal d, c, digitsVal s⟩) := by
  unfold sscanfFlags
  rw [scanD_digits hb]
  simp only
  rw [scanD_digits hd]
  simp only
  have := scanD_digits hs
  rw [List.append_nil] at this
  rw [this]

/-- the shorter forms: what is missing keeps its default -/
theorem sscanfFlags_baud_only {b : Bytes} (hb : Digits b []) :
    sscanfFlags b = (1, { defaults with baud := digitsVal b }) := by
  have := scanD_digits hb
  rw [List.append_nil] at this
  unfold sscanfFlags; rw [this]

theorem sscanfFlags_no_stopbits {b d : Bytes} {c : UInt8} (hb : Digits b (44 :: (d ++ [c]))) (hd : Digits d [c]) :
    sscanfFlags (b ++ 44 :: (d ++ [c])) = (3, { defaults with baud := digitsVal b, databits := digitsVal d, parity := c }) := by
  unfold sscanfFlags
  rw [scanD_digits hb]
  simp only
  rw [scanD_digits hd]
  simp [scanD]

theorem cstr_id {s : Bytes} (h : ∀ x ∈ s, x ≠ 0) : cstr s = s := by
  unfold cstr
  induction s with
  | nil => rfl
  | cons a r ih =>
    have ha : a ≠ 0 := h a (by simp)
    simp [ha, ih (fun x hx => h x (by simp [hx]))]

/-! ### below the line discipline -/

theorem u8_and_255 (b : UInt8) : b &&& 255 = b := by
  apply UInt8.eq_of_toBitVec_eq
  apply BitVec.eq_of_toNat_eq
  simp only [UInt8.toBitVec_and, BitVec.toNat_and]
  show b.toNat &&& 255 = b.toNat
  have h : b.toNat < 2 ^ 8 := b.toNat_lt
  have := Nat.and_two_pow_sub_one_eq_mod b.toNat 8
  simp at this
  omega

theorem u8_and_127_of_lt (b : UInt8) (h : b.toNat < 128) : b &&& 127 = b := by
  apply UInt8.toNat_inj.mp
  rw [UInt8.toNat_and]
  have := Nat.and_two_pow_sub_one_eq_mod b.toNat 7
  simp at this
  show b.toNat &&& 127 = b.toNat
  omega

theorem charBits_of_CS7 {t : Termios} (h : t.cflag &&& CSIZE = CS7) : charBits t = 7 := by
  simp [charBits, h]; decide
theorem charBits_of_CS8 {t : Termios} (h : t.cflag &&& CSIZE = CS8) : charBits t = 8 := by
  simp [charBits, h]; decide

theorem uartTx_8 {t : Termios} (h : charBits t = 8) (bs : Bytes) : uartTx t bs = bs := by
  unfold uartTx; rw [h]
  have : (2 ^ 8 - 1 : Nat).toUInt8 = 255 := by decide
  rw [this]; simp [u8_and_255]

theorem uartTx_7 {t : Termios} (h : charBits t = 7) (bs : Bytes) : uartTx t bs = bs.map (· &&& 127) := by
  unfold uartTx; rw [h]
  have : (2 ^ 7 - 1 : Nat).toUInt8 = 127 := by decide
  rw [this]

theorem uartRx_8 {t : Termios} (hr : flag t.cflag CREAD = true) (h : charBits t = 8) (bs : Bytes) : uartRx t bs = bs := by
  unfold uartRx; rw [h, hr]
  have : (2 ^ 8 - 1 : Nat).toUInt8 = 255 := by decide
  rw [this]; simp [u8_and_255]

theorem uartRx_7 {t : Termios} (hr : flag t.cflag CREAD = true) (h : charBits t = 7) (bs : Bytes) : uartRx t bs = bs.map (· &&& 127) := by
  unfold uartRx; rw [h, hr]
  have : (2 ^ 7 - 1 : Nat).toUInt8 = 127 := by decide
  rw [this]; rfl

theorem map_and_127_ascii (bs : Bytes) (h : ∀ b ∈ bs, b.toNat < 128) : bs.map (· &&& 127) = bs := by
  induction bs with
  | nil => rfl
  | cons a r ih =>
    simp only [List.map_cons]
    rw [u8_and_127_of_lt a (h a (by simp)), ih (fun b hb => h b (by simp [hb]))]

/-- `CREAD` is one of the bits `_serial_setup` leaves alone -/
theorem serialSetup_CREAD {t t' : Termios} {p : Params} (h : serialSetup t p = some t') : flag t'.cflag CREAD = flag t.cflag CREAD := by
  unfold flag; rw [(serialSetup_cflag h).2.2.2.2 CREAD (by decide)]

theorem digits_ne_zero {ds rest : Bytes} (h : Digits ds rest) : ∀ x ∈ ds, x ≠ 0 := by
  intro x hx e
  have := (isDigit_iff x).mp (h.all x hx)
  subst e; simp at this

theorem parseFlags_full {b d s : Bytes} {c : UInt8} (hb : Digits b (44 :: (d ++ c :: s))) (hd : Digits d (c :: s)) (hs : Digits s [])
    (hc : c ≠ 0) : parseFlags (b ++ 44 :: (d ++ c :: s)) = some ⟨digitsVal b, digitsVal d, c, digitsVal s⟩ := by
  rw [parseFlags_some, cstr_id, sscanfFlags_full hb hd hs]
  · intro x hx
    simp only [List.mem_append, List.mem_cons] at hx
    rcases hx with hx | rfl | hx | rfl | hx
    · exact digits_ne_zero hb x hx
    · decide
    · exact digits_ne_zero hd x hx
    · exact hc
    · exact digits_ne_zero hs x hx

/-! ### `poll` after the set-up -/

theorem serialSetup_poll {t t' : Termios} {p : Params} (h : serialSetup t p = some t') (bs : Bytes) :
    pollReadable t' bs = decide (bs.length ≥ 1) := by
  obtain ⟨hi, hl, -⟩ := serialSetup_raw h
  obtain ⟨-, hm, ht, -⟩ := serialSetup_rest h
  rw [pollReadable_raw hi hl, hm, ht]
  simp

theorem serialSetup_poll_ok {t t' : Termios} {p : Params} (h : serialSetup t p = some t') (bs : Bytes) (hne : bs ≠ []) :
    pollReadable t' bs = true := by
  rw [serialSetup_poll h]
  have hl : 1 ≤ bs.length := List.length_pos_iff.mpr hne
  simpa using hl

/-! ## exactly which flags matter -/

/-- the input side is transparent as soon as these ten conditions hold (whatever the rest of the flag words and the
    control characters are) -/
structure RawIn (t : Termios) : Prop where
  istrip : flag t.iflag ISTRIP = false
  inlcr : flag t.iflag INLCR = false
  igncr : flag t.iflag IGNCR = false
  icrnl : flag t.iflag ICRNL = false
  iuclc : (flag t.iflag IUCLC && flag t.lflag IEXTEN) = false
  ixon : flag t.iflag IXON = false
  parmrk : flag t.iflag PARMRK = false
  isig : flag t.lflag ISIG = false
  icanon : flag t.lflag ICANON = false
  echo : flag t.lflag ECHO = false

theorem inStep_rawIn {t : Termios} (h : RawIn t) (st : InSt) (hn : st.lnext = false) (c : UInt8) :
    inStep t st c = { st with done := st.done ++ [c] } := by
  have h5 := h.iuclc
  simp only [Bool.and_eq_false_iff] at h5
  by_cases hx : flag t.lflag EXTPROC = true
  · rcases h5 with h5 | h5 <;>
      simp [inStep, hn, preops, h.istrip, h5, hx]
  · rcases h5 with h5 | h5 <;>
      simp [inStep, hn, preops, inCharMap, recvChar, anyRestart, putQueue, canonMode, h.istrip, h.inlcr, h.igncr, h.icrnl, h5, h.ixon,
        h.parmrk, h.isig, h.icanon, h.echo, hx]

theorem foldl_rawIn {t : Termios} (h : RawIn t) (bs : Bytes) (st : InSt) (hn : st.lnext = false) :
    bs.foldl (inStep t) st = { st with done := st.done ++ bs } := by
  induction bs generalizing st with
  | nil => simp
  | cons c r ih =>
    rw [List.foldl_cons, inStep_rawIn h st hn, ih { st with done := st.done ++ [c] } hn]
    simp

theorem ttyIn_of_rawIn {t : Termios} (h : RawIn t) (bs : Bytes) : ttyIn t bs = (bs, []) := by
  unfold ttyIn ttyInSt
  rw [foldl_rawIn h bs {} rfl]
  by_cases he : flag t.lflag ECHONL = true
  · simp [h.echo, he, processEchoes, procOps]
  · simp [h.echo, he]

theorem rawIn_of_zero {t : Termios} (hi : t.iflag = 0) (hl : t.lflag = 0) : RawIn t := by
  constructor <;> simp [hi, hl]

/-- with `OPOST` set but none of `ONLCR OCRNL ONOCR OLCUC` and no tab expansion, output is still passed as written -/
structure PlainOut (t : Termios) : Prop where
  onlcr : flag t.oflag ONLCR = false
  ocrnl : flag t.oflag OCRNL = false
  onocr : flag t.oflag ONOCR = false
  olcuc : flag t.oflag OLCUC = false
  tabs : (t.oflag &&& TABDLY == XTABS) = false

theorem outChar_plain {t : Termios} (h : PlainOut t) (s : Col) (c : UInt8) : (outChar t s c).1 = [c] := by
  unfold outChar
  simp only [h.onlcr, h.ocrnl, h.onocr, h.olcuc, h.tabs, Bool.false_and, Bool.false_eq_true, ↓reduceIte]
  split
  · rename_i e; simp at e; simp [e]
  · split
    · rename_i e; simp at e; simp [e]
    · split
      · rename_i e; simp at e; simp [e]
      · split
        · rename_i e; simp at e; simp [e]
        · split <;> rfl

theorem outChars_plain {t : Termios} (h : PlainOut t) (s : Col) (bs : Bytes) : (outChars t s bs).1 = bs := by
  induction bs generalizing s with
  | nil => rfl
  | cons c r ih =>
    simp only [outChars]
    have h1 := outChar_plain h s c
    have h2 := ih (outChar t s c).2
    generalize outChar t s c = x at *
    obtain ⟨o, s'⟩ := x
    generalize outChars t s' r = y at *
    obtain ⟨o', s''⟩ := y
    simp_all

theorem ttyOut_of_plain {t : Termios} (h : flag t.oflag OPOST = false ∨ PlainOut t) (bs : Bytes) : ttyOut t bs = bs := by
  unfold ttyOut
  rcases h with h | h
  · simp [h]
  · split
    · exact outChars_plain h {} bs
    · rfl

end Pm.Serial

/-! axiom audit -/
#print axioms Pm.Serial.serialSetup_raw
#print axioms Pm.Serial.ttyOut_raw
#print axioms Pm.Serial.ttyIn_raw
#print axioms Pm.Serial.serialSetup_cflag
#print axioms Pm.Serial.serialSetup_rest
#print axioms Pm.Serial.serialSetupE_error
#print axioms Pm.Serial.serialSetup_isSome_iff
#print axioms Pm.Serial.parseFlags_some
#print axioms Pm.Serial.parseFlags_blank
#print axioms Pm.Serial.parseFlags_full
#print axioms Pm.Serial.sscanfFlags_baud_only
#print axioms Pm.Serial.sscanfFlags_no_stopbits
#print axioms Pm.Serial.uartTx_7
#print axioms Pm.Serial.uartRx_8
#print axioms Pm.Serial.map_and_127_ascii
#print axioms Pm.Serial.serialSetup_CREAD
#print axioms Pm.Serial.serialSetup_poll_ok
#print axioms Pm.Serial.baudmap_good
#print axioms Pm.Serial.ttyIn_of_rawIn
#print axioms Pm.Serial.ttyOut_of_plain
