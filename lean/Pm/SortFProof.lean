import Pm.SortF
/-! Proofs about the fuel based sort mirrors of `Pm/SortF.lean`: sorting (`sortHL`) never adds, drops or renames a
    node.  The argument does not depend on the order the merge sort produces: the coalesce and collapse lemmas are
    stated for an arbitrary list of ids satisfying `Inv`. -/
namespace Pm

/-! ## array accessors -/

theorem Store.get_set (st : Store) (i j : Nat) (v : HostRange) :
    (st.set! i v)[j]! = if i = j ∧ i < st.size then v else st[j]! := by
  grind

theorem Store.size_set (st : Store) (i : Nat) (v : HostRange) : (st.set! i v).size = st.size := by
  grind

theorem Store.get_push (st : Store) (v : HostRange) (j : Nat) :
    (st.push v)[j]! = if j < st.size then st[j]! else if j = st.size then v else default := by
  grind

theorem Store.size_push (st : Store) (v : HostRange) : (st.push v).size = st.size + 1 := by
  grind

theorem ids_perm_cons_eraseIdx {α} : ∀ (l : List α) (i : Nat) (h : i < l.length), l.Perm (l[i] :: l.eraseIdx i)
  | a :: l, 0, _ => by simp
  | a :: l, i + 1, h => by
    simp only [List.getElem_cons_succ, List.eraseIdx_cons_succ]
    exact ((ids_perm_cons_eraseIdx l i (by simpa using h)).cons a).trans (List.Perm.swap ..)

/-- two ranges that differ at most in a width that prints every element alike -/
def REq (r r' : HostRange) : Prop :=
  r'.pfx = r.pfx ∧ r'.lo = r.lo ∧ r'.hi = r.hi ∧ r'.single = r.single ∧ r'.expand = r.expand

theorem REq.refl (r : HostRange) : REq r r := ⟨rfl, rfl, rfl, rfl, rfl⟩

theorem REq.trans {a b c : HostRange} (h1 : REq a b) (h2 : REq b c) : REq a c := by
  obtain ⟨a1, a2, a3, a4, a5⟩ := h1
  obtain ⟨b1, b2, b3, b4, b5⟩ := h2
  exact ⟨b1.trans a1, b2.trans a2, b3.trans a3, b4.trans a4, b5.trans a5⟩

theorem REq_width (r : HostRange) (w' : Nat) (h : ∀ x, r.lo ≤ x → fmtNum w' x = fmtNum r.width x) :
    REq r { r with width := w' } := by
  refine ⟨rfl, rfl, rfl, rfl, ?_⟩
  cases hs : r.single
  · rw [HostRange.expand_nonsingle _ (by simp), HostRange.expand_nonsingle _ hs]
    exact numExpand_width _ _ _ _ _ h
  · simp [HostRange.expand, hs]

/-- the stores agree up to widths that print alike -/
def SEq (st st' : Store) : Prop := st'.size = st.size ∧ ∀ k : Nat, REq st[k]! st'[k]!

theorem SEq.refl (st : Store) : SEq st st := ⟨rfl, fun _ => REq.refl _⟩

theorem SEq.trans {a b c : Store} (h1 : SEq a b) (h2 : SEq b c) : SEq a c :=
  ⟨h2.1.trans h1.1, fun k => (h1.2 k).trans (h2.2 k)⟩

/-- `hostrange_width_combine` succeeds -/
def combOk (a b : HostRange) : Bool := a.width == b.width || (widthEquiv a.lo a.width b.lo b.width).isSome

theorem combineM_eq (st : Store) (i j : Nat) : combineM st i j =
    if (st[i]!).width = (st[j]!).width then (true, st) else
    match widthEquiv (st[i]!).lo (st[i]!).width (st[j]!).lo (st[j]!).width with
    | some (wa, wb) => (true, (st.set! i { st[i]! with width := wa }).set! j { st[j]! with width := wb })
    | none => (false, (st.set! i { st[i]! with width := (st[i]!).width }).set! j { st[j]! with width := (st[j]!).width }) := by
  unfold combineM widthEquivM
  simp only [beq_iff_eq]
  split
  · rfl
  · cases widthEquiv (st[i]!).lo (st[i]!).width (st[j]!).lo (st[j]!).width <;> rfl

theorem combineM_fst (st : Store) (i j : Nat) : (combineM st i j).1 = combOk st[i]! st[j]! := by
  rw [combineM_eq]; unfold combOk
  split
  · simp_all
  · cases h : widthEquiv (st[i]!).lo (st[i]!).width (st[j]!).lo (st[j]!).width <;> simp_all

theorem combineM_SEq (st : Store) (i j : Nat) : SEq st (combineM st i j).2 := by
  rw [combineM_eq]
  split
  · exact SEq.refl _
  · cases h : widthEquiv (st[i]!).lo (st[i]!).width (st[j]!).lo (st[j]!).width with
    | none =>
      refine ⟨by simp, fun k => ?_⟩
      simp only [Store.get_set, Store.size_set]
      split
      · rename_i hh; rw [← hh.1]; exact REq.refl _
      · split
        · rename_i hh; rw [← hh.1]; exact REq.refl _
        · exact REq.refl _
    | some p =>
      obtain ⟨wa, wb⟩ := p
      obtain ⟨_, hA, hB⟩ := widthEquiv_sound h
      refine ⟨by simp, fun k => ?_⟩
      simp only [Store.get_set, Store.size_set]
      split
      · rename_i hh; rw [← hh.1]; exact REq_width _ _ hB
      · split
        · rename_i hh; rw [← hh.1]; exact REq_width _ _ hA
        · exact REq.refl _

/-- a failed `hostrange_width_combine` changes nothing -/
theorem combineM_false (st : Store) (i j : Nat) (h : (combineM st i j).1 = false) (k : Nat) :
    (combineM st i j).2[k]! = st[k]! := by
  rw [combineM_eq] at h ⊢
  split
  · rfl
  · rename_i hne
    simp only [hne, if_false] at h
    cases hw : widthEquiv (st[i]!).lo (st[i]!).width (st[j]!).lo (st[j]!).width with
    | none =>
      simp only [Store.get_set, Store.size_set]
      split
      · rename_i hh; rw [← hh.1]
      · split
        · rename_i hh; rw [← hh.1]
        · rfl
    | some p => simp [hw] at h

/-- after a successful `hostrange_width_combine` the two ranges have the same width -/
theorem combineM_true (st : Store) (i j : Nat) (h : (combineM st i j).1 = true) (hij : i ≠ j)
    (hi : i < st.size) (hj : j < st.size) :
    ((combineM st i j).2[i]!).width = ((combineM st i j).2[j]!).width := by
  rw [combineM_eq] at h ⊢
  split
  · rename_i he; exact he
  · rename_i hne
    simp only [hne, if_false] at h
    cases hw : widthEquiv (st[i]!).lo (st[i]!).width (st[j]!).lo (st[j]!).width with
    | none => simp [hw] at h
    | some p =>
      obtain ⟨wa, wb⟩ := p
      obtain ⟨hE, _, _⟩ := widthEquiv_sound hw
      simp only [Store.get_set, Store.size_set]
      simp [hi, hj, hE, Ne.symm hij]

theorem cmpM_SEq (st : Store) (i j : Nat) : SEq st (cmpM st i j).2 := by
  unfold cmpM
  simp only
  split
  · exact SEq.refl _
  · exact combineM_SEq st i j

/-! ## denotation of a (store, ids) pair and the invariant -/

/-- the names a list of ids stands for -/
def den (st : Store) (ids : List Nat) : List Name := ids.flatMap fun i => (st[i]!).expand

/-- ids are distinct live objects of the store, each one a well-formed range -/
def Inv (st : Store) (ids : List Nat) : Prop :=
  ids.Nodup ∧ (∀ i ∈ ids, i < st.size) ∧ ∀ i ∈ ids, (st[i]!).WFS

theorem REq.wfs {r r' : HostRange} (h : REq r r') (hw : r.WFS) : r'.WFS := by
  obtain ⟨_, h2, h3, h4, _⟩ := h
  unfold HostRange.WFS at *
  rw [h2, h3, h4]; exact hw

theorem den_SEq {st st' : Store} (h : SEq st st') (ids : List Nat) : den st' ids = den st ids := by
  unfold den
  congr 1
  funext i
  exact (h.2 i).2.2.2.2

theorem Inv_SEq {st st' : Store} (h : SEq st st') {ids : List Nat} (hi : Inv st ids) : Inv st' ids := by
  obtain ⟨h1, h2, h3⟩ := hi
  exact ⟨h1, fun i hi => by rw [h.1]; exact h2 i hi, fun i hi => (h.2 i).wfs (h3 i hi)⟩

theorem den_perm (st : Store) {ids ids' : List Nat} (h : ids.Perm ids') : (den st ids).Perm (den st ids') :=
  List.Perm.flatMap_right _ h

theorem Inv_perm {st : Store} {ids ids' : List Nat} (h : ids.Perm ids') (hi : Inv st ids) : Inv st ids' := by
  obtain ⟨h1, h2, h3⟩ := hi
  exact ⟨h.nodup_iff.mp h1, fun i hi => h2 i (h.mem_iff.mpr hi), fun i hi => h3 i (h.mem_iff.mpr hi)⟩

/-- the store changes only where `ids` does not look -/
theorem den_congr {st st' : Store} {ids : List Nat} (h : ∀ k ∈ ids, st'[k]! = st[k]!) : den st' ids = den st ids := by
  induction ids with
  | nil => rfl
  | cons a l ih =>
    simp only [den, List.flatMap_cons] at ih ⊢
    rw [h a (by simp), ih (fun k hk => h k (by simp [hk]))]

theorem den_cons (st : Store) (i : Nat) (ids : List Nat) : den st (i :: ids) = (st[i]!).expand ++ den st ids := by
  simp [den]

/-! ## the merge sort returns a permutation of the ids, whatever the comparisons answer -/

theorem mergeF_perm : ∀ (f : Nat) (st : Store) (l r acc res : List Nat) (st' : Store),
    mergeF f st l r acc = .ok (res, st') → res.Perm (acc ++ (l ++ r)) ∧ SEq st st'
  | 0, _, _, _, _, _, _, h => by simp [mergeF] at h
  | f + 1, st, l, r, acc, res, st', h => by
    unfold mergeF at h
    split at h
    · simp only [RF.ok.injEq, Prod.mk.injEq] at h
      obtain ⟨rfl, rfl⟩ := h
      exact ⟨by simpa using (List.reverse_perm acc).append_right _, SEq.refl _⟩
    · simp only [RF.ok.injEq, Prod.mk.injEq] at h
      obtain ⟨rfl, rfl⟩ := h
      exact ⟨by simpa using (List.reverse_perm acc).append_right _, SEq.refl _⟩
    · rename_i a l' b r'
      split at h
      · obtain ⟨hp, hs⟩ := mergeF_perm f _ _ _ _ _ _ h
        refine ⟨hp.trans ?_, (cmpM_SEq st a b).trans hs⟩
        simpa using (List.perm_middle (a := a) (l₁ := acc) (l₂ := l' ++ b :: r')).symm
      · obtain ⟨hp, hs⟩ := mergeF_perm f _ _ _ _ _ _ h
        refine ⟨hp.trans ?_, (cmpM_SEq st a b).trans hs⟩
        have h1 : (b :: acc ++ (a :: l' ++ r')).Perm (b :: (acc ++ (a :: l' ++ r'))) := by simp
        refine h1.trans ?_
        have h2 : (acc ++ (a :: l' ++ b :: r')).Perm (b :: (acc ++ (a :: l' ++ r'))) := by
          rw [← List.append_assoc, ← List.append_assoc]
          exact List.perm_middle
        exact h2.symm

theorem msort_perm : ∀ (f : Nat) (st : Store) (ids res : List Nat) (st' : Store),
    msort f st ids = .ok (res, st') → res.Perm ids ∧ SEq st st'
  | 0, _, _, _, _, h => by simp [msort] at h
  | f + 1, st, ids, res, st', h => by
    unfold msort at h
    split at h
    · simp only [RF.ok.injEq, Prod.mk.injEq] at h
      obtain ⟨rfl, rfl⟩ := h
      exact ⟨List.Perm.refl _, SEq.refl _⟩
    · split at h
      · rename_i l st1 h1
        split at h
        · rename_i r st2 h2
          obtain ⟨p1, s1⟩ := msort_perm f _ _ _ _ h1
          obtain ⟨p2, s2⟩ := msort_perm f _ _ _ _ h2
          obtain ⟨p3, s3⟩ := mergeF_perm _ _ _ _ _ _ _ h
          refine ⟨?_, (s1.trans s2).trans s3⟩
          have := (p1.append p2)
          rw [List.take_append_drop] at this
          exact (by simpa using p3 : res.Perm (l ++ r)).trans this
        · cases h
        · cases h
      · cases h
      · cases h

/-! ## facts about `hostrange_prefix_cmp`, adjacent ids -/

theorem prefixCmp_zero {a b : HostRange} (h : prefixCmp a b = 0) : a.pfx = b.pfx ∧ a.single = b.single := by
  unfold prefixCmp at h
  split at h
  · omega
  · split at h
    · omega
    · rename_i h1 h2
      refine ⟨List.le_antisymm (List.not_lt.mp h2) (List.not_lt.mp h1), ?_⟩
      revert h; cases a.single <;> cases b.single <;> simp

theorem nodup_getElem_ne {l : List Nat} (hn : l.Nodup) {i j : Nat} (hij : i < j) (hj : j < l.length) :
    l[i] ≠ l[j] := by
  have := List.pairwise_iff_getElem.mp hn i j (by omega) hj hij
  exact this

/-- the two neighbours the loops look at are distinct members of the list -/
theorem adj_ids {ids : List Nat} {i : Nat} (hn : ids.Nodup) (h0 : i ≠ 0) (hi : i < ids.length) :
    ids[i-1]! ∈ ids ∧ ids[i]! ∈ ids ∧ ids[i-1]! ≠ ids[i]! ∧ ids[i]! = ids[i] := by
  have h1 : i - 1 < ids.length := by omega
  rw [getElem!_pos ids i hi, getElem!_pos ids (i-1) h1]
  exact ⟨List.getElem_mem _, List.getElem_mem _, nodup_getElem_ne hn (by omega) hi, rfl⟩

/-- pull two distinct members to the front -/
theorem ids_extract2 {ids : List Nat} {p q : Nat} (hn : ids.Nodup) (hp : p ∈ ids) (hq : q ∈ ids) (hpq : p ≠ q) :
    ∃ rest, ids.Perm (p :: q :: rest) ∧ p ∉ rest ∧ q ∉ rest := by
  refine ⟨(ids.erase p).erase q, ?_, ?_, ?_⟩
  · have hq' : q ∈ ids.erase p := (hn.mem_erase_iff).mpr ⟨Ne.symm hpq, hq⟩
    exact (List.perm_cons_erase hp).trans ((List.perm_cons_erase hq').cons p)
  · intro h
    exact hn.not_mem_erase (List.mem_of_mem_erase h)
  · exact (hn.erase p).not_mem_erase

theorem expand_merge (a b : HostRange) (ha : a.single = false) (hb : b.single = false) (hp : a.pfx = b.pfx)
    (hw : a.width = b.width) (hadj : a.hi + 1 = b.lo) (hwa : a.lo ≤ a.hi) (hwb : b.lo ≤ b.hi) :
    ({ a with hi := b.hi } : HostRange).expand = a.expand ++ b.expand := by
  rw [HostRange.expand_nonsingle _ (by simpa using ha), HostRange.expand_nonsingle _ ha,
    HostRange.expand_nonsingle _ hb]
  simp only
  rw [← hp, ← hw, ← hadj]
  exact (numExpand_append a.pfx a.width a.lo a.hi b.hi hwa (by omega)).symm

theorem WFS_nonsingle {r : HostRange} (h : r.WFS) (hs : r.single = false) : r.lo ≤ r.hi := by
  rcases h with ⟨h1, _, _⟩ | ⟨_, h2⟩
  · rw [hs] at h1; cases h1
  · exact h2

/-! ## `hostlist_collapse` -/

theorem collapseStep_done {st : Store} {ids : List Nat} {i : Nat} {st' : Store} {ids' : List Nat}
    (h : collapseStep st ids i = .done st' ids') : st' = st ∧ ids' = ids := by
  unfold collapseStep at h
  split at h
  · cases h; exact ⟨rfl, rfl⟩
  · split at h
    · split at h <;> cases h
    · cases h

theorem collapseStep_ne_abort {st : Store} {ids : List Nat} {i : Nat} : collapseStep st ids i ≠ .abort := by
  unfold collapseStep
  split
  · simp
  · split
    · split <;> simp
    · simp

/-- the merging branch of `hostlist_collapse`: `p` absorbs its right neighbour `q`.
    Two single names with the same prefix are NOT merged because `hostrange_create_single` stores `lo = hi = 0`
    (`WFS`): with arbitrary `lo`/`hi` fields on single ranges (`HWF` only) a duplicate name could be lost here. -/
theorem collapse_merge {st : Store} {ids : List Nat} {i : Nat} (hinv : Inv st ids) (h0 : i ≠ 0) (hi : i < ids.length)
    (hc : (prefixCmp st[ids[i-1]!]! st[ids[i]!]! == 0 && (st[ids[i-1]!]!).hi + 1 == (st[ids[i]!]!).lo) = true)
    (hok : (combineM st ids[i-1]! ids[i]!).1 = true) :
    Inv ((combineM st ids[i-1]! ids[i]!).2.set! ids[i-1]!
          { (combineM st ids[i-1]! ids[i]!).2[ids[i-1]!]! with hi := ((combineM st ids[i-1]! ids[i]!).2[ids[i]!]!).hi })
        (ids.eraseIdx i) ∧
    (den ((combineM st ids[i-1]! ids[i]!).2.set! ids[i-1]!
          { (combineM st ids[i-1]! ids[i]!).2[ids[i-1]!]! with hi := ((combineM st ids[i-1]! ids[i]!).2[ids[i]!]!).hi })
        (ids.eraseIdx i)).Perm (den st ids) := by
  obtain ⟨hp, hq, hpq, hqi⟩ := adj_ids hinv.1 h0 hi
  generalize ids[i-1]! = p at *
  generalize hqe : ids[i]! = q at *
  have hseq := combineM_SEq st p q
  have hw := combineM_true st p q hok hpq (hinv.2.1 p hp) (hinv.2.1 q hq)
  have hinv1 := Inv_SEq hseq hinv
  have hden1 := den_SEq hseq ids
  simp only [Bool.and_eq_true, beq_iff_eq] at hc
  obtain ⟨hpc, hadj⟩ := hc
  obtain ⟨hpfx, hsing⟩ := prefixCmp_zero hpc
  obtain ⟨ap1, al1, ah1, as1, _⟩ := hseq.2 p
  obtain ⟨bp1, bl1, bh1, bs1, _⟩ := hseq.2 q
  generalize (combineM st p q).2 = st1 at *
  -- neither range is a single name
  have hasing : (st[p]!).single = false := by
    rcases hinv.2.2 p hp with ⟨h1, _, h3⟩ | ⟨h1, _⟩
    · rcases hinv.2.2 q hq with ⟨_, h2', _⟩ | ⟨h1', _⟩
      · omega
      · rw [h1, h1'] at hsing; cases hsing
    · exact h1
  have hbsing : (st[q]!).single = false := by rw [← hsing]; exact hasing
  have ha1 : (st1[p]!).single = false := by rw [as1]; exact hasing
  have hb1 : (st1[q]!).single = false := by rw [bs1]; exact hbsing
  have hawf := WFS_nonsingle (hinv1.2.2 p hp) ha1
  have hbwf := WFS_nonsingle (hinv1.2.2 q hq) hb1
  have hexp := expand_merge st1[p]! st1[q]! ha1 hb1 (by rw [ap1, bp1]; exact hpfx) hw
    (by rw [ah1, bl1]; exact hadj) hawf hbwf
  -- list bookkeeping
  obtain ⟨rest, hperm, hpr, hqr⟩ := ids_extract2 hinv.1 hp hq hpq
  have hq' : ids.Perm (q :: ids.eraseIdx i) := by
    have := ids_perm_cons_eraseIdx ids i hi
    rw [← hqi] at this; exact this
  have hids' : (ids.eraseIdx i).Perm (p :: rest) :=
    List.Perm.cons_inv (hq'.symm.trans (hperm.trans (List.Perm.swap ..)))
  constructor
  · refine ⟨hinv.1.eraseIdx i, fun k hk => ?_, fun k hk => ?_⟩
    · rw [Store.size_set]; exact hinv1.2.1 k (List.mem_of_mem_eraseIdx hk)
    · rw [Store.get_set]
      split
      · exact Or.inr ⟨ha1, by simp only; omega⟩
      · exact hinv1.2.2 k (List.mem_of_mem_eraseIdx hk)
  · refine (den_perm _ hids').trans ?_
    rw [← hden1]
    refine List.Perm.trans ?_ (den_perm _ hperm).symm
    rw [den_cons, den_cons, den_cons, Store.get_set]
    simp only [hinv1.2.1 p hp, and_self, if_true, hexp]
    rw [den_congr (st := st1) (fun k hk => by rw [Store.get_set]; simp; intro h; subst h; exact absurd hk hpr)]
    simp


/-- one iteration of `hostlist_collapse` keeps the invariant and the multiset of names -/
theorem collapseStep_cont {st : Store} {ids : List Nat} {i : Nat} {st' : Store} {ids' : List Nat} {i' : Nat}
    (hinv : Inv st ids) (hi : i = 0 ∨ i < ids.length) (h : collapseStep st ids i = .cont st' ids' i') :
    Inv st' ids' ∧ (den st' ids').Perm (den st ids) ∧ (i' = 0 ∨ i' < ids'.length) := by
  unfold collapseStep at h
  split at h
  · cases h
  · rename_i h0
    have h0 : i ≠ 0 := by simpa using h0
    have hi : i < ids.length := by omega
    split at h
    · rename_i hc
      split at h
      · rename_i hok
        simp only [StepRes.cont.injEq] at h
        obtain ⟨rfl, rfl, rfl⟩ := h
        obtain ⟨h1, h2⟩ := collapse_merge hinv h0 hi hc hok
        refine ⟨h1, h2, Or.inr ?_⟩
        rw [List.length_eraseIdx_of_lt hi]; omega
      · simp only [StepRes.cont.injEq] at h
        obtain ⟨rfl, rfl, rfl⟩ := h
        have hseq := combineM_SEq st ids[i-1]! ids[i]!
        exact ⟨Inv_SEq hseq hinv, by rw [den_SEq hseq], Or.inr (by omega)⟩
    · simp only [StepRes.cont.injEq] at h
      obtain ⟨rfl, rfl, rfl⟩ := h
      exact ⟨hinv, List.Perm.refl _, Or.inr (by omega)⟩

theorem collapseLoopF_spec : ∀ (f : Nat) (st : Store) (ids : List Nat) (i : Nat) (st' : Store) (ids' : List Nat),
    Inv st ids → (i = 0 ∨ i < ids.length) → collapseLoopF f st ids i = .ok (ids', st') →
    Inv st' ids' ∧ (den st' ids').Perm (den st ids)
  | 0, _, _, _, _, _, _, _, h => by simp [collapseLoopF] at h
  | f + 1, st, ids, i, st', ids', hinv, hi, h => by
    unfold collapseLoopF at h
    split at h
    · rename_i st1 ids1 hs
      obtain ⟨rfl, rfl⟩ := collapseStep_done hs
      simp only [RF.ok.injEq, Prod.mk.injEq] at h
      obtain ⟨rfl, rfl⟩ := h
      exact ⟨hinv, List.Perm.refl _⟩
    · cases h
    · rename_i st1 ids1 i1 hs
      obtain ⟨h1, h2, h3⟩ := collapseStep_cont hinv hi hs
      obtain ⟨h4, h5⟩ := collapseLoopF_spec f _ _ _ _ _ h1 h3 h
      exact ⟨h4, h5.trans h2⟩

theorem collapse_spec {st : Store} {ids : List Nat} {st' : Store} {ids' : List Nat}
    (hinv : Inv st ids) (h : collapse st ids = .ok (ids', st')) :
    Inv st' ids' ∧ (den st' ids').Perm (den st ids) := by
  unfold collapse at h
  exact collapseLoopF_spec _ _ _ _ _ _ hinv (by omega) h

/-! ## `hostlist_coalesce` -/

open List

def insOneNums (a2hi b2lo x : Nat) : List Nat := (if x > a2hi then [x] else []) ++ (if x < b2lo then [x] else [])

def insNums (a2hi b2lo newHi : Nat) : Nat → Nat → List Nat
  | 0, _ => []
  | f + 1, x => if x > newHi then [] else insOneNums a2hi b2lo x ++ insNums a2hi b2lo newHi f (x + 1)

theorem count_insOneNums (a2hi b2lo x a : Nat) :
    count a (insOneNums a2hi b2lo x) = if a = x then (if a > a2hi then 1 else 0) + (if a < b2lo then 1 else 0) else 0 := by
  unfold insOneNums
  rw [count_append]
  by_cases h1 : x > a2hi <;> by_cases h2 : x < b2lo <;> by_cases h3 : a = x <;>
    simp [h1, h2, h3, count_cons] <;> grind

theorem count_insNums (a2hi b2lo newHi a : Nat) : ∀ (f x : Nat),
    count a (insNums a2hi b2lo newHi f x) =
      if x ≤ a ∧ a ≤ newHi ∧ a < x + f then (if a > a2hi then 1 else 0) + (if a < b2lo then 1 else 0) else 0
  | 0, x => by simp [insNums]; omega
  | f + 1, x => by
    unfold insNums
    split
    · simp; omega
    · rw [count_append, count_insOneNums, count_insNums a2hi b2lo newHi a f (x + 1)]
      grind

theorem split_nums_perm (alo ahi blo bhi : Nat) (h1 : alo ≤ blo) (h2 : blo < ahi) (h3 : blo ≤ bhi) :
    (insNums blo (min bhi ahi) (min bhi ahi) (min bhi ahi + 2 - blo) blo ++
      (range' alo (blo + 1 - alo) ++
        range' (min bhi ahi) ((if min bhi ahi < ahi then ahi else bhi) + 1 - min bhi ahi))).Perm
    (range' alo (ahi + 1 - alo) ++ range' blo (bhi + 1 - blo)) := by
  rw [perm_iff_count]
  intro a
  simp only [count_append, count_range_1', count_insNums]
  by_cases hm : bhi < ahi
  · rw [Nat.min_eq_left (Nat.le_of_lt hm)]
    simp only [hm, if_true]
    grind
  · rw [Nat.min_eq_right (by omega)]
    simp only [Nat.lt_irrefl, if_false]
    grind

/-- the name a number stands for under a prefix and a width -/
def nameOf (pfx : Name) (w x : Nat) : Name := pfx ++ fmtNum w x

theorem numExpand_eq_range' (pfx : Name) (w lo hi : Nat) :
    numExpand pfx w lo hi = (range' lo (hi + 1 - lo)).map (nameOf pfx w) := by
  unfold numExpand
  rw [range'_eq_map_range, map_map]
  rfl

theorem expand_eq_range' (r : HostRange) (h : r.single = false) :
    r.expand = (range' r.lo (r.hi + 1 - r.lo)).map (nameOf r.pfx r.width) := by
  rw [HostRange.expand_nonsingle r h, numExpand_eq_range']

/-- `hostlist_insert_range` of a fresh copy adds exactly the names of the copy, wherever it is put -/
theorem insertAt_spec {st : Store} {ids : List Nat} (j : Nat) {mk : HostRange} (hinv : Inv st ids) (hmk : mk.WFS) :
    Inv (insertAt st ids j mk).2 (insertAt st ids j mk).1 ∧
    (den (insertAt st ids j mk).2 (insertAt st ids j mk).1).Perm (mk.expand ++ den st ids) := by
  unfold insertAt
  simp only
  have hperm : (st.size :: ids).Perm (ids.take j ++ [st.size] ++ ids.drop j) := by
    have : (ids.take j ++ [st.size] ++ ids.drop j).Perm (st.size :: (ids.take j ++ ids.drop j)) := by
      simp only [append_assoc, singleton_append]; exact perm_middle
    rw [take_append_drop] at this
    exact this.symm
  have hfresh : st.size ∉ ids := fun h => Nat.lt_irrefl _ (hinv.2.1 _ h)
  have hinv' : Inv (st.push mk) (st.size :: ids) := by
    refine ⟨nodup_cons.mpr ⟨hfresh, hinv.1⟩, fun k hk => ?_, fun k hk => ?_⟩
    · rw [Store.size_push]
      rcases mem_cons.mp hk with rfl | hk
      · omega
      · have := hinv.2.1 k hk; omega
    · rw [Store.get_push]
      rcases mem_cons.mp hk with rfl | hk
      · simpa using hmk
      · simp only [hinv.2.1 k hk, if_true]; exact hinv.2.2 k hk
  refine ⟨Inv_perm hperm hinv', (den_perm _ hperm.symm).trans ?_⟩
  rw [den_cons, Store.get_push]
  simp only [Nat.lt_irrefl, if_false, if_true]
  rw [den_congr (st := st) (fun k hk => by rw [Store.get_push]; simp [hinv.2.1 k hk])]

theorem mk_expand (pfx : Name) (w x : Nat) :
    ({ pfx := pfx, lo := x, hi := x, width := w, single := false } : HostRange).expand = [nameOf pfx w x] := by
  simp [HostRange.expand, nameOf]

theorem mk_WFS (pfx : Name) (w x : Nat) :
    ({ pfx := pfx, lo := x, hi := x, width := w, single := false } : HostRange).WFS :=
  Or.inr ⟨rfl, Nat.le_refl _⟩

theorem insOne_spec (pfx : Name) (w a2hi b2lo : Nat) {st : Store} {ids : List Nat} (x j : Nat) (hinv : Inv st ids) :
    Inv (insOne pfx w a2hi b2lo st ids x j).2.1 (insOne pfx w a2hi b2lo st ids x j).1 ∧
    (den (insOne pfx w a2hi b2lo st ids x j).2.1 (insOne pfx w a2hi b2lo st ids x j).1).Perm
      ((insOneNums a2hi b2lo x).map (nameOf pfx w) ++ den st ids) := by
  unfold insOne insOneNums
  simp only
  by_cases h1 : x > a2hi
  · obtain ⟨i1, d1⟩ := insertAt_spec j hinv (mk_WFS pfx w x)
    rw [mk_expand] at d1
    by_cases h2 : x < b2lo
    · simp only [h1, h2, if_true]
      obtain ⟨i2, d2⟩ := insertAt_spec (j + 1) i1 (mk_WFS pfx w x)
      rw [mk_expand] at d2
      exact ⟨i2, d2.trans (by simpa using d1)⟩
    · simp only [h1, h2, if_true, if_false]
      exact ⟨i1, by simpa using d1⟩
  · by_cases h2 : x < b2lo
    · simp only [h1, h2, if_true, if_false]
      obtain ⟨i2, d2⟩ := insertAt_spec j hinv (mk_WFS pfx w x)
      rw [mk_expand] at d2
      exact ⟨i2, by simpa using d2⟩
    · simp only [h1, h2, if_false]
      exact ⟨hinv, by simp⟩

theorem insF_spec (pfx : Name) (w a2hi b2lo newHi : Nat) : ∀ (f : Nat) (st : Store) (ids : List Nat) (x j : Nat),
    Inv st ids →
    Inv (insF pfx w a2hi b2lo newHi f st ids x j).2 (insF pfx w a2hi b2lo newHi f st ids x j).1 ∧
    (den (insF pfx w a2hi b2lo newHi f st ids x j).2 (insF pfx w a2hi b2lo newHi f st ids x j).1).Perm
      ((insNums a2hi b2lo newHi f x).map (nameOf pfx w) ++ den st ids)
  | 0, st, ids, x, j, hinv => by simp [insF, insNums, hinv]
  | f + 1, st, ids, x, j, hinv => by
    unfold insF insNums
    split
    · simp [hinv]
    · obtain ⟨i1, d1⟩ := insOne_spec pfx w a2hi b2lo x j hinv
      obtain ⟨i2, d2⟩ := insF_spec pfx w a2hi b2lo newHi f _ _ (x + 1) (insOne pfx w a2hi b2lo st ids x j).2.2 i1
      refine ⟨i2, d2.trans ?_⟩
      rw [map_append, append_assoc]
      exact (d1.append_left _).trans (perm_append_comm_assoc _ _ _)

/-- the `if (new) { … }` body of `hostlist_coalesce` keeps the multiset of names: the overlap `[newLo..newHi]` is
    counted twice before and after -/
theorem splitStep_spec {st : Store} {ids : List Nat} (i : Nat) {p q : Nat} (hinv : Inv st ids)
    (hp : p ∈ ids) (hq : q ∈ ids) (hpq : p ≠ q)
    (has : (st[p]!).single = false) (hbs : (st[q]!).single = false) (hpfx : (st[p]!).pfx = (st[q]!).pfx)
    (hw : (st[p]!).width = (st[q]!).width) (hlo : (st[p]!).lo ≤ (st[q]!).lo) (hov : (st[q]!).lo < (st[p]!).hi) :
    Inv (splitStep st ids i p q).2 (splitStep st ids i p q).1 ∧
    (den (splitStep st ids i p q).2 (splitStep st ids i p q).1).Perm (den st ids) := by
  have hbwf := WFS_nonsingle (hinv.2.2 q hq) hbs
  have hps := hinv.2.1 p hp
  have hqs := hinv.2.1 q hq
  obtain ⟨rest, hperm, hpr, hqr⟩ := ids_extract2 hinv.1 hp hq hpq
  have den0 : (den st ids).Perm ((st[p]!).expand ++ ((st[q]!).expand ++ den st rest)) := by
    simpa [den_cons] using den_perm st hperm
  unfold splitStep
  simp only
  generalize st[p]! = a at *
  generalize st[q]! = b at *
  generalize hb1 : (if min b.hi a.hi < a.hi then ({ b with hi := a.hi } : HostRange) else b) = b1
  have hb1' : b1.pfx = b.pfx ∧ b1.width = b.width ∧ b1.single = b.single ∧ b1.lo = b.lo ∧
      b1.hi = if min b.hi a.hi < a.hi then a.hi else b.hi := by
    rw [← hb1]; split <;> simp
  obtain ⟨e1, e2, e3, _, e5⟩ := hb1'
  -- the two shrunk ranges
  have inv3 : Inv ((st.set! p { a with hi := b.lo }).set! q { b1 with lo := min b.hi a.hi }) ids := by
    refine ⟨hinv.1, fun k hk => by simpa [Store.size_set] using hinv.2.1 k hk, fun k hk => ?_⟩
    rw [Store.get_set, Store.get_set]
    split
    · exact Or.inr ⟨by simp [e3, hbs], by simp only [e5]; split <;> omega⟩
    · split
      · exact Or.inr ⟨has, hlo⟩
      · exact hinv.2.2 k hk
  have den3 : (den ((st.set! p { a with hi := b.lo }).set! q { b1 with lo := min b.hi a.hi }) ids).Perm
      (({ a with hi := b.lo } : HostRange).expand ++
        (({ b1 with lo := min b.hi a.hi } : HostRange).expand ++ den st rest)) := by
    refine (den_perm _ hperm).trans ?_
    rw [den_cons, den_cons, Store.get_set, Store.get_set, Store.get_set, Store.get_set]
    simp only [Store.size_set, hps, hqs, hpq, Ne.symm hpq, and_true, and_self, if_true, if_false]
    rw [den_congr (st := st) (fun k hk => by
      rw [Store.get_set, Store.get_set]
      have h1 : ¬ (q = k ∧ q < (st.set! p { a with hi := b.lo }).size) := fun h => hqr (h.1 ▸ hk)
      have h2 : ¬ (p = k ∧ p < st.size) := fun h => hpr (h.1 ▸ hk)
      simp only [h1, h2, if_false])]
  obtain ⟨i4, d4⟩ := insF_spec a.pfx a.width b.lo (min b.hi a.hi) (min b.hi a.hi) (min b.hi a.hi + 2 - b.lo) _ _ b.lo i inv3
  refine ⟨i4, d4.trans (((den3.append_left _).trans ?_).trans den0.symm)⟩
  rw [expand_eq_range' a has, expand_eq_range' b hbs, expand_eq_range' _ (by simpa using has),
    expand_eq_range' _ (by simp [e3, hbs])]
  simp only [e1, e2, e5, ← hpfx, ← hw]
  rw [← append_assoc, ← append_assoc, ← append_assoc, ← map_append, ← map_append, ← map_append]
  apply Perm.append_right
  apply Perm.map
  rw [append_assoc]
  exact split_nums_perm a.lo a.hi b.lo b.hi hlo hov hbwf

theorem prefixCmp_congr {a b a' b' : HostRange} (ha : REq a a') (hb : REq b b') : prefixCmp a' b' = prefixCmp a b := by
  unfold prefixCmp
  rw [ha.1, hb.1, ha.2.2.2.1, hb.2.2.2.1]

theorem cmpM_eq (st : Store) (i j : Nat) : cmpM st i j =
    if prefixCmp st[i]! st[j]! != 0 then (prefixCmp st[i]! st[j]!, st) else
    (if (combineM st i j).1 then (((combineM st i j).2[i]!).lo : Int) - ((combineM st i j).2[j]!).lo
      else (((combineM st i j).2[i]!).width : Int) - ((combineM st i j).2[j]!).width, (combineM st i j).2) := by
  unfold cmpM
  simp only

/-- what `assert(hostrange_cmp(h1, h2) <= 0)` guarantees when `hostrange_intersect` goes on to build a range:
    a failed width combination stays failed, a successful one compared the `lo` fields -/
theorem cmpM_le {st : Store} {p q : Nat} (hc : ¬ (cmpM st p q).1 > 0)
    (hpc : prefixCmp (cmpM st p q).2[p]! (cmpM st p q).2[q]! = 0)
    (hok : combOk (cmpM st p q).2[p]! (cmpM st p q).2[q]! = true) :
    ((cmpM st p q).2[p]!).lo ≤ ((cmpM st p q).2[q]!).lo := by
  have hseq := cmpM_SEq st p q
  have h0 : prefixCmp st[p]! st[q]! = 0 := by rw [← prefixCmp_congr (hseq.2 p) (hseq.2 q)]; exact hpc
  rw [cmpM_eq] at hc hok ⊢
  simp only [h0, bne_self_eq_false, Bool.false_eq_true, if_false] at hc hok ⊢
  cases hcm : (combineM st p q).1
  · rw [combineM_false st p q hcm, combineM_false st p q hcm, ← combineM_fst, hcm] at hok
    cases hok
  · simp only [hcm, if_true] at hc
    omega

theorem coalesceTail_spec {st : Store} {ids : List Nat} {i p q : Nat} {st' : Store} {ids' : List Nat} {i' : Nat}
    (hinv : Inv st ids) (hi : i < ids.length) (hp : p ∈ ids) (hq : q ∈ ids) (hpq : p ≠ q)
    (has : (st[p]!).single = false) (hbs : (st[q]!).single = false)
    (hord : prefixCmp st[p]! st[q]! = 0 → combOk st[p]! st[q]! = true → (st[p]!).lo ≤ (st[q]!).lo)
    (h : coalesceTail st ids i p q = .cont st' ids' i') :
    Inv st' ids' ∧ (den st' ids').Perm (den st ids) ∧ (i' = 0 ∨ i' < ids'.length) := by
  unfold coalesceTail at h
  split at h
  · simp only [StepRes.cont.injEq] at h
    obtain ⟨rfl, rfl, rfl⟩ := h
    exact ⟨hinv, Perm.refl _, Or.inr (by omega)⟩
  · rename_i hc
    have hseq := combineM_SEq st p q
    split at h
    · simp only [StepRes.cont.injEq] at h
      obtain ⟨rfl, rfl, rfl⟩ := h
      exact ⟨Inv_SEq hseq hinv, by rw [den_SEq hseq], Or.inr (by omega)⟩
    · rename_i hok
      have hok : (combineM st p q).1 = true := by simpa using hok
      have hc : prefixCmp st[p]! st[q]! = 0 ∧ (st[q]!).lo < (st[p]!).hi := by simpa using hc
      obtain ⟨hpc, hov⟩ := hc
      simp only [StepRes.cont.injEq] at h
      obtain ⟨rfl, rfl, rfl⟩ := h
      have hw := combineM_true st p q hok hpq (hinv.2.1 p hp) (hinv.2.1 q hq)
      have hle := hord hpc (by rw [← combineM_fst]; exact hok)
      obtain ⟨hpfx, _⟩ := prefixCmp_zero hpc
      obtain ⟨ap1, al1, ah1, as1, _⟩ := hseq.2 p
      obtain ⟨bp1, bl1, bh1, bs1, _⟩ := hseq.2 q
      obtain ⟨h1, h2⟩ := splitStep_spec i (Inv_SEq hseq hinv) hp hq hpq (by rw [as1]; exact has) (by rw [bs1]; exact hbs)
        (by rw [ap1, bp1]; exact hpfx) hw (by rw [al1, bl1]; exact hle) (by rw [bl1, ah1]; exact hov)
      exact ⟨h1, by rw [← den_SEq hseq]; exact h2, by omega⟩

theorem coalesceTail_ne {st : Store} {ids : List Nat} {i p q : Nat} :
    coalesceTail st ids i p q ≠ .abort ∧ ∀ s l, coalesceTail st ids i p q ≠ .done s l := by
  unfold coalesceTail
  split
  · simp
  · split <;> simp

theorem coalesceStep_done {st : Store} {ids : List Nat} {i : Nat} {st' : Store} {ids' : List Nat}
    (h : coalesceStep st ids i = .done st' ids') : st' = st ∧ ids' = ids := by
  unfold coalesceStep at h
  split at h
  · cases h; exact ⟨rfl, rfl⟩
  · split at h
    · cases h
    · split at h
      · cases h
      · exact absurd h (coalesceTail_ne.2 _ _)

/-- one iteration of `hostlist_coalesce` keeps the invariant and the multiset of names -/
theorem coalesceStep_cont {st : Store} {ids : List Nat} {i : Nat} {st' : Store} {ids' : List Nat} {i' : Nat}
    (hinv : Inv st ids) (hi : i = 0 ∨ i < ids.length) (h : coalesceStep st ids i = .cont st' ids' i') :
    Inv st' ids' ∧ (den st' ids').Perm (den st ids) ∧ (i' = 0 ∨ i' < ids'.length) := by
  unfold coalesceStep at h
  split at h
  · cases h
  · rename_i h0
    have h0 : i ≠ 0 := by simpa using h0
    have hi : i < ids.length := by omega
    obtain ⟨hp, hq, hpq, _⟩ := adj_ids hinv.1 h0 hi
    generalize ids[i-1]! = p at *
    generalize ids[i]! = q at *
    split at h
    · simp only [StepRes.cont.injEq] at h
      obtain ⟨rfl, rfl, rfl⟩ := h
      exact ⟨hinv, Perm.refl _, Or.inr (by omega)⟩
    · rename_i hsing
      simp only [Bool.or_eq_true, not_or, Bool.not_eq_true] at hsing
      split at h
      · cases h
      · rename_i hc
        have hseq := cmpM_SEq st p q
        obtain ⟨h1, h2, h3⟩ := coalesceTail_spec (Inv_SEq hseq hinv) hi hp hq hpq
          (by rw [(hseq.2 p).2.2.2.1]; exact hsing.1) (by rw [(hseq.2 q).2.2.2.1]; exact hsing.2)
          (fun hpc hok => cmpM_le hc hpc hok) h
        exact ⟨h1, by rw [← den_SEq hseq]; exact h2, h3⟩

theorem coalesceLoopF_spec : ∀ (f : Nat) (st : Store) (ids : List Nat) (i : Nat) (st' : Store) (ids' : List Nat),
    Inv st ids → (i = 0 ∨ i < ids.length) → coalesceLoopF f st ids i = .ok (ids', st') →
    Inv st' ids' ∧ (den st' ids').Perm (den st ids)
  | 0, _, _, _, _, _, _, _, h => by simp [coalesceLoopF] at h
  | f + 1, st, ids, i, st', ids', hinv, hi, h => by
    unfold coalesceLoopF at h
    split at h
    · rename_i st1 ids1 hs
      obtain ⟨rfl, rfl⟩ := coalesceStep_done hs
      simp only [RF.ok.injEq, Prod.mk.injEq] at h
      obtain ⟨rfl, rfl⟩ := h
      exact ⟨hinv, Perm.refl _⟩
    · cases h
    · rename_i st1 ids1 i1 hs
      obtain ⟨h1, h2, h3⟩ := coalesceStep_cont hinv hi hs
      obtain ⟨h4, h5⟩ := coalesceLoopF_spec f _ _ _ _ _ h1 h3 h
      exact ⟨h4, h5.trans h2⟩

theorem coalesce_spec {st : Store} {ids : List Nat} {st' : Store} {ids' : List Nat}
    (hinv : Inv st ids) (h : coalesce st ids = .ok (ids', st')) :
    Inv st' ids' ∧ (den st' ids').Perm (den st ids) := by
  unfold coalesce at h
  exact coalesceLoopF_spec _ _ _ _ _ _ hinv (by omega) h

/-! ## `hostlist_sort` -/

theorem map_range_getElem! (l : List HostRange) : (range l.length).map (fun i => l.toArray[i]!) = l := by
  apply ext_getElem
  · simp
  · intro i h1 h2
    simp only [length_map, length_range] at h1
    simp [h1]

theorem den_init (hl : Hostlist) : den hl.toArray (range hl.length) = expand hl := by
  unfold den expand
  conv => rhs; rw [← map_range_getElem! hl]
  rw [flatMap_map]

theorem Inv_init (hl : Hostlist) (hwf : HWFS hl) : Inv hl.toArray (range hl.length) := by
  refine ⟨nodup_range, fun i hi => by simpa using hi, fun i hi => ?_⟩
  have hi : i < hl.length := by simpa using hi
  apply hwf
  have : hl.toArray[i]! = hl[i] := by simp [hi]
  rw [this]
  exact getElem_mem _

theorem finish_spec {st : Store} {ids : List Nat} (hinv : Inv st ids) :
    expand (ids.map fun i => st[i]!) = den st ids ∧ HWFS (ids.map fun i => st[i]!) := by
  constructor
  · unfold expand den
    rw [flatMap_map]
  · intro t ht
    obtain ⟨i, hi, rfl⟩ := mem_map.mp ht
    exact hinv.2.2 i hi

/-- `hostlist_sort` (merge sort by `hostrange_cmp`, `hostlist_coalesce`, `hostlist_collapse`) never adds, drops or
    renames a node, and keeps the list well formed -/
theorem sortHL_spec (hl hl' : Hostlist) (hwf : HWFS hl) (h : sortHL hl = .ok hl') :
    (expand hl').Perm (expand hl) ∧ HWFS hl' := by
  unfold sortHL at h
  split at h
  · cases h; exact ⟨Perm.refl _, hwf⟩
  · unfold afterMsortF at h
    split at h
    · rename_i ids1 st1 hm
      obtain ⟨p1, s1⟩ := msort_perm _ _ _ _ _ hm
      have inv1 : Inv st1 ids1 := Inv_perm p1.symm (Inv_SEq s1 (Inv_init hl hwf))
      have d1 : (den st1 ids1).Perm (expand hl) := by
        rw [← den_init hl, ← den_SEq s1]; exact den_perm _ p1
      unfold afterCoalesceF at h
      split at h
      · rename_i ids2 st2 hco
        obtain ⟨inv2, d2⟩ := coalesce_spec inv1 hco
        unfold finishF at h
        split at h
        · rename_i ids3 st3 hcl
          obtain ⟨inv3, d3⟩ := collapse_spec inv2 hcl
          simp only [SortRes.ok.injEq] at h
          subst h
          obtain ⟨e, w⟩ := finish_spec inv3
          exact ⟨by rw [e]; exact (d3.trans d2).trans d1, w⟩
        · cases h
        · cases h
      · cases h
      · cases h
    · cases h
    · cases h

theorem sortHL_perm (hl hl' : Hostlist) (hwf : HWFS hl) (h : sortHL hl = .ok hl') : (expand hl').Perm (expand hl) :=
  (sortHL_spec hl hl' hwf h).1

theorem sortHL_wfs (hl hl' : Hostlist) (hwf : HWFS hl) (h : sortHL hl = .ok hl') : HWFS hl' :=
  (sortHL_spec hl hl' hwf h).2


/-! ## the hypotheses are satisfiable, and `HWFS` cannot be weakened to `HWF` -/

/-- premises of `sortHL_perm` on a non-trivial list (`b2,a[1-3],a[2-5],b1`): two prefixes, an overlap that is split,
    two singletons that are collapsed -/
example :
    HWFS [⟨['b'], 2, 2, 1, false⟩, ⟨['a'], 1, 3, 1, false⟩, ⟨['a'], 2, 5, 1, false⟩, ⟨['b'], 1, 1, 1, false⟩] ∧
    sortHL [⟨['b'], 2, 2, 1, false⟩, ⟨['a'], 1, 3, 1, false⟩, ⟨['a'], 2, 5, 1, false⟩, ⟨['b'], 1, 1, 1, false⟩] =
      .ok [⟨['a'], 1, 2, 1, false⟩, ⟨['a'], 2, 3, 1, false⟩, ⟨['a'], 3, 5, 1, false⟩, ⟨['b'], 1, 2, 1, false⟩] := by
  unfold HWFS; decide +kernel

/-- with single names whose unused `lo`/`hi` fields are not zero (allowed by `HWF`, never built by the library, excluded
    by `HWFS`) `hostlist_collapse` would merge two copies of the same name into one: the duplicate is lost -/
theorem sortHL_HWF_counterexample :
    HWF [⟨['x'], 0, 0, 0, true⟩, ⟨['x'], 1, 1, 0, true⟩] ∧
    sortHL [⟨['x'], 0, 0, 0, true⟩, ⟨['x'], 1, 1, 0, true⟩] = .ok [⟨['x'], 0, 1, 0, true⟩] ∧
    expand [⟨['x'], 0, 0, 0, true⟩, ⟨['x'], 1, 1, 0, true⟩] = [['x'], ['x']] ∧
    expand [⟨['x'], 0, 1, 0, true⟩] = [['x']] := by
  unfold HWF; decide +kernel

/-! ## fuel: the merge sort and `hostlist_collapse` never run out (the bound of `hostlist_coalesce` is proved sufficient in
    `Pm/SortFuel.lean`: `coalesce_ne_fuel`, `sortHL_ne_fuel`) -/

theorem mergeF_ne_fuel : ∀ (f : Nat) (st : Store) (l r acc : List Nat), l.length + r.length < f →
    mergeF f st l r acc ≠ .fuel
  | 0, _, _, _, _, h => by omega
  | f + 1, st, l, r, acc, h => by
    unfold mergeF
    split
    · intro e; cases e
    · intro e; cases e
    · rename_i a l' b r'
      simp only [List.length_cons] at h
      split
      · exact mergeF_ne_fuel f _ _ _ _ (by simp only [List.length_cons]; omega)
      · exact mergeF_ne_fuel f _ _ _ _ (by simp only [List.length_cons]; omega)

theorem msort_ne_fuel : ∀ (f : Nat) (st : Store) (ids : List Nat), ids.length ≤ f → 0 < f →
    msort f st ids ≠ .fuel
  | 0, _, _, _, h => by omega
  | f + 1, st, ids, hlen, _ => by
    unfold msort
    split
    · intro e; cases e
    · rename_i h1
      have h2 : 2 ≤ ids.length := by omega
      have hd : 1 ≤ ids.length / 2 := by omega
      have hd2 : ids.length / 2 < ids.length := by omega
      have ht : (ids.take (ids.length / 2)).length ≤ f := by rw [List.length_take]; omega
      have hdr : (ids.drop (ids.length / 2)).length ≤ f := by rw [List.length_drop]; omega
      have hf : 0 < f := by omega
      have ih1 := msort_ne_fuel f st (ids.take (ids.length / 2)) ht hf
      split
      · rename_i l st1 _
        have ih2 := msort_ne_fuel f st1 (ids.drop (ids.length / 2)) hdr hf
        split
        · exact mergeF_ne_fuel _ _ _ _ _ (by omega)
        · intro e; cases e
        · rename_i hh; exact absurd hh ih2
      · intro e; cases e
      · rename_i hh; exact absurd hh ih1

theorem collapseStep_cont_idx {st : Store} {ids : List Nat} {i : Nat} {st' : Store} {ids' : List Nat} {i' : Nat}
    (h : collapseStep st ids i = .cont st' ids' i') : i' + 1 = i := by
  unfold collapseStep at h
  split at h
  · cases h
  · rename_i h0
    have h0 : i ≠ 0 := by simpa using h0
    split at h
    · split at h <;> (cases h; omega)
    · cases h; omega

theorem collapseLoopF_ne_fuel : ∀ (f : Nat) (st : Store) (ids : List Nat) (i : Nat), i < f →
    collapseLoopF f st ids i ≠ .fuel
  | 0, _, _, _, h => by omega
  | f + 1, st, ids, i, h => by
    unfold collapseLoopF
    split
    · intro e; cases e
    · intro e; cases e
    · rename_i st' ids' i' hs
      have := collapseStep_cont_idx hs
      exact collapseLoopF_ne_fuel f st' ids' i' (by omega)

theorem collapse_ne_fuel (st : Store) (ids : List Nat) : collapse st ids ≠ .fuel := by
  unfold collapse
  exact collapseLoopF_ne_fuel _ _ _ _ (by omega)

/-- `hostlist_sort` reports `.fuel` only if the outer loop of `hostlist_coalesce` exceeds its computed bound
    `coalesceFuel` — the merge sort and `hostlist_collapse` provably never do -/
theorem sortHL_fuel_only_coalesce (hl : Hostlist) (h : sortHL hl = .fuel) :
    ∃ ids st, msort (hl.length + 1) hl.toArray (List.range hl.length) = .ok (ids, st) ∧ coalesce st ids = .fuel := by
  unfold sortHL at h
  split at h
  · cases h
  · unfold afterMsortF at h
    split at h
    · rename_i ids1 st1 hm
      refine ⟨ids1, st1, hm, ?_⟩
      unfold afterCoalesceF at h
      split at h
      · rename_i ids2 st2 hco
        unfold finishF at h
        split at h
        · cases h
        · cases h
        · rename_i hcl; exact absurd hcl (collapse_ne_fuel _ _)
      · cases h
      · rename_i hco; exact hco
    · cases h
    · rename_i hm
      exact absurd hm (msort_ne_fuel _ _ _ (by simp) (by omega))

end Pm
