import Pm.LsdListOps
/-! # The loops of `list.c` on a represented list

`list_find_first`, `list_for_each`, `list_destroy`, `list_delete_all`, `list_find`: each loop ends within its fuel (the model's
stand-in for "the C loop terminates"), never dereferences a wild pointer, and computes what the list with cursors computes. -/
namespace Pm.LsdList
variable {α : Type}

/-! ## read-only loops -/

theorem findFirstLoop_spec {l : LList α} {ns : List Nat} {items : List α} (h : Chain l ns items) (f : α → Bool) :
    ∀ (fuel k : Nat), k ≤ ns.length → ns.length - k < fuel →
      findFirstLoop l f fuel ns[k]? = some ((items.drop k).find? f) := by
  intro fuel
  induction fuel with
  | zero => intro k _ h2; omega
  | succ fuel ih =>
    intro k hk hfuel
    by_cases hlt : k < ns.length
    · obtain ⟨n, hn⟩ : ∃ n, ns[k]? = some n := ⟨ns[k]'hlt, by simp⟩
      have hlt' : k < items.length := by rw [h.len]; exact hlt
      have hd : items[k]? = some items[k] := by simp [List.getElem?_eq_getElem hlt']
      rw [hn]
      simp only [findFirstLoop, h.cell k n hn, hd]
      rw [List.drop_eq_getElem_cons hlt', List.find?_cons]
      by_cases hf : f items[k] = true
      · simp [hf]
      · have hf' : f items[k] = false := by simpa using hf
        simp only [hf']
        exact ih (k + 1) (by omega) (by omega)
    · have e : k = ns.length := by omega
      subst e
      have : items.drop ns.length = [] := List.drop_eq_nil_of_le (by rw [h.len]; exact Nat.le_refl _)
      simp [findFirstLoop, this]

theorem findFirst_abs {l : LList α} {ns : List Nat} {a : Abs α} (h : RepA l ns a) (f : α → Bool) :
    findFirst l f = some (a.items.find? f) := by
  have := findFirstLoop_spec h.rep.toChain f (l.cells.size + 1) 0 (Nat.zero_le _) (by have := h.rep.toChain.length_le; omega)
  simpa [findFirst, h.rep.head] using this

/-- `list_for_each` on a plain list: the number of items visited, negated when the callback stopped the walk -/
def forEachAbs (f : α → Int) : List α → Int → Int
  | [], n => n
  | d :: rest, n => if f d < 0 then -(n + 1) else forEachAbs f rest (n + 1)

theorem forEachLoop_spec {l : LList α} {ns : List Nat} {items : List α} (h : Chain l ns items) (f : α → Int) :
    ∀ (fuel k : Nat) (n : Int), k ≤ ns.length → ns.length - k < fuel →
      forEachLoop l f fuel ns[k]? n = some (forEachAbs f (items.drop k) n) := by
  intro fuel
  induction fuel with
  | zero => intro k _ _ h2; omega
  | succ fuel ih =>
    intro k n hk hfuel
    by_cases hlt : k < ns.length
    · obtain ⟨m, hm⟩ : ∃ m, ns[k]? = some m := ⟨ns[k]'hlt, by simp⟩
      have hlt' : k < items.length := by rw [h.len]; exact hlt
      have hd : items[k]? = some items[k] := by simp [List.getElem?_eq_getElem hlt']
      rw [hm]
      simp only [forEachLoop, h.cell k m hm, hd]
      rw [List.drop_eq_getElem_cons hlt']
      simp only [forEachAbs]
      split
      · rfl
      · exact ih (k + 1) (n + 1) (by omega) (by omega)
    · have e : k = ns.length := by omega
      subst e
      have : items.drop ns.length = [] := List.drop_eq_nil_of_le (by rw [h.len]; exact Nat.le_refl _)
      simp [forEachLoop, this, forEachAbs]

theorem forEach_abs {l : LList α} {ns : List Nat} {a : Abs α} (h : RepA l ns a) (f : α → Int) :
    forEach l f = some (forEachAbs f a.items 0) := by
  have := forEachLoop_spec h.rep.toChain f (l.cells.size + 1) 0 0 (Nat.zero_le _) (by have := h.rep.toChain.length_le; omega)
  simpa [forEach, h.rep.head] using this

/-! ## `list_destroy` -/

theorem destroyLoop_spec {ns : List Nat} {items : List α} :
    ∀ (fuel k : Nat) (l : LList α) (del : List α), Chain l ns items → k ≤ ns.length → ns.length - k < fuel →
      destroyLoop fuel l ns[k]? del =
        some (del ++ (if l.fdel then items.drop k else []), { l with free := (ns.drop k).reverse ++ l.free }) := by
  intro fuel
  induction fuel with
  | zero => intro k _ _ _ _ h2; omega
  | succ fuel ih =>
    intro k l del h hk hfuel
    by_cases hlt : k < ns.length
    · obtain ⟨m, hm⟩ : ∃ m, ns[k]? = some m := ⟨ns[k]'hlt, by simp⟩
      have hmk : ns[k] = m := by simpa [List.getElem?_eq_getElem hlt] using hm
      have hlt' : k < items.length := by rw [h.len]; exact hlt
      have hd : items[k]? = some items[k] := by simp [List.getElem?_eq_getElem hlt']
      rw [hm]
      simp only [destroyLoop, h.cell k m hm, hd]
      rw [ih (k + 1) (nodeFree l m) _ (h.congr rfl rfl) (by omega) (by omega)]
      rw [List.drop_eq_getElem_cons hlt', List.drop_eq_getElem_cons hlt, hmk]
      cases hfd : l.fdel <;> simp [nodeFree, hfd]
    · have e : k = ns.length := by omega
      subst e
      have h1 : items.drop ns.length = [] := List.drop_eq_nil_of_le (by rw [h.len]; exact Nat.le_refl _)
      simp [destroyLoop, h1]

/-- the node memory is consistent: the free cells are distinct and exist -/
def HeapOk (h : Heap α) : Prop := h.free.Nodup ∧ ∀ p ∈ h.free, p < h.cells.size

theorem create_rep (h : Heap α) (fdel : Bool) (ho : HeapOk h) : Rep (create h fdel) [] [] := by
  refine ⟨⟨rfl, rfl, by simp, by intro a b n ha; simp at ha⟩, rfl, rfl, ho.1, ?_, by simp [create], by simp [create]⟩
  intro p hp; exact ⟨ho.2 p hp, by simp⟩

theorem destroy_spec {l : LList α} {ns : List Nat} {items : List α} (h : Rep l ns items) :
    ∃ hp, destroy l = some (if l.fdel then items else [], hp) ∧ HeapOk hp := by
  have := destroyLoop_spec (l.cells.size + 1) 0 l [] h.toChain (Nat.zero_le _) (by have := h.toChain.length_le; omega)
  rw [← h.head] at this
  refine ⟨_, by simp [destroy, this]; rfl, ?_, ?_⟩
  · show (((List.drop 0 ns).reverse ++ l.free).Nodup)
    rw [List.drop_zero, List.nodup_append]
    refine ⟨(List.reverse_perm ns).nodup_iff.mpr h.inj.nodup, h.freeNodup, ?_⟩
    intro a ha b hb e
    subst e
    obtain ⟨k, hk, rfl⟩ := List.getElem_of_mem (List.mem_reverse.mp ha)
    exact (h.freeOk _ hb).2 k (by simp [List.getElem?_eq_getElem hk])
  · intro p hp
    have hp : p ∈ (List.drop 0 ns).reverse ++ l.free := hp
    simp only [List.drop_zero, List.mem_append, List.mem_reverse] at hp
    rcases hp with hp | hp
    · obtain ⟨k, hk, rfl⟩ := List.getElem_of_mem hp
      exact h.toChain.lt_size k _ (by simp [List.getElem?_eq_getElem hk])
    · exact (h.freeOk p hp).1

/-! ## `list_delete_all` -/

/-- `list_delete_all` on the list with cursors: walk the gaps from `k`; a matching item is removed (`destroyAt`, which
    moves the cursors), a non-matching one is stepped over -/
def Abs.deleteAllFrom (f : α → Bool) : Nat → Abs α → Nat → Nat → List α → Option (Nat × List α × Abs α)
  | 0, _, _, _, _ => none
  | fuel + 1, a, k, n, del =>
    match a.items[k]? with
    | none => some (n, del, a)
    | some d =>
      if f d then Abs.deleteAllFrom f fuel (a.destroyAt k) k (n + 1) (if a.fdel then del ++ [d] else del)
      else Abs.deleteAllFrom f fuel a (k + 1) n del

def Abs.deleteAll (a : Abs α) (f : α → Bool) : Option (Nat × List α × Abs α) :=
  Abs.deleteAllFrom f (a.items.length + 1) a 0 0 []

theorem deleteAllLoop_abs (f : α → Bool) :
    ∀ (fuel : Nat) (l : LList α) (ns : List Nat) (a : Abs α) (k n : Nat) (del : List α), RepA l ns a → k ≤ ns.length →
      (Abs.deleteAllFrom f fuel a k n del = none → deleteAllLoop f fuel l (fieldAt ns k) n del = none) ∧
      (∀ (r : Nat × List α) (a' : Abs α), Abs.deleteAllFrom f fuel a k n del = some (r.1, r.2, a') →
        ∃ l' ns', deleteAllLoop f fuel l (fieldAt ns k) n del = some (r.1, r.2, l') ∧ RepA l' ns' a') := by
  intro fuel
  induction fuel with
  | zero => intro l ns a k n del _ _; simp [Abs.deleteAllFrom, deleteAllLoop]
  | succ fuel ih =>
    intro l ns a k n del h hk
    have hload := h.rep.toChain.load k hk
    by_cases hlt : k < ns.length
    · obtain ⟨m, hm⟩ : ∃ m, ns[k]? = some m := ⟨ns[k]'hlt, by simp⟩
      have hlt' : k < a.items.length := by rw [h.len]; exact hlt
      have hd : a.items[k]? = some a.items[k] := by simp [List.getElem?_eq_getElem hlt']
      have hdo : dataOf l m = some a.items[k] := by rw [h.rep.toChain.dataOf k m hm, hd]
      simp only [Abs.deleteAllFrom, deleteAllLoop, hload, hm, hd, hdo]
      by_cases hf : f a.items[k] = true
      · simp only [hf, if_true]
        obtain ⟨l', e, hr⟩ := nodeDestroy_abs h k m hm
        rw [hd] at e
        simp only [e]
        have hfe : fieldAt (ns.eraseIdx k) k = fieldAt ns k := by simp [fieldAt_eraseIdx]
        have hlen : (ns.eraseIdx k).length = ns.length - 1 := by simp [List.length_eraseIdx, hlt]
        have := ih l' (ns.eraseIdx k) (a.destroyAt k) k (n + 1) (if a.fdel then del ++ [a.items[k]] else del) hr (by omega)
        rw [hfe] at this
        rw [← h.fdel]
        exact this
      · have hf' : f a.items[k] = false := by simpa using hf
        simp only [hf', Bool.false_eq_true, if_false]
        have := ih l ns a (k + 1) n del h (by omega)
        rw [fieldAt_succ ns k m hm] at this
        exact this
    · have e : k = ns.length := by omega
      subst e
      have h1 : ns[ns.length]? = none := List.getElem?_eq_none (Nat.le_refl _)
      have h2 : a.items[ns.length]? = none := List.getElem?_eq_none (by rw [h.len]; exact Nat.le_refl _)
      simp only [Abs.deleteAllFrom, deleteAllLoop, hload, h1, h2]
      refine ⟨by simp, ?_⟩
      intro r a' e
      simp only [Option.some.injEq, Prod.mk.injEq] at e
      obtain ⟨e1, e2, e3⟩ := e
      subst e3
      exact ⟨l, ns, by rw [← e1, ← e2], h⟩

/-- with the fuel `list_delete_all` is given, the walk on the list with cursors ends -/
theorem Abs.deleteAllFrom_some (f : α → Bool) :
    ∀ (fuel : Nat) (a : Abs α) (k n : Nat) (del : List α), a.items.length - k < fuel →
      ∃ r, Abs.deleteAllFrom f fuel a k n del = some r := by
  intro fuel
  induction fuel with
  | zero => intro a k n del h; omega
  | succ fuel ih =>
    intro a k n del h
    simp only [Abs.deleteAllFrom]
    cases hd : a.items[k]? with
    | none => exact ⟨_, rfl⟩
    | some d =>
      have hlt : k < a.items.length := by
        rcases Nat.lt_or_ge k a.items.length with h1 | h1
        · exact h1
        · simp [List.getElem?_eq_none h1] at hd
      simp only []
      split
      · apply ih
        simp [Abs.destroyAt, List.length_eraseIdx, hlt]; omega
      · apply ih; omega

theorem Abs.deleteAllFrom_mono (f : α → Bool) :
    ∀ (fuel : Nat) (a : Abs α) (k n : Nat) (del : List α) r, Abs.deleteAllFrom f fuel a k n del = some r →
      Abs.deleteAllFrom f (fuel + 1) a k n del = some r := by
  intro fuel
  induction fuel with
  | zero => intro a k n del r h; simp [Abs.deleteAllFrom] at h
  | succ fuel ih =>
    intro a k n del r h
    rw [Abs.deleteAllFrom] at h ⊢
    cases hd : a.items[k]? with
    | none => simpa [hd] using h
    | some d =>
      simp only [hd] at h ⊢
      split
      · rename_i hf; simp only [hf, if_true] at h; exact ih _ _ _ _ _ h
      · rename_i hf; simp only [hf] at h; exact ih _ _ _ _ _ h

theorem Abs.deleteAllFrom_le (f : α → Bool) (f1 f2 : Nat) (hle : f1 ≤ f2) (a : Abs α) (k n : Nat) (del : List α) r
    (h : Abs.deleteAllFrom f f1 a k n del = some r) : Abs.deleteAllFrom f f2 a k n del = some r := by
  induction hle with
  | refl => exact h
  | step _ ih => exact Abs.deleteAllFrom_mono f _ a k n del r ih

theorem deleteAll_abs {l : LList α} {ns : List Nat} {a : Abs α} (h : RepA l ns a) (f : α → Bool) :
    ∃ (l' : LList α) (ns' : List Nat) (r : Nat × List α) (a' : Abs α),
      deleteAll l f = some (r.1, r.2, l') ∧ a.deleteAll f = some (r.1, r.2, a') ∧ RepA l' ns' a' := by
  have hle : a.items.length + 1 ≤ l.cells.size + 1 := by
    have := h.rep.toChain.length_le; have := h.len; omega
  obtain ⟨⟨n, del, a'⟩, hr⟩ := Abs.deleteAllFrom_some f (a.items.length + 1) a 0 0 [] (by omega)
  have hr2 := Abs.deleteAllFrom_le f _ _ hle a 0 0 [] _ hr
  obtain ⟨l', ns', e, hrep⟩ := (deleteAllLoop_abs f (l.cells.size + 1) l ns a 0 0 [] h (Nat.zero_le _)).2 (n, del) a' hr2
  exact ⟨l', ns', (n, del), a', e, hr, hrep⟩

/-! ## `list_find` -/

/-- `list_find` on the list with cursors: `list_next` until the callback accepts an item or the end is reached -/
def Abs.find (f : α → Bool) : Nat → Abs α → Nat → Option (Option α × Abs α)
  | 0, _, _ => none
  | fuel + 1, a, k =>
    match a.next k with
    | none => none
    | some (none, a') => some (none, a')
    | some (some v, a') => if f v then some (some v, a') else Abs.find f fuel a' k

theorem lookup_map_set {β : Type} (k : Nat) (v : β) : ∀ (l : List (Nat × β)), (l.lookup k).isSome →
    (l.map (fun kc => if kc.1 = k then (k, v) else kc)).lookup k = some v := by
  intro l
  induction l with
  | nil => simp
  | cons a rest ih =>
    obtain ⟨k', v'⟩ := a
    simp only [List.map_cons, List.lookup_cons]
    by_cases e : k = k'
    · subst e; simp
    · have e1 : (k == k') = false := by simpa using e
      have e2 : ¬ k' = k := fun h => e h.symm
      simp only [e1, e2, if_false, List.lookup_cons]
      exact ih

theorem Abs.curOf_setCur (a : Abs α) (k : Nat) (c : Nat × Bool) (h : (a.curOf k).isSome) : (a.setCur k c).curOf k = some c := by
  unfold Abs.curOf Abs.setCur
  exact lookup_map_set k c a.curs h

theorem Abs.next_curOf (a : Abs α) (k : Nat) (r : Option α) (a' : Abs α) (h : a.next k = some (r, a')) : (a'.curOf k).isSome := by
  unfold Abs.next at h
  cases hc : a.curOf k with
  | none => simp [hc] at h
  | some c =>
    simp only [hc, Option.map_some, Option.some.injEq, Prod.mk.injEq] at h
    rw [← h.2, Abs.curOf_setCur a k _ (by simp [hc])]; rfl

theorem find_abs (f : α → Bool) :
    ∀ (fuel : Nat) (l : LList α) (ns : List Nat) (a : Abs α) (k : Nat), RepA l ns a → (iterOf l k).isSome →
      (Abs.find f fuel a k = none → find f fuel l k = none) ∧
      (∀ r a', Abs.find f fuel a k = some (r, a') → ∃ l', find f fuel l k = some (r, l') ∧ RepA l' ns a') := by
  intro fuel
  induction fuel with
  | zero => intro l ns a k _ _; simp [Abs.find, find]
  | succ fuel ih =>
    intro l ns a k h hk
    obtain ⟨i, hi⟩ := Option.isSome_iff_exists.mp hk
    obtain ⟨l', r, a', e1, e2, hr⟩ := next_abs h k i hi
    have hk' : (iterOf l' k).isSome := by
      have := Abs.next_curOf a k r a' e2
      rw [hr.curOf] at this
      simpa using this
    simp only [Abs.find, find, e1, e2]
    cases r with
    | none =>
      refine ⟨by simp, ?_⟩
      intro r0 a0 e
      simp only [Option.some.injEq, Prod.mk.injEq] at e
      rw [← e.1, ← e.2]; exact ⟨l', rfl, hr⟩
    | some v =>
      simp only []
      by_cases hf : f v = true
      · simp only [hf, if_true]
        refine ⟨by simp, ?_⟩
        intro r0 a0 e
        simp only [Option.some.injEq, Prod.mk.injEq] at e
        rw [← e.1, ← e.2]; exact ⟨l', rfl, hr⟩
      · simp only [hf]
        exact ih l' ns a' k hr hk'

theorem Abs.find_mono (f : α → Bool) :
    ∀ (fuel : Nat) (a : Abs α) (k : Nat) r, Abs.find f fuel a k = some r → Abs.find f (fuel + 1) a k = some r := by
  intro fuel
  induction fuel with
  | zero => intro a k r h; simp [Abs.find] at h
  | succ fuel ih =>
    intro a k r h
    rw [Abs.find] at h ⊢
    cases hn : a.next k with
    | none => simp [hn] at h
    | some x =>
      obtain ⟨v, a'⟩ := x
      cases v with
      | none => simpa [hn] using h
      | some v =>
        simp only [hn] at h ⊢
        split
        · rename_i hf; simpa [hf] using h
        · rename_i hf; simp only [hf] at h; exact ih _ _ _ h

theorem Abs.find_le (f : α → Bool) (f1 f2 : Nat) (hle : f1 ≤ f2) (a : Abs α) (k : Nat) r
    (h : Abs.find f f1 a k = some r) : Abs.find f f2 a k = some r := by
  induction hle with
  | refl => exact h
  | step _ ih => exact Abs.find_mono f _ a k r ih

theorem Abs.find_some (f : α → Bool) :
    ∀ (fuel : Nat) (a : Abs α) (k : Nat) (j : Nat) (g : Bool), a.curOf k = some (j, g) →
      a.items.length - (j + g.toNat) < fuel → ∃ r, Abs.find f fuel a k = some r := by
  intro fuel
  induction fuel with
  | zero => intro a k j g _ h; omega
  | succ fuel ih =>
    intro a k j g hc hfuel
    simp only [Abs.find, Abs.next, hc, Option.map_some]
    cases hv : a.items[j + g.toNat]? with
    | none => exact ⟨_, rfl⟩
    | some v =>
      have hlt : j + g.toNat < a.items.length := by
        rcases Nat.lt_or_ge (j + g.toNat) a.items.length with h1 | h1
        · exact h1
        · simp [List.getElem?_eq_none h1] at hv
      simp only []
      split
      · exact ⟨_, rfl⟩
      · apply ih _ k (if g then j + 1 else j) (decide (j + g.toNat < a.items.length))
        · exact Abs.curOf_setCur a k _ (by simp [hc])
        · have hd : decide (j + g.toNat < a.items.length) = true := by simpa using hlt
          simp only [hd, Abs.setCur]
          cases g <;> simp at hlt hfuel ⊢ <;> omega

/-- `list_find` with the fuel it needs -/
def Abs.findOp (a : Abs α) (k : Nat) (f : α → Bool) : Option (Option α × Abs α) := Abs.find f (a.items.length + 2) a k

theorem findOp_abs {l : LList α} {ns : List Nat} {a : Abs α} (h : RepA l ns a) (k : Nat) (f : α → Bool) (hk : (iterOf l k).isSome) :
    ∃ l' r a', find f (l.cells.size + 2) l k = some (r, l') ∧ a.findOp k f = some (r, a') ∧ RepA l' ns a' := by
  obtain ⟨i, hi⟩ := Option.isSome_iff_exists.mp hk
  have hc : a.curOf k = some (cur ns i) := by rw [h.curOf, hi]; rfl
  obtain ⟨⟨r, a'⟩, hr⟩ := Abs.find_some f (a.items.length + 2) a k _ _ hc (by omega)
  have hle : a.items.length + 2 ≤ l.cells.size + 2 := by
    have := h.rep.toChain.length_le; have := h.len; omega
  have hr2 := Abs.find_le f _ _ hle a k _ hr
  obtain ⟨l', e, hrep⟩ := (find_abs f (l.cells.size + 2) l ns a k h hk).2 r a' hr2
  exact ⟨l', r, a', e, hr, hrep⟩
end Pm.LsdList
