import Pm.RunX
import Pm.TwoRunGone
/-! # The run theorems of C11 for runs that carry regex answers (`runX`)

`Pm/IsolationProof.lean` (`runPasses_iso`), `Pm/TwoRunC11.lean` (`runs_stuck`,
`backpressure`, `replyPass`) and `Pm/TwoRunGone.lean` (`runs_gone`, `vanish`, `stuck_then_gone`) state their run-level theorems
over `runPasses`, the plain fold of `daemonPass`, in which only the first pass can see a regex answer (`Pm/RunX.lean`).  Here
they are proved for `runX`: every pass brings its own answers, **the same in both runs** (`StuckX.1`, `GoneX.1`: `q'.rx = q.rx`).
Nothing new is needed about one pass: `daemonPass_stuck` and `daemonPass_gone` hold for arbitrary related worlds, and the
relations `ARel`, `BRel` (which contain `pendingX` in their `core`) are kept when the same answers are fed to both worlds.

The per-pass hypotheses along two runs are `AlongX H w w' pp` of `Pm/RunX.lean`, with `H := StuckX fs` resp. `GoneX fs`.
`*_plain` lemmas: the `runPasses` hypotheses are the special case of passes that bring no answer. -/
namespace Pm.Daemon.TwoRun
open Pm Pm.Client Pm.Daemon Pm.Daemon.Isolation
open Pm.Dev2 (Dev Oracle RxCall)

/-! ### one run: the id / arglist disciplines -/

theorem feed_ids {w : W} (rx : List RxCall) (h : IdsFresh w) : IdsFresh (feed w rx) := h.congr rfl rfl rfl
theorem feed_iso {w : W} (rx : List RxCall) (h : Iso w) : Iso (feed w rx) := ⟨h.1.congr rfl rfl rfl, h.2.congr rfl rfl rfl⟩

/-- **the id discipline over a run, whatever the regex engine answers in every pass** -/
theorem runX_ids (w : W) (qs : List PassX) (h : IdsFresh w) : IdsFresh (runX w qs) :=
  runX_inv_of IdsFresh (fun _ rx h => feed_ids rx h) daemonPass_ids w qs h

/-- **the id and arglist disciplines over a run, whatever the regex engine answers in every pass** -/
theorem runX_iso (w : W) (qs : List PassX) (h : Iso w) : Iso (runX w qs) :=
  runX_inv_of Iso (fun _ rx h => feed_iso rx h) daemonPass_iso w qs h

/-- a run whose passes bring no regex answer is `Isolation.runPasses` -/
theorem runX_runPasses (w : W) (ps : List PassIn) : runX w (ps.map PassX.plain) = runPasses w ps := runX_plain w ps

/-! ### the relations are kept when the same answers are fed to both worlds -/

theorem coreOf_feed (w : W) (rx : List RxCall) : coreOf (feed w rx) = feed (coreOf w) rx := rfl

theorem ARel.feed {s fs : Nat} {w w' : W} (h : ARel s fs w w') (rx : List RxCall) : ARel s fs (feed w rx) (feed w' rx) :=
  ⟨by rw [coreOf_feed, coreOf_feed, h.core], h.tab, h.sfd, h.fresh, h.sys⟩

theorem BRel.feed {fs : Nat} {w w' : W} (h : BRel fs w w') (rx : List RxCall) : BRel fs (feed w rx) (feed w' rx) :=
  ⟨by rw [coreOf_feed, coreOf_feed, h.core], h.tab, h.fresh, h.sys⟩

/-! ### back-pressure: the client on `fs` stops reading -/

/-- what is assumed of one pair of passes of the two runs: the same regex answers; `StuckPass` for the kernel's answers (stated
    on the world of the first run; the second world plays no role) -/
def StuckX (fs : Nat) : W → W → PassX → PassX → Prop := fun w _ q q' => q'.rx = q.rx ∧ StuckPass fs w q.p q'.p

theorem StuckPass.feed {fs : Nat} {w : W} {p p' : PassIn} (h : StuckPass fs w p p') (rx : List RxCall) : StuckPass fs (feed w rx) p p' :=
  ⟨h.now, h.acc, h.con, h.soe, h.others, h.stuck, h.devfd⟩

/-- **one whole pass of the two runs keeps the relation**, and every device does the same in both (the worlds the device phases
    start from are the worlds with the answers handed over) -/
theorem stepX_stuck (s fs : Nat) (w w' : W) (q q' : PassX) (hr : ARel s fs w w') (hi : IdsFresh w) (hp : StuckX fs w w' q q') :
    ARel s fs (stepX w q) (stepX w' q') ∧ passSteps (feed w' q'.rx) q'.p = passSteps (feed w q.rx) q.p := by
  obtain ⟨hrx, hp⟩ := hp
  unfold stepX
  rw [hrx]
  exact daemonPass_stuck s fs _ _ q.p q'.p (hr.feed q.rx) (feed_ids q.rx hi) (hp.feed q.rx)

/-- **any number of passes** -/
theorem runs_stuckX (s fs : Nat) (pp : List (PassX × PassX)) (w w' : W) (hr : ARel s fs w w') (hi : Iso w)
    (hs : AlongX (StuckX fs) w w' pp) : ARel s fs (runX w (pp.map (·.1))) (runX w' (pp.map (·.2))) :=
  (runX_rel (fun w w' => ARel s fs w w' ∧ Iso w) (StuckX fs)
    (fun w w' q q' h hp => ⟨(stepX_stuck s fs w w' q q' h.1 h.2.1 hp).1, daemonPass_iso _ _ (feed_iso q.rx h.2)⟩)
    pp w w' ⟨hr, hi⟩ hs).1

/-- **two runs from the same world**, `n` passes into them -/
theorem backpressureX (s fs : Nat) (w : W) (pp : List (PassX × PassX)) (hi : Iso w)
    (h1 : ∀ c ∈ w.clients, c.fd = fs → c.id = s) (h2 : fs < 1000 + w.nacc) (hs : AlongX (StuckX fs) w w pp) (n : Nat) :
    ARel s fs (runX w ((pp.take n).map (·.1))) (runX w ((pp.take n).map (·.2))) ∧
    ∀ x, pp[n]? = some x →
      passSteps (feed (runX w ((pp.take n).map (·.2))) x.2.rx) x.2.p = passSteps (feed (runX w ((pp.take n).map (·.1))) x.1.rx) x.1.p := by
  have hr := runs_stuckX s fs (pp.take n) w w (ARel.init s fs w h1 h2) hi (hs.take pp n w w)
  refine ⟨hr, fun x hx => ?_⟩
  exact (stepX_stuck s fs _ _ x.1 x.2 hr (runX_iso w _ hi).1 (hs.nth pp n w w x hx)).2

/-- where the model is faithful to the code for a run with a client that does not read (`Faithful` for `runX`) -/
structure FaithfulX (s fs : Nat) (w : W) (qs : List PassX) : Prop where
  noBlock : ∀ n, ∀ x ∈ (runX w (qs.take n)).sys, blocksOn fs x = false
  below : ∀ n c, cliRec (runX w (qs.take n)) s = some c → c.toBuf.length ≤ cliBufMax

/-- the index of the first pass in which client `g`'s command in progress is completed (`replyPass` for `runX`) -/
def replyPassRunX (w : W) (qs : List PassX) (g : Nat) : Option Nat :=
  (List.range qs.length).find? fun n =>
    ((cliRec (runX w (qs.take n)) g).bind (·.cmd)).isSome &&
    (match cliRec (runX w (qs.take (n + 1))) g with | some c => c.cmd.isNone | none => false)

theorem replyPassRunX_congr (w w' : W) (qs qs' : List PassX) (g : Nat) (hl : qs'.length = qs.length)
    (h : ∀ n, cliRec (runX w' (qs'.take n)) g = cliRec (runX w (qs.take n)) g) : replyPassRunX w' qs' g = replyPassRunX w qs g := by
  unfold replyPassRunX
  rw [hl]
  congr 1
  funext n
  rw [h n, h (n + 1)]

/-- the pass in which `fs` is not reported writable; the regex answers are the same -/
def stuckInX (fs : Nat) (q : PassX) : PassX := { q with p := stuckIn fs q.p }

/-- the hypotheses along the first run: the reader behaves, no device sits on the number `fs` (`ReaderRun` for `runX`) -/
def ReaderRunX (fs : Nat) : W → List PassX → Prop
  | _, [] => True
  | w, q :: r => (ReaderOK fs q.p ∧ ∀ nd ∈ w.devs, nd.2.fd ≠ some fs) ∧ ReaderRunX fs (stepX w q) r

theorem stuckRunX_of (fs : Nat) : ∀ (qs : List PassX) (w w' : W), ReaderRunX fs w qs →
    AlongX (StuckX fs) w w' (qs.map fun q => (q, stuckInX fs q)) := by
  intro qs
  induction qs with
  | nil => intro w w' _; trivial
  | cons q r ih => intro w w' h; exact ⟨⟨rfl, stuckPass_of fs w q.p h.1.1 h.1.2⟩, ih _ _ h.2⟩

/-- **back-pressure, two runs, regex answers arbitrary per pass and the same in both runs**: the statement of `C11_backpressure` -/
theorem backpressure_stuckInX (s fs : Nat) (w : W) (qs : List PassX) (hi : Iso w)
    (hs : ∀ c ∈ w.clients, c.fd = fs → c.id = s) (hf : fs < 1000 + w.nacc) (hrun : ReaderRunX fs w qs) (n : Nat) :
    (∀ g, g ≠ s → cliRec (runX w ((qs.take n).map (stuckInX fs))) g = cliRec (runX w (qs.take n)) g) ∧
    (∀ fd, fd ≠ fs → ClientPf.written (runX w ((qs.take n).map (stuckInX fs))).sys fd = ClientPf.written (runX w (qs.take n)).sys fd) ∧
    ((runX w ((qs.take n).map (stuckInX fs))).devs = (runX w (qs.take n)).devs ∧
     (runX w ((qs.take n).map (stuckInX fs))).store = (runX w (qs.take n)).store ∧
     ids (runX w ((qs.take n).map (stuckInX fs))) = ids (runX w (qs.take n)) ∧
     (runX w ((qs.take n).map (stuckInX fs))).exited = (runX w (qs.take n)).exited) ∧
    (∀ q, qs[n]? = some q →
      passSteps (feed (runX w ((qs.take n).map (stuckInX fs))) q.rx) (stuckIn fs q.p) = passSteps (feed (runX w (qs.take n)) q.rx) q.p ∧
      callbacksFor s (passSteps (feed (runX w ((qs.take n).map (stuckInX fs))) q.rx) (stuckIn fs q.p)) =
        callbacksFor s (passSteps (feed (runX w (qs.take n)) q.rx) q.p)) := by
  have e1 : ((qs.map fun q => (q, stuckInX fs q)).take n).map (·.1) = qs.take n := by
    rw [← List.map_take, List.map_map]
    have : ((fun x : PassX × PassX => x.1) ∘ fun q => (q, stuckInX fs q)) = id := rfl
    rw [this, List.map_id]
  have e2 : ((qs.map fun q => (q, stuckInX fs q)).take n).map (·.2) = (qs.take n).map (stuckInX fs) := by
    rw [← List.map_take, List.map_map]; rfl
  obtain ⟨hr, hst⟩ := backpressureX s fs w (qs.map fun q => (q, stuckInX fs q)) hi hs hf (stuckRunX_of fs qs w w hrun) n
  rw [e1, e2] at hr hst
  obtain ⟨o1, o2, o3, o4, _, o6, o7⟩ := hr.others
  refine ⟨o1, o2, ⟨o3, o4, o7, o6⟩, fun q hq => ?_⟩
  have : passSteps (feed (runX w ((qs.take n).map (stuckInX fs))) q.rx) (stuckIn fs q.p) = passSteps (feed (runX w (qs.take n)) q.rx) q.p :=
    hst (q, stuckInX fs q) (by rw [List.getElem?_map, hq]; rfl)
  exact ⟨this, by rw [this]⟩

/-! ### the client on `fs` vanishes -/

/-- what is assumed of one pair of passes of the two runs: the same regex answers; `GonePass` on the two worlds with the
    answers handed over (its clauses `alive`, `alive'` speak of the device phases, which consume the answers) -/
def GoneX (fs : Nat) : W → W → PassX → PassX → Prop :=
  fun w w' q q' => q'.rx = q.rx ∧ GonePass fs (feed w q.rx) (feed w' q'.rx) q.p q'.p

theorem stepX_gone (fs : Nat) (w w' : W) (q q' : PassX) (hr : BRel fs w w') (hp : GoneX fs w w' q q') :
    BRel fs (stepX w q) (stepX w' q') ∧ passSteps (feed w' q'.rx) q'.p = passSteps (feed w q.rx) q.p := by
  obtain ⟨hrx, hp⟩ := hp
  unfold stepX
  rw [hrx] at hp ⊢
  exact daemonPass_gone fs _ _ q.p q'.p (hr.feed q.rx) hp

/-- **any number of passes** -/
theorem runs_goneX (fs : Nat) (pp : List (PassX × PassX)) (w w' : W) (hr : BRel fs w w') (hs : AlongX (GoneX fs) w w' pp) :
    BRel fs (runX w (pp.map (·.1))) (runX w' (pp.map (·.2))) :=
  runX_rel (BRel fs) (GoneX fs) (fun w w' q q' h hp => (stepX_gone fs w w' q q' h hp).1) pp w w' hr hs

/-- **two runs, `n` passes into them** -/
theorem vanishX (fs : Nat) (w w' : W) (pp : List (PassX × PassX)) (hr : BRel fs w w') (hs : AlongX (GoneX fs) w w' pp) (n : Nat) :
    BRel fs (runX w ((pp.take n).map (·.1))) (runX w' ((pp.take n).map (·.2))) ∧
    ∀ x, pp[n]? = some x →
      passSteps (feed (runX w' ((pp.take n).map (·.2))) x.2.rx) x.2.p = passSteps (feed (runX w ((pp.take n).map (·.1))) x.1.rx) x.1.p := by
  have h := runs_goneX fs (pp.take n) w w' hr (hs.take pp n w w')
  exact ⟨h, fun x hx => (stepX_gone fs _ _ x.1 x.2 h (hs.nth pp n w w' x hx)).2⟩

/-- **a stuck phase followed by a vanishing phase** -/
theorem stuck_then_goneX (s fs : Nat) (w : W) (pp1 pp2 : List (PassX × PassX)) (hi : Iso w)
    (h1 : ∀ c ∈ w.clients, c.fd = fs → c.id = s) (h2 : fs < 1000 + w.nacc) (hs1 : AlongX (StuckX fs) w w pp1)
    (hs2 : AlongX (GoneX fs) (runX w (pp1.map (·.1))) (runX w (pp1.map (·.2))) pp2) (n : Nat) :
    BRel fs (runX w ((pp1 ++ pp2.take n).map (·.1))) (runX w ((pp1 ++ pp2.take n).map (·.2))) := by
  rw [List.map_append, List.map_append, runX_append, runX_append]
  exact (vanishX fs _ _ pp2 (runs_stuckX s fs pp1 w w (ARel.init s fs w h1 h2) hi hs1).toB hs2 n).1

/-! ### the `runPasses` hypotheses are the special case of passes that bring no regex answer -/

/-- a pair of plain passes -/
def plain2 (x : PassIn × PassIn) : PassX × PassX := (.plain x.1, .plain x.2)

theorem map_plain2_fst (pp : List (PassIn × PassIn)) : (pp.map plain2).map (·.1) = (pp.map (·.1)).map PassX.plain := by
  rw [List.map_map, List.map_map]; rfl
theorem map_plain2_snd (pp : List (PassIn × PassIn)) : (pp.map plain2).map (·.2) = (pp.map (·.2)).map PassX.plain := by
  rw [List.map_map, List.map_map]; rfl

theorem stuckRunX_plain (fs : Nat) : ∀ (pp : List (PassIn × PassIn)) (w w' : W), StuckRun fs w pp → AlongX (StuckX fs) w w' (pp.map plain2) := by
  intro pp
  induction pp with
  | nil => intro _ _ _; trivial
  | cons x r ih =>
    intro w w' h
    refine ⟨⟨rfl, h.1⟩, ?_⟩
    have := ih (daemonPass w x.1).1 (stepX w' (plain2 x).2) h.2
    show AlongX (StuckX fs) (stepX w (PassX.plain x.1)) _ _
    rw [stepX_plain]; exact this

theorem goneRunX_plain (fs : Nat) : ∀ (pp : List (PassIn × PassIn)) (w w' : W), GoneRun fs w w' pp → AlongX (GoneX fs) w w' (pp.map plain2) := by
  intro pp
  induction pp with
  | nil => intro _ _ _; trivial
  | cons x r ih =>
    intro w w' h
    refine ⟨⟨rfl, ?_⟩, ?_⟩
    · show GonePass fs (feed w []) (feed w' []) x.1 x.2
      rw [feed_nil, feed_nil]; exact h.1
    · have := ih _ _ h.2
      show AlongX (GoneX fs) (stepX w (PassX.plain x.1)) (stepX w' (PassX.plain x.2)) _
      rw [stepX_plain, stepX_plain]; exact this

theorem readerRunX_plain (fs : Nat) : ∀ (ps : List PassIn) (w : W), ReaderRun fs w ps → ReaderRunX fs w (ps.map PassX.plain) := by
  intro ps
  induction ps with
  | nil => intro _ _; trivial
  | cons p r ih =>
    intro w h
    refine ⟨h.1, ?_⟩
    show ReaderRunX fs (stepX w (PassX.plain p)) _
    rw [stepX_plain]; exact ih _ h.2

/-- `runs_stuck` (over `runPasses`) from `runs_stuckX` -/
theorem runs_stuck_plain (s fs : Nat) (pp : List (PassIn × PassIn)) (w w' : W) (hr : ARel s fs w w') (hi : Iso w) (hs : StuckRun fs w pp) :
    ARel s fs (runPasses w (pp.map (·.1))) (runPasses w' (pp.map (·.2))) := by
  have := runs_stuckX s fs (pp.map plain2) w w' hr hi (stuckRunX_plain fs pp w w' hs)
  rwa [map_plain2_fst, map_plain2_snd, runX_runPasses, runX_runPasses] at this

/-- `runs_gone` (over `runPasses`) from `runs_goneX` -/
theorem runs_gone_plain (fs : Nat) (pp : List (PassIn × PassIn)) (w w' : W) (hr : BRel fs w w') (hs : GoneRun fs w w' pp) :
    BRel fs (runPasses w (pp.map (·.1))) (runPasses w' (pp.map (·.2))) := by
  have := runs_goneX fs (pp.map plain2) w w' hr (goneRunX_plain fs pp w w' hs)
  rwa [map_plain2_fst, map_plain2_snd, runX_runPasses, runX_runPasses] at this

theorem take_plain2 (pp : List (PassIn × PassIn)) (n : Nat) : (pp.map plain2).take n = (pp.take n).map plain2 := by
  rw [List.map_take]

/-- `backpressure` (over `runPasses`) from `backpressureX` -/
theorem backpressure_plain (s fs : Nat) (w : W) (pp : List (PassIn × PassIn)) (hi : Iso w)
    (h1 : ∀ c ∈ w.clients, c.fd = fs → c.id = s) (h2 : fs < 1000 + w.nacc) (hs : StuckRun fs w pp) (n : Nat) :
    ARel s fs (runPasses w ((pp.take n).map (·.1))) (runPasses w ((pp.take n).map (·.2))) ∧
    ∀ x, pp[n]? = some x →
      passSteps (runPasses w ((pp.take n).map (·.2))) x.2 = passSteps (runPasses w ((pp.take n).map (·.1))) x.1 := by
  obtain ⟨a, b⟩ := backpressureX s fs w (pp.map plain2) hi h1 h2 (stuckRunX_plain fs pp w w hs) n
  rw [take_plain2, map_plain2_fst, map_plain2_snd, runX_runPasses, runX_runPasses] at a b
  refine ⟨a, fun x hx => ?_⟩
  have := b (plain2 x) (by rw [List.getElem?_map, hx]; rfl)
  simpa [plain2, PassX.plain, feed_nil] using this

/-- `vanish` (over `runPasses`) from `vanishX` -/
theorem vanish_plain (fs : Nat) (w w' : W) (pp : List (PassIn × PassIn)) (hr : BRel fs w w') (hs : GoneRun fs w w' pp) (n : Nat) :
    BRel fs (runPasses w ((pp.take n).map (·.1))) (runPasses w' ((pp.take n).map (·.2))) ∧
    ∀ x, pp[n]? = some x →
      passSteps (runPasses w' ((pp.take n).map (·.2))) x.2 = passSteps (runPasses w ((pp.take n).map (·.1))) x.1 := by
  obtain ⟨a, b⟩ := vanishX fs w w' (pp.map plain2) hr (goneRunX_plain fs pp w w' hs) n
  rw [take_plain2, map_plain2_fst, map_plain2_snd, runX_runPasses, runX_runPasses] at a b
  refine ⟨a, fun x hx => ?_⟩
  have := b (plain2 x) (by rw [List.getElem?_map, hx]; rfl)
  simpa [plain2, PassX.plain, feed_nil] using this

/-- `stuck_then_gone` (over `runPasses`) from `runs_stuckX` and `vanishX` -/
theorem stuck_then_gone_plain (s fs : Nat) (w : W) (pp1 pp2 : List (PassIn × PassIn)) (hi : Iso w)
    (h1 : ∀ c ∈ w.clients, c.fd = fs → c.id = s) (h2 : fs < 1000 + w.nacc) (hs1 : StuckRun fs w pp1)
    (hs2 : GoneRun fs (runPasses w (pp1.map (·.1))) (runPasses w (pp1.map (·.2))) pp2) (n : Nat) :
    BRel fs (runPasses w ((pp1 ++ pp2.take n).map (·.1))) (runPasses w ((pp1 ++ pp2.take n).map (·.2))) := by
  rw [List.map_append, List.map_append, runPasses_append, runPasses_append]
  exact (vanish_plain fs _ _ pp2 (runs_stuck_plain s fs pp1 w w (ARel.init s fs w h1 h2) hi hs1).toB hs2 n).1

/-- `runPasses_iso` from `runX_iso` -/
theorem runPasses_iso_plain (w : W) (ps : List PassIn) (h : Iso w) : Iso (runPasses w ps) := by
  rw [← runX_runPasses]; exact runX_iso w _ h

end Pm.Daemon.TwoRun

section AxiomChecks
open Pm.Daemon.TwoRun
/-- info: 'Pm.Daemon.TwoRun.backpressureX' depends on axioms: [propext, Classical.choice, Quot.sound] -/
#guard_msgs in #print axioms backpressureX
/-- info: 'Pm.Daemon.TwoRun.backpressure_stuckInX' depends on axioms: [propext, Classical.choice, Quot.sound] -/
#guard_msgs in #print axioms backpressure_stuckInX
/-- info: 'Pm.Daemon.TwoRun.vanishX' depends on axioms: [propext, Classical.choice, Quot.sound] -/
#guard_msgs in #print axioms vanishX
/-- info: 'Pm.Daemon.TwoRun.stuck_then_goneX' depends on axioms: [propext, Classical.choice, Quot.sound] -/
#guard_msgs in #print axioms stuck_then_goneX
/-- info: 'Pm.Daemon.TwoRun.runX_iso' depends on axioms: [propext, Classical.choice, Quot.sound] -/
#guard_msgs in #print axioms runX_iso
/-- info: 'Pm.Daemon.TwoRun.runs_stuck_plain' depends on axioms: [propext, Classical.choice, Quot.sound] -/
#guard_msgs in #print axioms runs_stuck_plain
/-- info: 'Pm.Daemon.TwoRun.runs_gone_plain' depends on axioms: [propext, Classical.choice, Quot.sound] -/
#guard_msgs in #print axioms runs_gone_plain
/-- info: 'Pm.Daemon.TwoRun.backpressure_plain' depends on axioms: [propext, Classical.choice, Quot.sound] -/
#guard_msgs in #print axioms backpressure_plain
/-- info: 'Pm.Daemon.TwoRun.vanish_plain' depends on axioms: [propext, Classical.choice, Quot.sound] -/
#guard_msgs in #print axioms vanish_plain
end AxiomChecks
