import Pm.IsolationProof
/-! Client half of the end-to-end composition for C02 (`Pm/EndToEnd.lean`): what one client's share of `cli_post_poll` does
    to the device queues and to the client's command record — nothing, or exactly one accepted request, whose record
    waits for exactly the actions `dev_enqueue_actions` appended (`Req`; the relation `Isolation.Enq` of C11 says which
    arglist the request gets but not what `pending` is). -/
namespace Pm.Daemon.E2E
open Pm Pm.Client Pm.Daemon
open Pm.Daemon.Enq (installDev installTotal newActs)
open Pm.Dev2 (Dev Action Plug qcount)

/-- what a stage of one client's request processing does to the queues and to the client's command: nothing; or — only
    when the client had no command — one accepted request: every device went through `dev_enqueue_actions`, and the new
    command record carries the request, a clear error flag and `pending` = the number of actions created (positive) -/
def Req (cid : Nat) (devs devs' : List (Bytes × Dev)) (cmd cmd' : Option CmdC) : Prop :=
  (devs' = devs ∧ cmd' = cmd) ∨
  (cmd = none ∧ ∃ (cm : Com) (names : List Name) (tele : Bool) (al : Nat),
    cmd' = some { com := cm, names, error := false, al,
                  pending := installTotal (comIdx cm) (names.map ofChars) cid tele al devs } ∧
    0 < installTotal (comIdx cm) (names.map ofChars) cid tele al devs ∧
    (∀ nd ∈ devs, needsDev nd.2 (names.map ofChars) = true → handles nd.2 (comIdx cm) (names.map ofChars) = true) ∧
    devs' = devs.map (installDev (comIdx cm) (names.map ofChars) cid tele al))

theorem Req.refl (cid : Nat) (devs : List (Bytes × Dev)) (cmd : Option CmdC) : Req cid devs devs cmd cmd := Or.inl ⟨rfl, rfl⟩

theorem Req.trans {cid : Nat} {d1 d2 d3 : List (Bytes × Dev)} {c1 c2 c3 : Option CmdC} (h1 : Req cid d1 d2 c1 c2)
    (h2 : Req cid d2 d3 c2 c3) : Req cid d1 d3 c1 c3 := by
  rcases h1 with ⟨a1, a2⟩ | ⟨hn, cm, names, tele, al, b1, b2, b3, b4⟩
  · subst a1 a2; exact h2
  · rcases h2 with ⟨a1, a2⟩ | ⟨hn', _⟩
    · subst a1 a2; exact Or.inr ⟨hn, cm, names, tele, al, b1, b2, b3, b4⟩
    · rw [b1] at hn'; cases hn'

/-- `install` -/
theorem install_req (w : W) (c : Cli) (com : Com) (names : List Name) (hidle : c.cmd = none) :
    Req c.id w.devs (install w c com names).1.devs c.cmd (install w c com names).2.cmd := by
  rcases Enq.install_cases w c com names with h | ⟨h1, h2, h3, h4⟩
  · rw [h]; exact Or.inl ⟨rfl, rfl⟩
  · exact Or.inr ⟨hidle, com, names, c.telemetry, w.alNext, by rw [h4], h3, h1, h2⟩

/-- one request line -/
theorem parseLine_req (w : W) (c : Cli) (line : Bytes) :
    Req c.id w.devs (parseLine w c line).1.devs c.cmd (parseLine w c line).2.cmd := by
  rcases Enq.parseLine_cases' w c line with ⟨h1, h2⟩ | ⟨com, names, h, hidle, _⟩
  · exact Or.inl ⟨h1, h2⟩
  · rw [h]; exact install_req w c com names hidle

theorem parseLine_id (w : W) (c : Cli) (line : Bytes) : (parseLine w c line).2.id = c.id := by
  obtain ⟨_, h, _⟩ := Isolation.parseLine_iso w c line
  exact h.id

theorem runLines_req : ∀ (ls : List Bytes) (w : W) (c : Cli),
    Req c.id w.devs (ClientPf.runLines w c ls).1.devs c.cmd (ClientPf.runLines w c ls).2.cmd ∧ (ClientPf.runLines w c ls).2.id = c.id := by
  intro ls
  induction ls with
  | nil => intro w c; exact ⟨Req.refl _ _ _, rfl⟩
  | cons l ls ih =>
    intro w c
    unfold ClientPf.runLines
    split
    · exact ⟨Req.refl _ _ _, rfl⟩
    · have h1 := parseLine_req w { c with fromBuf := c.fromBuf.drop l.length } l
      have hid := parseLine_id w { c with fromBuf := c.fromBuf.drop l.length } l
      obtain ⟨h2, hid2⟩ := ih (parseLine w { c with fromBuf := c.fromBuf.drop l.length } l).1
        (parseLine w { c with fromBuf := c.fromBuf.drop l.length } l).2
      rw [hid] at h2
      exact ⟨h1.trans h2, hid2.trans hid⟩

theorem handleInput_req (w : W) (c : Cli) :
    Req c.id w.devs (handleInput w c).1.devs c.cmd (handleInput w c).2.cmd ∧ (handleInput w c).2.id = c.id := by
  rw [ClientPf.handleInput_lines]; exact runLines_req _ w c

theorem handleWrite_id (w : W) (c : Cli) : (handleWrite w c).2.id = c.id := by
  obtain ⟨_, h⟩ := Isolation.handleWrite_iso w c
  exact h.id

theorem cpRead_same (w : W) (c : Cli) (e : Option FdEnv) :
    (ClientPf.cpRead w c e).1.devs = w.devs ∧ (ClientPf.cpRead w c e).2.cmd = c.cmd ∧ (ClientPf.cpRead w c e).2.id = c.id := by
  unfold ClientPf.cpRead
  repeat' split
  all_goals exact ⟨rfl, rfl, rfl⟩

theorem clipC_cmd (c : Cli) (e : Option FdEnv) : (clipC c e).cmd = c.cmd := by
  unfold clipC clipCli; split <;> rfl

/-- **one client's whole share of `cli_post_poll`**, when the client survives it -/
theorem clientPass_req (w : W) (c : Cli) (e : Option FdEnv) (c' : Cli) (h : (clientPass w c e).2 = some c') :
    Req c.id w.devs (clientPass w c e).1.devs c.cmd c'.cmd := by
  rw [ClientPf.clientPass_eq] at h ⊢
  unfold ClientPf.clientPass' at h ⊢
  dsimp only at h ⊢
  split at h
  · simp [ClientPf.cpDead] at h
  · rename_i hdead
    rw [if_neg hdead]
    obtain ⟨g1, g2, g3⟩ : (if (ClientPf.cpRev c e &&& 1 != 0 || ClientPf.cpRev c e &&& 4 != 0) = true then ClientPf.cpRead w (clipC c e) (clipE c e) else (w, c)).1.devs = w.devs ∧
        (if (ClientPf.cpRev c e &&& 1 != 0 || ClientPf.cpRev c e &&& 4 != 0) = true then ClientPf.cpRead w (clipC c e) (clipE c e) else (w, c)).2.cmd = c.cmd ∧
        (if (ClientPf.cpRev c e &&& 1 != 0 || ClientPf.cpRev c e &&& 4 != 0) = true then ClientPf.cpRead w (clipC c e) (clipE c e) else (w, c)).2.id = c.id := by
      split
      · obtain ⟨a1, a2, a3⟩ := cpRead_same w (clipC c e) (clipE c e)
        exact ⟨a1, a2.trans (clipC_cmd c e), a3.trans (by simp)⟩
      · exact ⟨rfl, rfl, rfl⟩
    generalize (if (ClientPf.cpRev c e &&& 1 != 0 || ClientPf.cpRev c e &&& 4 != 0) = true then ClientPf.cpRead w (clipC c e) (clipE c e) else (w, c)) = r1 at *
    obtain ⟨k1, k2, k3⟩ : (if (ClientPf.cpRev c e &&& 2 != 0) = true then handleWrite r1.1 r1.2 else r1).1.devs = w.devs ∧
        (if (ClientPf.cpRev c e &&& 2 != 0) = true then handleWrite r1.1 r1.2 else r1).2.cmd = c.cmd ∧
        (if (ClientPf.cpRev c e &&& 2 != 0) = true then handleWrite r1.1 r1.2 else r1).2.id = c.id := by
      split
      · exact ⟨(Enq.handleWrite_devs _ _).trans g1, (Enq.handleWrite_cmd _ _).trans g2, (handleWrite_id _ _).trans g3⟩
      · exact ⟨g1, g2, g3⟩
    generalize (if (ClientPf.cpRev c e &&& 2 != 0) = true then handleWrite r1.1 r1.2 else r1) = r2 at *
    obtain ⟨hreq, _⟩ := handleInput_req r2.1 r2.2
    rw [k1, k2, k3] at hreq
    have hc' := Isolation.cpTail_some _ c' h
    have hw : (ClientPf.cpTail (handleInput r2.1 r2.2)).1 = (handleInput r2.1 r2.2).1 := by
      unfold ClientPf.cpTail at h ⊢
      split
      · rfl
      · split
        · rename_i hq; rw [if_neg (by assumption), if_pos hq] at h; simp [ClientPf.cpDead] at h
        · rfl
    rw [hw, hc']
    exact hreq

/-! ### counting over all queues -/

/-- the number of actions of client `g` in all queues -/
def totalQ (g : Nat) (devs : List (Bytes × Dev)) : Nat := (devs.map fun nd => qcount g nd.2.acts).sum

@[simp] theorem totalQ_nil (g : Nat) : totalQ g [] = 0 := rfl
@[simp] theorem totalQ_cons (g : Nat) (nd : Bytes × Dev) (r : List (Bytes × Dev)) :
    totalQ g (nd :: r) = qcount g nd.2.acts + totalQ g r := by simp [totalQ]
@[simp] theorem totalQ_append (g : Nat) (l m : List (Bytes × Dev)) : totalQ g (l ++ m) = totalQ g l + totalQ g m := by
  simp [totalQ]

theorem qcount_append (cid : Nat) (l m : List Action) : qcount cid (l ++ m) = qcount cid l + qcount cid m := by
  simp [qcount, List.countP_append]

theorem qcount_all {cid : Nat} {l : List Action} (h : ∀ a ∈ l, a.clientId = cid) : qcount cid l = l.length := by
  unfold qcount
  rw [List.countP_eq_length]
  intro a ha; simpa using h a ha

theorem qcount_none {g : Nat} {l : List Action} (h : ∀ a ∈ l, a.clientId ≠ g) : qcount g l = 0 := by
  unfold qcount
  rw [List.countP_eq_zero]
  intro a ha; simpa using h a ha

theorem qcount_installDev (com : Nat) (bn : List Bytes) (cid : Nat) (tele : Bool) (al : Nat) (nd : Bytes × Dev) (g : Nat) :
    qcount g (installDev com bn cid tele al nd).2.acts =
      qcount g nd.2.acts + (if g = cid then (newActs nd.2.plugs nd.2.scripts com bn cid tele al).length else 0) := by
  rw [(Enq.installDev_spec com bn cid tele al nd).2.2.1, qcount_append]
  congr 1
  split
  · rename_i hg; subst hg
    exact qcount_all fun a ha => (Enq.newActs_kind ha).2.1
  · rename_i hg
    exact qcount_none fun a ha => by rw [(Enq.newActs_kind ha).2.1]; exact fun e => hg e.symm

/-- an accepted request of client `cid` adds `installTotal` actions of `cid` to the queues and none of anybody else -/
theorem totalQ_install (com : Nat) (bn : List Bytes) (cid : Nat) (tele : Bool) (al : Nat) (devs : List (Bytes × Dev)) (g : Nat) :
    totalQ g (devs.map (installDev com bn cid tele al)) =
      totalQ g devs + (if g = cid then installTotal com bn cid tele al devs else 0) := by
  induction devs with
  | nil => simp [installTotal]
  | cons nd r ih =>
    rw [List.map_cons, totalQ_cons, totalQ_cons, ih, qcount_installDev]
    unfold installTotal
    split <;> simp <;> omega

/-! ### coverage -/

open Pm.Daemon.Enq (tgt handles_implemented implemented_eq handles_eq chosenActs singletActs mkAct hasS hasO) in
/-- **coverage**: a device the request involves and that passed the capability check gets, for each of its plugs mapped
    to a named node, an action that commands that plug -/
theorem newActs_covers {d : Dev} {com : Nat} {targets : List Bytes} {cid : Nat} {tele : Bool} {al : Nat}
    (hh : handles d com targets = true) {p : Plug} (hp : p ∈ d.plugs) (ht : tgt targets p = true) :
    ∃ a ∈ newActs d.plugs d.scripts com targets cid tele al, p ∈ a.commanded d := by
  have hpf : p ∈ d.plugs.filter (tgt targets) := List.mem_filter.mpr ⟨hp, ht⟩
  have htp : d.plugs.filter (tgt targets) ≠ [] := List.ne_nil_of_mem hpf
  have himp := handles_implemented hh
  rw [implemented_eq] at himp
  rw [handles_eq] at hh
  unfold newActs
  rw [if_neg (by simp [himp, htp])]
  unfold chosenActs
  have hsing : hasS d.scripts com = true → ∃ a ∈ singletActs d.plugs d.scripts com targets cid tele al, p ∈ a.commanded d := by
    intro hs
    refine ⟨mkAct d.scripts com (some [p]) cid tele al, ?_, by simp [Action.commanded]⟩
    unfold singletActs; rw [if_pos hs]
    exact List.mem_map.mpr ⟨p, hpf, rfl⟩
  cases hs : hasS d.scripts com
  · cases hR : hasO d.scripts (rangedOf com) <;> cases hA : hasO d.scripts (allOf com) <;>
      cases hq : isQuery com <;> cases hall : d.plugs.all (tgt targets) <;>
      simp [hs, hR, hA, hq, hall, Action.commanded] at hh ⊢ <;> first | exact hp | exact ⟨hp, ht⟩
  · split
    · exact hsing hs
    · split
      · exact ⟨_, List.mem_singleton.mpr rfl, by simpa [Action.commanded] using hp⟩
      · split
        · exact ⟨_, List.mem_singleton.mpr rfl, by simpa [Action.commanded] using ⟨hp, ht⟩⟩
        · exact hsing hs

end Pm.Daemon.E2E

section AxiomChecks
open Pm.Daemon.E2E
/-- info: 'Pm.Daemon.E2E.clientPass_req' depends on axioms: [propext, Classical.choice, Quot.sound] -/
#guard_msgs in #print axioms clientPass_req
/-- info: 'Pm.Daemon.E2E.totalQ_install' depends on axioms: [propext, Classical.choice, Quot.sound] -/
#guard_msgs in #print axioms totalQ_install
/-- info: 'Pm.Daemon.E2E.newActs_covers' depends on axioms: [propext, Quot.sound] -/
#guard_msgs in #print axioms newActs_covers
end AxiomChecks
