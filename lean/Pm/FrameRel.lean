import Pm.FrameDev
/-! Helper lemmas for C05, two runs: one device's share of `dev_post_poll` depends on the shared arglist store only
    through the entries of its own nodes.  Two stores that agree on the entries a node predicate `Q` selects — `Q`
    containing all nodes of the device's plugs and of the plugs its actions carry — give the same new device state,
    the same callbacks, the same oracle consumption and the same timeout, and the new stores agree on `Q` again. -/
namespace Pm.Dev2

def withArgs (d : Dev) (s : Store) : Dev := { d with args := s }
def StepR.withArgs (r : StepR) (s : Store) : StepR := { r with dev := Pm.Dev2.withArgs r.dev s }
def CS.withArgs (c : CS) (s : Store) : CS := { c with dev := Pm.Dev2.withArgs c.dev s }

@[simp] theorem withArgs_args (d : Dev) (s : Store) : (withArgs d s).args = s := rfl
@[simp] theorem withArgs_withArgs (d : Dev) (s t : Store) : withArgs (withArgs d s) t = withArgs d t := rfl
@[simp] theorem withArgs_self (d : Dev) : withArgs d d.args = d := rfl

/-- the two stores agree on the entries of `Q`-nodes, in every arglist -/
def SAgree (Q : Bytes → Bool) (s s' : Store) : Prop :=
  ∀ al, (cell s al).filter (fun g => Q g.node) = (cell s' al).filter (fun g => Q g.node)

theorem stmtExpect_wa (d a o pat) (s : Store) : stmtExpect (withArgs d s) a o pat = (stmtExpect d a o pat).withArgs s := by
  unfold stmtExpect StepR.withArgs withArgs
  dsimp only
  split
  · rfl
  · generalize askRx o pat _ = q
    obtain ⟨o1, ans, errs⟩ := q
    cases ans <;> rfl

theorem stmtSend_wa (d a o e fmt) (s : Store) : stmtSend (withArgs d s) a o e fmt = (stmtSend d a o e fmt).withArgs s := by
  unfold stmtSend StepR.withArgs withArgs
  dsimp only
  repeat' split
  all_goals first | rfl | simp_all

theorem stmtDelay_wa (d a o e now us) (s : Store) : stmtDelay (withArgs d s) a o e now us = (stmtDelay d a o e now us).withArgs s := by
  unfold stmtDelay StepR.withArgs withArgs
  dsimp only
  repeat' split
  all_goals first | rfl | simp_all

theorem stmtForeach_wa (d a o e b n) (s : Store) : stmtForeach (withArgs d s) a o e b n = (stmtForeach d a o e b n).withArgs s := by
  unfold stmtForeach StepR.withArgs withArgs
  dsimp only
  repeat' split
  all_goals first | rfl | simp_all

theorem find?_filter_of_imp {α} (p q : α → Bool) (h : ∀ x, p x = true → q x = true) (l : List α) :
    (l.filter q).find? p = l.find? p := by
  induction l with
  | nil => rfl
  | cons x r ih =>
    by_cases hq : q x = true
    · simp [List.filter_cons, hq, List.find?_cons, ih]
    · have hp : p x = false := by
        cases hpx : p x with
        | false => rfl
        | true => exact absurd (h x hpx) hq
      simp [List.filter_cons, hq, List.find?_cons, hp, ih]

theorem any_filter_of_imp {α} (p q : α → Bool) (h : ∀ x, p x = true → q x = true) (l : List α) :
    (l.filter q).any p = l.any p := by
  induction l with
  | nil => rfl
  | cons x r ih =>
    by_cases hq : q x = true
    · simp [List.filter_cons, hq, ih]
    · have hp : p x = false := by
        cases hpx : p x with
        | false => rfl
        | true => exact absurd (h x hpx) hq
      simp [List.filter_cons, hq, hp, ih]

theorem SAgree.find {Q : Bytes → Bool} {s s' : Store} (h : SAgree Q s s') (al : Nat) (n : Bytes) (hn : Q n = true) :
    (cell s al).find? (fun g => g.node == n) = (cell s' al).find? (fun g => g.node == n) := by
  have hi : ∀ x : Arg, (x.node == n) = true → Q x.node = true := by
    intro x hx; have : x.node = n := by simpa using hx
    rw [this]; exact hn
  rw [← find?_filter_of_imp _ (fun g => Q g.node) hi, ← find?_filter_of_imp _ (fun g => Q g.node) hi (cell s' al), h al]

theorem SAgree.any {Q : Bytes → Bool} {s s' : Store} (h : SAgree Q s s') (al : Nat) (n : Bytes) (hn : Q n = true) :
    (cell s al).any (fun g => g.node == n) = (cell s' al).any (fun g => g.node == n) := by
  have hi : ∀ x : Arg, (x.node == n) = true → Q x.node = true := by
    intro x hx; have : x.node = n := by simpa using hx
    rw [this]; exact hn
  rw [← any_filter_of_imp _ (fun g => Q g.node) hi, ← any_filter_of_imp _ (fun g => Q g.node) hi (cell s' al), h al]

/-- the plug state `_process_ifonoff` looks at -/
def ifState (d : Dev) (a : Action) (e : ExecCtx) : PState :=
  match e.plugs with
  | some (p :: _) => match p.node with
    | some n => match (getArgs d a.arglist).find? (fun (g : Arg) => g.node == n) with
      | some g => g.state
      | none => PState.unknown
    | none => PState.unknown
  | _ => PState.unknown

def stmtIf' (d : Dev) (a : Action) (o : Oracle) (e : ExecCtx) (body : List Stmt) (wantOn : Bool) (st : PState) : StepR :=
  if e.processing then ⟨d, setTop a { e with processing := false }, o, [], true⟩ else
  if (wantOn && st == .on) || (!wantOn && st == .off) then
    let newCtx : ExecCtx := { block := body, pos := 0, plugs := some (e.plugs.getD []), plugItr := none, plugCopy := none, processing := false }
    ⟨d, { a with exec := newCtx :: { e with processing := true } :: a.exec.drop 1 }, o, [], true⟩
  else if st == .unknown then ⟨d, { a with errnum := .expfail }, o, [], true⟩
  else ⟨d, a, o, [], true⟩

theorem stmtIf_eq (d a o e body wantOn) : stmtIf d a o e body wantOn = stmtIf' d a o e body wantOn (ifState d a e) := rfl

theorem stmtIf'_wa (d a o e b n st) (s : Store) : stmtIf' (withArgs d s) a o e b n st = (stmtIf' d a o e b n st).withArgs s := by
  unfold stmtIf' StepR.withArgs withArgs
  dsimp only
  repeat' split
  all_goals first | rfl | simp_all

/-- the plugs an execution context carries are wired to `Q`-nodes only -/
def CtxOK (Q : Bytes → Bool) (e : ExecCtx) : Prop :=
  (∀ p ∈ e.plugs.getD [], ∀ n, p.node = some n → Q n = true) ∧ (∀ p ∈ e.plugCopy.getD [], ∀ n, p.node = some n → Q n = true)

theorem ifState_agree (Q : Bytes → Bool) (d : Dev) (a : Action) (e : ExecCtx) (s' : Store)
    (hS : SAgree Q d.args s') (he : CtxOK Q e) : ifState (withArgs d s') a e = ifState d a e := by
  unfold ifState
  cases hp : e.plugs with
  | none => rfl
  | some l =>
    cases l with
    | nil => rfl
    | cons p t =>
      dsimp only
      cases hn : p.node with
      | none => rfl
      | some n =>
        dsimp only
        have hq : Q n = true := he.1 p (by simp [hp]) n hn
        rw [getArgs_eq, getArgs_eq, withArgs_args, hS.find a.arglist n hq]

theorem stmtIf_rel (Q : Bytes → Bool) (d a o e b n) (s' : Store) (hS : SAgree Q d.args s') (he : CtxOK Q e) :
    stmtIf (withArgs d s') a o e b n = (stmtIf d a o e b n).withArgs s' := by
  rw [stmtIf_eq, stmtIf_eq, ifState_agree Q d a e s' hS he, stmtIf'_wa]

/-- the device's own plugs are wired to `Q`-nodes only -/
def QOn (Q : Bytes → Bool) (d : Dev) : Prop := ∀ p ∈ d.plugs, ∀ n, p.node = some n → Q n = true

theorem findPlug_QOn (Q : Bytes → Bool) (d : Dev) (hQ : QOn Q d) (pn : Bytes) (plug : Plug) (h : findPlug d pn = some plug) :
    Q (plug.node.getD []) = true := by
  obtain ⟨hm, n, hn⟩ := findPlug_node d pn plug h
  rw [hn]; exact hQ plug hm n hn

theorem setArgs_upd_agree (Q : Bytes → Bool) (d : Dev) (s' : Store) (al : Nat) (node : Bytes) (upd : Arg → Arg)
    (hupd : ∀ g, (upd g).node = g.node) (hS : SAgree Q d.args s') :
    SAgree Q (setArgs d al ((getArgs d al).map fun g => if g.node == node then upd g else g)).args
      (setArgs (withArgs d s') al ((getArgs (withArgs d s') al).map fun g => if g.node == node then upd g else g)).args := by
  intro al'
  by_cases h : al' = al
  · subst h
    rw [setArgs_cell_self, setArgs_cell_self, getArgs_eq, getArgs_eq, withArgs_args,
      filter_map_upd Q node upd hupd, filter_map_upd Q node upd hupd, hS al']
  · rw [setArgs_cell_ne _ _ _ _ h, setArgs_cell_ne _ _ _ _ h]; exact hS al'

/-- the shape of the two-run statement lemmas: run on a store `s'` that agrees with the device's own on `Q`, the
    statement does the same, and the stores agree on `Q` afterwards -/
def StmtRel (Q : Bytes → Bool) (r r' : StepR) : Prop := ∃ t', r' = r.withArgs t' ∧ SAgree Q r.dev.args t'

theorem StmtRel.of_wa {Q : Bytes → Bool} {r r' : StepR} {d : Dev} {s' : Store} (h : r' = r.withArgs s') (ha : r.dev.args = d.args)
    (hS : SAgree Q d.args s') : StmtRel Q r r' := ⟨s', h, by rw [ha]; exact hS⟩

theorem stmtExpect_args (d a o pat) : (stmtExpect d a o pat).dev.args = d.args := by unfold stmtExpect; grind
theorem stmtSend_args (d a o e fmt) : (stmtSend d a o e fmt).dev.args = d.args := by unfold stmtSend; grind
theorem stmtDelay_args (d a o e now us) : (stmtDelay d a o e now us).dev.args = d.args := by unfold stmtDelay; grind
theorem stmtForeach_args (d a o e b n) : (stmtForeach d a o e b n).dev.args = d.args := by unfold stmtForeach; grind
theorem stmtIf_args (d a o e b n) : (stmtIf d a o e b n).dev.args = d.args := by unfold stmtIf; grind

theorem stmtSetplugstate_rel (Q : Bytes → Bool) (d a o e l p s i) (s' : Store) (hS : SAgree Q d.args s') :
    StmtRel Q (stmtSetplugstate d a o e l p s i) (stmtSetplugstate (withArgs d s') a o e l p s i) := by
  rw [stmtSetplugstate_eq, stmtSetplugstate_eq]
  unfold stmtSetplugstate'
  have ht : spsTarget (withArgs d s') e l p s = spsTarget d e l p s := rfl
  rw [ht]
  split
  · exact ⟨s', rfl, hS⟩
  · rename_i s0 plug _
    exact ⟨_, rfl, setArgs_upd_agree Q d s' a.arglist (plug.node.getD [])
      (fun g => { g with state := (pickState askRx s0 i o []).2.1, val := some s0 }) (fun _ => rfl) hS⟩

theorem stmtSetresult_rel (Q : Bytes → Bool) (d a o p s i) (s' : Store) (hS : SAgree Q d.args s') (hQ : QOn Q d) :
    StmtRel Q (stmtSetresult d a o p s i) (stmtSetresult (withArgs d s') a o p s i) := by
  rw [stmtSetresult_eq, stmtSetresult_eq]
  unfold stmtSetresult'
  have ht : srTarget (withArgs d s') p s = srTarget d p s := rfl
  rw [ht]
  split
  · exact ⟨s', rfl, hS⟩
  · rename_i s0 plug htg
    have hf : ∃ pn, findPlug d pn = some plug := by
      unfold srTarget at htg
      split at htg
      · simp at htg
      · rename_i pn _
        split at htg
        · rename_i s1 plug1 _ hfp
          simp at htg; exact ⟨pn, by rw [hfp, htg.2]⟩
        · simp at htg
    obtain ⟨pn, hfp⟩ := hf
    have hqn := findPlug_QOn Q d hQ pn plug hfp
    have hany := hS.any a.arglist (plug.node.getD []) hqn
    dsimp only
    rw [getArgs_eq, getArgs_eq, withArgs_args, ← hany]
    exact ⟨_, rfl, setArgs_upd_agree Q d s' a.arglist (plug.node.getD [])
      (fun g => { g with result := (pickResult askRx s0 i o []).2.1, val := some s0 }) (fun _ => rfl) hS⟩

/-- every context of the action carries `Q`-plugs only -/
def ActOK (Q : Bytes → Bool) (a : Action) : Prop := ∀ e ∈ a.exec, CtxOK Q e

theorem CtxOK.dflt (Q : Bytes → Bool) : CtxOK Q (default : ExecCtx) := by
  have h1 : (default : ExecCtx).plugs = none := rfl
  have h2 : (default : ExecCtx).plugCopy = none := rfl
  constructor
  · intro p hp; rw [h1] at hp; simp at hp
  · intro p hp; rw [h2] at hp; simp at hp

theorem ActOK.top {Q : Bytes → Bool} {a : Action} (h : ActOK Q a) : CtxOK Q (topCtx a) := by
  unfold topCtx
  cases hq : a.exec with
  | nil => exact CtxOK.dflt Q
  | cons e r => exact h e (by simp [hq])

theorem ActOK.setTop {Q : Bytes → Bool} {a : Action} (h : ActOK Q a) (e : ExecCtx) (he : CtxOK Q e) : ActOK Q (setTop a e) := by
  intro x hx
  simp only [Pm.Dev2.setTop, List.mem_cons] at hx
  rcases hx with hx | hx
  · subst hx; exact he
  · exact h x (List.mem_of_mem_drop hx)

theorem processStmt_rel (Q : Bytes → Bool) (d : Dev) (a : Action) (o : Oracle) (now : Time) (s' : Store)
    (hS : SAgree Q d.args s') (hQ : QOn Q d) (ha : ActOK Q a) :
    StmtRel Q (processStmt d a o now) (processStmt (withArgs d s') a o now) := by
  unfold processStmt
  dsimp only
  split
  · exact ⟨s', rfl, hS⟩
  · exact StmtRel.of_wa (stmtExpect_wa ..) (stmtExpect_args ..) hS
  · exact StmtRel.of_wa (stmtSend_wa ..) (stmtSend_args ..) hS
  · exact StmtRel.of_wa (stmtDelay_wa ..) (stmtDelay_args ..) hS
  · exact stmtSetplugstate_rel Q _ _ _ _ _ _ _ _ s' hS
  · exact stmtSetresult_rel Q _ _ _ _ _ _ s' hS hQ
  · exact StmtRel.of_wa (stmtForeach_wa ..) (stmtForeach_args ..) hS
  · exact StmtRel.of_wa (stmtForeach_wa ..) (stmtForeach_args ..) hS
  · exact StmtRel.of_wa (stmtIf_rel Q _ _ _ _ _ _ s' hS ha.top) (stmtIf_args ..) hS
  · exact StmtRel.of_wa (stmtIf_rel Q _ _ _ _ _ _ s' hS ha.top) (stmtIf_args ..) hS

/-! ### the contexts keep carrying `Q`-plugs (single run) -/

theorem CtxOK.congr {Q : Bytes → Bool} {e e' : ExecCtx} (h : CtxOK Q e) (h1 : e'.plugs = e.plugs) (h2 : e'.plugCopy = e.plugCopy) :
    CtxOK Q e' := by
  unfold CtxOK; rw [h1, h2]; exact h

theorem ActOK.of_exec {Q : Bytes → Bool} {a a' : Action} (h : ActOK Q a) (he : a'.exec = a.exec) : ActOK Q a' := by
  unfold ActOK; rw [he]; exact h

theorem stmtExpect_actOK (Q d a o pat) (h : ActOK Q a) : ActOK Q (stmtExpect d a o pat).act := by
  have : (stmtExpect d a o pat).act = a := by unfold stmtExpect; grind
  rw [this]; exact h

theorem ActOK.of_top {Q : Bytes → Bool} {a a' : Action} {e : ExecCtx} (h : ActOK Q a) (he : CtxOK Q e)
    (hx : a'.exec = a.exec ∨ ∃ e' : ExecCtx, e'.plugs = e.plugs ∧ e'.plugCopy = e.plugCopy ∧ a'.exec = e' :: a.exec.drop 1) :
    ActOK Q a' := by
  rcases hx with hx | ⟨e', h1, h2, hx⟩
  · exact h.of_exec hx
  · intro x hxm
    rw [hx] at hxm
    simp only [List.mem_cons] at hxm
    rcases hxm with hxm | hxm
    · subst hxm; exact he.congr h1 h2
    · exact h x (List.mem_of_mem_drop hxm)

theorem stmtSend_exec (d a o e fmt) :
    (stmtSend d a o e fmt).act.exec = a.exec ∨
    ∃ e' : ExecCtx, e'.plugs = e.plugs ∧ e'.plugCopy = e.plugCopy ∧ (stmtSend d a o e fmt).act.exec = e' :: a.exec.drop 1 := by
  unfold stmtSend; grind [setTop]

theorem stmtSend_actOK (Q d a o fmt) (h : ActOK Q a) : ActOK Q (stmtSend d a o (topCtx a) fmt).act :=
  h.of_top h.top (stmtSend_exec ..)

theorem stmtDelay_exec (d a o e now us) (he : e = topCtx a) :
    (stmtDelay d a o e now us).act.exec = a.exec ∨
    ∃ e' : ExecCtx, e'.plugs = e.plugs ∧ e'.plugCopy = e.plugCopy ∧ (stmtDelay d a o e now us).act.exec = e' :: a.exec.drop 1 := by
  unfold stmtDelay; grind [setTop, topCtx]

theorem stmtDelay_actOK (Q d a o now us) (h : ActOK Q a) : ActOK Q (stmtDelay d a o (topCtx a) now us).act :=
  h.of_top h.top (stmtDelay_exec _ _ _ _ _ _ rfl)

theorem stmtSetplugstate_actOK (Q d a o e l p s i) (h : ActOK Q a) : ActOK Q (stmtSetplugstate d a o e l p s i).act := by
  have : (stmtSetplugstate d a o e l p s i).act = a := by unfold stmtSetplugstate; grind
  rw [this]; exact h

theorem stmtSetresult_actOK (Q d a o p s i) (h : ActOK Q a) : ActOK Q (stmtSetresult d a o p s i).act := by
  have : (stmtSetresult d a o p s i).act = a := by unfold stmtSetresult; grind
  rw [this]; exact h

theorem nextPlug_mem (isNode : Bool) (lst : List Plug) (k f : Nat) (p : Plug) (k' : Nat)
    (h : nextPlug isNode lst k f = some (p, k')) : p ∈ lst := by
  induction f generalizing k with
  | zero => simp [nextPlug] at h
  | succ n ih =>
    unfold nextPlug at h
    split at h
    · simp at h
    · rename_i q hq
      split at h
      · exact ih _ h
      · simp at h; rw [← h.1]; exact List.mem_of_getElem? hq

theorem stmtIf_actOK (Q d a o b n) (h : ActOK Q a) : ActOK Q (stmtIf d a o (topCtx a) b n).act := by
  have ht := h.top
  rw [stmtIf_eq]
  generalize ifState d a (topCtx a) = st
  unfold stmtIf'
  dsimp only
  split
  · exact h.setTop _ (ht.congr rfl rfl)
  · split
    · intro x hx
      simp only [List.mem_cons] at hx
      rcases hx with hx | hx | hx
      · subst hx; exact ⟨by simpa using ht.1, by simp⟩
      · subst hx; exact ht.congr rfl rfl
      · exact h x (List.mem_of_mem_drop hx)
    · split
      · exact h.of_exec rfl
      · exact h

/-- `_process_foreach`: which list is iterated, and the context with its iterator set up -/
def feSel (d : Dev) (a : Action) (e : ExecCtx) : List Plug × ExecCtx :=
  if e.plugItr.isNone && isRanged a.com then
    let cp := e.plugCopy.getD (e.plugs.getD [])
    (cp, { e with plugCopy := some cp, plugItr := some 0 })
  else if e.plugItr.isNone then (d.plugs, { e with plugItr := some 0 })
  else (if isRanged a.com then e.plugCopy.getD [] else d.plugs, e)

def stmtForeach' (d : Dev) (a : Action) (o : Oracle) (body : List Stmt) (isNode : Bool) (sel : List Plug × ExecCtx) : StepR :=
  match nextPlug isNode sel.1 (sel.2.plugItr.getD 0) (sel.1.length + 1) with
  | some (p, k) =>
    let newCtx : ExecCtx := { block := body, pos := 0, plugs := some [p], plugItr := none, plugCopy := none, processing := false }
    ⟨d, { a with exec := newCtx :: { sel.2 with plugItr := some k } :: a.exec.drop 1 }, o, [], true⟩
  | none => ⟨d, setTop a { sel.2 with plugItr := none }, o, [], true⟩

theorem stmtForeach_eq (d a o e body isNode) : stmtForeach d a o e body isNode = stmtForeach' d a o body isNode (feSel d a e) := by
  unfold stmtForeach stmtForeach' feSel
  by_cases h1 : (e.plugItr.isNone && isRanged a.com) = true
  · simp only [h1, ↓reduceIte]; rfl
  · by_cases h2 : e.plugItr.isNone = true
    · simp only [h1, h2, ↓reduceIte]; rfl
    · simp only [h1, h2, ↓reduceIte]; rfl

theorem feSel_ok (Q : Bytes → Bool) (d : Dev) (a : Action) (e : ExecCtx) (hQ : QOn Q d) (he : CtxOK Q e) :
    (∀ p ∈ (feSel d a e).1, ∀ n, p.node = some n → Q n = true) ∧ CtxOK Q (feSel d a e).2 := by
  unfold feSel
  split
  · dsimp only
    have hcp : ∀ p ∈ e.plugCopy.getD (e.plugs.getD []), ∀ n, p.node = some n → Q n = true := by
      cases hc : e.plugCopy with
      | none => simpa using he.1
      | some l => have := he.2; rw [hc] at this; simpa using this
    exact ⟨hcp, he.1, hcp⟩
  · split
    · exact ⟨hQ, he.congr rfl rfl⟩
    · dsimp only
      split
      · exact ⟨he.2, he⟩
      · exact ⟨hQ, he⟩

theorem stmtForeach_actOK (Q d a o b n) (hQ : QOn Q d) (h : ActOK Q a) : ActOK Q (stmtForeach d a o (topCtx a) b n).act := by
  rw [stmtForeach_eq]
  have hs := feSel_ok Q d a (topCtx a) hQ h.top
  generalize feSel d a (topCtx a) = sel at *
  unfold stmtForeach'
  split
  · rename_i p k hnp
    have hp := nextPlug_mem _ _ _ _ _ _ hnp
    intro x hx
    simp only [List.mem_cons] at hx
    rcases hx with hx | hx | hx
    · subst hx
      refine ⟨?_, by simp⟩
      intro q hq; simp at hq; subst hq; exact hs.1 q hp
    · subst hx; exact hs.2.congr rfl rfl
    · exact h x (List.mem_of_mem_drop hx)
  · exact h.setTop _ (hs.2.congr rfl rfl)

theorem processStmt_actOK (Q : Bytes → Bool) (d : Dev) (a : Action) (o : Oracle) (now : Time) (hQ : QOn Q d) (h : ActOK Q a) :
    ActOK Q (processStmt d a o now).act := by
  unfold processStmt
  dsimp only
  split
  · exact h
  · exact stmtExpect_actOK Q _ _ _ _ h
  · exact stmtSend_actOK Q _ _ _ _ h
  · exact stmtDelay_actOK Q _ _ _ _ _ h
  · exact stmtSetplugstate_actOK Q _ _ _ _ _ _ _ _ h
  · exact stmtSetresult_actOK Q _ _ _ _ _ _ h
  · exact stmtForeach_actOK Q _ _ _ _ _ hQ h
  · exact stmtForeach_actOK Q _ _ _ _ _ hQ h
  · exact stmtIf_actOK Q _ _ _ _ _ h
  · exact stmtIf_actOK Q _ _ _ _ _ h

theorem QOn.congr {Q : Bytes → Bool} {d d' : Dev} (hQ : QOn Q d) (h : d'.plugs = d.plugs) : QOn Q d' := by
  unfold QOn; rw [h]; exact hQ

theorem innerLoop_rel (Q : Bytes → Bool) (now : Time) (fuel : Nat) (d : Dev) (a : Action) (o : Oracle) (acc : List Out) (s' : Store)
    (hS : SAgree Q d.args s') (hQ : QOn Q d) (ha : ActOK Q a) :
    StmtRel Q (innerLoop now fuel d a o acc) (innerLoop now fuel (withArgs d s') a o acc) ∧
    ActOK Q (innerLoop now fuel d a o acc).act := by
  induction fuel generalizing d a o acc s' with
  | zero =>
    obtain ⟨t', h1, h2⟩ := processStmt_rel Q d a o now s' hS hQ ha
    have h3 := processStmt_actOK Q d a o now hQ ha
    unfold innerLoop
    dsimp only
    rw [h1]
    exact ⟨⟨t', rfl, h2⟩, h3⟩
  | succ n ih =>
    obtain ⟨t', h1, h2⟩ := processStmt_rel Q d a o now s' hS hQ ha
    have h3 := processStmt_actOK Q d a o now hQ ha
    have hp := processStmt_plugs d a o now
    rw [innerLoop_succ, innerLoop_succ, h1]
    generalize processStmt d a o now = q at *
    unfold innerStep
    by_cases hc : (q.finished && decide (q.act.exec.length > a.exec.length)) = true
    · have hc' : ((q.withArgs t').finished && decide ((q.withArgs t').act.exec.length > a.exec.length)) = true := hc
      rw [if_pos hc', if_pos hc]
      exact ih q.dev q.act q.oracle (acc ++ q.out) t' h2 (hQ.congr hp) h3
    · have hc' : ¬ ((q.withArgs t').finished && decide ((q.withArgs t').act.exec.length > a.exec.length)) = true := hc
      rw [if_neg hc', if_neg hc]
      exact ⟨⟨t', rfl, h2⟩, h3⟩

end Pm.Dev2
