import Pm.RfCmdLink
/-! # Concrete sessions of the redfishpower command layer: exact input lines and what they do

Kernel-checked evaluations (`decide +kernel`) of the model `Pm/RfCmd.lean` on whole sessions; the same lines were fed to the
real helper by hand and are produced by the scenario generator of `lib/redfish.py`. -/
namespace Pm.RfCmd
open Pm

/-! ## 5. concrete sessions: exact input lines and what they do (each line is followed by a newline) -/

/-- the helper started as `redfishpower -h <hosts> --test-mode`, fed these lines: what each line printed, and how the
    session ended (`none` = the command line itself is refused) -/
def runLines (hosts : String) (lines : List String) : Option (List (List Name) × Ctl) :=
  (init [lit hosts] [] 1800000000).map fun s => (session s (lines.map fun l => lit l ++ ['\n'])).2

/-- the state after these lines -/
def stateAfter (hosts : String) (lines : List String) : Option State :=
  (init [lit hosts] [] 1800000000).map fun s => (session s (lines.map fun l => lit l ++ ['\n'])).1

/-- a plug name is parsed again as a hostlist expression by `plugs_add`: a suffix with an open bracket ends the helper
    (`err_exit "hostlist_push failed"`) -/
theorem push_fail_counterexample : runLines "h[0-3]" ["setplugs P[1]x[ 0"] = some ([[]], .exit 1) := by decide +kernel

/-- F39, repaired (7f04ec7): `settimeout` used to store what it had just reported invalid (and to accept values up to
    `LONG_MAX`), and the next request for a known plug ended the helper (`err_exit "cmd_timeout overflow"`).  Now the
    same lines come back to the prompt: the old value stays; values above `INT_MAX` are invalid -/
theorem timeout_f39_fixed :
    runLines "h[0-3]" ["setstatpath s", "settimeout 99999999999999999999", "stat zz", "stat h0"] =
      some ([[], [lit "invalid timeout specified"], [lit "unknown plug specified: zz"], [lit "h0: off"]], .cont) ∧
    runLines "h[0-3]" ["setstatpath s", "settimeout 9223372036854775807", "stat h0", "settimeout 2147483648",
        "settimeout 2147483647", "stat h1"] =
      some ([[], [lit "invalid timeout specified"], [lit "h0: off"], [lit "invalid timeout specified"], [],
             [lit "h1: off"]], .cont) := by
  decide +kernel

/-- a parent that is not defined is accepted by `setplugs`; `stat` of the child fails `assert(root_plugname)` -/
theorem undefined_parent_counterexample :
    runLines "h[0-3]" ["setstatpath s", "setplugs B 0 A", "stat B"] =
      some ([[], [], []], .abort "send_initial_parent_queries: Assertion `root_plugname' failed") := by decide +kernel

/-- … defining the parent afterwards repairs the table -/
theorem parent_after_child : runLines "h[0-3]" ["setstatpath s", "setplugs B 0 A", "setplugs A 1", "stat B,A"] =
    some ([[], [], [], [lit "A: off", lit "B: off"]], .cont) := by decide +kernel

/-- a cycle is accepted by `setplugs`; `stat` of a plug on it never returns (`plugs_find_root_parent` walks for ever) -/
theorem cycle_counterexample :
    runLines "h[0-3]" ["setstatpath s", "setplugs B 0 A", "setplugs A 0 B", "stat B"] =
      some ([[], [], [], []], .hang "plugs_find_root_parent walks a cycle") ∧
    runLines "h[0-3]" ["setstatpath s", "setplugs A 0 A", "stat A"] =
      some ([[], [], []], .hang "plugs_find_root_parent walks a cycle") := by decide +kernel

/-- the host index goes through `int`: 2^32 is host 0 -/
theorem index_truncation_counterexample :
    runLines "h[0-3]" ["setstatpath s", "setplugs P 4294967296", "stat"] = some ([[], [], [lit "P: off"]], .cont) ∧
    runLines "h[0-3]" ["setplugs P 4294967295"] =
      some ([[lit "setplugs: invalid hostindex 4294967295 specified"]], .cont) := by decide +kernel

/-- a count mismatch is reported, and the initial per-host plugs are gone all the same -/
theorem mismatch_wipes_counterexample : runLines "h[0-3]" ["setstatpath s", "stat h0", "setplugs a,b 0,1,2", "stat h0", "stat"] =
    some ([[], [lit "h0: off"], [lit "setplugs: plugs count not equal to host index count"],
           [lit "unknown plug specified: h0"], []], .cont) := by decide +kernel

/-- without a status path the parent query is dropped and the child's request waits for ever (outside the model:
    reproduced on the real helper - no prompt, standard input no longer polled) -/
theorem no_statpath_counterexample : runLines "h[0-3]" ["setonpath o", "setplugs A 0", "setplugs B 0 A", "on B"] =
    some ([[], [], [], []], .outside "a plug without status path is polled or queried") := by decide +kernel

/-- a plug name whose suffix holds a bracket pair is filed under another name in the list than in the map: it can be
    neither used nor given a path, and `setpath` on the list's name ends the helper -/
theorem unmapped_counterexample :
    runLines "h[0-3]" ["setstatpath s", "setplugs P[1]x[3] 0", "stat", "stat P[1]x[3]"] =
      some ([[], [], [lit "plug not mapped: P1x3"], [lit "unknown plug specified: P1x[3]"]], .cont) ∧
    runLines "h[0-3]" ["setplugs P[1]x[3] 0", "setpath P1x3 stat s"] = some ([[], []], .exit 1) := by decide +kernel

/-- malformed ranges and friends, each answered by one line, the helper goes on -/
theorem malformed_lines : runLines "h[0-3]" ["setstatpath s", "stat P[3-1]", "on P[1-", "off P1]", "stat P[1-100000]", "stat P[a-b]",
      "setplugs P[3-1] 0", "setplugs P0 [0-", "setplugs P[0-1] [0-2]", "setplugs P[0-2] 0,9,1", "setplugs Q -1", "setplugs Q 1x",
      "bogus", "", "stat zz,h1,zz", "setplugs", "setpath h1 cycle x", "settimeout x"] =
    some ([[], [lit "illegal hosts input"], [lit "illegal hosts input"], [lit "illegal hosts input"], [lit "illegal hosts input"],
      [lit "illegal hosts input"], [lit "setplugs: illegal plugnames input"], [lit "setplugs: illegal hostindices input"],
      [lit "setplugs: plugs count not equal to host index count"], [lit "setplugs: hostindex 9 out of range"],
      [lit "setplugs: invalid hostindex -1 specified"], [lit "setplugs: invalid hostindex 1x specified"],
      [lit "type \"help\" for a list of commands"], [], [lit "unknown plug specified: zz", lit "unknown plug specified: h1", lit "unknown plug specified: zz"],
      [lit "Usage: setplugs <plugnames> <hostindices> [<parentplug>]]"], [lit "setpath: invalid command specified"],
      [lit "invalid timeout specified"]], .cont) := by decide +kernel

/-- a configuration by ranges and a few commands on it -/
def exLines : List String :=
  ["setstatpath redfish/{{plug}}", "setonpath on", "setoffpath off", "setplugs Blade[0-1] [0-1]",
   "setplugs Node[0-3] [0-3] Blade0", "setplugs Node[4-5] 2 Blade1"]

theorem ex_session : runLines "h[0-3]" (exLines ++ ["on Blade0", "on Node[2-5],zz", "stat Node[0-2],Blade0"]) =
    some ([[], [], [], [], [], [], [lit "Blade0: ok"],
      [lit "unknown plug specified: zz", lit "Node4: cannot perform on, dependency off (host=h1 plug=Blade1)",
       lit "Node5: cannot perform on, dependency off (host=h1 plug=Blade1)", lit "Node2: ok", lit "Node3: ok"],
      [lit "Blade0: on", lit "Node0: off", lit "Node1: off", lit "Node2: on"]], .cont) := by decide +kernel

def emptyState : State :=
  { hosts := [], failHosts := [], plugs := [], plugMap := [], initial := false, header := none, userpwd := none,
    userpwdCmdline := false, statpath := none, onpath := none, onpost := none, offpath := none, offpost := none,
    cmdTimeout := 60, now := 0, status := [] }

/-- the state after the configuration `exLines`: two blades, four nodes below blade 0, two below blade 1 -/
def exState : State := (stateAfter "h[0-3]" exLines).getD emptyState

theorem exState_names : exState.plugMap.map (·.1) =
    [lit "Blade0", lit "Blade1", lit "Node0", lit "Node1", lit "Node2", lit "Node3", lit "Node4", lit "Node5"] := by
  decide +kernel

theorem exState_safe : Safe exState := by decide +kernel
theorem exState_TInv : TInv exState := by decide +kernel
theorem exState_TimeoutOK : TimeoutOK exState := by decide +kernel
theorem exState_Link : Link exState := by decide +kernel

/-- a state that is not `Safe`: a parent that is not defined -/
theorem unsafe_state : ¬ Safe ((stateAfter "h[0-3]" ["setstatpath s", "setplugs B 0 A"]).getD emptyState) := by
  decide +kernel

/-- the lines of `exLines` define legal plug names -/
theorem exLines_legal : ∀ b ∈ exLines.map (fun l => lit l ++ ['\n']), LegalSetplugs (argvCreate (cstr b)) := by
  intro b hb
  apply legalSetplugsB_sound
  revert b
  decide +kernel

end Pm.RfCmd
