import Pm.FrameTwo
/-! Helper lemmas for C05: a pass in which no client has anything to do (requests in flight, nobody typing): the client
    phase `cli_post_poll` leaves the world as it is. -/
namespace Pm.Daemon
open Pm Pm.Client
open Pm.Dev2 (Oracle Dev Action SAgree QOn QOff ActsOK)

/-- nothing to do for client `c` in this pass: no event on its descriptor, no complete line in its input buffer, and it is
    not about to be destroyed (quit with no command in progress) -/
def QuietCli (envs : List FdEnv) (c : Cli) : Prop :=
  (∀ e, envs.find? (fun x => x.fd == c.fd) = some e → e.rev = 0) ∧ c.fromBuf.idxOf? 10 = none ∧ (c.quit && c.cmd.isNone) = false

def UniqueIds (l : List Cli) : Prop := ∀ x ∈ l, ∀ y ∈ l, x.id = y.id → x = y

theorem handleInput_quiet (w : W) (c : Cli) (h : c.fromBuf.idxOf? 10 = none) : handleInput w c = (w, c) := by
  unfold handleInput handleInputF
  split
  · rfl
  · rw [h]

/-- the `revents` a client sees -/
def cliRev (c : Cli) (e : Option FdEnv) : Nat :=
  let interest := (if c.quit then 0 else 1) ||| (if c.toBuf.isEmpty then 0 else 2)
  match e with | some e => if interest == 0 then 0 else (e.rev &&& interest) ||| (e.rev &&& 28) | none => 0

def clientPass' (w : W) (c : Cli) (e : Option FdEnv) (rev : Nat) : W × Option Cli :=
  let dead (w : W) (c : Cli) : W × Option Cli := ({ w with sys := w.sys ++ [.close c.fd] }, none)
  if rev &&& 8 != 0 || rev &&& 16 != 0 then dead w c else
  let (w, c) :=
    if rev &&& 1 != 0 || rev &&& 4 != 0 then
      match clipE c e, clipC c e with
      | some e, c =>
        if e.rk == 1 then ({ w with sys := w.sys ++ [.read c.fd (-1)] }, { c with quit := true })
        else if e.rk == 2 then ({ w with sys := w.sys ++ [.read c.fd 0] }, { c with quit := true })
        else if e.data.isEmpty then ({ w with sys := w.sys ++ [.read c.fd (-1)] }, { c with quit := true })
        else ({ w with sys := w.sys ++ [.read c.fd e.data.length] }, { c with fromBuf := c.fromBuf ++ e.data })
      | none, c => (w, c)
    else (w, c)
  let (w, c) := if rev &&& 2 != 0 then handleWrite w c else (w, c)
  let (w, c) := handleInput w c
  if w.exited then (w, some c) else
  if c.quit && c.cmd.isNone then dead w c else (w, some c)

theorem clientPass_eq (w : W) (c : Cli) (e : Option FdEnv) : clientPass w c e = clientPass' w c e (cliRev c e) := by
  unfold clientPass clientPass' cliRev
  rfl

theorem clientPass_quiet (w : W) (c : Cli) (envs : List FdEnv) (h : QuietCli envs c) :
    clientPass w c (envs.find? (fun x => x.fd == c.fd)) = (w, some c) := by
  obtain ⟨h1, h2, h3⟩ := h
  have hrev : cliRev c (envs.find? (fun x => x.fd == c.fd)) = 0 := by
    unfold cliRev
    cases he : envs.find? (fun x => x.fd == c.fd) with
    | none => rfl
    | some e =>
      dsimp only
      rw [h1 e he]
      split <;> simp
  rw [clientPass_eq, hrev]
  unfold clientPass'
  simp only [Nat.zero_and, bne_self_eq_false, Bool.or_self, Bool.false_eq_true, ↓reduceIte]
  rw [handleInput_quiet w c h2]
  dsimp only
  rw [h3]
  simp

/-- one step of the client loop of `cli_post_poll` -/
def cliStep (envs : List FdEnv) (w : W) (c0 : Cli) : W :=
  if w.exited then w else
  let (w', r) := clientPass w c0 (envs.find? (·.fd == c0.fd))
  match r with
  | some c => { w' with clients := w'.clients.map fun (x : Cli) => if x.id == c.id then c else x }
  | none => { w' with clients := w'.clients.filter fun (x : Cli) => x.id != c0.id }

theorem cliStep_quiet (envs : List FdEnv) (w : W) (c0 : Cli) (hm : c0 ∈ w.clients) (hq : QuietCli envs c0)
    (hu : UniqueIds w.clients) : cliStep envs w c0 = w := by
  unfold cliStep
  split
  · rfl
  · rw [clientPass_quiet w c0 envs hq]
    dsimp only
    have : (w.clients.map fun (x : Cli) => if x.id == c0.id then c0 else x) = w.clients := by
      conv => rhs; rw [← List.map_id w.clients]
      apply List.map_congr_left
      intro x hx
      by_cases hxc : x.id = c0.id
      · simp [hxc, hu x hx c0 hm hxc]
      · simp [hxc]
    rw [this]

theorem foldl_cliStep_quiet (envs : List FdEnv) (w : W) (l : List Cli) (hl : ∀ c ∈ l, c ∈ w.clients ∧ QuietCli envs c)
    (hu : UniqueIds w.clients) : l.foldl (cliStep envs) w = w := by
  induction l with
  | nil => rfl
  | cons c r ih =>
    rw [List.foldl_cons, cliStep_quiet envs w c (hl c (by simp)).1 (hl c (by simp)).2 hu]
    exact ih (fun x hx => hl x (by simp [hx]))

/-- **a quiet client phase**: no connection is accepted and no client has anything to do — `cli_post_poll` only resets the
    per-pass system-call log and records the write capacities -/
theorem cliPostPoll_quiet (w : W) (envs : List FdEnv) (hq : ∀ c ∈ w.clients, QuietCli envs c) (hu : UniqueIds w.clients) :
    cliPostPoll w 0 envs = { w with sys := [], caps := envs.map fun (e : FdEnv) => (e.fd, e.cap) } := by
  unfold cliPostPoll
  simp only [Nat.reduceBEq, Bool.false_eq_true, ↓reduceIte]
  exact foldl_cliStep_quiet envs { w with sys := [], caps := envs.map fun (e : FdEnv) => (e.fd, e.cap) } w.clients
    (fun c hc => ⟨hc, hq c hc⟩) hu

theorem SAgree_refl (Q : Bytes → Bool) (s : Pm.Dev2.Store) : SAgree Q s s := fun _ => rfl

/-- **Non-interference of one whole pass, requests in flight.**  `w'` is `w` with device `B` replaced by `B'` and `B`'s
    oracle answers by `B'`'s; no connection is accepted and no client has anything to do in this pass. -/
theorem pass_noninterference_inflight (Q : Bytes → Bool) (w w' : W) (p p' : PassIn)
    (pre post : List (Bytes × Dev)) (B B' : Bytes × Dev) (g : Nat) (xp xB xB' xq : List Pm.Dev2.RxCall)
    (hdevs : w.devs = pre ++ B :: post) (hx : w.pendingX = xp ++ (xB ++ xq))
    (hw' : w' = { w with devs := pre ++ B' :: post, pendingX := xp ++ (xB' ++ xq) })
    (hexit : w.exited = false)
    (hacc : p.acc = 0) (hacc' : p'.acc = 0)
    (hquiet : ∀ c ∈ w.clients, QuietCli p.envs c ∧ QuietCli p'.envs c) (hu : UniqueIds w.clients)
    (hp : SameClock p p') (hgok : GOk Q w g)
    (hl : ∀ nd ∈ pre ++ post, SameEvents p p' nd ∧ QOn Q nd.2 ∧ ActsOK Q nd.2.acts)
    (hg : g ≠ 0) (hq : ∀ x ∈ B.2.acts, x.clientId ≠ g) (hq' : ∀ x ∈ B'.2.acts, x.clientId ≠ g)
    (hQ : QOff Q B.2) (hQ' : QOff Q B'.2)
    (hd : ((pre ++ B :: post).foldl (devPass p) (acc0 (cliPostPoll w p.acc p.envs))).dead = false)
    (hd' : ((pre ++ B' :: post).foldl (devPass p') (acc0 (cliPostPoll w' p'.acc p'.envs))).dead = false)
    (E1 : ExactOn p (acc0 (cliPostPoll w p.acc p.envs)) pre xp) (E1' : ExactOn p' (acc0 (cliPostPoll w' p'.acc p'.envs)) pre xp)
    (E2 : ExactOn p (pre.foldl (devPass p) (acc0 (cliPostPoll w p.acc p.envs))) [B] xB)
    (E2' : ExactOn p' (pre.foldl (devPass p') (acc0 (cliPostPoll w' p'.acc p'.envs))) [B'] xB')
    (hc1 : (devPass p (pre.foldl (devPass p) (acc0 (cliPostPoll w p.acc p.envs))) B).w.nsock
         = (devPass p' (pre.foldl (devPass p') (acc0 (cliPostPoll w' p'.acc p'.envs))) B').w.nsock)
    (hc2 : (devPass p (pre.foldl (devPass p) (acc0 (cliPostPoll w p.acc p.envs))) B).w.npair
         = (devPass p' (pre.foldl (devPass p') (acc0 (cliPostPoll w' p'.acc p'.envs))) B').w.npair)
    (hc3 : (devPass p (pre.foldl (devPass p) (acc0 (cliPostPoll w p.acc p.envs))) B).w.nfork
         = (devPass p' (pre.foldl (devPass p') (acc0 (cliPostPoll w' p'.acc p'.envs))) B').w.nfork) :
    cliRec (daemonPass w p).1 g = cliRec (daemonPass w' p').1 g ∧
    (∀ i, i ≠ pre.length → ((daemonPass w p).1.devs[i]?).map strip = ((daemonPass w' p').1.devs[i]?).map strip) ∧
    SAgree Q (daemonPass w p).1.store (daemonPass w' p').1.store := by
  have hcl' : w'.clients = w.clients := by rw [hw']
  have e0 : cliPostPoll w p.acc p.envs = { w with sys := [], caps := p.envs.map fun (e : FdEnv) => (e.fd, e.cap) } := by
    rw [hacc]; exact cliPostPoll_quiet w p.envs (fun c hc => (hquiet c hc).1) hu
  have e0' : cliPostPoll w' p'.acc p'.envs = { w' with sys := [], caps := p'.envs.map fun (e : FdEnv) => (e.fd, e.cap) } := by
    rw [hacc']; exact cliPostPoll_quiet w' p'.envs (fun c hc => (hquiet c (hcl' ▸ hc)).2) (hcl' ▸ hu)
  refine pass_noninterference Q w w' p p' _ _ pre post B B' g xp xB xB' xq rfl rfl ?_ ?_ ?_ ?_ hp ?_ ?_ ?_ ?_ ?_ ?_ ?_ ?_
    hl hg hq hq' hQ hQ' hd hd' E1 E1' E2 E2' hc1 hc2 hc3
  · rw [e0]; exact hexit
  · rw [e0', hw']; exact hexit
  · rw [e0]; exact hdevs
  · rw [e0', hw']
  · rw [e0, e0', hw']; rfl
  · rw [e0]; exact hgok
  · rw [e0, e0', hw']; exact SAgree_refl Q _
  · rw [e0, e0', hw']
  · rw [e0, e0', hw']
  · rw [e0, e0', hw']
  · rw [e0]; exact hx
  · rw [e0', hw']


end Pm.Daemon
