import Pm.QueryAnswer
/-! Concrete runs for the non-vacuity examples of the run-level part of `Props/C03`.

`Two` (`Pm/IsolationProof.lean`): one device `A`, one plug `1` ↦ node `a1`, a `status` script `send "st %s\n"; expect <pat 1>;
setplugstate $1 $2 on=<pat 2> off=<pat 3>`.
* `runTwo`: pass 1 — client 1 connects; pass 2 — client 2 connects, client 1 sends `status a1` (accepted, arglist 1); pass 3 —
  client 2 sends `status a1` too (arglist 2), the device takes the bytes of client 1's action; pass 4 — the device says
  `1 on`, client 1's action writes `on` into arglist 1, client 1 is answered `on: a1`, client 2's action starts; pass 5 —
  the device takes its bytes; pass 6 — the device says `1 off`, client 2's action writes `off` into arglist 2, client 2 is
  answered `off: a1`.  Two queries on the same node at the same time, two different answers, each from its own action.
* `runLate`: instead of pass 4, nothing happens for nine seconds: both actions fail (time-out; aborted), no write at all.
* `B`: the same device with a `beacon` script that consists of a `setplugstate` alone (no `expect`).  After a `status a1`
  answered `on`, `beacon a1` is accepted and answered in one pass, `on: a1` — from the text the *status* query's `expect`
  had captured; the device said nothing during the beacon query. -/
namespace Pm.Daemon.QRun.Ex
open Pm Pm.Client Pm.Daemon Pm.Daemon.QRun Pm.Daemon.E2E
open Pm.Dev2 (RxCall Stmt Dev)
open Pm.Dev2.QEv
open Pm.Daemon.Reply (ByteName)

def q1 : PassX := ⟨Isolation.Two.p1, []⟩
def q2 : PassX := ⟨Isolation.Two.p2, []⟩
def q3 : PassX := ⟨Isolation.Two.p3, []⟩
def q4 : PassX := ⟨Isolation.Two.p4, Isolation.Two.xs4⟩
def q5 : PassX := ⟨{ now := 5000, acc := 0, con := [0], soe := [0], envs := [{ fd := 2000, rev := 2, rk := 0, data := [], cap := 100 }] }, []⟩
def xs6 : List RxCall :=
  [{ pat := 1, subject := bstr "1 off\n", answer := some [(0, 6), (0, 1), (2, 5)] }, { pat := 2, subject := bstr "off", answer := none },
   { pat := 3, subject := bstr "off", answer := some [(0, 3)] }]
def q6 : PassX :=
  ⟨{ now := 6000, acc := 0, con := [0], soe := [0], envs := [{ fd := 2000, rev := 1, rk := 0, data := bstr "1 off\n", cap := 100 }] }, xs6⟩
def qLate : PassX := ⟨{ now := 9000000, acc := 0, con := [0], soe := [0], envs := [] }, []⟩

theorem inv0 : Inv Isolation.Two.w0 := inv_init Isolation.Two.w0 rfl (by intro nd hnd; simp [Isolation.Two.w0] at hnd; subst hnd; rfl) (by decide) (by decide)

/-- client 1 is connected and idle -/
def w1 : W := runX Isolation.Two.w0 [q1]
theorem alive1 : AliveX Isolation.Two.w0 [q1] := ⟨by decide +kernel, trivial⟩
theorem inv1 : Inv w1 := runX_inv Isolation.Two.w0 _ inv0 alive1
theorem idle1 : ∀ c k, cliRec w1 1 = some c → c.cmd = some k → False := by
  intro c k hc hk
  have h : ((cliRec w1 1).bind (·.cmd)).isNone = true := by decide +kernel
  rw [hc] at h; simp [hk] at h

/-- client 1's record and command when the client phase of pass 2 is over -/
def c1 : Cli := (cliRec (cliPostPoll (feed w1 q2.rx) q2.p.acc q2.p.envs) 1).getD { id := 0, fd := 0 }
def k1 : CmdC := c1.cmd.getD { com := .temp, names := [], pending := 0, error := false }
theorem hc1 : cliRec (cliPostPoll (feed w1 q2.rx) q2.p.acc q2.p.envs) 1 = some c1 := by
  have : (cliRec (cliPostPoll (feed w1 q2.rx) q2.p.acc q2.p.envs) 1).isSome = true := by decide +kernel
  unfold c1; cases h : cliRec (cliPostPoll (feed w1 q2.rx) q2.p.acc q2.p.envs) 1 <;> simp_all
theorem hk1 : c1.cmd = some k1 := by
  have : c1.cmd.isSome = true := by decide +kernel
  unfold k1; cases h : c1.cmd <;> simp_all
theorem k1_is : (k1.com, k1.names, k1.pending, k1.error, k1.al) = (Com.status, [['a', '1']], 1, false, 1) := by decide +kernel
theorem k1_bytes : ∀ n ∈ k1.names, ByteName n := by decide +kernel

theorem alive4 : AliveX w1 (q2 :: ([q3] ++ [q4])) := ⟨by decide +kernel, by decide +kernel, by decide +kernel, trivial⟩
theorem busy3 : ∃ c k', cliRec (runX w1 (q2 :: [q3])) 1 = some c ∧ c.cmd = some k' ∧ k'.al = k1.al := by
  have h : ((cliRec (runX w1 (q2 :: [q3])) 1).bind (·.cmd)).map (·.al) = some k1.al := by decide +kernel
  cases hc : cliRec (runX w1 (q2 :: [q3])) 1 with
  | none => rw [hc] at h; cases h
  | some c =>
    rw [hc] at h
    cases hk : c.cmd with
    | none => simp [hk] at h
    | some k' => exact ⟨c, k', rfl, hk, by simpa [hk] using h⟩
def c4 : Cli := (cliRec (runX w1 (q2 :: ([q3] ++ [q4]))) 1).getD { id := 0, fd := 0 }
theorem hc4 : cliRec (runX w1 (q2 :: ([q3] ++ [q4]))) 1 = some c4 := by
  have : (cliRec (runX w1 (q2 :: ([q3] ++ [q4]))) 1).isSome = true := by decide +kernel
  unfold c4; cases h : cliRec (runX w1 (q2 :: ([q3] ++ [q4]))) 1 <;> simp_all
theorem idle4 : c4.cmd = none := by
  have : c4.cmd.isNone = true := by decide +kernel
  cases h : c4.cmd <;> simp_all

/-- the history of client 1's arglist: one write, made in the turn of device `A` by client 1's `status` action — node `a1`,
    state `on`, from the captured text `on` of the match on the device's line `1 on` -/
theorem hist4 : hist w1 (q2 :: ([q3] ++ [q4])) k1.al =
    [{ dev := [65], cid := 1, al := 1, com := 2, plug := [49], node := [97, 49], kind := .state .on, text := bstr "on",
       subject := some (bstr "1 on\n") }] := by decide +kernel
theorem buf4 : c4.toBuf = bstr "001 2\r\npowerman> 302 on:      a1\r\n302 off:     \r\n302 unknown: \r\n103 Query complete\r\npowerman> " := by
  decide +kernel

/-! ### client 2, whose query on the same node runs at the same time -/
def w2 : W := runX Isolation.Two.w0 [q1, q2]
theorem alive2 : AliveX Isolation.Two.w0 [q1, q2] := ⟨by decide +kernel, by decide +kernel, trivial⟩
theorem inv2 : Inv w2 := runX_inv Isolation.Two.w0 _ inv0 alive2
theorem idle2 : ∀ c k, cliRec w2 2 = some c → c.cmd = some k → False := by
  intro c k hc hk
  have h : ((cliRec w2 2).bind (·.cmd)).isNone = true := by decide +kernel
  rw [hc] at h; simp [hk] at h
def c2 : Cli := (cliRec (cliPostPoll (feed w2 q3.rx) q3.p.acc q3.p.envs) 2).getD { id := 0, fd := 0 }
def k2 : CmdC := c2.cmd.getD { com := .temp, names := [], pending := 0, error := false }
theorem hc2 : cliRec (cliPostPoll (feed w2 q3.rx) q3.p.acc q3.p.envs) 2 = some c2 := by
  have : (cliRec (cliPostPoll (feed w2 q3.rx) q3.p.acc q3.p.envs) 2).isSome = true := by decide +kernel
  unfold c2; cases h : cliRec (cliPostPoll (feed w2 q3.rx) q3.p.acc q3.p.envs) 2 <;> simp_all
theorem hk2 : c2.cmd = some k2 := by
  have : c2.cmd.isSome = true := by decide +kernel
  unfold k2; cases h : c2.cmd <;> simp_all
theorem k2_bytes : ∀ n ∈ k2.names, ByteName n := by decide +kernel
theorem alive6 : AliveX w2 (q3 :: ([q4, q5] ++ [q6])) :=
  ⟨by decide +kernel, by decide +kernel, by decide +kernel, by decide +kernel, trivial⟩
theorem busy5 : ∃ c k', cliRec (runX w2 (q3 :: [q4, q5])) 2 = some c ∧ c.cmd = some k' ∧ k'.al = k2.al := by
  have h : ((cliRec (runX w2 (q3 :: [q4, q5])) 2).bind (·.cmd)).map (·.al) = some k2.al := by decide +kernel
  cases hc : cliRec (runX w2 (q3 :: [q4, q5])) 2 with
  | none => rw [hc] at h; cases h
  | some c =>
    rw [hc] at h
    cases hk : c.cmd with
    | none => simp [hk] at h
    | some k' => exact ⟨c, k', rfl, hk, by simpa [hk] using h⟩
def c6 : Cli := (cliRec (runX w2 (q3 :: ([q4, q5] ++ [q6]))) 2).getD { id := 0, fd := 0 }
theorem hc6 : cliRec (runX w2 (q3 :: ([q4, q5] ++ [q6]))) 2 = some c6 := by
  have : (cliRec (runX w2 (q3 :: ([q4, q5] ++ [q6]))) 2).isSome = true := by decide +kernel
  unfold c6; cases h : cliRec (runX w2 (q3 :: ([q4, q5] ++ [q6]))) 2 <;> simp_all
theorem idle6 : c6.cmd = none := by
  have : c6.cmd.isNone = true := by decide +kernel
  cases h : c6.cmd <;> simp_all
/-- all the writes of the run, in order: client 1's (arglist 1, `on`), then client 2's (arglist 2, `off`) — same node -/
theorem writes6 : (runEvX w2 (q3 :: ([q4, q5] ++ [q6]))).map (fun ev => (ev.cid, ev.al, ev.node, ev.kind, ev.text)) =
    [(1, 1, [97, 49], .state .on, bstr "on"), (2, 2, [97, 49], .state .off, bstr "off")] := by decide +kernel
theorem hist6 : (hist w2 (q3 :: ([q4, q5] ++ [q6])) k2.al).map (fun ev => (ev.cid, ev.al, ev.node, ev.kind, ev.text)) =
    [(2, 2, [97, 49], .state .off, bstr "off")] := by decide +kernel
theorem buf6 : c6.toBuf = bstr "001 2\r\npowerman> 302 on:      \r\n302 off:     a1\r\n302 unknown: \r\n103 Query complete\r\npowerman> " := by
  decide +kernel

/-! ### the device does not answer -/
theorem aliveL : AliveX w1 (q2 :: ([q3] ++ [qLate])) := ⟨by decide +kernel, by decide +kernel, by decide +kernel, trivial⟩
def cL : Cli := (cliRec (runX w1 (q2 :: ([q3] ++ [qLate]))) 1).getD { id := 0, fd := 0 }
theorem hcL : cliRec (runX w1 (q2 :: ([q3] ++ [qLate]))) 1 = some cL := by
  have : (cliRec (runX w1 (q2 :: ([q3] ++ [qLate]))) 1).isSome = true := by decide +kernel
  unfold cL; cases h : cliRec (runX w1 (q2 :: ([q3] ++ [qLate]))) 1 <;> simp_all
theorem idleL : cL.cmd = none := by
  have : cL.cmd.isNone = true := by decide +kernel
  cases h : cL.cmd <;> simp_all
theorem histL : hist w1 (q2 :: ([q3] ++ [qLate])) k1.al = [] := by decide +kernel
theorem finsL : runFinsX w1 (q2 :: ([q3] ++ [qLate])) 1 = [([65], .expfail)] := by decide +kernel
theorem bufL : cL.toBuf = bstr ("001 2\r\npowerman> 308 A: action timed out waiting for expected response\r\n" ++
    "302 on:      \r\n302 off:     \r\n302 unknown: a1\r\n211 Query completed with errors\r\npowerman> ") := by decide +kernel

/-! ### a `beacon` script without `expect`: before fix e0ac8ce (F38) the text of the previous query's match was used; now nothing is -/
namespace B
def scripts : Nat → Option (List Stmt) := fun k =>
  if k == 2 then some Isolation.Two.statScript else if k == 21 then some [.setplugstate none 1 2 [(.on, 2), (.off, 3)]] else none
def devB : Dev := { Isolation.Two.devA with scripts := scripts }
def w0 : W := { Isolation.Two.w0 with devs := [([65], devB)] }
def p2 : PassIn := { now := 2000, acc := 0, con := [0], soe := [0], envs := [{ fd := 1000, rev := 1, rk := 0, data := Isolation.Two.line, cap := 100 }] }
def p3 : PassIn := { now := 3000, acc := 0, con := [0], soe := [0], envs := [{ fd := 2000, rev := 2, rk := 0, data := [], cap := 100 }] }
/-- pass 5: client 1 sends `beacon a1`; nothing happens on the device's descriptor -/
def q5 : PassX :=
  ⟨{ now := 5000, acc := 0, con := [0], soe := [0], envs := [{ fd := 1000, rev := 1, rk := 0, data := bstr "beacon a1\n", cap := 100 }] },
   [{ pat := 2, subject := bstr "on", answer := some [(0, 2)] }]⟩
/-- the `status a1` of client 1 has been answered `on` -/
def w4 : W := runX w0 [q1, ⟨p2, []⟩, ⟨p3, []⟩, q4]
theorem inv0 : Inv w0 := inv_init w0 rfl (by intro nd hnd; simp [w0] at hnd; subst hnd; rfl) (by decide) (by decide)
theorem alive4 : AliveX w0 [q1, ⟨p2, []⟩, ⟨p3, []⟩, q4] :=
  ⟨by decide +kernel, by decide +kernel, by decide +kernel, by decide +kernel, trivial⟩
theorem inv4 : Inv w4 := runX_inv w0 _ inv0 alive4
theorem idle4 : ∀ c k, cliRec w4 1 = some c → c.cmd = some k → False := by
  intro c k hc hk
  have h : ((cliRec w4 1).bind (·.cmd)).isNone = true := by decide +kernel
  rw [hc] at h; simp [hk] at h
def c5 : Cli := (cliRec (cliPostPoll (feed w4 q5.rx) q5.p.acc q5.p.envs) 1).getD { id := 0, fd := 0 }
def k5 : CmdC := c5.cmd.getD { com := .temp, names := [], pending := 0, error := false }
theorem hc5 : cliRec (cliPostPoll (feed w4 q5.rx) q5.p.acc q5.p.envs) 1 = some c5 := by
  have : (cliRec (cliPostPoll (feed w4 q5.rx) q5.p.acc q5.p.envs) 1).isSome = true := by decide +kernel
  unfold c5; cases h : cliRec (cliPostPoll (feed w4 q5.rx) q5.p.acc q5.p.envs) 1 <;> simp_all
theorem hk5 : c5.cmd = some k5 := by
  have : c5.cmd.isSome = true := by decide +kernel
  unfold k5; cases h : c5.cmd <;> simp_all
theorem k5_is : (k5.com, k5.names, k5.al) = (Com.beacon, [['a', '1']], 2) := by decide +kernel
theorem k5_bytes : ∀ n ∈ k5.names, ByteName n := by decide +kernel
theorem alive5 : AliveX w4 [q5] := ⟨by decide +kernel, trivial⟩
def c6 : Cli := (cliRec (runX w4 [q5]) 1).getD { id := 0, fd := 0 }
theorem hc6 : cliRec (runX w4 [q5]) 1 = some c6 := by
  have : (cliRec (runX w4 [q5]) 1).isSome = true := by decide +kernel
  unfold c6; cases h : cliRec (runX w4 [q5]) 1 <;> simp_all
theorem idle6 : c6.cmd = none := by
  have : c6.cmd.isNone = true := by decide +kernel
  cases h : c6.cmd <;> simp_all
/-- since fix e0ac8ce (F38) the beacon query makes no write: the match object was recycled when the status action left the
    queue, so the `setplugstate` that opens the beacon script finds nothing to read -/
theorem hist5 : hist w4 [q5] k5.al = [] := by decide +kernel
/-- the match register before the beacon query was accepted is empty (recycled when the status action completed); the device's
    input buffer is empty and stays empty; the pass brings no event for the device's descriptor -/
theorem stale : (w4.devs.map fun nd => (nd.2.xmStr, nd.2.xmUsed, nd.2.fromBuf)) = [(none, false, [])] ∧
    ((runX w4 [q5]).devs.map fun nd => nd.2.fromBuf) = [[]] ∧ q5.p.envs.find? (·.fd == 2000) = none := by decide +kernel
theorem buf6 : c6.toBuf.drop c5.toBuf.length =
    bstr "302 on:      \r\n302 off:     \r\n302 unknown: a1\r\n103 Query complete\r\npowerman> " := by decide +kernel
end B

end Pm.Daemon.QRun.Ex
