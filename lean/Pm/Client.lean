/- pilot for C04 / C06 / C15: client.c:_parse_input, one line in → exactly one terminal reply,
   or a command installed (and then none) -/
namespace Pm.Client

abbrev Bytes := List UInt8

def isSpace (b : UInt8) : Bool := b == 32 || (9 ≤ b.toNat && b.toNat ≤ 13)   -- isspace() in the C locale

/-- `sscanf(str, "<kw> %s", arg) == 1`: literal keyword, optional white space, one non-empty token -/
def scan (kw s : Bytes) : Option Bytes :=
  if kw.isPrefixOf s then
    let tok := ((s.drop kw.length).dropWhile isSpace).takeWhile (fun b => !isSpace b)
    if tok.isEmpty then none else some tok
  else none

def lower (b : UInt8) : UInt8 := if 65 ≤ b.toNat && b.toNat ≤ 90 then b + 32 else b
/-- `!strncasecmp(str, kw, strlen(kw))` -/
def casePrefix (kw s : Bytes) : Bool := kw.isPrefixOf (s.map lower)

inductive Com where | on | off | cycle | reset | flash | unflash | status | temp | beacon
deriving DecidableEq, Repr

/-- outcome of `_create_command` + `dev_enqueue_actions` for a command (abstract here; the Enqueue
    layer provides it).  `fatal` = the process leaves through `lsd_fatal_error` (F1). -/
inductive Cmd where
  | hostlistErr | internalErr | noSuchNodes | unimpl | accepted (pending : Nat) (h : 0 < pending) | fatal

structure St where
  busy : Bool
  telemetry : Bool
  exprange : Bool
  quit : Bool

inductive Out where
  | lines (codes : List Nat) (prompt : Bool) (st : St)     -- reply written, maybe prompt
  | installed (st : St)                                      -- command accepted: nothing written
  | exit                                                     -- daemon gone

def kwOn : Bytes := [111, 110]
def kwOff : Bytes := [111, 102, 102]
def kwCycle : Bytes := [99, 121, 99, 108, 101]
def kwReset : Bytes := [114, 101, 115, 101, 116]
def kwFlash : Bytes := [102, 108, 97, 115, 104]
def kwUnflash : Bytes := [117, 110, 102, 108, 97, 115, 104]
def kwStatus : Bytes := [115, 116, 97, 116, 117, 115]
def kwTemp : Bytes := [116, 101, 109, 112]
def kwBeacon : Bytes := [98, 101, 97, 99, 111, 110]
def kwDevice : Bytes := [100, 101, 118, 105, 99, 101]
def kwHelp : Bytes := [104, 101, 108, 112]
def kwNodes : Bytes := [110, 111, 100, 101, 115]
def kwTelemetry : Bytes := [116, 101, 108, 101, 109, 101, 116, 114, 121]
def kwExprange : Bytes := [101, 120, 112, 114, 97, 110, 103, 101]
def kwQuit : Bytes := [113, 117, 105, 116]

def LINEMAX : Nat := 131072

def finishCmd (st : St) : Cmd → Out
  | .hostlistErr => .lines [205] true st
  | .internalErr => .lines [204] true st
  | .noSuchNodes => .lines [209] true st
  | .unimpl => .lines [213] true st
  | .accepted _ _ => .installed { st with busy := true }
  | .fatal => .exit

/-- the dispatch chain of `_parse_input` as an ordered rule list: the first rule that fires wins,
    exactly like the `else if` cascade -/
def rules (run : Com → Option Bytes → Cmd) (nNodes nDev : Nat) (st : St) (s : Bytes) : List (Option Out) :=
  let whenP (c : Bool) (o : Out) : Option Out := if c then some o else none
  let cmdArg (kw : Bytes) (c : Com) : Option Out := (scan kw s).map fun a => finishCmd st (run c (some a))
  let cmdAll (kw : Bytes) (c : Com) : Option Out := whenP (casePrefix kw s) (finishCmd st (run c none))
  let devReply : Out := .lines (List.replicate nDev 304 ++ [103]) true st
  [ whenP (casePrefix kwHelp s) (.lines (List.replicate 15 301 ++ [103]) true st),
    whenP (casePrefix kwNodes s) (.lines ((if st.exprange then List.replicate nNodes 307 else [306]) ++ [103]) true st),
    whenP (casePrefix kwTelemetry s) (.lines [104] true { st with telemetry := !st.telemetry }),
    whenP (casePrefix kwExprange s) (.lines [105] true { st with exprange := !st.exprange }),
    whenP (casePrefix kwQuit s) (.lines [101] false { st with quit := true }),
    cmdArg kwOn .on, cmdArg kwOff .off, cmdArg kwCycle .cycle, cmdArg kwReset .reset,
    cmdArg kwFlash .flash, cmdArg kwUnflash .unflash,
    cmdArg kwStatus .status, cmdAll kwStatus .status,
    cmdArg kwTemp .temp, cmdAll kwTemp .temp,
    cmdArg kwBeacon .beacon, cmdAll kwBeacon .beacon,
    (scan kwDevice s).map (fun _ => devReply), whenP (casePrefix kwDevice s) devReply ]

/-- `_parse_input` on a stripped line.  `run com arg` abstracts command creation; `nNodes` is the
    number of 307 lines an expanded `nodes` reply has, `nDev` the number of 304 lines. -/
def parseInput (run : Com → Option Bytes → Cmd) (nNodes nDev : Nat) (st : St) (s : Bytes) : Out :=
  if s.length ≥ LINEMAX then .lines [203] true st
  else if st.busy then .lines [208] false st
  else ((rules run nNodes nDev st s).findSome? id).getD (.lines [201] true st)

def terminal (c : Nat) : Bool := 100 ≤ c && c < 300
def info (c : Nat) : Bool := 300 ≤ c && c < 400

/-- shape the protocol requires of what one request line produces immediately -/
def OneTerminal : Out → Prop
  | .lines codes prompt _ => ∃ pre t, codes = pre ++ [t] ∧ terminal t = true ∧ (∀ c ∈ pre, info c = true) ∧
      (prompt = false ↔ (t = 208 ∨ t = 101))
  | .installed st => st.busy = true
  | .exit => False

theorem finishCmd_ok (st : St) (c : Cmd) (h : c ≠ .fatal) : OneTerminal (finishCmd st c) := by
  cases c with
  | fatal => exact absurd rfl h
  | accepted n hn => simp [finishCmd, OneTerminal]
  | hostlistErr => exact ⟨[], 205, rfl, by decide, by simp, by decide⟩
  | internalErr => exact ⟨[], 204, rfl, by decide, by simp, by decide⟩
  | noSuchNodes => exact ⟨[], 209, rfl, by decide, by simp, by decide⟩
  | unimpl => exact ⟨[], 213, rfl, by decide, by simp, by decide⟩

theorem replicate_info (n c : Nat) (h : info c = true) : ∀ x ∈ List.replicate n c, info x = true := by
  intro x hx; rw [(List.mem_replicate.mp hx).2]; exact h

theorem lines1 (t : Nat) (p : Bool) (st : St) (ht : terminal t = true) (hp : p = false ↔ (t = 208 ∨ t = 101)) :
    OneTerminal (.lines [t] p st) := ⟨[], t, rfl, ht, by simp, hp⟩

theorem linesRep (n c : Nat) (st : St) (hc : info c = true) :
    OneTerminal (.lines (List.replicate n c ++ [103]) true st) :=
  ⟨List.replicate n c, 103, rfl, by decide, replicate_info n c hc, by decide⟩

theorem rules_ok (run : Com → Option Bytes → Cmd) (hrun : ∀ c a, run c a ≠ .fatal)
    (nNodes nDev : Nat) (st : St) (s : Bytes) :
    ∀ r ∈ rules run nNodes nDev st s, ∀ o, r = some o → OneTerminal o := by
  have hw : ∀ (c : Bool) (o o' : Out), OneTerminal o → (if c then some o else none) = some o' → OneTerminal o' := by
    intro c o o' ho h; split at h <;> simp at h; subst h; exact ho
  have hm : ∀ (x : Option Bytes) (f : Bytes → Out) (o' : Out), (∀ a, OneTerminal (f a)) → x.map f = some o' → OneTerminal o' := by
    intro x f o' hf h; cases x with
    | none => simp at h
    | some a => simp at h; subst h; exact hf a
  have hdev : OneTerminal (.lines (List.replicate nDev 304 ++ [103]) true st) := linesRep _ _ _ (by decide)
  intro r hr o ho
  simp only [rules, List.mem_cons, List.mem_nil_iff, or_false] at hr
  rcases hr with rfl | rfl | rfl | rfl | rfl | rfl | rfl | rfl | rfl | rfl | rfl | rfl | rfl | rfl | rfl | rfl | rfl | rfl | rfl
  · exact hw _ _ _ (linesRep _ _ _ (by decide)) ho
  · refine hw _ _ _ ?_ ho
    split
    · exact linesRep _ _ _ (by decide)
    · exact ⟨[306], 103, rfl, by decide, by simp [info], by decide⟩
  · exact hw _ _ _ (lines1 _ _ _ (by decide) (by decide)) ho
  · exact hw _ _ _ (lines1 _ _ _ (by decide) (by decide)) ho
  · exact hw _ _ _ (lines1 _ _ _ (by decide) (by decide)) ho
  all_goals first
    | exact hm _ _ _ (fun a => finishCmd_ok _ _ (hrun _ _)) ho
    | exact hw _ _ _ (finishCmd_ok _ _ (hrun _ _)) ho
    | exact hm _ _ _ (fun _ => hdev) ho
    | exact hw _ _ _ hdev ho

/-- C04/C06 local lemma: whatever the bytes of the line and whatever the client state, as long as
    command creation never takes the fatal exit, the line is answered by exactly one terminal line
    (last, preceded only by 3xx lines, followed by a prompt unless it is 208 or 101) or installs a
    command and answers nothing yet. -/
theorem C04_one_terminal (run : Com → Option Bytes → Cmd) (hrun : ∀ c a, run c a ≠ .fatal)
    (nNodes nDev : Nat) (st : St) (s : Bytes) : OneTerminal (parseInput run nNodes nDev st s) := by
  unfold parseInput
  split
  · exact lines1 _ _ _ (by decide) (by decide)
  · split
    · exact lines1 _ _ _ (by decide) (by decide)
    · cases hf : (rules run nNodes nDev st s).findSome? id with
      | none => exact lines1 _ _ _ (by decide) (by decide)
      | some o =>
        obtain ⟨r, hr, hro⟩ := List.exists_of_findSome?_eq_some hf
        exact rules_ok run hrun nNodes nDev st s r hr o hro

def Out.isExit : Out → Bool | .exit => true | _ => false

/-- and as the code stands the hypothesis is needed: a reversed range (`on t[5-1]`) takes the daemon
    down, because command creation leaves through `lsd_fatal_error` (F1) -/
theorem C06_total_counterexample :
    (parseInput (fun _ _ => .fatal) 0 0 ⟨false, false, false, false⟩ [111, 110, 32, 116, 91, 53, 45, 49, 93]).isExit = true := by
  decide +kernel

end Pm.Client

