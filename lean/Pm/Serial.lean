import Pm.Generated.TermiosConsts
/-! # Serial devices: `device_serial.c` and the tty line discipline it configures

Three layers, all executable (core Lean only):

1. `parseFlags` — the `sscanf(ser->flags, "%d,%d%c%d", &baud, &databits, &parity, &stopbits)` of `serial_connect`, with the
   defaults `9600,8N1` and the `assert(n >= EOF && n <= 4)` that follows it.
2. `Termios`, `serialSetup` — `_serial_setup` edit by edit, in the order of the C code, over the numeric constants of this
   platform (`Pm/Generated/TermiosConsts.lean`, produced by compiling and running a C program; the baud table is the
   `baudmap[]` of the C file itself).
3. `ttyOut`, `ttyIn` — what the Linux line discipline (`drivers/tty/n_tty.c`) does to bytes, as a function of the flags:
   the output side (`do_output_char`) and the input side (`n_tty_receive_buf_standard`, `n_tty_receive_char_special`,
   `eraser`, the echo buffer).  `uartTx`/`uartRx` say what the hardware character format adds below the line discipline
   (`CSIZE`, `CREAD`) — on a pseudo-terminal there is no such layer.

The correspondence layer (`lib/seriallayer.py`, `harness/u_serial.c`, `SrMain.lean`) runs the real `serial_connect` /
`_serial_setup` on a pseudo-terminal and pushes bytes through the real kernel both ways, in the state `_serial_setup`
leaves *and* in randomly drawn `termios` states (so that the tty model itself is compared with the kernel, inside the
domain `validated` below).  Theorems: `Pm/SerialProof.lean`, `Pm/Props/C09.lean` section 8.

What the model made visible in the C code (reproduced on the real code by the layer, none a byte alteration):
* (repaired, d5bec1f) a device declared without flags, or with a blank flags string, aborted the daemon at connect time:
  `sscanf` answers `EOF` = -1 and the assertion read `n >= 0`; now `n >= EOF`, and blank means the defaults;
* (repaired, 1c18a0c) `_serial_setup` left `c_cc[VMIN]`/`c_cc[VTIME]` as found: with `VMIN > 1`, `VTIME = 0` left by a previous
  user of the port, `poll` stayed silent until `VMIN` bytes were queued; now it sets 1 / 0 (`pollReadable`);
* (observation) `_serial_setup` never sets `CREAD`/`CLOCAL` and leaves `CRTSCTS`, `HUPCL` as found (`uartRx`; not observable on a pty).

Flag words are `Nat` bit sets.  `w &= ~m` is `clr w m = w ^^^ (w &&& m)` (no word width is needed to clear bits),
`w |= m` is `w ||| m`. -/
namespace Pm.Serial
open Pm.Generated.Termios

abbrev Bytes := List UInt8

/-! ## 1. the flags string -/

/-- the four values `_serial_setup` receives; `parity` is the byte `%c` stored (compared with `'n' 'N' 'e' 'E' 'o' 'O'`) -/
structure Params where
  baud : Int
  databits : Int
  parity : UInt8
  stopbits : Int
  deriving DecidableEq, Repr, Inhabited

/-- `int baud = 9600, databits = 8, stopbits = 1; char parity = 'N';` -/
def defaults : Params := { baud := 9600, databits := 8, parity := 78, stopbits := 1 }

def isSpace (b : UInt8) : Bool := b == 32 || (9 ≤ b.toNat && b.toNat ≤ 13)
def isDigit (b : UInt8) : Bool := 48 ≤ b.toNat && b.toNat ≤ 57
def digitsVal (ds : Bytes) : Nat := ds.foldl (fun n d => n * 10 + (d.toNat - 48)) 0
/-- the value is accumulated in a `long` (saturating like `strtol`) and stored through an `int *` -/
def toInt32 (v : Int) : Int :=
  let m := v % 4294967296
  if m ≥ 2147483648 then m - 4294967296 else m

/-- outcome of one `%d` directive -/
inductive ScanD where
  | eof                              -- end of input before anything but white space: *input failure*
  | fail                             -- no digits: *matching failure*
  | ok (v : Int) (rest : Bytes)
  deriving Repr

/-- one `%d` of glibc's `sscanf`: skip white space, optional sign, at least one decimal digit -/
def scanD (s : Bytes) : ScanD :=
  let s := s.dropWhile isSpace
  if s.isEmpty then .eof else
  let (neg, r) := match s with
    | 45 :: r => (true, r)
    | 43 :: r => (false, r)
    | _ => (false, s)
  let ds := r.takeWhile isDigit
  if ds.isEmpty then .fail else
  let v : Int := digitsVal ds
  let v := if neg then (if v > 9223372036854775808 then -9223372036854775808 else -v) else (if v > 9223372036854775807 then 9223372036854775807 else v)
  .ok (toInt32 v) (r.dropWhile isDigit)

/-- a C string ends at the first NUL -/
def cstr (s : Bytes) : Bytes := s.takeWhile (· != 0)

/-- `n = sscanf(flags, "%d,%d%c%d", &baud, &databits, &parity, &stopbits)` starting from the defaults: the return value
    (`-1` = `EOF`: the string holds nothing but white space) and the four variables afterwards.  `,` must follow the first
    number immediately; `%c` takes the very next byte, white space included. -/
def sscanfFlags (s : Bytes) : Int × Params :=
  let d := defaults
  match scanD s with
  | .eof => (-1, d)
  | .fail => (0, d)
  | .ok baud r =>
    let d := { d with baud := baud }
    match r with
    | 44 :: r =>
      match scanD r with
      | .ok db r =>
        let d := { d with databits := db }
        match r with
        | c :: r =>
          let d := { d with parity := c }
          match scanD r with
          | .ok sb _ => (4, { d with stopbits := sb })
          | _ => (3, d)
        | [] => (2, d)
      | _ => (1, d)
    | _ => (1, d)

/-- the parameters `serial_connect` goes on with: `assert(n >= EOF && n <= 4)` follows the `sscanf`, and `none` would be a
    failing assertion (the daemon aborts).  `EOF` = -1 is what `sscanf` answers for a string that holds nothing but white
    space — the empty string `serial_create` stores for a device line without flags included: no conversion took place, all
    four defaults stand.  (Before fix d5bec1f the assertion read `n >= 0` and such a device aborted the daemon.)  Nothing is
    refused here (`SerialProof.parseFlags_some`): a string that does not parse leaves defaults in place, and values that make no
    sense are refused by `serialSetup`. -/
def parseFlags (s : Bytes) : Option Params :=
  let (n, p) := sscanfFlags (cstr s)
  if n < -1 || n > 4 then none else some p

/-! ## 2. `struct termios` and `_serial_setup` -/

/-- the part of `struct termios` the model speaks about.  `ispeed`/`ospeed` are glibc's `c_ispeed`/`c_ospeed`
    members (with glibc 2.36 they hold the `B…` constant, which also lives in the `CBAUD` bits of `c_cflag`);
    the control characters are those the line discipline compares input with (`0` = `_POSIX_VDISABLE`: never matches). -/
structure Termios where
  iflag : Nat
  oflag : Nat
  cflag : Nat
  lflag : Nat
  ispeed : Nat := 0
  ospeed : Nat := 0
  vmin : Nat := 1
  vtime : Nat := 0
  vintr : UInt8 := 3
  vquit : UInt8 := 28
  verase : UInt8 := 127
  vkill : UInt8 := 21
  veof : UInt8 := 4
  vstart : UInt8 := 17
  vstop : UInt8 := 19
  vsusp : UInt8 := 26
  veol : UInt8 := 0
  vreprint : UInt8 := 18
  vwerase : UInt8 := 23
  vlnext : UInt8 := 22
  veol2 : UInt8 := 0
  deriving DecidableEq, Repr, Inhabited

/-- `w &= ~m` -/
def clr (w m : Nat) : Nat := w ^^^ (w &&& m)
/-- `(w & m) != 0` -/
def flag (w m : Nat) : Bool := w &&& m != 0

/-- glibc-internal marker in `c_iflag` for "input speed B0" (`sysdeps/unix/sysv/linux/speed.c`); not in the public headers -/
def IBAUD0 : Nat := 2147483648
/-- `__MAX_BAUD` -/
def maxBaud : Nat := 4111

/-- `cfsetispeed` / `cfsetospeed` refuse a constant that is not a speed -/
def badSpeed (b : Nat) : Bool := clr b CBAUD != 0 && (b < 4097 || b > maxBaud)

/-- glibc 2.36 `cfsetispeed` -/
def cfsetispeed (t : Termios) (b : Nat) : Option Termios :=
  if badSpeed b then none else
  if b == 0 then some { t with ispeed := 0, iflag := t.iflag ||| IBAUD0 }
  else some { t with ispeed := b, iflag := clr t.iflag IBAUD0, cflag := clr t.cflag CBAUD ||| b }

/-- glibc 2.36 `cfsetospeed` -/
def cfsetospeed (t : Termios) (b : Nat) : Option Termios :=
  if badSpeed b then none else some { t with ospeed := b, cflag := clr t.cflag CBAUD ||| b }

/-- the loop over `baudmap[]`: the constant of the first row whose baud is the one asked for -/
def lookupBaud (baud : Int) : Option Nat :=
  (baudmap.find? fun p => (p.1 : Int) == baud).map (·.2)

/-- which of the four `err(...)`; `return -1` branches `_serial_setup` left through -/
inductive SetupErr where
  | baud | databits | stopbits | parity
  deriving DecidableEq, Repr

def setBaud (t : Termios) (baud : Int) : Except SetupErr Termios :=
  match lookupBaud baud with
  | none => .error .baud
  | some b =>
    match cfsetispeed t b with
    | none => .error .baud
    | some t => match cfsetospeed t b with
      | none => .error .baud
      | some t => .ok t

def setDatabits (t : Termios) (databits : Int) : Except SetupErr Termios :=
  if databits == 7 then .ok { t with cflag := clr t.cflag CSIZE ||| CS7 }
  else if databits == 8 then .ok { t with cflag := clr t.cflag CSIZE ||| CS8 }
  else .error .databits

def setStopbits (t : Termios) (stopbits : Int) : Except SetupErr Termios :=
  if stopbits == 1 then .ok { t with cflag := clr t.cflag CSTOPB }
  else if stopbits == 2 then .ok { t with cflag := t.cflag ||| CSTOPB }
  else .error .stopbits

def setParity (t : Termios) (parity : UInt8) : Except SetupErr Termios :=
  if parity == 110 || parity == 78 then .ok { t with cflag := clr t.cflag PARENB }
  else if parity == 101 || parity == 69 then .ok { t with cflag := clr (t.cflag ||| PARENB) PARODD }
  else if parity == 111 || parity == 79 then .ok { t with cflag := t.cflag ||| PARENB ||| PARODD }
  else .error .parity

/-- `tio.c_oflag &= ~OPOST; tio.c_iflag = tio.c_lflag = 0; tio.c_cc[VMIN] = 1; tio.c_cc[VTIME] = 0;` (the last two since
    fix 1c18a0c: before, `VMIN`/`VTIME` were left as found and `poll` could stay silent with bytes queued) -/
def setRaw (t : Termios) : Termios := { t with oflag := clr t.oflag OPOST, iflag := 0, lflag := 0, vmin := 1, vtime := 0 }

/-- `_serial_setup` between `tcgetattr` and `tcsetattr`, with the branch it fails in -/
def serialSetupE (t : Termios) (p : Params) : Except SetupErr Termios := do
  let t ← setBaud t p.baud
  let t ← setDatabits t p.databits
  let t ← setStopbits t p.stopbits
  let t ← setParity t p.parity
  return setRaw t

/-- `_serial_setup`: the `termios` handed to `tcsetattr`, `none` when it returns -1 before that -/
def serialSetup (t : Termios) (p : Params) : Option Termios := (serialSetupE t p).toOption

/-- what `tcsetattr` followed by `tcgetattr` on a pseudo-terminal makes of the settings: glibc strips its `IBAUD0` marker,
    the kernel drops `ADDRB` (no driver support) and `drivers/tty/pty.c: pty_set_termios` does not keep character size and
    parity (`c_cflag &= ~(CSIZE | PARENB); c_cflag |= CS8 | CREAD`).  Only used to compare read-backs on the test platform; a
    real serial port keeps size and parity. -/
def ptyKeeps (t : Termios) : Termios :=
  { t with iflag := clr t.iflag IBAUD0, cflag := clr (clr t.cflag ADDRB) (CSIZE ||| PARENB) ||| (CS8 ||| CREAD) }

/-- `tcsetattr` of Debian's glibc 2.36 on a pseudo-terminal (its `tcsetattr` reads the settings before and after the
    `TCSETS`): it fails with `EINVAL` exactly when none of the four flag words changed (the control characters do not count)
    **and** the kernel did not keep `PARENB`/`CREAD` as asked, or a non-zero `CSIZE` as asked — which on a pty (`ptyKeeps`: `CS8`,
    no parity, `CREAD` forced) means: 6 or 7 data bits (`CS5` is 0 and passes), parity, or a cleared `CREAD` were
    asked for.  `cur`: the state of the slave (as the kernel holds it), `asked`: what is handed to `tcsetattr`.  The `TCSETS`
    itself has been carried out (control characters included) when this is reported.  Checked against the test platform
    (Linux 6.18 / glibc 2.36-9+deb12u14) on 30 000 random pairs; test platform only, a real port keeps size and parity. -/
def ptyRefuses (cur asked : Termios) : Bool :=
  let new := ptyKeeps asked
  (new.iflag == cur.iflag && new.oflag == cur.oflag && new.cflag == cur.cflag && new.lflag == cur.lflag) &&
  ((asked.cflag &&& (PARENB ||| CREAD)) != (new.cflag &&& (PARENB ||| CREAD)) ||
   ((asked.cflag &&& CSIZE) != 0 && (asked.cflag &&& CSIZE) != (new.cflag &&& CSIZE)))

/-- `cfgetospeed` / `cfgetispeed` of glibc 2.36 -/
def cfgetospeed (t : Termios) : Nat := t.cflag &&& CBAUD
def cfgetispeed (t : Termios) : Nat := if flag t.iflag IBAUD0 then 0 else t.cflag &&& CBAUD

/-! ## 3. the line discipline -/

/-! ### character classes of the kernel (`lib/ctype.c`: Latin-1) -/
def kIscntrl (c : UInt8) : Bool := c.toNat < 32 || c == 127
def kIslower (c : UInt8) : Bool := (97 ≤ c.toNat && c.toNat ≤ 122) || (223 ≤ c.toNat && c.toNat ≤ 246) || 248 ≤ c.toNat
def kIsupper (c : UInt8) : Bool := (65 ≤ c.toNat && c.toNat ≤ 90) || (192 ≤ c.toNat && c.toNat ≤ 214) || (216 ≤ c.toNat && c.toNat ≤ 222)
def kIsdigit (c : UInt8) : Bool := 48 ≤ c.toNat && c.toNat ≤ 57
def kIsalnum (c : UInt8) : Bool := kIslower c || kIsupper c || kIsdigit c
def kToupper (c : UInt8) : UInt8 := if kIslower c then c - 32 else c
def kTolower (c : UInt8) : UInt8 := if kIsupper c then c + 32 else c
/-- `is_continuation`: a UTF-8 continuation byte when `IUTF8` is set -/
def isCont (t : Termios) (c : UInt8) : Bool := flag t.iflag IUTF8 && (c &&& 192) == 128

/-! ### output: `do_output_char` -/

/-- `ldata->column`, `ldata->canon_column` -/
structure Col where
  col : Nat := 0
  canon : Nat := 0
  deriving DecidableEq, Repr, Inhabited

/-- one byte written with `OPOST` set: what reaches the driver and the columns afterwards -/
def outChar (t : Termios) (s : Col) (c : UInt8) : Bytes × Col :=
  if c == 10 then
    let s := if flag t.oflag ONLRET then { s with col := 0 } else s
    if flag t.oflag ONLCR then ([13, 10], { col := 0, canon := 0 })
    else ([10], { s with canon := s.col })
  else if c == 13 then
    if flag t.oflag ONOCR && s.col == 0 then ([], s)
    else if flag t.oflag OCRNL then ([10], if flag t.oflag ONLRET then { col := 0, canon := 0 } else s)
    else ([13], { col := 0, canon := 0 })
  else if c == 9 then
    let n := 8 - s.col % 8
    if t.oflag &&& TABDLY == XTABS then (List.replicate n 32, { s with col := s.col + n })
    else ([9], { s with col := s.col + n })
  else if c == 8 then ([8], { s with col := s.col - 1 })
  else if kIscntrl c then ([c], s)
  else
    let c := if flag t.oflag OLCUC then kToupper c else c
    ([c], if isCont t c then s else { s with col := s.col + 1 })

def outChars (t : Termios) : Col → Bytes → Bytes × Col
  | s, [] => ([], s)
  | s, c :: r =>
    let (o, s) := outChar t s c
    let (o', s) := outChars t s r
    (o ++ o', s)

/-- **what the other end of the line receives when `bs` is written to the tty** (a tty at column 0) -/
def ttyOut (t : Termios) (bs : Bytes) : Bytes :=
  if flag t.oflag OPOST then (outChars t {} bs).1 else bs

/-! ### input: `n_tty_receive_buf_standard` and the echo buffer -/

/-- an entry of the echo buffer (`ECHO_OP_*`) -/
inductive EchoOp where
  | ch (c : UInt8)            -- a byte that goes through output processing when `OPOST` is set
  | ff                        -- an escaped 0xff: put as it is (one column)
  | ctl (c : UInt8)           -- a control character echoed as `^X`
  | setCanonCol
  | eraseTab (n : Nat) (afterTab : Bool)
  deriving DecidableEq, Repr

structure InSt where
  done : Bytes := []            -- what `read` can take: everything (non-canonical), completed lines (canonical)
  line : Bytes := []            -- canonical mode: the line being edited
  nlines : Nat := 0             -- canonical mode: completed lines waiting to be read
  pend : List EchoOp := []      -- committed echo operations not yet processed
  echoed : Bytes := []          -- what the echo sent back
  col : Col := {}
  stopped : Bool := false       -- output stopped by the STOP character (`IXON`)
  lnext : Bool := false
  deriving Repr, Inhabited

/-- `echo_char_raw` -/
def echoRaw (c : UInt8) : List EchoOp := if c == 255 then [.ff] else [.ch c]
/-- `echo_char` -/
def echoChar (t : Termios) (c : UInt8) : List EchoOp :=
  if c == 255 then [.ff] else if flag t.lflag ECHOCTL && kIscntrl c && c != 9 then [.ctl c] else [.ch c]

/-- one entry of the echo buffer in `__process_echoes` -/
def procOp (t : Termios) (s : Col) : EchoOp → Bytes × Col
  | .ch c => if flag t.oflag OPOST then outChar t s c else ([c], s)
  | .ff => ([255], { s with col := s.col + 1 })
  | .ctl c => ([94, c ^^^ 64], { s with col := s.col + 2 })
  | .setCanonCol => ([], { s with canon := s.col })
  | .eraseTab n after =>
    let n := if after then n else n + s.canon
    let nb := 8 - n % 8
    (List.replicate nb 8, { s with col := s.col - nb })

def procOps (t : Termios) : Col → List EchoOp → Bytes × Col
  | s, [] => ([], s)
  | s, o :: r =>
    let (b, s) := procOp t s o
    let (b', s) := procOps t s r
    (b ++ b', s)

/-- `process_echoes` / `flush_echoes`: nothing moves while output is stopped (`pty_write_room` is 0) -/
def processEchoes (t : Termios) (st : InSt) : InSt :=
  if st.stopped then st else
  let (b, c) := procOps t st.col st.pend
  { st with echoed := st.echoed ++ b, col := c, pend := [] }

/-- `start_tty; process_echoes` -/
def startTty (t : Termios) (st : InSt) : InSt := processEchoes t { st with stopped := false }

/-- restart by any character (`IXANY`) -/
def anyRestart (t : Termios) (st : InSt) : InSt :=
  if st.stopped && flag t.iflag IXON && flag t.iflag IXANY then startTty t st else st

def canonMode (t : Termios) : Bool := flag t.lflag ICANON

/-- `put_tty_queue`, with the `PARMRK` doubling of 0xff -/
def putQueue (t : Termios) (st : InSt) (c : UInt8) : InSt :=
  let bs := if c == 255 && flag t.iflag PARMRK then [c, c] else [c]
  if canonMode t then { st with line := st.line ++ bs } else { st with done := st.done ++ bs }

/-- echo of an ordinary character: `echo_set_canon_col` at the start of a line, then `echo_char` -/
def echoOrd (t : Termios) (st : InSt) (c : UInt8) : InSt :=
  { st with pend := st.pend ++ (if canonMode t && st.line.isEmpty then [.setCanonCol] else []) ++ echoChar t c }

/-- `n_tty_receive_char` -/
def recvChar (t : Termios) (st : InSt) (c : UInt8) : InSt :=
  let st := anyRestart t st
  let st := if flag t.lflag ECHO then echoOrd t st c else st
  putQueue t st c

/-- the line is complete (`handle_newline`); the EOF character itself is not delivered -/
def newline (st : InSt) (c : Option UInt8) : InSt :=
  { st with done := st.done ++ st.line ++ c.toList, line := [], nlines := st.nlines + 1 }

/-- columns taken by the characters before an erased tab, counted backwards to the previous tab or the start of the line -/
def tabCount (t : Termios) : Bytes → Nat → Nat × Bool
  | [], n => (n, false)
  | c :: r, n =>
    if c == 9 then (n, true)
    else if kIscntrl c then tabCount t r (if flag t.lflag ECHOCTL then n + 2 else n)
    else tabCount t r (n + 1)

/-- what `eraser` puts into the echo buffer for one erased character `c` (`rest`: the line before it, last byte first);
    `ECHOPRT` is not modelled -/
def eraseEcho (t : Termios) (single : Bool) (c : UInt8) (rest : Bytes) : List EchoOp :=
  if !flag t.lflag ECHO then []
  else if single && !flag t.lflag ECHOE then echoChar t t.verase
  else if c == 9 then
    let (n, after) := tabCount t rest 0
    [.eraseTab (n % 8) after]
  else
    (if kIscntrl c && flag t.lflag ECHOCTL then [.ch 8, .ch 32, .ch 8] else []) ++
    (if !kIscntrl c || flag t.lflag ECHOCTL then [.ch 8, .ch 32, .ch 8] else [])

inductive KillType where
  | erase | werase | kill
  deriving DecidableEq, Repr

/-- the loop of `eraser` over the line, last byte first: the bytes that stay (still reversed) and the echo -/
def eraseLoop (t : Termios) (k : KillType) : Bytes → Nat → List EchoOp → Bytes × List EchoOp
  | [], _, acc => ([], acc)
  | c :: rest, seen, acc =>
    let al := kIsalnum c || c == 95
    if k == .werase && !al && seen > 0 then (c :: rest, acc)
    else
      let seen := if k == .werase && al then seen + 1 else seen
      let acc := acc ++ eraseEcho t (k == .erase) c rest
      if k == .erase then (rest, acc) else eraseLoop t k rest seen acc

/-- `eraser` -/
def eraser (t : Termios) (st : InSt) (c : UInt8) : InSt :=
  if st.line.isEmpty then st else
  let run (k : KillType) : InSt :=
    let (rl, ops) := eraseLoop t k st.line.reverse 0 []
    { st with line := rl.reverse, pend := st.pend ++ ops }
  if c == t.verase then run .erase
  else if c == t.vwerase then run .werase
  else if !flag t.lflag ECHO then { st with line := [] }
  else if !flag t.lflag ECHOK || !flag t.lflag ECHOKE || !flag t.lflag ECHOE then
    { st with line := [], pend := st.pend ++ echoChar t t.vkill ++ (if flag t.lflag ECHOK then echoRaw 10 else []) }
  else run .kill

/-- `n_tty_receive_signal_char`: `isig` (without `NOFLSH`: what was received and the echo buffer are discarded),
    `start_tty`, the character echoed -/
def signalChar (t : Termios) (st : InSt) (c : UInt8) : InSt :=
  let st := if flag t.lflag NOFLSH then st else { st with done := [], line := [], nlines := 0, pend := [] }
  let st := if flag t.iflag IXON then { st with stopped := false } else st
  if flag t.lflag ECHO then { st with pend := st.pend ++ echoChar t c } else processEchoes t st

/-- the bit of `ldata->char_map`: does this byte take the slow path -/
def inCharMap (t : Termios) (c : UInt8) : Bool :=
  c != 0 &&
  ((c == 13 && (flag t.iflag IGNCR || flag t.iflag ICRNL)) || (c == 10 && flag t.iflag INLCR) ||
   (canonMode t && (c == t.verase || c == t.vkill || c == t.veof || c == 10 || c == t.veol ||
      (flag t.lflag IEXTEN && (c == t.vwerase || c == t.vlnext || c == t.veol2 || (flag t.lflag ECHO && c == t.vreprint))))) ||
   (flag t.iflag IXON && (c == t.vstart || c == t.vstop)) ||
   (flag t.lflag ISIG && (c == t.vintr || c == t.vquit || c == t.vsusp)))

/-- the canonical-mode part of `n_tty_receive_char_special`; `none`: not handled there -/
def canonSpecial (t : Termios) (st : InSt) (c : UInt8) : Option InSt :=
  let iext := flag t.lflag IEXTEN
  let echo := flag t.lflag ECHO
  if c == t.verase || c == t.vkill || (c == t.vwerase && iext) then some (eraser t st c)
  else if c == t.vlnext && iext then
    some { st with lnext := true, pend := st.pend ++ (if echo && flag t.lflag ECHOCTL then [.ch 94, .ch 8] else []) }
  else if c == t.vreprint && echo && iext then
    some { st with pend := st.pend ++ echoChar t c ++ echoRaw 10 ++ st.line.flatMap (echoChar t) }
  else if c == 10 then
    let st := if echo || flag t.lflag ECHONL then { st with pend := st.pend ++ echoRaw 10 } else st
    some (newline st (some 10))
  else if c == t.veof then some (newline st none)
  else if c == t.veol || (c == t.veol2 && iext) then
    let st := if echo then echoOrd t st c else st
    let st := if c == 255 && flag t.iflag PARMRK then { st with line := st.line ++ [c] } else st
    some (newline st (some c))
  else none

/-- `n_tty_receive_char_special` -/
def special (t : Termios) (st : InSt) (c : UInt8) : InSt :=
  if flag t.iflag IXON && c == t.vstart then startTty t st
  else if flag t.iflag IXON && c == t.vstop then { st with stopped := true }
  else if flag t.lflag ISIG && (c == t.vintr || c == t.vquit || c == t.vsusp) then signalChar t st c
  else
    let st := anyRestart t st
    if c == 13 && flag t.iflag IGNCR then st else
    let c := if c == 13 then (if flag t.iflag ICRNL then 10 else c) else if c == 10 && flag t.iflag INLCR then 13 else c
    match (if canonMode t then canonSpecial t st c else none) with
    | some st => st
    | none =>
      let st := if flag t.lflag ECHO then (if c == 10 then { st with pend := st.pend ++ echoRaw 10 } else echoOrd t st c) else st
      putQueue t st c

/-- `ISTRIP`, then `IUCLC` (only with `IEXTEN`) -/
def preops (t : Termios) (c : UInt8) : UInt8 :=
  let c := if flag t.iflag ISTRIP then c &&& 127 else c
  if flag t.iflag IUCLC && flag t.lflag IEXTEN then kTolower c else c

/-- one received byte (`n_tty_receive_buf_standard`) -/
def inStep (t : Termios) (st : InSt) (c : UInt8) : InSt :=
  if st.lnext then recvChar t { st with lnext := false } (preops t c)
  else
    let c := preops t c
    if flag t.lflag EXTPROC then { st with done := st.done ++ [c] }
    else if inCharMap t c then special t st c else recvChar t st c

/-- the state after `bs` has arrived in one piece (`__receive_buf` ends with `flush_echoes`) -/
def ttyInSt (t : Termios) (bs : Bytes) : InSt :=
  let st := bs.foldl (inStep t) {}
  if flag t.lflag ECHO || flag t.lflag ECHONL then processEchoes t st else st

/-- **what a reader of the tty gets, and what is echoed back to the sender, when `bs` arrives in one piece and the reader
    reads afterwards.**  Canonical mode delivers completed lines only. -/
def ttyIn (t : Termios) (bs : Bytes) : Bytes × Bytes :=
  let st := ttyInSt t bs
  (st.done, st.echoed)

/-- after `bs` has arrived the descriptor is readable for `poll` (`n_tty_poll` → `input_available_p(tty, 1)`): with
    `ICANON` a completed line is waiting; otherwise at least `VMIN` bytes when `VTIME` is 0 and `VMIN` is not, else one byte -/
def pollReadable (t : Termios) (bs : Bytes) : Bool :=
  let st := ttyInSt t bs
  if canonMode t && !flag t.lflag EXTPROC then st.nlines > 0
  else st.done.length ≥ (if t.vtime == 0 && t.vmin != 0 then t.vmin else 1)

/-- bytes an entry occupies in the kernel's echo buffer -/
def echoCost : EchoOp → Nat
  | .ch _ => 1
  | .ff => 2
  | .ctl _ => 2
  | .setCanonCol => 2
  | .eraseTab _ _ => 3

/-- the largest backlog of unprocessed echo while `bs` is taken in.  From 256 bytes on (`ECHO_COMMIT_WATERMARK`) the kernel
    starts processing echoes in the middle of a piece, which `ttyIn` (one flush at the end) does not follow: the echo is
    compared with the kernel only below that. -/
def echoBacklog (t : Termios) (bs : Bytes) : Nat :=
  (bs.foldl (fun (p : InSt × Nat) c => let st := inStep t p.1 c; (st, max p.2 ((st.pend.map echoCost).sum))) ({}, 0)).2

/-- the flag settings inside which `ttyOut`/`ttyIn`/`pollReadable` are compared with the kernel on every run: `ECHOPRT` is
    clear, and in canonical mode `IUTF8` (multi-byte erase is not modelled) and `EXTPROC` (a lone EOF character becomes a
    zero-length read) are clear.  `IXOFF`, `IMAXBEL`, `IGNBRK`, `BRKINT`, `IGNPAR`, `INPCK` do not touch data bytes (they concern a
    full input queue, breaks and parity errors, which a byte stream does not contain); `XCASE`, `TOSTOP`, `FLUSHO`, `PENDIN` are
    inert in `n_tty` for a tty that is nobody's controlling terminal.  Further limits of the comparison: pieces of at most 80
    bytes (the model has no queue capacity: 4096 bytes of input), `echoBacklog` below 256, and no restart before a flushing
    signal character (whether echo already handed over is still in flight then depends on scheduling). -/
def validated (t : Termios) : Bool :=
  !flag t.lflag ECHOPRT && !(canonMode t && (flag t.iflag IUTF8 || flag t.lflag EXTPROC))

/-! ### below the line discipline: the character format of a real port -/

/-- number of data bits per character -/
def charBits (t : Termios) : Nat :=
  let s := t.cflag &&& CSIZE
  if s == CS5 then 5 else if s == CS6 then 6 else if s == CS7 then 7 else 8

/-- a UART sends the low `charBits` bits of each byte -/
def uartTx (t : Termios) (bs : Bytes) : Bytes := bs.map fun b => b &&& (2 ^ charBits t - 1).toUInt8

/-- a UART receives nothing with `CREAD` clear, and `charBits` bits per character otherwise -/
def uartRx (t : Termios) (bs : Bytes) : Bytes :=
  if flag t.cflag CREAD then bs.map fun b => b &&& (2 ^ charBits t - 1).toUInt8 else []

end Pm.Serial
