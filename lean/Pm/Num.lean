namespace Pm

def ndig (n : Nat) : Nat := (Nat.toDigits 10 n).length

/-- mirrors `_zero_padded(num, width)` in hostlist.c -/
def zeroPadded (n w : Nat) : Nat := if w > ndig n then w - ndig n else 0

/-- mirrors printf("%0*lu", w, n) -/
def fmtNum (w n : Nat) : List Char := List.replicate (zeroPadded n w) '0' ++ Nat.toDigits 10 n

theorem ndig_pos (n : Nat) : 0 < ndig n := Nat.length_toDigits_pos

theorem ndig_mono {n m : Nat} (h : n ≤ m) : ndig n ≤ ndig m := by
  unfold ndig
  have hm : (Nat.toDigits 10 m).length ≤ (Nat.toDigits 10 m).length := Nat.le_refl _
  have hpos : 0 < (Nat.toDigits 10 m).length := Nat.length_toDigits_pos
  rw [Nat.length_toDigits_le_iff (by decide) hpos] at hm ⊢
  omega

/-- mirrors `_width_equiv`: returns adjusted (wn', wm') on success -/
def widthEquiv (n wn m wm : Nat) : Option (Nat × Nat) :=
  let npad := zeroPadded n wn
  let nmpad := zeroPadded n wm
  let mpad := zeroPadded m wm
  let mnpad := zeroPadded m wn
  if npad ≠ nmpad ∧ mpad ≠ mnpad then none
  else if npad ≠ nmpad then
    (if mpad = mnpad then some (wn, wn) else none)
  else
    (if npad = nmpad then some (wm, wm) else none)

theorem fmt_of_pad_eq {lo w w' x : Nat} (hp : zeroPadded lo w = zeroPadded lo w') (hx : lo ≤ x) :
    fmtNum w x = fmtNum w' x := by
  have hm := ndig_mono hx
  unfold fmtNum
  congr 2
  unfold zeroPadded at *
  split at hp <;> split at hp <;> split <;> split <;> omega

/-- soundness of `_width_equiv` for whole ranges: after a successful call both ranges
    print every element exactly as before. -/
theorem widthEquiv_sound {n wn m wm wn' wm' : Nat} (h : widthEquiv n wn m wm = some (wn', wm')) :
    wn' = wm' ∧ (∀ x, n ≤ x → fmtNum wn' x = fmtNum wn x) ∧ (∀ y, m ≤ y → fmtNum wm' y = fmtNum wm y) := by
  unfold widthEquiv at h
  simp only at h
  split at h
  · cases h
  · split at h
    · split at h
      · rename_i h1 h2 h3
        cases h
        exact ⟨rfl, fun _ _ => rfl, fun y hy => fmt_of_pad_eq h3.symm hy⟩
      · cases h
    · split at h
      · rename_i h1 h2 h3
        cases h
        exact ⟨rfl, fun x hx => fmt_of_pad_eq h3.symm hx, fun _ _ => rfl⟩
      · cases h

end Pm

