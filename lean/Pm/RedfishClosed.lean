import Pm.RedfishSpec
/-! helper lemmas for C19, part 10: `specPower` (a fold over the targets sorted by depth) in closed form -/
namespace Pm.Redfish

/-- the status descendants see for `a` during an `off` of the targets `T`: a target whose host answers is
    (or will be) off; everything else is as in the initial state.  For `on` (no target has a target ancestor) and
    `stat`, the initial state. -/
def effStat (c : Cfg) (st0 : St) (cmd : Cmd) (T : List Nat) (a : Nat) : Stat :=
  if cmd = .off ∧ a ∈ T ∧ hostFails c a = false then .off else statOf c st0 a

def blk (c : Cfg) (st0 : St) (cmd : Cmd) (T : List Nat) (t : Nat) : Option (Nat × Stat) :=
  firstOff (effStat c st0 cmd T) (ancUp c t).reverse

/-- the line the rules give a known target of `on`/`off` -/
def powLine (c : Cfg) (st0 : St) (cmd : Cmd) (T : List Nat) (t : Nat) : Line :=
  match blk c st0 cmd T t with
  | some (a, s) => if cmd == .off && s == .off then .ok t else .dep t cmd s a
  | none => if hostFails c t then .status t .error else .ok t

/-- the target is actually switched -/
def succeeds (c : Cfg) (st0 : St) (cmd : Cmd) (T : List Nat) (t : Nat) : Bool :=
  (blk c st0 cmd T t).isNone && !hostFails c t

/-- the status recorded for a decided target -/
def decided (c : Cfg) (st0 : St) (cmd : Cmd) (T : List Nat) (t : Nat) : Stat :=
  match blk c st0 cmd T t with
  | some (_, s) => if cmd == .off && s == .off then .off else s
  | none => if hostFails c t then .error else if cmd == .on then .on else .off

/-- the plug states after the targets in `L` have been handled -/
def finalOn (c : Cfg) (st0 : St) (cmd : Cmd) (T : List Nat) (L : List Nat) (x : Nat) : Bool :=
  if cmd == .on then isOn st0 x || L.any (fun t => succeeds c st0 cmd T t && x == t)
  else isOn st0 x && !(L.any fun t => succeeds c st0 cmd T t && (x == t || isDesc c x t))

theorem firstOff_congr {f g : Nat → Stat} {l : List Nat} (h : ∀ a ∈ l, f a = g a) : firstOff f l = firstOff g l := by
  unfold firstOff
  congr 1
  exact List.map_congr_left (fun a ha => by rw [h a ha])

theorem chain_cons {c : Cfg} (hw : WF c = true) {t q : Nat} (h : parentOf c t = some q) :
    (ancUp c t).reverse = (ancUp c q).reverse ++ [q] := by
  rw [ancUp_cons hw h]; simp

theorem firstOff_single (f : Nat → Stat) (q : Nat) :
    firstOff f [q] = if f q ≠ .on then some (q, f q) else none := by
  unfold firstOff; simp [List.find?_cons]; split <;> simp_all

/-- what the fold sees on the chain of a target: decided targets by their decision, others by the initial state -/
def seenG (c : Cfg) (st0 : St) (cmd : Cmd) (T : List Nat) (a : Nat) : Stat :=
  if a ∈ T then decided c st0 cmd T a else statOf c st0 a

theorem statOf_fail {c : Cfg} {st : St} {a : Nat} (h : hostFails c a = true) : statOf c st a = .error := by
  simp [statOf, h]

/-- on a chain, "decided or initial" and the closed-form status have the same first non-`on` entry -/
theorem chain_agree_off {c : Cfg} (hw : WF c = true) (st0 : St) (T : List Nat) : ∀ t,
    firstOff (seenG c st0 .off T) (ancUp c t).reverse = firstOff (effStat c st0 .off T) (ancUp c t).reverse := by
  refine anc_induction hw _ ?_ ?_
  · intro t ht; rw [ancUp_root ht]; rfl
  · intro t q hq ih
    rw [chain_cons hw hq, firstOff_append, firstOff_append, ih]
    cases hb : firstOff (effStat c st0 .off T) (ancUp c q).reverse with
    | some r => rfl
    | none =>
      simp only [Option.none_or]
      rw [firstOff_single, firstOff_single]
      have : seenG c st0 .off T q = effStat c st0 .off T q := by
        unfold seenG effStat decided blk
        rw [hb]
        by_cases hT : q ∈ T
        · by_cases hf : hostFails c q = true
          · simp [hT, hf, statOf_fail hf]
          · simp [hT, hf]
        · simp [hT]
      rw [this]

theorem chain_agree_on {c : Cfg} (st0 : St) (T : List Nat) (t : Nat) (h : ∀ a ∈ ancUp c t, a ∉ T) :
    firstOff (seenG c st0 .on T) (ancUp c t).reverse = firstOff (effStat c st0 .on T) (ancUp c t).reverse := by
  apply firstOff_congr
  intro a ha
  have := h a (by simpa using ha)
  simp [seenG, effStat, this]

structure SpecInv (c : Cfg) (st0 : St) (cmd : Cmd) (T : List Nat) (L1 : List Nat)
    (acc : List (Nat × Stat) × List Line × St) : Prop where
  seen : ∀ a, seenStat c st0 acc.1 a = if a ∈ L1 then decided c st0 cmd T a else statOf c st0 a
  lines : acc.2.1 = L1.map (powLine c st0 cmd T)
  cur : ∀ x, isOn acc.2.2 x = finalOn c st0 cmd T L1 x

theorem seenStat_cons (c : Cfg) (st0 : St) (t : Nat) (s : Stat) (seen : List (Nat × Stat)) (a : Nat) :
    seenStat c st0 ((t, s) :: seen) a = if a = t then s else seenStat c st0 seen a := by
  unfold seenStat
  by_cases h : a = t
  · subst h; simp [List.lookup_cons]
  · have : (a == t) = false := by simp [h]
    simp [List.lookup_cons, this, h]

theorem finalOn_snoc_fail {c : Cfg} {st0 : St} {cmd : Cmd} {T L : List Nat} {t : Nat}
    (h : succeeds c st0 cmd T t = false) (x : Nat) : finalOn c st0 cmd T (L ++ [t]) x = finalOn c st0 cmd T L x := by
  unfold finalOn; simp [List.any_append, h]

theorem finalOn_snoc_ok {c : Cfg} {st0 : St} {cmd : Cmd} {T L : List Nat} {t : Nat} {cur : St} (hc : cmd ≠ .stat)
    (h : succeeds c st0 cmd T t = true) (hcur : ∀ x, isOn cur x = finalOn c st0 cmd T L x) (x : Nat) :
    isOn (powerSt c cur cmd t) x = finalOn c st0 cmd T (L ++ [t]) x := by
  cases cmd with
  | stat => exact absurd rfl hc
  | on =>
    rw [isOn_powerSt_on, hcur]
    unfold finalOn
    simp only [beq_self_eq_true, if_true, List.any_append, List.any_cons, List.any_nil, h, Bool.true_and, Bool.or_false]
    by_cases hx : x = t
    · simp [hx]
    · have hbe : (x == t) = false := by simp [hx]
      simp [hx, hbe]
  | off =>
    rw [isOn_powerSt_off _ _ _ _ _ (by decide), hcur]
    unfold finalOn
    have : (Cmd.off == Cmd.on) = false := rfl
    simp only [this, Bool.false_eq_true, if_false, List.any_append, List.any_cons, List.any_nil, h, Bool.true_and,
      Bool.or_false]
    by_cases hx : x = t
    · simp [hx]
    · have hbe : (x == t) = false := by simp [hx]
      simp [hx, hbe, Bool.and_assoc]

/-- one step of the fold keeps the closed form, provided the target's decided ancestors were handled before -/
theorem SpecInv_step {c : Cfg} (hw : WF c = true) {st0 : St} {cmd : Cmd} (hc : cmd ≠ .stat) {T L1 : List Nat}
    {acc : List (Nat × Stat) × List Line × St} {t : Nat} (h : SpecInv c st0 cmd T L1 acc)
    (hL1 : ∀ a ∈ L1, a ∈ T)
    (hanc : ∀ a ∈ ancUp c t, a ∈ T → a ∈ L1) (hon : cmd = .on → ∀ a ∈ ancUp c t, a ∉ T) :
    SpecInv c st0 cmd T (L1 ++ [t]) (specStep c st0 cmd acc t) := by
  rcases acc with ⟨seen, lines, cur⟩
  have hchain : firstOff (seenStat c st0 seen) (ancUp c t).reverse = blk c st0 cmd T t := by
    have e1 : firstOff (seenStat c st0 seen) (ancUp c t).reverse = firstOff (seenG c st0 cmd T) (ancUp c t).reverse := by
      apply firstOff_congr
      intro a ha
      have ha : a ∈ ancUp c t := by simpa using ha
      rw [h.seen a]
      unfold seenG
      by_cases hT : a ∈ T
      · simp [hT, hanc a ha hT]
      · have : a ∉ L1 := fun hh => hT (hL1 a hh)
        simp [hT, this]
    rw [e1]
    unfold blk
    cases cmd with
    | stat => exact absurd rfl hc
    | on => exact chain_agree_on st0 T t (hon rfl)
    | off => exact chain_agree_off hw st0 T t
  rw [specStep_eq, hchain]
  have hlines := h.lines
  have hcur := h.cur
  have hseen := h.seen
  simp only at hlines hcur hseen
  cases hb : blk c st0 cmd T t with
  | some as =>
    rcases as with ⟨a, s⟩
    have hsucc : succeeds c st0 cmd T t = false := by simp [succeeds, hb]
    simp only
    by_cases hoo : (cmd == .off && s == .off) = true
    · simp only [hoo, if_true]
      refine ⟨?_, ?_, ?_⟩
      · intro a'
        rw [seenStat_cons, hseen]
        by_cases e : a' = t
        · subst e; simp [decided, hb, hoo]
        · simp [e]
      · simp [hlines, powLine, hb, hoo]
      · intro x; rw [finalOn_snoc_fail hsucc]; exact hcur x
    · simp only [hoo, Bool.false_eq_true, if_false]
      refine ⟨?_, ?_, ?_⟩
      · intro a'
        rw [seenStat_cons, hseen]
        by_cases e : a' = t
        · subst e; simp [decided, hb, hoo]
        · simp [e]
      · simp [hlines, powLine, hb, hoo]
      · intro x; rw [finalOn_snoc_fail hsucc]; exact hcur x
  | none =>
    simp only
    by_cases hf : hostFails c t = true
    · have hsucc : succeeds c st0 cmd T t = false := by simp [succeeds, hf]
      simp only [hf, if_true]
      refine ⟨?_, ?_, ?_⟩
      · intro a'
        rw [seenStat_cons, hseen]
        by_cases e : a' = t
        · subst e; simp [decided, hb, hf]
        · simp [e]
      · simp [hlines, powLine, hb, hf]
      · intro x; rw [finalOn_snoc_fail hsucc]; exact hcur x
    · have hsucc : succeeds c st0 cmd T t = true := by simp [succeeds, hb, hf]
      simp only [hf, Bool.false_eq_true, if_false]
      refine ⟨?_, ?_, ?_⟩
      · intro a'
        rw [seenStat_cons, hseen]
        by_cases e : a' = t
        · subst e; simp [decided, hb, hf]
        · simp [e]
      · simp [hlines, powLine, hb, hf]
      · intro x; exact finalOn_snoc_ok hc hsucc hcur x

theorem SpecInv_fold {c : Cfg} (hw : WF c = true) {st0 : St} {cmd : Cmd} (hc : cmd ≠ .stat) {T : List Nat}
    (hon : cmd = .on → ∀ t ∈ T, ∀ a ∈ ancUp c t, a ∉ T) :
    ∀ (L2 L1 : List Nat) (acc : List (Nat × Stat) × List Line × St), SpecInv c st0 cmd T L1 acc →
      (∀ a ∈ L1 ++ L2, a ∈ T) →
      (∀ pre t post, L2 = pre ++ t :: post → ∀ a ∈ ancUp c t, a ∈ T → a ∈ L1 ++ pre) →
      SpecInv c st0 cmd T (L1 ++ L2) (L2.foldl (specStep c st0 cmd) acc) := by
  intro L2
  induction L2 with
  | nil => intro L1 acc h _ _; simpa using h
  | cons t L2 ih =>
    intro L1 acc h hT hpre
    rw [List.foldl_cons]
    have hstep := SpecInv_step hw hc h (fun a ha => hT a (by simp [ha]))
      (fun a ha haT => by simpa using hpre [] t L2 rfl a ha haT)
      (fun e => hon e t (hT t (by simp)))
    have := ih (L1 ++ [t]) _ hstep (by intro a ha; exact hT a (by simpa using ha))
      (by
        intro pre t' post e a ha haT
        have := hpre (t :: pre) t' post (by simp [e]) a ha haT
        simpa using this)
    simpa using this

/-- the depth order has every decided ancestor before its descendants -/
theorem order_prefix {c : Cfg} (hw : WF c = true) (ts : List Nat) (pre : List Nat) (t : Nat) (post : List Nat)
    (e : specOrder c ts = pre ++ t :: post) (a : Nat) (ha : a ∈ ancUp c t) (haT : a ∈ knownT c ts) : a ∈ pre := by
  have hp : (specOrder c ts).Pairwise (fun a b => decide ((ancUp c a).length ≤ (ancUp c b).length) = true) := by
    unfold specOrder
    apply List.pairwise_mergeSort
    · intro a b c' h1 h2; simp at h1 h2 ⊢; omega
    · intro a b; simp; omega
  have hmem : a ∈ specOrder c ts := (List.mergeSort_perm _ _).mem_iff.2 haT
  rw [e] at hp hmem
  have hd := depth_anc_lt hw ha
  unfold depth at hd
  rw [List.pairwise_append] at hp
  have h2 := List.pairwise_cons.1 hp.2.1
  rcases List.mem_append.1 hmem with h | h
  · exact h
  · rcases List.mem_cons.1 h with rfl | h
    · omega
    · have := h2.1 a h; simp at this; omega

/-- `specPower`, not refused, in closed form -/
theorem specPower_closed {c : Cfg} (hw : WF c = true) (st0 : St) {cmd : Cmd} (hc : cmd ≠ .stat) (ts : List Nat)
    (hph : specPhased c cmd ts = false) :
    (specPower c st0 cmd ts).1 = unknownLines c ts ++ (specOrder c ts).map (powLine c st0 cmd (knownT c ts)) ∧
    ∀ x, isOn (specPower c st0 cmd ts).2 x = finalOn c st0 cmd (knownT c ts) (specOrder c ts) x := by
  rw [specPower_eq, hph]
  simp only [Bool.false_eq_true, if_false]
  have hmem : ∀ a, a ∈ specOrder c ts ↔ a ∈ knownT c ts := fun a => (List.mergeSort_perm _ _).mem_iff
  have hon : cmd = .on → ∀ t ∈ knownT c ts, ∀ a ∈ ancUp c t, a ∉ knownT c ts := by
    intro e t ht a ha haT
    subst e
    unfold specPhased at hph
    simp only [beq_self_eq_true, Bool.true_and] at hph
    rw [List.any_eq_false] at hph
    have := hph t ht
    simp only [Bool.not_eq_true] at this
    rw [List.any_eq_false] at this
    exact this a haT (isDesc_iff.2 ha)
  have h0 : SpecInv c st0 cmd (knownT c ts) [] ([], [], st0) := by
    refine ⟨?_, rfl, ?_⟩
    · intro a; simp [seenStat]
    · intro x; unfold finalOn; split <;> simp
  have := SpecInv_fold hw hc hon (specOrder c ts) [] _ h0 (by intro a ha; exact (hmem a).1 (by simpa using ha))
    (by
      intro pre t post e a ha haT
      simpa using order_prefix hw ts pre t post e a ha haT)
  simp only [List.nil_append] at this
  exact ⟨by rw [this.lines], this.cur⟩

end Pm.Redfish
