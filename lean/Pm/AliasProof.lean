import Pm.Daemon
import Pm.HLFind
/-! Alias expansion (`parse_util.c:conf_exp_aliases`, mirrored by `Pm.Daemon.expAliases` on expanded name lists):
    the loop equals a closed form, and what follows from it (membership, counting, no recursion). -/
namespace Pm.Daemon.AliasPf
open Pm Pm.Daemon

/-- `n` is the name of a configured alias -/
def isAlias (als : List (Name × List Name)) (n : Name) : Bool := (aliasOf als n).isSome

/-- the hosts of the alias called `n` (nothing when there is no such alias) -/
def membersOf (als : List (Name × List Name)) (n : Name) : List Name := (aliasOf als n).getD []

/-- what one typed name stands for: the alias's hosts, or itself -/
def standsFor (als : List (Name × List Name)) (n : Name) : List Name :=
  match aliasOf als n with
  | some hs => hs
  | none => [n]

/-- the closed form: the typed names that are not alias names, in order; then, for every occurrence of an alias name, left
    to right, the hosts of that alias -/
def expClosed (als : List (Name × List Name)) (names : List Name) : List Name :=
  names.filter (fun n => !isAlias als n) ++ names.flatMap (membersOf als)

theorem membersOf_of_not (als : List (Name × List Name)) (n : Name) (h : isAlias als n = false) : membersOf als n = [] := by
  unfold isAlias at h; unfold membersOf
  cases ha : aliasOf als n with
  | none => rfl
  | some x => rw [ha] at h; cases h

theorem filter_all_not {als : List (Name × List Name)} : ∀ {l : List Name}, (∀ a ∈ l, isAlias als a = false) →
    l.filter (fun n => !isAlias als n) = l ∧ l.flatMap (membersOf als) = [] := by
  intro l; induction l with
  | nil => intro _; exact ⟨rfl, rfl⟩
  | cons a r ih =>
    intro h
    have ha := h a (by simp)
    obtain ⟨i1, i2⟩ := ih (fun x hx => h x (by simp [hx]))
    refine ⟨?_, ?_⟩
    · rw [List.filter_cons_of_pos (by simp [ha]), i1]
    · rw [List.flatMap_cons, i2, membersOf_of_not als a ha]; rfl

theorem expAliasesF_spec (als : List (Name × List Name)) : ∀ (fuel : Nat) (hl nh : List Name), hl.length ≤ fuel →
    expAliasesF als fuel hl nh = hl.filter (fun n => !isAlias als n) ++ (nh ++ hl.flatMap (membersOf als)) := by
  intro fuel; induction fuel with
  | zero =>
    intro hl nh h
    have : hl = [] := List.length_eq_zero_iff.mp (by omega)
    subst this; simp [expAliasesF]
  | succ f ih =>
    intro hl nh h
    unfold expAliasesF
    cases hf : hl.find? (fun n => (aliasOf als n).isSome) with
    | none =>
      have hall : ∀ a ∈ hl, isAlias als a = false := by
        intro a ha
        have := List.find?_eq_none.mp hf a ha
        simpa [isAlias] using this
      obtain ⟨i1, i2⟩ := filter_all_not hall
      simp only [i1, i2, List.append_nil]
    | some host =>
      obtain ⟨hp, as, bs, hsplit, has⟩ := List.find?_eq_some_iff_append.mp hf
      have hall : ∀ a ∈ as, isAlias als a = false := by
        intro a ha; have := has a ha; simpa [isAlias] using this
      have hhost : isAlias als host = true := hp
      have hnot : host ∉ as := by
        intro hm; have := hall host hm; rw [hhost] at this; cases this
      obtain ⟨i1, i2⟩ := filter_all_not hall
      have herase : hl.erase host = as ++ bs := by
        rw [hsplit, List.erase_append_right _ hnot, List.erase_cons_head]
      have hlen : (as ++ bs).length ≤ f := by
        have : hl.length = as.length + (bs.length + 1) := by rw [hsplit]; simp
        simp only [List.length_append]; omega
      show expAliasesF als f (hl.erase host) (nh ++ (aliasOf als host).getD []) = _
      rw [herase, ih _ _ hlen, hsplit]
      have hfc : (host :: bs).filter (fun n => !isAlias als n) = bs.filter (fun n => !isAlias als n) :=
        List.filter_cons_of_neg (by simp [hhost])
      simp only [List.filter_append, List.flatMap_append, List.flatMap_cons, i1, i2, List.nil_append, hfc, List.append_assoc]
      rfl

/-- **the loop of `conf_exp_aliases` computes the closed form** -/
theorem expAliases_spec (als : List (Name × List Name)) (names : List Name) :
    expAliases als names = names.filter (fun n => !isAlias als n) ++ names.flatMap (membersOf als) := by
  unfold expAliases
  rw [expAliasesF_spec als _ _ _ (Nat.le_refl _)]; rfl

theorem expAliases_eq_closed (als : List (Name × List Name)) (names : List Name) : expAliases als names = expClosed als names :=
  expAliases_spec als names

/-- without aliases `conf_exp_aliases` leaves the list as it is -/
theorem expAliases_nil (names : List Name) : expAliases [] names = names := by
  rw [expAliases_spec]
  obtain ⟨i1, i2⟩ := filter_all_not (als := []) (l := names) (fun _ _ => rfl)
  rw [i1, i2, List.append_nil]

/-- a list that contains no alias name is left as it is -/
theorem expAliases_no_alias (als : List (Name × List Name)) (names : List Name) (h : ∀ n ∈ names, isAlias als n = false) :
    expAliases als names = names := by
  rw [expAliases_spec]
  obtain ⟨i1, i2⟩ := filter_all_not h
  rw [i1, i2, List.append_nil]

theorem mem_membersOf {als : List (Name × List Name)} {a x : Name} :
    x ∈ membersOf als a ↔ ∃ hs, aliasOf als a = some hs ∧ x ∈ hs := by
  unfold membersOf
  cases aliasOf als a with
  | none => simp
  | some hs => simp

/-- membership: a name of the result is a typed name that is not an alias name, or a host of a typed alias -/
theorem mem_expAliases {als : List (Name × List Name)} {names : List Name} {x : Name} :
    x ∈ expAliases als names ↔
      (x ∈ names ∧ aliasOf als x = none) ∨ ∃ a ∈ names, ∃ hs, aliasOf als a = some hs ∧ x ∈ hs := by
  rw [expAliases_spec, List.mem_append, List.mem_filter, List.mem_flatMap]
  constructor
  · rintro (⟨h1, h2⟩ | ⟨a, ha, hx⟩)
    · left; refine ⟨h1, ?_⟩
      have : isAlias als x = false := by simpa using h2
      unfold isAlias at this
      cases hh : aliasOf als x with
      | none => rfl
      | some _ => rw [hh] at this; cases this
    · right; exact ⟨a, ha, mem_membersOf.mp hx⟩
  · rintro (⟨h1, h2⟩ | ⟨a, ha, hs, h1, h2⟩)
    · left; exact ⟨h1, by simp [isAlias, h2]⟩
    · right; exact ⟨a, ha, mem_membersOf.mpr ⟨hs, h1, h2⟩⟩

/-- the result as a multiset: every typed name contributes what it stands for -/
theorem expAliases_perm (als : List (Name × List Name)) (names : List Name) :
    (expAliases als names).Perm (names.flatMap (standsFor als)) := by
  rw [expAliases_spec]
  induction names with
  | nil => exact List.Perm.refl _
  | cons a r ih =>
    rw [List.flatMap_cons, List.flatMap_cons]
    cases ha : aliasOf als a with
    | none =>
      have h1 : isAlias als a = false := by simp [isAlias, ha]
      rw [List.filter_cons_of_pos (by simp [h1]), membersOf_of_not als a h1]
      simp only [standsFor, ha, List.nil_append]
      exact List.Perm.cons a ih
    | some hs =>
      have h1 : isAlias als a = true := by simp [isAlias, ha]
      rw [List.filter_cons_of_neg (by simp [h1])]
      have h2 : membersOf als a = hs := by simp [membersOf, ha]
      simp only [standsFor, ha, h2]
      -- filter r ++ (hs ++ flatMap r) ~ hs ++ (filter r ++ flatMap r)
      refine List.Perm.trans ?_ (List.Perm.append_left hs ih)
      rw [← List.append_assoc, ← List.append_assoc]
      exact List.Perm.append_right _ List.perm_append_comm

/-- counting form of `expAliases_perm` -/
theorem count_expAliases (als : List (Name × List Name)) (names : List Name) (x : Name) :
    (expAliases als names).count x =
      (names.filter (fun n => !isAlias als n)).count x + (names.flatMap (membersOf als)).count x := by
  rw [expAliases_spec, List.count_append]

/-- **no recursion**: a name of the result that is itself an alias name did not come from the user's list (every typed
    occurrence of an alias name is deleted); it is there, verbatim and as often, because it is listed among the hosts of
    typed aliases — and its own hosts are not added on its account -/
theorem count_alias_name (als : List (Name × List Name)) (names : List Name) (b : Name) (hb : isAlias als b = true) :
    (expAliases als names).count b = (names.flatMap (membersOf als)).count b := by
  rw [count_expAliases]
  have : (names.filter (fun n => !isAlias als n)).count b = 0 := by
    apply List.count_eq_zero.mpr
    intro hm
    have := (List.mem_filter.mp hm).2
    simp [hb] at this
  omega

/-- one typed alias: its hosts, as listed -/
theorem expAliases_single (als : List (Name × List Name)) (a : Name) (hs : List Name) (h : aliasOf als a = some hs) :
    expAliases als [a] = hs := by
  rw [expAliases_spec]
  simp [isAlias, membersOf, h]

/-! ### the abstraction: names instead of the range-compressed list

`conf_exp_aliases` works on the `hostlist_t` itself: `hostlist_delete_host(hl, host)` = `hostlist_find` + `hostlist_delete_nth`
(mirrors `deleteHost`, `find`, `deleteNth`), `hostlist_push_list` = `hostlist_push_range` per range (`pushRange`,
`expand_pushRange'`: appends the expansion).  Downstream only the names are used, so the mirror keeps names. -/

/-- the deletion step on names (`List.erase`) is what happens to the expansion of the real list, provided `hostlist_find` can
    find the host where it is (`Findable`: the proviso of `find_complete`; it holds for every list built by pushes) -/
theorem step_refines (hl : Hostlist) (host : Name) (hwf : HWF hl) (hf : ∀ r ∈ hl, host ∈ r.expand → Findable r host) :
    expand (deleteHost hl host).1 = (expand hl).erase host :=
  (deleteHost_expand hl host hwf hf).1

/-- … and where it cannot (defect F10: `n[100000000-100000001]`) the real deletion leaves the list as it is although the
    iterator did yield the host.  `conf_exp_aliases` ignores the return value of `hostlist_delete_host`, pushes the alias's
    hosts, resets the iterator and meets the same host again: with an alias of that name the real loop does not end
    (reproduced on the daemon: it spins and grows).  The mirror, which erases by name, is not faithful there. -/
theorem step_stuck : "n100000000".toList ∈ expand f10List ∧ (deleteHost f10List "n100000000".toList).1 = f10List :=
  ⟨f10_mem, by rw [f10_delete]⟩

/-! ### examples -/

def S (s : String) : Name := s.toList

/-- `rackt = t0,t1,t2,t3`, `mix = t7,u1,u2`, `dupl = t1,t1` -/
def exAls : List (Name × List Name) :=
  [(S "rackt", [S "t0", S "t1", S "t2", S "t3"]), (S "mix", [S "t7", S "u1", S "u2"]), (S "dupl", [S "t1", S "t1"])]

example : expAliases exAls [S "rackt", S "u3"] = [S "u3", S "t0", S "t1", S "t2", S "t3"] := by decide +kernel
example : expAliases exAls [S "mix", S "mix"] = [S "t7", S "u1", S "u2", S "t7", S "u1", S "u2"] := by decide +kernel
example : expAliases exAls [S "t2", S "rackt"] = [S "t2", S "t0", S "t1", S "t2", S "t3"] := by decide +kernel
example : expAliases exAls [S "t2", S "rackt", S "t2", S "dupl", S "t5"] =
    [S "t2", S "t2", S "t5", S "t0", S "t1", S "t2", S "t3", S "t1", S "t1"] := by decide +kernel

/-- an alias listed inside an alias (possible when a node carries the name of an alias): typed `outer` yields `inner`
    itself, not `inner`'s hosts; expanding a second time would change the list -/
def exNested : List (Name × List Name) := [(S "outer", [S "inner", S "t0"]), (S "inner", [S "t1"])]

theorem nested_not_expanded : expAliases exNested [S "outer"] = [S "inner", S "t0"] ∧
    expAliases exNested (expAliases exNested [S "outer"]) = [S "t0", S "t1"] := by decide +kernel

end Pm.Daemon.AliasPf

section AxiomChecks
open Pm.Daemon.AliasPf
#print axioms expAliases_spec
#print axioms expAliases_nil
#print axioms mem_expAliases
#print axioms expAliases_perm
#print axioms count_alias_name
#print axioms nested_not_expanded
#print axioms step_refines
#print axioms step_stuck
end AxiomChecks
