import Pm.RedfishTree
/-! helper lemmas for C19, part 2: `processWaiters` cut into its two passes, characterised by filters -/
namespace Pm.Redfish

def descB (c : Cfg) (anc : Nat) (pm : PM) : Bool := isDesc c pm.plug anc
def directB (c : Cfg) (anc : Nat) (pm : PM) : Bool := decide ((lookup c pm.plug).bind (·.parent) = some anc)

/-- the line printed for a waiter whose ancestor `anc` turned out to be `s ≠ on` -/
def wline (anc : Nat) (s : Stat) (pm : PM) : List Line :=
  if !pm.output then [] else
  if pm.cmd == .stat then [Line.status pm.plug s]
  else if pm.cmd == .off && s == .off then [Line.ok pm.plug]
  else [Line.dep pm.plug pm.cmd s anc]

def keepF (c : Cfg) (anc : Nat) (s : Stat) (ws : List PM) : List PM :=
  if s ≠ .on then ws.filter (fun pm => !descB c anc pm) else ws.filter (fun pm => !(descB c anc pm && directB c anc pm))
def movedF (c : Cfg) (anc : Nat) (s : Stat) (ws : List PM) : List PM :=
  if s ≠ .on then [] else ws.filter (fun pm => descB c anc pm && directB c anc pm)
def linesF (c : Cfg) (anc : Nat) (s : Stat) (ws : List PM) : List Line :=
  if s ≠ .on then (ws.filter (descB c anc)).flatMap (wline anc s) else []

/-- the step function of the first pass, verbatim -/
def pass1Step (c : Cfg) (anc : Nat) (s : Stat) (acc : List PM × List PM × List Line) (pm : PM) :
    List PM × List PM × List Line :=
  let (keep, moved, lines) := acc
  if isDesc c pm.plug anc then
    if s ≠ .on then
      let l := if !pm.output then [] else
        if pm.cmd == .stat then [Line.status pm.plug s]
        else if pm.cmd == .off && s == .off then [Line.ok pm.plug]
        else [Line.dep pm.plug pm.cmd s anc]
      (keep, moved, lines ++ l)
    else if (lookup c pm.plug).bind (·.parent) = some anc then (keep, moved ++ [pm], lines)
    else (keep ++ [pm], moved, lines)
  else (keep ++ [pm], moved, lines)

/-- the step function of the second pass, verbatim -/
def pass2Step (c : Cfg) (anc : Nat) (m : M) (pm : PM) : M :=
  if isDesc c pm.plug anc then
    let child := childOf c pm.plug anc
    if plugActive m child pm.cmd then m
    else { m with active := m.active ++ [{ cmd := .stat, plug := child, output := false, waitState := false }] }
  else m

theorem processWaiters_eq (c : Cfg) (m : M) (anc : Nat) (s : Stat) :
    processWaiters c m anc s =
      (let r := m.waiting.foldl (pass1Step c anc s) ([], [], [])
       let m1 : M := { m with waiting := r.1, active := m.active ++ r.2.1, out := m.out ++ r.2.2 }
       if s ≠ .on then m1 else r.1.foldl (pass2Step c anc) m1) := by
  rfl

theorem pass1_fold (c : Cfg) (anc : Nat) (s : Stat) (ws : List PM) (k mv : List PM) (l : List Line) :
    ws.foldl (pass1Step c anc s) (k, mv, l) = (k ++ keepF c anc s ws, mv ++ movedF c anc s ws, l ++ linesF c anc s ws) := by
  induction ws generalizing k mv l with
  | nil => simp [keepF, movedF, linesF]
  | cons w ws ih =>
    rw [List.foldl_cons]
    by_cases hs : s = .on
    · subst hs
      by_cases hd : isDesc c w.plug anc = true
      · by_cases hp : (lookup c w.plug).bind (·.parent) = some anc
        · have : pass1Step c anc .on (k, mv, l) w = (k, mv ++ [w], l) := by simp [pass1Step, hd, hp]
          rw [this, ih]; simp [keepF, movedF, linesF, descB, directB, hd, hp]
        · have : pass1Step c anc .on (k, mv, l) w = (k ++ [w], mv, l) := by simp [pass1Step, hd, hp]
          rw [this, ih]; simp [keepF, movedF, linesF, descB, directB, hd, hp]
      · have : pass1Step c anc .on (k, mv, l) w = (k ++ [w], mv, l) := by simp [pass1Step, hd]
        rw [this, ih]; simp [keepF, movedF, linesF, descB, directB, hd]
    · by_cases hd : isDesc c w.plug anc = true
      · have : pass1Step c anc s (k, mv, l) w = (k, mv, l ++ wline anc s w) := by
          simp [pass1Step, hd, hs, wline]
        rw [this, ih]; simp [keepF, movedF, linesF, descB, hd, hs]
      · have : pass1Step c anc s (k, mv, l) w = (k ++ [w], mv, l) := by simp [pass1Step, hd]
        rw [this, ih]; simp [keepF, movedF, linesF, descB, hd, hs]

/-- state after the first pass -/
def afterPass1 (c : Cfg) (m : M) (anc : Nat) (s : Stat) : M :=
  { m with waiting := keepF c anc s m.waiting, active := m.active ++ movedF c anc s m.waiting,
           out := m.out ++ linesF c anc s m.waiting }

theorem processWaiters_eq' (c : Cfg) (m : M) (anc : Nat) (s : Stat) :
    processWaiters c m anc s =
      if s ≠ .on then afterPass1 c m anc s
      else (keepF c anc s m.waiting).foldl (pass2Step c anc) (afterPass1 c m anc s) := by
  rw [processWaiters_eq, pass1_fold]
  simp [afterPass1]

def query (x : Nat) : PM := { cmd := .stat, plug := x, output := false, waitState := false }

theorem plugActive_mono (m : M) (x : Nat) (cmd : Cmd) (extra : List PM) (m' : M) (h : m'.active = m.active ++ extra)
    (ha : plugActive m x cmd = true) : plugActive m' x cmd = true := by
  unfold plugActive at *
  rw [h, List.any_append, ha]; rfl

/-- what the second pass does: appends only queries for children of `anc` on the way to a kept waiter,
    and afterwards every kept descendant's next plug down is "active" -/
theorem pass2_fold (c : Cfg) (anc : Nat) (ws : List PM) (m : M) :
    ∃ qs, ws.foldl (pass2Step c anc) m = { m with active := m.active ++ qs } ∧
      (∀ q ∈ qs, ∃ w ∈ ws, isDesc c w.plug anc = true ∧ q = query (childOf c w.plug anc)) ∧
      (∀ w ∈ ws, isDesc c w.plug anc = true →
        plugActive { m with active := m.active ++ qs } (childOf c w.plug anc) w.cmd = true) := by
  induction ws generalizing m with
  | nil => exact ⟨[], by simp⟩
  | cons w ws ih =>
    rw [List.foldl_cons]
    by_cases hd : isDesc c w.plug anc = true
    · by_cases ha : plugActive m (childOf c w.plug anc) w.cmd = true
      · have e : pass2Step c anc m w = m := by simp [pass2Step, hd, ha]
        rw [e]
        obtain ⟨qs, e1, h1, h2⟩ := ih m
        refine ⟨qs, e1, ?_, ?_⟩
        · intro q hq; obtain ⟨w', hw', r⟩ := h1 q hq; exact ⟨w', List.mem_cons_of_mem _ hw', r⟩
        · intro w' hw' hd'
          rcases List.mem_cons.1 hw' with rfl | hw'
          · exact plugActive_mono m _ _ qs _ rfl ha
          · exact h2 w' hw' hd'
      · have e : pass2Step c anc m w = { m with active := m.active ++ [query (childOf c w.plug anc)] } := by
          simp [pass2Step, hd, ha, query]
        rw [e]
        obtain ⟨qs, e1, h1, h2⟩ := ih { m with active := m.active ++ [query (childOf c w.plug anc)] }
        refine ⟨query (childOf c w.plug anc) :: qs, ?_, ?_, ?_⟩
        · rw [e1]; simp
        · intro q hq
          rcases List.mem_cons.1 hq with rfl | hq
          · exact ⟨w, by simp, hd, rfl⟩
          · obtain ⟨w', hw', r⟩ := h1 q hq; exact ⟨w', List.mem_cons_of_mem _ hw', r⟩
        · intro w' hw' hd'
          rcases List.mem_cons.1 hw' with rfl | hw'
          · unfold plugActive; simp [query]
          · have := h2 w' hw' hd'
            simpa using this
    · have e : pass2Step c anc m w = m := by simp [pass2Step, hd]
      rw [e]
      obtain ⟨qs, e1, h1, h2⟩ := ih m
      refine ⟨qs, e1, ?_, ?_⟩
      · intro q hq; obtain ⟨w', hw', r⟩ := h1 q hq; exact ⟨w', List.mem_cons_of_mem _ hw', r⟩
      · intro w' hw' hd'
        rcases List.mem_cons.1 hw' with rfl | hw'
        · exact absurd hd' hd
        · exact h2 w' hw' hd'

/-- as `pass2_fold`, recording that a query is only sent for a plug that was not "active" -/
theorem pass2_fold' (c : Cfg) (anc : Nat) (ws : List PM) (m : M) :
    ∃ qs, ws.foldl (pass2Step c anc) m = { m with active := m.active ++ qs } ∧
      (∀ q ∈ qs, ∃ w ∈ ws, isDesc c w.plug anc = true ∧ q = query (childOf c w.plug anc) ∧
        plugActive m (childOf c w.plug anc) w.cmd = false) ∧
      (∀ w ∈ ws, isDesc c w.plug anc = true →
        plugActive { m with active := m.active ++ qs } (childOf c w.plug anc) w.cmd = true) := by
  induction ws generalizing m with
  | nil => exact ⟨[], by simp⟩
  | cons w ws ih =>
    rw [List.foldl_cons]
    by_cases hd : isDesc c w.plug anc = true
    · by_cases ha : plugActive m (childOf c w.plug anc) w.cmd = true
      · have e : pass2Step c anc m w = m := by simp [pass2Step, hd, ha]
        rw [e]
        obtain ⟨qs, e1, h1, h2⟩ := ih m
        refine ⟨qs, e1, ?_, ?_⟩
        · intro q hq; obtain ⟨w', hw', r⟩ := h1 q hq; exact ⟨w', List.mem_cons_of_mem _ hw', r⟩
        · intro w' hw' hd'
          rcases List.mem_cons.1 hw' with rfl | hw'
          · exact plugActive_mono m _ _ qs _ rfl ha
          · exact h2 w' hw' hd'
      · have e : pass2Step c anc m w = { m with active := m.active ++ [query (childOf c w.plug anc)] } := by
          simp [pass2Step, hd, ha, query]
        rw [e]
        obtain ⟨qs, e1, h1, h2⟩ := ih { m with active := m.active ++ [query (childOf c w.plug anc)] }
        refine ⟨query (childOf c w.plug anc) :: qs, ?_, ?_, ?_⟩
        · rw [e1]; simp
        · intro q hq
          rcases List.mem_cons.1 hq with rfl | hq
          · exact ⟨w, by simp, hd, rfl, by simpa using ha⟩
          · obtain ⟨w', hw', r1, r2, r3⟩ := h1 q hq
            refine ⟨w', List.mem_cons_of_mem _ hw', r1, r2, ?_⟩
            cases hpa : plugActive m (childOf c w'.plug anc) w'.cmd
            · rfl
            · have := plugActive_mono m _ _ [query (childOf c w.plug anc)]
                { m with active := m.active ++ [query (childOf c w.plug anc)] } rfl hpa
              rw [this] at r3; cases r3
        · intro w' hw' hd'
          rcases List.mem_cons.1 hw' with rfl | hw'
          · unfold plugActive; simp [query]
          · have := h2 w' hw' hd'
            simpa using this
    · have e : pass2Step c anc m w = m := by simp [pass2Step, hd]
      rw [e]
      obtain ⟨qs, e1, h1, h2⟩ := ih m
      refine ⟨qs, e1, ?_, ?_⟩
      · intro q hq; obtain ⟨w', hw', r⟩ := h1 q hq; exact ⟨w', List.mem_cons_of_mem _ hw', r⟩
      · intro w' hw' hd'
        rcases List.mem_cons.1 hw' with rfl | hw'
        · exact absurd hd' hd
        · exact h2 w' hw' hd'

end Pm.Redfish
