/- pilot for C09: telnet filter, ideal vs as coded -/
namespace Pm.Telnet

inductive TState where
  | none | cmd | opt (c : UInt8)
deriving Repr, DecidableEq

def IAC : UInt8 := 255
def isOptCmd (b : UInt8) : Bool := b == 254 || b == 253 || b == 252 || b == 251   -- DONT DO WONT WILL

/-- one byte through the state machine of `_telnet_preprocess`: new state, bytes kept -/
def tstep (s : TState) (b : UInt8) : TState × List UInt8 :=
  match s with
  | .none => if b == IAC then (.cmd, []) else (.none, [b])
  | .cmd => if b == IAC then (.none, [b]) else if isOptCmd b then (.opt b, []) else (.none, [])
  | .opt _ => (.none, [])

def tfilter : TState → List UInt8 → TState × List UInt8
  | s, [] => (s, [])
  | s, b :: bs =>
    let r1 := tstep s b
    let r2 := tfilter r1.1 bs
    (r2.1, r1.2 ++ r2.2)

/-- the decoder is a stream function: splitting the input anywhere changes nothing -/
theorem tfilter_append (s : TState) (a b : List UInt8) :
    tfilter s (a ++ b) = ((tfilter (tfilter s a).1 b).1, (tfilter s a).2 ++ (tfilter (tfilter s a).1 b).2) := by
  induction a generalizing s with
  | nil => simp [tfilter]
  | cons x xs ih => simp [tfilter, ih, List.append_assoc]

/-- data without IAC passes unchanged and leaves the decoder at rest -/
theorem tfilter_clean (l : List UInt8) (h : ∀ b ∈ l, b ≠ IAC) : tfilter .none l = (.none, l) := by
  induction l with
  | nil => rfl
  | cons x xs ih =>
    have hx : (x == IAC) = false := by simpa using h x (by simp)
    have := ih (fun b hb => h b (by simp [hb]))
    simp [tfilter, tstep, hx, this]

/-- connection state relevant here: decoder state + unconsumed filtered bytes in `dev->from` -/
structure Conn where
  ts : TState
  buf : List UInt8

/-- what the decoder *should* do on a read: filter the new bytes only -/
def idealRead (c : Conn) (chunk : List UInt8) : Conn :=
  let r := tfilter c.ts chunk
  { ts := r.1, buf := c.buf ++ r.2 }

/-- what `_telnet_preprocess` does: peek the whole pending buffer (old, already filtered bytes
    followed by the new ones), filter all of it starting in the carried-over state, write it back -/
def implRead (c : Conn) (chunk : List UInt8) : Conn :=
  let r := tfilter c.ts (c.buf ++ chunk)
  { ts := r.1, buf := r.2 }

def consume (c : Conn) (k : Nat) : Conn := { c with buf := c.buf.drop k }

/-- C09 (read side) as the property states it is FALSE for the code as it stands: device sends
    `a b IAC | DO ECHO c \n`, nothing consumed in between; the script must see `a b c \n`. -/
theorem C09_read_side_counterexample :
    (implRead (implRead ⟨.none, []⟩ [97, 98, 255]) [253, 1, 99, 10]).buf ≠
    (idealRead (idealRead ⟨.none, []⟩ [97, 98, 255]) [253, 1, 99, 10]).buf := by decide

example : (implRead (implRead ⟨.none, []⟩ [97, 98, 255]) [253, 1, 99, 10]).buf = [98, 253, 1, 99, 10] := by decide
example : (idealRead (idealRead ⟨.none, []⟩ [97, 98, 255]) [253, 1, 99, 10]).buf = [97, 98, 99, 10] := by decide

/-- second witness: an escaped 0xFF that is still unconsumed is eaten together with its successor -/
theorem C09_read_side_counterexample2 :
    (implRead (implRead ⟨.none, []⟩ [120, 255, 255, 121]) [122]).buf = [120, 122] := by decide

/-- what *is* true of the code as it stands: whenever nothing is pending, or the decoder is at rest
    and the pending bytes contain no 0xFF, a read behaves ideally -/
theorem C09_read_side_partial (c : Conn) (chunk : List UInt8)
    (h : c.buf = [] ∨ (c.ts = .none ∧ ∀ b ∈ c.buf, b ≠ IAC)) :
    implRead c chunk = idealRead c chunk := by
  cases h with
  | inl h => simp [implRead, idealRead, h]
  | inr h =>
    obtain ⟨hts, hclean⟩ := h
    unfold implRead idealRead
    rw [tfilter_append, hts, tfilter_clean c.buf hclean]

/-- for the ideal decoder the bytes a script can ever see on one connection are a function of the
    byte stream alone — independent of segmentation and of when expects consumed -/
theorem ideal_segmentation (c : Conn) (a b : List UInt8) :
    idealRead (idealRead c a) b = idealRead c (a ++ b) := by
  simp [idealRead, tfilter_append, List.append_assoc]

end Pm.Telnet

