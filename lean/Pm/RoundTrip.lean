import Pm.HLMore
/-! Helper module for property C14, round trip: `create (rangedString hl)` denotes the same names in the same order
    as `hl` (`roundtrip`, `roundtrip_pushed`), and the bound of 16384 hosts per range is necessary
    (`roundtrip_counterexample`).

    Plan: `rangedGroups` cuts the list into groups `r :: grp` (`rangedGroups_cons`, `groupTok`); every printed token is
    a `GoodTok`, so `_next_tok` gives the tokens back (`tokens_intercalate`); one token re-parses to ranges with the
    same expansion as its group (`createTok_group`); induction over the groups (`groups_spec`). -/
namespace Pm

/-- characters that neither separate tokens nor open/close a bracket in `_next_tok` -/
def legalChar (c : Char) : Bool := !(c == '[' || c == ']' || c == ',' || c == ' ' || c == '\t')

/-- what the round trip needs of each range -/
structure HostRange.Legal (r : HostRange) : Prop where
  wf : r.single = true ∨ r.lo ≤ r.hi
  chars : ∀ c ∈ r.pfx, legalChar c = true
  nonempty : r.single = true → r.pfx ≠ []
  size : r.cnt ≤ MAX_RANGE          -- `_parse_single_range` refuses more than 16384 hosts in one range

def LegalHL (hl : Hostlist) : Prop := ∀ r ∈ hl, r.Legal

/-- a host name that survives tokenising: not empty, no separator, no bracket -/
def LegalName (n : Name) : Prop := n ≠ [] ∧ ∀ c ∈ n, legalChar c = true

/-! ## `_next_tok` -/

theorem legalChar_spec {c : Char} (h : legalChar c = true) :
    c ≠ '[' ∧ c ≠ ']' ∧ isSep c = false := by
  unfold legalChar at h
  unfold isSep
  simp at h ⊢
  grind

theorem tokens_go_nil (cur : List Char) (level : Int) (acc : List (List Char)) :
    tokens.go [] cur level acc = if cur.isEmpty then acc.reverse else (cur.reverse :: acc).reverse := by
  rw [tokens.go]

theorem tokens_go_cons (c : Char) (r cur : List Char) (level : Int) (acc : List (List Char)) :
    tokens.go (c :: r) cur level acc =
      if level == 0 && isSep c then
        (if cur.isEmpty then tokens.go r [] 0 acc else tokens.go r [] 0 (cur.reverse :: acc))
      else tokens.go r (c :: cur) (if c == '[' then level + 1 else if c == ']' then level - 1 else level) acc := by
  rw [tokens.go]

/-- level 0, ordinary characters -/
theorem tokens_go_plain (u : List Char) (hu : ∀ c ∈ u, legalChar c = true) :
    ∀ (rest cur : List Char) (acc : List (List Char)),
      tokens.go (u ++ rest) cur 0 acc = tokens.go rest (u.reverse ++ cur) 0 acc := by
  induction u with
  | nil => intro rest cur acc; rfl
  | cons c u ih =>
    intro rest cur acc
    obtain ⟨h1, h2, h3⟩ := legalChar_spec (hu c (by simp))
    rw [List.cons_append, tokens_go_cons]
    simp [h1, h2, h3]
    rw [ih (fun c hc => hu c (by simp [hc]))]

/-- inside one bracket level -/
theorem tokens_go_inner (u : List Char) (hu : ∀ c ∈ u, c ≠ '[' ∧ c ≠ ']') :
    ∀ (rest cur : List Char) (acc : List (List Char)),
      tokens.go (u ++ rest) cur 1 acc = tokens.go rest (u.reverse ++ cur) 1 acc := by
  induction u with
  | nil => intro rest cur acc; rfl
  | cons c u ih =>
    intro rest cur acc
    obtain ⟨h1, h2⟩ := hu c (by simp)
    rw [List.cons_append, tokens_go_cons]
    simp [h1, h2]
    rw [ih (fun c hc => hu c (by simp [hc]))]


/-- the shape of one token printed by `hostlist_ranged_string`: ordinary characters, then optionally one
    bracket pair holding no further bracket -/
structure GoodTok (t : List Char) : Prop where
  ne : t ≠ []
  shape : ∃ p m, (∀ c ∈ p, legalChar c = true) ∧ (∀ c ∈ m, c ≠ '[' ∧ c ≠ ']') ∧
    (t = p ∨ t = p ++ '[' :: (m ++ [']']))

theorem tokens_go_good (t : List Char) (ht : GoodTok t) (rest cur : List Char) (acc : List (List Char)) :
    tokens.go (t ++ rest) cur 0 acc = tokens.go rest (t.reverse ++ cur) 0 acc := by
  obtain ⟨p, m, hp, hm, h | h⟩ := ht.shape
  · rw [h]; exact tokens_go_plain p hp rest cur acc
  · rw [h]
    rw [List.append_assoc, tokens_go_plain p hp, List.cons_append, tokens_go_cons]
    simp only [show isSep '[' = false by decide, Bool.and_false, Bool.false_eq_true, if_false, beq_self_eq_true, if_true]
    rw [show (0 : Int) + 1 = 1 by rfl, List.append_assoc, tokens_go_inner m hm, List.cons_append, tokens_go_cons]
    simp only [show ((1 : Int) == 0) = false by decide, Bool.false_and, Bool.false_eq_true, if_false,
      show ((']' : Char) == '[') = false by decide, beq_self_eq_true, if_true, show (1 : Int) - 1 = 0 by rfl]
    simp

theorem tokens_go_sep (more cur : List Char) (hcur : cur ≠ []) (acc : List (List Char)) :
    tokens.go (',' :: more) cur 0 acc = tokens.go more [] 0 (cur.reverse :: acc) := by
  rw [tokens_go_cons]
  cases cur with
  | nil => exact absurd rfl hcur
  | cons a b => simp [isSep]

theorem tokens_go_intercalate (t : List Char) (ts : List (List Char)) :
    (∀ x ∈ t :: ts, GoodTok x) → ∀ (acc : List (List Char)),
    tokens.go (List.intercalate [','] (t :: ts)) [] 0 acc = acc.reverse ++ t :: ts := by
  induction ts generalizing t with
  | nil =>
    intro h acc
    have ht := h t (by simp)
    have := tokens_go_good t ht [] [] acc
    rw [List.intercalate_singleton]
    simp only [List.append_nil] at this
    rw [this, tokens_go_nil]
    simp [ht.ne]
  | cons t2 ts ih =>
    intro h acc
    have ht := h t (by simp)
    rw [List.intercalate_cons_cons, List.append_assoc, tokens_go_good t ht, List.append_nil]
    rw [show [','] ++ List.intercalate [','] (t2 :: ts) = ',' :: List.intercalate [','] (t2 :: ts) from rfl]
    rw [tokens_go_sep _ _ (by simpa using ht.ne), ih t2 (fun x hx => h x (by simp [hx]))]
    simp

theorem tokens_intercalate (ts : List (List Char)) (h : ∀ x ∈ ts, GoodTok x) :
    tokens (List.intercalate [','] ts) = ts := by
  cases ts with
  | nil => rfl
  | cons t ts =>
    unfold tokens
    rw [tokens_go_intercalate t ts h]
    simp

/-! ## `splitOnFirst`, `splitAll` -/

private theorem takeWhile_ne_all (c : Char) (a : List Char) (h : c ∉ a) : a.takeWhile (· != c) = a := by
  induction a with
  | nil => rfl
  | cons x a ih =>
    have hx : x ≠ c := fun e => h (by simp [e])
    rw [List.takeWhile_cons]
    simp only [bne_iff_ne, ne_eq, hx, not_false_eq_true, if_true]
    rw [ih (fun hc => h (by simp [hc]))]

theorem splitOnFirst_miss (c : Char) (a : List Char) (h : c ∉ a) : splitOnFirst c a = (a, none) := by
  unfold splitOnFirst
  simp only [takeWhile_ne_all c a h]
  simp

theorem splitOnFirst_hit (c : Char) (a b : List Char) (h : c ∉ a) :
    splitOnFirst c (a ++ c :: b) = (a, some b) := by
  unfold splitOnFirst
  have : (a ++ c :: b).takeWhile (· != c) = a := by
    rw [List.takeWhile_append_of_pos (by intro x hx; simp; intro e; exact h (e ▸ hx))]
    simp
  simp only [this]
  simp

theorem splitAll_go_nil (c : Char) (cur : List Char) (acc : List (List Char)) :
    splitAll.go c [] cur acc = (cur.reverse :: acc).reverse := by
  rw [splitAll.go]

theorem splitAll_go_cons (c x : Char) (r cur : List Char) (acc : List (List Char)) :
    splitAll.go c (x :: r) cur acc =
      if x == c then splitAll.go c r [] (cur.reverse :: acc) else splitAll.go c r (x :: cur) acc := by
  rw [splitAll.go]

theorem splitAll_go_seg (c : Char) (u : List Char) (hu : c ∉ u) :
    ∀ (rest cur : List Char) (acc : List (List Char)),
      splitAll.go c (u ++ rest) cur acc = splitAll.go c rest (u.reverse ++ cur) acc := by
  induction u with
  | nil => intro rest cur acc; rfl
  | cons x u ih =>
    intro rest cur acc
    have hx : x ≠ c := fun e => hu (by simp [e])
    rw [List.cons_append, splitAll_go_cons]
    simp only [beq_iff_eq, hx, if_false]
    rw [ih (fun hc => hu (by simp [hc]))]
    simp

theorem splitAll_go_intercalate (c : Char) (n : List Char) (ns : List (List Char)) :
    (∀ x ∈ n :: ns, c ∉ x) → ∀ (cur : List Char) (acc : List (List Char)),
    splitAll.go c (List.intercalate [c] (n :: ns)) cur acc = acc.reverse ++ (cur.reverse ++ n) :: ns := by
  induction ns generalizing n with
  | nil =>
    intro h cur acc
    have := splitAll_go_seg c n (h n (by simp)) [] cur acc
    rw [List.intercalate_singleton]
    simp only [List.append_nil] at this
    rw [this, splitAll_go_nil]
    simp
  | cons n2 ns ih =>
    intro h cur acc
    rw [List.intercalate_cons_cons, List.append_assoc, splitAll_go_seg c n (h n (by simp))]
    rw [show [c] ++ List.intercalate [c] (n2 :: ns) = c :: List.intercalate [c] (n2 :: ns) from rfl]
    rw [splitAll_go_cons]
    simp only [beq_self_eq_true, if_true]
    rw [ih n2 (fun x hx => h x (by simp [hx]))]
    simp

theorem splitAll_intercalate (c : Char) (ns : List (List Char)) (hne : ns ≠ []) (h : ∀ x ∈ ns, c ∉ x) :
    splitAll c (List.intercalate [c] ns) = ns := by
  cases ns with
  | nil => exact absurd rfl hne
  | cons n ns =>
    unfold splitAll
    rw [splitAll_go_intercalate c n ns h]
    simp


private theorem takeWhile_all {α} (p : α → Bool) (l : List α) (h : ∀ x ∈ l, p x = true) : l.takeWhile p = l := by
  induction l with
  | nil => rfl
  | cons x l ih =>
    rw [List.takeWhile_cons, h x (by simp)]
    simp only [if_true]
    rw [ih (fun y hy => h y (by simp [hy]))]

theorem digit_not_special (c : Char) (h : c.isDigit = true) :
    isCSpace c = false ∧ c ≠ '+' ∧ c ≠ '-' ∧ c ≠ ',' ∧ c ≠ '[' ∧ c ≠ ']' ∧ c ≠ ' ' ∧ c ≠ '\t' := by
  obtain ⟨h1, h2⟩ := digit_bounds c h
  refine ⟨?_, ?_, ?_, ?_, ?_, ?_, ?_, ?_⟩
  · unfold isCSpace
    have : c ≠ ' ' := by intro e; subst e; simp at h1
    simp [this]; omega
  all_goals (intro e; subst e; simp at h1 h2)

/-- `strtoul` on a non-empty string of digits reads all of it -/
theorem strtoul_digits (ds : List Char) (hne : ds ≠ []) (hd : ∀ c ∈ ds, c.isDigit = true) :
    strtoul ds = (parseNat ds, ds.length) := by
  cases ds with
  | nil => exact absurd rfl hne
  | cons d tl =>
    obtain ⟨h1, h2, h3, _⟩ := digit_not_special d (hd d (by simp))
    unfold strtoul
    have hws : (d :: tl).takeWhile isCSpace = [] := by rw [List.takeWhile_cons, h1]; simp
    simp only [hws, List.length_nil, List.drop_zero]
    split
    · rename_i heq; simp at heq; exact absurd heq.1 h2
    · rename_i heq; simp at heq; exact absurd heq.1 h3
    · simp only [takeWhile_all _ _ hd]
      simp


/-- `_parse_single_range` on `lo` alone -/
theorem parseSingleRange_one (los : List Char) (hne : los ≠ []) (hd : ∀ c ∈ los, c.isDigit = true) :
    parseSingleRange los = .ok { lo := parseNat los, hi := parseNat los, width := los.length } := by
  have hm : '-' ∉ los := fun hc => (digit_not_special _ (hd _ hc)).2.2.1 rfl
  have hlen : los.length ≠ 0 := by simpa using hne
  unfold parseSingleRange
  rw [splitOnFirst_miss '-' los hm]
  simp only [strtoul_digits los hne hd]
  simp [hlen, MAX_RANGE]

/-- `_parse_single_range` on `lo-hi` -/
theorem parseSingleRange_two (los his : List Char) (hne : los ≠ []) (hd : ∀ c ∈ los, c.isDigit = true)
    (hne2 : his ≠ []) (hd2 : ∀ c ∈ his, c.isDigit = true)
    (hle : parseNat los ≤ parseNat his) (hsz : parseNat his - parseNat los + 1 ≤ MAX_RANGE) :
    parseSingleRange (los ++ '-' :: his) = .ok { lo := parseNat los, hi := parseNat his, width := los.length } := by
  have hm : '-' ∉ los := fun hc => (digit_not_special _ (hd _ hc)).2.2.1 rfl
  have hlen : los.length ≠ 0 := by simpa using hne
  have hlen2 : his.length ≠ 0 := by simpa using hne2
  unfold parseSingleRange
  rw [splitOnFirst_hit '-' los his hm]
  cases his with
  | nil => exact absurd rfl hne2
  | cons h0 htl =>
    have h0m : h0 ≠ '-' := (digit_not_special _ (hd2 _ (by simp))).2.2.1
    simp only
    split
    · rename_i heq; simp at heq; exact absurd heq.1 h0m
    · have h2 := strtoul_digits (h0 :: htl) hne2 hd2
      simp only [strtoul_digits los hne hd]
      simp [hlen, h2]
      rw [if_neg (by omega), if_neg (by omega)]

/-! ## one range inside brackets -/

/-- what `_parse_single_range` reads back from the printed form of a range -/
def specOf (x : HostRange) : RangeSpec := { lo := x.lo, hi := x.hi, width := (fmtNum x.width x.lo).length }

theorem parseSingleRange_numstr (x : HostRange) (hs : x.single = false) (hle : x.lo ≤ x.hi)
    (hsz : x.cnt ≤ MAX_RANGE) : parseSingleRange (numstr x) = .ok (specOf x) := by
  unfold numstr specOf
  unfold HostRange.cnt at hsz
  simp only [hs, Bool.false_eq_true, if_false] at hsz ⊢
  by_cases hlt : x.lo < x.hi
  · simp only [hlt, if_true]
    rw [parseSingleRange_two _ _ (fmtNum_ne_nil _ _) (fmtNum_digits _ _) (fmtNum_ne_nil _ _) (fmtNum_digits _ _)
      (by rw [parseNat_fmtNum, parseNat_fmtNum]; exact hle) (by rw [parseNat_fmtNum, parseNat_fmtNum]; omega)]
    rw [parseNat_fmtNum, parseNat_fmtNum]
  · simp only [hlt, if_false, List.append_nil]
    rw [parseSingleRange_one _ (fmtNum_ne_nil _ _) (fmtNum_digits _ _), parseNat_fmtNum]
    have : x.hi = x.lo := by omega
    rw [this]

theorem numstr_chars (x : HostRange) : ∀ c ∈ numstr x, c.isDigit = true ∨ c = '-' := by
  intro c hc
  unfold numstr at hc
  split at hc
  · simp at hc
  · rcases List.mem_append.mp hc with h | h
    · exact Or.inl (fmtNum_digits _ _ c h)
    · split at h
      · rcases List.mem_cons.mp h with h | h
        · exact Or.inr h
        · exact Or.inl (fmtNum_digits _ _ c h)
      · simp at h

/-- the re-parsed range prints every name as the original did, though its width may differ -/
theorem specOf_expand (x : HostRange) (hs : x.single = false) :
    HostRange.expand { pfx := x.pfx, lo := (specOf x).lo, hi := (specOf x).hi, width := (specOf x).width, single := false }
      = x.expand := by
  rw [HostRange.expand_nonsingle _ rfl, HostRange.expand_nonsingle x hs]
  unfold specOf
  simp only
  apply numExpand_width
  intro y hy
  apply fmt_of_pad_eq _ hy
  rw [fmtNum_length]
  unfold zeroPadded
  split <;> split <;> omega

private theorem mapM_except_ok {ε α β γ : Type} (f : α → Except ε β) (k : γ → α) (g : γ → β) :
    ∀ (l : List γ), (∀ x ∈ l, f (k x) = .ok (g x)) → (l.map k).mapM f = .ok (l.map g) := by
  intro l
  induction l with
  | nil => intro _; rfl
  | cons a l ih =>
    intro h
    rw [List.map_cons, List.mapM_cons, h a (by simp), ih (fun x hx => h x (by simp [hx]))]
    rfl

/-- pushing the re-parsed ranges of one bracket appends exactly the names of the original ranges -/
theorem foldl_pushSpec (pfx : Name) : ∀ (xs : Hostlist) (acc : Hostlist), HWF acc →
    (∀ x ∈ xs, x.single = false ∧ x.lo ≤ x.hi ∧ x.pfx = pfx) →
    HWF ((xs.map specOf).foldl (fun h r => pushSpec h pfx r) acc) ∧
    expand ((xs.map specOf).foldl (fun h r => pushSpec h pfx r) acc) = expand acc ++ expand xs := by
  intro xs
  induction xs with
  | nil => intro acc h _; simp [h, expand_nil]
  | cons x xs ih =>
    intro acc hacc hx
    obtain ⟨hs, hle, hp⟩ := hx x (by simp)
    simp only [List.map_cons, List.foldl_cons]
    have hwf : HWF (pushSpec acc pfx (specOf x)) := pushRange_HWF _ _ (Or.inr hle) hacc
    have hex : expand (pushSpec acc pfx (specOf x)) = expand acc ++ x.expand := by
      unfold pushSpec
      have hle' : (specOf x).lo ≤ (specOf x).hi := hle
      rw [expand_pushRange' acc ⟨pfx, (specOf x).lo, (specOf x).hi, (specOf x).width, false⟩ (Or.inr hle') hacc,
        ← hp, specOf_expand x hs]
    obtain ⟨h1, h2⟩ := ih _ hwf (fun y hy => hx y (by simp [hy]))
    refine ⟨h1, ?_⟩
    rw [h2, hex, expand_cons, List.append_assoc]


/-! ## one group of `hostlist_ranged_string` -/

/-- the token `_get_bracketed_list` prints for the range `r` followed by the ranges `grp` of the same prefix -/
def groupTok (r : HostRange) (grp : Hostlist) : Name :=
  r.pfx ++ (if r.cnt > 1 || !grp.isEmpty then '[' :: (List.intercalate [','] ((r :: grp).map numstr) ++ [']'])
            else numstr r)

theorem rangedGroups_cons (r : HostRange) (rest : Hostlist) :
    rangedGroups (r :: rest) = groupTok r (rest.takeWhile (withinRange r)) ::
      rangedGroups (rest.drop (rest.takeWhile (withinRange r)).length) := by
  rw [rangedGroups]
  rfl

private theorem mem_intercalate {α} (sep : List α) (c : α) : ∀ (l : List (List α)), c ∈ List.intercalate sep l →
    c ∈ sep ∨ ∃ x ∈ l, c ∈ x
  | [], h => by simp at h
  | [x], h => by rw [List.intercalate_singleton] at h; exact Or.inr ⟨x, by simp, h⟩
  | x :: y :: l, h => by
    rw [List.intercalate_cons_cons] at h
    rcases List.mem_append.mp h with h | h
    · rcases List.mem_append.mp h with h | h
      · exact Or.inr ⟨x, by simp, h⟩
      · exact Or.inl h
    · rcases mem_intercalate sep c (y :: l) h with h | ⟨z, hz, hc⟩
      · exact Or.inl h
      · exact Or.inr ⟨z, by simp [hz], hc⟩

theorem legalChar_digit (c : Char) (h : c.isDigit = true) : legalChar c = true := by
  obtain ⟨_, _, _, h1, h2, h3, h4, h5⟩ := digit_not_special c h
  unfold legalChar; simp [h1, h2, h3, h4, h5]

theorem numstr_legal (x : HostRange) : ∀ c ∈ numstr x, legalChar c = true := by
  intro c hc
  rcases numstr_chars x c hc with h | h
  · exact legalChar_digit c h
  · subst h; decide

theorem numstr_no (x : HostRange) : ',' ∉ numstr x ∧ '[' ∉ numstr x ∧ ']' ∉ numstr x := by
  refine ⟨?_, ?_, ?_⟩ <;> intro h <;> have := numstr_legal x _ h <;> revert this <;> decide

/-- facts about the members of a bracketed group -/
theorem group_members (r : HostRange) (grp : Hostlist) (hr : r.Legal)
    (hg : ∀ x ∈ grp, x.Legal ∧ withinRange r x = true) (hb : (decide (r.cnt > 1) || !grp.isEmpty) = true) :
    ∀ x ∈ r :: grp, x.single = false ∧ x.lo ≤ x.hi ∧ x.pfx = r.pfx ∧ x.cnt ≤ MAX_RANGE := by
  have hrs : r.single = false := by
    cases hs : r.single with
    | false => rfl
    | true =>
      exfalso
      simp only [HostRange.cnt, hs, if_true, Bool.or_eq_true, decide_eq_true_eq, Bool.not_eq_true'] at hb
      rcases hb with hb | hb
      · omega
      · cases grp with
        | nil => simp at hb
        | cons y ys =>
          have := (hg y (by simp)).2
          simp [withinRange, hs] at this
  intro x hx
  rcases List.mem_cons.mp hx with rfl | hx
  · have := hr.wf
    simp only [hrs, Bool.false_eq_true, false_or] at this
    exact ⟨hrs, this, rfl, hr.size⟩
  · obtain ⟨hl, hw⟩ := hg x hx
    simp only [withinRange, samePrefix, Bool.and_eq_true, beq_iff_eq, Bool.not_eq_true'] at hw
    have := hl.wf
    simp only [hw.2, Bool.false_eq_true, false_or] at this
    exact ⟨hw.2, this, hw.1.1.1.symm, hl.size⟩

private theorem contains_false_of_not_mem (c : Char) (l : List Char) (h : c ∉ l) : l.contains c = false := by
  simpa using h

theorem createTok_group (r : HostRange) (grp acc : Hostlist) (hacc : HWF acc) (hr : r.Legal)
    (hg : ∀ x ∈ grp, x.Legal ∧ withinRange r x = true) :
    ∃ acc', createTok acc (groupTok r grp) = .ok acc' ∧ HWF acc' ∧ expand acc' = expand acc ++ expand (r :: grp) := by
  have hpl : '[' ∉ r.pfx := fun h => by have := hr.chars _ h; revert this; decide
  have hpr : ']' ∉ r.pfx := fun h => by have := hr.chars _ h; revert this; decide
  unfold groupTok
  by_cases hb : (decide (r.cnt > 1) || !grp.isEmpty) = true
  · -- bracketed
    have hmem := group_members r grp hr hg hb
    simp only [hb, if_true]
    have hbody : ']' ∉ List.intercalate [','] ((r :: grp).map numstr) := by
      intro h
      rcases mem_intercalate _ _ _ h with h | ⟨z, hz, hc⟩
      · simp at h
      · obtain ⟨x, _, rfl⟩ := List.mem_map.mp hz
        exact (numstr_no x).2.2 hc
    have hsplit : splitAll ',' (List.intercalate [','] ((r :: grp).map numstr)) = (r :: grp).map numstr := by
      apply splitAll_intercalate _ _ (by simp)
      intro z hz
      obtain ⟨x, _, rfl⟩ := List.mem_map.mp hz
      exact (numstr_no x).1
    have hparse : parseRangeList (List.intercalate [','] ((r :: grp).map numstr)) = .ok ((r :: grp).map specOf) := by
      unfold parseRangeList
      rw [hsplit]
      apply mapM_except_ok
      intro x hx
      obtain ⟨h1, h2, _, h4⟩ := hmem x hx
      exact parseSingleRange_numstr x h1 h2 h4
    obtain ⟨h1, h2⟩ := foldl_pushSpec r.pfx (r :: grp) acc hacc
      (fun x hx => ⟨(hmem x hx).1, (hmem x hx).2.1, (hmem x hx).2.2.1⟩)
    refine ⟨_, ?_, h1, h2⟩
    unfold createTok
    rw [splitOnFirst_hit '[' _ _ hpl]
    simp only
    rw [splitOnFirst_hit ']' _ _ hbody]
    simp only
    rw [hparse]
    simp
  · -- a bare name
    have hb' : ¬ r.cnt > 1 ∧ grp = [] := by simpa using hb
    obtain ⟨hc, hgn⟩ := hb'
    subst hgn
    simp only [hb, Bool.false_eq_true, if_false]
    refine ⟨pushHost acc (r.pfx ++ numstr r), ?_, pushHost_HWF _ _ hacc, ?_⟩
    · have hl : '[' ∉ r.pfx ++ numstr r := by
        intro h; rcases List.mem_append.mp h with h | h
        · exact hpl h
        · exact (numstr_no r).2.1 h
      have hrr : ']' ∉ r.pfx ++ numstr r := by
        intro h; rcases List.mem_append.mp h with h | h
        · exact hpr h
        · exact (numstr_no r).2.2 h
      unfold createTok
      rw [splitOnFirst_miss '[' _ hl]
      simp only [contains_false_of_not_mem _ _ hrr]
      simp
    · rw [expand_pushHost' _ _ hacc, expand_singleton]
      congr 1
      unfold HostRange.expand numstr
      unfold HostRange.cnt at hc
      cases hs : r.single with
      | true => simp
      | false =>
        simp only [hs, Bool.false_eq_true, if_false] at hc ⊢
        have := hr.wf
        simp only [hs, Bool.false_eq_true, false_or] at this
        have h1 : r.hi + 1 - r.lo = 1 := by omega
        have h2 : ¬ r.lo < r.hi := by omega
        simp [h1, h2]

theorem groupTok_good (r : HostRange) (grp : Hostlist) (hr : r.Legal) : GoodTok (groupTok r grp) := by
  unfold groupTok
  by_cases hb : (decide (r.cnt > 1) || !grp.isEmpty) = true
  · simp only [hb, if_true]
    refine ⟨by simp, r.pfx, List.intercalate [','] ((r :: grp).map numstr), hr.chars, ?_, Or.inr rfl⟩
    intro c h
    rcases mem_intercalate _ _ _ h with h | ⟨z, hz, hc⟩
    · simp at h; subst h; decide
    · obtain ⟨x, _, rfl⟩ := List.mem_map.mp hz
      constructor
      · intro e; subst e; exact (numstr_no x).2.1 hc
      · intro e; subst e; exact (numstr_no x).2.2 hc
  · simp only [hb, Bool.false_eq_true, if_false]
    refine ⟨?_, r.pfx ++ numstr r, [], ?_, by simp, Or.inl rfl⟩
    · cases hs : r.single with
      | true => have := hr.nonempty hs; simp [this]
      | false =>
        unfold numstr
        simp only [hs, Bool.false_eq_true, if_false]
        have := fmtNum_ne_nil r.width r.lo
        simp [this]
    · intro c hc
      rcases List.mem_append.mp hc with h | h
      · exact hr.chars c h
      · exact numstr_legal r c h


/-! ## all groups -/

theorem rangedGroups_nil : rangedGroups [] = [] := by rw [rangedGroups]

private theorem takeWhile_append_drop {α} (p : α → Bool) : ∀ (l : List α), l.takeWhile p ++ l.drop (l.takeWhile p).length = l
  | [] => rfl
  | x :: l => by
    rw [List.takeWhile_cons]
    split
    · simp only [List.length_cons, List.drop_succ_cons, List.cons_append]
      rw [takeWhile_append_drop p l]
    · rfl

private theorem mem_of_mem_takeWhile' {α} (p : α → Bool) (l : List α) (a : α) (h : a ∈ l.takeWhile p) : a ∈ l := by
  rw [← takeWhile_append_drop p l]; exact List.mem_append_left _ h

theorem groups_spec : ∀ (n : Nat) (hl : Hostlist), hl.length ≤ n → LegalHL hl →
    (∀ t ∈ rangedGroups hl, GoodTok t) ∧
    ∀ acc, HWF acc → ∃ acc', (rangedGroups hl).foldlM createTok acc = .ok acc' ∧ HWF acc' ∧
      expand acc' = expand acc ++ expand hl := by
  intro n
  induction n with
  | zero =>
    intro hl hlen _
    have : hl = [] := List.length_eq_zero_iff.mp (by omega)
    subst this
    rw [rangedGroups_nil]
    exact ⟨by simp, fun acc hacc => ⟨acc, rfl, hacc, by simp [expand_nil]⟩⟩
  | succ n ih =>
    intro hl hlen hleg
    cases hl with
    | nil =>
      rw [rangedGroups_nil]
      exact ⟨by simp, fun acc hacc => ⟨acc, rfl, hacc, by simp [expand_nil]⟩⟩
    | cons r rest =>
      rw [rangedGroups_cons]
      generalize hgrp : rest.takeWhile (withinRange r) = grp
      have hsplit : grp ++ rest.drop grp.length = rest := by rw [← hgrp]; exact takeWhile_append_drop _ _
      have hr : r.Legal := hleg r (by simp)
      have hg : ∀ x ∈ grp, x.Legal ∧ withinRange r x = true := by
        intro x hx
        rw [← hgrp] at hx
        exact ⟨hleg x (by simp [mem_of_mem_takeWhile' _ _ _ hx]), all_of_mem_takeWhile _ _ _ hx⟩
      have htl : LegalHL (rest.drop grp.length) := fun x hx => hleg x (by simp [List.mem_of_mem_drop hx])
      have hlen' : (rest.drop grp.length).length ≤ n := by simp at hlen ⊢; omega
      obtain ⟨ih1, ih2⟩ := ih _ hlen' htl
      constructor
      · intro t ht
        rcases List.mem_cons.mp ht with rfl | ht
        · exact groupTok_good r grp hr
        · exact ih1 t ht
      · intro acc hacc
        obtain ⟨acc1, hc1, hw1, he1⟩ := createTok_group r grp acc hacc hr hg
        obtain ⟨acc2, hc2, hw2, he2⟩ := ih2 acc1 hw1
        refine ⟨acc2, ?_, hw2, ?_⟩
        · rw [List.foldlM_cons, hc1]
          exact hc2
        · rw [he2, he1, List.append_assoc, ← expand_append]
          congr 2
          rw [List.cons_append, hsplit]

/-- C14 round trip: compressing a list into host-range notation and re-parsing the string yields the same names
    in the same order. -/
theorem roundtrip (hl : Hostlist) (h : LegalHL hl) :
    ∃ hl', create (rangedString hl) = .ok hl' ∧ expand hl' = expand hl := by
  obtain ⟨h1, h2⟩ := groups_spec hl.length hl (Nat.le_refl _) h
  obtain ⟨hl', hc, _, he⟩ := h2 [] HWF_nil
  refine ⟨hl', ?_, by simpa [expand_nil] using he⟩
  rw [create_eq, rangedString, tokens_intercalate _ h1]
  exact hc

/-- the re-parsed list is again well formed -/
theorem roundtrip_HWF (hl hl' : Hostlist) (h : create (rangedString hl) = .ok hl') : HWF hl' := create_HWF _ _ h

/-! ## lists built by pushing names -/

/-- prefixes are made of legal characters and single names are non-empty -/
def PfxOK (r : HostRange) : Prop := (∀ c ∈ r.pfx, legalChar c = true) ∧ (r.single = true → r.pfx ≠ [])

theorem pushRange_PfxOK (hl : Hostlist) (r : HostRange) (hr : PfxOK r) (h : ∀ t ∈ hl, PfxOK t) :
    ∀ t ∈ pushRange hl r, PfxOK t := by
  unfold pushRange
  cases hlast : hl.getLast? with
  | none => intro t ht; simp at ht; subst ht; exact hr
  | some t =>
    simp only
    have htm := mem_of_getLast? hlast
    split
    · cases hwe : widthEquiv t.lo t.width r.lo r.width with
      | none =>
        intro x hx
        rcases List.mem_append.mp hx with hx | hx
        · exact h x hx
        · simp at hx; subst hx; exact hr
      | some p =>
        obtain ⟨wt, wr⟩ := p
        intro x hx
        rcases List.mem_append.mp hx with hx | hx
        · exact h x (mem_dropLast hx)
        · simp at hx; subst hx
          exact h t htm
    · intro x hx
      rcases List.mem_append.mp hx with hx | hx
      · exact h x hx
      · simp at hx; subst hx; exact hr

theorem pushHost_PfxOK (hl : Hostlist) (n : Name) (hn : LegalName n) (h : ∀ t ∈ hl, PfxOK t) :
    ∀ t ∈ pushHost hl n, PfxOK t := by
  obtain ⟨hcat, _⟩ := splitDigits_spec n
  have hp : ∀ c ∈ (splitDigits n).1, legalChar c = true := fun c hc => hn.2 c (by rw [← hcat]; simp [hc])
  unfold pushHost
  simp only
  split
  · apply pushRange_PfxOK _ _ _ h
    refine ⟨?_, by simp⟩
    simp only
    unfold HostName.ofName
    simp only
    split
    · exact hn.2
    · split
      · exact hp
      · exact hn.2
  · exact pushRange_PfxOK _ _ ⟨hn.2, fun _ => hn.1⟩ h

theorem foldl_pushHost_PfxOK (names : List Name) : ∀ (hl : Hostlist), (∀ n ∈ names, LegalName n) →
    (∀ t ∈ hl, PfxOK t) → ∀ t ∈ names.foldl pushHost hl, PfxOK t := by
  induction names with
  | nil => intro hl _ h; exact h
  | cons n ns ih =>
    intro hl hn h
    exact ih _ (fun m hm => hn m (by simp [hm])) (pushHost_PfxOK hl n (hn n (by simp)) h)

theorem roundtrip_pushed (names : List Name) (hleg : ∀ n ∈ names, LegalName n)
    (hsz : ∀ r ∈ names.foldl pushHost [], r.cnt ≤ MAX_RANGE) :
    ∃ hl', create (rangedString (names.foldl pushHost [])) = .ok hl' ∧ expand hl' = names := by
  have hwf := foldl_pushHost_HWF names [] HWF_nil
  have hp := foldl_pushHost_PfxOK names [] hleg (by simp)
  have hL : LegalHL (names.foldl pushHost []) := fun r hr =>
    ⟨hwf r hr, (hp r hr).1, (hp r hr).2, hsz r hr⟩
  obtain ⟨hl', hc, he⟩ := roundtrip _ hL
  refine ⟨hl', hc, ?_⟩
  rw [he, expand_foldl_pushHost names [] HWF_nil]
  simp [expand_nil]


/-! ## the hypotheses are necessary; non-vacuity -/

/-- equality of parse results is decidable (for `decide +kernel` below) -/
local instance {ε α : Type} [DecidableEq ε] [DecidableEq α] : DecidableEq (Except ε α) := fun a b =>
  match a, b with
  | .ok x, .ok y => if h : x = y then isTrue (by rw [h]) else isFalse (by intro e; cases e; exact h rfl)
  | .error x, .error y => if h : x = y then isTrue (by rw [h]) else isFalse (by intro e; cases e; exact h rfl)
  | .ok _, .error _ => isFalse (by intro e; cases e)
  | .error _, .ok _ => isFalse (by intro e; cases e)

instance (r : HostRange) : Decidable r.Legal :=
  if h : (r.single = true ∨ r.lo ≤ r.hi) ∧ (∀ c ∈ r.pfx, legalChar c = true) ∧ (r.single = true → r.pfx ≠ []) ∧
      r.cnt ≤ MAX_RANGE
  then isTrue ⟨h.1, h.2.1, h.2.2.1, h.2.2.2⟩
  else isFalse (fun hl => h ⟨hl.wf, hl.chars, hl.nonempty, hl.size⟩)

instance (n : Name) : Decidable (LegalName n) := by unfold LegalName; exact inferInstance

/-- what pushing `n0 … n16384` builds: one range of 16385 hosts -/
def bigRange : Hostlist := [{ pfx := "n".toList, lo := 0, hi := 16384, width := 1, single := false }]

/-- the pattern on a small scale: consecutive names merge into one range without any bound on its size -/
example : ((List.range 21).map fun i => 'n' :: Nat.toDigits 10 i).foldl pushHost [] =
    [{ pfx := "n".toList, lo := 0, hi := 20, width := 1, single := false }] := by decide +kernel

theorem rangedString_bigRange : rangedString bigRange = "n[0-16384]".toList := by decide +kernel

/-- The `size` hypothesis is necessary.  `hostlist_ranged_string` prints a range of more than 16384 hosts, which
    `hostlist_create` then refuses (`_parse_single_range`: "Too many hosts in range", `ERANGE`): the library cannot
    read back its own output. -/
theorem roundtrip_counterexample : create (rangedString bigRange) = .error .erange := by decide +kernel

/-- every other hypothesis of `roundtrip` holds of `bigRange` -/
example : ∀ r ∈ bigRange, (r.single = true ∨ r.lo ≤ r.hi) ∧ (∀ c ∈ r.pfx, legalChar c = true) ∧
    (r.single = true → r.pfx ≠ []) := by unfold bigRange; decide +kernel

/-- The `chars` hypothesis is necessary: `hostlist_push_host` accepts a name holding a separator, the printed string
    then splits into two names. -/
theorem roundtrip_chars_counterexample :
    expand (pushHost [] "a,b".toList) = ["a,b".toList] ∧
    (create (rangedString (pushHost [] "a,b".toList))).map expand = .ok ["a".toList, "b".toList] := by decide +kernel

/-- The `nonempty` hypothesis is necessary: the empty name prints as the empty string, which holds no name. -/
theorem roundtrip_nonempty_counterexample :
    expand (pushHost [] []) = [[]] ∧ create (rangedString (pushHost [] [])) = .ok [] := by decide +kernel

/-- a list with a bracketed group of two ranges (one padded to width 2, crossing 9 → 10), a single name, and a
    lone padded number -/
def sampleHL : Hostlist :=
  [ { pfx := "n".toList, lo := 8, hi := 10, width := 2, single := false },
    { pfx := "n".toList, lo := 20, hi := 20, width := 2, single := false },
    { pfx := "login".toList, lo := 0, hi := 0, width := 0, single := true },
    { pfx := "gpu".toList, lo := 7, hi := 7, width := 3, single := false } ]

/-- the hypothesis of `roundtrip` is satisfiable on a non-trivial list -/
example : LegalHL sampleHL := by unfold LegalHL sampleHL; decide +kernel

example : rangedString sampleHL = "n[08-10,20],login,gpu007".toList := by decide +kernel

example : create (rangedString sampleHL) = .ok
    [ { pfx := "n".toList, lo := 8, hi := 10, width := 2, single := false },
      { pfx := "n".toList, lo := 20, hi := 20, width := 2, single := false },
      { pfx := "login".toList, lo := 0, hi := 0, width := 0, single := true },
      { pfx := "gpu".toList, lo := 7, hi := 7, width := 3, single := false } ] := by decide +kernel

example : (create (rangedString sampleHL)).map expand = .ok (expand sampleHL) := by decide +kernel

/-- the re-parsed list need not be the same list of ranges (here the width 1 comes back as 2, the width of the printed
    `lo`), only the same names: this is why `roundtrip` speaks of `expand` -/
example : create (rangedString [{ pfx := "n".toList, lo := 10, hi := 12, width := 1, single := false }]) =
    .ok [{ pfx := "n".toList, lo := 10, hi := 12, width := 2, single := false }] := by decide +kernel

/-- the hypotheses of `roundtrip_pushed` are satisfiable on a non-trivial list of names -/
def sampleNames : List Name :=
  ["n08".toList, "n09".toList, "n10".toList, "n20".toList, "login".toList, "gpu007".toList, "n21".toList]

example : (∀ n ∈ sampleNames, LegalName n) ∧ (∀ r ∈ sampleNames.foldl pushHost [], r.cnt ≤ MAX_RANGE) := by
  unfold sampleNames; decide +kernel

example : rangedString (sampleNames.foldl pushHost []) = "n[08-10,20],login,gpu007,n21".toList := by decide +kernel


end Pm
