/- pilot for C13: makeNode / pluglist_map / conf_addnodes on already-expanded name lists.
   Names are abstract (Nat); host-range expansion is the Hostlist layer's business. -/
namespace Pm.Config

structure Plug where
  name : Nat
  node : Option Nat
deriving DecidableEq

structure Dev where
  hard : Bool                 -- plug names fixed by the specification
  plugs : List Plug

structure Cfg where
  devs : List Dev
  nodes : List Nat            -- conf_nodes

inductive Err where
  | unkDev | unkPlug | dupPlug | noPlugs | noNodes | dupNode
deriving DecidableEq, Repr

/-- assign `node` to the first plug called `name` (`_pluglist_find_any` returns the first) -/
def setFirst (name node : Nat) : List Plug → List Plug
  | [] => []
  | p :: ps => if p.name = name then { p with node := some node } :: ps else p :: setFirst name node ps

/-- `_pluglist_map_one` -/
def mapOne (d : Dev) (node name : Nat) : Except Err Dev :=
  match d.plugs.find? (·.name = name) with
  | none => if d.hard then .error .unkPlug else .ok { d with plugs := ⟨name, some node⟩ :: d.plugs }   -- list_push
  | some p => if p.node.isSome then .error .dupPlug else .ok { d with plugs := setFirst name node d.plugs }

/-- assign `node` to the first free plug (`_pluglist_map_next`) -/
def setNextFree (node : Nat) : List Plug → Option (List Plug)
  | [] => none
  | p :: ps => if p.node.isNone then some ({ p with node := some node } :: ps)
               else (setNextFree node ps).map (p :: ·)

def mapNext (d : Dev) (node : Nat) : Except Err Dev :=
  match setNextFree node d.plugs with
  | some ps => .ok { d with plugs := ps }
  | none => .error .noPlugs

/-- `pluglist_map` -/
def mapLine (d : Dev) : List Nat → Option (List Nat) → Except Err Dev
  | [], none => .ok d
  | n :: ns, none => do
    let d' ← if d.hard then mapNext d n else mapOne d n n
    mapLine d' ns none
  | [], some [] => .ok d
  | [], some (_ :: _) => .error .noNodes              -- more plugs than nodes
  | _ :: _, some [] => .error .noPlugs                 -- more nodes than plugs
  | n :: ns, some (p :: ps) => do
    let d' ← mapOne d n p
    mapLine d' ns (some ps)

/-- `conf_addnodes` -/
def addNodes (known : List Nat) : List Nat → Except Err (List Nat)
  | [] => .ok known
  | n :: ns => if n ∈ known then .error .dupNode else addNodes (known ++ [n]) ns

def setNth {α} : List α → Nat → α → List α
  | [], _, _ => []
  | _ :: xs, 0, a => a :: xs
  | x :: xs, n + 1, a => x :: setNth xs n a

/-- `makeNode` -/
def makeNode (c : Cfg) (nodes : List Nat) (dev : Nat) (plugs : Option (List Nat)) : Except Err Cfg :=
  match c.devs[dev]? with
  | none => .error .unkDev
  | some d => do
    let d' ← mapLine d nodes plugs
    let known ← addNodes c.nodes nodes
    pure { devs := setNth c.devs dev d', nodes := known }

/-! ### how often is a node mapped -/
def mappedIn (ps : List Plug) (m : Nat) : Nat := ps.countP (·.node = some m)
def mapped (c : Cfg) (m : Nat) : Nat := (c.devs.map fun d => mappedIn d.plugs m).sum

theorem setFirst_count (name node m : Nat) : ∀ (ps : List Plug) (p : Plug), ps.find? (·.name = name) = some p → p.node = none →
    mappedIn (setFirst name node ps) m = mappedIn ps m + (if node = m then 1 else 0)
  | [], _, h, _ => by simp at h
  | q :: qs, p, h, hn => by
    simp only [List.find?_cons] at h
    by_cases hq : q.name = name
    · simp only [hq, decide_true] at h
      have : q = p := Option.some.inj h
      subst this
      simp only [setFirst, hq, if_true, mappedIn, List.countP_cons, hn]
      split <;> simp_all
    · simp only [hq, decide_false] at h
      have := setFirst_count name node m qs p h hn
      simp only [setFirst, hq, if_false, mappedIn, List.countP_cons] at this ⊢
      omega

theorem mapOne_count (d d' : Dev) (node name m : Nat) (h : mapOne d node name = .ok d') :
    mappedIn d'.plugs m = mappedIn d.plugs m + (if node = m then 1 else 0) := by
  unfold mapOne at h
  cases hf : d.plugs.find? (·.name = name) with
  | none =>
    rw [hf] at h
    simp only at h
    split at h
    · cases h
    · cases h
      simp only [mappedIn, List.countP_cons]
      split <;> simp_all
  | some p =>
    rw [hf] at h
    simp only at h
    split at h
    · cases h
    · rename_i hnone
      cases h
      exact setFirst_count name node m d.plugs p hf (by simpa using hnone)

theorem setNextFree_count (node m : Nat) : ∀ (ps ps' : List Plug), setNextFree node ps = some ps' →
    mappedIn ps' m = mappedIn ps m + (if node = m then 1 else 0)
  | [], _, h => by simp [setNextFree] at h
  | p :: ps, ps', h => by
    simp only [setNextFree] at h
    split at h
    · rename_i hfree
      cases h
      have : p.node = none := by simpa using hfree
      simp only [mappedIn, List.countP_cons, this]
      split <;> simp_all
    · cases hr : setNextFree node ps with
      | none => rw [hr] at h; cases h
      | some r =>
        rw [hr] at h
        simp only [Option.map_some, Option.some.injEq] at h
        subst h
        have := setNextFree_count node m ps r hr
        simp only [mappedIn, List.countP_cons] at this ⊢
        omega

theorem mapNext_count (d d' : Dev) (node m : Nat) (h : mapNext d node = .ok d') :
    mappedIn d'.plugs m = mappedIn d.plugs m + (if node = m then 1 else 0) := by
  unfold mapNext at h
  cases hs : setNextFree node d.plugs with
  | none => rw [hs] at h; cases h
  | some ps => rw [hs] at h; cases h; exact setNextFree_count node m d.plugs ps hs

theorem mapLine_count (m : Nat) : ∀ (nodes : List Nat) (plugs : Option (List Nat)) (d d' : Dev),
    mapLine d nodes plugs = .ok d' → mappedIn d'.plugs m = mappedIn d.plugs m + nodes.count m
  | [], none, d, d', h => by simp only [mapLine] at h; cases h; simp
  | n :: ns, none, d, d', h => by
    simp only [mapLine, bind, Except.bind] at h
    by_cases hh : d.hard = true
    · simp only [hh, if_true] at h
      cases hd1 : mapNext d n with
      | error e => rw [hd1] at h; cases h
      | ok d1 =>
        rw [hd1] at h
        have h1 := mapNext_count d d1 n m hd1
        have h2 := mapLine_count m ns none d1 d' h
        rw [h2, h1, List.count_cons]
        split <;> simp_all <;> omega
    · simp only [hh, if_false] at h
      cases hd1 : mapOne d n n with
      | error e => rw [hd1] at h; cases h
      | ok d1 =>
        rw [hd1] at h
        have h1 := mapOne_count d d1 n n m hd1
        have h2 := mapLine_count m ns none d1 d' h
        rw [h2, h1, List.count_cons]
        split <;> simp_all <;> omega
  | [], some [], d, d', h => by simp only [mapLine] at h; cases h; simp
  | [], some (_ :: _), d, d', h => by simp [mapLine] at h
  | _ :: _, some [], d, d', h => by simp [mapLine] at h
  | n :: ns, some (p :: ps), d, d', h => by
    simp only [mapLine, bind, Except.bind] at h
    cases hd1 : mapOne d n p with
    | error e => rw [hd1] at h; cases h
    | ok d1 =>
      rw [hd1] at h
      have h1 := mapOne_count d d1 n p m hd1
      have h2 := mapLine_count m ns (some ps) d1 d' h
      rw [h2, h1, List.count_cons]
      split <;> simp_all <;> omega

theorem addNodes_spec : ∀ (ns known known' : List Nat), addNodes known ns = .ok known' →
    known' = known ++ ns ∧ (∀ n ∈ ns, n ∉ known) ∧ ns.Nodup
  | [], known, known', h => by simp only [addNodes] at h; cases h; simp
  | n :: ns, known, known', h => by
    simp only [addNodes] at h
    split at h
    · cases h
    · rename_i hn
      obtain ⟨h1, h2, h3⟩ := addNodes_spec ns (known ++ [n]) known' h
      refine ⟨by rw [h1]; simp, ?_, ?_⟩
      · intro x hx
        rcases List.mem_cons.mp hx with rfl | hx
        · exact hn
        · intro hk; exact h2 x hx (by simp [hk])
      · rw [List.nodup_cons]
        exact ⟨fun hmem => h2 n hmem (by simp), h3⟩

theorem sum_setNth (f : Dev → Nat) : ∀ (ds : List Dev) (i : Nat) (d d' : Dev), ds[i]? = some d →
    ((setNth ds i d').map f).sum + f d = (ds.map f).sum + f d'
  | [], _, _, _, h => by simp at h
  | x :: xs, 0, d, d', h => by
    simp only [List.getElem?_cons_zero, Option.some.injEq] at h; subst h
    simp only [setNth, List.map_cons, List.sum_cons]; omega
  | x :: xs, i + 1, d, d', h => by
    simp only [List.getElem?_cons_succ] at h
    have := sum_setNth f xs i d d' h
    simp only [setNth, List.map_cons, List.sum_cons] at this ⊢; omega

/-- the invariant of accepted configurations: the node list has no duplicates and a node is mapped
    exactly once if it is configured, never otherwise -/
def Unambiguous (c : Cfg) : Prop := c.nodes.Nodup ∧ ∀ m, mapped c m = if m ∈ c.nodes then 1 else 0

/-- C13 core: an accepted `node` line keeps the node-to-plug map unambiguous -/
theorem makeNode_unambiguous (c c' : Cfg) (nodes : List Nat) (dev : Nat) (plugs : Option (List Nat))
    (hc : Unambiguous c) (h : makeNode c nodes dev plugs = .ok c') : Unambiguous c' := by
  obtain ⟨hnd, hmap⟩ := hc
  unfold makeNode at h
  cases hd : c.devs[dev]? with
  | none => rw [hd] at h; cases h
  | some d =>
    rw [hd] at h
    simp only [bind, Except.bind, pure, Except.pure] at h
    split at h
    · cases h
    · rename_i d' hd'
      split at h
      · cases h
      · rename_i known hk
        cases h
        obtain ⟨hkn, hnew, hnodup⟩ := addNodes_spec nodes c.nodes known hk
        refine ⟨?_, ?_⟩
        · show known.Nodup
          rw [hkn, List.nodup_append]
          exact ⟨hnd, hnodup, fun a ha b hb hab => hnew b hb (hab ▸ ha)⟩
        · intro m
          show mapped ⟨setNth c.devs dev d', known⟩ m = if m ∈ known then 1 else 0
          have hsum := sum_setNth (fun d => mappedIn d.plugs m) c.devs dev d d' hd
          have hline := mapLine_count m nodes plugs d d' hd'
          have hold := hmap m
          unfold mapped at hold ⊢
          simp only at hsum ⊢
          have hcount : nodes.count m = if m ∈ nodes then 1 else 0 := hnodup.count
          rw [hkn]
          simp only [List.mem_append]
          by_cases h1 : m ∈ c.nodes
          · have h2 : m ∉ nodes := fun hm => hnew m hm h1
            simp only [h1, h2, if_true, if_false, true_or] at hold hcount ⊢
            omega
          · by_cases h2 : m ∈ nodes
            · simp only [h1, h2, if_true, if_false, or_true] at hold hcount ⊢
              omega
            · simp only [h1, h2, if_false, or_self] at hold hcount ⊢
              omega

/-- a whole sequence of node lines: any accepted configuration is unambiguous -/
def build (c : Cfg) : List (List Nat × Nat × Option (List Nat)) → Except Err Cfg
  | [] => .ok c
  | (ns, d, ps) :: rest => do
    let c' ← makeNode c ns d ps
    build c' rest

theorem C13_unambiguous (devs : List Dev) (hfree : ∀ d ∈ devs, ∀ p ∈ d.plugs, p.node = none)
    (lines : List (List Nat × Nat × Option (List Nat))) (c : Cfg) (h : build ⟨devs, []⟩ lines = .ok c) :
    Unambiguous c := by
  have h0 : Unambiguous ⟨devs, []⟩ := by
    refine ⟨by simp, ?_⟩
    intro m
    simp only [List.not_mem_nil, if_false]
    unfold mapped
    have : ∀ ds : List Dev, (∀ d ∈ ds, ∀ p ∈ d.plugs, p.node = none) → (ds.map fun d => mappedIn d.plugs m).sum = 0 := by
      intro ds
      induction ds with
      | nil => intro _; simp
      | cons d ds ih =>
        intro hf
        simp only [List.map_cons, List.sum_cons]
        have hd : mappedIn d.plugs m = 0 := by
          apply List.countP_eq_zero.mpr
          intro p hp
          simp [hf d (by simp) p hp]
        have := ih (fun d' hd' => hf d' (by simp [hd']))
        omega
    exact this devs hfree
  have : ∀ (lines : List (List Nat × Nat × Option (List Nat))) (c0 c : Cfg), Unambiguous c0 → build c0 lines = .ok c → Unambiguous c := by
    intro lines
    induction lines with
    | nil => intro c0 c hu hb; simp only [build] at hb; cases hb; exact hu
    | cons l ls ih =>
      intro c0 c hu hb
      obtain ⟨ns, d, ps⟩ := l
      simp only [build, bind, Except.bind] at hb
      split at hb
      · cases hb
      · rename_i c1 hc1
        exact ih c1 c (makeNode_unambiguous c0 c1 ns d ps hu hc1) hb
  exact this lines _ c h0 h

end Pm.Config

