import Pm.LibPmModel
/-! Helper lemmas for property C16 (client library `libpowerman.c` and the CLI's reply loop), over `Pm/LibPmModel.lean`. -/
namespace Pm.LibPmModel

/-! ### the kernel `readK` -/

theorem readK_bounds (cs : List Chunk) (space : Nat) (bs : Bytes) (cs' : List Chunk) (hs : 0 < space)
    (h : readK cs space = (some (some bs), cs')) : 0 < bs.length ∧ bs.length ≤ space := by
  unfold readK at h
  split at h
  · simp at h
  · simp at h
  · simp at h
  · rename_i b r
    by_cases hb : b.isEmpty
    · simp [hb] at h
    · by_cases hl : b.length ≤ space
      · simp [hb, hl] at h
        obtain ⟨rfl, _⟩ := h
        have : b ≠ [] := by simpa using hb
        exact ⟨List.length_pos_iff.mpr this, hl⟩
      · simp [hb, hl] at h
        obtain ⟨rfl, _⟩ := h
        simp [List.length_take]
        omega

/-- a successful `read` makes the script strictly smaller -/
theorem readK_measure (cs : List Chunk) (space : Nat) (bs : Bytes) (cs' : List Chunk) (hs : 0 < space)
    (h : readK cs space = (some (some bs), cs')) : chunkBytes cs' < chunkBytes cs := by
  unfold readK at h
  split at h
  · simp at h
  · simp at h
  · simp at h
  · rename_i b r
    by_cases hb : b.isEmpty
    · simp [hb] at h
    · by_cases hl : b.length ≤ space
      · simp [hb, hl] at h
        obtain ⟨_, rfl⟩ := h
        simp [chunkBytes] <;> omega
      · simp [hb, hl] at h
        obtain ⟨_, rfl⟩ := h
        simp [chunkBytes, List.length_drop]; omega

/-- whatever `read` returns, the script does not grow -/
theorem readK_le (cs : List Chunk) (space : Nat) : chunkBytes (readK cs space).2 ≤ chunkBytes cs := by
  unfold readK
  split
  · simp
  · simp [chunkBytes]
  · simp [chunkBytes]
  · rename_i b r
    by_cases hb : b.isEmpty
    · simp [hb, chunkBytes] <;> omega
    · by_cases hl : b.length ≤ space
      · simp [hb, hl, chunkBytes] <;> omega
      · simp [hb, hl, chunkBytes, List.length_drop] <;> omega

/-! ### `_strncmpend` (guarded) -/

theorem prompt_length : prompt.length = 10 := rfl

theorem endsWith_short (b : Bytes) (h : b.length < 10) : endsWith b prompt = false := by
  unfold endsWith
  simp [prompt_length]
  intro h'; omega

theorem endsWith_iff (b s : Bytes) : endsWith b s = true ↔ ∃ p, b = p ++ s := by
  unfold endsWith
  simp only [ge_iff_le, Bool.and_eq_true, decide_eq_true_eq, beq_iff_eq]
  constructor
  · rintro ⟨hl, hd⟩
    refine ⟨b.take (b.length - s.length), ?_⟩
    conv => lhs; rw [← List.take_append_drop (b.length - s.length) b]
    rw [hd]
  · rintro ⟨p, rfl⟩
    simp

/-! ### `_server_recv_response`: the read loop -/

/-- the buffer size the loop reads with (`buflen` after the optional `xrealloc`) -/
def growLen (buf : Bytes) (buflen : Nat) : Nat := if buflen - buf.length == 0 then buflen + LINEMAX else buflen

theorem growLen_space (buf : Bytes) (buflen : Nat) (h : buf.length ≤ buflen) :
    0 < growLen buf buflen - buf.length ∧ buf.length ≤ growLen buf buflen := by
  unfold growLen LINEMAX
  split <;> simp_all <;> omega

theorem recvLoop_succ (fuel : Nat) (buf : Bytes) (buflen : Nat) (cs : List Chunk) :
    recvLoop (fuel + 1) buf buflen cs =
      match readK cs (growLen buf buflen - buf.length) with
      | (none, cs') => (.error 7, cs')
      | (some none, cs') => (.error 1, cs')
      | (some (some bs), cs') =>
        if endsWith (buf ++ bs) prompt then (.ok (buf ++ bs), cs')
        else recvLoop fuel (buf ++ bs) (growLen buf buflen) cs' := by
  rw [recvLoop]; rfl

/-- the invariant `count ≤ buflen` is kept by every iteration: what is appended fits in the space left -/
theorem recv_step_bounds (buf : Bytes) (buflen : Nat) (cs : List Chunk) (h : buf.length ≤ buflen)
    (bs : Bytes) (cs' : List Chunk) (hr : readK cs (growLen buf buflen - buf.length) = (some (some bs), cs')) :
    0 < bs.length ∧ (buf ++ bs).length ≤ growLen buf buflen := by
  have hg := growLen_space buf buflen h
  have hb := readK_bounds cs _ bs cs' hg.1 hr
  refine ⟨hb.1, ?_⟩
  simp; omega

/-- any two sufficient amounts of fuel give the same result -/
theorem recvLoop_fuel (f1 f2 : Nat) (buf : Bytes) (buflen : Nat) (cs : List Chunk) (h : buf.length ≤ buflen)
    (h1 : chunkBytes cs < f1) (h2 : chunkBytes cs < f2) : recvLoop f1 buf buflen cs = recvLoop f2 buf buflen cs := by
  induction f1 generalizing f2 buf buflen cs with
  | zero => omega
  | succ f1 ih =>
    obtain ⟨f2, rfl⟩ : ∃ k, f2 = k + 1 := ⟨f2 - 1, by omega⟩
    rw [recvLoop_succ, recvLoop_succ]
    generalize hr : readK cs (growLen buf buflen - buf.length) = r
    obtain ⟨x, cs'⟩ := r
    rcases x with _ | _ | bs
    · rfl
    · rfl
    · have hm := readK_measure cs _ bs cs' (growLen_space buf buflen h).1 hr
      have hb := recv_step_bounds buf buflen cs h bs cs' hr
      simp only
      split
      · rfl
      · exact ih f2 _ _ _ hb.2 (by omega) (by omega)

/-- the loop without fuel -/
def recv (buf : Bytes) (buflen : Nat) (cs : List Chunk) : Except Nat Bytes × List Chunk :=
  recvLoop (chunkBytes cs + 1) buf buflen cs

theorem recvLoop_eq_recv (fuel : Nat) (buf : Bytes) (buflen : Nat) (cs : List Chunk) (h : buf.length ≤ buflen)
    (hf : chunkBytes cs < fuel) : recvLoop fuel buf buflen cs = recv buf buflen cs :=
  recvLoop_fuel _ _ _ _ _ h hf (by omega)

theorem recv_step (buf : Bytes) (buflen : Nat) (cs : List Chunk) (h : buf.length ≤ buflen) :
    recv buf buflen cs =
      match readK cs (growLen buf buflen - buf.length) with
      | (none, cs') => (.error 7, cs')
      | (some none, cs') => (.error 1, cs')
      | (some (some bs), cs') =>
        if endsWith (buf ++ bs) prompt then (.ok (buf ++ bs), cs')
        else recv (buf ++ bs) (growLen buf buflen) cs' := by
  unfold recv
  rw [recvLoop_succ]
  generalize hr : readK cs (growLen buf buflen - buf.length) = r
  obtain ⟨x, cs'⟩ := r
  rcases x with _ | _ | bs
  · rfl
  · rfl
  · have hm := readK_measure cs _ bs cs' (growLen_space buf buflen h).1 hr
    have hb := recv_step_bounds buf buflen cs h bs cs' hr
    simp only
    split
    · rfl
    · exact recvLoop_fuel _ _ _ _ _ hb.2 (by omega) (by omega)

theorem recvResponse_loop (cs : List Chunk) : recvLoop (recvFuel cs) [] 0 cs = recv [] 0 cs := rfl

/-! ### segmentations of a byte string -/

/-- the bytes carried by the data chunks of a script -/
def bytesOf : List Chunk → Bytes
  | [] => []
  | .data b :: r => b ++ bytesOf r
  | _ :: r => bytesOf r

/-- `Seg cs s t`: the script `cs` is a sequence of non-empty data chunks carrying the bytes `s`, followed by the script `t` -/
inductive Seg : List Chunk → Bytes → List Chunk → Prop
  | nil (t : List Chunk) : Seg t [] t
  | cons (b : Bytes) (hb : b ≠ []) {cs : List Chunk} {s : Bytes} {t : List Chunk} : Seg cs s t → Seg (.data b :: cs) (b ++ s) t

theorem Seg_of_map (ds : List Bytes) (t : List Chunk) (h : ∀ d ∈ ds, d ≠ []) : Seg (ds.map .data ++ t) ds.flatten t := by
  induction ds with
  | nil => exact .nil t
  | cons d ds ih =>
    simp only [List.map_cons, List.cons_append, List.flatten_cons]
    exact .cons d (h d (by simp)) (ih (fun x hx => h x (by simp [hx])))

theorem Seg_nil_inv {cs t : List Chunk} (h : Seg cs [] t) : cs = t := by
  generalize hs : ([] : Bytes) = s at h
  cases h with
  | nil => rfl
  | cons b hb h' => simp at hs; exact absurd hs.1 hb

theorem Seg_length {cs : List Chunk} {s : Bytes} {t : List Chunk} (h : Seg cs s t) : s.length + chunkBytes t ≤ chunkBytes cs := by
  induction h with
  | nil t => simp
  | cons b hb h' ih => simp [chunkBytes]; omega

theorem readK_seg {cs : List Chunk} {s : Bytes} {t : List Chunk} (h : Seg cs s t) (hs : s ≠ []) (space : Nat) (hsp : 0 < space) :
    ∃ bs s' cs', readK cs space = (some (some bs), cs') ∧ bs ≠ [] ∧ bs.length ≤ space ∧ s = bs ++ s' ∧ Seg cs' s' t := by
  cases h with
  | nil => exact absurd rfl hs
  | @cons b hb r s0 _ h' =>
    have hbe : b.isEmpty = false := by simpa using hb
    by_cases hl : b.length ≤ space
    · exact ⟨b, s0, r, by simp [readK, hbe, hl], hb, hl, rfl, h'⟩
    · refine ⟨b.take space, b.drop space ++ s0, .data (b.drop space) :: r, by simp [readK, hbe, hl], ?_, ?_, ?_, ?_⟩
      · intro h0
        have := congrArg List.length h0
        rw [List.length_take, List.length_nil] at this; omega
      · rw [List.length_take]; omega
      · rw [← List.append_assoc, List.take_append_drop]
      · refine .cons _ ?_ h'
        intro h0
        have := congrArg List.length h0
        rw [List.length_drop, List.length_nil] at this; omega

/-- the read loop on a script that begins with a segmentation of `s`, when the accumulated bytes end with the prompt at no byte
    position strictly inside `s`: it reads exactly `s`, stops there if the buffer then ends with the prompt, and otherwise goes on
    with what follows -/
theorem recv_seg (n : Nat) : ∀ (buf : Bytes) (buflen : Nat) (cs : List Chunk) (s : Bytes) (t : List Chunk), s.length ≤ n →
    Seg cs s t → s ≠ [] → buf.length ≤ buflen →
    (∀ q r, s = q ++ r → q ≠ [] → r ≠ [] → endsWith (buf ++ q) prompt = false) →
    (endsWith (buf ++ s) prompt = true ∧ recv buf buflen cs = (.ok (buf ++ s), t)) ∨
    (endsWith (buf ++ s) prompt = false ∧ ∃ buflen', (buf ++ s).length ≤ buflen' ∧ recv buf buflen cs = recv (buf ++ s) buflen' t) := by
  induction n with
  | zero =>
    intro buf buflen cs s t hn _ hs
    exact absurd (List.eq_nil_of_length_eq_zero (by omega)) hs
  | succ n ih =>
    intro buf buflen cs s t hn hseg hs hb hq
    have hg := growLen_space buf buflen hb
    obtain ⟨bs, s', cs', hr, hbs, hbl, rfl, hseg'⟩ := readK_seg hseg hs _ hg.1
    have hb' : (buf ++ bs).length ≤ growLen buf buflen := by simp; omega
    rw [recv_step buf buflen cs hb, hr]
    simp only
    by_cases hs' : s' = []
    · subst hs'
      have := Seg_nil_inv hseg'
      subst this
      simp only [List.append_nil]
      by_cases he : endsWith (buf ++ bs) prompt = true
      · exact .inl ⟨he, by simp [he]⟩
      · exact .inr ⟨by simpa using he, growLen buf buflen, hb', by simp [he]⟩
    · have he : endsWith (buf ++ bs) prompt = false := hq bs s' rfl hbs hs'
      simp only [he, Bool.false_eq_true, ↓reduceIte]
      have hlen : s'.length ≤ n := by
        have : 0 < bs.length := List.length_pos_iff.mpr hbs
        simp at hn; omega
      have := ih (buf ++ bs) (growLen buf buflen) cs' s' t hlen hseg' hs' hb' (by
        intro q r hqr hq0 hr0
        rw [List.append_assoc]
        exact hq (bs ++ q) r (by rw [hqr, List.append_assoc]) (by simp [hq0]) hr0)
      simpa [List.append_assoc] using this

/-- the decidable form of "the prompt ends no proper non-empty prefix": used for examples -/
def promptInside (buf s : Bytes) : Bool :=
  (List.range s.length).any fun k => 0 < k && endsWith (buf ++ s.take k) prompt

theorem promptInside_false (buf s : Bytes) (h : promptInside buf s = false) :
    ∀ q r, s = q ++ r → q ≠ [] → r ≠ [] → endsWith (buf ++ q) prompt = false := by
  intro q r hs hq hr
  unfold promptInside at h
  rw [← Bool.not_eq_true, List.any_eq_true] at h
  by_cases he : endsWith (buf ++ q) prompt = true
  · exfalso; apply h
    refine ⟨q.length, ?_, ?_⟩
    · have : 0 < r.length := List.length_pos_iff.mpr hr
      simp [hs]; omega
    · have : 0 < q.length := List.length_pos_iff.mpr hq
      simp [hs, he, this]
  · simpa using he

/-- what the loop does with the end of the script -/
theorem recv_nil (buf : Bytes) (buflen : Nat) (h : buf.length ≤ buflen) : recv buf buflen [] = (.error 7, []) := by
  rw [recv_step _ _ _ h]; rfl
theorem recv_eof (buf : Bytes) (buflen : Nat) (r : List Chunk) (h : buf.length ≤ buflen) : recv buf buflen (.eof :: r) = (.error 7, r) := by
  rw [recv_step _ _ _ h]; rfl
theorem recv_empty (buf : Bytes) (buflen : Nat) (r : List Chunk) (h : buf.length ≤ buflen) : recv buf buflen (.data [] :: r) = (.error 7, r) := by
  rw [recv_step _ _ _ h]; rfl
theorem recv_err (buf : Bytes) (buflen : Nat) (r : List Chunk) (h : buf.length ≤ buflen) : recv buf buflen (.err :: r) = (.error 1, r) := by
  rw [recv_step _ _ _ h]; rfl

/-- the stream ends (or fails) after bytes `s` none of whose non-empty prefixes ends with the prompt -/
theorem recv_seg_noprompt {cs : List Chunk} {s : Bytes} {t : List Chunk} (hseg : Seg cs s t)
    (hq : ∀ q r, s = q ++ r → q ≠ [] → endsWith q prompt = false) :
    ∃ buflen', s.length ≤ buflen' ∧ recv [] 0 cs = recv s buflen' t := by
  by_cases hs : s = []
  · subst hs
    have := Seg_nil_inv hseg; subst this
    exact ⟨0, by simp, rfl⟩
  · rcases recv_seg s.length [] 0 cs s t (Nat.le_refl _) hseg hs (by simp) (fun q r h1 h2 _ => by simpa using hq q r h1 h2) with h | h
    · have := hq s [] (by simp) hs
      simp [this] at h
    · obtain ⟨_, b, hb, he⟩ := h
      exact ⟨b, by simpa using hb, by simpa using he⟩

/-! ### the CLI's loops never run out of fuel -/

theorem readStr_succ (fuel : Nat) (acc : Bytes) (cs : List Chunk) :
    readStr (fuel + 1) acc cs =
      match readK cs 1 with
      | (none, cs') => (.error "powerman: EOF on read\n", cs')
      | (some none, cs') => (.error "powerman: read: Connection reset by peer\n", cs')
      | (some (some bs), cs') =>
        if endsWith (acc ++ bs) crlf then (.ok ((acc ++ bs).take ((acc ++ bs).length - 2)), cs') else readStr fuel (acc ++ bs) cs' := by
  rw [readStr]; rfl

theorem readStr_nofuel (fuel : Nat) (acc : Bytes) (cs : List Chunk) (h : chunkBytes cs < fuel) :
    (readStr fuel acc cs).1 ≠ .error "fuel" ∧ chunkBytes (readStr fuel acc cs).2 ≤ chunkBytes cs ∧
    (∀ x, (readStr fuel acc cs).1 = .ok x → chunkBytes (readStr fuel acc cs).2 < chunkBytes cs) := by
  induction fuel generalizing acc cs with
  | zero => omega
  | succ fuel ih =>
    rw [readStr_succ]
    have hle := readK_le cs 1
    generalize hr : readK cs 1 = r at hle
    obtain ⟨x, cs'⟩ := r
    rcases x with _ | _ | bs
    · exact ⟨by simp, hle, by simp⟩
    · exact ⟨by simp, hle, by simp⟩
    · have hm := readK_measure cs 1 bs cs' (by omega) hr
      simp only
      split
      · exact ⟨by simp, hle, fun _ _ => hm⟩
      · have := ih (acc ++ bs) cs' (by omega)
        exact ⟨this.1, by omega, fun x hx => by have := this.2.2 x hx; omega⟩

theorem expectLoop_succ (fuel : Nat) (acc : Bytes) (need : Nat) (cs : List Chunk) :
    expectLoop (fuel + 1) acc need cs =
      match readK cs need with
      | (none, cs') => (.error "powerman: lost connection with server\n", cs')
      | (some none, cs') => (.error "powerman: lost connection with server: Connection reset by peer\n", cs')
      | (some (some bs), cs') =>
        if need - bs.length == 0 then (.ok (acc ++ bs), cs') else expectLoop fuel (acc ++ bs) (need - bs.length) cs' := by
  rw [expectLoop]; rfl

theorem expectLoop_nofuel (fuel : Nat) (acc : Bytes) (need : Nat) (cs : List Chunk) (h : need < fuel) :
    (expectLoop fuel acc need cs).1 ≠ .error "fuel" ∧ chunkBytes (expectLoop fuel acc need cs).2 ≤ chunkBytes cs := by
  induction fuel generalizing acc need cs with
  | zero => omega
  | succ fuel ih =>
    rw [expectLoop_succ]
    have hle := readK_le cs need
    generalize hr : readK cs need = r at hle
    obtain ⟨x, cs'⟩ := r
    rcases x with _ | _ | bs
    · exact ⟨by simp, hle⟩
    · exact ⟨by simp, hle⟩
    · simp only
      split
      · exact ⟨by simp, hle⟩
      · rename_i hne
        have hpos : 0 < need := by
          rcases Nat.eq_zero_or_pos need with h0 | h0
          · simp [h0] at hne
          · exact h0
        have hb := readK_bounds cs need bs cs' hpos hr
        have := ih (acc ++ bs) (need - bs.length) cs' (by omega)
        exact ⟨this.1, by simp only at hle; omega⟩

theorem expect_nofuel (s : Bytes) (cs : List Chunk) :
    (expect s cs).1 ≠ .error "fuel" ∧ chunkBytes (expect s cs).2 ≤ chunkBytes cs := by
  unfold expect
  have := expectLoop_nofuel (s.length + 1) [] s.length cs (by omega)
  generalize expectLoop (s.length + 1) [] s.length cs = r at this
  obtain ⟨x, cs'⟩ := r
  cases x with
  | error m => simpa using this
  | ok got =>
    simp only at this ⊢
    split
    · exact ⟨by simp, this.2⟩
    · exact ⟨by simp, this.2⟩

theorem processLine_nofuel (c : Cli) :
    (processLine c).1 ≠ .error "fuel" ∧ chunkBytes (processLine c).2.cs ≤ chunkBytes c.cs ∧
    (∀ x, (processLine c).1 = .ok x → chunkBytes (processLine c).2.cs < chunkBytes c.cs) := by
  unfold processLine
  have := readStr_nofuel (chunkBytes c.cs + 2) [] c.cs (by omega)
  generalize readStr (chunkBytes c.cs + 2) [] c.cs = r at this
  obtain ⟨x, cs'⟩ := r
  cases x with
  | error m => simpa using this
  | ok raw =>
    have h3 := this.2.2 raw rfl
    simp only at this h3 ⊢
    split
    · split
      · exact ⟨by simp, this.2.1, fun _ _ => h3⟩
      · split
        · exact ⟨by simp, this.2.1, fun _ _ => h3⟩
        · exact ⟨by simp, this.2.1, fun _ _ => h3⟩
    · exact ⟨by simp, this.2.1, by simp⟩

theorem processResponse_succ (fuel : Nat) (c : Cli) :
    processResponse (fuel + 1) c =
      match processLine c with
      | (.error m, c) => (.error m, c)
      | (.ok num, c) =>
        if 100 ≤ num && num < 300 then (.ok (if 200 ≤ num then num else 0), c) else processResponse fuel c := by
  rw [processResponse]; rfl

theorem processResponse_nofuel (fuel : Nat) (c : Cli) (h : chunkBytes c.cs < fuel) :
    (processResponse fuel c).1 ≠ .error "fuel" ∧ chunkBytes (processResponse fuel c).2.cs ≤ chunkBytes c.cs := by
  induction fuel generalizing c with
  | zero => omega
  | succ fuel ih =>
    rw [processResponse_succ]
    have := processLine_nofuel c
    generalize processLine c = r at this
    obtain ⟨x, c'⟩ := r
    cases x with
    | error m => exact ⟨by simpa using this.1, this.2.1⟩
    | ok num =>
      have h3 := this.2.2 num rfl
      simp only at h3 ⊢
      split
      · exact ⟨by simp, this.2.1⟩
      · have := ih c' (by omega)
        exact ⟨this.1, by omega⟩

/-- one exchange of `main`: the response, then the prompt -/
def exchange (fuel : Nat) (c : Cli) : Except String Int × Cli :=
  match processResponse fuel c with
  | (.error m, c) => (.error m, c)
  | (.ok res, c) =>
    match expect prompt c.cs with
    | (.error m, cs') => (.error m, { c with cs := cs' })
    | (.ok (), cs') => (.ok res, { c with cs := cs' })

theorem exchange_nofuel (fuel : Nat) (c : Cli) (h : chunkBytes c.cs < fuel) :
    (exchange fuel c).1 ≠ .error "fuel" ∧ chunkBytes (exchange fuel c).2.cs ≤ chunkBytes c.cs := by
  unfold exchange
  have := processResponse_nofuel fuel c h
  generalize processResponse fuel c = r at this
  obtain ⟨x, c'⟩ := r
  cases x with
  | error m => exact ⟨by simpa using this.1, this.2⟩
  | ok res =>
    simp only at this ⊢
    have he := expect_nofuel prompt c'.cs
    generalize expect prompt c'.cs = r at he
    obtain ⟨y, cs'⟩ := r
    cases y with
    | error m => exact ⟨by simpa using he.1, by simp only at he ⊢; omega⟩
    | ok u => exact ⟨by simp, by simp only at he ⊢; omega⟩

theorem run_zero (f : Cli → Except String Int × Cli) (c : Cli) : cliRun.run f 0 c = (.ok 0, c) := by
  rw [cliRun.run]
theorem run_succ (f : Cli → Except String Int × Cli) (k : Nat) (c : Cli) :
    cliRun.run f (k + 1) c =
      match f c with
      | (.error m, c) => (.error m, c)
      | (.ok res, c) => if res != 0 then (.ok res, c) else cliRun.run f k c := by
  rw [cliRun.run]; rfl

theorem run_nofuel (fuel k : Nat) (c : Cli) (h : chunkBytes c.cs < fuel) :
    (cliRun.run (exchange fuel) k c).1 ≠ .error "fuel" ∧ chunkBytes (cliRun.run (exchange fuel) k c).2.cs ≤ chunkBytes c.cs := by
  induction k generalizing c with
  | zero => rw [run_zero]; exact ⟨by simp, Nat.le_refl _⟩
  | succ k ih =>
    rw [run_succ]
    have := exchange_nofuel fuel c h
    generalize exchange fuel c = r at this
    obtain ⟨x, c'⟩ := r
    cases x with
    | error m => exact ⟨by simpa using this.1, this.2⟩
    | ok res =>
      simp only at this ⊢
      split
      · exact ⟨by simp, this.2⟩
      · have := ih c' (by omega)
        exact ⟨this.1, by omega⟩

/-- `_process_version`: the banner line, the version scan and the optional warning -/
def stageVersion (o : CliOpts) (fuel : Nat) (c : Cli) : Except String Unit × Cli :=
  match readStr fuel [] c.cs with
  | (.error m, cs') => (.error m, { c with cs := cs' })
  | (.ok raw, cs') =>
    let c := { c with cs := cs' }
    match scanVersion (cstr raw) with
    | none => (.error "powerman: unexpected response from server\n", c)
    | some v =>
      (.ok (), if v != o.version then { c with errs := c.errs ++ str "powerman: warning: server version (" ++ v ++ str ") != client (" ++ o.version ++ str ")\n" } else c)

/-- `_expect` on the CLI state -/
def expectC (s : Bytes) (c : Cli) : Except String Unit × Cli :=
  match expect s c.cs with
  | (.error m, cs') => (.error m, { c with cs := cs' })
  | (.ok (), cs') => (.ok (), { c with cs := cs' })

def exchanges (o : CliOpts) : Nat := (if o.telemetry then 1 else 0) + (if o.exprange then 1 else 0) + 1

/-- `cliRun` with the reason of a failure kept apart: `.error m` = the run printed `m` and called `exit(1)`,
    `.ok res` = it reached `exit(res)` -/
def cliCore (o : CliOpts) (cs : List Chunk) : Except String Int × Cli :=
  let fuel := chunkBytes cs + 2
  match stageVersion o fuel { cs := cs } with
  | (.error m, c) => (.error m, c)
  | (.ok (), c) =>
    match expectC prompt c with
    | (.error m, c) => (.error m, c)
    | (.ok (), c) =>
      match cliRun.run (exchange fuel) (exchanges o) c with
      | (.error m, c) => (.error m, c)
      | (.ok res, c) =>
        match expectC goodbye c with
        | (.error m, c) => (.error m, c)
        | (.ok (), _) => (.ok res, c)

def cliFinish : Except String Int × Cli → Int × Bytes × Bytes
  | (.error m, c) => (1, c.out, c.errs ++ str m)
  | (.ok res, c) => (res, c.out, c.errs)

theorem cliRun_eq (o : CliOpts) (cs : List Chunk) : cliRun o cs = cliFinish (cliCore o cs) := by
  unfold cliRun cliCore stageVersion expectC
  simp only
  generalize readStr (chunkBytes cs + 2) [] cs = r1
  obtain ⟨x1, cs1⟩ := r1
  cases x1 with
  | error m => rfl
  | ok raw =>
    simp only
    cases scanVersion (cstr raw) with
    | none => rfl
    | some v =>
      simp only
      generalize (if (v != o.version) = true then ({ cs := cs1, errs := [] ++ str "powerman: warning: server version (" ++ v ++ str ") != client (" ++ o.version ++ str ")\n" } : Cli) else { cs := cs1 }) = c0
      generalize expect prompt c0.cs = r2
      obtain ⟨x2, cs2⟩ := r2
      cases x2 with
      | error m => rfl
      | ok u =>
        simp only
        show (match cliRun.run (exchange (chunkBytes cs + 2)) (exchanges o) ({ cs := cs2, out := c0.out, errs := c0.errs } : Cli) with
          | (Except.error m, c) => ((1 : Int), c.out, c.errs ++ str m)
          | (Except.ok res, c) =>
            match expect goodbye c.cs with
            | (Except.error m, cs') => (1, c.out, c.errs ++ str m)
            | (Except.ok PUnit.unit, _) => (res, c.out, c.errs)) = _
        generalize cliRun.run (exchange (chunkBytes cs + 2)) (exchanges o) _ = r3
        obtain ⟨x3, c3⟩ := r3
        cases x3 with
        | error m => rfl
        | ok res =>
          simp only
          generalize expect goodbye c3.cs = r4
          obtain ⟨x4, cs4⟩ := r4
          cases x4 with
          | error m => rfl
          | ok u => rfl

theorem stageVersion_nofuel (o : CliOpts) (fuel : Nat) (c : Cli) (h : chunkBytes c.cs < fuel) :
    (stageVersion o fuel c).1 ≠ .error "fuel" ∧ chunkBytes (stageVersion o fuel c).2.cs ≤ chunkBytes c.cs := by
  unfold stageVersion
  have := readStr_nofuel fuel [] c.cs h
  generalize readStr fuel [] c.cs = r at this
  obtain ⟨x, cs'⟩ := r
  cases x with
  | error m => exact ⟨by simpa using this.1, this.2.1⟩
  | ok raw =>
    simp only at this ⊢
    cases scanVersion (cstr raw) with
    | none => exact ⟨by simp, this.2.1⟩
    | some v =>
      simp only
      split
      · exact ⟨by simp, this.2.1⟩
      · exact ⟨by simp, this.2.1⟩

theorem expectC_nofuel (s : Bytes) (c : Cli) :
    (expectC s c).1 ≠ .error "fuel" ∧ chunkBytes (expectC s c).2.cs ≤ chunkBytes c.cs := by
  unfold expectC
  have := expect_nofuel s c.cs
  generalize expect s c.cs = r at this
  obtain ⟨x, cs'⟩ := r
  cases x with
  | error m => exact ⟨by simpa using this.1, this.2⟩
  | ok u => exact ⟨by simp, this.2⟩

/-- no run of the CLI ends because a loop of the model ran out of fuel: every loop ends by itself -/
theorem cliCore_nofuel (o : CliOpts) (cs : List Chunk) : (cliCore o cs).1 ≠ .error "fuel" := by
  unfold cliCore
  simp only
  have h1 := stageVersion_nofuel o (chunkBytes cs + 2) { cs := cs } (by simp)
  generalize stageVersion o (chunkBytes cs + 2) { cs := cs } = r1 at h1
  obtain ⟨x1, c1⟩ := r1
  cases x1 with
  | error m => simpa using h1.1
  | ok u =>
    simp only at h1 ⊢
    have h2 := expectC_nofuel prompt c1
    generalize expectC prompt c1 = r2 at h2
    obtain ⟨x2, c2⟩ := r2
    cases x2 with
    | error m => simpa using h2.1
    | ok u =>
      simp only at h2 ⊢
      have h3 := run_nofuel (chunkBytes cs + 2) (exchanges o) c2 (by omega)
      generalize cliRun.run (exchange (chunkBytes cs + 2)) (exchanges o) c2 = r3 at h3
      obtain ⟨x3, c3⟩ := r3
      cases x3 with
      | error m => simpa using h3.1
      | ok res =>
        simp only at h3 ⊢
        have h4 := expectC_nofuel goodbye c3
        generalize expectC goodbye c3 = r4 at h4
        obtain ⟨x4, c4⟩ := r4
        cases x4 with
        | error m => simpa using h4.1
        | ok u => simp

/-! ### `sscanf("%d")` and `strtol` on a reply line -/

theorem isDigit_iff (a : UInt8) : isDigit a = true ↔ 48 ≤ a.toNat ∧ a.toNat ≤ 57 := by
  simp [isDigit]

theorem isSpace_iff (a : UInt8) : isSpace a = true ↔ a.toNat = 32 ∨ (9 ≤ a.toNat ∧ a.toNat ≤ 13) := by
  unfold isSpace
  simp only [Bool.or_eq_true, beq_iff_eq, Bool.and_eq_true, decide_eq_true_eq]
  constructor
  · rintro (h | h)
    · subst h; left; rfl
    · right; exact h
  · rintro (h | h)
    · left; exact UInt8.toNat_inj.mp h
    · right; exact h

theorem toInt32_small (n : Nat) (h : n < 2147483648) : toInt32 (n : Int) = n := by
  unfold toInt32
  simp only
  have : ((n : Int) % 4294967296) = n := by omega
  rw [this]
  split
  · omega
  · rfl

theorem takeWhile_digits (ds rest : Bytes) (hd : ∀ d ∈ ds, isDigit d = true) (hr : ∀ x r, rest = x :: r → isDigit x = false) :
    List.takeWhile isDigit (ds ++ rest) = ds := by
  rw [List.takeWhile_append_of_pos (by simpa using hd)]
  cases rest with
  | nil => simp
  | cons x r => simp [hr x r rfl]

/-- `sscanf(s, "%d")` on a string that starts with digits -/
theorem scanInt_digits (ds : Bytes) (rest : Bytes) (hd : ∀ d ∈ ds, isDigit d = true) (hne : ds ≠ [])
    (hr : ∀ x r, rest = x :: r → isDigit x = false) (hv : digitsVal ds < 2147483648) :
    scanInt (ds ++ rest) = some (digitsVal ds : Int) := by
  have htw := takeWhile_digits ds rest hd hr
  obtain ⟨a, ds', rfl⟩ := List.exists_cons_of_ne_nil hne
  have ha := (isDigit_iff a).mp (hd a (by simp))
  have hsp : isSpace a = false := by
    rw [← Bool.not_eq_true, isSpace_iff]; omega
  have h45 : a ≠ 45 := by intro h; subst h; simp at ha
  have h43 : a ≠ 43 := by intro h; subst h; simp at ha
  unfold scanInt
  simp only [List.cons_append, List.dropWhile_cons, hsp, Bool.false_eq_true, ↓reduceIte]
  split
  · rename_i r h; simp at h; exact absurd h.1 h45
  · rename_i r h; simp at h; exact absurd h.1 h43
  · rw [← List.cons_append]
    simp only [htw]
    simp only [List.isEmpty_cons, Bool.false_eq_true, ↓reduceIte]
    have : ¬ ((digitsVal (a :: ds') : Int) > 9223372036854775807) := by omega
    simp only [this, ↓reduceIte]
    rw [toInt32_small _ hv]

/-- `strtol(s, NULL, 10)` (as the CLI clamps it) on a string that starts with digits -/
theorem strtolCli_digits (ds : Bytes) (rest : Bytes) (hd : ∀ d ∈ ds, isDigit d = true) (hne : ds ≠ [])
    (hr : ∀ x r, rest = x :: r → isDigit x = false) (hv : digitsVal ds < 2147483648) :
    strtolCli (ds ++ rest) = (digitsVal ds : Int) := by
  have htw := takeWhile_digits ds rest hd hr
  obtain ⟨a, ds', rfl⟩ := List.exists_cons_of_ne_nil hne
  have ha := (isDigit_iff a).mp (hd a (by simp))
  have hsp : isSpace a = false := by
    rw [← Bool.not_eq_true, isSpace_iff]; omega
  have h45 : a ≠ 45 := by intro h; subst h; simp at ha
  have h43 : a ≠ 43 := by intro h; subst h; simp at ha
  unfold strtolCli
  simp only [List.cons_append, List.dropWhile_cons, hsp, Bool.false_eq_true, ↓reduceIte]
  split
  · rename_i r h; simp at h; exact absurd h.1 h45
  · rename_i r h; simp at h; exact absurd h.1 h43
  · rw [← List.cons_append]
    simp only [htw]
    have : ¬ ((digitsVal (a :: ds') : Int) ≥ 9223372036854775807) := by omega
    simp only [this, Bool.false_eq_true, ↓reduceIte]

/-- the three decimal digits of a reply code -/
def digits3 (n : Nat) : Bytes := [UInt8.ofNat (48 + n / 100), UInt8.ofNat (48 + n / 10 % 10), UInt8.ofNat (48 + n % 10)]

theorem digits3_val (n : Nat) (h : n < 1000) : digitsVal (digits3 n) = n := by
  simp [digitsVal, digits3, UInt8.toNat_ofNat]
  omega

theorem digits3_digits (n : Nat) (h : n < 1000) : ∀ d ∈ digits3 n, isDigit d = true := by
  intro d hd
  simp only [digits3, List.mem_cons, List.not_mem_nil, or_false] at hd
  rw [isDigit_iff]
  rcases hd with rfl | rfl | rfl <;> simp [UInt8.toNat_ofNat] <;> omega

theorem cstr_append_of_nonul (a b : Bytes) (h : ∀ x ∈ a, x ≠ 0) : cstr (a ++ b) = a ++ cstr b := by
  unfold cstr
  rw [List.takeWhile_append_of_pos (by simpa using h)]

theorem cstr_of_nonul (a : Bytes) (h : ∀ x ∈ a, x ≠ 0) : cstr a = a := by
  have := cstr_append_of_nonul a [] h
  simpa [cstr] using this

theorem digit_ne_zero (d : UInt8) (h : isDigit d = true) : d ≠ 0 := by
  intro h0; subst h0; simp [isDigit] at h

theorem cstr_digits3 (n : Nat) (h : n < 1000) (text : Bytes) : cstr (digits3 n ++ 32 :: text) = digits3 n ++ 32 :: cstr text := by
  rw [cstr_append_of_nonul _ _ (fun x hx => digit_ne_zero x (digits3_digits n h x hx))]
  congr 1

/-- a conforming line `NNN␠text`: `sscanf("%d")` sees `NNN` -/
theorem scanInt_line (n : Nat) (h : n < 1000) (text : Bytes) : scanInt (cstr (digits3 n ++ 32 :: text)) = some (n : Int) := by
  rw [cstr_digits3 n h, scanInt_digits _ _ (digits3_digits n h) (by simp [digits3]) (by
    intro x r hx; simp at hx; rw [← hx.1]; rfl) (by rw [digits3_val n h]; omega), digits3_val n h]

theorem strtolCli_line (n : Nat) (h : n < 1000) (text : Bytes) : strtolCli (cstr (digits3 n ++ 32 :: text)) = (n : Int) := by
  rw [cstr_digits3 n h, strtolCli_digits _ _ (digits3_digits n h) (by simp [digits3]) (by
    intro x r hx; simp at hx; rw [← hx.1]; rfl) (by rw [digits3_val n h]; omega), digits3_val n h]

/-! ### `_server_retcode` -/

/-- what one line contributes to the verdict -/
def verdict (l : Bytes) : Option Nat :=
  match scanInt (cstr l) with
  | some c => if successCodes.contains c then some 0 else if failureCodes.contains c then some c.toNat else none
  | none => none

theorem retcode_nil : retcode [] = 8 := rfl

theorem retcode_cons (l : Bytes) (ls : List Bytes) : retcode (l :: ls) = (verdict l).getD (retcode ls) := by
  unfold retcode verdict
  rw [List.reverse_cons, List.foldl_append, List.foldl_cons, List.foldl_nil]
  cases scanInt (cstr l) with
  | none => rfl
  | some c =>
    simp only
    split
    · rfl
    · split <;> rfl

theorem retcode_none (ls : List Bytes) (h : ∀ l ∈ ls, verdict l = none) : retcode ls = 8 := by
  induction ls with
  | nil => rfl
  | cons l ls ih =>
    rw [retcode_cons, h l (by simp), Option.getD_none]
    exact ih (fun x hx => h x (by simp [hx]))

/-- the first line (in stream order) with a 1xx/2xx code decides -/
theorem retcode_first (pre post : List Bytes) (l : Bytes) (r : Nat) (hpre : ∀ x ∈ pre, verdict x = none)
    (hl : verdict l = some r) : retcode (pre ++ l :: post) = r := by
  induction pre with
  | nil => simp [retcode_cons, hl]
  | cons p pre ih =>
    rw [List.cons_append, retcode_cons, hpre p (by simp), Option.getD_none]
    exact ih (fun x hx => hpre x (by simp [hx]))

theorem verdict_none_iff (l : Bytes) :
    verdict l = none ↔ ∀ d, scanInt (cstr l) = some d → d ∉ successCodes ∧ d ∉ failureCodes := by
  unfold verdict
  cases scanInt (cstr l) with
  | none => simp
  | some c =>
    simp only [Option.some.injEq, forall_eq']
    by_cases h1 : c ∈ successCodes
    · simp [h1]
    · by_cases h2 : c ∈ failureCodes
      · simp [h1, h2]
      · simp [h1, h2]

theorem failure_pos (c : Int) (h : c ∈ failureCodes) : 0 < c := by
  simp only [failureCodes, List.mem_cons, List.not_mem_nil, or_false] at h
  omega

theorem verdict_of_scan (l : Bytes) (c : Int) (h : scanInt (cstr l) = some c) (hc : c ∈ successCodes ∨ c ∈ failureCodes) :
    verdict l = some (if c ∈ successCodes then 0 else c.toNat) := by
  unfold verdict
  rw [h]
  by_cases h1 : c ∈ successCodes
  · simp [h1]
  · have h2 : c ∈ failureCodes := by rcases hc with h | h; exact absurd h h1; exact h
    simp [h1, h2]

theorem verdict_zero (l : Bytes) (h : verdict l = some 0) : ∃ c ∈ successCodes, scanInt (cstr l) = some c := by
  unfold verdict at h
  cases hs : scanInt (cstr l) with
  | none => simp [hs] at h
  | some c =>
    rw [hs] at h
    simp only at h
    by_cases h1 : c ∈ successCodes
    · exact ⟨c, h1, rfl⟩
    · by_cases h2 : c ∈ failureCodes
      · have := failure_pos c h2
        simp [h1, h2] at h
        omega
      · simp [h1, h2] at h

theorem retcode_zero (ls : List Bytes) (h : retcode ls = 0) : ∃ l ∈ ls, ∃ c ∈ successCodes, scanInt (cstr l) = some c := by
  induction ls with
  | nil => simp [retcode_nil] at h
  | cons l ls ih =>
    rw [retcode_cons] at h
    cases hv : verdict l with
    | none =>
      rw [hv, Option.getD_none] at h
      obtain ⟨x, hx, hc⟩ := ih h
      exact ⟨x, by simp [hx], hc⟩
    | some r =>
      rw [hv, Option.getD_some] at h
      subst h
      exact ⟨l, by simp, verdict_zero l hv⟩

end Pm.LibPmModel
