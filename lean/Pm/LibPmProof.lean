import Pm.LibPmModel
/-! Helper lemmas for property C16 (client library `libpowerman.c` and the CLI's reply loop), over `Pm/LibPmModel.lean`. -/
namespace Pm.LibPmModel

/-! ### the kernel `readK` -/

theorem readK_bounds (cs : List Chunk) (space : Nat) (bs : Bytes) (cs' : List Chunk) (hs : 0 < space)
    (h : readK cs space = (some (some bs), cs')) : 0 < bs.length ∧ bs.length ≤ space := by
  unfold readK at h
  split at h
  · simp at h
  · simp at h
  · simp at h
  · rename_i b r
    by_cases hb : b.isEmpty
    · simp [hb] at h
    · by_cases hl : b.length ≤ space
      · simp [hb, hl] at h
        obtain ⟨rfl, _⟩ := h
        have : b ≠ [] := by simpa using hb
        exact ⟨List.length_pos_iff.mpr this, hl⟩
      · simp [hb, hl] at h
        obtain ⟨rfl, _⟩ := h
        simp [List.length_take]
        omega

/-- a successful `read` makes the script strictly smaller -/
theorem readK_measure (cs : List Chunk) (space : Nat) (bs : Bytes) (cs' : List Chunk) (hs : 0 < space)
    (h : readK cs space = (some (some bs), cs')) : chunkBytes cs' < chunkBytes cs := by
  unfold readK at h
  split at h
  · simp at h
  · simp at h
  · simp at h
  · rename_i b r
    by_cases hb : b.isEmpty
    · simp [hb] at h
    · by_cases hl : b.length ≤ space
      · simp [hb, hl] at h
        obtain ⟨_, rfl⟩ := h
        simp [chunkBytes] <;> omega
      · simp [hb, hl] at h
        obtain ⟨_, rfl⟩ := h
        simp [chunkBytes, List.length_drop]; omega

/-- whatever `read` returns, the script does not grow -/
theorem readK_le (cs : List Chunk) (space : Nat) : chunkBytes (readK cs space).2 ≤ chunkBytes cs := by
  unfold readK
  split
  · simp
  · simp [chunkBytes]
  · simp [chunkBytes]
  · rename_i b r
    by_cases hb : b.isEmpty
    · simp [hb, chunkBytes] <;> omega
    · by_cases hl : b.length ≤ space
      · simp [hb, hl, chunkBytes] <;> omega
      · simp [hb, hl, chunkBytes, List.length_drop] <;> omega

/-! ### `_strncmpend` (guarded) -/

theorem prompt_length : prompt.length = 10 := rfl

theorem endsWith_short (b : Bytes) (h : b.length < 10) : endsWith b prompt = false := by
  unfold endsWith
  simp [prompt_length]
  intro h'; omega

theorem endsWith_iff (b s : Bytes) : endsWith b s = true ↔ ∃ p, b = p ++ s := by
  unfold endsWith
  simp only [ge_iff_le, Bool.and_eq_true, decide_eq_true_eq, beq_iff_eq]
  constructor
  · rintro ⟨hl, hd⟩
    refine ⟨b.take (b.length - s.length), ?_⟩
    conv => lhs; rw [← List.take_append_drop (b.length - s.length) b]
    rw [hd]
  · rintro ⟨p, rfl⟩
    simp

/-! ### `_server_recv_response`: the read loop -/

/-- the buffer size the loop reads with (`buflen` after the optional `xrealloc`) -/
def growLen (buf : Bytes) (buflen : Nat) : Nat := if buflen - buf.length == 0 then buflen + LINEMAX else buflen

theorem growLen_space (buf : Bytes) (buflen : Nat) (h : buf.length ≤ buflen) :
    0 < growLen buf buflen - buf.length ∧ buf.length ≤ growLen buf buflen := by
  unfold growLen LINEMAX
  split <;> simp_all <;> omega

theorem recvLoop_succ (fuel : Nat) (buf : Bytes) (buflen : Nat) (cs : List Chunk) :
    recvLoop (fuel + 1) buf buflen cs =
      match readK cs (growLen buf buflen - buf.length) with
      | (none, cs') => (.error 7, cs')
      | (some none, cs') => (.error 1, cs')
      | (some (some bs), cs') =>
        if endsWith (buf ++ bs) prompt then (.ok (buf ++ bs), cs')
        else recvLoop fuel (buf ++ bs) (growLen buf buflen) cs' := by
  rw [recvLoop]; rfl

/-- the invariant `count ≤ buflen` is kept by every iteration: what is appended fits in the space left -/
theorem recv_step_bounds (buf : Bytes) (buflen : Nat) (cs : List Chunk) (h : buf.length ≤ buflen)
    (bs : Bytes) (cs' : List Chunk) (hr : readK cs (growLen buf buflen - buf.length) = (some (some bs), cs')) :
    0 < bs.length ∧ (buf ++ bs).length ≤ growLen buf buflen := by
  have hg := growLen_space buf buflen h
  have hb := readK_bounds cs _ bs cs' hg.1 hr
  refine ⟨hb.1, ?_⟩
  simp; omega

/-- any two sufficient amounts of fuel give the same result -/
theorem recvLoop_fuel (f1 f2 : Nat) (buf : Bytes) (buflen : Nat) (cs : List Chunk) (h : buf.length ≤ buflen)
    (h1 : chunkBytes cs < f1) (h2 : chunkBytes cs < f2) : recvLoop f1 buf buflen cs = recvLoop f2 buf buflen cs := by
  induction f1 generalizing f2 buf buflen cs with
  | zero => omega
  | succ f1 ih =>
    obtain ⟨f2, rfl⟩ : ∃ k, f2 = k + 1 := ⟨f2 - 1, by omega⟩
    rw [recvLoop_succ, recvLoop_succ]
    generalize hr : readK cs (growLen buf buflen - buf.length) = r
    obtain ⟨x, cs'⟩ := r
    rcases x with _ | _ | bs
    · rfl
    · rfl
    · have hm := readK_measure cs _ bs cs' (growLen_space buf buflen h).1 hr
      have hb := recv_step_bounds buf buflen cs h bs cs' hr
      simp only
      split
      · rfl
      · exact ih f2 _ _ _ hb.2 (by omega) (by omega)

/-- the loop without fuel -/
def recv (buf : Bytes) (buflen : Nat) (cs : List Chunk) : Except Nat Bytes × List Chunk :=
  recvLoop (chunkBytes cs + 1) buf buflen cs

theorem recvLoop_eq_recv (fuel : Nat) (buf : Bytes) (buflen : Nat) (cs : List Chunk) (h : buf.length ≤ buflen)
    (hf : chunkBytes cs < fuel) : recvLoop fuel buf buflen cs = recv buf buflen cs :=
  recvLoop_fuel _ _ _ _ _ h hf (by omega)

theorem recv_step (buf : Bytes) (buflen : Nat) (cs : List Chunk) (h : buf.length ≤ buflen) :
    recv buf buflen cs =
      match readK cs (growLen buf buflen - buf.length) with
      | (none, cs') => (.error 7, cs')
      | (some none, cs') => (.error 1, cs')
      | (some (some bs), cs') =>
        if endsWith (buf ++ bs) prompt then (.ok (buf ++ bs), cs')
        else recv (buf ++ bs) (growLen buf buflen) cs' := by
  unfold recv
  rw [recvLoop_succ]
  generalize hr : readK cs (growLen buf buflen - buf.length) = r
  obtain ⟨x, cs'⟩ := r
  rcases x with _ | _ | bs
  · rfl
  · rfl
  · have hm := readK_measure cs _ bs cs' (growLen_space buf buflen h).1 hr
    have hb := recv_step_bounds buf buflen cs h bs cs' hr
    simp only
    split
    · rfl
    · exact recvLoop_fuel _ _ _ _ _ hb.2 (by omega) (by omega)

theorem recvResponse_loop (cs : List Chunk) : recvLoop (recvFuel cs) [] 0 cs = recv [] 0 cs := rfl

/-! ### segmentations of a byte string -/

/-- the bytes carried by the data chunks of a script -/
def bytesOf : List Chunk → Bytes
  | [] => []
  | .data b :: r => b ++ bytesOf r
  | _ :: r => bytesOf r

/-- `Seg cs s t`: the script `cs` is a sequence of non-empty data chunks carrying the bytes `s`, followed by the script `t` -/
inductive Seg : List Chunk → Bytes → List Chunk → Prop
  | nil (t : List Chunk) : Seg t [] t
  | cons (b : Bytes) (hb : b ≠ []) {cs : List Chunk} {s : Bytes} {t : List Chunk} : Seg cs s t → Seg (.data b :: cs) (b ++ s) t

theorem Seg_of_map (ds : List Bytes) (t : List Chunk) (h : ∀ d ∈ ds, d ≠ []) : Seg (ds.map .data ++ t) ds.flatten t := by
  induction ds with
  | nil => exact .nil t
  | cons d ds ih =>
    simp only [List.map_cons, List.cons_append, List.flatten_cons]
    exact .cons d (h d (by simp)) (ih (fun x hx => h x (by simp [hx])))

theorem Seg_nil_inv {cs t : List Chunk} (h : Seg cs [] t) : cs = t := by
  generalize hs : ([] : Bytes) = s at h
  cases h with
  | nil => rfl
  | cons b hb h' => simp at hs; exact absurd hs.1 hb

theorem Seg_length {cs : List Chunk} {s : Bytes} {t : List Chunk} (h : Seg cs s t) : s.length + chunkBytes t ≤ chunkBytes cs := by
  induction h with
  | nil t => simp
  | cons b hb h' ih => simp [chunkBytes]; omega

theorem readK_seg {cs : List Chunk} {s : Bytes} {t : List Chunk} (h : Seg cs s t) (hs : s ≠ []) (space : Nat) (hsp : 0 < space) :
    ∃ bs s' cs', readK cs space = (some (some bs), cs') ∧ bs ≠ [] ∧ bs.length ≤ space ∧ s = bs ++ s' ∧ Seg cs' s' t := by
  cases h with
  | nil => exact absurd rfl hs
  | @cons b hb r s0 _ h' =>
    have hbe : b.isEmpty = false := by simpa using hb
    by_cases hl : b.length ≤ space
    · exact ⟨b, s0, r, by simp [readK, hbe, hl], hb, hl, rfl, h'⟩
    · refine ⟨b.take space, b.drop space ++ s0, .data (b.drop space) :: r, by simp [readK, hbe, hl], ?_, ?_, ?_, ?_⟩
      · intro h0
        have := congrArg List.length h0
        rw [List.length_take, List.length_nil] at this; omega
      · rw [List.length_take]; omega
      · rw [← List.append_assoc, List.take_append_drop]
      · refine .cons _ ?_ h'
        intro h0
        have := congrArg List.length h0
        rw [List.length_drop, List.length_nil] at this; omega

/-- the read loop on a script that begins with a segmentation of `s`, when the accumulated bytes end with the prompt at no byte
    position strictly inside `s`: it reads exactly `s`, stops there if the buffer then ends with the prompt, and otherwise goes on
    with what follows -/
theorem recv_seg (n : Nat) : ∀ (buf : Bytes) (buflen : Nat) (cs : List Chunk) (s : Bytes) (t : List Chunk), s.length ≤ n →
    Seg cs s t → s ≠ [] → buf.length ≤ buflen →
    (∀ q r, s = q ++ r → q ≠ [] → r ≠ [] → endsWith (buf ++ q) prompt = false) →
    (endsWith (buf ++ s) prompt = true ∧ recv buf buflen cs = (.ok (buf ++ s), t)) ∨
    (endsWith (buf ++ s) prompt = false ∧ ∃ buflen', (buf ++ s).length ≤ buflen' ∧ recv buf buflen cs = recv (buf ++ s) buflen' t) := by
  induction n with
  | zero =>
    intro buf buflen cs s t hn _ hs
    exact absurd (List.eq_nil_of_length_eq_zero (by omega)) hs
  | succ n ih =>
    intro buf buflen cs s t hn hseg hs hb hq
    have hg := growLen_space buf buflen hb
    obtain ⟨bs, s', cs', hr, hbs, hbl, rfl, hseg'⟩ := readK_seg hseg hs _ hg.1
    have hb' : (buf ++ bs).length ≤ growLen buf buflen := by simp; omega
    rw [recv_step buf buflen cs hb, hr]
    simp only
    by_cases hs' : s' = []
    · subst hs'
      have := Seg_nil_inv hseg'
      subst this
      simp only [List.append_nil]
      by_cases he : endsWith (buf ++ bs) prompt = true
      · exact .inl ⟨he, by simp [he]⟩
      · exact .inr ⟨by simpa using he, growLen buf buflen, hb', by simp [he]⟩
    · have he : endsWith (buf ++ bs) prompt = false := hq bs s' rfl hbs hs'
      simp only [he, Bool.false_eq_true, ↓reduceIte]
      have hlen : s'.length ≤ n := by
        have : 0 < bs.length := List.length_pos_iff.mpr hbs
        simp at hn; omega
      have := ih (buf ++ bs) (growLen buf buflen) cs' s' t hlen hseg' hs' hb' (by
        intro q r hqr hq0 hr0
        rw [List.append_assoc]
        exact hq (bs ++ q) r (by rw [hqr, List.append_assoc]) (by simp [hq0]) hr0)
      simpa [List.append_assoc] using this

/-- the decidable form of "the prompt ends no proper non-empty prefix": used for examples -/
def promptInside (buf s : Bytes) : Bool :=
  (List.range s.length).any fun k => 0 < k && endsWith (buf ++ s.take k) prompt

theorem promptInside_false (buf s : Bytes) (h : promptInside buf s = false) :
    ∀ q r, s = q ++ r → q ≠ [] → r ≠ [] → endsWith (buf ++ q) prompt = false := by
  intro q r hs hq hr
  unfold promptInside at h
  rw [← Bool.not_eq_true, List.any_eq_true] at h
  by_cases he : endsWith (buf ++ q) prompt = true
  · exfalso; apply h
    refine ⟨q.length, ?_, ?_⟩
    · have : 0 < r.length := List.length_pos_iff.mpr hr
      simp [hs]; omega
    · have : 0 < q.length := List.length_pos_iff.mpr hq
      simp [hs, he, this]
  · simpa using he

/-- what the loop does with the end of the script -/
theorem recv_nil (buf : Bytes) (buflen : Nat) (h : buf.length ≤ buflen) : recv buf buflen [] = (.error 7, []) := by
  rw [recv_step _ _ _ h]; rfl
theorem recv_eof (buf : Bytes) (buflen : Nat) (r : List Chunk) (h : buf.length ≤ buflen) : recv buf buflen (.eof :: r) = (.error 7, r) := by
  rw [recv_step _ _ _ h]; rfl
theorem recv_empty (buf : Bytes) (buflen : Nat) (r : List Chunk) (h : buf.length ≤ buflen) : recv buf buflen (.data [] :: r) = (.error 7, r) := by
  rw [recv_step _ _ _ h]; rfl
theorem recv_err (buf : Bytes) (buflen : Nat) (r : List Chunk) (h : buf.length ≤ buflen) : recv buf buflen (.err :: r) = (.error 1, r) := by
  rw [recv_step _ _ _ h]; rfl

/-- the stream ends (or fails) after bytes `s` none of whose non-empty prefixes ends with the prompt -/
theorem recv_seg_noprompt {cs : List Chunk} {s : Bytes} {t : List Chunk} (hseg : Seg cs s t)
    (hq : ∀ q r, s = q ++ r → q ≠ [] → endsWith q prompt = false) :
    ∃ buflen', s.length ≤ buflen' ∧ recv [] 0 cs = recv s buflen' t := by
  by_cases hs : s = []
  · subst hs
    have := Seg_nil_inv hseg; subst this
    exact ⟨0, by simp, rfl⟩
  · rcases recv_seg s.length [] 0 cs s t (Nat.le_refl _) hseg hs (by simp) (fun q r h1 h2 _ => by simpa using hq q r h1 h2) with h | h
    · have := hq s [] (by simp) hs
      simp [this] at h
    · obtain ⟨_, b, hb, he⟩ := h
      exact ⟨b, by simpa using hb, by simpa using he⟩

/-! ### the CLI's loops never run out of fuel -/

theorem readStr_succ (fuel : Nat) (acc : Bytes) (cs : List Chunk) :
    readStr (fuel + 1) acc cs =
      match readK cs 1 with
      | (none, cs') => (.error "powerman: EOF on read\n", cs')
      | (some none, cs') => (.error "powerman: read: Connection reset by peer\n", cs')
      | (some (some bs), cs') =>
        if endsWith (acc ++ bs) crlf then (.ok ((acc ++ bs).take ((acc ++ bs).length - 2)), cs') else readStr fuel (acc ++ bs) cs' := by
  rw [readStr]; rfl

theorem readStr_nofuel (fuel : Nat) (acc : Bytes) (cs : List Chunk) (h : chunkBytes cs < fuel) :
    (readStr fuel acc cs).1 ≠ .error "fuel" ∧ chunkBytes (readStr fuel acc cs).2 ≤ chunkBytes cs ∧
    (∀ x, (readStr fuel acc cs).1 = .ok x → chunkBytes (readStr fuel acc cs).2 < chunkBytes cs) := by
  induction fuel generalizing acc cs with
  | zero => omega
  | succ fuel ih =>
    rw [readStr_succ]
    have hle := readK_le cs 1
    generalize hr : readK cs 1 = r at hle
    obtain ⟨x, cs'⟩ := r
    rcases x with _ | _ | bs
    · exact ⟨by simp, hle, by simp⟩
    · exact ⟨by simp, hle, by simp⟩
    · have hm := readK_measure cs 1 bs cs' (by omega) hr
      simp only
      split
      · exact ⟨by simp, hle, fun _ _ => hm⟩
      · have := ih (acc ++ bs) cs' (by omega)
        exact ⟨this.1, by omega, fun x hx => by have := this.2.2 x hx; omega⟩

theorem expectLoop_succ (fuel : Nat) (acc : Bytes) (need : Nat) (cs : List Chunk) :
    expectLoop (fuel + 1) acc need cs =
      match readK cs need with
      | (none, cs') => (.error "powerman: lost connection with server\n", cs')
      | (some none, cs') => (.error "powerman: lost connection with server: Connection reset by peer\n", cs')
      | (some (some bs), cs') =>
        if need - bs.length == 0 then (.ok (acc ++ bs), cs') else expectLoop fuel (acc ++ bs) (need - bs.length) cs' := by
  rw [expectLoop]; rfl

theorem expectLoop_nofuel (fuel : Nat) (acc : Bytes) (need : Nat) (cs : List Chunk) (h : need < fuel) :
    (expectLoop fuel acc need cs).1 ≠ .error "fuel" ∧ chunkBytes (expectLoop fuel acc need cs).2 ≤ chunkBytes cs := by
  induction fuel generalizing acc need cs with
  | zero => omega
  | succ fuel ih =>
    rw [expectLoop_succ]
    have hle := readK_le cs need
    generalize hr : readK cs need = r at hle
    obtain ⟨x, cs'⟩ := r
    rcases x with _ | _ | bs
    · exact ⟨by simp, hle⟩
    · exact ⟨by simp, hle⟩
    · simp only
      split
      · exact ⟨by simp, hle⟩
      · rename_i hne
        have hpos : 0 < need := by
          rcases Nat.eq_zero_or_pos need with h0 | h0
          · simp [h0] at hne
          · exact h0
        have hb := readK_bounds cs need bs cs' hpos hr
        have := ih (acc ++ bs) (need - bs.length) cs' (by omega)
        exact ⟨this.1, by simp only at hle; omega⟩

theorem expect_nofuel (s : Bytes) (cs : List Chunk) :
    (expect s cs).1 ≠ .error "fuel" ∧ chunkBytes (expect s cs).2 ≤ chunkBytes cs := by
  unfold expect
  have := expectLoop_nofuel (s.length + 1) [] s.length cs (by omega)
  generalize expectLoop (s.length + 1) [] s.length cs = r at this
  obtain ⟨x, cs'⟩ := r
  cases x with
  | error m => simpa using this
  | ok got =>
    simp only at this ⊢
    split
    · exact ⟨by simp, this.2⟩
    · exact ⟨by simp, this.2⟩

theorem processLine_nofuel (c : Cli) :
    (processLine c).1 ≠ .error "fuel" ∧ chunkBytes (processLine c).2.cs ≤ chunkBytes c.cs ∧
    (∀ x, (processLine c).1 = .ok x → chunkBytes (processLine c).2.cs < chunkBytes c.cs) := by
  unfold processLine
  have := readStr_nofuel (chunkBytes c.cs + 2) [] c.cs (by omega)
  generalize readStr (chunkBytes c.cs + 2) [] c.cs = r at this
  obtain ⟨x, cs'⟩ := r
  cases x with
  | error m => simpa using this
  | ok raw =>
    have h3 := this.2.2 raw rfl
    simp only at this h3 ⊢
    split
    · split
      · exact ⟨by simp, this.2.1, fun _ _ => h3⟩
      · split
        · exact ⟨by simp, this.2.1, fun _ _ => h3⟩
        · exact ⟨by simp, this.2.1, fun _ _ => h3⟩
    · exact ⟨by simp, this.2.1, by simp⟩

theorem processResponse_succ (fuel : Nat) (c : Cli) :
    processResponse (fuel + 1) c =
      match processLine c with
      | (.error m, c) => (.error m, c)
      | (.ok num, c) =>
        if 100 ≤ num && num < 300 then (.ok (if 200 ≤ num then num else 0), c) else processResponse fuel c := by
  rw [processResponse]; rfl

theorem processResponse_nofuel (fuel : Nat) (c : Cli) (h : chunkBytes c.cs < fuel) :
    (processResponse fuel c).1 ≠ .error "fuel" ∧ chunkBytes (processResponse fuel c).2.cs ≤ chunkBytes c.cs := by
  induction fuel generalizing c with
  | zero => omega
  | succ fuel ih =>
    rw [processResponse_succ]
    have := processLine_nofuel c
    generalize processLine c = r at this
    obtain ⟨x, c'⟩ := r
    cases x with
    | error m => exact ⟨by simpa using this.1, this.2.1⟩
    | ok num =>
      have h3 := this.2.2 num rfl
      simp only at h3 ⊢
      split
      · exact ⟨by simp, this.2.1⟩
      · have := ih c' (by omega)
        exact ⟨this.1, by omega⟩

/-- one exchange of `main`: the response, then the prompt -/
def exchange (fuel : Nat) (c : Cli) : Except String Int × Cli :=
  match processResponse fuel c with
  | (.error m, c) => (.error m, c)
  | (.ok res, c) =>
    match expect prompt c.cs with
    | (.error m, cs') => (.error m, { c with cs := cs' })
    | (.ok (), cs') => (.ok res, { c with cs := cs' })

theorem exchange_nofuel (fuel : Nat) (c : Cli) (h : chunkBytes c.cs < fuel) :
    (exchange fuel c).1 ≠ .error "fuel" ∧ chunkBytes (exchange fuel c).2.cs ≤ chunkBytes c.cs := by
  unfold exchange
  have := processResponse_nofuel fuel c h
  generalize processResponse fuel c = r at this
  obtain ⟨x, c'⟩ := r
  cases x with
  | error m => exact ⟨by simpa using this.1, this.2⟩
  | ok res =>
    simp only at this ⊢
    have he := expect_nofuel prompt c'.cs
    generalize expect prompt c'.cs = r at he
    obtain ⟨y, cs'⟩ := r
    cases y with
    | error m => exact ⟨by simpa using he.1, by simp only at he ⊢; omega⟩
    | ok u => exact ⟨by simp, by simp only at he ⊢; omega⟩

theorem run_zero (f : Cli → Except String Int × Cli) (c : Cli) : cliRun.run f 0 c = (.ok 0, c) := by
  rw [cliRun.run]
theorem run_succ (f : Cli → Except String Int × Cli) (k : Nat) (c : Cli) :
    cliRun.run f (k + 1) c =
      match f c with
      | (.error m, c) => (.error m, c)
      | (.ok res, c) => if res != 0 then (.ok res, c) else cliRun.run f k c := by
  rw [cliRun.run]; rfl

theorem run_nofuel (fuel k : Nat) (c : Cli) (h : chunkBytes c.cs < fuel) :
    (cliRun.run (exchange fuel) k c).1 ≠ .error "fuel" ∧ chunkBytes (cliRun.run (exchange fuel) k c).2.cs ≤ chunkBytes c.cs := by
  induction k generalizing c with
  | zero => rw [run_zero]; exact ⟨by simp, Nat.le_refl _⟩
  | succ k ih =>
    rw [run_succ]
    have := exchange_nofuel fuel c h
    generalize exchange fuel c = r at this
    obtain ⟨x, c'⟩ := r
    cases x with
    | error m => exact ⟨by simpa using this.1, this.2⟩
    | ok res =>
      simp only at this ⊢
      split
      · exact ⟨by simp, this.2⟩
      · have := ih c' (by omega)
        exact ⟨this.1, by omega⟩

/-- `_process_version`: the banner line, the version scan and the optional warning -/
def stageVersion (o : CliOpts) (fuel : Nat) (c : Cli) : Except String Unit × Cli :=
  match readStr fuel [] c.cs with
  | (.error m, cs') => (.error m, { c with cs := cs' })
  | (.ok raw, cs') =>
    let c := { c with cs := cs' }
    match scanVersion (cstr raw) with
    | none => (.error "powerman: unexpected response from server\n", c)
    | some v =>
      (.ok (), if v != o.version then { c with errs := c.errs ++ str "powerman: warning: server version (" ++ v ++ str ") != client (" ++ o.version ++ str ")\n" } else c)

/-- `_expect` on the CLI state -/
def expectC (s : Bytes) (c : Cli) : Except String Unit × Cli :=
  match expect s c.cs with
  | (.error m, cs') => (.error m, { c with cs := cs' })
  | (.ok (), cs') => (.ok (), { c with cs := cs' })

def exchanges (o : CliOpts) : Nat := (if o.telemetry then 1 else 0) + (if o.exprange then 1 else 0) + 1

/-- `cliRun` with the reason of a failure kept apart: `.error m` = the run printed `m` and called `exit(1)`,
    `.ok res` = it reached `exit(res)` -/
def cliCore (o : CliOpts) (cs : List Chunk) : Except String Int × Cli :=
  let fuel := chunkBytes cs + 2
  match stageVersion o fuel { cs := cs } with
  | (.error m, c) => (.error m, c)
  | (.ok (), c) =>
    match expectC prompt c with
    | (.error m, c) => (.error m, c)
    | (.ok (), c) =>
      match cliRun.run (exchange fuel) (exchanges o) c with
      | (.error m, c) => (.error m, c)
      | (.ok res, c) =>
        match expectC goodbye c with
        | (.error m, c) => (.error m, c)
        | (.ok (), _) => (.ok res, c)

def cliFinish : Except String Int × Cli → Int × Bytes × Bytes
  | (.error m, c) => (1, c.out, c.errs ++ str m)
  | (.ok res, c) => (res, c.out, c.errs)

theorem cliRun_eq (o : CliOpts) (cs : List Chunk) : cliRun o cs = cliFinish (cliCore o cs) := by
  unfold cliRun cliCore stageVersion expectC
  simp only
  generalize readStr (chunkBytes cs + 2) [] cs = r1
  obtain ⟨x1, cs1⟩ := r1
  cases x1 with
  | error m => rfl
  | ok raw =>
    simp only
    cases scanVersion (cstr raw) with
    | none => rfl
    | some v =>
      simp only
      generalize (if (v != o.version) = true then ({ cs := cs1, errs := [] ++ str "powerman: warning: server version (" ++ v ++ str ") != client (" ++ o.version ++ str ")\n" } : Cli) else { cs := cs1 }) = c0
      generalize expect prompt c0.cs = r2
      obtain ⟨x2, cs2⟩ := r2
      cases x2 with
      | error m => rfl
      | ok u =>
        simp only
        show (match cliRun.run (exchange (chunkBytes cs + 2)) (exchanges o) ({ cs := cs2, out := c0.out, errs := c0.errs } : Cli) with
          | (Except.error m, c) => ((1 : Int), c.out, c.errs ++ str m)
          | (Except.ok res, c) =>
            match expect goodbye c.cs with
            | (Except.error m, cs') => (1, c.out, c.errs ++ str m)
            | (Except.ok PUnit.unit, _) => (res, c.out, c.errs)) = _
        generalize cliRun.run (exchange (chunkBytes cs + 2)) (exchanges o) _ = r3
        obtain ⟨x3, c3⟩ := r3
        cases x3 with
        | error m => rfl
        | ok res =>
          simp only
          generalize expect goodbye c3.cs = r4
          obtain ⟨x4, cs4⟩ := r4
          cases x4 with
          | error m => rfl
          | ok u => rfl

theorem stageVersion_nofuel (o : CliOpts) (fuel : Nat) (c : Cli) (h : chunkBytes c.cs < fuel) :
    (stageVersion o fuel c).1 ≠ .error "fuel" ∧ chunkBytes (stageVersion o fuel c).2.cs ≤ chunkBytes c.cs := by
  unfold stageVersion
  have := readStr_nofuel fuel [] c.cs h
  generalize readStr fuel [] c.cs = r at this
  obtain ⟨x, cs'⟩ := r
  cases x with
  | error m => exact ⟨by simpa using this.1, this.2.1⟩
  | ok raw =>
    simp only at this ⊢
    cases scanVersion (cstr raw) with
    | none => exact ⟨by simp, this.2.1⟩
    | some v =>
      simp only
      split
      · exact ⟨by simp, this.2.1⟩
      · exact ⟨by simp, this.2.1⟩

theorem expectC_nofuel (s : Bytes) (c : Cli) :
    (expectC s c).1 ≠ .error "fuel" ∧ chunkBytes (expectC s c).2.cs ≤ chunkBytes c.cs := by
  unfold expectC
  have := expect_nofuel s c.cs
  generalize expect s c.cs = r at this
  obtain ⟨x, cs'⟩ := r
  cases x with
  | error m => exact ⟨by simpa using this.1, this.2⟩
  | ok u => exact ⟨by simp, this.2⟩

/-- no run of the CLI ends because a loop of the model ran out of fuel: every loop ends by itself -/
theorem cliCore_nofuel (o : CliOpts) (cs : List Chunk) : (cliCore o cs).1 ≠ .error "fuel" := by
  unfold cliCore
  simp only
  have h1 := stageVersion_nofuel o (chunkBytes cs + 2) { cs := cs } (by simp)
  generalize stageVersion o (chunkBytes cs + 2) { cs := cs } = r1 at h1
  obtain ⟨x1, c1⟩ := r1
  cases x1 with
  | error m => simpa using h1.1
  | ok u =>
    simp only at h1 ⊢
    have h2 := expectC_nofuel prompt c1
    generalize expectC prompt c1 = r2 at h2
    obtain ⟨x2, c2⟩ := r2
    cases x2 with
    | error m => simpa using h2.1
    | ok u =>
      simp only at h2 ⊢
      have h3 := run_nofuel (chunkBytes cs + 2) (exchanges o) c2 (by omega)
      generalize cliRun.run (exchange (chunkBytes cs + 2)) (exchanges o) c2 = r3 at h3
      obtain ⟨x3, c3⟩ := r3
      cases x3 with
      | error m => simpa using h3.1
      | ok res =>
        simp only at h3 ⊢
        have h4 := expectC_nofuel goodbye c3
        generalize expectC goodbye c3 = r4 at h4
        obtain ⟨x4, c4⟩ := r4
        cases x4 with
        | error m => simpa using h4.1
        | ok u => simp

/-! ### `sscanf("%d")` and `strtol` on a reply line -/

theorem isDigit_iff (a : UInt8) : isDigit a = true ↔ 48 ≤ a.toNat ∧ a.toNat ≤ 57 := by
  simp [isDigit]

theorem isSpace_iff (a : UInt8) : isSpace a = true ↔ a.toNat = 32 ∨ (9 ≤ a.toNat ∧ a.toNat ≤ 13) := by
  unfold isSpace
  simp only [Bool.or_eq_true, beq_iff_eq, Bool.and_eq_true, decide_eq_true_eq]
  constructor
  · rintro (h | h)
    · subst h; left; rfl
    · right; exact h
  · rintro (h | h)
    · left; exact UInt8.toNat_inj.mp h
    · right; exact h

theorem toInt32_small (n : Nat) (h : n < 2147483648) : toInt32 (n : Int) = n := by
  unfold toInt32
  simp only
  have : ((n : Int) % 4294967296) = n := by omega
  rw [this]
  split
  · omega
  · rfl

theorem takeWhile_digits (ds rest : Bytes) (hd : ∀ d ∈ ds, isDigit d = true) (hr : ∀ x r, rest = x :: r → isDigit x = false) :
    List.takeWhile isDigit (ds ++ rest) = ds := by
  rw [List.takeWhile_append_of_pos (by simpa using hd)]
  cases rest with
  | nil => simp
  | cons x r => simp [hr x r rfl]

/-- `sscanf(s, "%d")` on a string that starts with digits -/
theorem scanInt_digits (ds : Bytes) (rest : Bytes) (hd : ∀ d ∈ ds, isDigit d = true) (hne : ds ≠ [])
    (hr : ∀ x r, rest = x :: r → isDigit x = false) (hv : digitsVal ds < 2147483648) :
    scanInt (ds ++ rest) = some (digitsVal ds : Int) := by
  have htw := takeWhile_digits ds rest hd hr
  obtain ⟨a, ds', rfl⟩ := List.exists_cons_of_ne_nil hne
  have ha := (isDigit_iff a).mp (hd a (by simp))
  have hsp : isSpace a = false := by
    rw [← Bool.not_eq_true, isSpace_iff]; omega
  have h45 : a ≠ 45 := by intro h; subst h; simp at ha
  have h43 : a ≠ 43 := by intro h; subst h; simp at ha
  unfold scanInt
  simp only [List.cons_append, List.dropWhile_cons, hsp, Bool.false_eq_true, ↓reduceIte]
  split
  · rename_i r h; simp at h; exact absurd h.1 h45
  · rename_i r h; simp at h; exact absurd h.1 h43
  · rw [← List.cons_append]
    simp only [htw]
    simp only [List.isEmpty_cons, Bool.false_eq_true, ↓reduceIte]
    have : ¬ ((digitsVal (a :: ds') : Int) > 9223372036854775807) := by omega
    simp only [this, ↓reduceIte]
    rw [toInt32_small _ hv]

/-- `strtol(s, NULL, 10)` (as the CLI clamps it) on a string that starts with digits -/
theorem strtolCli_digits (ds : Bytes) (rest : Bytes) (hd : ∀ d ∈ ds, isDigit d = true) (hne : ds ≠ [])
    (hr : ∀ x r, rest = x :: r → isDigit x = false) (hv : digitsVal ds < 2147483648) :
    strtolCli (ds ++ rest) = (digitsVal ds : Int) := by
  have htw := takeWhile_digits ds rest hd hr
  obtain ⟨a, ds', rfl⟩ := List.exists_cons_of_ne_nil hne
  have ha := (isDigit_iff a).mp (hd a (by simp))
  have hsp : isSpace a = false := by
    rw [← Bool.not_eq_true, isSpace_iff]; omega
  have h45 : a ≠ 45 := by intro h; subst h; simp at ha
  have h43 : a ≠ 43 := by intro h; subst h; simp at ha
  unfold strtolCli
  simp only [List.cons_append, List.dropWhile_cons, hsp, Bool.false_eq_true, ↓reduceIte]
  split
  · rename_i r h; simp at h; exact absurd h.1 h45
  · rename_i r h; simp at h; exact absurd h.1 h43
  · rw [← List.cons_append]
    simp only [htw]
    have : ¬ ((digitsVal (a :: ds') : Int) ≥ 9223372036854775807) := by omega
    simp only [this, Bool.false_eq_true, ↓reduceIte]

/-- the three decimal digits of a reply code -/
def digits3 (n : Nat) : Bytes := [UInt8.ofNat (48 + n / 100), UInt8.ofNat (48 + n / 10 % 10), UInt8.ofNat (48 + n % 10)]

theorem digits3_val (n : Nat) (h : n < 1000) : digitsVal (digits3 n) = n := by
  simp [digitsVal, digits3, UInt8.toNat_ofNat]
  omega

theorem digits3_digits (n : Nat) (h : n < 1000) : ∀ d ∈ digits3 n, isDigit d = true := by
  intro d hd
  simp only [digits3, List.mem_cons, List.not_mem_nil, or_false] at hd
  rw [isDigit_iff]
  rcases hd with rfl | rfl | rfl <;> simp [UInt8.toNat_ofNat] <;> omega

theorem cstr_append_of_nonul (a b : Bytes) (h : ∀ x ∈ a, x ≠ 0) : cstr (a ++ b) = a ++ cstr b := by
  unfold cstr
  rw [List.takeWhile_append_of_pos (by simpa using h)]

theorem cstr_of_nonul (a : Bytes) (h : ∀ x ∈ a, x ≠ 0) : cstr a = a := by
  have := cstr_append_of_nonul a [] h
  simpa [cstr] using this

theorem digit_ne_zero (d : UInt8) (h : isDigit d = true) : d ≠ 0 := by
  intro h0; subst h0; simp [isDigit] at h

theorem cstr_digits3 (n : Nat) (h : n < 1000) (text : Bytes) : cstr (digits3 n ++ 32 :: text) = digits3 n ++ 32 :: cstr text := by
  rw [cstr_append_of_nonul _ _ (fun x hx => digit_ne_zero x (digits3_digits n h x hx))]
  congr 1

/-- a conforming line `NNN␠text`: `sscanf("%d")` sees `NNN` -/
theorem scanInt_line (n : Nat) (h : n < 1000) (text : Bytes) : scanInt (cstr (digits3 n ++ 32 :: text)) = some (n : Int) := by
  rw [cstr_digits3 n h, scanInt_digits _ _ (digits3_digits n h) (by simp [digits3]) (by
    intro x r hx; simp at hx; rw [← hx.1]; rfl) (by rw [digits3_val n h]; omega), digits3_val n h]

theorem strtolCli_line (n : Nat) (h : n < 1000) (text : Bytes) : strtolCli (cstr (digits3 n ++ 32 :: text)) = (n : Int) := by
  rw [cstr_digits3 n h, strtolCli_digits _ _ (digits3_digits n h) (by simp [digits3]) (by
    intro x r hx; simp at hx; rw [← hx.1]; rfl) (by rw [digits3_val n h]; omega), digits3_val n h]

/-! ### `_server_retcode` -/

/-- what one line contributes to the verdict -/
def verdict (l : Bytes) : Option Nat :=
  match scanInt (cstr l) with
  | some c => if successCodes.contains c then some 0 else if failureCodes.contains c then some c.toNat else none
  | none => none

theorem retcode_nil : retcode [] = 8 := rfl

theorem retcode_cons (l : Bytes) (ls : List Bytes) : retcode (l :: ls) = (verdict l).getD (retcode ls) := by
  unfold retcode verdict
  rw [List.reverse_cons, List.foldl_append, List.foldl_cons, List.foldl_nil]
  cases scanInt (cstr l) with
  | none => rfl
  | some c =>
    simp only
    split
    · rfl
    · split <;> rfl

theorem retcode_none (ls : List Bytes) (h : ∀ l ∈ ls, verdict l = none) : retcode ls = 8 := by
  induction ls with
  | nil => rfl
  | cons l ls ih =>
    rw [retcode_cons, h l (by simp), Option.getD_none]
    exact ih (fun x hx => h x (by simp [hx]))

/-- the first line (in stream order) with a 1xx/2xx code decides -/
theorem retcode_first (pre post : List Bytes) (l : Bytes) (r : Nat) (hpre : ∀ x ∈ pre, verdict x = none)
    (hl : verdict l = some r) : retcode (pre ++ l :: post) = r := by
  induction pre with
  | nil => simp [retcode_cons, hl]
  | cons p pre ih =>
    rw [List.cons_append, retcode_cons, hpre p (by simp), Option.getD_none]
    exact ih (fun x hx => hpre x (by simp [hx]))

theorem verdict_none_iff (l : Bytes) :
    verdict l = none ↔ ∀ d, scanInt (cstr l) = some d → d ∉ successCodes ∧ d ∉ failureCodes := by
  unfold verdict
  cases scanInt (cstr l) with
  | none => simp
  | some c =>
    simp only [Option.some.injEq, forall_eq']
    by_cases h1 : c ∈ successCodes
    · simp [h1]
    · by_cases h2 : c ∈ failureCodes
      · simp [h1, h2]
      · simp [h1, h2]

theorem failure_pos (c : Int) (h : c ∈ failureCodes) : 0 < c := by
  simp only [failureCodes, List.mem_cons, List.not_mem_nil, or_false] at h
  omega

theorem verdict_of_scan (l : Bytes) (c : Int) (h : scanInt (cstr l) = some c) (hc : c ∈ successCodes ∨ c ∈ failureCodes) :
    verdict l = some (if c ∈ successCodes then 0 else c.toNat) := by
  unfold verdict
  rw [h]
  by_cases h1 : c ∈ successCodes
  · simp [h1]
  · have h2 : c ∈ failureCodes := by rcases hc with h | h; exact absurd h h1; exact h
    simp [h1, h2]

theorem verdict_zero (l : Bytes) (h : verdict l = some 0) : ∃ c ∈ successCodes, scanInt (cstr l) = some c := by
  unfold verdict at h
  cases hs : scanInt (cstr l) with
  | none => simp [hs] at h
  | some c =>
    rw [hs] at h
    simp only at h
    by_cases h1 : c ∈ successCodes
    · exact ⟨c, h1, rfl⟩
    · by_cases h2 : c ∈ failureCodes
      · have := failure_pos c h2
        simp [h1, h2] at h
        omega
      · simp [h1, h2] at h

theorem retcode_zero (ls : List Bytes) (h : retcode ls = 0) : ∃ l ∈ ls, ∃ c ∈ successCodes, scanInt (cstr l) = some c := by
  induction ls with
  | nil => simp [retcode_nil] at h
  | cons l ls ih =>
    rw [retcode_cons] at h
    cases hv : verdict l with
    | none =>
      rw [hv, Option.getD_none] at h
      obtain ⟨x, hx, hc⟩ := ih h
      exact ⟨x, by simp [hx], hc⟩
    | some r =>
      rw [hv, Option.getD_some] at h
      subst h
      exact ⟨l, by simp, verdict_zero l hv⟩

/-! ### `_parse_response` -/

theorem go_zero (buf : Bytes) (len i p : Nat) (acc : List Bytes) : parseResponse.go buf len 0 i p acc = acc := by
  rw [parseResponse.go]

theorem go_succ (buf : Bytes) (len fuel i p : Nat) (acc : List Bytes) :
    parseResponse.go buf len (fuel + 1) i p acc =
      if i < len - 2 then
        if buf[i]? == some 13 && buf[i+1]? == some 10 then
          parseResponse.go buf len fuel (i + 1) (i + 2) (acc ++ [(buf.drop p).take (i + 2 - p)])
        else parseResponse.go buf len fuel (i + 1) p acc
      else acc := by
  rw [parseResponse.go]

/-- the scan at index `i`, with the fuel the loop has left there -/
def scanAt (buf : Bytes) (i p : Nat) (acc : List Bytes) : List Bytes :=
  parseResponse.go buf buf.length (buf.length + 1 - i) i p acc

theorem parseResponse_eq (buf : Bytes) : parseResponse buf = scanAt buf 0 0 [] := rfl

theorem scanAt_stop (buf : Bytes) (i p : Nat) (acc : List Bytes) (h : buf.length - 2 ≤ i) : scanAt buf i p acc = acc := by
  unfold scanAt
  cases hf : buf.length + 1 - i with
  | zero => rw [go_zero]
  | succ f => rw [go_succ, if_neg (by omega)]

theorem scanAt_step (buf : Bytes) (i p : Nat) (acc : List Bytes) (h : i < buf.length - 2) :
    scanAt buf i p acc =
      if buf[i]? == some 13 && buf[i+1]? == some 10 then scanAt buf (i + 1) (i + 2) (acc ++ [(buf.drop p).take (i + 2 - p)])
      else scanAt buf (i + 1) p acc := by
  unfold scanAt
  have : buf.length + 1 - i = (buf.length + 1 - (i + 1)) + 1 := by omega
  rw [this, go_succ, if_pos h]

def hasCRLF : Bytes → Bool
  | a :: b :: r => (a == 13 && b == 10) || hasCRLF (b :: r)
  | _ => false

theorem hasCRLF_index (b : Bytes) (h : hasCRLF b = false) (k : Nat) : ¬ (b[k]? = some 13 ∧ b[k+1]? = some 10) := by
  induction b generalizing k with
  | nil => simp
  | cons a r ih =>
    cases r with
    | nil => cases k <;> simp
    | cons c r =>
      simp only [hasCRLF, Bool.or_eq_false_iff, Bool.and_eq_false_iff] at h
      cases k with
      | zero =>
        simp only [List.getElem?_cons_zero, Option.some.injEq, Nat.zero_add, List.getElem?_cons_succ]
        rintro ⟨rfl, rfl⟩
        simp at h
      | succ k =>
        simp only [List.getElem?_cons_succ]
        exact ih h.2 k

theorem scanAt_skip (buf : Bytes) (d : Nat) : ∀ (i j p : Nat) (acc : List Bytes), j = i + d → j ≤ buf.length - 2 →
    (∀ k, i ≤ k → k < j → ¬ (buf[k]? = some 13 ∧ buf[k+1]? = some 10)) → scanAt buf i p acc = scanAt buf j p acc := by
  induction d with
  | zero => intro i j p acc hj _ _; simp at hj; rw [hj]
  | succ d ih =>
    intro i j p acc hj hle hc
    rw [scanAt_step buf i p acc (by omega)]
    have := hc i (Nat.le_refl _) (by omega)
    have hb : (buf[i]? == some 13 && buf[i+1]? == some 10) = false := by
      rw [← Bool.not_eq_true]; simpa using this
    rw [hb]
    simp only [Bool.false_eq_true, ↓reduceIte]
    exact ih (i + 1) j p acc (by omega) hle (fun k h1 h2 => hc k (by omega) h2)

theorem idx_mid (pre m suf : Bytes) (k : Nat) (hk : k < m.length) : (pre ++ (m ++ suf))[pre.length + k]? = m[k]? := by
  rw [List.getElem?_append_right (by omega)]
  simp [List.getElem?_append_left hk]

theorem scanAt_line (buf pre x post : Bytes) (acc : List Bytes) (hbuf : buf = pre ++ (x ++ [13, 10] ++ post)) (hpost : post ≠ [])
    (hx : hasCRLF (x ++ [13]) = false) :
    scanAt buf pre.length pre.length acc = scanAt buf (pre.length + x.length + 2) (pre.length + x.length + 2) (acc ++ [x ++ [13, 10]]) := by
  have hpl : 0 < post.length := List.length_pos_iff.mpr hpost
  have hlen : buf.length = pre.length + x.length + 2 + post.length := by simp [hbuf]; omega
  have hbuf' : buf = pre ++ ((x ++ [13]) ++ (10 :: post)) := by simp [hbuf]
  have hbuf2 : buf = pre ++ ((x ++ [13, 10]) ++ post) := by simp [hbuf]
  rw [scanAt_skip buf x.length pre.length (pre.length + x.length) pre.length acc rfl (by omega) (by
    intro k h1 h2
    obtain ⟨e, rfl⟩ : ∃ e, k = pre.length + e := ⟨k - pre.length, by omega⟩
    rw [hbuf', idx_mid _ _ _ _ (by simp; omega), Nat.add_assoc, idx_mid _ _ _ _ (by simp; omega)]
    exact hasCRLF_index _ hx e)]
  have h13 : buf[pre.length + x.length]? = some 13 := by
    rw [hbuf2, idx_mid _ _ _ _ (by simp)]; simp
  have h10 : buf[pre.length + x.length + 1]? = some 10 := by
    rw [hbuf2, Nat.add_assoc, idx_mid _ _ _ _ (by simp)]; simp
  rw [scanAt_step buf _ _ _ (by omega), h13, h10]
  simp only [beq_self_eq_true, Bool.and_self, ↓reduceIte]
  have hslice : (buf.drop pre.length).take (pre.length + x.length + 2 - pre.length) = x ++ [13, 10] := by
    rw [hbuf2, List.drop_left]
    have : pre.length + x.length + 2 - pre.length = (x ++ [13, 10]).length := by simp; omega
    rw [this, List.take_left]
  rw [hslice]
  by_cases h1 : pre.length + x.length + 1 < buf.length - 2
  · rw [scanAt_step buf _ _ _ h1, h10]
    simp
  · rw [scanAt_stop buf _ _ _ (by omega), scanAt_stop buf _ _ _ (by omega)]

theorem scanAt_tail (buf pre post : Bytes) (acc : List Bytes) (hbuf : buf = pre ++ post) (hx : hasCRLF post = false) :
    scanAt buf pre.length pre.length acc = acc := by
  by_cases h : buf.length - 2 ≤ pre.length
  · exact scanAt_stop _ _ _ _ h
  · rw [scanAt_skip buf (buf.length - 2 - pre.length) pre.length (buf.length - 2) pre.length acc (by omega) (Nat.le_refl _) (by
      intro k h1 h2
      obtain ⟨e, rfl⟩ : ∃ e, k = pre.length + e := ⟨k - pre.length, by omega⟩
      have hlen : buf.length = pre.length + post.length := by simp [hbuf]
      have := idx_mid pre post [] e (by omega)
      have h2' := idx_mid pre post [] (e + 1) (by omega)
      simp only [List.append_nil] at this h2'
      rw [hbuf, this, Nat.add_assoc, h2']
      exact hasCRLF_index _ hx e)]
    exact scanAt_stop _ _ _ _ (Nat.le_refl _)

/-- a line of the reply: some bytes without CRLF (and not ending in CR before the closing CRLF would make one), then CRLF -/
def IsLine (l : Bytes) : Prop := ∃ x, l = x ++ [13, 10] ∧ hasCRLF (x ++ [13]) = false

theorem scanAt_lines (buf post : Bytes) (hpost : post ≠ []) (hx : hasCRLF post = false) (ls : List Bytes) :
    ∀ (pre : Bytes) (acc : List Bytes), buf = pre ++ (ls.flatten ++ post) → (∀ l ∈ ls, IsLine l) →
      scanAt buf pre.length pre.length acc = acc ++ ls := by
  induction ls with
  | nil =>
    intro pre acc hbuf _
    simp only [List.flatten_nil, List.nil_append] at hbuf
    rw [scanAt_tail buf pre post acc hbuf hx]; simp
  | cons l ls ih =>
    intro pre acc hbuf hl
    obtain ⟨x, rfl, hxl⟩ := hl l (by simp)
    rw [scanAt_line buf pre x (ls.flatten ++ post) acc (by simp [hbuf]) (by simp [hpost]) hxl]
    have := ih (pre ++ (x ++ [13, 10])) (acc ++ [x ++ [13, 10]]) (by simp [hbuf]) (fun l h => hl l (by simp [h]))
    simp only [List.length_append, List.length_cons, List.length_nil, Nat.zero_add, Nat.reduceAdd] at this
    rw [← Nat.add_assoc] at this
    rw [this]; simp

theorem prompt_noCRLF : hasCRLF prompt = false := by decide

/-- `_parse_response` on a well-formed reply: exactly the lines -/
theorem parseResponse_lines (ls : List Bytes) (hl : ∀ l ∈ ls, IsLine l) : parseResponse (ls.flatten ++ prompt) = ls := by
  rw [parseResponse_eq]
  have := scanAt_lines (ls.flatten ++ prompt) prompt (by decide) prompt_noCRLF ls [] [] (by simp) hl
  simpa using this


/-! ### `_server_recv_response` as a whole -/

theorem recvLoop_error_codes (fuel : Nat) (buf : Bytes) (buflen : Nat) (cs : List Chunk) (e : Nat) (cs' : List Chunk)
    (h : recvLoop fuel buf buflen cs = (.error e, cs')) : e = 7 ∨ e = 1 := by
  induction fuel generalizing buf buflen cs with
  | zero => simp [recvLoop] at h
  | succ fuel ih =>
    rw [recvLoop_succ] at h
    generalize readK cs (growLen buf buflen - buf.length) = r at h
    obtain ⟨x, cs1⟩ := r
    rcases x with _ | _ | bs
    · simp at h; omega
    · simp at h; omega
    · simp only at h
      split at h
      · simp at h
      · exact ih _ _ _ h

/-- the buffer `_server_recv_response` hands to `_parse_response` (when the read loop succeeds) -/
def replyBuf (cs : List Chunk) : Option Bytes :=
  match recvLoop (recvFuel cs) [] 0 cs with
  | (.ok buf, _) => some buf
  | _ => none

/-- the lines of the reply, in stream order -/
def replyLines (cs : List Chunk) : List Bytes :=
  match replyBuf cs with
  | some buf => parseResponse buf
  | none => []

theorem recvResponse_ok (cs : List Chunk) (buf : Bytes) (cs' : List Chunk) (h : recvLoop (recvFuel cs) [] 0 cs = (.ok buf, cs')) :
    recvResponse cs = (retcode (parseResponse buf), (if retcode (parseResponse buf) == 0 then (parseResponse buf).reverse else []), cs') ∧
    replyLines cs = parseResponse buf := by
  unfold recvResponse replyLines replyBuf
  rw [h]
  exact ⟨rfl, rfl⟩

theorem recvResponse_error (cs : List Chunk) (e : Nat) (cs' : List Chunk) (h : recvLoop (recvFuel cs) [] 0 cs = (.error e, cs')) :
    recvResponse cs = (e, [], cs') := by
  unfold recvResponse
  rw [h]

/-- return code 0 ⇒ the read loop succeeded, the lines handed out are the reply's lines (last first), and their verdict is 0 -/
theorem recvResponse_zero (cs : List Chunk) (h : (recvResponse cs).1 = 0) :
    (recvResponse cs).2.1 = (replyLines cs).reverse ∧ retcode (replyLines cs) = 0 := by
  generalize hr : recvLoop (recvFuel cs) [] 0 cs = r
  obtain ⟨x, cs'⟩ := r
  cases x with
  | error e =>
    rw [recvResponse_error cs e cs' hr] at h
    have := recvLoop_error_codes _ _ _ _ _ _ hr
    simp only at h; omega
  | ok buf =>
    obtain ⟨h1, h2⟩ := recvResponse_ok cs buf cs' hr
    rw [h1] at h ⊢
    simp only at h
    rw [h2]
    simp [h]

theorem recvResponse_success_only_if (cs : List Chunk) (h : (recvResponse cs).1 = 0) :
    ∃ l ∈ replyLines cs, ∃ c ∈ successCodes, scanInt (cstr l) = some c :=
  retcode_zero _ (recvResponse_zero cs h).2

/-- when the return code is not 0 no line is handed out -/
theorem recvResponse_nonzero (cs : List Chunk) (h : (recvResponse cs).1 ≠ 0) : (recvResponse cs).2.1 = [] := by
  generalize hr : recvLoop (recvFuel cs) [] 0 cs = r
  obtain ⟨x, cs'⟩ := r
  cases x with
  | error e => rw [recvResponse_error cs e cs' hr]
  | ok buf =>
    obtain ⟨h1, h2⟩ := recvResponse_ok cs buf cs' hr
    rw [h1] at h ⊢
    simp only at h
    simp [h]

/-! ### `pm_node_status` -/

def onLine (node : Bytes) : Bytes := str "303 " ++ cstr node ++ str ": on" ++ crlf
def offLine (node : Bytes) : Bytes := str "303 " ++ cstr node ++ str ": off" ++ crlf

theorem nodeStatus_eq (node : Bytes) (cs : List Chunk) :
    nodeStatus node cs =
      if (recvResponse cs).1 != 0 then ((recvResponse cs).1, none, (recvResponse cs).2.2) else
      (0, some (if (recvResponse cs).2.1.any (fun l => cstr l == offLine node) then 1
                else if (recvResponse cs).2.1.any (fun l => cstr l == onLine node) then 2 else 0), (recvResponse cs).2.2) := by
  unfold nodeStatus onLine offLine
  rfl

theorem nodeStatus_spec (node : Bytes) (cs : List Chunk) (h : (recvResponse cs).1 = 0) :
    nodeStatus node cs =
      (0, some (if ∃ l ∈ replyLines cs, cstr l = offLine node then 1
                else if ∃ l ∈ replyLines cs, cstr l = onLine node then 2 else 0), (recvResponse cs).2.2) := by
  rw [nodeStatus_eq, (recvResponse_zero cs h).1]
  simp only [h, bne_self_eq_false, Bool.false_eq_true, ↓reduceIte, List.any_reverse, List.any_eq_true, beq_iff_eq]

theorem nodeStatus_fail (node : Bytes) (cs : List Chunk) (h : (recvResponse cs).1 ≠ 0) :
    nodeStatus node cs = ((recvResponse cs).1, none, (recvResponse cs).2.2) := by
  rw [nodeStatus_eq]
  simp [h]

/-! ### `pm_node_iterator_create` -/

theorem nodeList_eq (cs : List Chunk) :
    nodeList cs =
      if (recvResponse cs).1 != 0 then ((recvResponse cs).1, [], (recvResponse cs).2.2) else
      (0, ((recvResponse cs).2.1.filterMap fun l => scan307 (cstr l)).reverse, (recvResponse cs).2.2) := by
  unfold nodeList
  rfl

theorem nodeList_spec (cs : List Chunk) (h : (recvResponse cs).1 = 0) :
    nodeList cs = (0, (replyLines cs).filterMap (fun l => scan307 (cstr l)), (recvResponse cs).2.2) := by
  rw [nodeList_eq, (recvResponse_zero cs h).1]
  simp [h, List.filterMap_reverse]

theorem nodeList_fail (cs : List Chunk) (h : (recvResponse cs).1 ≠ 0) :
    nodeList cs = ((recvResponse cs).1, [], (recvResponse cs).2.2) := by
  rw [nodeList_eq]
  simp [h]

/-- a conforming node line -/
def nodeLine (w : Bytes) : Bytes := str "307 " ++ w ++ crlf

theorem str_307 : str "307 " = [51, 48, 55, 32] := by decide +kernel

theorem scan307_nodeLine (w : Bytes) (hne : w ≠ []) (hw : ∀ b ∈ w, isSpace b = false ∧ b ≠ 0) :
    scan307 (cstr (nodeLine w)) = some w := by
  have hc : cstr (nodeLine w) = nodeLine w := by
    apply cstr_of_nonul
    intro x hx
    simp only [nodeLine, str_307, crlf, List.mem_append, List.mem_cons, List.not_mem_nil, or_false] at hx
    rcases hx with (h | h) | h
    · rcases h with rfl | rfl | rfl | rfl <;> decide
    · exact (hw x h).2
    · rcases h with rfl | rfl <;> decide
  rw [hc]
  obtain ⟨a, w', rfl⟩ := List.exists_cons_of_ne_nil hne
  have ha := (hw a (by simp)).1
  unfold scan307 nodeLine
  rw [str_307]
  simp only [List.cons_append, List.nil_append]
  have h32 : isSpace 32 = true := by decide
  have h13 : isSpace 13 = true := by decide
  simp only [List.dropWhile_cons, h32, ↓reduceIte, ha, Bool.false_eq_true]
  have : List.takeWhile (fun b => !isSpace b) (a :: (w' ++ crlf)) = a :: w' := by
    rw [← List.cons_append, List.takeWhile_append_of_pos (by
      intro x hx; simp [(hw x hx).1])]
    simp [crlf, h13]
  rw [this]
  simp


/-! ### segmentation independence of the read loop -/

/-- a script whose first data chunks carry `s`: if `s` ends with the prompt and no shorter non-empty prefix does, the loop
    returns `s` and leaves what follows, however `s` is cut into chunks -/
theorem recv_split_general (cs : List Chunk) (s : Bytes) (t : List Chunk) (hseg : Seg cs s t)
    (hend : endsWith s prompt = true)
    (hq : ∀ q r, s = q ++ r → q ≠ [] → r ≠ [] → endsWith q prompt = false) :
    recvLoop (recvFuel cs) [] 0 cs = (.ok s, t) := by
  have hs : s ≠ [] := by
    intro h; subst h; simp [endsWith, prompt] at hend
  rcases recv_seg s.length [] 0 cs s t (Nat.le_refl _) hseg hs (by simp) (by simpa using hq) with h | h
  · rw [recvResponse_loop]; simpa using h.2
  · simp [hend] at h

theorem readK_bytesOf (cs : List Chunk) (space : Nat) (bs : Bytes) (cs' : List Chunk)
    (h : readK cs space = (some (some bs), cs')) : bytesOf cs = bs ++ bytesOf cs' := by
  unfold readK at h
  split at h
  · simp at h
  · simp at h
  · simp at h
  · rename_i b r
    by_cases hb : b.isEmpty
    · simp [hb] at h
    · by_cases hl : b.length ≤ space
      · simp [hb, hl] at h
        obtain ⟨rfl, rfl⟩ := h
        rfl
      · simp [hb, hl] at h
        obtain ⟨rfl, rfl⟩ := h
        simp [bytesOf, ← List.append_assoc]

/-- whatever the script: when the loop succeeds, what it returns ends with the prompt and is exactly the bytes consumed -/
theorem recvLoop_ok_sound (fuel : Nat) (buf : Bytes) (buflen : Nat) (cs : List Chunk) (b : Bytes) (cs' : List Chunk)
    (hb : buf.length ≤ buflen) (hf : chunkBytes cs < fuel) (h : recvLoop fuel buf buflen cs = (.ok b, cs')) :
    endsWith b prompt = true ∧ buf ++ bytesOf cs = b ++ bytesOf cs' := by
  induction fuel generalizing buf buflen cs with
  | zero => omega
  | succ fuel ih =>
    rw [recvLoop_succ] at h
    generalize hr : readK cs (growLen buf buflen - buf.length) = r at h
    obtain ⟨x, cs1⟩ := r
    rcases x with _ | _ | bs
    · simp at h
    · simp at h
    · have hm := readK_measure cs _ bs cs1 (growLen_space buf buflen hb).1 hr
      have hbd := recv_step_bounds buf buflen cs hb bs cs1 hr
      have hby := readK_bytesOf cs _ bs cs1 hr
      simp only at h
      split at h
      · rename_i he
        simp only [Prod.mk.injEq, Except.ok.injEq] at h
        obtain ⟨rfl, rfl⟩ := h
        exact ⟨he, by rw [hby, List.append_assoc]⟩
      · have := ih (buf ++ bs) (growLen buf buflen) cs1 hbd.2 (by omega) h
        exact ⟨this.1, by rw [hby, ← List.append_assoc]; exact this.2⟩


/-! ### the CLI on a conforming stream, however segmented -/

theorem hasCRLF_cons (a : UInt8) (r : Bytes) (h : a ≠ 13) : hasCRLF (a :: r) = hasCRLF r := by
  cases r with
  | nil => rfl
  | cons b r => simp [hasCRLF, h]

theorem hasCRLF_append_crlf (p r : Bytes) : hasCRLF (p ++ 13 :: 10 :: r) = true := by
  induction p with
  | nil => simp [hasCRLF]
  | cons a p ih =>
    cases hp : p ++ 13 :: 10 :: r with
    | nil => simp at hp
    | cons b r' =>
      rw [hp] at ih
      simp [hasCRLF, hp, ih]

/-- no proper prefix of a line ends with CRLF -/
theorem line_prefix_noCRLF (x q r : Bytes) (hx : hasCRLF (x ++ [13]) = false) (h : x ++ [13, 10] = q ++ r) (hr : r ≠ []) :
    endsWith q crlf = false := by
  rw [← Bool.not_eq_true, endsWith_iff]
  rintro ⟨p, rfl⟩
  have h1 : (x ++ [13, 10]).dropLast = x ++ [13] := by
    have : x ++ [13, 10] = (x ++ [13]) ++ [10] := by simp
    rw [this, List.dropLast_concat]
  have h2 : (p ++ crlf ++ r).dropLast = p ++ crlf ++ r.dropLast := List.dropLast_append_of_ne_nil hr
  rw [h, h2] at h1
  have := hasCRLF_append_crlf p r.dropLast
  rw [← h1] at hx
  simp [crlf] at hx
  rw [hx] at this
  exact absurd this (by simp)

theorem readStr_seg (y : Bytes) : ∀ (acc : Bytes) (cs : List Chunk) (rest : Bytes) (t : List Chunk) (fuel : Nat),
    Seg cs (y ++ rest) t → y ≠ [] → y.length ≤ fuel → endsWith (acc ++ y) crlf = true →
    (∀ q r, y = q ++ r → q ≠ [] → r ≠ [] → endsWith (acc ++ q) crlf = false) →
    ∃ cs', readStr fuel acc cs = (.ok ((acc ++ y).take ((acc ++ y).length - 2)), cs') ∧ Seg cs' rest t := by
  induction y with
  | nil => intro _ _ _ _ _ _ h; exact absurd rfl h
  | cons a y ih =>
    intro acc cs rest t fuel hseg _ hf hend hq
    obtain ⟨fuel, rfl⟩ : ∃ k, fuel = k + 1 := ⟨fuel - 1, by simp at hf; omega⟩
    obtain ⟨bs, s', cs1, hr, hbs, hbl, hs, hseg'⟩ := readK_seg hseg (by simp) 1 (by omega)
    obtain ⟨b, rfl⟩ : ∃ b, bs = [b] := by
      match bs, hbs, hbl with
      | [b], _, _ => exact ⟨b, rfl⟩
      | _ :: _ :: _, _, h => simp at h
    simp only [List.cons_append, List.nil_append, List.cons.injEq] at hs
    obtain ⟨rfl, rfl⟩ := hs
    rw [readStr_succ, hr]
    simp only
    by_cases hy : y = []
    · subst hy
      simp only [List.nil_append] at hseg'
      rw [if_pos hend]
      exact ⟨cs1, rfl, hseg'⟩
    · have hne : endsWith (acc ++ [a]) crlf = false := hq [a] y rfl (by simp) hy
      rw [if_neg (by simp [hne])]
      obtain ⟨cs', h1, h2⟩ := ih (acc ++ [a]) cs1 rest t fuel hseg' hy (by simp at hf; omega) (by simpa using hend) (by
        intro q r hqr hq0 hr0
        have := hq (a :: q) r (by simp [hqr]) (by simp) hr0
        simpa using this)
      refine ⟨cs', ?_, h2⟩
      rw [h1]; simp

/-- `xreadstr` on a stream that begins with a line -/
theorem readStr_line (x rest : Bytes) (cs t : List Chunk) (fuel : Nat) (hseg : Seg cs (x ++ crlf ++ rest) t)
    (hx : hasCRLF (x ++ [13]) = false) (hf : x.length + 2 ≤ fuel) :
    ∃ cs', readStr fuel [] cs = (.ok x, cs') ∧ Seg cs' rest t := by
  obtain ⟨cs', h1, h2⟩ := readStr_seg (x ++ crlf) [] cs rest t fuel hseg (by simp [crlf]) (by simp [crlf]; omega)
    (by rw [endsWith_iff]; exact ⟨x, by simp⟩) (by
      intro q r hqr _ hr
      simp only [List.nil_append]
      exact line_prefix_noCRLF x q r hx (by simpa [crlf] using hqr) hr)
  refine ⟨cs', ?_, h2⟩
  rw [h1]
  simp [crlf]

theorem expectLoop_seg (fuel : Nat) : ∀ (need : Nat) (y acc : Bytes) (cs : List Chunk) (rest : Bytes) (t : List Chunk),
    Seg cs (y ++ rest) t → y.length = need → 0 < need → need ≤ fuel →
    ∃ cs', expectLoop fuel acc need cs = (.ok (acc ++ y), cs') ∧ Seg cs' rest t := by
  induction fuel with
  | zero => intro need _ _ _ _ _ _ _ h1 h2; omega
  | succ fuel ih =>
    intro need y acc cs rest t hseg hy hpos hf
    have hyne : y ≠ [] := by intro h; subst h; simp at hy; omega
    obtain ⟨bs, s', cs1, hr, hbs, hbl, hs, hseg'⟩ := readK_seg hseg (by simp [hyne]) need hpos
    have hbpos : 0 < bs.length := List.length_pos_iff.mpr hbs
    have h1 : bs = y.take bs.length := by
      have : (y ++ rest).take bs.length = bs := by rw [hs]; simp
      rw [List.take_append_of_le_length (by omega)] at this
      exact this.symm
    have h2 : s' = y.drop bs.length ++ rest := by
      have : (y ++ rest).drop bs.length = s' := by rw [hs]; simp
      rw [List.drop_append_of_le_length (by omega)] at this
      exact this.symm
    rw [expectLoop_succ, hr]
    simp only
    by_cases hz : need - bs.length = 0
    · have hd : y.drop bs.length = [] := by
        apply List.eq_nil_of_length_eq_zero; simp; omega
      have hyb : y = bs := by
        have := List.take_append_drop bs.length y
        rw [hd, ← h1] at this; simpa using this.symm
      rw [hd] at h2
      simp only [List.nil_append] at h2
      subst h2
      simp only [hz, beq_self_eq_true, ↓reduceIte]
      exact ⟨cs1, by rw [hyb], hseg'⟩
    · rw [if_neg (by simpa using hz)]
      rw [h2] at hseg'
      obtain ⟨cs', h3, h4⟩ := ih (need - bs.length) (y.drop bs.length) (acc ++ bs) cs1 rest t hseg' (by simp; omega) (by omega) (by omega)
      refine ⟨cs', ?_, h4⟩
      rw [h3, List.append_assoc]
      congr 3
      conv => rhs; rw [← List.take_append_drop bs.length y, ← h1]

theorem expect_seg (p rest : Bytes) (cs t : List Chunk) (hseg : Seg cs (p ++ rest) t) (hp : p ≠ []) (hc : cstr p = p) :
    ∃ cs', expect p cs = (.ok (), cs') ∧ Seg cs' rest t := by
  obtain ⟨cs', h1, h2⟩ := expectLoop_seg (p.length + 1) p.length p [] cs rest t hseg rfl (List.length_pos_iff.mpr hp) (by omega)
  refine ⟨cs', ?_, h2⟩
  unfold expect
  rw [h1]
  simp [hc]

theorem expectC_seg (p rest : Bytes) (c : Cli) (t : List Chunk) (hseg : Seg c.cs (p ++ rest) t) (hp : p ≠ []) (hc : cstr p = p) :
    ∃ cs', expectC p c = (.ok (), { c with cs := cs' }) ∧ Seg cs' rest t := by
  obtain ⟨cs', h1, h2⟩ := expect_seg p rest c.cs t hseg hp hc
  refine ⟨cs', ?_, h2⟩
  unfold expectC
  rw [h1]

/-- a reply line `NNN␠text\r\n` -/
structure RLine where
  code : Nat
  text : Bytes

def RLine.bytes (l : RLine) : Bytes := digits3 l.code ++ 32 :: l.text ++ crlf

/-- three digits, a non-empty text without NUL and without CRLF (nor a final CR) -/
def RLine.ok (l : RLine) : Prop := l.code < 1000 ∧ l.text ≠ [] ∧ (∀ b ∈ l.text, b ≠ 0) ∧ hasCRLF (l.text ++ [13]) = false

/-- what `_process_line` prints for the line: on stdout, on stderr -/
def RLine.out (l : RLine) : Bytes := if l.code = 103 ∨ l.code = 104 ∨ l.code = 105 ∨ l.code = 309 then [] else l.text ++ [10]
def RLine.err (l : RLine) : Bytes := if l.code = 309 then l.text ++ [10] else []

theorem digits3_ne13 (n : Nat) (h : n < 1000) : ∀ d ∈ digits3 n, d ≠ 13 := by
  intro d hd h13
  have := digits3_digits n h d hd
  subst h13
  simp [isDigit] at this

theorem RLine.noCRLF (l : RLine) (h : l.ok) : hasCRLF ((digits3 l.code ++ 32 :: l.text) ++ [13]) = false := by
  have hd := digits3_ne13 l.code h.1
  simp only [digits3, List.mem_cons, List.not_mem_nil, or_false, forall_eq_or_imp, forall_eq] at hd
  simp only [digits3, List.cons_append, List.nil_append]
  rw [hasCRLF_cons _ _ hd.1, hasCRLF_cons _ _ hd.2.1, hasCRLF_cons _ _ hd.2.2, hasCRLF_cons _ _ (by decide)]
  exact h.2.2.2

theorem RLine.bytes_length (l : RLine) : l.bytes.length = l.text.length + 6 := by
  simp [RLine.bytes, digits3, crlf]

theorem processLine_seg (l : RLine) (h : l.ok) (c : Cli) (rest : Bytes) (t : List Chunk) (hseg : Seg c.cs (l.bytes ++ rest) t) :
    ∃ cs', processLine c = (.ok (l.code : Int), { cs := cs', out := c.out ++ l.out, errs := c.errs ++ l.err }) ∧ Seg cs' rest t := by
  have hlen := Seg_length hseg
  have hseg' : Seg c.cs ((digits3 l.code ++ 32 :: l.text) ++ crlf ++ rest) t := by
    simpa [RLine.bytes] using hseg
  obtain ⟨cs', h1, h2⟩ := readStr_line _ rest c.cs t (chunkBytes c.cs + 2) hseg' (l.noCRLF h) (by
    rw [List.length_append, l.bytes_length] at hlen
    simp [digits3]; omega)
  refine ⟨cs', ?_, h2⟩
  have hcs : cstr (digits3 l.code ++ 32 :: l.text) = digits3 l.code ++ 32 :: l.text := by
    rw [cstr_digits3 _ h.1, cstr_of_nonul _ h.2.2.1]
  have hnum := strtolCli_line l.code h.1 l.text
  rw [hcs] at hnum
  have htl : 0 < l.text.length := List.length_pos_iff.mpr h.2.1
  unfold processLine
  rw [h1]
  simp only [hcs, hnum]
  have hl4 : (digits3 l.code ++ 32 :: l.text).length > 4 := by simp [digits3]; omega
  have hd4 : (digits3 l.code ++ 32 :: l.text).drop 4 = l.text := by simp [digits3]
  rw [if_pos hl4, hd4]
  have ht : toInt32 (l.code : Int) = (l.code : Int) := by
    have := h.1
    unfold toInt32
    simp only
    have hm : (l.code : Int) % 4294967296 = (l.code : Int) := by omega
    rw [hm]
    split <;> omega
  simp only [ht]
  unfold RLine.out RLine.err
  by_cases h103 : l.code = 103
  · simp [h103]
  by_cases h104 : l.code = 104
  · simp [h104]
  by_cases h105 : l.code = 105
  · simp [h105]
  by_cases h309 : l.code = 309
  · simp [h309]
  have e1 : ((l.code : Int) == 103) = false := by simp; omega
  have e2 : ((l.code : Int) == 104) = false := by simp; omega
  have e3 : ((l.code : Int) == 105) = false := by simp; omega
  have e4 : ((l.code : Int) == 309) = false := by simp; omega
  simp [e1, e2, e3, e4, h103, h104, h105, h309]


def outOf (ls : List RLine) : Bytes := (ls.map RLine.out).flatten
def errOf (ls : List RLine) : Bytes := (ls.map RLine.err).flatten
def bytesOfLines (ls : List RLine) : Bytes := (ls.map RLine.bytes).flatten

theorem bytesOfLines_length (ls : List RLine) : ls.length ≤ (bytesOfLines ls).length := by
  induction ls with
  | nil => simp [bytesOfLines]
  | cons l ls ih =>
    simp only [bytesOfLines, List.map_cons, List.flatten_cons, List.length_append, List.length_cons, l.bytes_length] at ih ⊢
    omega

/-- `_process_response` on one conforming response: intermediate lines (code outside 100…299), then the terminal line -/
theorem processResponse_seg (ls : List RLine) : ∀ (tl : RLine) (c : Cli) (rest : Bytes) (t : List Chunk) (fuel : Nat),
    (∀ l ∈ ls, l.ok ∧ ¬ (100 ≤ l.code ∧ l.code < 300)) → tl.ok → 100 ≤ tl.code → tl.code < 300 →
    Seg c.cs (bytesOfLines ls ++ tl.bytes ++ rest) t → ls.length < fuel →
    ∃ cs', processResponse fuel c =
        (.ok (if 200 ≤ tl.code then (tl.code : Int) else 0),
         { cs := cs', out := c.out ++ outOf (ls ++ [tl]), errs := c.errs ++ errOf (ls ++ [tl]) }) ∧ Seg cs' rest t := by
  induction ls with
  | nil =>
    intro tl c rest t fuel _ htl h1 h3 hseg hf
    obtain ⟨fuel, rfl⟩ : ∃ k, fuel = k + 1 := ⟨fuel - 1, by simp at hf; omega⟩
    obtain ⟨cs', hp, hs⟩ := processLine_seg tl htl c rest t (by simpa [bytesOfLines] using hseg)
    refine ⟨cs', ?_, hs⟩
    rw [processResponse_succ, hp]
    have e1 : (100 ≤ (tl.code : Int)) := by omega
    have e2 : ((tl.code : Int) < 300) := by omega
    simp only [e1, e2, decide_true, Bool.and_self, ↓reduceIte]
    have : (200 ≤ (tl.code : Int)) ↔ 200 ≤ tl.code := by omega
    simp [outOf, errOf, this]
  | cons l ls ih =>
    intro tl c rest t fuel hls htl h1 h3 hseg hf
    obtain ⟨fuel, rfl⟩ : ∃ k, fuel = k + 1 := ⟨fuel - 1, by simp at hf; omega⟩
    obtain ⟨hl, hcode⟩ := hls l (by simp)
    obtain ⟨cs1, hp, hs⟩ := processLine_seg l hl c (bytesOfLines ls ++ tl.bytes ++ rest) t (by
      simpa [bytesOfLines, List.append_assoc] using hseg)
    rw [processResponse_succ, hp]
    have e : (decide (100 ≤ (l.code : Int)) && decide ((l.code : Int) < 300)) = false := by
      rw [← Bool.not_eq_true]; simp; omega
    simp only [e, Bool.false_eq_true, ↓reduceIte]
    obtain ⟨cs', h4, h5⟩ := ih tl { cs := cs1, out := c.out ++ l.out, errs := c.errs ++ l.err } rest t fuel
      (fun x hx => hls x (by simp [hx])) htl h1 h3 hs (by simp at hf; omega)
    refine ⟨cs', ?_, h5⟩
    rw [h4]
    simp [outOf, errOf, List.append_assoc]

theorem cstr_prompt : cstr prompt = prompt := by decide
theorem cstr_goodbye : cstr goodbye = goodbye := by decide +kernel

/-- one exchange as the server sends it: the response and the prompt -/
structure Exch where
  lines : List RLine
  term : RLine

def Exch.ok (e : Exch) : Prop := (∀ l ∈ e.lines, l.ok ∧ ¬ (100 ≤ l.code ∧ l.code < 300)) ∧ e.term.ok ∧ 100 ≤ e.term.code ∧ e.term.code < 300
def Exch.all (e : Exch) : List RLine := e.lines ++ [e.term]
def Exch.bytes (e : Exch) : Bytes := bytesOfLines e.all ++ prompt
/-- the value `_process_response` returns: the 2xx code, or 0 -/
def Exch.res (e : Exch) : Int := if 200 ≤ e.term.code then (e.term.code : Int) else 0

theorem exchange_seg (e : Exch) (he : e.ok) (c : Cli) (rest : Bytes) (t : List Chunk) (fuel : Nat)
    (hseg : Seg c.cs (e.bytes ++ rest) t) (hf : e.lines.length < fuel) :
    ∃ cs', exchange fuel c = (.ok e.res, { cs := cs', out := c.out ++ outOf e.all, errs := c.errs ++ errOf e.all }) ∧ Seg cs' rest t := by
  obtain ⟨cs1, h1, h2⟩ := processResponse_seg e.lines e.term c (prompt ++ rest) t fuel he.1 he.2.1 he.2.2.1 he.2.2.2 (by
    simpa [Exch.bytes, Exch.all, bytesOfLines, List.append_assoc] using hseg) hf
  obtain ⟨cs', h3, h4⟩ := expect_seg prompt rest cs1 t h2 (by decide) cstr_prompt
  refine ⟨cs', ?_, h4⟩
  unfold exchange
  rw [h1]
  simp only
  rw [h3]
  rfl

def bytesOfExchs (es : List Exch) : Bytes := (es.map Exch.bytes).flatten

/-- the exchanges `main` performs: it stops after the first whose result is not 0 -/
theorem run_seg (init : List Exch) : ∀ (last : Exch) (k : Nat) (c : Cli) (rest : Bytes) (t : List Chunk) (fuel : Nat),
    (∀ e ∈ init, e.ok ∧ e.res = 0 ∧ e.lines.length < fuel) → last.ok → last.lines.length < fuel →
    (init.length + 1 = k ∨ (init.length + 1 ≤ k ∧ last.res ≠ 0)) →
    Seg c.cs (bytesOfExchs (init ++ [last]) ++ rest) t →
    ∃ cs', cliRun.run (exchange fuel) k c =
        (.ok last.res, { cs := cs', out := c.out ++ ((init ++ [last]).map fun e => outOf e.all).flatten,
                         errs := c.errs ++ ((init ++ [last]).map fun e => errOf e.all).flatten }) ∧ Seg cs' rest t := by
  induction init with
  | nil =>
    intro last k c rest t fuel _ hl hlf hk hseg
    obtain ⟨k, rfl⟩ : ∃ j, k = j + 1 := ⟨k - 1, by simp at hk; omega⟩
    obtain ⟨cs', h1, h2⟩ := exchange_seg last hl c rest t fuel (by simpa [bytesOfExchs] using hseg) hlf
    refine ⟨cs', ?_, h2⟩
    rw [run_succ, h1]
    simp only
    by_cases hr : last.res = 0
    · have hk0 : k = 0 := by simp at hk; rcases hk with h | h; exact h; exact absurd hr h
      subst hk0
      rw [run_zero]
      simp [hr]
    · simp [hr]
  | cons e init ih =>
    intro last k c rest t fuel hin hl hlf hk hseg
    obtain ⟨k, rfl⟩ : ∃ j, k = j + 1 := ⟨k - 1, by simp at hk; omega⟩
    obtain ⟨he, hres, hef⟩ := hin e (by simp)
    obtain ⟨cs1, h1, h2⟩ := exchange_seg e he c (bytesOfExchs (init ++ [last]) ++ rest) t fuel (by
      simpa [bytesOfExchs, List.append_assoc] using hseg) hef
    rw [run_succ, h1]
    simp only [hres, bne_self_eq_false, Bool.false_eq_true, ↓reduceIte]
    obtain ⟨cs', h3, h4⟩ := ih last k { cs := cs1, out := c.out ++ outOf e.all, errs := c.errs ++ errOf e.all } rest t fuel
      (fun x hx => hin x (by simp [hx])) hl hlf (by simp at hk ⊢; omega) h2
    refine ⟨cs', ?_, h4⟩
    rw [h3]
    simp [List.append_assoc]


theorem hasCRLF_no13 (w : Bytes) (h : ∀ b ∈ w, b ≠ 13) : hasCRLF (w ++ [13]) = false := by
  induction w with
  | nil => rfl
  | cons a w ih =>
    rw [List.cons_append, hasCRLF_cons _ _ (h a (by simp))]
    exact ih (fun b hb => h b (by simp [hb]))

/-- the banner -/
def bannerLine (v : Bytes) : Bytes := str "001 " ++ v ++ crlf
/-- a word for `%s`: non-empty, no white space, no NUL -/
def IsWord (w : Bytes) : Prop := w ≠ [] ∧ ∀ b ∈ w, isSpace b = false ∧ b ≠ 0

theorem str_001 : str "001 " = [48, 48, 49, 32] := by decide +kernel

theorem scanVersion_banner (v : Bytes) (hv : IsWord v) : scanVersion (cstr (str "001 " ++ v)) = some v := by
  have hc : cstr (str "001 " ++ v) = str "001 " ++ v := by
    apply cstr_of_nonul
    intro x hx
    simp only [str_001, List.mem_append, List.mem_cons, List.not_mem_nil, or_false] at hx
    rcases hx with h | h
    · rcases h with rfl | rfl | rfl | rfl <;> decide
    · exact (hv.2 x h).2
  rw [hc]
  obtain ⟨a, w', rfl⟩ := List.exists_cons_of_ne_nil hv.1
  have ha := (hv.2 a (by simp)).1
  unfold scanVersion
  rw [str_001]
  simp only [List.cons_append, List.nil_append]
  have h32 : isSpace 32 = true := by decide
  simp only [List.dropWhile_cons, h32, ↓reduceIte, ha, Bool.false_eq_true]
  have : List.takeWhile (fun b => !isSpace b) (a :: w') = a :: w' := by
    have := List.takeWhile_append_of_pos (p := fun b => !isSpace b) (l₁ := a :: w') (l₂ := []) (by
      intro x hx; simp [(hv.2 x hx).1])
    simpa using this
  rw [this]
  simp

/-- the warning `_process_version` prints when the versions differ -/
def versionWarning (o : CliOpts) (v : Bytes) : Bytes :=
  if v != o.version then str "powerman: warning: server version (" ++ v ++ str ") != client (" ++ o.version ++ str ")\n" else []

theorem stageVersion_seg (o : CliOpts) (v : Bytes) (hv : IsWord v) (cs : List Chunk) (rest : Bytes) (t : List Chunk) (fuel : Nat)
    (hseg : Seg cs (bannerLine v ++ rest) t) (hf : chunkBytes cs < fuel) :
    ∃ cs', stageVersion o fuel { cs := cs } = (.ok (), { cs := cs', errs := versionWarning o v }) ∧ Seg cs' rest t := by
  have hlen := Seg_length hseg
  have hx : hasCRLF ((str "001 " ++ v) ++ [13]) = false := by
    apply hasCRLF_no13
    intro b hb h13
    simp only [str_001, List.mem_append, List.mem_cons, List.not_mem_nil, or_false] at hb
    subst h13
    rcases hb with h | h
    · revert h; decide
    · have := (hv.2 _ h).1
      revert this; decide
  obtain ⟨cs', h1, h2⟩ := readStr_line (str "001 " ++ v) rest cs t fuel (by simpa [bannerLine] using hseg) hx (by
    simp [bannerLine, crlf] at hlen; simp; omega)
  refine ⟨cs', ?_, h2⟩
  unfold stageVersion
  simp only
  rw [h1]
  simp only [scanVersion_banner v hv]
  unfold versionWarning
  split <;> simp

theorem bytesOfExchs_mem (es : List Exch) (e : Exch) (h : e ∈ es) : e.lines.length < (bytesOfExchs es).length := by
  induction es with
  | nil => simp at h
  | cons a es ih =>
    simp only [bytesOfExchs, List.map_cons, List.flatten_cons, List.length_append] at ih ⊢
    rcases List.mem_cons.mp h with rfl | h
    · have := bytesOfLines_length e.all
      simp [Exch.bytes, Exch.all, prompt] at this ⊢
      omega
    · have := ih h
      omega

/-- the whole run on a conforming stream, however segmented -/
theorem cliCore_conforming (o : CliOpts) (v : Bytes) (init : List Exch) (last : Exch) (cs t : List Chunk)
    (hseg : Seg cs (bannerLine v ++ prompt ++ bytesOfExchs (init ++ [last]) ++ goodbye) t)
    (hv : IsWord v) (hinit : ∀ e ∈ init, e.ok ∧ e.res = 0) (hlast : last.ok)
    (hk : init.length + 1 = exchanges o ∨ (init.length + 1 ≤ exchanges o ∧ last.res ≠ 0)) :
    ∃ cs', cliCore o cs = (.ok last.res,
      { cs := cs', out := ((init ++ [last]).map fun e => outOf e.all).flatten,
        errs := versionWarning o v ++ ((init ++ [last]).map fun e => errOf e.all).flatten }) := by
  have hlen := Seg_length hseg
  have hfuel : ∀ e ∈ init ++ [last], e.lines.length < chunkBytes cs + 2 := by
    intro e he
    have := bytesOfExchs_mem _ e he
    simp only [List.length_append] at hlen
    omega
  obtain ⟨cs1, h1, s1⟩ := stageVersion_seg o v hv cs (prompt ++ bytesOfExchs (init ++ [last]) ++ goodbye) t (chunkBytes cs + 2)
    (by simpa [List.append_assoc] using hseg) (by omega)
  obtain ⟨cs2, h2, s2⟩ := expectC_seg prompt (bytesOfExchs (init ++ [last]) ++ goodbye) { cs := cs1, errs := versionWarning o v } t
    (by simpa [List.append_assoc] using s1) (by decide) cstr_prompt
  obtain ⟨cs3, h3, s3⟩ := run_seg init last (exchanges o) { cs := cs2, errs := versionWarning o v } goodbye t (chunkBytes cs + 2)
    (fun e he => ⟨(hinit e he).1, (hinit e he).2, hfuel e (by simp [he])⟩) hlast (hfuel last (by simp)) hk s2
  obtain ⟨cs4, h4, _⟩ := expectC_seg goodbye [] (Cli.mk cs3 ([] ++ ((init ++ [last]).map fun e => outOf e.all).flatten)
      (versionWarning o v ++ ((init ++ [last]).map fun e => errOf e.all).flatten)) t
    (by simpa using s3) (by decide +kernel) cstr_goodbye
  refine ⟨cs3, ?_⟩
  unfold cliCore
  simp only
  rw [h1]
  simp only
  rw [h2]
  simp only
  rw [h3]
  simp only
  rw [h4]
  simp

theorem cliRun_conforming (o : CliOpts) (v : Bytes) (init : List Exch) (last : Exch) (cs t : List Chunk)
    (hseg : Seg cs (bannerLine v ++ prompt ++ bytesOfExchs (init ++ [last]) ++ goodbye) t)
    (hv : IsWord v) (hinit : ∀ e ∈ init, e.ok ∧ e.res = 0) (hlast : last.ok)
    (hk : init.length + 1 = exchanges o ∨ (init.length + 1 ≤ exchanges o ∧ last.res ≠ 0)) :
    cliRun o cs = (last.res, ((init ++ [last]).map fun e => outOf e.all).flatten,
      versionWarning o v ++ ((init ++ [last]).map fun e => errOf e.all).flatten) := by
  obtain ⟨cs', h⟩ := cliCore_conforming o v init last cs t hseg hv hinit hlast hk
  rw [cliRun_eq, h]
  rfl


/-! ### end to end: a conforming reply, however segmented -/

theorem prompt_no_border : ∀ k < 10, 0 < k → prompt.take k ≠ prompt.drop (10 - k) := by decide

/-- if the prompt text does not occur inside the body of the reply, the accumulated bytes end with the prompt only at the end -/
theorem prompt_not_inside (body : Bytes) (h : ¬ prompt <:+: body) :
    ∀ q r, body ++ prompt = q ++ r → q ≠ [] → r ≠ [] → endsWith q prompt = false := by
  intro q r hs _ hr
  rw [← Bool.not_eq_true, endsWith_iff]
  rintro ⟨p, rfl⟩
  apply h
  rcases List.append_eq_append_iff.mp hs with ⟨a', h1, h2⟩ | ⟨c', h1, _⟩
  · -- p ++ prompt = body ++ a', prompt = a' ++ r
    by_cases ha : a' = []
    · subst ha
      simp only [List.append_nil] at h1
      exact ⟨p, [], by simp [h1]⟩
    · exfalso
      have hk1 : 0 < a'.length := List.length_pos_iff.mpr ha
      have hr1 : 0 < r.length := List.length_pos_iff.mpr hr
      have hlen : a'.length + r.length = 10 := by
        have := congrArg List.length h2
        simp [prompt] at this; omega
      have ht : prompt.take a'.length = a' := by rw [h2]; simp
      have hl2 : p.length + 10 = body.length + a'.length := by
        have := congrArg List.length h1
        simp [prompt] at this; omega
      have hd : prompt.drop (10 - a'.length) = a' := by
        have e1 : (p ++ prompt).drop (p.length + (10 - a'.length)) = prompt.drop (10 - a'.length) := by
          rw [List.drop_append, List.drop_of_length_le (by omega)]
          simp
        have e2 : (body ++ a').drop (p.length + (10 - a'.length)) = a' := by
          have : p.length + (10 - a'.length) = body.length := by omega
          rw [this, List.drop_left]
        rw [← e1, h1, e2]
      exact prompt_no_border a'.length (by omega) hk1 (by rw [ht, hd])
  · exact ⟨p, c', by rw [h1]⟩

/-- `_server_recv_response` on a conforming reply: depends only on the bytes, not on how they arrive -/
theorem recvResponse_conforming (cs t : List Chunk) (ls : List Bytes) (hseg : Seg cs (ls.flatten ++ prompt) t)
    (hl : ∀ l ∈ ls, IsLine l) (hp : ¬ prompt <:+: ls.flatten) :
    recvResponse cs = (retcode ls, (if retcode ls == 0 then ls.reverse else []), t) ∧ replyLines cs = ls := by
  have h := recv_split_general cs _ t hseg (by rw [endsWith_iff]; exact ⟨_, rfl⟩) (prompt_not_inside _ hp)
  have := recvResponse_ok cs _ t h
  rw [parseResponse_lines ls hl] at this
  exact this

theorem nodeLine_isLine (w : Bytes) (hw : IsWord w) : IsLine (nodeLine w) := by
  refine ⟨str "307 " ++ w, by simp [nodeLine, crlf], ?_⟩
  apply hasCRLF_no13
  intro b hb h13
  simp only [str_307, List.mem_append, List.mem_cons, List.not_mem_nil, or_false] at hb
  subst h13
  rcases hb with h | h
  · revert h; decide
  · have := (hw.2 _ h).1
    revert this; decide

theorem RLine.isLine (l : RLine) (h : l.ok) : IsLine l.bytes :=
  ⟨digits3 l.code ++ 32 :: l.text, by simp [RLine.bytes, crlf], l.noCRLF h⟩

theorem nodeLine_eq (w : Bytes) : nodeLine w = digits3 307 ++ 32 :: (w ++ crlf) := by
  have : digits3 307 = [51, 48, 55] := by decide
  simp [nodeLine, str_307, this]

theorem verdict_nodeLine (w : Bytes) : verdict (nodeLine w) = none := by
  rw [verdict_none_iff, nodeLine_eq, scanInt_line 307 (by omega)]
  intro d hd
  simp only [Option.some.injEq] at hd
  subst hd
  decide

theorem RLine.verdict (l : RLine) (h : l.ok) (hc : (l.code : Int) ∈ successCodes) : verdict l.bytes = some 0 := by
  have : l.bytes = digits3 l.code ++ 32 :: (l.text ++ crlf) := by simp [RLine.bytes]
  rw [verdict_of_scan _ _ (by rw [this]; exact scanInt_line l.code h.1 _) (.inl hc)]
  simp [hc]

theorem scan307_other (l : RLine) (h : l.ok) (hc : l.code ≠ 307) : scan307 (cstr l.bytes) = none := by
  have : l.bytes = digits3 l.code ++ 32 :: (l.text ++ crlf) := by simp [RLine.bytes]
  rw [this, cstr_digits3 _ h.1]
  unfold scan307 digits3
  simp only [List.cons_append, List.nil_append]
  split
  · rename_i r heq
    exfalso
    simp only [List.cons.injEq] at heq
    obtain ⟨h1, h2, h3, _⟩ := heq
    have a1 := congrArg UInt8.toNat h1
    have a2 := congrArg UInt8.toNat h2
    have a3 := congrArg UInt8.toNat h3
    have := h.1
    simp [UInt8.toNat_ofNat] at a1 a2 a3
    omega
  · rfl

/-- `pm_node_iterator_create` on the reply `307 w₁ … 307 wₙ, NNN text` (NNN a success code), however segmented -/
theorem nodeList_conforming (cs t : List Chunk) (ws : List Bytes) (tl : RLine)
    (hseg : Seg cs ((ws.map nodeLine ++ [tl.bytes]).flatten ++ prompt) t)
    (hw : ∀ w ∈ ws, IsWord w) (htl : tl.ok) (hc : (tl.code : Int) ∈ successCodes)
    (hp : ¬ prompt <:+: (ws.map nodeLine ++ [tl.bytes]).flatten) :
    nodeList cs = (0, ws, t) := by
  have hl : ∀ l ∈ ws.map nodeLine ++ [tl.bytes], IsLine l := by
    intro l hl
    simp only [List.mem_append, List.mem_map, List.mem_cons, List.not_mem_nil, or_false] at hl
    rcases hl with ⟨w, hw', rfl⟩ | rfl
    · exact nodeLine_isLine w (hw w hw')
    · exact tl.isLine htl
  obtain ⟨h1, h2⟩ := recvResponse_conforming cs t _ hseg hl hp
  have hrc : retcode (ws.map nodeLine ++ [tl.bytes]) = 0 :=
    retcode_first _ [] _ 0 (by
      intro x hx
      simp only [List.mem_map] at hx
      obtain ⟨w, _, rfl⟩ := hx
      exact verdict_nodeLine w) (tl.verdict htl hc)
  have h0 : (recvResponse cs).1 = 0 := by rw [h1]; exact hrc
  rw [nodeList_spec cs h0, h2, h1]
  simp only [Prod.mk.injEq, true_and, and_true]
  have hne : tl.code ≠ 307 := by
    intro h; rw [h] at hc; revert hc; decide
  rw [List.filterMap_append]
  simp only [List.filterMap_cons, scan307_other tl htl hne, List.filterMap_nil, List.append_nil]
  clear hseg hp hl h1 h2 hrc h0
  induction ws with
  | nil => rfl
  | cons w ws ih =>
    have hw1 := hw w (by simp)
    rw [List.map_cons, List.filterMap_cons, scan307_nodeLine w hw1.1 hw1.2]
    simp only [List.cons.injEq, true_and]
    exact ih (fun x hx => hw x (by simp [hx]))

/-- `pm_node_status` on a conforming reply, however segmented -/
theorem nodeStatus_conforming (node : Bytes) (cs t : List Chunk) (ls : List Bytes) (hseg : Seg cs (ls.flatten ++ prompt) t)
    (hl : ∀ l ∈ ls, IsLine l) (hp : ¬ prompt <:+: ls.flatten) (hrc : retcode ls = 0) :
    nodeStatus node cs =
      (0, some (if ∃ l ∈ ls, cstr l = offLine node then 1 else if ∃ l ∈ ls, cstr l = onLine node then 2 else 0), t) := by
  obtain ⟨h1, h2⟩ := recvResponse_conforming cs t ls hseg hl hp
  have h0 : (recvResponse cs).1 = 0 := by rw [h1]; exact hrc
  rw [nodeStatus_spec node cs h0, h2, h1]


/-! ### the read loop with its memory accesses logged -/

/-- one `read` of the loop: `count` bytes were in the buffer, `n` bytes were stored at `buf + count`, the buffer had `buflen` bytes -/
structure Access where
  count : Nat
  n : Nat
  buflen : Nat

/-- `recvLoop`, logging every `read` into the buffer -/
def recvLoopT : Nat → Bytes → Nat → List Chunk → (Except Nat Bytes × List Chunk) × List Access
  | 0, buf, _, cs => ((.ok buf, cs), [])
  | fuel + 1, buf, buflen, cs =>
    match readK cs (growLen buf buflen - buf.length) with
    | (none, cs') => ((.error 7, cs'), [])
    | (some none, cs') => ((.error 1, cs'), [])
    | (some (some bs), cs') =>
      let a : Access := ⟨buf.length, bs.length, growLen buf buflen⟩
      if endsWith (buf ++ bs) prompt then ((.ok (buf ++ bs), cs'), [a])
      else let r := recvLoopT fuel (buf ++ bs) (growLen buf buflen) cs'; (r.1, a :: r.2)

theorem recvLoopT_fst (fuel : Nat) (buf : Bytes) (buflen : Nat) (cs : List Chunk) :
    (recvLoopT fuel buf buflen cs).1 = recvLoop fuel buf buflen cs := by
  induction fuel generalizing buf buflen cs with
  | zero => rfl
  | succ fuel ih =>
    rw [recvLoopT, recvLoop_succ]
    generalize readK cs (growLen buf buflen - buf.length) = r
    obtain ⟨x, cs'⟩ := r
    rcases x with _ | _ | bs
    · rfl
    · rfl
    · simp only
      split
      · rfl
      · exact ih _ _ _

/-- every `read` stores a positive number of bytes inside the buffer: `count + n ≤ buflen` -/
theorem recvLoopT_safe (fuel : Nat) (buf : Bytes) (buflen : Nat) (cs : List Chunk) (h : buf.length ≤ buflen) :
    ∀ a ∈ (recvLoopT fuel buf buflen cs).2, 0 < a.n ∧ a.count + a.n ≤ a.buflen := by
  induction fuel generalizing buf buflen cs with
  | zero => simp [recvLoopT]
  | succ fuel ih =>
    rw [recvLoopT]
    generalize hr : readK cs (growLen buf buflen - buf.length) = r
    obtain ⟨x, cs'⟩ := r
    rcases x with _ | _ | bs
    · simp
    · simp
    · have hb := recv_step_bounds buf buflen cs h bs cs' hr
      have hb2 : buf.length + bs.length ≤ growLen buf buflen := by simpa using hb.2
      simp only
      split
      · intro a ha
        simp only [List.mem_cons, List.not_mem_nil, or_false] at ha
        subst ha
        exact ⟨hb.1, hb2⟩
      · intro a ha
        simp only [List.mem_cons] at ha
        rcases ha with rfl | ha
        · exact ⟨hb.1, hb2⟩
        · exact ih _ _ _ hb.2 a ha

/-! ### how the call ends when the stream ends -/

theorem recvResponse_ends (cs : List Chunk) (s : Bytes) (t : List Chunk) (hseg : Seg cs s t)
    (hq : ∀ q r, s = q ++ r → q ≠ [] → endsWith q prompt = false) :
    (t = [] → recvResponse cs = (7, [], [])) ∧ (∀ r, t = .eof :: r → recvResponse cs = (7, [], r)) ∧
    (∀ r, t = .data [] :: r → recvResponse cs = (7, [], r)) ∧ (∀ r, t = .err :: r → recvResponse cs = (1, [], r)) := by
  obtain ⟨b, hb, he⟩ := recv_seg_noprompt hseg hq
  rw [← recvResponse_loop] at he
  refine ⟨?_, ?_, ?_, ?_⟩
  · rintro rfl
    exact recvResponse_error cs 7 [] (by rw [he, recv_nil _ _ hb])
  · rintro r rfl
    exact recvResponse_error cs 7 r (by rw [he, recv_eof _ _ _ hb])
  · rintro r rfl
    exact recvResponse_error cs 7 r (by rw [he, recv_empty _ _ _ hb])
  · rintro r rfl
    exact recvResponse_error cs 1 r (by rw [he, recv_err _ _ _ hb])

/-! ### `pm_node_status`: only-if directions -/

theorem nodeStatus_state (node : Bytes) (cs : List Chunk) (st : Nat) (cs' : List Chunk) (h : nodeStatus node cs = (0, some st, cs')) :
    (recvResponse cs).1 = 0 ∧
    st = (if ∃ l ∈ replyLines cs, cstr l = offLine node then 1 else if ∃ l ∈ replyLines cs, cstr l = onLine node then 2 else 0) := by
  by_cases h0 : (recvResponse cs).1 = 0
  · rw [nodeStatus_spec node cs h0] at h
    simp only [Prod.mk.injEq, Option.some.injEq, true_and] at h
    exact ⟨h0, h.1.symm⟩
  · rw [nodeStatus_fail node cs h0] at h
    simp at h

theorem nodeStatus_on (node : Bytes) (cs cs' : List Chunk) (h : nodeStatus node cs = (0, some 2, cs')) :
    (∃ l ∈ replyLines cs, cstr l = onLine node) ∧ ¬ ∃ l ∈ replyLines cs, cstr l = offLine node := by
  have := (nodeStatus_state node cs 2 cs' h).2
  split at this
  · omega
  · rename_i hoff
    split at this
    · rename_i hon; exact ⟨hon, hoff⟩
    · omega

theorem nodeStatus_off (node : Bytes) (cs cs' : List Chunk) (h : nodeStatus node cs = (0, some 1, cs')) :
    ∃ l ∈ replyLines cs, cstr l = offLine node := by
  have := (nodeStatus_state node cs 1 cs' h).2
  split at this
  · rename_i hoff; exact hoff
  · split at this <;> omega

/-- a segmentation of `s`: non-empty pieces whose concatenation is `s` -/
def Segmentation (ds : List Bytes) (s : Bytes) : Prop := (∀ d ∈ ds, d ≠ []) ∧ ds.flatten = s

theorem Seg_of_segmentation (ds : List Bytes) (s : Bytes) (t : List Chunk) (h : Segmentation ds s) : Seg (ds.map .data ++ t) s t := by
  rw [← h.2]; exact Seg_of_map ds t h.1

instance (ds : List Bytes) (s : Bytes) : Decidable (Segmentation ds s) := by unfold Segmentation; infer_instance
instance (l : RLine) : Decidable l.ok := by unfold RLine.ok; infer_instance
instance (e : Exch) : Decidable e.ok := by unfold Exch.ok; infer_instance
instance (w : Bytes) : Decidable (IsWord w) := by unfold IsWord; infer_instance


/-! ### small additions -/

/-- a CR appended at the end creates no CRLF: `IsLine (x ++ crlf)` just asks that `x` contains no CRLF -/
theorem hasCRLF_append_cr (x : Bytes) : hasCRLF (x ++ [13]) = hasCRLF x := by
  induction x with
  | nil => rfl
  | cons a x ih =>
    cases x with
    | nil => simp [hasCRLF]
    | cons b r =>
      simp only [List.cons_append, hasCRLF] at ih ⊢
      rw [ih]

theorem isLine_iff (l : Bytes) : IsLine l ↔ ∃ x, l = x ++ crlf ∧ hasCRLF x = false := by
  unfold IsLine
  simp only [hasCRLF_append_cr, crlf]

theorem simpleCmd_eq (cs : List Chunk) : simpleCmd cs = ((recvResponse cs).1, (recvResponse cs).2.2) := rfl

theorem connect_eq (cs : List Chunk) :
    connect cs =
      if (recvResponse cs).1 != 0 then ((recvResponse cs).1, 1, (recvResponse cs).2.2)
      else if (recvResponse (recvResponse cs).2.2).1 != 0 then
        ((recvResponse (recvResponse cs).2.2).1, 1, (recvResponse (recvResponse cs).2.2).2.2)
      else (0, 0, (recvResponse (recvResponse cs).2.2).2.2) := by
  unfold connect; rfl

/-- `pm_connect`: success iff both exchanges (banner, `exprange`) succeed; the descriptor is closed exactly once on failure -/
theorem connect_spec (cs : List Chunk) :
    ((connect cs).1 = 0 ↔ (recvResponse cs).1 = 0 ∧ (recvResponse (recvResponse cs).2.2).1 = 0) ∧
    (connect cs).2.1 = (if (connect cs).1 = 0 then 0 else 1) := by
  rw [connect_eq]
  by_cases h1 : (recvResponse cs).1 = 0
  · by_cases h2 : (recvResponse (recvResponse cs).2.2).1 = 0
    · simp [h1, h2]
    · simp [h1, h2]
  · simp [h1]

deriving instance DecidableEq for Chunk


/-- exact form of "the loop stops at the first read boundary at which the accumulated bytes end with the prompt":
    in the logged loop, when the result is `.ok b`, the log is `pre ++ [last]`, `b` is the stream up to the end of the last
    read, and at the end of every earlier read the accumulated bytes did not end with the prompt -/
theorem recvLoopT_first (fuel : Nat) (buf : Bytes) (buflen : Nat) (cs : List Chunk) (hb : buf.length ≤ buflen)
    (hf : chunkBytes cs < fuel) (b : Bytes) (cs' : List Chunk) (h : (recvLoopT fuel buf buflen cs).1 = (.ok b, cs')) :
    ∃ pre last, (recvLoopT fuel buf buflen cs).2 = pre ++ [last] ∧
      b = (buf ++ bytesOf cs).take (last.count + last.n) ∧ endsWith b prompt = true ∧
      ∀ a ∈ pre, endsWith ((buf ++ bytesOf cs).take (a.count + a.n)) prompt = false := by
  induction fuel generalizing buf buflen cs with
  | zero => omega
  | succ fuel ih =>
    rw [recvLoopT] at h ⊢
    generalize hr : readK cs (growLen buf buflen - buf.length) = r at h ⊢
    obtain ⟨x, cs1⟩ := r
    rcases x with _ | _ | bs
    · simp at h
    · simp at h
    · have hm := readK_measure cs _ bs cs1 (growLen_space buf buflen hb).1 hr
      have hbd := recv_step_bounds buf buflen cs hb bs cs1 hr
      have hby := readK_bytesOf cs _ bs cs1 hr
      have htake : (buf ++ bytesOf cs).take (buf.length + bs.length) = buf ++ bs := by
        rw [hby, ← List.append_assoc]
        have : buf.length + bs.length = (buf ++ bs).length := by simp
        rw [this, List.take_left]
      simp only at h ⊢
      split
      · rename_i he
        rw [if_pos he] at h
        simp only [Prod.mk.injEq, Except.ok.injEq] at h
        obtain ⟨rfl, _⟩ := h
        exact ⟨[], _, rfl, htake.symm, he, by simp⟩
      · rename_i he
        rw [if_neg he] at h
        obtain ⟨pre, last, h1, h2, h3, h4⟩ := ih (buf ++ bs) (growLen buf buflen) cs1 hbd.2 (by omega) h
        have heq : buf ++ bs ++ bytesOf cs1 = buf ++ bytesOf cs := by rw [hby, List.append_assoc]
        rw [heq] at h2 h4
        refine ⟨⟨buf.length, bs.length, growLen buf buflen⟩ :: pre, last, by simp only [h1, List.cons_append], h2, h3, ?_⟩
        intro a ha
        rcases List.mem_cons.mp ha with rfl | ha
        · simp only [htake]; simpa using he
        · exact h4 a ha

end Pm.LibPmModel

/-! ### axiom checks (the lemmas `Props/C16.lean` refers to; each rests on the lemmas before it) -/
