import Pm.LibPmModel
/-! Helper lemmas for property C16 (client library `libpowerman.c` and the CLI's reply loop), over `Pm/LibPmModel.lean`. -/
namespace Pm.LibPmModel

/-! ### the kernel `readK` -/

theorem readK_bounds (cs : List Chunk) (space : Nat) (bs : Bytes) (cs' : List Chunk) (hs : 0 < space)
    (h : readK cs space = (some (some bs), cs')) : 0 < bs.length ∧ bs.length ≤ space := by
  unfold readK at h
  split at h
  · simp at h
  · simp at h
  · simp at h
  · rename_i b r
    by_cases hb : b.isEmpty
    · simp [hb] at h
    · by_cases hl : b.length ≤ space
      · simp [hb, hl] at h
        obtain ⟨rfl, _⟩ := h
        have : b ≠ [] := by simpa using hb
        exact ⟨List.length_pos_iff.mpr this, hl⟩
      · simp [hb, hl] at h
        obtain ⟨rfl, _⟩ := h
        simp [List.length_take]
        omega

/-- a successful `read` makes the script strictly smaller -/
theorem readK_measure (cs : List Chunk) (space : Nat) (bs : Bytes) (cs' : List Chunk) (hs : 0 < space)
    (h : readK cs space = (some (some bs), cs')) : chunkBytes cs' < chunkBytes cs := by
  unfold readK at h
  split at h
  · simp at h
  · simp at h
  · simp at h
  · rename_i b r
    by_cases hb : b.isEmpty
    · simp [hb] at h
    · by_cases hl : b.length ≤ space
      · simp [hb, hl] at h
        obtain ⟨_, rfl⟩ := h
        simp [chunkBytes] <;> omega
      · simp [hb, hl] at h
        obtain ⟨_, rfl⟩ := h
        simp [chunkBytes, List.length_drop]; omega

/-- whatever `read` returns, the script does not grow -/
theorem readK_le (cs : List Chunk) (space : Nat) : chunkBytes (readK cs space).2 ≤ chunkBytes cs := by
  unfold readK
  split
  · simp
  · simp [chunkBytes]
  · simp [chunkBytes]
  · rename_i b r
    by_cases hb : b.isEmpty
    · simp [hb, chunkBytes] <;> omega
    · by_cases hl : b.length ≤ space
      · simp [hb, hl, chunkBytes] <;> omega
      · simp [hb, hl, chunkBytes, List.length_drop] <;> omega

/-! ### `_strncmpend` (guarded) -/

theorem prompt_length : prompt.length = 10 := rfl

theorem endsWith_short (b : Bytes) (h : b.length < 10) : endsWith b prompt = false := by
  unfold endsWith
  simp [prompt_length]
  intro h'; omega

theorem endsWith_iff (b s : Bytes) : endsWith b s = true ↔ ∃ p, b = p ++ s := by
  unfold endsWith
  simp only [ge_iff_le, Bool.and_eq_true, decide_eq_true_eq, beq_iff_eq]
  constructor
  · rintro ⟨hl, hd⟩
    refine ⟨b.take (b.length - s.length), ?_⟩
    conv => lhs; rw [← List.take_append_drop (b.length - s.length) b]
    rw [hd]
  · rintro ⟨p, rfl⟩
    simp

/-! ### `_server_recv_response`: the read loop -/

/-- the buffer size the loop reads with (`buflen` after the optional `xrealloc`) -/
def growLen (buf : Bytes) (buflen : Nat) : Nat := if buflen - buf.length == 0 then buflen + LINEMAX else buflen

theorem growLen_space (buf : Bytes) (buflen : Nat) (h : buf.length ≤ buflen) :
    0 < growLen buf buflen - buf.length ∧ buf.length ≤ growLen buf buflen := by
  unfold growLen LINEMAX
  split <;> simp_all <;> omega

theorem recvLoop_succ (fuel : Nat) (buf : Bytes) (buflen : Nat) (cs : List Chunk) :
    recvLoop (fuel + 1) buf buflen cs =
      match readK cs (growLen buf buflen - buf.length) with
      | (none, cs') => (.error 7, cs')
      | (some none, cs') => (.error 1, cs')
      | (some (some bs), cs') =>
        if endsWith (buf ++ bs) prompt then (.ok (buf ++ bs), cs')
        else recvLoop fuel (buf ++ bs) (growLen buf buflen) cs' := by
  rw [recvLoop]; rfl

/-- the invariant `count ≤ buflen` is kept by every iteration: what is appended fits in the space left -/
theorem recv_step_bounds (buf : Bytes) (buflen : Nat) (cs : List Chunk) (h : buf.length ≤ buflen)
    (bs : Bytes) (cs' : List Chunk) (hr : readK cs (growLen buf buflen - buf.length) = (some (some bs), cs')) :
    0 < bs.length ∧ (buf ++ bs).length ≤ growLen buf buflen := by
  have hg := growLen_space buf buflen h
  have hb := readK_bounds cs _ bs cs' hg.1 hr
  refine ⟨hb.1, ?_⟩
  simp; omega

/-- any two sufficient amounts of fuel give the same result -/
theorem recvLoop_fuel (f1 f2 : Nat) (buf : Bytes) (buflen : Nat) (cs : List Chunk) (h : buf.length ≤ buflen)
    (h1 : chunkBytes cs < f1) (h2 : chunkBytes cs < f2) : recvLoop f1 buf buflen cs = recvLoop f2 buf buflen cs := by
  induction f1 generalizing f2 buf buflen cs with
  | zero => omega
  | succ f1 ih =>
    obtain ⟨f2, rfl⟩ : ∃ k, f2 = k + 1 := ⟨f2 - 1, by omega⟩
    rw [recvLoop_succ, recvLoop_succ]
    generalize hr : readK cs (growLen buf buflen - buf.length) = r
    obtain ⟨x, cs'⟩ := r
    rcases x with _ | _ | bs
    · rfl
    · rfl
    · have hm := readK_measure cs _ bs cs' (growLen_space buf buflen h).1 hr
      have hb := recv_step_bounds buf buflen cs h bs cs' hr
      simp only
      split
      · rfl
      · exact ih f2 _ _ _ hb.2 (by omega) (by omega)

/-- the loop without fuel -/
def recv (buf : Bytes) (buflen : Nat) (cs : List Chunk) : Except Nat Bytes × List Chunk :=
  recvLoop (chunkBytes cs + 1) buf buflen cs

theorem recvLoop_eq_recv (fuel : Nat) (buf : Bytes) (buflen : Nat) (cs : List Chunk) (h : buf.length ≤ buflen)
    (hf : chunkBytes cs < fuel) : recvLoop fuel buf buflen cs = recv buf buflen cs :=
  recvLoop_fuel _ _ _ _ _ h hf (by omega)

theorem recv_step (buf : Bytes) (buflen : Nat) (cs : List Chunk) (h : buf.length ≤ buflen) :
    recv buf buflen cs =
      match readK cs (growLen buf buflen - buf.length) with
      | (none, cs') => (.error 7, cs')
      | (some none, cs') => (.error 1, cs')
      | (some (some bs), cs') =>
        if endsWith (buf ++ bs) prompt then (.ok (buf ++ bs), cs')
        else recv (buf ++ bs) (growLen buf buflen) cs' := by
  unfold recv
  rw [recvLoop_succ]
  generalize hr : readK cs (growLen buf buflen - buf.length) = r
  obtain ⟨x, cs'⟩ := r
  rcases x with _ | _ | bs
  · rfl
  · rfl
  · have hm := readK_measure cs _ bs cs' (growLen_space buf buflen h).1 hr
    have hb := recv_step_bounds buf buflen cs h bs cs' hr
    simp only
    split
    · rfl
    · exact recvLoop_fuel _ _ _ _ _ hb.2 (by omega) (by omega)

theorem recvResponse_loop (cs : List Chunk) : recvLoop (recvFuel cs) [] 0 cs = recv [] 0 cs := rfl

end Pm.LibPmModel
