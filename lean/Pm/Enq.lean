import Pm.Find
namespace Pm

structure Plug where
  name : Name
  node : Option Name
deriving DecidableEq

inductive Variant where | singlet | all | ranged deriving DecidableEq, Repr

/-- what one queued action will address on its device -/
structure Act where
  variant : Variant
  plugs : List Plug          -- singlet: the plug; ranged: its argument list; all: every plug of the device

/-- which script variants the device specification defines for this command
    (table `_get_all_script` / `_get_ranged_script` regenerated from source) -/
structure Avail where
  singlet : Bool
  all : Bool
  ranged : Bool
  isQuery : Bool

def targeted (hl : Hostlist) (p : Plug) : Bool :=
  match p.node with
  | some n => (find hl n).isSome      -- hostlist_find(hl, plug->node) != -1
  | none => false                     -- unused plug

/-- `dev_enqueue_actions` for one device: `_command_needs_device` guard, then
    `_enqueue_targeted_actions` (singlet special case, `_all`, `_ranged`, singlets) -/
def enqueueDevice (devPlugs : List Plug) (av : Avail) (hl : Hostlist) : List Act :=
  let tp := devPlugs.filter (targeted hl)
  let all := devPlugs.all (targeted hl)
  if tp.isEmpty then []                                              -- uninvolved device
  else if av.singlet && tp.length == 1 then tp.map fun p => ⟨.singlet, [p]⟩
  else if (all || (av.isQuery && !av.singlet)) && av.all then [⟨.all, devPlugs⟩]
  else if av.ranged then [⟨.ranged, tp⟩]
  else if av.singlet then tp.map fun p => ⟨.singlet, [p]⟩
  else []

theorem targeted_spec {hl : Hostlist} {p : Plug} (h : targeted hl p = true) :
    ∃ n, p.node = some n ∧ n ∈ expand hl := by
  unfold targeted at h
  cases hn : p.node with
  | none => rw [hn] at h; cases h
  | some n =>
    rw [hn] at h
    simp only at h
    cases hf : find hl n with
    | none => rw [hf] at h; cases h
    | some i => exact ⟨n, rfl, find_mem hl n i hf⟩

/-- C01, first sentence: for a power command (not a query) every plug an action addresses is
    mapped to a node the request names. -/
theorem C01_subset (devPlugs : List Plug) (av : Avail) (hl : Hostlist) (hq : av.isQuery = false) :
    ∀ a ∈ enqueueDevice devPlugs av hl, ∀ p ∈ a.plugs, ∃ n, p.node = some n ∧ n ∈ expand hl := by
  intro a ha p hp
  unfold enqueueDevice at ha
  simp only [hq, Bool.false_and, Bool.or_false] at ha
  have filt : ∀ q, q ∈ devPlugs.filter (targeted hl) → ∃ n, q.node = some n ∧ n ∈ expand hl :=
    fun q hq => targeted_spec (List.mem_filter.mp hq).2
  split at ha
  · cases ha
  · split at ha
    · obtain ⟨q, hq', rfl⟩ := List.mem_map.mp ha
      simp only [List.mem_singleton] at hp; subst hp
      exact filt _ hq'
    · split at ha
      · rename_i hall
        simp only [List.mem_singleton] at ha; subst ha
        simp only [Bool.and_eq_true] at hall
        exact targeted_spec (List.all_eq_true.mp hall.1 p hp)
      · split at ha
        · simp only [List.mem_singleton] at ha; subst ha
          exact filt _ hp
        · split at ha
          · obtain ⟨q, hq', rfl⟩ := List.mem_map.mp ha
            simp only [List.mem_singleton] at hp; subst hp
            exact filt _ hq'
          · cases ha

/-- C01, second sentence: a whole-device script is run for a power command only when every plug
    of that device is mapped to a node named in the request. -/
theorem C01_all_only_if_complete (devPlugs : List Plug) (av : Avail) (hl : Hostlist)
    (hq : av.isQuery = false) (a : Act) (ha : a ∈ enqueueDevice devPlugs av hl) (hv : a.variant = .all) :
    ∀ p ∈ devPlugs, ∃ n, p.node = some n ∧ n ∈ expand hl := by
  intro p hp
  unfold enqueueDevice at ha
  simp only [hq, Bool.false_and, Bool.or_false] at ha
  split at ha
  · cases ha
  · split at ha
    · obtain ⟨q, _, rfl⟩ := List.mem_map.mp ha; cases hv
    · split at ha
      · rename_i hall
        simp only [Bool.and_eq_true] at hall
        exact targeted_spec (List.all_eq_true.mp hall.1 p hp)
      · split at ha
        · simp only [List.mem_singleton] at ha; subst ha; cases hv
        · split at ha
          · obtain ⟨q, _, rfl⟩ := List.mem_map.mp ha; cases hv
          · cases ha

/-- C01, third sentence: a device none of whose nodes is named receives nothing. -/
theorem C01_uninvolved (devPlugs : List Plug) (av : Avail) (hl : Hostlist)
    (h : ∀ p ∈ devPlugs, ∀ n, p.node = some n → n ∉ expand hl) : enqueueDevice devPlugs av hl = [] := by
  unfold enqueueDevice
  have : devPlugs.filter (targeted hl) = [] := by
    apply List.filter_eq_nil_iff.mpr
    intro p hp ht
    obtain ⟨n, hn, hmem⟩ := targeted_spec ht
    exact h p hp n hn hmem
  simp [this]

-- premises are satisfiable on a non-trivial instance (two mapped plugs, one unused, ranged variant chosen)
example : (enqueueDevice [⟨"1".toList, some "n1".toList⟩, ⟨"2".toList, none⟩, ⟨"3".toList, some "n3".toList⟩]
    ⟨true, true, true, false⟩ (pushHost (pushHost [] "n1".toList) "n3".toList)).map (fun a => (a.variant, a.plugs.length))
    = [(.ranged, 2)] := by decide +kernel

end Pm

