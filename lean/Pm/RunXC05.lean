import Pm.RunXTwo
import Pm.TwoRunC05
/-! # The run theorems of C05 over the shared runs `runX`

`Pm/FrameMulti.lean` (`passes_rel`) and `Pm/TwoRunC05.lean` (`passes_gen`, `replyPassX`) state the multi-pass non-interference
theorems over their own run `passes w ps` (`ps : List (PassIn × List RxCall)`; before each pass `withX` *overwrites* the pending
regex answers).  Here they are stated over the shared `runX` of `Pm/RunX.lean` (before each pass `feed` *appends* the answers, as
the driver does).  The two runs get **different** regex answers: those of device `B` (position `j`) may differ — `xp ++ xB ++ xq`
in one run, `xp ++ xB' ++ xq` in the other (the segmentation is part of the per-pass hypotheses) — those of all other devices
are equal.

The per-pass hypotheses along the two runs are `AlongX H w w' pp` (`Pm/RunX.lean`) with `H := GoodX Q g j` (quiet client phase)
resp. `GenX Q F j PB` (general client phase).  `genRun_to_X` / `goodRun_to_X`: for runs that start with no answer pending,
`GenRun` / `GoodRun` imply the new hypotheses and `passes` *is* `runX`. -/
namespace Pm.Daemon.TwoRun
open Pm Pm.Client Pm.Daemon Pm.Daemon.Isolation
open Pm.Dev2 (Dev Plug SAgree QOn QOff ActsOK withArgs RxCall)

/-- a pass given as a pair (kernel answers, regex answers), as `passes` takes it -/
def toX (x : PassIn × List RxCall) : PassX := ⟨x.1, x.2⟩
def toX2 (x : (PassIn × List RxCall) × (PassIn × List RxCall)) : PassX × PassX := (toX x.1, toX x.2)

theorem _root_.Pm.Daemon.PassRel.feed {Q : Bytes → Bool} {g j : Nat} {w w' : W} (h : PassRel Q g j w w') (xs xs' : List RxCall) :
    PassRel Q g j (feed w xs) (feed w' xs') :=
  ⟨h.cli, h.gok, h.store, h.nsock, h.npair, h.nfork, h.devs, h.ex, h.ex'⟩

theorem MRel.feed {Q : Bytes → Bool} {F : Nat → Bool} {j : Nat} {PB : List Plug} {w w' : W} (h : MRel Q F j PB w w')
    (xs xs' : List RxCall) : MRel Q F j PB (feed w xs) (feed w' xs') :=
  ⟨h.cfg, h.specs, h.alNext, h.nextId, h.nacc, h.nsock, h.npair, h.nfork, h.ex, h.ex', h.store, h.devs, h.tab, h.gok, h.sys, h.nob, h.nob'⟩

/-- what is assumed of one pair of passes, quiet client phase: `PassHyps` on the worlds with the answers handed over, for some
    segmentation `xp ++ xB ++ xq` / `xp ++ xB' ++ xq` of the pending answers of the two runs -/
def GoodX (Q : Bytes → Bool) (g j : Nat) : W → W → PassX → PassX → Prop :=
  fun w w' q q' => ∃ xp xB xB' xq, PassHyps Q g j (feed w q.rx) (feed w' q'.rx) q.p q'.p xp xB xB' xq

/-- what is assumed of one pair of passes, general client phase: `CliHyps` and `DevHyps` on the worlds with the answers handed over -/
def GenX (Q : Bytes → Bool) (F : Nat → Bool) (j : Nat) (PB : List Plug) : W → W → PassX → PassX → Prop :=
  fun w w' q q' => ∃ xp xB xB' xq, CliHyps F PB (feed w q.rx) (feed w' q'.rx) q.p q'.p ∧
    DevHyps Q F j (cliPostPoll (feed w q.rx) q.p.acc q.p.envs) (cliPostPoll (feed w' q'.rx) q'.p.acc q'.p.envs) q.p q'.p xp xB xB' xq

/-- **the relation is kept over any number of quiet passes** (`passes_rel` for `runX`) -/
theorem passes_relX (Q : Bytes → Bool) (g j : Nat) (w w' : W) (pp : List (PassX × PassX))
    (hr : PassRel Q g j w w') (h : AlongX (GoodX Q g j) w w' pp) :
    PassRel Q g j (runX w (pp.map (·.1))) (runX w' (pp.map (·.2))) :=
  runX_rel (PassRel Q g j) (GoodX Q g j)
    (fun _ _ q q' hr ⟨xp, xB, xB', xq, hp⟩ => pass_rel_step Q g j _ _ q.p q'.p xp xB xB' xq (hr.feed q.rx q'.rx) hp) pp w w' hr h

/-- **the relation is kept over any number of passes with a general client phase** (`passes_gen` for `runX`) -/
theorem passes_genX (Q : Bytes → Bool) (F : Nat → Bool) (j : Nat) (PB : List Plug)
    (hQB : ∀ nb, Q nb = false → ∃ pl ∈ PB, pl.node = some nb) (w w' : W) (pp : List (PassX × PassX))
    (hr : MRel Q F j PB w w') (h : AlongX (GenX Q F j PB) w w' pp) :
    MRel Q F j PB (runX w (pp.map (·.1))) (runX w' (pp.map (·.2))) :=
  runX_rel (MRel Q F j PB) (GenX Q F j PB)
    (fun _ _ q q' hr ⟨xp, xB, xB', xq, hc, hd⟩ => pass_gen Q F j PB _ _ q.p q'.p xp xB xB' xq hQB (hr.feed q.rx q'.rx) hc hd) pp w w' hr h

/-- **"… within the same time"** (`C05_reply_same_pass` for `runX`): for a client that is tracked at every prefix of the run the
    index of the pass that completes its command is the same in both runs -/
theorem reply_same_passX (Q : Bytes → Bool) (F : Nat → Bool) (j : Nat) (PB : List Plug)
    (hQB : ∀ nb, Q nb = false → ∃ pl ∈ PB, pl.node = some nb) (w w' : W) (pp : List (PassX × PassX))
    (hr : MRel Q F j PB w w') (h : AlongX (GenX Q F j PB) w w' pp) (hi' : IdsFresh w') (g : Nat)
    (hg : ∀ n, (∃ c, cliRec (runX w ((pp.take n).map (·.1))) g = some c ∧ F c.fd = false) ∨
      (cliRec (runX w ((pp.take n).map (·.1))) g = none ∧ cliRec (runX w' ((pp.take n).map (·.2))) g = none)) :
    replyPassRunX w' (pp.map (·.2)) g = replyPassRunX w (pp.map (·.1)) g := by
  apply replyPassRunX_congr w w' (pp.map (·.1)) (pp.map (·.2)) g (by simp)
  intro n
  rw [← List.map_take, ← List.map_take]
  have hm := passes_genX Q F j PB hQB w w' (pp.take n) hr (h.take pp n w w')
  rcases hg n with ⟨c, hc, hF⟩ | ⟨h1, h2⟩
  · rw [hc]
    exact (hm.tracked (runX_ids w' _ hi')).1 g c hc hF
  · rw [h1, h2]

/-! ### `passes` is `runX` for runs that start with no answer pending and do not exit -/

theorem withX_eq_feed (w : W) (xs : List RxCall) (h : w.pendingX = []) : withX w xs = feed w xs := by
  unfold withX Pm.Daemon.feed; rw [h]; rfl

theorem daemonPass_pendingX (w : W) (p : PassIn) (h : (daemonPass w p).1.exited = false) : (daemonPass w p).1.pendingX = [] := by
  have he : (cliPostPoll w p.acc p.envs).exited = false := by rw [← ClientPf.daemonPass_exited]; exact h
  rw [daemonPass_fst]
  simp only [he, Bool.false_eq_true, ↓reduceIte]

theorem map_toX2_fst (l : List ((PassIn × List RxCall) × (PassIn × List RxCall))) : (l.map toX2).map (·.1) = (l.map (·.1)).map toX := by
  rw [List.map_map, List.map_map]; rfl
theorem map_toX2_snd (l : List ((PassIn × List RxCall) × (PassIn × List RxCall))) : (l.map toX2).map (·.2) = (l.map (·.2)).map toX := by
  rw [List.map_map, List.map_map]; rfl

/-- **`GenRun` implies the hypotheses over `runX`, and `passes` is `runX`**, for runs that start with no answer pending -/
theorem genRun_to_X (Q : Bytes → Bool) (F : Nat → Bool) (j : Nat) (PB : List Plug)
    (hQB : ∀ nb, Q nb = false → ∃ pl ∈ PB, pl.node = some nb) (w w' : W)
    (l : List ((PassIn × List RxCall) × (PassIn × List RxCall))) (h : GenRun Q F j PB w w' l) :
    MRel Q F j PB w w' → w.pendingX = [] → w'.pendingX = [] →
    AlongX (GenX Q F j PB) w w' (l.map toX2) ∧
    passes w (l.map (·.1)) = runX w ((l.map (·.1)).map toX) ∧ passes w' (l.map (·.2)) = runX w' ((l.map (·.2)).map toX) := by
  induction h with
  | nil w w' => intro _ _ _; exact ⟨trivial, rfl, rfl⟩
  | cons w w' p p' xs xs' rest xp xB xB' xq hc hd _ ih =>
    intro hr h0 h0'
    have e := withX_eq_feed w xs h0
    have e' := withX_eq_feed w' xs' h0'
    have hr1 := pass_gen Q F j PB _ _ p p' xp xB xB' xq hQB (hr.withX xs xs') hc hd
    obtain ⟨i1, i2, i3⟩ := ih hr1 (daemonPass_pendingX _ _ hr1.ex) (daemonPass_pendingX _ _ hr1.ex')
    simp only [e, e'] at hc hd i1 i2 i3
    refine ⟨⟨⟨xp, xB, xB', xq, hc, hd⟩, i1⟩, ?_, ?_⟩
    · simp only [passes, List.map_cons, List.foldl_cons] at i2 ⊢
      rw [e]; exact i2
    · simp only [passes, List.map_cons, List.foldl_cons] at i3 ⊢
      rw [e']; exact i3

/-- **`GoodRun` implies the hypotheses over `runX`, and `passes` is `runX`**, for runs that start with no answer pending -/
theorem goodRun_to_X (Q : Bytes → Bool) (g j : Nat) (w w' : W)
    (l : List ((PassIn × List RxCall) × (PassIn × List RxCall))) (h : GoodRun Q g j w w' l) :
    PassRel Q g j w w' → w.pendingX = [] → w'.pendingX = [] →
    AlongX (GoodX Q g j) w w' (l.map toX2) ∧
    passes w (l.map (·.1)) = runX w ((l.map (·.1)).map toX) ∧ passes w' (l.map (·.2)) = runX w' ((l.map (·.2)).map toX) := by
  induction h with
  | nil w w' => intro _ _ _; exact ⟨trivial, rfl, rfl⟩
  | cons w w' p p' xs xs' rest xp xB xB' xq hp _ ih =>
    intro hr h0 h0'
    have e := withX_eq_feed w xs h0
    have e' := withX_eq_feed w' xs' h0'
    have hr1 := pass_rel_step Q g j _ _ p p' xp xB xB' xq (hr.withX xs xs') hp
    obtain ⟨i1, i2, i3⟩ := ih hr1 (daemonPass_pendingX _ _ hr1.ex) (daemonPass_pendingX _ _ hr1.ex')
    simp only [e, e'] at hp i1 i2 i3
    refine ⟨⟨⟨xp, xB, xB', xq, hp⟩, i1⟩, ?_, ?_⟩
    · simp only [passes, List.map_cons, List.foldl_cons] at i2 ⊢
      rw [e]; exact i2
    · simp only [passes, List.map_cons, List.foldl_cons] at i3 ⊢
      rw [e']; exact i3

end Pm.Daemon.TwoRun

section AxiomChecks
open Pm.Daemon.TwoRun
/-- info: 'Pm.Daemon.TwoRun.passes_relX' depends on axioms: [propext, Classical.choice, Quot.sound] -/
#guard_msgs in #print axioms passes_relX
/-- info: 'Pm.Daemon.TwoRun.passes_genX' depends on axioms: [propext, Classical.choice, Quot.sound] -/
#guard_msgs in #print axioms passes_genX
/-- info: 'Pm.Daemon.TwoRun.reply_same_passX' depends on axioms: [propext, Classical.choice, Quot.sound] -/
#guard_msgs in #print axioms reply_same_passX
/-- info: 'Pm.Daemon.TwoRun.genRun_to_X' depends on axioms: [propext, Classical.choice, Quot.sound] -/
#guard_msgs in #print axioms genRun_to_X
/-- info: 'Pm.Daemon.TwoRun.goodRun_to_X' depends on axioms: [propext, Classical.choice, Quot.sound] -/
#guard_msgs in #print axioms goodRun_to_X
end AxiomChecks
