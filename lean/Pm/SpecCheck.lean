/-! Static checks on device specifications (property C17).

`SpecD` is what the translator emits for every shipped specification, as instantiated by the *real* parser
(`harness/u_specdump.c`): statement trees with, for every `expect`, glibc's `re_nsub` of the compiled pattern.
`specOK` is the hand-written predicate the kernel decides for each of them (`decide +kernel` in `Pm/Generated/Specs/*`). -/
namespace Pm.SpecCheck

inductive SStmt where
  | send (fmt : List UInt8)
  | expect (nsub : Nat)
  | delay (us : Nat)
  | setplugstate (lit : Bool) (plugMp statMp : Int)
  | setresult (plugMp statMp : Int)
  | foreachplug (body : List SStmt)
  | foreachnode (body : List SStmt)
  | ifon (body : List SStmt)
  | ifoff (body : List SStmt)

structure SpecD where
  name : String
  file : String
  timeoutUs : Nat
  pingUs : Nat
  nplugs : Nat
  scripts : List (Nat × List SStmt)

def MAX_MATCH_POS : Nat := 20

/-- script kinds whose action is created with a plug argument: the singlet kinds (one plug) and the ranged kinds
    (the targeted plugs); every other kind (`login`, `logout`, `ping`, the `_all` kinds) runs without one -/
def plugArgKinds : List Nat := [2, 7, 8, 10, 11, 13, 14, 16, 17, 19, 21, 23, 24, 25, 26]
/-- kinds whose top-level context holds exactly one plug (needed by `ifon`/`ifoff`) -/
def singletKinds : List Nat := [2, 7, 10, 13, 16, 19, 21, 23, 25]

/-- scan of a send string: `(every % is followed by s or %, number of %s)` -/
def fmtScan : List UInt8 → Bool × Nat
  | [] => (true, 0)
  | a :: r =>
    if a == 37 then
      match r with
      | b :: r' =>
        if b == 37 then fmtScan r'
        else if b == 115 then (let p := fmtScan r'; (p.1, p.2 + 1))
        else (false, 0)
      | [] => (false, 0)
    else fmtScan r
termination_by l => l.length
decreasing_by all_goals simp_wf <;> omega

/-- a send string is safe: conversions ⊆ {`%s`, `%%`}, at most one `%s`, and `%s` only where a plug argument exists -/
def sendSafe (plugArg : Bool) (fmt : List UInt8) : Bool :=
  let p := fmtScan fmt
  p.1 && p.2 ≤ 1 && (p.2 == 0 || plugArg)

/-- a `$N` is usable: the expect that precedes it on every path has that many groups, and the match object can hold it -/
def mpOK (last : Option Nat) (mp : Int) : Bool :=
  if mp < 0 then true else
  match last with
  | some n => mp.toNat ≤ n && mp.toNat ≤ MAX_MATCH_POS
  | none => false

def meet (a b : Option Nat) : Option Nat :=
  match a, b with
  | some x, some y => some (min x y)
  | _, _ => none

mutual
/-- forward data-flow over one statement.  `plugArg`: a plug argument exists in this context; `single`: the context
    holds exactly one plug; `last`: the smallest `re_nsub` among the expects that can be the last one executed before
    this point (`none`: on some path no expect has run yet, so the match object is unused).  Returns (ok, last after). -/
def stmtOK (plugArg single : Bool) (last : Option Nat) : SStmt → Bool × Option Nat
  | .send fmt => (sendSafe plugArg fmt, last)
  | .expect n => (true, some n)
  | .delay _ => (true, last)
  | .setplugstate lit plugMp statMp =>
    -- `$N` needs a preceding expect (before one there is no match data: the statement does nothing — it used to trip the
    -- assert `xm_used`); the plug comes from the literal, a capture, or the context
    (last.isSome && mpOK last plugMp && mpOK last statMp && (lit || plugMp ≥ 0 || plugArg) && statMp ≥ 0, last)
  | .setresult plugMp statMp => (last.isSome && mpOK last plugMp && mpOK last statMp && plugMp ≥ 0 && statMp ≥ 0, last)
  | .foreachplug body =>
    -- the body runs zero or more times, each time with one plug: check it against what can reach its start
    let r1 := stmtsOK true true last body
    let back := meet last r1.2
    let r2 := stmtsOK true true back body
    -- `_process_foreach` iterates *all* plugs of the device unless the action is of a ranged kind: inside a context that
    -- already holds a single plug (a singlet script, or another foreach) it would address plugs the context does not name
    (!single && r1.1 && r2.1, meet last r2.2)
  | .foreachnode body =>
    let r1 := stmtsOK true true last body
    let back := meet last r1.2
    let r2 := stmtsOK true true back body
    (!single && r1.1 && r2.1, meet last r2.2)
  | .ifon body =>
    let r := stmtsOK plugArg single last body
    (single && r.1, meet last r.2)
  | .ifoff body =>
    let r := stmtsOK plugArg single last body
    (single && r.1, meet last r.2)
def stmtsOK (plugArg single : Bool) (last : Option Nat) : List SStmt → Bool × Option Nat
  | [] => (true, last)
  | s :: r =>
    let a := stmtOK plugArg single last s
    let b := stmtsOK plugArg single a.2 r
    (a.1 && b.1, b.2)
end

def scriptOK (kind : Nat) (body : List SStmt) : Bool :=
  (stmtsOK (plugArgKinds.contains kind) (singletKinds.contains kind) none body).1

/-- the whole specification: a login script, a positive timeout, every script of a known kind and statically safe -/
def specOK (s : SpecD) : Bool :=
  s.timeoutUs > 0 && (s.scripts.any fun p => p.1 == 0) && s.scripts.all fun p => p.1 < 28 && scriptOK p.1 p.2

/-- which scripts fail, for the failing-input search: (kind, ok) -/
def report (s : SpecD) : List (Nat × Bool) := s.scripts.map fun p => (p.1, scriptOK p.1 p.2)

end Pm.SpecCheck
