import Pm.Grammar
import Pm.ConfigModel
/-! # What the semantic actions of `parse_tab.y` do with what the grammar hands them (C18, C17, C13)

`Pm/Grammar.lean` gives the token stream, the `Ast` and the log of action calls in bison's order.  This file runs the log:
the checks the actions make (`_strtodouble`/`_doubletotv` on `timeout`, `pingperiod`, `delay`; `_strtolong` on `$N`;
"duplicate plug list", "duplicate script" (`makeScript`), "specification has no login script" (`makeSpec`),
"device specification not found" and `_parse_hoststr` (`makeDevice`), and — by re-use of `Pm.ConfigModel` — `makeNode`,
`makeAlias`, `_validate_config`), in the order of the C code, each `_errormsg` with the scanner position bison is at when the
action runs.  `runConfig` composes lexer, parser and actions into what the process does with a file: the items completed, and
either `ACCEPT` (+ the verdict of `_validate_config`) or the first diagnostic with its `file::line`.

Compared line by line with `harness/u_gramdump.c` (the real `conf_init`) by `lib/gramlayer.py`.

Environment (parameters, `Env`): whether the build has tcp-wrapper support (`HAVE_TCP_WRAPPERS`), and which paths `stat()` as
character devices (serial targets).  `tcp_create` (resolver) and the option strings of devices are not modelled. -/
namespace Pm.Grammar
open Pm.LexModel

/-- one constructor per message text -/
inductive Diag where
  | parseError          -- parse error
  | stringTooLong       -- string too long
  | tooDeep             -- Includes nested too deeply
  | openFailed (name : Bytes)
  | dblParse            -- error parsing double value
  | dblOverflow         -- double value would cause overflow
  | timeRange           -- time value out of range
  | longParse           -- error parsing long integer value
  | longRange           -- long integer value would cause under/overflow
  | dupPlugList         -- duplicate plug list
  | dupScript           -- duplicate script
  | noLogin             -- specification has no login script
  | specNotFound        -- device specification not found
  | serialNotFound      -- serial device not found or not a char special file
  | missingPort         -- hostname is missing :port
  | portRange           -- port number out of range
  | cfg (c : ConfigModel.DiagClass)      -- makeNode / makeAlias
  | badLogLevel         -- unable to recognize plug_log_level config value
  | noTcpWrappers       -- powerman was not built with tcp_wrapper support
  | unmodelled (why : String)
deriving Repr, DecidableEq

def Diag.text : Diag → String
  | .parseError => "parse error" | .stringTooLong => "string too long" | .tooDeep => "Includes nested too deeply"
  | .openFailed _ => "open" | .dblParse => "error parsing double value" | .dblOverflow => "double value would cause overflow"
  | .timeRange => "time value out of range" | .longParse => "error parsing long integer value"
  | .longRange => "long integer value would cause under/overflow" | .dupPlugList => "duplicate plug list"
  | .dupScript => "duplicate script" | .noLogin => "specification has no login script"
  | .specNotFound => "device specification not found"
  | .serialNotFound => "serial device not found or not a char special file" | .missingPort => "hostname is missing :port"
  | .portRange => "port number out of range"
  | .cfg .unknownDevice => "unknown device" | .cfg .invalidNodeList => "invalid node list" | .cfg .invalidPlugList => "invalid plug list"
  | .cfg .unknownPlug => "unknown plug name" | .cfg .plugAssigned => "plug already assigned" | .cfg .moreNodes => "more nodes than plugs"
  | .cfg .morePlugs => "more plugs than nodes" | .cfg .dupNodeName => "duplicate node name" | .cfg .badAlias => "bad alias"
  | .cfg .specNotFound => "device specification not found" | .cfg .aliasMissing => "alias references nonexistent node"
  | .cfg .noNodes => "no nodes are defined"
  | .badLogLevel => "unable to recognize plug_log_level config value"
  | .noTcpWrappers => "powerman was not built with tcp_wrapper support"
  | .unmodelled w => "unmodelled: " ++ w

structure Env where
  haveTcpWrappers : Bool := false
  charDevs : List Bytes := ["/dev/null".toUTF8.toList]

def toChars (b : Bytes) : List Char := b.map fun x => Char.ofNat x.toNat

/-- `long` → `int` as gcc does it: the low 32 bits, two's complement -/
def wrap32 (v : Int) : Int :=
  let m := v % 4294967296
  if m ≥ 2147483648 then m - 4294967296 else m

/-- `new->mpN = _strtolong(str)` -/
def mpVal (b : Bytes) : Except Diag Int :=
  match strtolong b with
  | .val v => .ok (wrap32 v)
  | .errParse => .error .longParse
  | .errRange => .error .longRange

def mpOpt : Option Bytes → Except Diag Int
  | none => .ok (-1)
  | some b => mpVal b

/-- `_doubletotv(…, _strtodouble(str))` as far as acceptance goes -/
def tvCheck (num : Bytes) : Except Diag Unit :=
  match strtodouble num with
  | .val _ => .ok ()
  | .errRange => .error .dblOverflow
  | .errTimeRange => .error .timeRange
  | .outsideClass => .error .dblParse

/-- a completed `Spec` (`device_specs`) -/
structure SpecRec where
  name : Bytes
  timeout : Option Bytes
  ping : Option Bytes
  plugs : Option (List Bytes)
  scripts : List (Nat × List PStmt)
deriving Repr, Inhabited

/-- `current_spec` -/
structure CurSpec where
  timeout : Option Bytes := none
  ping : Option Bytes := none
  plugs : Option (List Bytes) := none
  scripts : List (Nat × List PStmt) := []
deriving Repr, Inhabited

inductive Target where
  | pipe (cmd : Bytes)
  | serial (path : Bytes)
  | tcp (host port : Bytes)
deriving Repr

/-- a line of the harness: an item completed -/
inductive Out where
  | spec (s : SpecRec)
  | listen (s : Bytes)
  | tcpw (v : Bool)
  | loglevel (s : Bytes)
  | device (name spec : Bytes) (t : Target) (flags : Option Bytes)
  | node (nodes dev : Bytes) (plugs : Option Bytes)
  | alias (name hosts : Bytes)
deriving Repr

structure Sem where
  cur : CurSpec := {}
  specs : List SpecRec := []
  cfg : ConfigModel.Cfg := ConfigModel.empty
  nstmt : Nat := 0                    -- lines handed to `ConfigModel` so far
  out : List Out := []                -- newest first

def hasSub (pat : Bytes) : Bytes → Bool
  | [] => pat.isEmpty
  | c :: r => pat.isPrefixOf (c :: r) || hasSub pat r

/-- `_parse_hoststr` -/
def parseHost (env : Env) (host : Bytes) : Except Diag Target :=
  if hasSub [0x7c, 0x26] host then .ok (.pipe host)
  else if host.head? = some 0x2f then
    if env.charDevs.contains host then .ok (.serial host) else .error .serialNotFound
  else
    let h := host.takeWhile (· != 0x3a)
    match host.drop h.length with
    | [] => .error .missingPort
    | _ :: p =>
      match strtolong p with
      | .errParse => .error .longParse
      | .errRange => .error .longRange
      | .val v => let n := wrap32 v; if n < 1 ∨ n > 65535 then .error .portRange else .ok (.tcp h p)

/-- the names of `prioritynames[]` of `<syslog.h>` -/
def logLevels : List String := ["alert", "crit", "debug", "emerg", "err", "error", "info", "none", "notice", "panic", "warn", "warning"]

def SpecRec.toCfg (s : SpecRec) : ConfigModel.Spec := ⟨toChars s.name, s.plugs.map (·.map toChars)⟩

def cfgErr (r : Except ConfigModel.DiagClass ConfigModel.Cfg) : Except Diag ConfigModel.Cfg :=
  match r with
  | .ok c => .ok c
  | .error e => .error (.cfg e)

/-- the checks `makePreStmt` makes on one statement -/
def semStmt : PStmt → Except Diag Unit
  | .delay num _ => tvCheck num
  | .setplugstate _ mp1 mp2 _ _ =>
    match mpOpt mp1 with
    | .error e => .error e
    | .ok _ => (match mpVal mp2 with | .error e => .error e | .ok _ => .ok ())
  | .setresult mp1 mp2 _ _ =>
    match mpVal mp1 with
    | .error e => .error e
    | .ok _ => (match mpVal mp2 with | .error e => .error e | .ok _ => .ok ())
  | _ => .ok ()

def semSpecItem (s : Sem) : SpecItem → Except Diag Sem
  | .timeout num _ => match tvCheck num with | .error e => .error e | .ok _ => .ok { s with cur := { s.cur with timeout := some num } }
  | .pingPeriod num _ => match tvCheck num with | .error e => .error e | .ok _ => .ok { s with cur := { s.cur with ping := some num } }
  | .plugs l _ => if s.cur.plugs.isSome then .error .dupPlugList else .ok { s with cur := { s.cur with plugs := some l } }
  | .script kind body _ =>
    if s.cur.scripts.any (·.1 == kind) then .error .dupScript
    else .ok { s with cur := { s.cur with scripts := s.cur.scripts ++ [(kind, body)] } }

def semItem (env : Env) (s : Sem) : Item → Except Diag Sem
  | .spec name _ _ =>
    -- `makeSpec`: the scripts seen so far are those of this specification (`current_spec` is cleared after every copy)
    if !s.cur.scripts.any (·.1 == Pm.Generated.PM_LOG_IN) then .error .noLogin
    else
      let r : SpecRec := ⟨name, s.cur.timeout, s.cur.ping, s.cur.plugs, s.cur.scripts⟩
      .ok { s with cur := {}, specs := s.specs ++ [r], out := .spec r :: s.out }
  | .listen h _ => .ok { s with out := .listen h :: s.out }
  | .plugLogLevel l _ =>
    if logLevels.any (fun n => n.toUTF8.toList == l) then .ok { s with out := .loglevel l :: s.out } else .error .badLogLevel
  | .tcpWrappers v _ =>
    let val := v.getD true
    if val && !env.haveTcpWrappers then .error .noTcpWrappers else .ok { s with out := .tcpw val :: s.out }
  | .device name spec host flags _ =>
    match s.specs.find? (·.name == spec) with
    | none => .error .specNotFound
    | some _ =>
      match parseHost env host with
      | .error e => .error e
      | .ok t =>
        match cfgErr (ConfigModel.makeDevice (s.specs.map (·.toCfg)) s.cfg (toChars name) (toChars spec)) with
        | .error e => .error e
        | .ok c => .ok { s with cfg := c, nstmt := s.nstmt + 1, out := .device name spec t flags :: s.out }
  | .node nodes dev plugs _ =>
    match cfgErr (ConfigModel.makeNode s.cfg (toChars nodes) (toChars dev) (plugs.map toChars)) with
    | .error e => .error e
    | .ok c => .ok { s with cfg := c, nstmt := s.nstmt + 1, out := .node nodes dev plugs :: s.out }
  | .alias name hosts _ =>
    match cfgErr (ConfigModel.makeAlias s.cfg s.nstmt (toChars name) (toChars hosts)) with
    | .error e => .error e
    | .ok c => .ok { s with cfg := c, nstmt := s.nstmt + 1, out := .alias name hosts :: s.out }

def semEv (env : Env) (s : Sem) : Ev → Except Diag Sem
  | .stmt st => match semStmt st with | .error e => .error e | .ok _ => .ok s
  | .specItem si => semSpecItem s si
  | .item it => semItem env s it

/-- the number of tokens the scanner had delivered when the action ran (0: an action that checks nothing) -/
def Ev.rd : Ev → Nat
  | .stmt (.delay _ rd) => rd
  | .stmt (.setplugstate _ _ _ _ rd) => rd
  | .stmt (.setresult _ _ _ rd) => rd
  | .stmt _ => 0
  | .specItem (.timeout _ rd) => rd
  | .specItem (.pingPeriod _ rd) => rd
  | .specItem (.plugs _ rd) => rd
  | .specItem (.script _ _ rd) => rd
  | .item (.listen _ rd) => rd
  | .item (.tcpWrappers _ rd) => rd
  | .item (.plugLogLevel _ rd) => rd
  | .item (.device _ _ _ _ rd) => rd
  | .item (.node _ _ _ rd) => rd
  | .item (.alias _ _ rd) => rd
  | .item (.spec _ _ rd) => rd

/-- does `_errormsg` (with `file::line`) print this one, or `err_exit` without position? -/
def Diag.positioned : Diag → Bool
  | .badLogLevel => false
  | .noTcpWrappers => false
  | .tooDeep => false
  | .openFailed _ => false
  | .unmodelled _ => false
  | _ => true

inductive Final where
  | valid                                        -- `conf_init` returns
  | invalid (d : ConfigModel.DiagClass)          -- `_validate_config` refuses (after `yyparse` accepted)
  | err (d : Diag) (pos : Option (Bytes × Nat))  -- a diagnostic while reading, then exit(1)
deriving Repr, DecidableEq

structure Outcome where
  out : List Out                 -- items completed, in order
  final : Final
  ntok : Nat                     -- tokens delivered by the lexer
  syntaxErr : Option Nat         -- index of the offending token, if the grammar refuses
deriving Repr

/-- run the log up to the first failing action, or up to the first action that needs more tokens than the lexer delivered
    (`limit`: `none` = the lexer reached the end of input; `some k` = it died after `k` tokens) -/
def runLog (env : Env) (limit : Option Nat) : Sem → List Ev → Sem × Option (Diag × Nat) × Bool
  | s, [] => (s, none, false)
  | s, e :: es =>
    if (match limit with | some k => decide (e.rd > k) | none => false) then (s, none, true)
    else match semEv env s e with
      | .ok s' => runLog env limit s' es
      | .error d => (s, some (d, e.rd), false)

/-- scanner position when `rd` tokens have been delivered -/
def posOf (toks : List LTok) (eofPos : Bytes × Nat) (rd : Nat) : Bytes × Nat :=
  match toks[rd - 1]? with
  | some t => (t.file, t.line)
  | none => eofPos

def lexDiag : LexEnd → Diag × Option (Bytes × Nat)
  | .errNewline f l => (.parseError, some (f, l))
  | .tooLong f l => (.stringTooLong, some (f, l))
  | .tooDeep => (.tooDeep, none)
  | .missing n => (.openFailed n, none)
  | .unmodelled w => (.unmodelled w, none)
  | .fuel => (.unmodelled "lexer fuel", none)
  | .eof f l => (.unmodelled "eof", some (f, l))

def synOf : Option ParseError → Option Nat
  | some (.syntax i) => some i
  | _ => none

/-- the lexer reached the end of input (at scanner position `eofPos`): every action of the log runs; then the syntax error, if
    any; else `_validate_config` -/
def runOk (env : Env) (ltoks : List LTok) (eofPos : Bytes × Nat) : Outcome :=
  let pl := parseLog (ltoks.map (·.tok))
  match runLog env none {} pl.1 with
  | (s, some (d, rd), _) =>
    ⟨s.out.reverse, .err d (if d.positioned then some (posOf ltoks eofPos rd) else none), ltoks.length, synOf pl.2⟩
  | (s, none, _) =>
    match pl.2 with
    | some (.syntax i) => ⟨s.out.reverse, .err .parseError (some (posOf ltoks eofPos (i + 1))), ltoks.length, some i⟩
    | some .fuel => ⟨s.out.reverse, .err (.unmodelled "parser fuel") none, ltoks.length, none⟩
    | none =>
      match ConfigModel.validate s.cfg s.nstmt with
      | .ok _ => ⟨s.out.reverse, .valid, ltoks.length, none⟩
      | .error (d, _) => ⟨s.out.reverse, .invalid d, ltoks.length, none⟩

/-- the lexer died (`e`) after delivering `ltoks`: for the grammar that is a token that is never acceptable; the actions that
    need no more than the delivered tokens run; a syntax error inside the delivered tokens comes first, else the lexer's own
    diagnostic -/
def runDead (env : Env) (ltoks : List LTok) (main : Bytes) (e : LexEnd) : Outcome :=
  let k := ltoks.length
  let pl := parseLog (ltoks.map (·.tok) ++ [.unrecognized])
  match runLog env (some k) {} pl.1 with
  | (s, some (d, rd), _) =>
    ⟨s.out.reverse, .err d (if d.positioned then some (posOf ltoks (main, 0) rd) else none), k, synOf pl.2⟩
  | (s, none, cut) =>
    match pl.2 with
    | some (.syntax i) =>
      if !cut ∧ i < k then ⟨s.out.reverse, .err .parseError (some (posOf ltoks (main, 0) (i + 1))), k, some i⟩
      else ⟨s.out.reverse, .err (lexDiag e).1 (lexDiag e).2, k, some i⟩
    | _ => ⟨s.out.reverse, .err (lexDiag e).1 (lexDiag e).2, k, none⟩

/-- what `conf_init` does with a configuration file -/
def runConfig (env : Env) (fs : Bytes → Option Bytes) (main content : Bytes) : Outcome :=
  match lexFile fs main content with
  | (ltoks, .eof f l) => runOk env ltoks (f, l)
  | (ltoks, e) => runDead env ltoks main e

end Pm.Grammar
