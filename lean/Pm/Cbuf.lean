/-! The sizing arithmetic of liblsd's circular buffer (`liblsd/cbuf.c`) as far as `powermand` exercises it:
    `cbuf_grow`, and the read side `cbuf_write_from_fd (cb, fd, -1, &dropped)` → `cbuf_writer`.

    A cbuf has `size` (starts at `minsize`, never shrinks: `cbuf_shrink` is a stub), `used ≤ size` unread bytes and
    `maxsize`.  The daemon is built with assertions, so `alloc - size` (sentinel byte + two magic cookies) is
    `1 + 2 * sizeof (unsigned long)` = 17.  The overwrite mode is the default `CBUF_WRAP_MANY`. -/
namespace Pm.Cbuf

/-- `CBUF_CHUNK` -/
def chunk : Nat := 1000
/-- `cb->alloc - cb->size`: one sentinel byte and two magic cookies (assertions compiled in) -/
def sizeMeta : Nat := 17

/-- `cbuf_grow (cb, n)`: the size afterwards.  `m = alloc + n`, rounded up to the next multiple of `CBUF_CHUNK`
    *strictly* above (`m + (CHUNK - m % CHUNK)` adds a whole chunk when `m` is a multiple already), capped at
    `maxsize + size_meta`; the new size is `m - size_meta`. -/
def growTo (size n max : Nat) : Nat :=
  if size == max then size else
  let m := size + sizeMeta + n
  let m := m + (chunk - m % chunk)
  min m (max + sizeMeta) - sizeMeta

/-- `cbuf_write_from_fd (cb, fd, -1, &dropped)` when the kernel has `avail` bytes to hand out (0: `EAGAIN`, end of file or
    an error — the buffer is grown all the same, growing comes before reading): `(n, size', dropped)` = the number of bytes
    read, the size afterwards, the number of oldest unread bytes overwritten.
    `len = size - used`, or a chunk when the buffer is full; the buffer grows by `len - nfree` if that is positive and
    `size < maxsize`; `n = min len avail`; `used' = min (used + n) size'`; `dropped = max 0 (n - (size' - used))`. -/
def readPlan (size used max avail : Nat) : Nat × Nat × Nat :=
  let nfree := size - used
  let len := if nfree == 0 then chunk else nfree
  let size' := if len > nfree && size < max then growTo size (len - nfree) max else size
  let n := min len avail
  (n, size', n - (size' - used))

/-! ### basic facts -/

theorem growTo_ge (size n max : Nat) (h : size ≤ max) : size ≤ growTo size n max := by
  unfold growTo sizeMeta chunk
  split
  · exact Nat.le_refl _
  · dsimp only
    have : (size + 17 + n) % 1000 < 1000 := Nat.mod_lt _ (by decide)
    omega

theorem growTo_le (size n max : Nat) (h : size ≤ max) : growTo size n max ≤ max := by
  unfold growTo sizeMeta chunk
  split
  · exact h
  · dsimp only; omega

/-- below the cap the buffer really grows by at least `n` -/
theorem growTo_grows (size n max : Nat) (h : growTo size n max < max) : size + n < growTo size n max := by
  unfold growTo sizeMeta chunk at h ⊢
  split at h
  · rename_i he; simp at he; omega
  · rename_i he
    simp only [he, Bool.false_eq_true, ↓reduceIte]
    dsimp only at h ⊢
    have : (size + 17 + n) % 1000 < 1000 := Nat.mod_lt _ (by decide)
    omega

theorem readPlan_n_le_avail (size used max avail : Nat) : (readPlan size used max avail).1 ≤ avail := by
  unfold readPlan; dsimp only; omega

theorem readPlan_n_eq (size used max avail : Nat) :
    (readPlan size used max avail).1 = min (if size - used = 0 then chunk else size - used) avail := by
  unfold readPlan; simp

/-- never more than a chunk or the free space is asked of the kernel -/
theorem readPlan_n_le_len (size used max avail : Nat) :
    (readPlan size used max avail).1 ≤ Nat.max (size - used) chunk := by
  rw [readPlan_n_eq]
  split <;> simp only [Nat.max_def] <;> split <;> omega

/-- the size after the read does not depend on what the kernel had -/
theorem readPlan_size_indep (size used max avail avail' : Nat) :
    (readPlan size used max avail).2.1 = (readPlan size used max avail').2.1 := by
  unfold readPlan; rfl

theorem readPlan_size_cases (size used max avail : Nat) :
    (readPlan size used max avail).2.1 = size ∨ ∃ n, (readPlan size used max avail).2.1 = growTo size n max := by
  unfold readPlan; dsimp only
  repeat' split
  all_goals first | (left; rfl) | (right; exact ⟨_, rfl⟩)

theorem readPlan_size_ge (size used max avail : Nat) (h : size ≤ max) : size ≤ (readPlan size used max avail).2.1 := by
  rcases readPlan_size_cases size used max avail with h1 | ⟨n, h1⟩ <;> rw [h1]
  · exact Nat.le_refl _
  · exact growTo_ge _ _ _ h

theorem readPlan_size_le (size used max avail : Nat) (h : size ≤ max) : (readPlan size used max avail).2.1 ≤ max := by
  rcases readPlan_size_cases size used max avail with h1 | ⟨n, h1⟩ <;> rw [h1]
  · exact h
  · exact growTo_le _ _ _ h

/-- the buffer only grows when it is full -/
theorem readPlan_size_of_room (size used max avail : Nat) (h : used < size) : (readPlan size used max avail).2.1 = size := by
  unfold readPlan; dsimp only
  have h0 : (size - used == 0) = false := by simp; omega
  simp only [h0, Bool.false_eq_true, ↓reduceIte]
  split
  · rename_i hc; simp at hc
  · rfl

theorem readPlan_dropped_eq (size used max avail : Nat) :
    (readPlan size used max avail).2.2 = (readPlan size used max avail).1 - ((readPlan size used max avail).2.1 - used) := by
  unfold readPlan; rfl

/-- nothing is read, nothing is dropped -/
theorem readPlan_zero (size used max : Nat) : (readPlan size used max 0).1 = 0 ∧ (readPlan size used max 0).2.2 = 0 := by
  unfold readPlan; simp

/-- with room left nothing is dropped -/
theorem readPlan_dropped_of_room (size used max avail : Nat) (h : used < size) : (readPlan size used max avail).2.2 = 0 := by
  rw [readPlan_dropped_eq, readPlan_size_of_room _ _ _ _ h, readPlan_n_eq]
  have : ¬ (size - used = 0) := by omega
  simp only [this, ↓reduceIte]
  omega

/-- bytes are overwritten only by a buffer that has reached its maximal size -/
theorem readPlan_dropped_of_lt_max (size used max avail : Nat) (hu : used ≤ size)
    (h : (readPlan size used max avail).2.1 < max) : (readPlan size used max avail).2.2 = 0 := by
  by_cases hr : used < size
  · exact readPlan_dropped_of_room _ _ _ _ hr
  · have he : size - used = 0 := by omega
    rw [readPlan_dropped_eq, readPlan_n_eq]
    simp only [he, ↓reduceIte]
    unfold readPlan at h ⊢
    simp only [he, BEq.rfl, ↓reduceIte, Nat.sub_zero] at h ⊢
    have hc : 0 < chunk := by decide
    split at h
    · have := growTo_grows size chunk max h
      rename_i hc2
      simp only [hc2, ↓reduceIte]
      omega
    · rename_i hc2
      simp only [gt_iff_lt, hc, decide_true, Bool.true_and, decide_eq_true_eq] at hc2
      omega

theorem readPlan_dropped_le_n (size used max avail : Nat) :
    (readPlan size used max avail).2.2 ≤ (readPlan size used max avail).1 := by
  rw [readPlan_dropped_eq]; omega

/-- `used' = min (used + n) size'`: what is unread afterwards fits -/
theorem readPlan_fits (size used max avail : Nat) (hu : used ≤ size) (hm : size ≤ max) :
    used + (readPlan size used max avail).1 - (readPlan size used max avail).2.2 ≤ (readPlan size used max avail).2.1 := by
  have := readPlan_size_ge size used max avail hm
  rw [readPlan_dropped_eq]; omega

/-- never more is dropped than was unread, as long as a whole chunk fits the buffer (`minsize ≥ CBUF_CHUNK`: 1024 in
    the daemon) -/
theorem readPlan_dropped_le_used (size used max avail : Nat) (hu : used ≤ size) (hm : size ≤ max) (hc : chunk ≤ size) :
    (readPlan size used max avail).2.2 ≤ used := by
  have h1 := readPlan_size_ge size used max avail hm
  have h2 := readPlan_n_le_len size used max avail
  rw [readPlan_dropped_eq]
  simp only [Nat.max_def] at h2
  split at h2 <;> omega

/-- the exact count at the cap: a full buffer at `maxsize` loses as many of its oldest bytes as it reads -/
theorem readPlan_full_at_max (max avail : Nat) :
    readPlan max max max avail = (min chunk avail, max, min chunk avail) := by
  unfold readPlan; simp

example : growTo 1024 1000 65536 = 2983 := by decide
example : growTo 1024 1000 1048576 = 2983 := by decide
example : growTo 2983 1000 65536 = 4983 := by decide
example : growTo 64983 1000 65536 = 65536 := by decide
example : growTo 65536 1000 65536 = 65536 := by decide
/-- `m` a multiple of the chunk already: a whole chunk more -/
example : growTo 983 1000 65536 = 2983 := by decide
example : readPlan 1024 0 65536 5000 = (1024, 1024, 0) := by decide
example : readPlan 1024 1024 65536 5000 = (1000, 2983, 0) := by decide
example : readPlan 1024 1000 65536 5000 = (24, 1024, 0) := by decide
/-- the last growth is cut by the cap: 553 bytes of room for the 1000 read, 447 of the oldest are lost -/
example : readPlan 64983 64983 65536 5000 = (1000, 65536, 447) := by decide
example : readPlan 65536 65536 65536 5000 = (1000, 65536, 1000) := by decide
example : readPlan 65536 65536 65536 0 = (0, 65536, 0) := by decide

end Pm.Cbuf
