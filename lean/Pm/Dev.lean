/- spike: full-fidelity mirror of device.c script interpretation for one connected device:
   `_enqueue_targeted_actions`, `_process_action` and every `_process_*`, with the regex engine
   as an oracle.  Written for execution (compared with the real code), not yet for proof. -/
namespace Pm.Dev

abbrev Bytes := List UInt8
abbrev Time := Nat          -- microseconds

inductive PState where | unknown | off | on deriving DecidableEq, Repr
inductive PResult where | none | unknown | success deriving DecidableEq, Repr

inductive Stmt where
  | send (fmt : Bytes)
  | expect (pat : Nat)
  | setplugstate (plugName : Option Bytes) (plugMp : Int) (statMp : Int) (interps : List (PState × Nat))
  | setresult (plugMp : Int) (statMp : Int) (interps : List (PResult × Nat))
  | delay (us : Time)
  | foreachplug (body : List Stmt)
  | foreachnode (body : List Stmt)
  | ifoff (body : List Stmt)
  | ifon (body : List Stmt)
deriving Repr, Inhabited

structure Plug where
  name : Bytes
  node : Option Bytes
deriving Repr, DecidableEq, Inhabited

/-- script slots as in device_private.h -/
def LOG_IN := 0
def nScripts := 28

structure Arg where
  node : Bytes
  val : Option Bytes
  state : PState
  result : PResult
deriving Repr

structure ExecCtx where
  block : List Stmt
  pos : Nat
  plugs : Option (List Plug)
  plugItr : Option Nat
  plugCopy : Option (List Plug)
  processing : Bool
deriving Repr, Inhabited

inductive ActErr where | success | expfail | abort | connectTimeout | loginTimeout deriving DecidableEq, Repr, Inhabited

structure Action where
  uid : Nat
  com : Nat
  exec : List ExecCtx
  clientId : Nat
  telemetry : Bool
  errnum : ActErr
  timeStamp : Option Time
  delayStart : Time
  arglist : Nat
deriving Repr, Inhabited

/-- one recorded call of regexec: pattern, subject, answer (offset pairs, none = no match) -/
structure RxCall where
  pat : Nat
  subject : Bytes
  answer : Option (List (Int × Int))
deriving Repr

structure Dev where
  plugs : List Plug
  scripts : Nat → Option (List Stmt)
  timeout : Time
  acts : List Action
  toBuf : Bytes
  fromBuf : Bytes
  xmStr : Option Bytes                     -- xmatch: subject copy of the last successful exec
  xmOffs : List (Int × Int)
  xmResult : Bool
  xmUsed : Bool
  args : List (Nat × List Arg)             -- arglists by id
  nextUid : Nat
  shortCircuitDelay : Bool
  wake : Option Time := none             -- scratch: time left registered by a stalled delay in this pass
  connected : Bool := true
  retryCount : Nat := 0
  lastRetry : Time := 0

inductive Out where
  | sent (b : Bytes)
  | finish (cid : Nat) (err : ActErr)
  | telemetry (cid : Nat) (text : Bytes)
  | diag (cid : Nat) (text : Bytes)
  | rxMismatch (want : RxCall) (got : Nat × Bytes)      -- the mirror asked the oracle something else
  | abortAssert (site : String)
deriving Repr

/-! ### helpers -/
def str (s : String) : Bytes := s.toUTF8.toList

def isPrint (b : UInt8) : Bool := 32 ≤ b.toNat && b.toNat ≤ 126

def octal (n : Nat) : Bytes := (Nat.toDigits 8 n).map fun c => c.toNat.toUInt8
/-- `dbg_memstr` as coded (signed char): visible text only -/
def memstr (bs : Bytes) : Bytes :=
  bs.flatMap fun b =>
    if b == 13 then str "\\r" else if b == 10 then str "\\n" else if b == 9 then str "\\t"
    else if isPrint b then [b]
    else
      let v := if b.toNat ≥ 128 then 2 ^ 32 - 256 + b.toNat else b.toNat
      let ds := octal v
      let ds := List.replicate (3 - ds.length) (48 : UInt8) ++ ds
      (92 : UInt8) :: ds.take 3          -- later writes overwrite all but the first four characters

/-- `hsprintf(fmt, arg)` for the single optional string argument -/
def hsprintf : Bytes → Option Bytes → Bytes
  | [], _ => []
  | 37 :: 37 :: r, a => 37 :: hsprintf r a
  | 37 :: 115 :: r, some arg => arg ++ hsprintf r none
  | 37 :: 115 :: r, none => str "(null)" ++ hsprintf r none
  | c :: r, a => c :: hsprintf r a

def subOf (d : Dev) (i : Int) : Option Bytes :=
  if !d.xmResult || i < 0 then none else
  match d.xmOffs[i.toNat]? with
  | some (so, eo) => if so == -1 then none else
      (d.xmStr.map fun s => (s.drop so.toNat).take (eo - so).toNat)
  | none => none

def findPlug (d : Dev) (name : Bytes) : Option Plug :=
  match d.plugs.find? (·.name == name) with
  | some p => if p.node.isSome then some p else none
  | none => none

def getArgs (d : Dev) (id : Nat) : List Arg := (d.args.lookup id).getD []
def setArgs (d : Dev) (id : Nat) (as : List Arg) : Dev := { d with args := (id, as) :: d.args.filter (·.1 ≠ id) }

/-- the oracle: answers are consumed in call order and checked against what the mirror asks -/
structure Oracle where
  calls : List RxCall

def askRx (o : Oracle) (pat : Nat) (subject : Bytes) : Oracle × Option (List (Int × Int)) × List Out :=
  match o.calls with
  | c :: rest =>
    if c.pat == pat && c.subject == subject then ({ calls := rest }, c.answer, [])
    else ({ calls := rest }, c.answer, [.rxMismatch c (pat, subject)])
  | [] => (o, none, [.rxMismatch ⟨0, [], none⟩ (pat, subject)])

def isRanged (com : Nat) : Bool := com == 8 || com == 11 || com == 14 || com == 17 || com == 24 || com == 26

/-- compress sorted plug names for a ranged send: only what the spike's generator needs
    (names are decimal numbers): "[a-b,c]" -/
def rangedNames (names : List Bytes) : Bytes :=
  let nums := (names.map fun n => (String.fromUTF8! ⟨n.toArray⟩).toNat!).mergeSort (· ≤ ·)
  let rec groups (l : List Nat) (cur : Option (Nat × Nat)) (acc : List (Nat × Nat)) : List (Nat × Nat) :=
    match l, cur with
    | [], none => acc.reverse
    | [], some g => (g :: acc).reverse
    | x :: r, none => groups r (some (x, x)) acc
    | x :: r, some (a, b) => if x == b + 1 then groups r (some (a, x)) acc else groups r (some (x, x)) ((a, b) :: acc)
  let gs := groups nums none []
  let body := ",".intercalate (gs.map fun (a, b) => if a == b then toString a else s!"{a}-{b}")
  match gs with
  | [(a, b)] => if a == b then str (toString a) else str ("[" ++ body ++ "]")
  | _ => str ("[" ++ body ++ "]")


def pickState (askf : Oracle → Nat → Bytes → Oracle × Option (List (Int × Int)) × List Out) (s : Bytes) :
    List (PState × Nat) → Oracle → List Out → Oracle × PState × List Out
  | [], o, errs => (o, .unknown, errs)
  | (st, pat) :: r, o, errs =>
    let (o, ans, e2) := askf o pat s
    if ans.isSome then (o, st, errs ++ e2) else pickState askf s r o (errs ++ e2)

def pickResult (askf : Oracle → Nat → Bytes → Oracle × Option (List (Int × Int)) × List Out) (s : Bytes) :
    List (PResult × Nat) → Oracle → List Out → Oracle × PResult × List Out
  | [], o, errs => (o, .unknown, errs)
  | (res, pat) :: r, o, errs =>
    let (o, ans, e2) := askf o pat s
    if ans.isSome then (o, res, errs ++ e2) else pickResult askf s r o (errs ++ e2)

def nextPlug (isNode : Bool) (lst : List Plug) : Nat → Nat → Option (Plug × Nat)
  | _, 0 => none
  | k, f + 1 => match lst[k]? with
    | none => none
    | some p => if isNode && p.node.isNone then nextPlug isNode lst (k + 1) f else some (p, k + 1)

structure StepR where
  dev : Dev
  act : Action
  oracle : Oracle
  out : List Out
  finished : Bool

def topCtx (a : Action) : ExecCtx := a.exec.headD default
def setTop (a : Action) (e : ExecCtx) : Action := { a with exec := e :: a.exec.drop 1 }

/-- `_process_stmt` on the top context -/
def processStmt (d : Dev) (a : Action) (o : Oracle) (now : Time) : StepR :=
  let e := topCtx a
  match e.block[e.pos]? with
  | none => ⟨d, a, o, [.abortAssert "cur == NULL"], true⟩
  | some (.expect pat) =>
    -- xregex_match_recycle; _getregex_buf
    let d := { d with xmStr := none, xmResult := false, xmUsed := false }
    if d.fromBuf.isEmpty then ⟨d, a, o, [], false⟩ else
    let subject := d.fromBuf.map fun b => if b == 0 then 255 else b
    let (o, ans, errs) := askRx o pat subject
    let d := { d with xmUsed := true }
    match ans with
    | none => ⟨{ d with xmResult := false }, a, o, errs, false⟩
    | some offs =>
      let eo := (offs.headD (0, 0)).2.toNat
      let d := { d with xmResult := true, xmStr := some subject, xmOffs := offs, fromBuf := d.fromBuf.drop eo }
      let tele := if a.telemetry then [Out.telemetry a.clientId (str "recv(dev): '" ++ memstr (subject.take eo) ++ str "'")] else []
      ⟨d, a, o, errs ++ tele, true⟩
  | some (.send fmt) =>
    if !e.processing then
      let s := match e.plugs with
        | some (p :: q :: r) => hsprintf fmt (some (rangedNames ((p :: q :: r).map (·.name))))
        | some [p] => hsprintf fmt (some p.name)
        | _ => hsprintf fmt none
      -- `dev->to` holds `MAX_DEV_BUF` = 65536 bytes (overwrite mode: the oldest unsent bytes give way; `Pm.Dev2.clipTo`);
      -- an overrun is logged and the telemetry line is not produced
      let b := d.toBuf ++ s
      let tele := if 65536 < b.length then [] else
        if a.telemetry then [Out.telemetry a.clientId (str "send(dev): '" ++ memstr s ++ str "'")] else []
      let d := { d with toBuf := if 65536 < b.length then b.drop (b.length - 65536) else b }
      let a := setTop a { e with processing := true }
      if d.toBuf.isEmpty then ⟨d, setTop a { e with processing := false }, o, [.sent s] ++ tele, true⟩
      else ⟨d, a, o, [.sent s] ++ tele, false⟩
    else if d.toBuf.isEmpty then ⟨d, setTop a { e with processing := false }, o, [], true⟩
    else ⟨d, a, o, [], false⟩
  | some (.delay us) =>
    let (a, tele) := if !e.processing then
        (setTop { a with delayStart := now } { e with processing := true },
         if a.telemetry then [Out.telemetry a.clientId (str s!"delay(dev): {us / 1000000}.{String.mk (List.replicate (6 - (toString (us % 1000000)).length) '0')}{us % 1000000}")] else [])
      else (a, [])
    if d.shortCircuitDelay || now ≥ a.delayStart + us then ⟨d, setTop a { (topCtx a) with processing := false }, o, tele, true⟩
    else ⟨{ d with wake := some (a.delayStart + us - now) }, a, o, tele, false⟩
  | some (.setplugstate lit plugMp statMp interps) =>
    if !d.xmUsed then ⟨d, a, o, [.abortAssert "xm_used"], true⟩ else
    let plugName : Option Bytes := match lit with
      | some n => some n
      | none => match subOf d plugMp with
        | some n => some n
        | none => match e.plugs with
          | some (p :: _) => some p.name
          | _ => none
    match plugName with
    | none => ⟨d, a, o, [], true⟩
    | some pn =>
      match subOf d statMp, findPlug d pn with
      | some s, some plug =>
        -- first matching interpretation
        let (o, st, errs) := pickState askRx s interps o []
        let node := plug.node.getD []
        let as := (getArgs d a.arglist).map fun g => if g.node == node then { g with state := st, val := some s } else g
        ⟨setArgs d a.arglist as, a, o, errs, true⟩
      | _, _ => ⟨d, a, o, [], true⟩
  | some (.setresult plugMp statMp interps) =>
    if !d.xmUsed then ⟨d, a, o, [.abortAssert "xm_used"], true⟩ else
    match subOf d plugMp with
    | none => ⟨d, a, o, [], true⟩
    | some pn =>
      match subOf d statMp, findPlug d pn with
      | some s, some plug =>
        let (o, res, errs) := pickResult askRx s interps o []
        let node := plug.node.getD []
        let found := (getArgs d a.arglist).any (·.node == node)
        let as := (getArgs d a.arglist).map fun g => if g.node == node then { g with result := res, val := some s } else g
        let dg := if found && res != .success then
            let txt := s.takeWhile fun b => b != 13 && b != 10
            [Out.diag a.clientId (node ++ str ": " ++ txt.take 1023)] else []
        ⟨setArgs d a.arglist as, a, o, errs ++ dg, true⟩
      | _, _ => ⟨d, a, o, [], true⟩
  | some (.foreachplug body) | some (.foreachnode body) =>
    let isNode := match e.block[e.pos]? with | some (.foreachnode _) => true | _ => false
    let (lst, e1) :=
      if e.plugItr.isNone && isRanged a.com then
        let cp := e.plugCopy.getD (e.plugs.getD [])
        (cp, { e with plugCopy := some cp, plugItr := some 0 })
      else if e.plugItr.isNone then (d.plugs, { e with plugItr := some 0 })
      else (if isRanged a.com then e.plugCopy.getD [] else d.plugs, e)
    match nextPlug isNode lst (e1.plugItr.getD 0) (lst.length + 1) with
    | some (p, k) =>
      let newCtx : ExecCtx := { block := body, pos := 0, plugs := some [p], plugItr := none, plugCopy := none, processing := false }
      ⟨d, { a with exec := newCtx :: { e1 with plugItr := some k } :: a.exec.drop 1 }, o, [], true⟩
    | none => ⟨d, setTop a { e1 with plugItr := none }, o, [], true⟩
  | some (.ifon body) | some (.ifoff body) =>
    let wantOn := match e.block[e.pos]? with | some (.ifon _) => true | _ => false
    if e.processing then ⟨d, setTop a { e with processing := false }, o, [], true⟩ else
    let st : PState := match e.plugs with
      | some (p :: _) => match p.node with
        | some n => match (getArgs d a.arglist).find? (fun (g : Arg) => g.node == n) with
          | some g => g.state
          | none => PState.unknown
        | none => PState.unknown
      | _ => PState.unknown
    if (wantOn && st == .on) || (!wantOn && st == .off) then
      let newCtx : ExecCtx := { block := body, pos := 0, plugs := some (e.plugs.getD []), plugItr := none, plugCopy := none, processing := false }
      ⟨d, { a with exec := newCtx :: { e with processing := true } :: a.exec.drop 1 }, o, [], true⟩
    else if st == .unknown then ⟨d, { a with errnum := .expfail }, o, [], true⟩
    else ⟨d, a, o, [], true⟩

def rtab : List Nat := [1, 2, 4, 8, 15, 30, 60]

/-- `_reconnect` after an error on a connected device whose `connect` method fails (as in the
    harness): disconnect (flush both buffers), then attempt or register the back-off -/
def reconnectFail (d : Dev) (now : Time) (tmo : Option Time) : Dev × Option Time :=
  let d := { d with connected := false, toBuf := [], fromBuf := [] }
  let upd (t : Option Time) (left : Time) : Option Time := match t with | some x => some (min x left) | none => some left
  if d.retryCount > 0 then
    let wait := (rtab.getD (min (d.retryCount - 1) 6) 60) * 1000000
    if now ≥ d.lastRetry + wait then ({ d with lastRetry := now, retryCount := d.retryCount + 1 }, tmo)
    else (d, upd tmo (d.lastRetry + wait - now))
  else ({ d with lastRetry := now, retryCount := d.retryCount + 1 }, tmo)

/-- do { e = top; stalled = !process(e) } while (e != top) -/
def innerLoop (now : Time) : Nat → Dev → Action → Oracle → List Out → StepR
  | 0, d, a, o, acc => let r := processStmt d a o now; { r with out := acc ++ r.out }
  | fuel + 1, d, a, o, acc =>
    let depth := a.exec.length
    let r := processStmt d a o now
    if r.finished && r.act.exec.length > depth then innerLoop now fuel r.dev r.act r.oracle (acc ++ r.out)
    else { r with out := acc ++ r.out }

/-- `_process_action` for a connected, logged-in device (the loop over the queue head) -/
partial def processAction (d : Dev) (o : Oracle) (now : Time) (out : List Out) (tmo : Option Time) :
    Dev × Oracle × List Out × Option Time :=
  match d.acts with
  | [] => (d, o, out, tmo)
  | a :: rest =>
    let a := if a.timeStamp.isNone then { a with timeStamp := some now } else a
    let deadline := a.timeStamp.getD now + d.timeout
    let upd (t : Option Time) (left : Time) : Option Time := match t with | some x => some (min x left) | none => some left
    if now ≥ deadline then
      -- timeout: this action fails, every queued action is aborted
      let tele := if a.telemetry then [Out.telemetry a.clientId (str "recv(dev): '" ++ memstr d.fromBuf ++ str "'")] else []
      let fin := (if a.clientId != 0 then [Out.finish a.clientId .expfail] else []) ++
        (rest.filter (·.clientId != 0)).map fun b => Out.finish b.clientId .abort
      let (d', tmo') := reconnectFail { d with acts := [] } now tmo
      (d', o, out ++ tele ++ fin, tmo')
    else
      -- do { e = top; stalled = !process(e) } while (e != top)
      let r := innerLoop now 64 { d with wake := none } a o []
      let out := out ++ r.out
      if r.out.any (fun x => match x with | .abortAssert _ => true | _ => false) then ({ r.dev with acts := r.act :: rest }, r.oracle, out, tmo) else
      if !r.finished then ({ r.dev with acts := r.act :: rest }, r.oracle, out,
        upd (match r.dev.wake with | some w => upd tmo w | none => tmo) (deadline - now))
      else if r.act.errnum == .success then
        -- advance, pop finished blocks
        let e := topCtx r.act
        let e' := { e with pos := e.pos + 1 }
        let a' := if e'.block[e'.pos]?.isNone then { r.act with exec := r.act.exec.drop 1 } else setTop r.act e'
        if a'.exec.isEmpty then
          let fin := if a'.clientId != 0 then [Out.finish a'.clientId .success] else []
          processAction { r.dev with acts := rest } r.oracle now (out ++ fin) tmo
        else processAction { r.dev with acts := a' :: rest } r.oracle now out tmo
      else
        let fin := (if r.act.clientId != 0 then [Out.finish r.act.clientId r.act.errnum] else []) ++
          (rest.filter (·.clientId != 0)).map fun b => Out.finish b.clientId (if r.act.errnum == .expfail then .abort else r.act.errnum)
        let (d', tmo') := reconnectFail { r.dev with acts := [] } now tmo
        (d', r.oracle, out ++ fin, tmo')

end Pm.Dev

