import Pm.LexModel
import Pm.Generated.Tables
/-! # The configuration grammar (`parse_tab.y`) and the token level of `parse_lex.l` (C18, C17)

Hand-written, executable, total model of

* §1 the `%token` list of `src/powerman/parse_tab.y` (`Token`);
* §2 the token level of `src/powerman/parse_lex.l`: the rules of start condition `INITIAL` (comments, blanks, newlines with the
     line counter, the three numeric token classes, `$`, the keyword rules in rule order, `plug[ \t]+name`, `{ } =`, the
     catch-all `.` → `TOK_UNRECOGNIZED`), flex's longest-match / first-rule choice, start condition `lex_incl` (the include
     directive, with the include stack of `LexModel` §2 as a budget), and start condition `lex_str` by `strGo`, which is
     `LexModel.go` (string bodies) with the buffer kept at the end of the input (`GrammarLexProof.strGo_forget`).  Every token carries the scanner position `scanner_file()::scanner_line()` as it is
     right after the token was matched — what a diagnostic prints while that token is bison's look-ahead;
* §3 the grammar: an LL(1) parser on token lists, fuel = number of tokens + 1, accepting exactly the language of the bison
     grammar (all of it: `config_item`s in any order and number, also none; `spec_item`s in any order and number, at least one;
     non-empty `stmt_list`s, `string_list`s and interpretation lists; the three argument forms of `setplugstate`, each with an
     optional `on=`/`off=` list; `setresult` with its mandatory `success=` list; `tcpwrappers` with optional `yes|no`; `device`
     with 3 or 4 strings; `node` with 2 or 3), reporting the index of the first token that cannot continue a sentence (bison's
     LALR(1) automaton has the correct-prefix property, so that is the token at which `yyerror` is called), and producing the
     `Ast` and — in the order in which bison runs them — the *log* of semantic-action calls with, for each, the number of
     tokens the scanner had delivered when the action ran (`rd`: bison reads a look-ahead token only where a construct has an
     optional continuation — bare `tcpwrappers`, `node` with 2 strings, `device` with 3, every `setplugstate` and `setresult`,
     the end of a script list; everywhere else it reduces without one, which is why a diagnostic of an action names sometimes the line of the
     construct's last token and sometimes the line of the token after it).

Compared with the real flex/bison output (regenerated from the working tree, `harness/u_gramdump.c`) by `lib/gramlayer.py`
through the driver `GrMain.lean` on every run.  An included file that ends inside a string literal or inside an include
directive is modelled (flex keeps the start condition and `string_buf` across the `<<EOF>>` pop: `SC`).  NOT modelled: bison's
parser stack limit (`YYMAXDEPTH` = 10000 entries, two or three per nested block: nesting beyond ≈ 3300-5000 levels is a "parse
error" although the sentence is in the language), and a directory named by an include directive (`fopen` succeeds, the first
read fails: flex exits 2 with "input in flex scanner failed"; here: a missing file). -/
namespace Pm.Grammar
open Pm.LexModel

abbrev Bytes := List UInt8

/-! ## 1. tokens -/

/-- the `%token` list of `parse_tab.y`, in its order; the two tokens with a semantic value carry it -/
inductive Token where
  -- script names
  | login | logout | status | statusAll | statusTemp | statusTempAll | statusBeacon | statusBeaconAll
  | beaconOn | beaconOnRanged | beaconOff | beaconOffRanged
  | on | onRanged | onAll | off | offRanged | offAll | cycle | cycleRanged | cycleAll
  | reset | resetRanged | resetAll | ping | spec
  -- script statements
  | expect | setplugstate | setresult | send | delay | foreachplug | foreachnode | ifoff | ifon
  -- other device configuration stuff (the first four are declared, never produced by the lexer, never used by the grammar)
  | offString | onString | maxPlugCount | timeout | devTimeout | pingPeriod | plugName | script
  -- powerman.conf stuff
  | device | node | alias | tcpWrappers | listen | plugLogLevel
  -- general
  | matchpos | stringVal (s : Bytes) | numericVal (s : Bytes) | yes | no
  | begin_ | end_ | unrecognized | equals | success
deriving DecidableEq, Repr, Inhabited

/-- the name in the `%token` list -/
def Token.name : Token → String
  | .login => "TOK_LOGIN" | .logout => "TOK_LOGOUT" | .status => "TOK_STATUS" | .statusAll => "TOK_STATUS_ALL"
  | .statusTemp => "TOK_STATUS_TEMP" | .statusTempAll => "TOK_STATUS_TEMP_ALL" | .statusBeacon => "TOK_STATUS_BEACON"
  | .statusBeaconAll => "TOK_STATUS_BEACON_ALL" | .beaconOn => "TOK_BEACON_ON" | .beaconOnRanged => "TOK_BEACON_ON_RANGED"
  | .beaconOff => "TOK_BEACON_OFF" | .beaconOffRanged => "TOK_BEACON_OFF_RANGED" | .on => "TOK_ON" | .onRanged => "TOK_ON_RANGED"
  | .onAll => "TOK_ON_ALL" | .off => "TOK_OFF" | .offRanged => "TOK_OFF_RANGED" | .offAll => "TOK_OFF_ALL" | .cycle => "TOK_CYCLE"
  | .cycleRanged => "TOK_CYCLE_RANGED" | .cycleAll => "TOK_CYCLE_ALL" | .reset => "TOK_RESET" | .resetRanged => "TOK_RESET_RANGED"
  | .resetAll => "TOK_RESET_ALL" | .ping => "TOK_PING" | .spec => "TOK_SPEC" | .expect => "TOK_EXPECT"
  | .setplugstate => "TOK_SETPLUGSTATE" | .setresult => "TOK_SETRESULT" | .send => "TOK_SEND" | .delay => "TOK_DELAY"
  | .foreachplug => "TOK_FOREACHPLUG" | .foreachnode => "TOK_FOREACHNODE" | .ifoff => "TOK_IFOFF" | .ifon => "TOK_IFON"
  | .offString => "TOK_OFF_STRING" | .onString => "TOK_ON_STRING" | .maxPlugCount => "TOK_MAX_PLUG_COUNT" | .timeout => "TOK_TIMEOUT"
  | .devTimeout => "TOK_DEV_TIMEOUT" | .pingPeriod => "TOK_PING_PERIOD" | .plugName => "TOK_PLUG_NAME" | .script => "TOK_SCRIPT"
  | .device => "TOK_DEVICE" | .node => "TOK_NODE" | .alias => "TOK_ALIAS" | .tcpWrappers => "TOK_TCP_WRAPPERS" | .listen => "TOK_LISTEN"
  | .plugLogLevel => "TOK_PLUG_LOG_LEVEL" | .matchpos => "TOK_MATCHPOS" | .stringVal _ => "TOK_STRING_VAL"
  | .numericVal _ => "TOK_NUMERIC_VAL" | .yes => "TOK_YES" | .no => "TOK_NO" | .begin_ => "TOK_BEGIN" | .end_ => "TOK_END"
  | .unrecognized => "TOK_UNRECOGNIZED" | .equals => "TOK_EQUALS" | .success => "TOK_SUCCESS"

/-! ## 2. the token level of the lexer -/

/-- the literal rules of `parse_lex.l` between the string rules and `include`, in rule order -/
def kwTable : List (String × Token) :=
  [("listen", .listen), ("tcpwrappers", .tcpWrappers), ("plug_log_level", .plugLogLevel), ("timeout", .devTimeout),
   ("pingperiod", .pingPeriod), ("specification", .spec), ("expect", .expect), ("setplugstate", .setplugstate),
   ("setresult", .setresult), ("foreachnode", .foreachnode), ("foreachplug", .foreachplug), ("ifoff", .ifoff), ("ifon", .ifon),
   ("send", .send), ("delay", .delay), ("login", .login), ("logout", .logout), ("status", .status), ("status_all", .statusAll),
   ("on", .on), ("on_ranged", .onRanged), ("on_all", .onAll), ("off", .off), ("off_ranged", .offRanged), ("off_all", .offAll),
   ("cycle", .cycle), ("cycle_ranged", .cycleRanged), ("cycle_all", .cycleAll), ("reset", .reset), ("reset_ranged", .resetRanged),
   ("reset_all", .resetAll), ("ping", .ping), ("status_temp", .statusTemp), ("status_temp_all", .statusTempAll),
   ("status_beacon", .statusBeacon), ("status_beacon_all", .statusBeaconAll), ("beacon_on", .beaconOn),
   ("beacon_on_ranged", .beaconOnRanged), ("beacon_off", .beaconOff), ("beacon_off_ranged", .beaconOffRanged), ("device", .device),
   -- `plug[ \t]+name` stands here (`Rule.plugName`)
   ("node", .node), ("yes", .yes), ("no", .no), ("success", .success), ("{", .begin_), ("}", .end_), ("=", .equals),
   ("script", .script), ("alias", .alias)]

def kwBytes : List (Bytes × Token) := kwTable.map fun p => (p.1.toUTF8.toList, p.2)

/-- what the action of the matched rule does -/
inductive Rule where
  | comment            -- `#[^\n]*\n`        linenum++
  | blanks             -- `[ \t\r]+`
  | newline            -- `[\n]`             linenum++
  | number             -- `([0-9]+)|([0-9]+"."[0-9]*)|("."[0-9]+)`   return TOK_NUMERIC_VAL
  | dollar             -- `\$`               return TOK_MATCHPOS
  | quote              -- `\"`               BEGIN(lex_str)
  | kw (t : Token)     -- a literal rule     return t
  | incl               -- `include`          BEGIN(lex_incl)
  | any                -- `.`                return TOK_UNRECOGNIZED
deriving Repr

def isBlank (c : UInt8) : Bool := c = 0x20 || c = 0x09 || c = 0x0d
def isSpTab (c : UInt8) : Bool := c = 0x20 || c = 0x09

/-- length of the match of `#[^\n]*\n` (0: no match — in particular a comment that is not ended by a newline) -/
def commentLen (r : Bytes) : Nat :=
  match r with
  | 0x23 :: _ =>
    let k := (r.takeWhile (· != 0x0a)).length
    match r.drop k with
    | [] => 0
    | _ :: _ => k + 1
  | _ => 0

/-- length of the longest match of `([0-9]+)|([0-9]+"."[0-9]*)|("."[0-9]+)` -/
def numLen (r : Bytes) : Nat :=
  let a := (r.takeWhile isDigit).length
  match r.drop a with
  | 0x2e :: f => let b := (f.takeWhile isDigit).length; if a = 0 ∧ b = 0 then 0 else a + 1 + b
  | _ => a

/-- length of the match of `plug[ \t]+name` -/
def plugNameLen (r : Bytes) : Nat :=
  if "plug".toUTF8.toList.isPrefixOf r then
    let b := ((r.drop 4).takeWhile isSpTab).length
    if b > 0 ∧ "name".toUTF8.toList.isPrefixOf (r.drop (4 + b)) then 4 + b + 4 else 0
  else 0

def litLen (k r : Bytes) : Nat := if k.isPrefixOf r then k.length else 0

/-- every rule of start condition `INITIAL` with the length of its match at `r`, in the order of the rules in `parse_lex.l` -/
def candidates (r : Bytes) : List (Nat × Rule) :=
  [(commentLen r, .comment), ((r.takeWhile isBlank).length, .blanks), (litLen [0x0a] r, .newline), (numLen r, .number),
   (litLen [0x24] r, .dollar), (litLen [0x22] r, .quote)]
  ++ (kwBytes.take 41).map (fun p => (litLen p.1 r, Rule.kw p.2))
  ++ [(plugNameLen r, .kw .plugName)]
  ++ (kwBytes.drop 41).map (fun p => (litLen p.1 r, Rule.kw p.2))
  ++ [(litLen "include".toUTF8.toList r, .incl),
      ((match r with | c :: _ => if c = 0x0a then 0 else 1 | [] => 0), .any)]

/-- flex's choice: the longest match; among equally long ones the rule that comes first -/
def best : List (Nat × Rule) → Option (Nat × Rule) → Option (Nat × Rule)
  | [], b => b
  | (n, a) :: rest, none => best rest (if n > 0 then some (n, a) else none)
  | (n, a) :: rest, some (m, b) => best rest (if n > m then some (n, a) else some (m, b))

def matchInit (r : Bytes) : Option (Nat × Rule) := best (candidates r) none

/-- a token with the scanner position right after it was matched -/
structure LTok where
  tok : Token
  file : Bytes
  line : Nat
deriving Repr, Inhabited

/-- the way the token stream ends -/
inductive LexEnd where
  | eof (file : Bytes) (line : Nat)          -- `yyterminate()` at `include_stack_ptr = 0`: the grammar sees end of input
  | errNewline (file : Bytes) (line : Nat)   -- rule `<lex_str>"\n" { yyerror(); }`: "parse error: file::line", exit 1
  | tooLong (file : Bytes) (line : Nat)      -- `_string_buf_add`: "string too long: file::line", exit 1
  | tooDeep                                  -- "Includes nested too deeply", exit 1
  | missing (name : Bytes)                   -- `fopen` of an include file fails: "name: No such file or directory", exit 1
  | unmodelled (why : String)                -- see the header
  | fuel                                     -- never (every step consumes at least one byte: `GrammarLexProof.lexFile_ok`)
deriving Repr, Inhabited, DecidableEq

/-- result of scanning in start condition `lex_str`: `LexModel.Raw`, except that at the end of the input it says what the
    buffer holds (an included file may end inside a literal: flex keeps the start condition and `string_buf` across the
    `<<EOF>>` pop, the literal goes on in the including file) -/
inductive StrEnd where
  | tok (buf : Array UInt8) (rest : List UInt8)
  | errNewline
  | tooLong
  | eof (buf : Array UInt8)
  | overrun
deriving Inhabited

/-- `LexModel.go` with the buffer kept at the end of the input (`strGo_forget`: otherwise the same function) -/
def strGo : List UInt8 → Nat → Bool → Array UInt8 → StrEnd
  | [], _, _, buf => .eof buf
  | _ :: rest, pend + 1, skip, buf => strGo rest pend skip buf
  | c :: rest, 0, skip, buf =>
    if c = 0x22 then (if buf.size < STRING_BUF then .tok buf rest else .overrun)
    else if c = 0x0a then .errNewline
    else if c = 0x5c then
      match escTok rest with
      | none => .eof buf
      | some (v, n) =>
        match stringBufAdd buf v with
        | .cont b => strGo rest n false b
        | .exitTooLong => .tooLong
        | .overrun => .overrun
    else if skip then strGo rest 0 true buf
    else if c = 0 then strGo rest 0 true buf
    else
      match stringBufAdd buf c with
      | .cont b => strGo rest 0 false b
      | .exitTooLong => .tooLong
      | .overrun => .overrun

def StrEnd.forget : StrEnd → Raw
  | .tok b r => .tok b r
  | .errNewline => .errNewline
  | .tooLong => .tooLong
  | .eof _ => .eof
  | .overrun => .overrun

/-- start condition of the scanner, with the content of `string_buf` in `lex_str` -/
inductive SC where
  | init
  | incl
  | str (buf : Array UInt8)
deriving Inhabited

/-- the way the scan of one buffer (file) ends -/
inductive BufEnd where
  | done (sc : SC) (line : Nat)    -- end of the buffer, in this start condition
  | stop (e : LexEnd)
deriving Inhabited

/-- the file name of rule `<lex_incl>[^ \t\n]+`: `yytext[len-1] = '\0'; … yytext + 1` as a C string -/
def inclName (tok : Bytes) : Bytes := (tok.dropLast.drop 1).takeWhile (· != 0)

def isNameByte (c : UInt8) : Bool := !(c = 0x20 || c = 0x09 || c = 0x0a)

/-- one buffer.  `sub name acc` scans the file an include directive names (one level deeper, from start condition `INITIAL`) and
    returns the tokens and either the start condition it ended in (the scan goes on in it, in this buffer) or the way the
    process ended in there. -/
def lexBuf (sub : Bytes → Array LTok → Array LTok × Except LexEnd SC) (file : Bytes) :
    Nat → SC → Bytes → Nat → Array LTok → Array LTok × BufEnd
  | 0, _, _, _, acc => (acc, .stop .fuel)
  | fuel + 1, .incl, r, line, acc =>
    match r with
    | [] => (acc, .done .incl line)
    | c :: r' =>
      if c = 0x0a then lexBuf sub file fuel .incl r' (line + 1) acc
      else if isSpTab c then lexBuf sub file fuel .incl r' line acc
      else
        let tok := r.takeWhile isNameByte
        match sub (inclName tok) acc with
        | (acc', .error e) => (acc', .stop e)
        | (acc', .ok sc) => lexBuf sub file fuel sc (r.drop tok.length) line acc'
  | fuel + 1, .str buf, r, line, acc =>
    match strGo r 0 false buf with
    | .tok b rest' => lexBuf sub file fuel .init rest' line (acc.push ⟨.stringVal (cstr b), file, line⟩)
    | .errNewline => (acc, .stop (.errNewline file line))
    | .tooLong => (acc, .stop (.tooLong file line))
    | .eof b => (acc, .done (.str b) line)
    | .overrun => (acc, .stop (.unmodelled "store outside string_buf"))   -- never: `C18_string_fill`
  | fuel + 1, .init, r, line, acc =>
    match r with
    | [] => (acc, .done .init line)
    | _ :: _ =>
      match matchInit r with
      | none => (acc, .stop (.unmodelled "no rule matches"))          -- never: `.` or `\n` match any byte
      | some (n, rule) =>
        let rest := r.drop n
        match rule with
        | .comment => lexBuf sub file fuel .init rest (line + 1) acc
        | .newline => lexBuf sub file fuel .init rest (line + 1) acc
        | .blanks => lexBuf sub file fuel .init rest line acc
        | .number => lexBuf sub file fuel .init rest line (acc.push ⟨.numericVal (r.take n), file, line⟩)
        | .dollar => lexBuf sub file fuel .init rest line (acc.push ⟨.matchpos, file, line⟩)
        | .kw t => lexBuf sub file fuel .init rest line (acc.push ⟨t, file, line⟩)
        | .any => lexBuf sub file fuel .init rest line (acc.push ⟨.unrecognized, file, line⟩)
        | .incl => lexBuf sub file fuel .incl rest line acc
        | .quote => lexBuf sub file fuel (.str #[]) rest line acc

/-- a file at include budget `k` (`k = MAX_INCLUDE_DEPTH - 1 - include_stack_ptr`), from start condition `INITIAL`
    (`BEGIN(INITIAL)` precedes the switch to the new buffer); the depth test precedes the `fopen`.  The fuel is the length
    of the file plus one: every step consumes at least one byte or ends the buffer. -/
def lexAt (fs : Bytes → Option Bytes) : Nat → Bytes → Bytes → Array LTok → Array LTok × BufEnd
  | 0 => fun file content acc => lexBuf (fun _ a => (a, .error .tooDeep)) file (content.length + 1) .init content 1 acc
  | k + 1 => fun file content acc =>
    lexBuf (fun name a =>
      match fs name with
      | none => (a, .error (.missing name))
      | some c =>
        match lexAt fs k name c a with
        | (a', .done sc _) => (a', .ok sc)
        | (a', .stop e) => (a', .error e)) file (content.length + 1) .init content 1 acc

/-- the whole configuration: `main` at `include_stack_ptr = 0`.  Tokens delivered to the grammar, and how the stream ends.
    End of input inside a string literal or an include directive of the outermost file is plain end of input
    (`yyterminate()`): the unfinished literal is dropped. -/
def lexFile (fs : Bytes → Option Bytes) (main content : Bytes) : List LTok × LexEnd :=
  match lexAt fs (MAX_INCLUDE_DEPTH - 1) main content #[] with
  | (acc, .done _ line) => (acc.toList, .eof main line)
  | (acc, .stop e) => (acc.toList, e)

/-- one file without includes (an include directive ends the scan with `missing`) -/
def lexToks (content : Bytes) : List Token ⊕ LexEnd :=
  match lexFile (fun _ => none) [] content with
  | (ts, .eof _ _) => .inl (ts.map (·.tok))
  | (_, e) => .inr e

/-! ## 3. the grammar -/

/-- `TOK_SCRIPT <name>`: the index `makeScript` is called with (the `PM_*` values are regenerated from `device_private.h`) -/
def scriptKind : Token → Option Nat
  | .login => some Pm.Generated.PM_LOG_IN | .logout => some Pm.Generated.PM_LOG_OUT
  | .status => some Pm.Generated.PM_STATUS_PLUGS | .statusAll => some Pm.Generated.PM_STATUS_PLUGS_ALL
  | .statusTemp => some Pm.Generated.PM_STATUS_TEMP | .statusTempAll => some Pm.Generated.PM_STATUS_TEMP_ALL
  | .statusBeacon => some Pm.Generated.PM_STATUS_BEACON | .statusBeaconAll => some Pm.Generated.PM_STATUS_BEACON_ALL
  | .beaconOn => some Pm.Generated.PM_BEACON_ON | .beaconOnRanged => some Pm.Generated.PM_BEACON_ON_RANGED
  | .beaconOff => some Pm.Generated.PM_BEACON_OFF | .beaconOffRanged => some Pm.Generated.PM_BEACON_OFF_RANGED
  | .on => some Pm.Generated.PM_POWER_ON | .onRanged => some Pm.Generated.PM_POWER_ON_RANGED | .onAll => some Pm.Generated.PM_POWER_ON_ALL
  | .off => some Pm.Generated.PM_POWER_OFF | .offRanged => some Pm.Generated.PM_POWER_OFF_RANGED | .offAll => some Pm.Generated.PM_POWER_OFF_ALL
  | .cycle => some Pm.Generated.PM_POWER_CYCLE | .cycleRanged => some Pm.Generated.PM_POWER_CYCLE_RANGED
  | .cycleAll => some Pm.Generated.PM_POWER_CYCLE_ALL
  | .reset => some Pm.Generated.PM_RESET | .resetRanged => some Pm.Generated.PM_RESET_RANGED | .resetAll => some Pm.Generated.PM_RESET_ALL
  | .ping => some Pm.Generated.PM_PING
  | _ => none

/-- the four statement kinds with a sub-block -/
inductive BK where
  | foreachnode | foreachplug | ifoff | ifon
deriving DecidableEq, Repr

def blockKind : Token → Option BK
  | .foreachnode => some .foreachnode | .foreachplug => some .foreachplug | .ifoff => some .ifoff | .ifon => some .ifon
  | _ => none

/-- a statement as `makePreStmt` receives it: literal strings, numbers as their token text.  `rd` (where a conversion can
    fail): the number of tokens the scanner had delivered when `makePreStmt` ran. -/
inductive PStmt where
  | expect (re : Bytes)
  | send (fmt : Bytes)
  | delay (num : Bytes) (rd : Nat)
  /-- `setplugstate "plug" $mp2 …` (plug = some, mp1 = none), `setplugstate $mp1 $mp2 …`, `setplugstate $mp2 …` (both none);
      interpretations: `true` = `on=`, `false` = `off=` -/
  | setplugstate (plug : Option Bytes) (mp1 : Option Bytes) (mp2 : Bytes) (interps : List (Bool × Bytes)) (rd : Nat)
  | setresult (mp1 mp2 : Bytes) (interps : List Bytes) (rd : Nat)
  | block (k : BK) (body : List PStmt)
deriving Repr, Inhabited

/-- one `spec_item` -/
inductive SpecItem where
  | timeout (num : Bytes) (rd : Nat)
  | pingPeriod (num : Bytes) (rd : Nat)
  | plugs (names : List Bytes) (rd : Nat)
  | script (kind : Nat) (body : List PStmt) (rd : Nat)
deriving Repr, Inhabited

/-- one `config_item` -/
inductive Item where
  | listen (s : Bytes) (rd : Nat)
  | tcpWrappers (v : Option Bool) (rd : Nat)      -- none: without yes|no (warning, then as `yes`)
  | plugLogLevel (s : Bytes) (rd : Nat)
  | device (name spec host : Bytes) (flags : Option Bytes) (rd : Nat)
  | node (nodes dev : Bytes) (plugs : Option Bytes) (rd : Nat)
  | alias (name hosts : Bytes) (rd : Nat)
  | spec (name : Bytes) (items : List SpecItem) (rd : Nat)
deriving Repr, Inhabited

abbrev Ast := List Item

/-- a semantic-action call -/
inductive Ev where
  | stmt (s : PStmt)          -- `makePreStmt`
  | specItem (s : SpecItem)   -- `spec_timeout`, `spec_ping_period`, `spec_plug_list`, `makeScript`
  | item (i : Item)           -- `makeSpec`, `makeDevice`, `makeNode`, `makeAlias`, `conf_*`
deriving Repr, Inhabited

/-- the remaining tokens and the index of the first of them -/
structure Cur where
  toks : List Token
  i : Nat
deriving Repr

/-- result of a parsing function that runs no action -/
inductive R0 (α : Type) where
  | ok (a : α) (c : Cur)
  | err (idx : Nat)
  | fuel

/-- result of a parsing function that runs actions: the log (newest first) survives an error -/
inductive R (α : Type) where
  | ok (a : α) (c : Cur) (log : List Ev)
  | err (idx : Nat) (log : List Ev)
  | fuel

def pStr (c : Cur) : R0 Bytes :=
  match c.toks with
  | .stringVal s :: r => .ok s ⟨r, c.i + 1⟩
  | _ => .err c.i

def pNum (c : Cur) : R0 Bytes :=
  match c.toks with
  | .numericVal s :: r => .ok s ⟨r, c.i + 1⟩
  | _ => .err c.i

def pTok (t : Token) (c : Cur) : R0 Unit :=
  match c.toks with
  | x :: r => if x = t then .ok () ⟨r, c.i + 1⟩ else .err c.i
  | [] => .err c.i

/-- `regmatch : TOK_MATCHPOS TOK_NUMERIC_VAL` -/
def pRegmatch (c : Cur) : R0 Bytes :=
  match pTok .matchpos c with
  | .ok _ c1 => pNum c1
  | .err i => .err i
  | .fuel => .fuel

/-- `= "string"` -/
def pEqStr (c : Cur) : R0 Bytes :=
  match pTok .equals c with
  | .ok _ c1 => pStr c1
  | .err i => .err i
  | .fuel => .fuel

/-- `state_interp_list`, as far as it goes (the caller has seen that it is not empty, or accepts that it is) -/
def pInterps : Nat → Cur → List (Bool × Bytes) → R0 (List (Bool × Bytes))
  | 0, _, _ => .fuel
  | f + 1, c, acc =>
    match c.toks with
    | .on :: r =>
      match pEqStr ⟨r, c.i + 1⟩ with
      | .ok s c' => pInterps f c' ((true, s) :: acc)
      | .err i => .err i
      | .fuel => .fuel
    | .off :: r =>
      match pEqStr ⟨r, c.i + 1⟩ with
      | .ok s c' => pInterps f c' ((false, s) :: acc)
      | .err i => .err i
      | .fuel => .fuel
    | _ => .ok acc.reverse c

/-- `result_interp_list`, as far as it goes -/
def pRInterps : Nat → Cur → List Bytes → R0 (List Bytes)
  | 0, _, _ => .fuel
  | f + 1, c, acc =>
    match c.toks with
    | .success :: r =>
      match pEqStr ⟨r, c.i + 1⟩ with
      | .ok s c' => pRInterps f c' (s :: acc)
      | .err i => .err i
      | .fuel => .fuel
    | _ => .ok acc.reverse c

/-- `string_list`, as far as it goes -/
def pStrings : Nat → Cur → List Bytes → R0 (List Bytes)
  | 0, _, _ => .fuel
  | f + 1, c, acc =>
    match c.toks with
    | .stringVal s :: r => pStrings f ⟨r, c.i + 1⟩ (s :: acc)
    | _ => .ok acc.reverse c

/-- the rest of a `setplugstate` statement after its operands: the optional interpretation list.  In every one of these
    states bison needs the look-ahead token (`on`/`off` continue, anything else reduces): `rd = consumed + 1`. -/
def pSpsTail (f : Nat) (plug mp1 : Option Bytes) (mp2 : Bytes) (c : Cur) : R0 PStmt :=
  match pInterps f c [] with
  | .ok l c' => .ok (.setplugstate plug mp1 mp2 l (c'.i + 1)) c'
  | .err i => .err i
  | .fuel => .fuel

/-- `TOK_SETPLUGSTATE` has been consumed -/
def pSetplugstate (f : Nat) (c : Cur) : R0 PStmt :=
  match c.toks with
  | .stringVal s :: r =>
    match pRegmatch ⟨r, c.i + 1⟩ with
    | .ok m c1 => pSpsTail f (some s) none m c1
    | .err i => .err i
    | .fuel => .fuel
  | _ =>
    match pRegmatch c with
    | .ok m1 c1 =>
      match c1.toks with
      | .matchpos :: _ =>
        match pRegmatch c1 with
        | .ok m2 c2 => pSpsTail f none (some m1) m2 c2
        | .err i => .err i
        | .fuel => .fuel
      | _ => pSpsTail f none none m1 c1
    | .err i => .err i
    | .fuel => .fuel

/-- `TOK_SETRESULT` has been consumed: `regmatch regmatch result_interp_list` (the list is mandatory) -/
def pSetresult (f : Nat) (c : Cur) : R0 PStmt :=
  match pRegmatch c with
  | .ok m1 c1 =>
    match pRegmatch c1 with
    | .ok m2 c2 =>
      match pRInterps f c2 [] with
      | .ok l c3 => if l.isEmpty then .err c3.i else .ok (.setresult m1 m2 l (c3.i + 1)) c3
      | .err i => .err i
      | .fuel => .fuel
    | .err i => .err i
    | .fuel => .fuel
  | .err i => .err i
  | .fuel => .fuel

/-- a statement without sub-block; `none`: the token does not start one -/
def pSimple (f : Nat) (c : Cur) : Option (R0 PStmt) :=
  match c.toks with
  | .expect :: r => some (match pStr ⟨r, c.i + 1⟩ with | .ok s c' => .ok (.expect s) c' | .err i => .err i | .fuel => .fuel)
  | .send :: r => some (match pStr ⟨r, c.i + 1⟩ with | .ok s c' => .ok (.send s) c' | .err i => .err i | .fuel => .fuel)
  | .delay :: r => some (match pNum ⟨r, c.i + 1⟩ with | .ok s c' => .ok (.delay s c'.i) c' | .err i => .err i | .fuel => .fuel)
  | .setplugstate :: r => some (pSetplugstate f ⟨r, c.i + 1⟩)
  | .setresult :: r => some (pSetresult f ⟨r, c.i + 1⟩)
  | _ => none

/-- an open sub-block: its kind and the statements of the enclosing block so far (newest first) -/
structure Frame where
  kind : BK
  acc : List PStmt

/-- the inside of a `stmt_block` after its `{`, up to and including the matching `}`: an LL machine with the open sub-blocks
    on a stack; every step consumes at least one token.  `cur`: the statements of the innermost open block so far (newest
    first).  A `}` closes a block only if the block is not empty (`stmt_list` has no empty production). -/
def pBody : Nat → Cur → List Frame → List PStmt → List Ev → R (List PStmt)
  | 0, _, _, _, _ => .fuel
  | f + 1, c, frames, cur, log =>
    match c.toks with
    | [] => .err c.i log
    | .end_ :: r =>
      match cur with
      | [] => .err c.i log
      | _ :: _ =>
        match frames with
        | [] => .ok cur.reverse ⟨r, c.i + 1⟩ log
        | fr :: frs => pBody f ⟨r, c.i + 1⟩ frs (.block fr.kind cur.reverse :: fr.acc) (.stmt (.block fr.kind cur.reverse) :: log)
    | t :: r =>
      match blockKind t with
      | some k =>
        match r with
        | .begin_ :: r' => pBody f ⟨r', c.i + 2⟩ (⟨k, cur⟩ :: frames) [] log
        | _ => .err (c.i + 1) log
      | none =>
        match pSimple f c with
        | none => .err c.i log
        | some (.ok s c') => pBody f c' frames (s :: cur) (.stmt s :: log)
        | some (.err i) => .err i log
        | some .fuel => .fuel

/-- one `spec_item`; `none`: the token does not start one -/
def pSpecItem (f : Nat) (c : Cur) (log : List Ev) : Option (R SpecItem) :=
  match c.toks with
  | .devTimeout :: r =>
    some (match pNum ⟨r, c.i + 1⟩ with
      | .ok n c' => .ok (.timeout n c'.i) c' (.specItem (.timeout n c'.i) :: log)
      | .err i => .err i log
      | .fuel => .fuel)
  | .pingPeriod :: r =>
    some (match pNum ⟨r, c.i + 1⟩ with
      | .ok n c' => .ok (.pingPeriod n c'.i) c' (.specItem (.pingPeriod n c'.i) :: log)
      | .err i => .err i log
      | .fuel => .fuel)
  | .plugName :: r =>
    some (match pTok .begin_ ⟨r, c.i + 1⟩ with
      | .ok _ c1 =>
        match pStrings f c1 [] with
        | .ok l c2 =>
          if l.isEmpty then .err c2.i log
          else match pTok .end_ c2 with
            | .ok _ c3 => .ok (.plugs l c3.i) c3 (.specItem (.plugs l c3.i) :: log)
            | .err i => .err i log
            | .fuel => .fuel
        | .err i => .err i log
        | .fuel => .fuel
      | .err i => .err i log
      | .fuel => .fuel)
  | .script :: r =>
    some (match r with
      | k :: r1 =>
        match scriptKind k with
        | some kind =>
          match pTok .begin_ ⟨r1, c.i + 2⟩ with
          | .ok _ c1 =>
            match pBody f c1 [] [] log with
            | .ok body c2 log' => .ok (.script kind body c2.i) c2 (.specItem (.script kind body c2.i) :: log')
            | .err i log' => .err i log'
            | .fuel => .fuel
          | .err i => .err i log
          | .fuel => .fuel
        | none => .err (c.i + 1) log
      | [] => .err (c.i + 1) log)
  | _ => none

/-- `spec_item_list`, as far as it goes -/
def pSpecItems : Nat → Cur → List SpecItem → List Ev → R (List SpecItem)
  | 0, _, _, _ => .fuel
  | f + 1, c, acc, log =>
    match pSpecItem f c log with
    | none => .ok acc.reverse c log
    | some (.ok s c' log') => pSpecItems f c' (s :: acc) log'
    | some (.err i log') => .err i log'
    | some .fuel => .fuel

/-- `TOK_SPEC` has been consumed: `TOK_STRING_VAL TOK_BEGIN spec_item_list TOK_END` -/
def pSpec (f : Nat) (c : Cur) (log : List Ev) : R Item :=
  match pStr c with
  | .ok name c1 =>
    match pTok .begin_ c1 with
    | .ok _ c2 =>
      match pSpecItems f c2 [] log with
      | .ok items c3 log' =>
        if items.isEmpty then .err c3.i log'
        else match pTok .end_ c3 with
          | .ok _ c4 => .ok (.spec name items c4.i) c4 (.item (.spec name items c4.i) :: log')
          | .err i => .err i log'
          | .fuel => .fuel
      | .err i log' => .err i log'
      | .fuel => .fuel
    | .err i => .err i log
    | .fuel => .fuel
  | .err i => .err i log
  | .fuel => .fuel

/-- two strings -/
def pStr2 (c : Cur) : R0 (Bytes × Bytes) :=
  match pStr c with
  | .ok a c1 => (match pStr c1 with | .ok b c2 => .ok (a, b) c2 | .err i => .err i | .fuel => .fuel)
  | .err i => .err i
  | .fuel => .fuel

/-- an optional further string: bison reads the look-ahead to decide (`rd = consumed + 1` when it is absent) -/
def pOptStr (c : Cur) : Option Bytes × Cur × Nat :=
  match c.toks with
  | .stringVal s :: r => (some s, ⟨r, c.i + 1⟩, c.i + 1)
  | _ => (none, c, c.i + 1)

def R.ofItem (it : Item) (c : Cur) (log : List Ev) : R Item := .ok it c (.item it :: log)

/-- one `config_item`; `none`: the token does not start one -/
def pItem (f : Nat) (c : Cur) (log : List Ev) : Option (R Item) :=
  match c.toks with
  | .listen :: r =>
    some (match pStr ⟨r, c.i + 1⟩ with | .ok s c' => R.ofItem (.listen s c'.i) c' log | .err i => .err i log | .fuel => .fuel)
  | .plugLogLevel :: r =>
    some (match pStr ⟨r, c.i + 1⟩ with | .ok s c' => R.ofItem (.plugLogLevel s c'.i) c' log | .err i => .err i log | .fuel => .fuel)
  | .tcpWrappers :: r =>
    some (match r with
      | .yes :: r' => R.ofItem (.tcpWrappers (some true) (c.i + 2)) ⟨r', c.i + 2⟩ log
      | .no :: r' => R.ofItem (.tcpWrappers (some false) (c.i + 2)) ⟨r', c.i + 2⟩ log
      | _ => R.ofItem (.tcpWrappers none (c.i + 2)) ⟨r, c.i + 1⟩ log)
  | .alias :: r =>
    some (match pStr2 ⟨r, c.i + 1⟩ with | .ok p c' => R.ofItem (.alias p.1 p.2 c'.i) c' log | .err i => .err i log | .fuel => .fuel)
  | .node :: r =>
    some (match pStr2 ⟨r, c.i + 1⟩ with
      | .ok p c' => (match pOptStr c' with | (o, c'', rd) => R.ofItem (.node p.1 p.2 o rd) c'' log)
      | .err i => .err i log
      | .fuel => .fuel)
  | .device :: r =>
    some (match pStr2 ⟨r, c.i + 1⟩ with
      | .ok p c1 =>
        match pStr c1 with
        | .ok h c2 => (match pOptStr c2 with | (o, c3, rd) => R.ofItem (.device p.1 p.2 h o rd) c3 log)
        | .err i => .err i log
        | .fuel => .fuel
      | .err i => .err i log
      | .fuel => .fuel)
  | .spec :: r => some (pSpec f ⟨r, c.i + 1⟩ log)
  | _ => none

/-- `configuration_file : config_list` — any number of items, then end of input -/
def pItems : Nat → Cur → List Item → List Ev → R Ast
  | 0, _, _, _ => .fuel
  | f + 1, c, acc, log =>
    match c.toks with
    | [] => .ok acc.reverse c log
    | _ :: _ =>
      match pItem f c log with
      | none => .err c.i log
      | some (.ok it c' log') => pItems f c' (it :: acc) log'
      | some (.err i log') => .err i log'
      | some .fuel => .fuel

/-- the parser with explicit fuel -/
def parseF (fuel : Nat) (toks : List Token) : R Ast := pItems fuel ⟨toks, 0⟩ [] []

inductive ParseError where
  /-- the token at this index (the number of tokens: the end of input) cannot continue a sentence of the grammar: the real
      parser calls `yyerror()` with this token as its look-ahead → "parse error: file::line of that token", exit 1 -/
  | syntax (idx : Nat)
  | fuel
deriving DecidableEq, Repr

/-- the fuel is the number of tokens plus one (`GrammarProof.parse_total`: it is never exhausted) -/
def parseConfig (toks : List Token) : Except ParseError Ast :=
  match parseF (toks.length + 1) toks with
  | .ok a _ _ => .ok a
  | .err i _ => .error (.syntax i)
  | .fuel => .error .fuel

/-- the semantic-action calls in the order bison makes them, up to the end of input or the offending token -/
def parseLog (toks : List Token) : List Ev × Option ParseError :=
  match parseF (toks.length + 1) toks with
  | .ok _ _ log => (log.reverse, none)
  | .err i log => (log.reverse, some (.syntax i))
  | .fuel => ([], some .fuel)

end Pm.Grammar
